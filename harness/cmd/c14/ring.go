package main

import (
	stdring "container/ring"
	"fmt"
	"strconv"
	"strings"
	"time"

	kring "github.com/dapr/kit/ring"
)

// ringCase: ops are driver lines ("rnew n=3", "rlink p=0 s=nil", …); node ids = allocation order.
type ringCase struct {
	Kind string   `json:"kind"`
	Ops  []string `json:"ops"`
}

type kitSide struct {
	nodes []*kring.Ring[int]
	id    map[*kring.Ring[int]]int
}

func (k *kitSide) reg(r *kring.Ring[int], n int) {
	p := r
	for i := 0; i < n; i++ {
		k.id[p] = len(k.nodes)
		k.nodes = append(k.nodes, p)
		p = p.Next()
	}
}
// regOne registers a single node without calling any method on it (zero-value / literal elements
// must stay uninitialised until the sequence's own first call).
func (k *kitSide) regOne(r *kring.Ring[int]) {
	k.id[r] = len(k.nodes)
	k.nodes = append(k.nodes, r)
}
func (k *kitSide) show(r *kring.Ring[int]) string {
	if r == nil {
		return "nil"
	}
	if i, ok := k.id[r]; ok {
		return strconv.Itoa(i)
	}
	return "unknown-node"
}

type stdSide struct {
	nodes []*stdring.Ring
	id    map[*stdring.Ring]int
}

func (k *stdSide) reg(r *stdring.Ring, n int) {
	p := r
	for i := 0; i < n; i++ {
		k.id[p] = len(k.nodes)
		k.nodes = append(k.nodes, p)
		p.Value = 0
		p = p.Next()
	}
}
func (k *stdSide) regOne(r *stdring.Ring) {
	k.id[r] = len(k.nodes)
	k.nodes = append(k.nodes, r)
}
func (k *stdSide) show(r *stdring.Ring) string {
	if r == nil {
		return "nil"
	}
	if i, ok := k.id[r]; ok {
		return strconv.Itoa(i)
	}
	return "unknown-node"
}

func kv(line string) (string, map[string]string) {
	fs := strings.Fields(line)
	m := map[string]string{}
	for _, f := range fs[1:] {
		if i := strings.IndexByte(f, '='); i >= 0 {
			m[f[:i]] = f[i+1:]
		}
	}
	return fs[0], m
}

func atoi(s string) int { n, _ := strconv.Atoi(s); return n }

// execRing runs the case on dapr/kit's ring and on container/ring; returns per-op answers of both.
func execRing(rc ringCase) (kit, std []string, outcome string) {
	outcome = guarded(2*time.Second, func() {
		K := &kitSide{id: map[*kring.Ring[int]]int{}}
		S := &stdSide{id: map[*stdring.Ring]int{}}
		kp := func(s string) *kring.Ring[int] {
			if s == "nil" {
				return nil
			}
			return K.nodes[atoi(s)]
		}
		sp := func(s string) *stdring.Ring {
			if s == "nil" {
				return nil
			}
			return S.nodes[atoi(s)]
		}
		kDead, sDead := false, false
		// each side's call runs under its own recover: a panic of one implementation is an answer
		safe := func(f func() string) (out string) {
			defer func() {
				if r := recover(); r != nil {
					out = "panic"
				}
			}()
			return f()
		}
		for _, line := range rc.Ops {
			op, a := kv(line)
			var kf, sf func() string
			switch op {
			case "rnew":
				n := atoi(a["n"])
				kf = func() string {
					kr := kring.New[int](n)
					if n > 0 {
						K.reg(kr, n)
					}
					return K.show(kr)
				}
				sf = func() string {
					sr := stdring.New(n)
					if n > 0 {
						S.reg(sr, n)
					}
					return S.show(sr)
				}
			case "rzero":
				kf = func() string { kr := new(kring.Ring[int]); K.regOne(kr); return K.show(kr) }
				sf = func() string { sr := new(stdring.Ring); sr.Value = 0; S.regOne(sr); return S.show(sr) }
			case "rlit":
				v := atoi(a["v"])
				kf = func() string { kr := &kring.Ring[int]{Value: v}; K.regOne(kr); return K.show(kr) }
				sf = func() string { sr := &stdring.Ring{Value: v}; S.regOne(sr); return S.show(sr) }
			case "rnext":
				kf = func() string { return K.show(kp(a["p"]).Next()) }
				sf = func() string { return S.show(sp(a["p"]).Next()) }
			case "rprev":
				kf = func() string { return K.show(kp(a["p"]).Prev()) }
				sf = func() string { return S.show(sp(a["p"]).Prev()) }
			case "rmove":
				kf = func() string { return K.show(kp(a["p"]).Move(atoi(a["n"]))) }
				sf = func() string { return S.show(sp(a["p"]).Move(atoi(a["n"]))) }
			case "rlink":
				kf = func() string { return K.show(kp(a["p"]).Link(kp(a["s"]))) }
				sf = func() string { return S.show(sp(a["p"]).Link(sp(a["s"]))) }
			case "runlink":
				kf = func() string { return K.show(kp(a["p"]).Unlink(atoi(a["n"]))) }
				sf = func() string { return S.show(sp(a["p"]).Unlink(atoi(a["n"]))) }
			case "rlen":
				kf = func() string { return strconv.Itoa(kp(a["p"]).Len()) }
				sf = func() string { return strconv.Itoa(sp(a["p"]).Len()) }
			case "rdo":
				kf = func() string {
					var kx []string
					defer func() {
						if r := recover(); r != nil {
							panic(fmt.Sprintf("after visiting [%s]", strings.Join(kx, ",")))
						}
					}()
					kp(a["p"]).Do(func(v int) { kx = append(kx, strconv.Itoa(v)) })
					return strings.Join(kx, ",")
				}
				sf = func() string {
					var sx []string
					sp(a["p"]).Do(func(v any) { sx = append(sx, strconv.Itoa(v.(int))) })
					return strings.Join(sx, ",")
				}
			case "rset":
				kf = func() string { kp(a["p"]).Value = atoi(a["v"]); return "ok" }
				sf = func() string { sp(a["p"]).Value = atoi(a["v"]); return "ok" }
			case "rget":
				kf = func() string { return strconv.Itoa(kp(a["p"]).Value) }
				sf = func() string { return strconv.Itoa(sp(a["p"]).Value.(int)) }
			case "rdump":
				kf = func() string {
					var kx []string
					for _, n := range K.nodes {
						kx = append(kx, fmt.Sprintf("%s,%s,%d", K.show(n.Next()), K.show(n.Prev()), n.Value))
					}
					return strings.Join(kx, ";")
				}
				sf = func() string {
					var sx []string
					for _, n := range S.nodes {
						sx = append(sx, fmt.Sprintf("%s,%s,%d", S.show(n.Next()), S.show(n.Prev()), n.Value.(int)))
					}
					return strings.Join(sx, ";")
				}
			default:
				kf = func() string { return "err=op" }
				sf = kf
			}
			// after a panic the structure may be half-written: the side that panicked stops executing
			ka, sa := "skipped-after-panic", "skipped-after-panic"
			if !kDead {
				ka = safe(kf)
				kDead = ka == "panic"
			}
			if !sDead {
				sa = safe(sf)
				sDead = sa == "panic"
			}
			kit = append(kit, ka)
			std = append(std, sa)
		}
	})
	return
}

// ringBad says whether the monitor (container/ring) rejects the case, and with which id.
func ringBad(rc ringCase) string {
	kit, std, outcome := execRing(rc)
	if outcome != "ok" {
		return "ring-" + strings.Fields(outcome)[0]
	}
	for i := range kit {
		if i < len(std) && kit[i] != std[i] {
			if kit[i] == "panic" {
				return "ring-panic"
			}
			return "ring-differs-from-container-ring"
		}
	}
	return ""
}

// shrinkRing drops operations while the same finding persists. Node ids are allocation order, so an
// operation is only dropped if every later operation still refers to allocated nodes.
func (c *ctx) shrinkRing(rc ringCase, id string) ringCase {
	valid := func(ops []string) bool {
		nodes := 0
		for _, l := range ops {
			op, a := kv(l)
			for _, key := range []string{"p", "s"} {
				if v, ok := a[key]; ok && v != "nil" && atoi(v) >= nodes {
					return false
				}
			}
			switch op {
			case "rnew":
				if n := atoi(a["n"]); n > 0 {
					nodes += n
				}
			case "rzero", "rlit":
				nodes++
			}
		}
		return true
	}
	for changed := true; changed; {
		changed = false
		for i := 0; i < len(rc.Ops); i++ {
			t := ringCase{Kind: rc.Kind}
			t.Ops = append(append([]string{}, rc.Ops[:i]...), rc.Ops[i+1:]...)
			if valid(t.Ops) && ringBad(t) == id {
				rc = t
				changed = true
				i--
			}
		}
	}
	return rc
}

func (c *ctx) runRing(rc ringCase) {
	rc.Kind = "ring"
	if c.ringHung {
		return // an earlier case never returned: its goroutine still spins; do not pile up more
	}
	kit, std, outcome := execRing(rc)
	nodes, links := 0, 0
	for _, l := range rc.Ops {
		op, a := kv(l)
		c.res.Hit("ring.op=" + op)
		switch op {
		case "rnew":
			if n := atoi(a["n"]); n > 0 {
				nodes += n
			}
			c.res.Hit("ring.new_size=" + a["n"])
		case "rzero", "rlit":
			nodes++
		case "rlink", "runlink":
			links++
		}
	}
	zeroNodes := 0
	for _, l := range rc.Ops {
		if op, _ := kv(l); op == "rzero" || op == "rlit" {
			zeroNodes++
		}
	}
	if zeroNodes > 0 {
		c.res.Hit("ring.case_with_zero_value_nodes")
	}
	c.res.Count("r/"+strings.Join(rc.Ops, ";"), (links > 0 && nodes >= 2) || zeroNodes > 0)
	c.res.Hit(fmt.Sprintf("ring.len_bucket=%d", (len(rc.Ops)+9)/10*10))
	if outcome != "ok" {
		if outcome == "timeout" {
			c.ringHung = true
			c.res.Note("a ring case did not return within 2s; remaining ring cases skipped")
		}
		c.res.Violate("ring-"+strings.Fields(outcome)[0], "ring op sequence: "+outcome+" (an operation of the real ring or of container/ring never returned)", rc)
		return
	}
	for i := range rc.Ops {
		if kit[i] != std[i] {
			id := "ring-differs-from-container-ring"
			if kit[i] == "panic" {
				id = "ring-panic"
			}
			s := c.shrinkRing(rc, id)
			sk, ss, _ := execRing(s)
			what := fmt.Sprintf("op %d %q: dapr/kit ring answers %s, container/ring answers %s", i, rc.Ops[i], kit[i], std[i])
			for j := range s.Ops {
				if j < len(sk) && j < len(ss) && sk[j] != ss[j] {
					what = fmt.Sprintf("op %d %q: dapr/kit ring answers %s, container/ring answers %s", j, s.Ops[j], sk[j], ss[j])
					break
				}
			}
			c.res.Violate(id, what, s)
			return
		}
	}
	if c.drv == nil {
		return
	}
	outs, err := c.drv.AskBatch(append([]string{"reset"}, rc.Ops...))
	if err != nil {
		c.res.Disagree("ring: Lean heap model vs ring.Ring", rc, "driver error: "+err.Error(), "")
		return
	}
	c.res.Traces++
	for i := range rc.Ops {
		if outs[i+1] != kit[i] {
			c.res.Disagree("ring: Lean heap model vs ring.Ring (answers and full next/prev/value dump)", rc,
				fmt.Sprintf("op %d %q: %s", i, rc.Ops[i], outs[i+1]), fmt.Sprintf("op %d %q: %s", i, rc.Ops[i], kit[i]))
			return
		}
	}
}

func (c *ctx) ringRandom(n int) {
	for k := 0; k < n; k++ {
		r := c.rnd.Fork()
		rc := ringCase{}
		l := r.Range(1, 58)
		nodes := 0
		pick := func() string { return strconv.Itoa(r.Intn(nodes)) }
		pickNil := func() string {
			if nodes == 0 || r.Intn(10) == 0 {
				return "nil"
			}
			return pick()
		}
		zeroHeavy := r.Intn(3) == 0 // elements created as zero values / literals, never through New
		for i := 0; i < l; i++ {
			x := r.Intn(100)
			switch {
			case zeroHeavy && (nodes == 0 || (x < 22 && nodes < 40)):
				if r.Bool() {
					rc.Ops = append(rc.Ops, "rzero")
				} else {
					rc.Ops = append(rc.Ops, fmt.Sprintf("rlit v=%d", r.Range(1, 99)))
				}
				nodes++
			case nodes == 0 || (x < 12 && nodes < 40):
				sz := r.Range(-1, 5)
				rc.Ops = append(rc.Ops, fmt.Sprintf("rnew n=%d", sz))
				if sz > 0 {
					nodes += sz
				}
			case x < 15 && nodes < 40:
				rc.Ops = append(rc.Ops, "rzero")
				nodes++
			case x < 22:
				rc.Ops = append(rc.Ops, "rnext p="+pick())
			case x < 29:
				rc.Ops = append(rc.Ops, "rprev p="+pick())
			case x < 39:
				rc.Ops = append(rc.Ops, fmt.Sprintf("rmove p=%s n=%d", pick(), r.Range(-8, 8)))
			case x < 57:
				rc.Ops = append(rc.Ops, fmt.Sprintf("rlink p=%s s=%s", pick(), pickNil()))
			case x < 69:
				rc.Ops = append(rc.Ops, fmt.Sprintf("runlink p=%s n=%d", pick(), r.Range(-1, 7)))
			case x < 79:
				rc.Ops = append(rc.Ops, "rlen p="+pickNil())
			case x < 86:
				rc.Ops = append(rc.Ops, "rdo p="+pickNil())
			case x < 95:
				rc.Ops = append(rc.Ops, fmt.Sprintf("rset p=%s v=%d", pick(), r.Range(-9, 99)))
			default:
				rc.Ops = append(rc.Ops, "rget p="+pick())
			}
		}
		rc.Ops = append(rc.Ops, "rdump")
		if k < 2 {
			c.res.Sample(rc)
		}
		c.runRing(rc)
	}
}

// ringZeroValue: container/ring's contract "the zero value for a Ring is a one-element ring with a
// nil Value".  Every method is made the FIRST call on an element that was created as a zero value
// (`new(Ring)`) or a literal (`&Ring{Value: v}`), as receiver and as argument, followed by every
// method as second call and a dump.
func (c *ctx) ringZeroValue() {
	creates := [][]string{{"rzero"}, {"rlit v=7"}}
	// first calls on node 0; node 1 (when present) is another fresh element, nodes 2.. a New ring
	firsts := []struct {
		pre  []string // created after node 0
		call string
	}{
		{nil, "rdo p=0"}, {nil, "rlen p=0"}, {nil, "rnext p=0"}, {nil, "rprev p=0"}, {nil, "rget p=0"}, {nil, "rset p=0 v=5"},
		{nil, "rmove p=0 n=0"}, {nil, "rmove p=0 n=1"}, {nil, "rmove p=0 n=-1"}, {nil, "rmove p=0 n=3"}, {nil, "rmove p=0 n=-4"},
		{nil, "rlink p=0 s=0"}, {nil, "rlink p=0 s=nil"},
		{[]string{"rzero"}, "rlink p=0 s=1"}, {[]string{"rlit v=9"}, "rlink p=0 s=1"}, {[]string{"rlit v=9"}, "rlink p=1 s=0"},
		{[]string{"rnew n=1"}, "rlink p=0 s=1"}, {[]string{"rnew n=3"}, "rlink p=0 s=2"}, {[]string{"rnew n=3"}, "rlink p=1 s=0"}, {[]string{"rnew n=2"}, "rlink p=2 s=0"},
		{nil, "runlink p=0 n=-1"}, {nil, "runlink p=0 n=0"}, {nil, "runlink p=0 n=1"}, {nil, "runlink p=0 n=2"}, {nil, "runlink p=0 n=5"},
	}
	seconds := []string{"rdo p=0", "rlen p=0", "rnext p=0", "rprev p=0", "rmove p=0 n=2", "rmove p=0 n=-3", "rlink p=0 s=0", "runlink p=0 n=1", "rget p=0"}
	n := 0
	for _, cr := range creates {
		for _, f := range firsts {
			for si := -1; si < len(seconds); si++ {
				rc := ringCase{}
				rc.Ops = append(rc.Ops, cr...)
				rc.Ops = append(rc.Ops, f.pre...)
				rc.Ops = append(rc.Ops, f.call)
				if si >= 0 {
					rc.Ops = append(rc.Ops, seconds[si])
				}
				// the other element's first call, too
				if len(f.pre) > 0 {
					rc.Ops = append(rc.Ops, "rdo p=1", "rlen p=1")
				}
				rc.Ops = append(rc.Ops, "rdo p=0", "rlen p=0", "rdump")
				c.res.Hit("ring.zero_value_first_call=" + strings.Fields(f.call)[0])
				if n%97 == 5 {
					c.res.Sample(rc)
				}
				n++
				c.runRing(rc)
			}
		}
	}
	c.res.Note(fmt.Sprintf("ring: %d zero-value/literal first-call sequences enumerated (every method as first call, as receiver and as Link argument)", n))
}
