package main

import (
	stdring "container/ring"
	"fmt"
	"strconv"
	"strings"
	"time"

	kring "github.com/dapr/kit/ring"
)

// ringCase: ops are driver lines ("rnew n=3", "rlink p=0 s=nil", …); node ids = allocation order.
type ringCase struct {
	Kind string   `json:"kind"`
	Ops  []string `json:"ops"`
}

type kitSide struct {
	nodes []*kring.Ring[int]
	id    map[*kring.Ring[int]]int
}

func (k *kitSide) reg(r *kring.Ring[int], n int) {
	p := r
	for i := 0; i < n; i++ {
		k.id[p] = len(k.nodes)
		k.nodes = append(k.nodes, p)
		p = p.Next()
	}
}
func (k *kitSide) show(r *kring.Ring[int]) string {
	if r == nil {
		return "nil"
	}
	if i, ok := k.id[r]; ok {
		return strconv.Itoa(i)
	}
	return "unknown-node"
}

type stdSide struct {
	nodes []*stdring.Ring
	id    map[*stdring.Ring]int
}

func (k *stdSide) reg(r *stdring.Ring, n int) {
	p := r
	for i := 0; i < n; i++ {
		k.id[p] = len(k.nodes)
		k.nodes = append(k.nodes, p)
		p.Value = 0
		p = p.Next()
	}
}
func (k *stdSide) show(r *stdring.Ring) string {
	if r == nil {
		return "nil"
	}
	if i, ok := k.id[r]; ok {
		return strconv.Itoa(i)
	}
	return "unknown-node"
}

func kv(line string) (string, map[string]string) {
	fs := strings.Fields(line)
	m := map[string]string{}
	for _, f := range fs[1:] {
		if i := strings.IndexByte(f, '='); i >= 0 {
			m[f[:i]] = f[i+1:]
		}
	}
	return fs[0], m
}

func atoi(s string) int { n, _ := strconv.Atoi(s); return n }

// execRing runs the case on dapr/kit's ring and on container/ring; returns per-op answers of both.
func execRing(rc ringCase) (kit, std []string, outcome string) {
	outcome = guarded(10*time.Second, func() {
		K := &kitSide{id: map[*kring.Ring[int]]int{}}
		S := &stdSide{id: map[*stdring.Ring]int{}}
		kp := func(s string) *kring.Ring[int] {
			if s == "nil" {
				return nil
			}
			return K.nodes[atoi(s)]
		}
		sp := func(s string) *stdring.Ring {
			if s == "nil" {
				return nil
			}
			return S.nodes[atoi(s)]
		}
		for _, line := range rc.Ops {
			op, a := kv(line)
			var ka, sa string
			switch op {
			case "rnew":
				n := atoi(a["n"])
				kr, sr := kring.New[int](n), stdring.New(n)
				if n > 0 {
					K.reg(kr, n)
					S.reg(sr, n)
				}
				ka, sa = K.show(kr), S.show(sr)
			case "rzero":
				kr, sr := new(kring.Ring[int]), new(stdring.Ring)
				K.reg(kr, 1)
				S.reg(sr, 1)
				ka, sa = K.show(kr), S.show(sr)
			case "rnext":
				ka, sa = K.show(kp(a["p"]).Next()), S.show(sp(a["p"]).Next())
			case "rprev":
				ka, sa = K.show(kp(a["p"]).Prev()), S.show(sp(a["p"]).Prev())
			case "rmove":
				ka, sa = K.show(kp(a["p"]).Move(atoi(a["n"]))), S.show(sp(a["p"]).Move(atoi(a["n"])))
			case "rlink":
				ka, sa = K.show(kp(a["p"]).Link(kp(a["s"]))), S.show(sp(a["p"]).Link(sp(a["s"])))
			case "runlink":
				ka, sa = K.show(kp(a["p"]).Unlink(atoi(a["n"]))), S.show(sp(a["p"]).Unlink(atoi(a["n"])))
			case "rlen":
				ka, sa = strconv.Itoa(kp(a["p"]).Len()), strconv.Itoa(sp(a["p"]).Len())
			case "rdo":
				var kx, sx []string
				kp(a["p"]).Do(func(v int) { kx = append(kx, strconv.Itoa(v)) })
				sp(a["p"]).Do(func(v any) { sx = append(sx, strconv.Itoa(v.(int))) })
				ka, sa = strings.Join(kx, ","), strings.Join(sx, ",")
			case "rset":
				kp(a["p"]).Value = atoi(a["v"])
				sp(a["p"]).Value = atoi(a["v"])
				ka, sa = "ok", "ok"
			case "rget":
				ka, sa = strconv.Itoa(kp(a["p"]).Value), strconv.Itoa(sp(a["p"]).Value.(int))
			case "rdump":
				var kx, sx []string
				for _, n := range K.nodes {
					kx = append(kx, fmt.Sprintf("%s,%s,%d", K.show(n.Next()), K.show(n.Prev()), n.Value))
				}
				for _, n := range S.nodes {
					sx = append(sx, fmt.Sprintf("%s,%s,%d", S.show(n.Next()), S.show(n.Prev()), n.Value.(int)))
				}
				ka, sa = strings.Join(kx, ";"), strings.Join(sx, ";")
			default:
				ka, sa = "err=op", "err=op"
			}
			kit = append(kit, ka)
			std = append(std, sa)
		}
	})
	return
}

func (c *ctx) runRing(rc ringCase) {
	rc.Kind = "ring"
	kit, std, outcome := execRing(rc)
	nodes, links := 0, 0
	for _, l := range rc.Ops {
		op, a := kv(l)
		c.res.Hit("ring.op=" + op)
		switch op {
		case "rnew":
			if n := atoi(a["n"]); n > 0 {
				nodes += n
			}
			c.res.Hit("ring.new_size=" + a["n"])
		case "rzero":
			nodes++
		case "rlink", "runlink":
			links++
		}
	}
	c.res.Count("r/"+strings.Join(rc.Ops, ";"), links > 0 && nodes >= 2)
	c.res.Hit(fmt.Sprintf("ring.len_bucket=%d", (len(rc.Ops)+9)/10*10))
	if outcome != "ok" {
		c.res.Violate("ring-"+strings.Fields(outcome)[0], "ring op sequence: "+outcome, rc)
		return
	}
	for i := range rc.Ops {
		if kit[i] != std[i] {
			c.res.Violate("ring-differs-from-container-ring",
				fmt.Sprintf("op %d %q: dapr/kit ring answers %s, container/ring answers %s", i, rc.Ops[i], kit[i], std[i]), rc)
			return
		}
	}
	if c.drv == nil {
		return
	}
	outs, err := c.drv.AskBatch(append([]string{"reset"}, rc.Ops...))
	if err != nil {
		c.res.Disagree("ring: Lean heap model vs ring.Ring", rc, "driver error: "+err.Error(), "")
		return
	}
	c.res.Traces++
	for i := range rc.Ops {
		if outs[i+1] != kit[i] {
			c.res.Disagree("ring: Lean heap model vs ring.Ring (answers and full next/prev/value dump)", rc,
				fmt.Sprintf("op %d %q: %s", i, rc.Ops[i], outs[i+1]), fmt.Sprintf("op %d %q: %s", i, rc.Ops[i], kit[i]))
			return
		}
	}
}

func (c *ctx) ringRandom(n int) {
	for k := 0; k < n; k++ {
		r := c.rnd.Fork()
		rc := ringCase{}
		l := r.Range(1, 58)
		nodes := 0
		pick := func() string { return strconv.Itoa(r.Intn(nodes)) }
		pickNil := func() string {
			if nodes == 0 || r.Intn(10) == 0 {
				return "nil"
			}
			return pick()
		}
		for i := 0; i < l; i++ {
			x := r.Intn(100)
			switch {
			case nodes == 0 || (x < 12 && nodes < 40):
				sz := r.Range(-1, 5)
				rc.Ops = append(rc.Ops, fmt.Sprintf("rnew n=%d", sz))
				if sz > 0 {
					nodes += sz
				}
			case x < 15 && nodes < 40:
				rc.Ops = append(rc.Ops, "rzero")
				nodes++
			case x < 22:
				rc.Ops = append(rc.Ops, "rnext p="+pick())
			case x < 29:
				rc.Ops = append(rc.Ops, "rprev p="+pick())
			case x < 39:
				rc.Ops = append(rc.Ops, fmt.Sprintf("rmove p=%s n=%d", pick(), r.Range(-8, 8)))
			case x < 57:
				rc.Ops = append(rc.Ops, fmt.Sprintf("rlink p=%s s=%s", pick(), pickNil()))
			case x < 69:
				rc.Ops = append(rc.Ops, fmt.Sprintf("runlink p=%s n=%d", pick(), r.Range(-1, 7)))
			case x < 79:
				rc.Ops = append(rc.Ops, "rlen p="+pickNil())
			case x < 86:
				rc.Ops = append(rc.Ops, "rdo p="+pickNil())
			case x < 95:
				rc.Ops = append(rc.Ops, fmt.Sprintf("rset p=%s v=%d", pick(), r.Range(-9, 99)))
			default:
				rc.Ops = append(rc.Ops, "rget p="+pick())
			}
		}
		rc.Ops = append(rc.Ops, "rdump")
		if k < 2 {
			c.res.Sample(rc)
		}
		c.runRing(rc)
	}
}
