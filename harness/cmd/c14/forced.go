package main

import (
	"fmt"
	"strconv"
	"sync/atomic"
	"time"

	"github.com/dapr/kit/concurrency/cmap"
	"github.com/dapr/kit/verifhook"
)

// forcedGetOrCreate parks goroutine 0 between the read section and the write section of
// GetOrCreate (hook cmap.atomic.getorcreate.afterRead) after it missed, lets goroutine 1 run a
// script to completion, releases goroutine 0, and judges the stamped history like any other.
func (c *ctx) forcedGetOrCreate() {
	scripts := [][]string{
		{"goc"}, {"goc", "cadd"}, {"goc", "delete"}, {"goc", "delete", "goc"}, {"goc", "clear"},
		{"delete"}, {"clear"}, {"get"}, {"foreach"}, {"goc", "cstore", "delete", "goc", "cadd"},
	}
	for si, script := range scripts {
		h := histCase{Kind: "hist", Obj: "amap", Goroutines: 2, OpsPer: len(script), Keys: 1}
		var st stamper
		am := cmap.NewAtomic[int, int64]()
		names := &ptrNames{id: map[*cmap.AtomicValue[int64]]int{}}
		parked := make(chan struct{})
		release := make(chan struct{})
		var first atomic.Bool
		verifhook.Set(func(name string, args ...any) {
			if name != "cmap.atomic.getorcreate.afterRead" {
				return
			}
			if first.CompareAndSwap(false, true) {
				close(parked)
				<-release
			}
		})
		var ops0, ops1 []opRec
		done0 := make(chan struct{})
		outcome := guarded(10*time.Second, func() {
			go func() {
				defer close(done0)
				rec := opRec{T: 0, Op: "goc", Args: []int{0, 11}}
				rec.Inv = st.now()
				p := am.GetOrCreate(0, 11)
				rec.Ret = st.now()
				rec.Res = "n" + strconv.Itoa(names.name(p))
				ops0 = append(ops0, rec)
				rec = opRec{T: 0, Op: "cload", Args: []int{names.name(p)}}
				rec.Inv = st.now()
				n := p.Load()
				rec.Ret = st.now()
				rec.Res = "n" + strconv.FormatInt(n, 10)
				ops0 = append(ops0, rec)
			}()
			select {
			case <-parked:
			case <-done0: // hook not reached (hooks compiled out?)
			}
			var last *cmap.AtomicValue[int64]
			for i, op := range script {
				rec := opRec{T: 1, Op: op}
				switch op {
				case "goc":
					rec.Args = []int{0, 20 + i}
					rec.Inv = st.now()
					last = am.GetOrCreate(0, int64(20+i))
					rec.Ret = st.now()
					rec.Res = "n" + strconv.Itoa(names.name(last))
				case "cadd":
					rec.Args = []int{names.name(last), 5}
					rec.Inv = st.now()
					n := last.Add(5)
					rec.Ret = st.now()
					rec.Res = "n" + strconv.FormatInt(n, 10)
				case "cstore":
					rec.Args = []int{names.name(last), 77}
					rec.Inv = st.now()
					last.Store(77)
					rec.Ret = st.now()
					rec.Res = "u"
				case "delete":
					rec.Args = []int{0}
					rec.Inv = st.now()
					am.Delete(0)
					rec.Ret = st.now()
					rec.Res = "u"
				case "clear":
					rec.Inv = st.now()
					am.Clear()
					rec.Ret = st.now()
					rec.Res = "u"
				case "get":
					rec.Args = []int{0}
					rec.Inv = st.now()
					p, ok := am.Get(0)
					rec.Ret = st.now()
					rec.Res = "v0,0"
					if ok {
						rec.Res = fmt.Sprintf("v%d,1", names.name(p))
					}
				case "foreach":
					got := map[int]int{}
					rec.Inv = st.now()
					am.ForEach(func(k int, p *cmap.AtomicValue[int64]) { got[k] = names.name(p) })
					rec.Ret = st.now()
					rec.Res = sortedPairs(got)
				}
				ops1 = append(ops1, rec)
			}
			close(release)
			<-done0
		})
		verifhook.Set(nil)
		select {
		case <-release:
		default:
			close(release)
		}
		c.res.Hit("hist.forced_getorcreate")
		if !first.Load() {
			c.res.Note("hook cmap.atomic.getorcreate.afterRead was not reached: forced schedules not exercised")
			c.res.Disagree("hist: forced schedule hook", h, "", "hook point cmap.atomic.getorcreate.afterRead missing in /repo (or harness built without -tags verif)")
			return
		}
		if outcome != "ok" {
			c.res.Violate("containers-"+outcome, fmt.Sprintf("forced GetOrCreate schedule %d %v: %s", si, script, outcome), h)
			continue
		}
		h.Ops = append(ops0, ops1...)
		sortOps(h.Ops)
		c.checkHistory(h, si == 2)
	}
	c.flushHist()
}
