package main

import (
	"fmt"
	"runtime"
	"sort"
	"strconv"
	"strings"
	"sync"
	"sync/atomic"
	"time"

	"github.com/dapr/kit/concurrency/cmap"
	kslice "github.com/dapr/kit/concurrency/slice"
)

// opRec is one completed operation with its invocation/response stamps.
type opRec struct {
	T    int    `json:"t"`
	Op   string `json:"op"`
	Args []int  `json:"args"`
	Res  string `json:"res"` // u | n<int> | v<int>,<0|1> | l<int,…>
	Inv  int64  `json:"inv"`
	Ret  int64  `json:"ret"`
}

type histCase struct {
	Kind       string  `json:"kind"`
	Obj        string  `json:"obj"`
	Goroutines int     `json:"goroutines"`
	OpsPer     int     `json:"ops_per"`
	Keys       int     `json:"keys"`
	Focus      string  `json:"focus,omitempty"`  // operation under test (directed / spin families)
	Family     string  `json:"family,omitempty"` // how the history was produced
	Ops        []opRec `json:"ops"`
}

func ints(xs []int) string {
	s := make([]string, len(xs))
	for i, x := range xs {
		s[i] = strconv.Itoa(x)
	}
	return strings.Join(s, ",")
}

// wire renders the history in real-time order for the Lean checker.
func (h histCase) wire() string {
	type ev struct {
		at  int64
		tok string
	}
	var evs []ev
	for _, o := range h.Ops {
		evs = append(evs, ev{o.Inv, fmt.Sprintf("I/%d/%s/%s/%s", o.T, o.Op, ints(o.Args), o.Res)})
		evs = append(evs, ev{o.Ret, fmt.Sprintf("R/%d", o.T)})
	}
	sort.Slice(evs, func(i, j int) bool { return evs[i].at < evs[j].at })
	toks := make([]string, len(evs))
	for i, e := range evs {
		toks[i] = e.tok
	}
	return strings.Join(toks, ";")
}

var mutators = map[string]bool{"store": true, "delete": true, "lad": true, "clear": true, "add": true,
	"goc": true, "cstore": true, "cadd": true, "append": true}

func (h histCase) overlapping() bool {
	for i, a := range h.Ops {
		for _, b := range h.Ops[i+1:] {
			if a.T != b.T && a.Inv < b.Ret && b.Inv < a.Ret && (mutators[a.Op] || mutators[b.Op]) {
				return true
			}
		}
	}
	return false
}

// ---- running the real objects --------------------------------------------------------------

type stamper struct{ clk atomic.Int64 }

func (s *stamper) now() int64 { return s.clk.Add(1) }

func sortedPairs(m map[int]int) string {
	ks := make([]int, 0, len(m))
	for k := range m {
		ks = append(ks, k)
	}
	sort.Ints(ks)
	var out []int
	for _, k := range ks {
		out = append(out, k, m[k])
	}
	return "l" + ints(out)
}

func b2i(b bool) int {
	if b {
		return 1
	}
	return 0
}

// ptrNames names *AtomicValue addresses in order of first sight.
type ptrNames struct {
	mu sync.Mutex
	id map[*cmap.AtomicValue[int64]]int
}

func (p *ptrNames) name(v *cmap.AtomicValue[int64]) int {
	p.mu.Lock()
	defer p.mu.Unlock()
	if i, ok := p.id[v]; ok {
		return i
	}
	i := len(p.id)
	p.id[v] = i
	return i
}

// oneHistory runs g goroutines x opsPer operations over `keys` keys on a fresh object and checks it.
func (c *ctx) oneHistory(obj string, g, opsPer, keys int) {
	h := histCase{Kind: "hist", Obj: obj, Goroutines: g, OpsPer: opsPer, Keys: keys}
	var st stamper
	var mu sync.Mutex
	var wg sync.WaitGroup
	start := make(chan struct{})
	seeds := make([]uint64, g)
	for i := range seeds {
		seeds[i] = c.rnd.U64()
	}
	m := cmap.NewMap[int, int]()
	var ctr cmap.AtomicValue[int64]
	am := cmap.NewAtomic[int, int64]()
	sl := kslice.New[int]()
	names := &ptrNames{id: map[*cmap.AtomicValue[int64]]int{}}
	lockstep := c.rnd.Intn(4) != 0 || c.burst
	wide := c.rnd.Bool()
	var arrived atomic.Int64
	outcome := guarded(20*time.Second, func() {
		for t := 0; t < g; t++ {
			wg.Add(1)
			go func(t int) {
				defer wg.Done()
				r := &struct{ s uint64 }{seeds[t]}
				rnd := func(n int) int {
					r.s += 0x9e3779b97f4a7c15
					z := r.s
					z = (z ^ (z >> 30)) * 0xbf58476d1ce4e5b9
					z = (z ^ (z >> 27)) * 0x94d049bb133111eb
					return int((z ^ (z >> 31)) % uint64(n))
				}
				var mine []*cmap.AtomicValue[int64]
				var local []opRec
				<-start
				for i := 0; i < opsPer; i++ {
					var preInv int64
					if lockstep && wide {
						preInv = st.now() // invocation stamped before the barrier: the round's calls overlap on record
					}
					if lockstep {
						// spin barrier: all goroutines enter round i together, so the calls really overlap
						arrived.Add(1)
						for dl := 0; arrived.Load() < int64((i+1)*g) && dl < 2000000; dl++ {
							if dl%64 == 63 {
								runtime.Gosched()
							}
						}
					} else if rnd(3) == 0 {
						runtime.Gosched()
					}
					rec := opRec{T: t}
					k := rnd(keys)
					v := t*100 + i + 1
					switch obj {
					case "map":
						x := rnd(100)
						if c.burst {
							x = []int{0, 60, 60, 30}[(i+t)%4] // store / LoadAndDelete / LoadAndDelete / load on one key
							if i == 0 {
								x = 0
							}
							k = 0
						}
						switch {
						case x < 28:
							rec.Op, rec.Args = "store", []int{k, v}
							rec.Inv = st.now()
							m.Store(k, v)
							rec.Ret = st.now()
							rec.Res = "u"
						case x < 50:
							rec.Op, rec.Args = "load", []int{k}
							rec.Inv = st.now()
							val, ok := m.Load(k)
							rec.Ret = st.now()
							rec.Res = fmt.Sprintf("v%d,%d", val, b2i(ok))
						case x < 60:
							rec.Op, rec.Args = "delete", []int{k}
							rec.Inv = st.now()
							m.Delete(k)
							rec.Ret = st.now()
							rec.Res = "u"
						case x < 72:
							rec.Op, rec.Args = "lad", []int{k}
							rec.Inv = st.now()
							val, ok := m.LoadAndDelete(k)
							rec.Ret = st.now()
							rec.Res = fmt.Sprintf("v%d,%d", val, b2i(ok))
						case x < 80:
							rec.Op = "len"
							rec.Inv = st.now()
							n := m.Len()
							rec.Ret = st.now()
							rec.Res = "n" + strconv.Itoa(n)
						case x < 88:
							rec.Op = "keys"
							rec.Inv = st.now()
							ks := m.Keys()
							rec.Ret = st.now()
							sort.Ints(ks)
							rec.Res = "l" + ints(ks)
						case x < 96:
							rec.Op = "range"
							got := map[int]int{}
							rec.Inv = st.now()
							m.Range(func(k, v int) bool { got[k] = v; return true })
							rec.Ret = st.now()
							rec.Res = sortedPairs(got)
						default:
							rec.Op = "clear"
							rec.Inv = st.now()
							m.Clear()
							rec.Ret = st.now()
							rec.Res = "u"
						}
					case "ctr":
						x := rnd(100)
						if c.burst {
							x = 99 // Add
						}
						switch {
						case x < 35:
							rec.Op = "load"
							rec.Inv = st.now()
							n := ctr.Load()
							rec.Ret = st.now()
							rec.Res = "n" + strconv.FormatInt(n, 10)
						case x < 55:
							rec.Op, rec.Args = "store", []int{v}
							rec.Inv = st.now()
							ctr.Store(int64(v))
							rec.Ret = st.now()
							rec.Res = "u"
						default:
							d := rnd(7) - 2
							rec.Op, rec.Args = "add", []int{d}
							rec.Inv = st.now()
							n := ctr.Add(int64(d))
							rec.Ret = st.now()
							rec.Res = "n" + strconv.FormatInt(n, 10)
						}
					case "amap":
						x := rnd(100)
						if c.burst {
							x = []int{0, 85, 45, 0, 85}[(i+t)%5] // GetOrCreate / counter Add / Delete on one key
							k = 0
						}
						if x >= 60 && len(mine) == 0 {
							x = 10
						}
						switch {
						case x < 30:
							rec.Op, rec.Args = "goc", []int{k, v}
							rec.Inv = st.now()
							p := am.GetOrCreate(k, int64(v))
							rec.Ret = st.now()
							rec.Res = "n" + strconv.Itoa(names.name(p))
							mine = append(mine, p)
						case x < 42:
							rec.Op, rec.Args = "get", []int{k}
							rec.Inv = st.now()
							p, ok := am.Get(k)
							rec.Ret = st.now()
							if ok {
								rec.Res = fmt.Sprintf("v%d,1", names.name(p))
								mine = append(mine, p)
							} else {
								rec.Res = "v0,0"
								if p != nil {
									rec.Res = "v-1,0"
								}
							}
						case x < 50:
							rec.Op, rec.Args = "delete", []int{k}
							rec.Inv = st.now()
							am.Delete(k)
							rec.Ret = st.now()
							rec.Res = "u"
						case x < 56:
							rec.Op = "foreach"
							got := map[int]*cmap.AtomicValue[int64]{}
							rec.Inv = st.now()
							am.ForEach(func(k int, p *cmap.AtomicValue[int64]) { got[k] = p })
							rec.Ret = st.now()
							gm := map[int]int{}
							for k, p := range got {
								gm[k] = names.name(p)
								mine = append(mine, p)
							}
							rec.Res = sortedPairs(gm)
						case x < 60:
							rec.Op = "clear"
							rec.Inv = st.now()
							am.Clear()
							rec.Ret = st.now()
							rec.Res = "u"
						case x < 72:
							p := mine[rnd(len(mine))]
							rec.Op, rec.Args = "cload", []int{names.name(p)}
							rec.Inv = st.now()
							n := p.Load()
							rec.Ret = st.now()
							rec.Res = "n" + strconv.FormatInt(n, 10)
						case x < 80:
							p := mine[rnd(len(mine))]
							rec.Op, rec.Args = "cstore", []int{names.name(p), v}
							rec.Inv = st.now()
							p.Store(int64(v))
							rec.Ret = st.now()
							rec.Res = "u"
						default:
							p := mine[rnd(len(mine))]
							d := rnd(5) + 1
							rec.Op, rec.Args = "cadd", []int{names.name(p), d}
							rec.Inv = st.now()
							n := p.Add(int64(d))
							rec.Ret = st.now()
							rec.Res = "n" + strconv.FormatInt(n, 10)
						}
					case "slice":
						x := rnd(100)
						if c.burst {
							x = 0 // Append
						}
						switch {
						case x < 50:
							items := []int{v}
							if rnd(3) == 0 {
								items = append(items, v+50)
							}
							if rnd(8) == 0 {
								items = nil
							}
							rec.Op, rec.Args = "append", items
							rec.Inv = st.now()
							n := sl.Append(items...)
							rec.Ret = st.now()
							rec.Res = "n" + strconv.Itoa(n)
						case x < 75:
							rec.Op = "len"
							rec.Inv = st.now()
							n := sl.Len()
							rec.Ret = st.now()
							rec.Res = "n" + strconv.Itoa(n)
						default:
							rec.Op = "slice"
							rec.Inv = st.now()
							s := sl.Slice()
							rec.Ret = st.now()
							rec.Res = "l" + ints(append([]int{}, s...))
						}
					}
					if preInv != 0 {
						rec.Inv = preInv
					}
					local = append(local, rec)
				}
				mu.Lock()
				h.Ops = append(h.Ops, local...)
				mu.Unlock()
			}(t)
		}
		close(start)
		wg.Wait()
	})
	if outcome != "ok" {
		c.res.Violate("containers-"+strings.Fields(outcome)[0], obj+": concurrent run: "+outcome, h)
		return
	}
	sort.Slice(h.Ops, func(i, j int) bool { return h.Ops[i].Inv < h.Ops[j].Inv })
	c.checkHistory(h, false)
}

// checkHistory decides linearizability with the Go monitor and queues the history for the Lean checker.
func (c *ctx) checkHistory(h histCase, sample bool) {
	ov := h.overlapping()
	w := h.wire()
	c.res.Count("h/"+h.Obj+"/"+w, ov)
	c.res.Hit("hist.obj=" + h.Obj)
	c.res.Hit(fmt.Sprintf("hist.goroutines=%d", h.Goroutines))
	if ov {
		c.res.Hit("hist.overlapping." + h.Obj)
	}
	if c.burst {
		c.res.Hit("hist.burst." + h.Obj)
	}
	for _, o := range h.Ops {
		c.res.Hit("hist." + h.Obj + ".op=" + o.Op)
	}
	if sample {
		c.res.Sample(h)
	}
	goLin := linearizable(h.Obj, h.Ops)
	if !goLin {
		id, what := "not-linearizable-"+h.Obj, "recorded concurrent history of "+h.Obj+" has no linearization"
		if b := blame(h); b != "" {
			id += "-" + b
			what += "; it has one without its " + b + " operations: " + b + " answered with something that was never the container's content at any instant of the call"
		}
		if h.Family != "" {
			what += " (family: " + h.Family + ")"
		}
		c.res.Violate(id, what, h)
	}
	c.pendHist = append(c.pendHist, pendHist{h, w, goLin, "impl history"})
	if len(c.pendHist) >= 500 {
		c.flushHist()
	}
}

type pendHist struct {
	h     histCase
	wire  string
	goLin bool
	what  string
}

func (c *ctx) flushHist() {
	if c.drv == nil || len(c.pendHist) == 0 {
		c.pendHist = nil
		return
	}
	lines := make([]string, len(c.pendHist))
	for i, p := range c.pendHist {
		lines[i] = "lin obj=" + p.h.Obj + " h=" + p.wire
	}
	outs, err := c.drv.AskBatch(lines)
	if err != nil {
		c.res.Disagree("hist: Lean linCheck", c.pendHist[0].h, "driver error: "+err.Error(), "")
		c.pendHist = nil
		return
	}
	for i, p := range c.pendHist {
		want := "lin=0"
		if p.goLin {
			want = "lin=1"
		} else if !wellFormed(p.h.Ops) {
			want = "err=annotation"
		}
		c.res.Traces++
		if outs[i] != want {
			c.res.Disagree("hist: Lean linCheck over the Lean sequential spec vs Go checker over the Go reference spec ("+p.what+")",
				p.h, outs[i], want)
		}
	}
	c.pendHist = nil
}

func (c *ctx) histories(quick bool, mult int) {
	per := 150 * mult
	for _, obj := range []string{"map", "ctr", "amap", "slice"} {
		// sequential runs (one goroutine, longer): plain differential of the sequential specs
		for i := 0; i < 20*mult; i++ {
			c.oneHistory(obj, 1, 40, c.rnd.Range(1, 3))
		}
		for i := 0; i < per; i++ {
			g := c.rnd.Range(2, 4)
			c.oneHistory(obj, g, c.rnd.Range(1, 5), c.rnd.Range(1, 3))
		}
		// bursts: every goroutine hammers the same read-modify-write operation on one key in lockstep
		c.burst = true
		for i := 0; i < per/2; i++ {
			c.oneHistory(obj, c.rnd.Range(2, 4), c.rnd.Range(2, 5), 1)
		}
		c.burst = false
	}
	c.flushHist()
}

// checkerControls: histories that must be rejected / accepted, plus mutants of recorded-style
// histories on which the two checkers must agree (malformed stream for the checker itself).
func (c *ctx) checkerControls() {
	ctl := []struct {
		obj  string
		ops  []opRec
		want bool
	}{
		{"map", []opRec{{T: 0, Op: "store", Args: []int{1, 5}, Res: "u", Inv: 1, Ret: 2}, {T: 1, Op: "load", Args: []int{1}, Res: "v0,0", Inv: 3, Ret: 4}}, false},
		{"map", []opRec{{T: 0, Op: "store", Args: []int{1, 5}, Res: "u", Inv: 1, Ret: 4}, {T: 1, Op: "load", Args: []int{1}, Res: "v0,0", Inv: 2, Ret: 3}}, true},
		{"ctr", []opRec{{T: 0, Op: "add", Args: []int{1}, Res: "n1", Inv: 1, Ret: 4}, {T: 1, Op: "add", Args: []int{1}, Res: "n1", Inv: 2, Ret: 3}}, false},
		{"ctr", []opRec{{T: 0, Op: "add", Args: []int{1}, Res: "n2", Inv: 1, Ret: 4}, {T: 1, Op: "add", Args: []int{1}, Res: "n1", Inv: 2, Ret: 3}}, true},
		// two GetOrCreate on the same key returning different fresh counters: lost update of the double check
		{"amap", []opRec{{T: 0, Op: "goc", Args: []int{0, 1}, Res: "n0", Inv: 1, Ret: 4}, {T: 1, Op: "goc", Args: []int{0, 2}, Res: "n1", Inv: 2, Ret: 3}}, false},
		{"amap", []opRec{{T: 0, Op: "goc", Args: []int{0, 1}, Res: "n0", Inv: 1, Ret: 4}, {T: 1, Op: "goc", Args: []int{0, 2}, Res: "n0", Inv: 2, Ret: 3},
			{T: 1, Op: "cload", Args: []int{0}, Res: "n1", Inv: 5, Ret: 6}}, true},
		{"amap", []opRec{{T: 0, Op: "goc", Args: []int{0, 1}, Res: "n0", Inv: 1, Ret: 4}, {T: 1, Op: "goc", Args: []int{0, 2}, Res: "n0", Inv: 2, Ret: 3},
			{T: 1, Op: "cload", Args: []int{0}, Res: "n2", Inv: 5, Ret: 6}, {T: 0, Op: "cload", Args: []int{0}, Res: "n1", Inv: 7, Ret: 8}}, false},
		{"slice", []opRec{{T: 0, Op: "append", Args: []int{1}, Res: "n1", Inv: 1, Ret: 4}, {T: 1, Op: "append", Args: []int{2}, Res: "n1", Inv: 2, Ret: 3}}, false},
		{"slice", []opRec{{T: 0, Op: "append", Args: []int{1}, Res: "n2", Inv: 1, Ret: 4}, {T: 1, Op: "append", Args: []int{2}, Res: "n1", Inv: 2, Ret: 3},
			{T: 1, Op: "slice", Res: "l2,1", Inv: 5, Ret: 6}}, true},
	}
	for _, k := range ctl {
		h := histCase{Kind: "hist", Obj: k.obj, Goroutines: 2, Ops: k.ops}
		got := linearizable(k.obj, k.ops)
		c.res.Hit("hist.control")
		if got != k.want {
			c.res.Note(fmt.Sprintf("HARNESS SELF-TEST FAILED: Go checker says %v on control %v", got, k.ops))
			fmt.Println("c14: Go linearizability checker failed its own control")
			c.res.Disagree("hist: Go checker control", h, "", fmt.Sprint(got))
		}
		c.pendHist = append(c.pendHist, pendHist{h, h.wire(), k.want, "control"})
	}
	// mutants: take fresh recorded histories and corrupt one result; both checkers must agree.
	for _, obj := range []string{"map", "ctr", "amap", "slice"} {
		for i := 0; i < 60; i++ {
			h := c.recordOnly(obj, c.rnd.Range(2, 3), c.rnd.Range(2, 4), c.rnd.Range(1, 2))
			if len(h.Ops) == 0 {
				continue
			}
			j := c.rnd.Intn(len(h.Ops))
			o := &h.Ops[j]
			switch {
			case strings.HasPrefix(o.Res, "n"):
				n, _ := strconv.Atoi(o.Res[1:])
				o.Res = "n" + strconv.Itoa(n+1+c.rnd.Intn(2))
			case strings.HasPrefix(o.Res, "v"):
				if strings.HasSuffix(o.Res, ",1") {
					o.Res = "v0,0"
				} else {
					o.Res = "v7,1"
				}
			case strings.HasPrefix(o.Res, "l"):
				if o.Res == "l" {
					o.Res = "l9"
					if obj == "map" && o.Op == "range" || obj == "amap" {
						o.Res = "l9,9"
					}
				} else {
					o.Res = "l"
				}
			default:
				// swap two stamps instead: makes a later op precede an earlier one
				if len(h.Ops) > 1 {
					a, b := &h.Ops[0], &h.Ops[len(h.Ops)-1]
					a.Inv, a.Ret, b.Inv, b.Ret = b.Inv, b.Ret, a.Inv, a.Ret
					if a.T == b.T {
						continue
					}
				}
			}
			sort.Slice(h.Ops, func(i, j int) bool { return h.Ops[i].Inv < h.Ops[j].Inv })
			g := linearizable(obj, h.Ops)
			c.res.Hit(fmt.Sprintf("hist.mutant.lin=%v", g))
			c.res.Evaluations++
			c.pendHist = append(c.pendHist, pendHist{h, h.wire(), g, "mutated history"})
		}
	}
	c.flushHist()
}

func sortOps(ops []opRec) {
	sort.Slice(ops, func(i, j int) bool { return ops[i].Inv < ops[j].Inv })
}

// recordOnly runs a history without judging it (source for mutants).
func (c *ctx) recordOnly(obj string, g, opsPer, keys int) histCase {
	save := c.pendHist
	saveRes := c.res
	tmp := *c
	tmpRes := libNewScratch()
	tmp.res = tmpRes
	tmp.pendHist = nil
	tmp.drv = nil
	tmp.oneHistory(obj, g, opsPer, keys)
	c.rnd = tmp.rnd
	c.pendHist = save
	c.res = saveRes
	if len(tmp.pendHist) == 0 {
		return histCase{Kind: "hist", Obj: obj}
	}
	return tmp.pendHist[0].h
}
