package main

import (
	"fmt"
	"sort"
	"strconv"
	"sync"
	"time"

	"github.com/dapr/kit/concurrency/cmap"
	kslice "github.com/dapr/kit/concurrency/slice"
)

// Ownership of storage: what was appended stays what it was, whatever the caller does with the
// buffer it passed (`Append(buf...)`), and an Append never writes into the caller's memory.
// slice.go's Slice() returns the internal slice by design (`return s.data`), so mutating the
// result of Slice() is outside the contract and is not exercised; Keys() builds a new slice and
// must be an independent copy.

type aliasCase struct {
	Kind     string `json:"kind"`
	Scenario string `json:"scenario"`
	Pre      int    `json:"pre"`   // elements appended (as literals) before the buffer
	Len      int    `json:"len"`   // len(buf)
	Spare    int    `json:"spare"` // cap(buf) - len(buf)
	Detail   string `json:"detail,omitempty"`
}

const sentinel = -777

// aliasScenario runs one sequential scenario; returns "" or what went wrong. It also returns the
// value-level history (arguments as they were at the call) for the linearizability checkers.
func aliasScenario(ac aliasCase) (bad string, h histCase) {
	h = histCase{Kind: "hist", Obj: "slice", Goroutines: 1, Family: "alias " + ac.Scenario}
	var st stamper
	add := func(op string, args []int, call func() string) {
		rec := opRec{T: 0, Op: op, Args: append([]int{}, args...)}
		rec.Inv = st.now()
		rec.Res = call()
		rec.Ret = st.now()
		h.Ops = append(h.Ops, rec)
	}
	s := kslice.New[int]()
	var want []int
	for i := 0; i < ac.Pre; i++ {
		v := 1000 + i
		add("append", []int{v}, func() string { return "n" + strconv.Itoa(s.Append(v)) })
		want = append(want, v)
	}
	// caller-owned buffer with spare capacity filled with sentinels
	back := make([]int, ac.Len+ac.Spare)
	for i := range back {
		back[i] = sentinel
	}
	buf := back[:ac.Len]
	for i := range buf {
		buf[i] = i + 1
	}
	orig := append([]int{}, buf...)
	add("append", orig, func() string { return "n" + strconv.Itoa(s.Append(buf...)) })
	want = append(want, orig...)
	check := func(when string) string {
		got := append([]int{}, s.Slice()...)
		if fmt.Sprint(got) != fmt.Sprint(want) {
			return fmt.Sprintf("%s: Slice() = %v, appended values were %v", when, got, want)
		}
		return ""
	}
	observe := func() {
		add("slice", nil, func() string { return "l" + ints(append([]int{}, s.Slice()...)) })
		add("len", nil, func() string { return "n" + strconv.Itoa(s.Len()) })
	}
	if bad = check("right after Append(buf...)"); bad != "" {
		observe()
		return
	}
	switch ac.Scenario {
	case "overwrite": // the caller reuses its buffer
		for i := range buf {
			buf[i] = -1
		}
		bad = check("after the caller overwrote its buffer")
	case "caller-appends": // the caller appends to its own buffer (writes its spare capacity)
		buf = append(buf, -5, -6)
		_ = buf
		bad = check("after the caller appended to its own buffer")
	case "container-appends": // a later Append must not write into the caller's spare capacity
		add("append", []int{42}, func() string { return "n" + strconv.Itoa(s.Append(42)) })
		want = append(want, 42)
		for i := ac.Len; i < len(back); i++ {
			if back[i] != sentinel {
				bad = fmt.Sprintf("Append(42) wrote %d into the caller's buffer at index %d (beyond its length %d)", back[i], i, ac.Len)
			}
		}
		if bad == "" {
			bad = check("after a later Append")
		}
	case "reuse-loop": // producer pattern: fill, Append(buf...), overwrite, three rounds
		for round := 0; round < 3 && bad == ""; round++ {
			for i := range buf {
				buf[i] = 100*(round+1) + i
			}
			vals := append([]int{}, buf...)
			add("append", vals, func() string { return "n" + strconv.Itoa(s.Append(buf...)) })
			want = append(want, vals...)
			for i := range buf {
				buf[i] = -1
			}
			bad = check(fmt.Sprintf("after round %d of fill/Append/overwrite", round))
		}
	}
	observe()
	return
}

func (c *ctx) aliasFamilies() {
	n := 0
	for _, sc := range []string{"overwrite", "caller-appends", "container-appends", "reuse-loop"} {
		for pre := 0; pre <= 2; pre++ {
			for l := 0; l <= 3; l++ {
				for _, spare := range []int{0, 1, 4} {
					ac := aliasCase{Kind: "alias", Scenario: sc, Pre: pre, Len: l, Spare: spare}
					c.runAlias(ac)
					n++
				}
			}
		}
	}
	c.aliasProducers()
	c.keysIndependent()
	c.flushHist()
	c.res.Note(fmt.Sprintf("slice ownership: %d sequential buffer scenarios (Append(buf...) on empty and non-empty containers, buffers with spare capacity, caller overwrites / appends / reuses) + concurrent producers + Keys() copies", n))
}

func (c *ctx) runAlias(ac aliasCase) {
	var bad string
	var h histCase
	outcome := guarded(5*time.Second, func() { bad, h = aliasScenario(ac) })
	c.res.Count(fmt.Sprintf("alias/%s/%d/%d/%d", ac.Scenario, ac.Pre, ac.Len, ac.Spare), ac.Len > 0)
	c.res.Hit("alias.scenario=" + ac.Scenario)
	if ac.Pre == 0 {
		c.res.Hit("alias.first_append_on_empty_container")
	}
	if outcome != "ok" {
		c.res.Violate("containers-"+outcome, "slice ownership scenario: "+outcome, ac)
		return
	}
	if bad != "" {
		ac.Detail = bad
		c.res.Violate("slice-aliases-caller-buffer", bad, ac)
	}
	// the same run as a value-level history for both linearizability checkers
	c.checkHistory(h, false)
}

// aliasProducers: two producers, each filling its own reused buffer, Append(buf...), overwriting
// it with -1: the container must end with exactly the appended values.
func (c *ctx) aliasProducers() {
	for run := 0; run < 30; run++ {
		s := kslice.New[int]()
		var wg sync.WaitGroup
		var mu sync.Mutex
		var all []int
		bad := ""
		outcome := guarded(5*time.Second, func() {
			for p := 0; p < 2; p++ {
				wg.Add(1)
				go func(p int) {
					defer wg.Done()
					back := make([]int, 2, 6)
					for round := 0; round < 3; round++ {
						buf := back[:2]
						buf[0], buf[1] = 10*(3*p+round)+1, 10*(3*p+round)+2
						mu.Lock()
						all = append(all, buf...)
						mu.Unlock()
						s.Append(buf...)
						buf[0], buf[1] = -1, -1
					}
				}(p)
			}
			wg.Wait()
			got := append([]int{}, s.Slice()...)
			g2 := append([]int{}, got...)
			sort.Ints(g2)
			w2 := append([]int{}, all...)
			sort.Ints(w2)
			if fmt.Sprint(g2) != fmt.Sprint(w2) {
				bad = fmt.Sprintf("two producers appended %v (each Append(buf...) then overwrote buf with -1); Slice() = %v", all, got)
			}
		})
		c.res.Count(fmt.Sprintf("alias/producers/%d", run), true)
		c.res.Hit("alias.scenario=producers")
		if outcome != "ok" {
			c.res.Violate("containers-"+outcome, "slice producers: "+outcome, aliasCase{Kind: "alias", Scenario: "producers"})
			return
		}
		if bad != "" {
			c.res.Violate("slice-aliases-caller-buffer", bad, aliasCase{Kind: "alias", Scenario: "producers", Detail: bad})
			return
		}
	}
}

// keysIndependent: Keys() returns a new slice; writing into it (or appending to it) changes nothing.
func (c *ctx) keysIndependent() {
	m := cmap.NewMap[int, int]()
	for k := 0; k < 4; k++ {
		m.Store(k, k)
	}
	ks := m.Keys()
	for i := range ks {
		ks[i] = -9
	}
	ks = append(ks[:0], -8, -8, -8, -8, -8)
	_ = ks
	ks2 := m.Keys()
	sort.Ints(ks2)
	c.res.Count("alias/keys", true)
	c.res.Hit("alias.scenario=keys-copy")
	if fmt.Sprint(ks2) != "[0 1 2 3]" || m.Len() != 4 {
		c.res.Violate("keys-aliases-internal-state", fmt.Sprintf("after overwriting the slice returned by Keys(), Keys() = %v", ks2), aliasCase{Kind: "alias", Scenario: "keys-copy"})
	}
}
