// Harness for property C11 (events/broadcaster): runs scenarios against the real Broadcaster,
// checks the observable trace with model-independent monitors, and checks trace inclusion in the
// Lean LTS (kitdrv C11, state-set simulation).
package main

import (
	"encoding/json"
	"fmt"
	"os"
	"strings"
	"time"

	"verifharness/lib"
)

const rule = "scenario whose trace has >=1 Subscribe return, >=1 receive or a blocked/stuck call, and a Close; distinct by the canonical trace; race family (vrace-*): a spec with >=1 subscriber channel and a Close, distinct by the spec (mode, n, K, payload, broadcaster, closers)"

type caseRec struct {
	Scenario Scenario `json:"scenario"`
	Seed     uint64   `json:"seed,omitempty"`
	Trace    []string `json:"trace,omitempty"`
	Stuck    []string `json:"stuck,omitempty"`
	Dump     string   `json:"goroutine_dump,omitempty"`
	ModelOrig string  `json:"model_of_original_code,omitempty"`
}

func traceLines(tr []Ev) []string {
	out := make([]string, len(tr))
	for i, e := range tr {
		out[i] = e.Line()
	}
	return out
}

// include asks the model whether the trace is one of its traces. Returns "" or the reject line.
func include(d *lib.Drv, variant string, tr []Ev, askStuck bool) (reject string, maxSet int, stuck string, err error) {
	lines := append([]string{"reset hooked=1 variant=" + variant}, traceLines(tr)...)

	if askStuck {
		lines = append(lines, "stuck")
	}
	outs, err := d.AskBatch(lines)
	if err != nil {
		return "", 0, "", err
	}
	for i, o := range outs {
		if strings.HasPrefix(o, "stuck") {
			stuck = o
			continue
		}
		if strings.HasPrefix(o, "overflow") {
			return "overflow", maxSet, stuck, nil
		}
		if !strings.HasPrefix(o, "ok") {
			return fmt.Sprintf("event %d: %s", i-1, o), maxSet, stuck, nil
		}
		var n int
		fmt.Sscanf(o, "ok n=%d", &n)
		if n > maxSet {
			maxSet = n
		}
	}
	return "", maxSet, stuck, nil
}

// earliest moves every receive of a blocking reader to the position at which the receive began.
func earliest(tr []Ev) ([]Ev, bool) {
	moved := false
	out := make([]Ev, 0, len(tr))
	var late []Ev
	for _, e := range tr {
		if e.Lo > 0 {
			late = append(late, e)
			moved = true
		}
	}
	if !moved {
		return tr, false
	}
	for i, e := range tr {
		for _, l := range late {
			if l.Lo == i {
				out = append(out, l)
			}
		}
		if e.Lo == 0 {
			out = append(out, e)
		}
	}
	for _, l := range late {
		if l.Lo >= len(tr) {
			out = append(out, l)
		}
	}
	return out, true
}

func bucket(n int) string {
	switch {
	case n <= 1:
		return "1"
	case n <= 10:
		return "2-10"
	case n <= 100:
		return "11-100"
	case n <= 1000:
		return "101-1000"
	}
	return ">1000"
}

func main() {
	if os.Getenv("C11_RACE_CHILD") != "" {
		raceChildMain()
		return
	}
	f := lib.ParseFlags()
	res := lib.NewResult(rule)
	deadline := 1500 * time.Millisecond
	d, err := lib.StartDrv(f.Drv, "C11")
	if err != nil {
		res.Note("cannot start model driver: " + err.Error())
		d = nil
	}
	defer d.Close()

	verbose := os.Getenv("C11_VERBOSE") != ""
	runOne := func(sc Scenario, seed uint64) {
		t0 := time.Now()
		if verbose {
			b, _ := json.Marshal(sc)
			fmt.Fprintf(os.Stderr, "run %s\n", b)
			defer func() { fmt.Fprintf(os.Stderr, "  took %v\n", time.Since(t0)) }()
		}
		o := Execute(sc, deadline)
		if verbose {
			fmt.Fprintf(os.Stderr, "  executed in %v: %d events, stuck=%v\n", time.Since(t0), len(o.Trace), o.Stuck)
		}
		fs := Monitors(o)
		// a deadline verdict is only believed if it reproduces when the scenario runs again alone
		if len(o.Stuck) > 0 || len(o.Lost) > 0 {
			time.Sleep(50 * time.Millisecond)
			o2 := Execute(sc, deadline)
			if len(o2.Stuck) == 0 && len(o2.Lost) == 0 {
				res.Hit("deadline-verdict-not-reproduced")
				o, fs = o2, Monitors(o2)
			}
		}
		cr := caseRec{Scenario: sc, Seed: seed, Trace: traceLines(o.Trace), Stuck: o.Stuck, Dump: o.Dump}
		if tf := os.Getenv("C11_TRACEFILE"); tf != "" {
			os.WriteFile(tf, []byte("reset hooked=1 variant=fixed\n"+strings.Join(cr.Trace, "\n")+"\n"), 0o644)
		}
		// distribution
		res.Hit("family:" + sc.Family)
		nrecv, nsret, nclose := 0, 0, 0
		for _, e := range o.Trace {
			res.Hit("event:" + e.K)
			switch e.K {
			case "recv":
				nrecv++
			case "sret":
				nsret++
			case "ccall":
				nclose++
			}
		}
		for _, k := range o.ReaderKind {
			res.Hit("reader:" + k)
		}
		if len(o.Blocked) > 0 {
			res.Hit("legitimately-blocked-calls-seen")
		}
		if len(o.Stuck) > 0 {
			res.Hit("stuck")
		}
		res.Hit("trace-len:" + bucket(len(o.Trace)))
		nontrivial := nsret > 0 && nclose > 0 && (nrecv > 0 || len(o.Blocked) > 0 || len(o.Stuck) > 0)
		res.Count(strings.Join(cr.Trace, ";"), nontrivial)
		res.Sample(map[string]any{"scenario": sc, "trace_len": len(o.Trace), "received": nrecv})
		// trace inclusion
		if d != nil {
			used := o.Trace // the trace as finally submitted to the model
			rej, maxSet, _, err := include(d, "fixed", o.Trace, false)
			if err == nil && rej != "" && rej != "overflow" {
				// receives of blocking readers have an interval, not a position: also try them at
				// the earliest position
				if alt, moved := earliest(o.Trace); moved {
					if rej2, m2, _, err2 := include(d, "fixed", alt, false); err2 == nil && rej2 == "" {
						rej, maxSet, used = "", m2, alt
						res.Hit("blocking-receive-placed-at-its-start")
					}
				}
			}
			if err == nil && rej != "" && rej != "overflow" {
				// The eager internal steps of the acceptor are an optimisation whose completeness is
				// not proved: a rejection only counts if the acceptor without them (state merging
				// only, proved sound and complete) rejects too.
				rejE, mE, _, errE := include(d, "fixed eager=0", used, false)
				switch {
				case errE != nil:
					err = errE
				case rejE == "":
					res.Hit("eager-steps-spurious-rejection")
					res.Note("acceptor with eager steps rejected a trace that the acceptor without them accepts: " + rej)
					rej, maxSet = "", mE
				case rejE == "overflow":
					rej = "overflow"
				}
			}
			if err != nil {
				res.Note("model driver failed: " + err.Error())
				d = nil
			} else {
				if verbose {
					fmt.Fprintf(os.Stderr, "  model: rej=%q maxSet=%d\n", rej, maxSet)
				}
				if rej == "overflow" {
					res.Hit("model-state-set:overflow(not validated)")
				} else {
					res.Traces++
					res.Hit("model-state-set:" + bucket(maxSet))
				}
				if rej != "" && rej != "overflow" {
					res.Disagree("trace inclusion: observable trace of the real Broadcaster must be a trace of KitModel.Broadcaster (variant fixed)", cr, rej, "trace produced by the implementation")
				}
			}
			// the driver's state-set reduction must not change any verdict
			if d != nil && err == nil && rej != "overflow" && res.Evaluations%3 == 0 {
				rej0, _, _, err0 := include(d, "fixed reduce=0 eager=0 cap=6000", used, false)
				switch {
				case err0 != nil:
					res.Note("model driver failed: " + err0.Error())
					d = nil
				case rej0 == "overflow":
					res.Hit("reduction-crosscheck:unreduced-overflow")
				case (rej0 == "") != (rej == ""):
					res.Disagree("driver reductions (state merging, eager internal steps): reduced and unreduced state-set simulation must give the same verdict", cr, "reduced: "+rej, "unreduced: "+rej0)
				default:
					res.Hit("reduction-crosscheck:agree")
				}
			}
			if d != nil && len(o.Stuck) > 0 {
				// does the model of the code as found predict this deadlock?
				rej, _, st, err := include(d, "orig", o.Trace, true)
				if err == nil {
					cr.ModelOrig = fmt.Sprintf("variant=orig accepts=%v %s", rej == "", st)
				}
			}
		}
		for _, fd := range fs {
			res.Violate(fd.ID, fd.What, cr)
		}
	}

	if f.Replay != "" {
		b, err := os.ReadFile(f.Replay)
		if err != nil {
			fmt.Fprintln(os.Stderr, "replay:", err)
			os.Exit(3)
		}
		var rp struct {
			Case caseRec `json:"case"`
		}
		if err := json.Unmarshal(b, &rp); err != nil || len(rp.Case.Scenario.Steps) == 0 {
			fmt.Fprintln(os.Stderr, "replay: no scenario in", f.Replay, err)
			os.Exit(3)
		}
		if st := rp.Case.Scenario.Steps; len(st) == 1 && st[0].Op == "vrace" && st[0].Race != nil {
			// a race is re-executed until it shows again (it is a race), at least 10 times
			sp := *st[0].Race
			sp.Trials = max(sp.Trials, 10)
			runRaces([]RaceSpec{sp}, res)
			res.Write(f.Out)
			return
		}
		if st := rp.Case.Scenario.Steps; len(st) == 1 && st[0].Op == "stress" {
			fs, got := Stress(st[0].N, st[0].Chans, 60*time.Second)
			res.Count("stress-replay", got > 0)
			for _, fd := range fs {
				res.Violate(fd.ID, fd.What, rp.Case)
			}
			res.Write(f.Out)
			return
		}
		// a scenario that releases a held forwarder leaves one random choice to the Go runtime (which
		// ready case the forwarder's select takes): re-execute it until it shows again, up to 16 times
		tries := 1
		for _, st := range rp.Case.Scenario.Steps {
			if st.Op == "unpark" {
				tries = 16
			}
		}
		for i := 0; i < tries && len(res.Violations) == 0 && len(res.Disagreements) == 0; i++ {
			runOne(rp.Case.Scenario, rp.Case.Seed)
		}
		res.Write(f.Out)
		return
	}

	if os.Getenv("C11_ONLY") == "race" { // development aid: the race family alone
		runRaces(raceSpecs(f.Tier, f.Seed, f.Search), res)
		res.Write(f.Out)
		return
	}
	for _, sc := range families() {
		runOne(sc, 0)
	}
	// variadic Subscribe racing Close / cancel at forced points (monitors only; race.go)
	runRaces(raceSpecs(f.Tier, f.Seed, f.Search), res)
	// exhaustive small scope: every join-after-leave sequence over 3 subscriber slots
	churnLen := 7
	if f.Tier == "thorough" {
		churnLen = 8
	}
	for _, seq := range churnSequences(churnLen, 3) {
		runOne(churnScenario("churn-exhaustive", seq), 0)
	}
	res.Exhaustive = false // exhaustive only for the churn family (see distribution family:churn-exhaustive)
	res.Note(fmt.Sprintf("churn family is exhaustive: all valid sequences over {Subscribe, cancel(i), Broadcast} of length <= %d with <= 3 subscribers that contain a join after a leave and end with a Broadcast", churnLen))
	// stress: a later Broadcast must never overtake the value a forwarder holds (monitors only)
	stressN, stressRuns := 3000, 2
	if f.Tier == "thorough" {
		stressN, stressRuns = 20000, 3
	}
	for i := 0; i < stressRuns; i++ {
		readers := 1 + i%2
		fs, got := Stress(stressN, readers, 60*time.Second)
		res.Hit("family:stress")
		res.Hit(fmt.Sprintf("stress-values-received:%d", got))
		res.Count(fmt.Sprintf("stress-%d-%d-%d", stressN, readers, i), got > 0)
		for _, fd := range fs {
			res.Violate(fd.ID, fd.What, map[string]any{"scenario": Scenario{Family: "stress", Steps: []Step{{Op: "stress", N: stressN, Chans: readers}}}})
		}
	}
	nrand := 120
	if f.Tier == "thorough" {
		nrand = 1200
	}
	if f.Search {
		nrand *= 3
	}
	r := lib.NewRand(f.Seed)
	for i := 0; i < nrand/2; i++ {
		cs := r.Fork()
		seed := cs.S
		runOne(randomChurn(cs, cs.Range(6, 12)), seed)
	}
	for i := 0; i < nrand; i++ {
		cs := r.Fork()
		seed := cs.S
		runOne(randomScenario(cs, f.Tier == "thorough" && i%4 == 0), seed)
	}
	res.Write(f.Out)
}
