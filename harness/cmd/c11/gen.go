package main

import "verifharness/lib"

func sub(h int, kind string) Step { return Step{Op: "sub", H: h, Kind: kind} }
func subN(h int, kinds ...string) Step {
	return Step{Op: "sub", H: h, Chans: len(kinds), Kinds: kinds}
}
func bgo(g, first, n int) Step    { return Step{Op: "bgo", G: g, First: first, N: n} }
func settle(ms int) Step          { return Step{Op: "settle", N: ms} }
func cancelS(h int) Step          { return Step{Op: "cancel", H: h} }
func wake(h int) Step             { return Step{Op: "wake", H: h} }
func closeS(n int) Step           { return Step{Op: "close", N: n} }

var quiesce = Step{Op: "quiesce"}
var drain = Step{Op: "drain"}

// Fixed families: the situations named in the property statement.
func families() []Scenario {
	var out []Scenario
	add := func(f string, st ...Step) { out = append(out, Scenario{Family: f, Steps: st}) }
	// more than the 10-slot buffer outstanding at a reader that never reads, then Close
	for _, n := range []int{11, 12, 14} {
		add("stalled-then-close", sub(0, "stalled"), bgo(1, 0, n), settle(15), quiesce, closeS(1), quiesce)
	}
	add("stalled-then-close-2closers", sub(0, "stalled"), bgo(1, 0, 13), settle(15), closeS(2), quiesce)
	// … then the subscriber leaves
	add("stalled-then-cancel", sub(0, "stalled"), bgo(1, 0, 14), settle(15), quiesce, cancelS(0), quiesce,
		sub(1, "prompt"), bgo(2, 0, 3), quiesce, drain, closeS(1), quiesce)
	// Subscribe issued while Broadcast is blocked, then Close / cancel
	add("subscribe-while-blocked-close", sub(0, "stalled"), bgo(1, 0, 12), settle(15), sub(1, "prompt"), closeS(1), quiesce)
	add("subscribe-while-blocked-cancel", sub(0, "stalled"), bgo(1, 0, 12), settle(15), sub(1, "prompt"), cancelS(0), quiesce,
		bgo(2, 0, 2), quiesce, drain, closeS(1), quiesce)
	// several broadcasters blocked on one stalled reader
	add("many-blocked-close", sub(0, "stalled"), sub(1, "prompt"), bgo(1, 0, 6), bgo(2, 0, 6), bgo(3, 0, 6), settle(20), quiesce, closeS(1), quiesce)
	add("many-blocked-cancel", sub(0, "stalled"), sub(1, "prompt"), bgo(1, 0, 6), bgo(2, 0, 6), bgo(3, 0, 6), settle(20), cancelS(0), quiesce, drain, closeS(1), quiesce)
	// stalled reader wakes up: all 12+ outstanding values exactly once, in order
	add("late-reader", sub(0, "stalled"), sub(1, "prompt"), bgo(1, 0, 13), settle(15), wake(0), quiesce, drain, closeS(1), quiesce)
	// plain delivery
	add("prompt-3x3", sub(0, "prompt"), sub(1, "prompt"), sub(2, "slow"), bgo(1, 0, 5), bgo(2, 0, 5), bgo(3, 0, 5), quiesce, drain, closeS(1), quiesce)
	add("join-midway", sub(0, "prompt"), bgo(1, 0, 8), sub(1, "prompt"), bgo(2, 0, 4), sub(2, "slow"), quiesce, drain, closeS(1), quiesce)
	add("cancel-midway", sub(0, "prompt"), sub(1, "slow"), bgo(1, 0, 10), settle(1), cancelS(1), bgo(2, 0, 5), quiesce, drain, closeS(1), quiesce)
	// after Close everything is a no-op
	// variadic Subscribe(ctx, ch1 … chN): one context for several channels
	add("variadic-basic", subN(0, "prompt", "slow", "prompt"), bgo(1, 0, 5), bgo(2, 0, 5), quiesce, drain, closeS(1), quiesce)
	add("variadic-leave", subN(0, "prompt", "stalled", "prompt"), sub(3, "prompt"), bgo(1, 0, 14), settle(15), quiesce,
		cancelS(1), quiesce, bgo(2, 0, 4), quiesce, drain, closeS(1), quiesce)
	add("variadic-leave-all-stalled", subN(0, "stalled", "stalled", "stalled"), bgo(1, 0, 13), settle(15), quiesce,
		cancelS(0), quiesce, sub(3, "prompt"), bgo(2, 0, 3), quiesce, drain, closeS(1), quiesce)
	add("variadic-late-reader", subN(0, "stalled", "prompt"), bgo(1, 0, 13), settle(15), wake(0), quiesce, drain, closeS(1), quiesce)
	for i := 0; i < 6; i++ { // Close racing a 4-channel Subscribe: a prefix of the channels may be registered
		add("variadic-close-race", sub(0, "prompt"), bgo(1, 0, 3), closeS(1), subN(1, "prompt", "prompt", "slow", "prompt"), bgo(2, 0, 3), quiesce)
		add("variadic-close-race", sub(0, "prompt"), bgo(1, 0, 3), subN(1, "prompt", "prompt", "slow", "prompt"), closeS(1), bgo(2, 0, 3), quiesce)
	}
	add("variadic-after-close", closeS(1), quiesce, subN(0, "prompt", "prompt"), bgo(1, 0, 2), quiesce, closeS(1), quiesce)
	// Close must wait for the forwarders: a forwarder is held (hook) after it took a value; Close is
	// called; a reader starts a blocking receive; the forwarder is released and finds both closeCh
	// closed and a receiver waiting (the select picks at random).  With wg.Wait the delivery, if any,
	// precedes the return of Close; without it Close has long returned.
	for i := 0; i < 10; i++ {
		add("close-waits-for-forwarder", sub(0, "stalled"), Step{Op: "park", H: 0}, bgo(1, 0, 2), settle(3), quiesce,
			closeS(1), Step{Op: "waitret", N: 25}, Step{Op: "rblock", H: 0, N: 60}, Step{Op: "unpark", H: 0}, settle(3), quiesce)
	}
	// … and EVERY Close call must wait: 2–4 Close calls overlap (all at once, or the later ones
	// arrive while the first is pending) while the forwarder is held with a value in hand; only one
	// of them wins the CAS, none may return before the forwarder is done.  "Nothing is delivered after
	// Close returns" is judged against the earliest return (Monitors: firstCret).
	for i := 0; i < 6; i++ {
		add("closes-overlap-forwarder-holding", sub(0, "stalled"), Step{Op: "park", H: 0}, bgo(1, 0, 1+i%2), settle(3), quiesce,
			closeS(2+i%3), Step{Op: "waitret", N: 25}, Step{Op: "rblock", H: 0, N: 60}, Step{Op: "unpark", H: 0}, settle(3), quiesce)
	}
	for i := 0; i < 4; i++ {
		add("closes-overlap-forwarder-holding-staggered", sub(0, "stalled"), sub(1, "prompt"), Step{Op: "park", H: 0}, bgo(1, 0, 2), settle(3), quiesce,
			closeS(1), Step{Op: "waitret", N: 4}, closeS(1+i%3), Step{Op: "waitret", N: 20}, Step{Op: "rblock", H: 0, N: 60}, Step{Op: "unpark", H: 0}, settle(3), quiesce)
	}
	// Subscribe with a context that is already cancelled
	pre := func(h int, kinds ...string) Step { st := subN(h, kinds...); st.Pre = true; return st }
	add("precancelled", pre(0, "prompt"), sub(1, "prompt"), bgo(1, 0, 6), quiesce, drain, closeS(1), quiesce)
	add("precancelled-stalled", pre(0, "stalled", "stalled"), sub(2, "prompt"), bgo(1, 0, 14), quiesce, drain, closeS(1), quiesce)
	add("precancelled-only", pre(0, "slow"), bgo(1, 0, 13), quiesce, closeS(1), quiesce)
	// A later Broadcast must not overtake the value the forwarder already holds: the forwarder is held
	// (hook) with v1 in hand, ONE blocking receive waits on the subscriber channel, Broadcast(v2)
	// runs to completion, the forwarder is released.  The subscriber must get v1 then v2.
	park := func(h int) Step { return Step{Op: "park", H: h} }
	unpark := func(h int) Step { return Step{Op: "unpark", H: h} }
	rblock := func(h int) Step { return Step{Op: "rblock", H: h, N: 300} }
	rjoin := Step{Op: "rjoin", N: 400}
	for i := 0; i < 2; i++ {
		add("overtake-forwarder-holding", sub(0, "stalled"), park(0), bgo(1, 0, 1), quiesce, settle(2),
			rblock(0), bgo(2, 0, 1), quiesce, unpark(0), rjoin, rblock(0), rjoin, quiesce, drain, closeS(1), quiesce)
		// two subscribers: the second one reads by polling (a direct hand-over can never reach it)
		add("overtake-two-subscribers", sub(0, "stalled"), sub(1, "prompt"), park(0), bgo(1, 0, 1), quiesce, settle(2),
			rblock(0), bgo(2, 0, 1), quiesce, unpark(0), rjoin, rblock(0), rjoin, quiesce, drain, closeS(1), quiesce)
		// control: something is queued behind the held value, so nothing may be handed over directly
		add("overtake-control-buffer-nonempty", sub(0, "stalled"), park(0), bgo(1, 0, 2), quiesce, settle(2),
			rblock(0), bgo(2, 0, 1), quiesce, unpark(0), rjoin, rblock(0), rjoin, rblock(0), rjoin, quiesce, drain, closeS(1), quiesce)
		// the receiver arrives only after the Broadcast (nobody to hand over to)
		add("overtake-control-late-receiver", sub(0, "stalled"), park(0), bgo(1, 0, 1), quiesce, settle(2),
			bgo(2, 0, 1), quiesce, rblock(0), unpark(0), rjoin, rblock(0), rjoin, quiesce, drain, closeS(1), quiesce)
	}
	add("after-close", sub(0, "prompt"), bgo(1, 0, 2), quiesce, drain, closeS(1), quiesce, bgo(2, 0, 2), sub(1, "prompt"), quiesce, closeS(1), quiesce)
	add("no-subscribers", bgo(1, 0, 3), quiesce, closeS(2), quiesce)
	add("close-during-traffic", sub(0, "prompt"), sub(1, "slow"), sub(2, "stalled"), bgo(1, 0, 8), bgo(2, 0, 8), settle(2), closeS(1), quiesce)
	return out
}

// Random scenario: a few subscribers of random kinds, 1–3 broadcasting goroutines, cancellations,
// wake-ups, late subscribers, and always a Close at the end (possibly in the middle of traffic).
func randomScenario(r *lib.Rand, big bool) Scenario {
	kinds := []string{"prompt", "prompt", "slow", "stalled", "stalled"}
	var st []Step
	nsub := 0
	maxSub := 3
	if big {
		maxSub = 4
	}
	firstOf := map[int]int{}
	prompt := map[int]bool{} // prompt readers that were not cancelled
	addSub := func() {
		if nsub < maxSub {
			n := 1
			if r.Intn(4) == 0 && nsub+3 <= maxSub+2 {
				n = r.Range(2, 3)
			}
			var ks []string
			for c := 0; c < n; c++ {
				ks = append(ks, kinds[r.Intn(len(kinds))])
			}
			step := subN(nsub, ks...)
			if n == 1 {
				step = sub(nsub, ks[0])
			}
			if r.Intn(12) == 0 {
				step.Pre = true
				for c := range ks {
					ks[c] = "cancelled" // not a prompt reader for the generator's bookkeeping
				}
			}
			st = append(st, step)
			for c := 0; c < n; c++ {
				prompt[nsub] = ks[c] == "prompt"
				nsub++
			}
		}
	}
	n0 := r.Range(1, 2)
	for i := 0; i < n0; i++ {
		addSub()
	}
	budget := 24
	if big {
		budget = 40
	}
	rounds := r.Range(2, 5)
	for k := 0; k < rounds; k++ {
		switch r.Intn(7) {
		case 0:
			addSub()
		case 1:
			if nsub > 0 {
				h := r.Intn(nsub)
				st = append(st, cancelS(h))
				prompt[h] = false
			}
		case 2:
			if nsub > 0 {
				st = append(st, wake(r.Intn(nsub)))
			}
		case 3:
			st = append(st, settle(r.Range(1, 8)))
		default:
			// (the lock order is observed through the hook broadcaster.broadcast.locked, so several
			// goroutines may race also when no reader reads)
			ng := r.Range(1, 3)
			_ = prompt
			for g := 1; g <= ng; g++ {
				n := r.Range(1, 13)
				if n > budget {
					n = budget
				}
				if n == 0 {
					continue
				}
				budget -= n
				st = append(st, bgo(g+3*k, firstOf[g+3*k], n))
				firstOf[g+3*k] += n
			}
			if r.Intn(3) == 0 {
				st = append(st, settle(r.Range(1, 10)))
			}
		}
		if r.Intn(3) == 0 {
			st = append(st, quiesce)
			if r.Intn(2) == 0 {
				st = append(st, drain)
			}
		}
	}
	switch r.Intn(3) {
	case 0: // orderly: drain first
		st = append(st, quiesce, drain, closeS(1), quiesce)
	case 1: // close in the middle of whatever is going on
		st = append(st, closeS(r.Range(1, 2)), quiesce)
	default: // everybody leaves, then close
		for h := 0; h < nsub; h++ {
			st = append(st, cancelS(h))
		}
		st = append(st, quiesce, closeS(1), quiesce)
	}
	return Scenario{Family: "random", Steps: st}
}

// churnSequences enumerates every valid sequence of length ≤ maxLen over
// {S = Subscribe the next slot (prompt reader), Ci = cancel slot i, B = one Broadcast} with at most
// `slots` subscribers that (1) contains a Subscribe after a cancel (a join after a leave), (2) ends
// with a Broadcast and (3) leaves at least one subscriber uncancelled.  This is the small-scope
// exhaustive family for subscriber-identity bugs (ids reused after a removal, wrong entry removed).
func churnSequences(maxLen, slots int) [][]string {
	var out [][]string
	var rec func(seq []string, nsub int, cancelled []bool, joinAfterLeave, anyCancel bool)
	rec = func(seq []string, nsub int, cancelled []bool, joinAfterLeave, anyCancel bool) {
		if n := len(seq); n > 0 && seq[n-1] == "B" && joinAfterLeave {
			live := false
			for i := 0; i < nsub; i++ {
				live = live || !cancelled[i]
			}
			if live {
				out = append(out, append([]string(nil), seq...))
			}
		}
		if len(seq) == maxLen {
			return
		}
		if nsub < slots {
			rec(append(seq, "S"), nsub+1, append(append([]bool(nil), cancelled...), false), joinAfterLeave || anyCancel, anyCancel)
		}
		for i := 0; i < nsub; i++ {
			if !cancelled[i] {
				c := append([]bool(nil), cancelled...)
				c[i] = true
				rec(append(seq, "C"+lib.Itoa(i)), nsub, c, joinAfterLeave, true)
			}
		}
		if nsub > 0 {
			rec(append(seq, "B"), nsub, cancelled, joinAfterLeave, anyCancel)
		}
	}
	rec(nil, 0, nil, false, false)
	return out
}

func churnScenario(family string, seq []string) Scenario {
	var st []Step
	nsub, g := 0, 0
	for _, op := range seq {
		switch {
		case op == "S":
			st = append(st, sub(nsub, "prompt"))
			nsub++
		case op == "B":
			g++
			st = append(st, bgo(g, 0, 1), quiesce)
		default: // Ci: cancel, then give the forwarder time to remove itself from the list
			h := int(op[1] - '0')
			st = append(st, cancelS(h), settle(1))
		}
	}
	st = append(st, quiesce, drain, closeS(1), quiesce)
	return Scenario{Family: family, Steps: st}
}

// randomChurn: longer random sequences over 4 slots, mixed reader kinds for the stayers.
func randomChurn(r *lib.Rand, length int) Scenario {
	var seq []string
	nsub := 0
	cancelled := []bool{}
	for len(seq) < length {
		switch k := r.Intn(5); {
		case k <= 1 && nsub < 4:
			seq = append(seq, "S")
			cancelled = append(cancelled, false)
			nsub++
		case k == 2 && nsub > 0:
			i := r.Intn(nsub)
			if !cancelled[i] {
				cancelled[i] = true
				seq = append(seq, "C"+lib.Itoa(i))
			}
		case nsub > 0:
			seq = append(seq, "B")
		}
	}
	seq = append(seq, "B")
	return churnScenario("churn-random", seq)
}
