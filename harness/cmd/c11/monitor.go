package main

import "fmt"

// Finding is a monitor verdict on one execution of the real code.
type Finding struct {
	ID   string
	What string
}

// Monitors decide, from the observable trace alone (no model), whether the execution violates the
// property statement.
func Monitors(o Outcome) []Finding {
	var fs []Finding
	tr := o.Trace
	add := func(id, f string, a ...any) { fs = append(fs, Finding{id, fmt.Sprintf(f, a...)}) }

	if len(o.Panics) > 0 {
		add("panic", "real code panicked: %v", o.Panics)
	}
	if len(o.Stuck) > 0 {
		closeCalled := false
		for _, e := range tr {
			if e.K == "ccall" {
				closeCalled = true
			}
		}
		if closeCalled {
			add("stuck-after-close", "Close was called but these calls did not return within the deadline: %v", o.Stuck)
		} else {
			add("stuck-after-leave", "every unread subscriber was cancelled but these calls did not return within the deadline: %v", o.Stuck)
		}
	}
	if len(o.Lost) > 0 {
		add("lost-value", "values never delivered to a subscribed, reading subscriber while the broadcaster was open (tag:value): %v", o.Lost)
	}

	// per-subscriber sequences, positions of call/return events
	recv := map[int][]int{}
	bcallPos := map[int]int{} // value -> trace index of its bcall
	bretPos := map[int]int{}
	sretPos := map[int]int{}
	firstCret := -1
	for i, e := range tr {
		switch e.K {
		case "bcall":
			bcallPos[e.V] = i
		case "bret":
			bretPos[e.V] = i
		case "sret":
			sretPos[e.A] = i
		case "cret":
			if firstCret < 0 {
				firstCret = i
			}
		case "recv":
			// a polling reader's receive is logged where it happened; a blocking reader's receive
			// happened somewhere after position Lo: it is after Close returned only if the return
			// was logged before the receive even began
			if firstCret >= 0 && (e.Lo == 0 || firstCret < e.Lo) {
				add("delivery-after-close", "subscriber %d received %d after Close returned", e.A, e.V)
			}
			if _, ok := bcallPos[e.V]; !ok {
				add("value-not-broadcast", "subscriber %d received %d which no Broadcast call had passed yet", e.A, e.V)
			}
			if p, ok := sretPos[e.A]; !ok || p > i {
				// a value may legitimately arrive before the sret *log line* (Subscribe has returned
				// from the lock already); only a receive before the Subscribe call is impossible.
				_ = p
			}
			recv[e.A] = append(recv[e.A], e.V)
		}
	}
	// exactly once: no duplicates
	pos := map[int]map[int]int{}
	for h, seq := range recv {
		pos[h] = map[int]int{}
		for i, v := range seq {
			if _, dup := pos[h][v]; dup {
				add("duplicate-delivery", "subscriber %d received %d twice", h, v)
			}
			pos[h][v] = i
		}
	}
	// one common order, no holes: two subscribers' sequences are contiguous segments of one log, so
	// on the range both cover they must be identical.
	for h1, s1 := range recv {
		for h2, s2 := range recv {
			if h1 >= h2 {
				continue
			}
			var c1, c2 []int
			lo1, hi1, lo2, hi2 := -1, -1, -1, -1
			for i, v := range s1 {
				if _, ok := pos[h2][v]; ok {
					if lo1 < 0 {
						lo1 = i
					}
					hi1 = i
				}
			}
			for i, v := range s2 {
				if _, ok := pos[h1][v]; ok {
					if lo2 < 0 {
						lo2 = i
					}
					hi2 = i
				}
			}
			if lo1 < 0 {
				continue
			}
			c1, c2 = s1[lo1:hi1+1], s2[lo2:hi2+1]
			same := len(c1) == len(c2)
			for i := 0; same && i < len(c1); i++ {
				same = c1[i] == c2[i]
			}
			if !same {
				add("order-or-gap", "subscribers %d and %d disagree on the range they share: %v vs %v", h1, h2, c1, c2)
			}
		}
	}
	// the common order respects the order of Broadcast calls
	for h, seq := range recv {
		for i := 0; i < len(seq); i++ {
			for j := i + 1; j < len(seq); j++ {
				a, b := seq[i], seq[j] // a received before b
				rb, okb := bretPos[b]
				ca, oka := bcallPos[a]
				if okb && oka && rb < ca {
					add("overtaken-by-later-broadcast", "subscriber %d received %d before %d although Broadcast(%d) returned before Broadcast(%d) was called", h, a, b, b, a)
				}
			}
		}
	}
	// a subscriber never receives a value whose Broadcast returned before its Subscribe was called
	scallPos := map[int]int{}
	for i, e := range tr {
		if e.K == "scall" {
			n := e.V
			if n < 1 {
				n = 1
			}
			for k := 0; k < n; k++ {
				scallPos[e.A+k] = i
			}
		}
	}
	for h, seq := range recv {
		for _, v := range seq {
			if rp, ok := bretPos[v]; ok && rp < scallPos[h] {
				add("value-before-subscribe", "subscriber %d received %d whose Broadcast returned before Subscribe was called", h, v)
			}
		}
	}
	return fs
}
