package main

// Race family (monitors only, no model): one variadic Subscribe(ctx, ch1 … chN) call racing Close,
// a cancellation, or other Subscribe / Close calls, at every point the harness can force without
// touching the code under test:
//
//   - the context passed to Subscribe is an ordinary context whose Done() method counts its calls;
//     every forwarder goroutine calls Done() when it enters its loop, so the K-th call tells the
//     harness that Subscribe is in the middle of registering its channels (K = 1: the first
//     forwarder has just started; K = N: the last one).  Done() may also block, which parks a
//     forwarder before it looks at any channel;
//   - a 16 KiB element type makes every `make(chan T, bufferSize)` inside Subscribe slow, which
//     widens the windows between the per-channel steps of a 2-, 3-, 4-channel call (for an int
//     payload those windows are a few nanoseconds);
//   - free-running races start both calls from a barrier with a random head start for one of them.
//
// Subscriber channels are buffered here (capacity > number of values broadcast), so a forwarder's
// send never needs a reader and nothing in these runs can legitimately block: every call must
// return.  What is demanded is only what the property states: Subscribe, Broadcast and Close return
// (deadline in seconds, confirmed by waiting as long again), nothing arrives at any channel after
// Close returned, no value twice, values of the one sequential broadcaster in increasing order.
//
// Each spec runs in a child process (the harness binary re-executed): a panic inside a goroutine of
// the broadcaster (e.g. "sync: negative WaitGroup counter") cannot be recovered and would kill the
// harness; in a child it becomes the reported outcome of that spec.

import (
	"bufio"
	"bytes"
	"context"
	"encoding/json"
	"fmt"
	"io"
	"os"
	"os/exec"
	"strings"
	"sync"
	"sync/atomic"
	"time"

	"verifharness/lib"

	"github.com/dapr/kit/events/broadcaster"
	"github.com/dapr/kit/verifhook"
)

// RaceSpec describes one race; Trials executions (each on a fresh Broadcaster), stopping at the
// first one that violates.
type RaceSpec struct {
	Mode    string `json:"mode"`
	N       int    `json:"n"`                 // channels of the Subscribe call
	K       int    `json:"k,omitempty"`       // trigger = the K-th ctx.Done() call
	Bcast   int    `json:"bcast,omitempty"`   // values 1..Bcast broadcast concurrently by one goroutine; one earlier subscriber
	Big     bool   `json:"big,omitempty"`     // 16 KiB element type
	Closers int    `json:"closers,omitempty"` // concurrent Close calls (default 1)
	Park    int    `json:"park,omitempty"`    // closes-overlap-parked: forwarders held at the hook with a value in hand (0 = all N)
	Pre     int    `json:"pre,omitempty"`     // closes-overlap-*: values broadcast (sequentially, every call returned) before Close is called
	Stagger bool   `json:"stagger,omitempty"` // closes-overlap-*: the first Close call gets a head start, the others arrive while it is pending
	Trials  int    `json:"trials"`
	Seed    uint64 `json:"seed,omitempty"`
}

func (sp RaceSpec) family() string { return "vrace-" + sp.Mode }

func (sp RaceSpec) scenario() Scenario {
	c := sp
	return Scenario{Family: sp.family(), Steps: []Step{{Op: "vrace", Race: &c}}}
}

// raceReply is what the child process answers for one spec.
type raceReply struct {
	Findings []Finding      `json:"findings"`
	Stuck    []string       `json:"stuck,omitempty"`
	Dump     string         `json:"dump,omitempty"`
	Hits     map[string]int `json:"hits"`
	Trials   int            `json:"trials"`
	Dirty    bool           `json:"dirty,omitempty"` // goroutines of a stuck broadcaster are left behind
}

const (
	raceDeadline = 5 * time.Second // a call must return within this …
	raceConfirm  = 5 * time.Second // … and is declared stuck only if it has not returned after this much more
)

type bigVal struct {
	v   int
	pad [2047]int64
}

// raceCtx is an ordinary context whose Done() counts its calls, announces the K-th and, with a
// gate, blocks the first parkUpTo callers until the gate is opened.
type raceCtx struct {
	context.Context
	calls    atomic.Int64
	trigger  int64
	fired    chan struct{}
	gate     chan struct{}
	parkUpTo int64
}

func (c *raceCtx) Done() <-chan struct{} {
	k := c.calls.Add(1)
	if k == c.trigger {
		close(c.fired)
	}
	if c.gate != nil && k <= c.parkUpTo {
		<-c.gate
	}
	return c.Context.Done()
}

type pcall struct {
	name string
	done chan struct{}
}

type raceWorld struct {
	mu     sync.Mutex
	panics []string
	calls  []*pcall
}

// goCall runs one call into the real code in its own goroutine under recover.
func (w *raceWorld) goCall(name string, f func()) *pcall {
	c := &pcall{name: name, done: make(chan struct{})}
	w.mu.Lock()
	w.calls = append(w.calls, c)
	w.mu.Unlock()
	go func() {
		defer close(c.done)
		defer func() {
			if r := recover(); r != nil {
				w.mu.Lock()
				w.panics = append(w.panics, fmt.Sprintf("%s: %v", name, r))
				w.mu.Unlock()
			}
		}()
		f()
	}()
	return c
}

func returned(c *pcall) bool {
	select {
	case <-c.done:
		return true
	default:
		return false
	}
}

// await waits for the calls; a call still pending after raceDeadline+raceConfirm is stuck.
func await(cs ...*pcall) (stuck []string) {
	limit := time.NewTimer(raceDeadline + raceConfirm)
	defer limit.Stop()
	for _, c := range cs {
		if c == nil {
			continue
		}
		select {
		case <-c.done:
		case <-limit.C:
			// the budget is shared: everything still pending now is stuck
			for _, d := range cs {
				if d != nil && !returned(d) {
					stuck = append(stuck, d.name)
				}
			}
			return stuck
		}
	}
	return nil
}

func spin(d time.Duration) {
	if d <= 0 {
		return
	}
	t := time.Now()
	for time.Since(t) < d {
	}
}

type trialOut struct {
	fs     []Finding
	stuck  []string
	dump   string
	hits   []string
	closed bool // Close was called
}

// raceTrial executes the spec once against a fresh Broadcaster[T].
func raceTrial[T any](sp RaceSpec, mk func(int) T, val func(T) int, r *lib.Rand) (out trialOut) {
	w := &raceWorld{}
	b := broadcaster.New[T]()
	n := sp.N
	add := func(id, f string, a ...any) { out.fs = append(out.fs, Finding{id, fmt.Sprintf(f, a...)}) }
	hit := func(s string) { out.hits = append(out.hits, s) }
	base, cancel := context.WithCancel(context.Background())
	defer cancel()
	capn := sp.Bcast + sp.Pre + 6
	mkChans := func(k int) (raw []chan T, snd []chan<- T) {
		for i := 0; i < k; i++ {
			c := make(chan T, capn)
			raw = append(raw, c)
			snd = append(snd, c)
		}
		return
	}
	raw, snd := mkChans(n)
	sent := map[int]bool{}
	var sentMu sync.Mutex
	bcastOne := func(v int) func() {
		return func() {
			sentMu.Lock()
			sent[v] = true
			sentMu.Unlock()
			b.Broadcast(mk(v))
		}
	}
	newCtx := func(k int) *raceCtx {
		return &raceCtx{Context: base, trigger: int64(k), fired: make(chan struct{})}
	}
	waitFired := func(c *raceCtx) bool {
		select {
		case <-c.fired:
			return true
		case <-time.After(raceDeadline):
			return false
		}
	}
	var pending []*pcall
	track := func(c *pcall) *pcall { pending = append(pending, c); return c }
	closeCalled := false
	// The clause "nothing is delivered after Close returns" holds for EVERY Close call, so it is
	// judged against the earliest return: the goroutine of the first Close call to return records,
	// right after the return, how many values every subscriber channel holds (nobody receives from
	// these channels before the final check, so a fill level can only grow by a delivery).
	var all []chan T // every subscriber channel of this trial (set below, before any Close is called)
	var firstOnce sync.Once
	var firstMu sync.Mutex
	var firstLens []int
	firstTag := ""
	firstRet := make(chan struct{})
	closeReturned := func(tag string) {
		firstOnce.Do(func() {
			lens := make([]int, len(all))
			for i, c := range all {
				lens[i] = len(c)
			}
			firstMu.Lock()
			firstLens, firstTag = lens, tag
			firstMu.Unlock()
			close(firstRet)
		})
	}
	closeFn := func(tag string, before func()) func() {
		return func() {
			if before != nil {
				before()
			}
			b.Close()
			closeReturned(tag)
		}
	}
	doClose := func(tag string) *pcall {
		closeCalled = true
		return track(w.goCall("Close#"+tag, closeFn(tag, nil)))
	}
	parkedAtFirstReturn := int64(0) // closes-overlap-parked: forwarders still held when a Close call returned
	stuckNow := func(names []string, context string) {
		out.stuck = names
		out.dump = broadcasterDump()
		if closeCalled {
			add("stuck-after-close", "%s: Close was called but these calls did not return within %v: %v (no subscriber is stalled: every subscriber channel is buffered and has room)", context, raceDeadline+raceConfirm, names)
		} else {
			add("stuck-after-leave", "%s: these calls did not return within %v: %v (no subscriber is stalled: every subscriber channel is buffered and has room)", context, raceDeadline+raceConfirm, names)
		}
	}

	// one earlier subscriber and one sequential broadcaster running through the race
	var earlier chan T
	var bgo *pcall
	if sp.Bcast > 0 {
		earlier = make(chan T, capn)
		if st := await(w.goCall("Subscribe(earlier)", func() { b.Subscribe(base, earlier) })); st != nil {
			stuckNow(st, "setup")
			return
		}
		m := sp.Bcast
		bgo = track(w.goCall(fmt.Sprintf("goroutine(Broadcast 1..%d)", m), func() {
			for v := 1; v <= m; v++ {
				bcastOne(v)()
			}
		}))
	}

	all = append([]chan T(nil), raw...)
	if earlier != nil {
		all = append(all, earlier)
	}

	ctx := newCtx(sp.K)
	desc := fmt.Sprintf("Subscribe(ctx, %d channels)", n)
	startedAtClose := int64(-1)
	switch sp.Mode {
	case "close-at-forwarder":
		// Close is called at the moment the K-th forwarder of the running Subscribe call starts
		track(w.goCall(desc, func() { b.Subscribe(ctx, snd...) }))
		if !waitFired(ctx) {
			hit("trigger-not-reached")
		}
		startedAtClose = ctx.calls.Load()
		for k := 0; k < max(1, sp.Closers); k++ {
			doClose(fmt.Sprint(k))
		}
	case "close-parked-forwarder":
		// the first K forwarders are parked inside ctx.Done(); Close is called; they are released
		ctx.gate, ctx.parkUpTo = make(chan struct{}), int64(sp.K)
		sub := track(w.goCall(desc, func() { b.Subscribe(ctx, snd...) }))
		if !waitFired(ctx) {
			hit("trigger-not-reached")
		}
		startedAtClose = ctx.calls.Load()
		cl := doClose("0")
		for k := 1; k < sp.Closers; k++ {
			doClose(fmt.Sprint(k))
		}
		select {
		case <-sub.done:
		case <-time.After(raceDeadline):
		}
		time.Sleep(time.Millisecond)
		if returned(cl) {
			hit("close-returned-while-forwarder-parked")
		}
		close(ctx.gate)
	case "free":
		// both calls leave a barrier together, one of them with a random head start
		est := time.Duration(n) * 1500 * time.Nanosecond
		if sp.Big {
			est = time.Duration(n) * 40 * time.Microsecond
		}
		d := time.Duration(r.Intn(int(est)+6000)) - 5*time.Microsecond // > 0: Close is late
		start := make(chan struct{})
		track(w.goCall(desc, func() { <-start; spin(-d); b.Subscribe(ctx, snd...) }))
		closeCalled = true
		track(w.goCall("Close#0", closeFn("0", func() { <-start; spin(d) })))
		time.Sleep(50 * time.Microsecond)
		close(start)
	case "cancel-at-forwarder":
		// the context of the call is cancelled when its K-th forwarder starts; afterwards a
		// Broadcast and Close must still return
		track(w.goCall(desc, func() { b.Subscribe(ctx, snd...) }))
		if !waitFired(ctx) {
			hit("trigger-not-reached")
		}
		cancel()
		if st := await(pending...); st != nil {
			stuckNow(st, sp.Mode)
			return
		}
		if st := await(w.goCall("Broadcast(500)", bcastOne(500))); st != nil {
			stuckNow(st, sp.Mode+" (every subscriber of the call was cancelled)")
			return
		}
		doClose("0")
	case "after-close":
		if st := await(doClose("0")); st != nil {
			stuckNow(st, sp.Mode)
			return
		}
		track(w.goCall(desc+" after Close returned", func() { b.Subscribe(ctx, snd...) }))
		doClose("1")
	case "double-close":
		if st := await(w.goCall(desc, func() { b.Subscribe(ctx, snd...) })); st != nil {
			stuckNow(st, sp.Mode)
			return
		}
		for k := 0; k < max(2, sp.Closers); k++ {
			doClose(fmt.Sprint(k))
		}
		if st := await(pending...); st != nil {
			stuckNow(st, sp.Mode)
			return
		}
		doClose("again")
	case "zero":
		// Subscribe with no channel at all: on the open broadcaster, racing Close, after Close
		if st := await(w.goCall("Subscribe(ctx) with no channel", func() { b.Subscribe(ctx) })); st != nil {
			stuckNow(st, sp.Mode)
			return
		}
		if st := await(w.goCall(desc, func() { b.Subscribe(ctx, snd...) })); st != nil {
			stuckNow(st, sp.Mode)
			return
		}
		if st := await(w.goCall("Broadcast(700)", bcastOne(700))); st != nil {
			stuckNow(st, sp.Mode)
			return
		}
		// subscribed before the call, still subscribed, broadcaster open: 700 must arrive
		for i, c := range raw {
			select {
			case v := <-c:
				if val(v) != 700 {
					add("value-not-broadcast", "zero: channel %d received %d, only 700 was broadcast", i, val(v))
				}
			case <-time.After(raceDeadline):
				add("lost-value", "zero: channel %d of %s never received 700 although it was subscribed before Broadcast(700) was called and the broadcaster is open", i, desc)
				return
			}
		}
		start := make(chan struct{})
		track(w.goCall("Subscribe(ctx) with no channel, racing Close", func() { <-start; b.Subscribe(ctx) }))
		closeCalled = true
		track(w.goCall("Close#0", closeFn("0", func() { <-start })))
		close(start)
		if st := await(pending...); st != nil {
			stuckNow(st, sp.Mode)
			return
		}
		track(w.goCall("Subscribe(ctx) with no channel, after Close", func() { b.Subscribe(ctx) }))
		doClose("1")
	case "two-subscribes":
		// two Subscribe calls from two goroutines; Close when the K-th forwarder (of either) starts
		h := n / 2
		track(w.goCall(fmt.Sprintf("Subscribe(ctx, %d channels)#a", h), func() { b.Subscribe(ctx, snd[:h]...) }))
		track(w.goCall(fmt.Sprintf("Subscribe(ctx, %d channels)#b", n-h), func() { b.Subscribe(ctx, snd[h:]...) }))
		if !waitFired(ctx) {
			hit("trigger-not-reached")
		}
		startedAtClose = ctx.calls.Load()
		doClose("0")
	case "close-waits-parked":
		// every forwarder of the call is held (hook) with a value in hand; Close is called; the
		// forwarders are released: whatever they still deliver must arrive before Close returns
		gate := make(chan struct{})
		var parked atomic.Int64
		verifhook.Set(func(name string, args ...any) {
			if name == "broadcaster.forwarder.holding" && len(args) > 0 && args[0] == any(b) {
				parked.Add(1)
				<-gate
			}
		})
		defer verifhook.Set(nil)
		if st := await(w.goCall(desc, func() { b.Subscribe(ctx, snd...) })); st != nil {
			close(gate)
			stuckNow(st, sp.Mode)
			return
		}
		if st := await(w.goCall("Broadcast(900)", bcastOne(900))); st != nil {
			close(gate)
			stuckNow(st, sp.Mode)
			return
		}
		t0 := time.Now()
		for parked.Load() < int64(n) && time.Since(t0) < 2*time.Second {
			time.Sleep(100 * time.Microsecond)
		}
		if parked.Load() < int64(n) {
			hit("not-all-forwarders-parked")
		}
		cl := doClose("0")
		time.Sleep(2 * time.Millisecond)
		if returned(cl) {
			hit("close-returned-while-forwarder-parked")
		}
		close(gate)
	case "closes-overlap-parked":
		// Several Close calls overlap while forwarders hold a value.  Park (default: all N) forwarders
		// are held at the hook after they took a value from their buffer (their subscriber channel has
		// free buffer space, so the send they are about to offer can succeed); 2..4 Close calls are
		// started (together, or the first one with a head start).  While a forwarder is held no Close
		// call can have waited for it; if one returns all the same, the fill levels are recorded at
		// that return and only then are the forwarders released: whatever arrives now was delivered
		// after that Close call had returned.  If none returns (as it must be), the forwarders are
		// released after a moment and every call must return.
		gate := make(chan struct{})
		release := sync.OnceFunc(func() { close(gate) })
		defer release()
		want := int64(sp.Park)
		if want <= 0 || want > int64(n) {
			want = int64(n)
		}
		var arrived, parked, freed atomic.Int64
		verifhook.Set(func(name string, args ...any) {
			if name == "broadcaster.forwarder.holding" && len(args) > 0 && args[0] == any(b) {
				if arrived.Add(1) <= want {
					parked.Add(1)
					<-gate
					freed.Add(1)
				}
			}
		})
		defer verifhook.Set(nil)
		if st := await(w.goCall(desc, func() { b.Subscribe(ctx, snd...) })); st != nil {
			stuckNow(st, sp.Mode)
			return
		}
		for v := 0; v < max(1, sp.Pre); v++ {
			if st := await(w.goCall(fmt.Sprintf("Broadcast(%d)", 900+v), bcastOne(900+v))); st != nil {
				stuckNow(st, sp.Mode)
				return
			}
		}
		t0 := time.Now()
		for parked.Load() < want && time.Since(t0) < 2*time.Second {
			time.Sleep(100 * time.Microsecond)
		}
		if parked.Load() < want {
			hit("not-all-forwarders-parked")
		}
		kc := max(2, sp.Closers)
		doClose("0")
		if sp.Stagger {
			time.Sleep(300 * time.Microsecond) // the first call is pending (it waits for the held forwarders)
		}
		for k := 1; k < kc; k++ {
			doClose(fmt.Sprint(k))
		}
		select {
		case <-firstRet:
			if held := parked.Load() - freed.Load(); held > 0 {
				parkedAtFirstReturn = held
				hit("close-returned-while-forwarder-parked")
			}
		case <-time.After(25 * time.Millisecond):
			hit("no-close-returned-while-forwarders-parked")
		}
		release()
	case "closes-overlap-volume":
		// The same without hooks: many subscribers whose forwarders are busy moving the values just
		// broadcast, then 2..4 Close calls at once; fill levels at the first return against the end.
		if st := await(w.goCall(desc, func() { b.Subscribe(ctx, snd...) })); st != nil {
			stuckNow(st, sp.Mode)
			return
		}
		for v := 1; v <= max(1, sp.Pre); v++ {
			if st := await(w.goCall(fmt.Sprintf("Broadcast(%d)", v), bcastOne(v))); st != nil {
				stuckNow(st, sp.Mode)
				return
			}
		}
		kc := max(2, sp.Closers)
		start := make(chan struct{})
		closeCalled = true
		for k := 0; k < kc; k++ {
			k := k
			track(w.goCall(fmt.Sprintf("Close#%d", k), closeFn(fmt.Sprint(k), func() {
				<-start
				if sp.Stagger && k > 0 {
					spin(time.Duration(k) * 20 * time.Microsecond)
				}
			})))
		}
		close(start)
	default:
		add("panic", "unknown race mode %q", sp.Mode)
		return
	}
	out.closed = closeCalled

	if st := await(pending...); st != nil {
		ctxt := sp.Mode
		if startedAtClose >= 0 {
			ctxt = fmt.Sprintf("%s: about %d of the %d forwarders had started when Close was called", sp.Mode, startedAtClose, n)
		}
		stuckNow(st, ctxt)
		return
	}
	_ = bgo
	if sp.Bcast == 0 {
		switch got := ctx.calls.Load(); {
		case got == 0:
			hit("registered:none")
		case got < int64(n):
			hit("registered:proper-prefix")
		default:
			hit("registered:all")
		}
	}

	// Every Close call has returned.  Judged against the EARLIEST return: nothing may have arrived
	// since the first Close call returned.
	firstMu.Lock()
	fl, ft := firstLens, firstTag
	firstMu.Unlock()
	if fl != nil {
		hit("judged-against-earliest-close-return")
		late, chans, ex := 0, 0, -1
		for i, c := range all {
			if d := len(c) - fl[i]; d > 0 {
				late += d
				chans++
				if ex < 0 {
					ex = i
				}
			}
		}
		if late > 0 {
			how := ""
			if parkedAtFirstReturn > 0 {
				how = fmt.Sprintf("; that call returned while %d forwarder(s) were still held at the hook broadcaster.forwarder.holding with a value in hand and were released only afterwards", parkedAtFirstReturn)
			}
			add("delivery-after-close", "%s: %d value(s) arrived at %d subscriber channel(s) after Close#%s had returned (the first of the Close calls to return; the others were still running): e.g. channel %d held %d value(s) when it returned and %d once all had returned%s", sp.Mode, late, chans, ft, ex, fl[ex], len(all[ex]), how)
		}
	}
	// … and from now on nothing may arrive either.
	l1 := make([]int, len(all))
	for i, c := range all {
		l1[i] = len(c)
	}
	const sentinel = 9999
	for k := 0; k < 2; k++ {
		if st := await(w.goCall("Broadcast after Close returned", func() { b.Broadcast(mk(sentinel)) })); st != nil {
			stuckNow(st, sp.Mode+", Close had returned")
			return
		}
	}
	time.Sleep(2 * time.Millisecond)
	delivered := 0
	for i, c := range all {
		if l2 := len(c); l2 > l1[i] {
			add("delivery-after-close", "%s: channel %d held %d values when Close returned and %d a moment later", sp.Mode, i, l1[i], l2)
			break
		}
	}
	for i, c := range all {
		prev := 0
		for len(c) > 0 {
			v := val(<-c)
			delivered++
			sentMu.Lock()
			ok := sent[v]
			sentMu.Unlock()
			switch {
			case v == sentinel:
				add("delivery-after-close", "%s: channel %d received the value broadcast after Close returned", sp.Mode, i)
			case !ok:
				add("value-not-broadcast", "%s: channel %d received %d which no Broadcast call had passed", sp.Mode, i, v)
			case v == prev:
				add("duplicate-delivery", "%s: channel %d received %d twice", sp.Mode, i, v)
			case v < prev:
				add("overtaken-by-later-broadcast", "%s: channel %d received %d before %d although Broadcast(%d) returned before Broadcast(%d) was called", sp.Mode, i, prev, v, v, prev)
			}
			prev = v
		}
	}
	if delivered > 0 {
		hit("values-delivered-before-close-returned")
	}
	w.mu.Lock()
	if len(w.panics) > 0 {
		add("panic", "real code panicked: %v", w.panics)
	}
	w.mu.Unlock()
	return out
}

// runRaceSpec executes the trials of one spec in this process.
func runRaceSpec(sp RaceSpec) raceReply {
	rep := raceReply{Hits: map[string]int{}}
	r := lib.NewRand(sp.Seed ^ 0xc11)
	for t := 0; t < max(1, sp.Trials); t++ {
		var o trialOut
		if sp.Big {
			o = raceTrial(sp, func(v int) bigVal { return bigVal{v: v} }, func(x bigVal) int { return x.v }, r)
		} else {
			o = raceTrial(sp, func(v int) int { return v }, func(x int) int { return x }, r)
		}
		rep.Trials++
		for _, h := range o.hits {
			rep.Hits[h]++
		}
		if len(o.fs) > 0 {
			rep.Findings, rep.Stuck, rep.Dump = o.fs, o.stuck, o.dump
			rep.Dirty = len(o.stuck) > 0
			break
		}
	}
	return rep
}

// raceChildMain: the harness binary re-executed with C11_RACE_CHILD set; one spec per input line,
// one reply per line.
func raceChildMain() {
	in := bufio.NewReaderSize(os.Stdin, 1<<20)
	out := bufio.NewWriter(os.Stdout)
	for {
		line, err := in.ReadBytes('\n')
		if len(bytes.TrimSpace(line)) > 0 {
			var sp RaceSpec
			if e := json.Unmarshal(line, &sp); e != nil {
				fmt.Fprintln(os.Stderr, "race child: bad spec:", e)
				os.Exit(3)
			}
			b, _ := json.Marshal(runRaceSpec(sp))
			out.Write(b)
			out.WriteByte('\n')
			out.Flush()
		}
		if err != nil {
			return
		}
	}
}

type raceChild struct {
	cmd    *exec.Cmd
	stdin  io.WriteCloser
	lines  chan string
	stderr *bytes.Buffer
}

func startRaceChild() (*raceChild, error) {
	exe, err := os.Executable()
	if err != nil {
		return nil, err
	}
	c := &raceChild{cmd: exec.Command(exe), lines: make(chan string, 4), stderr: &bytes.Buffer{}}
	c.cmd.Env = append(os.Environ(), "C11_RACE_CHILD=1", "GOTRACEBACK=all")
	c.cmd.Stderr = c.stderr
	if c.stdin, err = c.cmd.StdinPipe(); err != nil {
		return nil, err
	}
	so, err := c.cmd.StdoutPipe()
	if err != nil {
		return nil, err
	}
	if err := c.cmd.Start(); err != nil {
		return nil, err
	}
	go func() {
		rd := bufio.NewReaderSize(so, 1<<20)
		for {
			l, err := rd.ReadString('\n')
			if strings.TrimSpace(l) != "" {
				c.lines <- l
			}
			if err != nil {
				close(c.lines)
				return
			}
		}
	}()
	return c, nil
}

func (c *raceChild) stop() {
	if c == nil {
		return
	}
	c.stdin.Close()
	c.cmd.Process.Kill()
	c.cmd.Wait()
}

// crashSummary extracts what killed the child from its stderr: the fatal line and the frames of
// the broadcaster.
func crashSummary(stderr string) string {
	lines := strings.Split(stderr, "\n")
	var keep []string
	for i, l := range lines {
		if strings.HasPrefix(l, "panic:") || strings.HasPrefix(l, "fatal error:") {
			keep = append(keep, l)
			for _, m := range lines[i+1:] {
				if strings.Contains(m, "events/broadcaster") || strings.Contains(m, "sync.(*WaitGroup)") {
					keep = append(keep, strings.TrimSpace(m))
				}
				if len(keep) > 8 {
					break
				}
			}
			break
		}
	}
	if len(keep) == 0 {
		if len(stderr) > 600 {
			stderr = stderr[len(stderr)-600:]
		}
		return stderr
	}
	return strings.Join(keep, " | ")
}

// runRaces executes the specs (each in a child process; in this process if a child cannot be
// started) and records outcomes in res.
func runRaces(specs []RaceSpec, res *lib.Result) {
	var child *raceChild
	defer func() { child.stop() }()
	inProcess := false
	stuckSeen := 0
	for _, sp := range specs {
		if stuckSeen >= 2 {
			res.Hit("race-skipped-after-two-stuck-verdicts")
			continue
		}
		var rep raceReply
		crashed := ""
		if !inProcess && child == nil {
			c, err := startRaceChild()
			if err != nil {
				res.Note("race family: cannot start a child process (" + err.Error() + "); running in-process")
				inProcess = true
			} else {
				child = c
			}
		}
		if inProcess {
			rep = runRaceSpec(sp)
		} else {
			b, _ := json.Marshal(sp)
			child.stdin.Write(append(b, '\n'))
			budget := 60*time.Second + time.Duration(max(1, sp.Trials))*2*time.Second
			select {
			case l, ok := <-child.lines:
				if !ok {
					child.cmd.Wait()
					crashed = crashSummary(child.stderr.String())
					child = nil
				} else if err := json.Unmarshal([]byte(l), &rep); err != nil {
					res.Note("race family: unreadable reply from the child: " + err.Error())
					child.stop()
					child = nil
					continue
				}
			case <-time.After(budget):
				// every call into the real code runs in its own goroutine under a deadline, so this
				// is the harness (or the machine), not a verdict
				res.Note(fmt.Sprintf("race family: child gave no answer for %+v within %v; skipped", sp, budget))
				res.Hit("race-child-timeout")
				child.stop()
				child = nil
				continue
			}
		}
		res.Hit("family:" + sp.family())
		res.Hit(fmt.Sprintf("race-n:%s", bucket(sp.N)))
		res.Distribution["race-trials"] += rep.Trials
		for h, k := range rep.Hits {
			res.Hit("race:" + h)
			_ = k
		}
		for h, k := range rep.Hits {
			if strings.HasPrefix(h, "registered:") {
				res.Distribution["race-trials-"+h] += k
			}
		}
		key, _ := json.Marshal(sp)
		res.Count("vrace:"+string(key), sp.N > 0 && crashed == "")
		cr := caseRec{Scenario: sp.scenario(), Seed: sp.Seed, Stuck: rep.Stuck, Dump: rep.Dump}
		if crashed != "" {
			res.Violate("panic", "the process died while running this race (a panic in a goroutine of the real code cannot be recovered): "+crashed, cr)
			continue
		}
		for _, fd := range rep.Findings {
			res.Violate(fd.ID, fd.What, cr)
		}
		if os.Getenv("C11_VERBOSE") != "" {
			fmt.Fprintf(os.Stderr, "race %s: trials=%d hits=%v findings=%d\n", key, rep.Trials, rep.Hits, len(rep.Findings))
		}
		if rep.Dirty {
			stuckSeen++
			child.stop()
			child = nil
		}
	}
}

// raceSpecs: the family.  Sizes span the boundary values of the variadic call (0, 1, 2 … 2000).
func raceSpecs(tier string, seed uint64, search bool) []RaceSpec {
	mul := 1
	if tier == "thorough" {
		mul = 4
	}
	if search {
		mul *= 3
	}
	var out []RaceSpec
	add := func(sp RaceSpec) {
		sp.Trials *= mul
		sp.Seed = seed + uint64(len(out))
		out = append(out, sp)
	}
	sizes := []int{2, 3, 4, 8, 16, 64, 256, 1000, 2000}
	if tier == "thorough" {
		sizes = []int{2, 3, 4, 5, 8, 16, 32, 64, 128, 256, 512, 1000, 2000}
	}
	// the case the others are measured against: a long call, Close when its first forwarder starts
	add(RaceSpec{Mode: "close-at-forwarder", N: 2000, K: 1, Trials: 3})
	for _, n := range sizes {
		t := 3
		if n <= 16 {
			t = 8
		}
		if n != 2000 {
			add(RaceSpec{Mode: "close-at-forwarder", N: n, K: 1, Trials: t})
		}
		if n >= 4 {
			add(RaceSpec{Mode: "close-at-forwarder", N: n, K: n / 2, Trials: 2})
		}
		add(RaceSpec{Mode: "close-at-forwarder", N: n, K: n, Trials: 2})
	}
	for _, n := range []int{2, 3, 4, 8, 16} {
		add(RaceSpec{Mode: "close-at-forwarder", N: n, K: 1, Big: true, Trials: 10})
		add(RaceSpec{Mode: "free", N: n, Big: true, Trials: 25})
	}
	for _, n := range []int{2, 4, 16, 64, 256, 2000} {
		t := 30
		if n >= 256 {
			t = 12
		}
		add(RaceSpec{Mode: "free", N: n, Trials: t})
	}
	for _, n := range []int{4, 64, 2000} {
		add(RaceSpec{Mode: "close-at-forwarder", N: n, K: 1, Bcast: 5, Trials: 3})
		add(RaceSpec{Mode: "close-at-forwarder", N: n, K: 1, Closers: 3, Trials: 2})
		add(RaceSpec{Mode: "two-subscribes", N: n, K: 1, Trials: 3})
		add(RaceSpec{Mode: "two-subscribes", N: n, K: n / 2, Bcast: 3, Trials: 2})
	}
	for _, n := range []int{2, 8, 64, 2000} {
		add(RaceSpec{Mode: "close-parked-forwarder", N: n, K: 1, Trials: 2})
		if n <= 64 {
			add(RaceSpec{Mode: "close-parked-forwarder", N: n, K: n, Trials: 2})
		}
		add(RaceSpec{Mode: "cancel-at-forwarder", N: n, K: 1, Bcast: 3, Trials: 2})
		add(RaceSpec{Mode: "cancel-at-forwarder", N: n, K: max(1, n/2), Trials: 2})
	}
	for _, n := range []int{2, 3, 8, 64} {
		add(RaceSpec{Mode: "close-waits-parked", N: n, Trials: 2})
	}
	// several overlapping Close calls while forwarders hold a value (judged against the earliest
	// return): k = 2, 3, 4 callers; 1 … all of the forwarders held; 1–3 values per subscriber (the
	// held one plus values still in the buffer); all callers at once or the first with a head start
	for i, n := range []int{1, 2, 3, 8, 64} {
		k := 2 + i%3
		add(RaceSpec{Mode: "closes-overlap-parked", N: n, Closers: k, Pre: 1, Trials: 3})
		add(RaceSpec{Mode: "closes-overlap-parked", N: n, Closers: 2 + (i+1)%3, Pre: 3, Stagger: true, Trials: 2})
		if n > 1 {
			add(RaceSpec{Mode: "closes-overlap-parked", N: n, Park: 1, Closers: 2 + (i+2)%3, Pre: 2, Trials: 2})
			add(RaceSpec{Mode: "closes-overlap-parked", N: n, Park: n / 2, Closers: k, Pre: 1, Stagger: true, Trials: 1})
		}
	}
	for i, n := range []int{16, 1000, 4000} {
		add(RaceSpec{Mode: "closes-overlap-volume", N: n, Closers: 2 + i%3, Pre: 3, Trials: 3})
		add(RaceSpec{Mode: "closes-overlap-volume", N: n, Closers: 4 - i%3, Pre: 8, Stagger: true, Trials: 2})
	}
	add(RaceSpec{Mode: "closes-overlap-volume", N: 64, Closers: 2, Pre: 3, Big: true, Trials: 2})
	for _, n := range []int{2, 64} {
		add(RaceSpec{Mode: "close-parked-forwarder", N: n, K: n, Closers: 3, Trials: 2})
	}
	for _, n := range []int{0, 1, 2, 2000} {
		add(RaceSpec{Mode: "after-close", N: n, Bcast: 2, Trials: 1})
	}
	for _, n := range []int{0, 1, 3, 2000} {
		add(RaceSpec{Mode: "double-close", N: n, Closers: 2, Trials: 1})
		add(RaceSpec{Mode: "double-close", N: n, Closers: 4, Bcast: 4, Trials: 1})
	}
	add(RaceSpec{Mode: "zero", N: 2, Trials: 2})
	add(RaceSpec{Mode: "zero", N: 1, Big: true, Trials: 1})
	return out
}
