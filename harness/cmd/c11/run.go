package main

import (
	"context"
	"fmt"
	"runtime"
	"strings"
	"sync"
	"time"

	"github.com/dapr/kit/events/broadcaster"
	"github.com/dapr/kit/verifhook"
)

// Step is one director action of a scenario.
//
//	sub     one Subscribe call with Chans channels (default 1; tags are given consecutively in order
//	        of sub steps) and readers of the given kinds (prompt | slow | stalled); waits up to
//	        200 ms for Subscribe to return, then goes on
//	bgo     start goroutine G broadcasting N values G*1000+First .. sequentially
//	cancel  cancel the context of the Subscribe call that registered subscriber H (all its channels;
//	        skipped unless that Subscribe returned)
//	wake    a stalled reader starts reading promptly
//	close   start N goroutines calling Close
//	settle  sleep N milliseconds
//	quiesce wait until every API call issued so far has returned, or the deadline
//	drain   wait until every reading, uncancelled subscriber got every value it must get
//	park    from now on the forwarder with id H is held at the hook broadcaster.forwarder.holding
//	        (it has taken a value from its buffer and not yet entered the select that sends it)
//	unpark  release it
//	waitret wait up to N ms for the pending calls (no verdict: used while the harness itself holds a
//	        forwarder)
//	rblock  start a goroutine doing one blocking receive (timeout N ms) on the channel of the
//	        never-reading subscriber H
//	rjoin   wait (up to N ms) until every blocking receive started so far has finished and logged
type Step struct {
	Op    string `json:"op"`
	H     int    `json:"h,omitempty"`
	Kind  string `json:"kind,omitempty"`
	// sub only: Subscribe(ctx, ch1 … chN) with one context; reader kinds per channel (Kind for all
	// channels when Kinds is empty); the channels get consecutive tags, H is the first
	Pre   bool     `json:"pre,omitempty"` // sub only: the context is cancelled before Subscribe is called
	Chans int      `json:"chans,omitempty"`
	Kinds []string `json:"kinds,omitempty"`
	G     int    `json:"g,omitempty"`
	First int    `json:"first,omitempty"`
	N     int    `json:"n,omitempty"`
	// vrace only: one race of a variadic Subscribe against Close / cancel (race.go)
	Race *RaceSpec `json:"race,omitempty"`
}

type Scenario struct {
	Family string `json:"family"`
	Steps  []Step `json:"steps"`
}

// Ev is one observable event. Position in the trace is the order of logging (under one mutex).
type Ev struct {
	K string `json:"k"` // bcall bacq bret scall sret cancel recv ccall cret
	A int    `json:"a"` // ticket / tag
	V int    `json:"v"` // value (bcall, recv)
	// Lo > 0 (only for a receive done by a *blocking* reader, step rblock): the receive began when
	// the trace had Lo events, i.e. it happened somewhere between position Lo and the position at
	// which it was logged.
	Lo int `json:"lo,omitempty"`
}

func (e Ev) Line() string {
	switch e.K {
	case "bcall":
		return fmt.Sprintf("ev k=bcall v=%d", e.V)
	case "bacq":
		return fmt.Sprintf("ev k=bacq v=%d", e.V)
	case "bret":
		return fmt.Sprintf("ev k=bret t=%d", e.A)
	case "scall":
		n := e.V
		if n == 0 {
			n = 1
		}
		return fmt.Sprintf("ev k=scall n=%d", n)
	case "sret":
		return fmt.Sprintf("ev k=sret h=%d", e.A)
	case "cancel":
		return fmt.Sprintf("ev k=cancel h=%d", e.A)
	case "recv":
		return fmt.Sprintf("ev k=recv h=%d v=%d", e.A, e.V)
	}
	return "ev k=" + e.K // scall ccall cret
}

type call struct {
	kind string // broadcast subscribe close
	id   int    // ticket / tag / closer index
	val  int
	done chan struct{}
}

type subRec struct {
	first     int // tag of the first channel of its Subscribe call
	nchan     int
	tag       int
	kind      string
	ch        chan int
	cancel    context.CancelFunc
	returned  bool // Subscribe returned (sret logged)
	cancelled bool
	reading   bool
	wake      chan struct{}
}

type world struct {
	mu       sync.Mutex
	trace    []Ev
	b        *broadcaster.Broadcaster[int]
	subs     []*subRec
	calls    []*call
	tickets  int
	closers  int
	closeReq bool
	stop     chan struct{}
	wg       sync.WaitGroup
	panics   []string
	cancels  []context.CancelFunc
	parkMu   sync.Mutex
	park     map[uint64]chan struct{}
	rwg      sync.WaitGroup // blocking receives in flight
}

// Outcome of executing a scenario against the real code.
type Outcome struct {
	Trace      []Ev     `json:"trace"`
	Stuck      []string `json:"stuck,omitempty"`   // calls that did not return at a quiesce where they must
	StuckAt    int      `json:"stuck_at,omitempty"` // step index
	Blocked    []string `json:"blocked,omitempty"` // calls not returned at a quiesce where blocking is legitimate
	Lost       []string `json:"lost,omitempty"`    // drain deadline passed: sub:value still missing
	Dump       string   `json:"dump,omitempty"`
	Panics     []string `json:"panics,omitempty"`
	Skipped    int      `json:"skipped,omitempty"`
	ReaderKind []string `json:"reader_kind"`
}

func (w *world) log(e Ev) { w.trace = append(w.trace, e) }

// reader polls the subscriber channel with a non-blocking receive while holding the trace mutex,
// so that the position of a recv event in the trace is exact.
func (w *world) reader(s *subRec) {
	defer w.wg.Done()
	if s.kind == "stalled" {
		select {
		case <-s.wake:
		case <-w.stop:
			return
		}
	}
	w.mu.Lock()
	s.reading = true
	w.mu.Unlock()
	for {
		select {
		case <-w.stop:
			return
		default:
		}
		got := false
		w.mu.Lock()
		select {
		case v := <-s.ch:
			w.log(Ev{K: "recv", A: s.tag, V: v})
			got = true
		default:
		}
		w.mu.Unlock()
		if s.kind == "slow" {
			time.Sleep(1500 * time.Microsecond)
		} else if !got {
			time.Sleep(30 * time.Microsecond)
		}
	}
}

func (w *world) guard(what string) {
	if r := recover(); r != nil {
		w.mu.Lock()
		w.panics = append(w.panics, fmt.Sprintf("%s: %v", what, r))
		w.mu.Unlock()
	}
}

func (w *world) pending() []*call {
	var out []*call
	w.mu.Lock()
	cs := append([]*call(nil), w.calls...)
	w.mu.Unlock()
	for _, c := range cs {
		select {
		case <-c.done:
		default:
			out = append(out, c)
		}
	}
	return out
}

func describe(cs []*call) []string {
	var out []string
	for _, c := range cs {
		switch c.kind {
		case "broadcast":
			out = append(out, fmt.Sprintf("Broadcast(%d)#%d", c.val, c.id))
		case "subscribe":
			out = append(out, fmt.Sprintf("Subscribe#%d", c.id))
		case "goroutine":
			out = append(out, fmt.Sprintf("goroutine-%d(%d broadcasts)", c.id, c.val))
		default:
			out = append(out, fmt.Sprintf("Close#%d", c.id))
		}
	}
	return out
}

// mustReturn: blocking is only legitimate while some subscribed, uncancelled subscriber is not
// being read and Close has not been called.
func (w *world) mustReturn() bool {
	w.mu.Lock()
	defer w.mu.Unlock()
	if w.closeReq {
		return true
	}
	for _, s := range w.subs {
		if s.returned && !s.cancelled && !s.reading {
			return false
		}
		if !s.returned {
			// Subscribe still in flight: the subscriber may or may not exist yet
			if s.kind == "stalled" {
				return false
			}
		}
	}
	return true
}

func broadcasterDump() string {
	buf := make([]byte, 1<<20)
	n := runtime.Stack(buf, true)
	var keep []string
	for _, g := range strings.Split(string(buf[:n]), "\n\n") {
		if strings.Contains(g, "events/broadcaster") {
			lines := strings.Split(g, "\n")
			if len(lines) > 9 {
				lines = lines[:9]
			}
			keep = append(keep, strings.Join(lines, "\n"))
		}
	}
	if len(keep) > 12 {
		keep = keep[:12]
	}
	return strings.Join(keep, "\n\n")
}

// Execute runs the scenario against the real Broadcaster.
func Execute(sc Scenario, deadline time.Duration) Outcome {
	w := &world{b: broadcaster.New[int](), stop: make(chan struct{})}
	var out Outcome
	out.StuckAt = -1
	// hook points of this Broadcaster only (goroutines leaked by an earlier stuck scenario belong
	// to another Broadcaster and are ignored)
	verifhook.Set(func(name string, args ...any) {
		if len(args) == 0 || args[0] != any(w.b) {
			return
		}
		switch name {
		case "broadcaster.forwarder.holding":
			w.parkMu.Lock()
			ch := w.park[args[1].(uint64)]
			w.parkMu.Unlock()
			if ch != nil {
				select {
				case <-ch:
				case <-w.stop:
				}
			}
		case "broadcaster.broadcast.locked":
			// Broadcast holds the lock: the position of this event is the lock order
			w.mu.Lock()
			w.log(Ev{K: "bacq", V: args[1].(int)})
			w.mu.Unlock()
		}
	})
	defer verifhook.Set(nil)
	for i, st := range sc.Steps {
		switch st.Op {
		case "sub":
			n := st.Chans
			if n < 1 {
				n = 1
			}
			ctx, cancel := context.WithCancel(context.Background())
			w.cancels = append(w.cancels, cancel)
			first := len(w.subs)
			var group []*subRec
			var chans []chan<- int
			for k := 0; k < n; k++ {
				kind := st.Kind
				if k < len(st.Kinds) {
					kind = st.Kinds[k]
				}
				s := &subRec{first: first, nchan: n, tag: first + k, kind: kind, ch: make(chan int), cancel: cancel, wake: make(chan struct{})}
				group = append(group, s)
				chans = append(chans, s.ch)
			}
			c := &call{kind: "subscribe", id: first, done: make(chan struct{})}
			w.mu.Lock()
			w.subs = append(w.subs, group...)
			w.calls = append(w.calls, c)
			w.log(Ev{K: "scall", A: first, V: n})
			if st.Pre {
				cancel()
				for _, s := range group {
					s.cancelled = true
				}
				w.log(Ev{K: "cancel", A: first})
			}
			w.mu.Unlock()
			w.wg.Add(n)
			go func() {
				func() {
					defer w.guard("Subscribe")
					w.b.Subscribe(ctx, chans...)
				}()
				w.mu.Lock()
				for _, s := range group {
					s.returned = true
				}
				w.log(Ev{K: "sret", A: first})
				w.mu.Unlock()
				close(c.done)
				for _, s := range group[1:] {
					go w.reader(s)
				}
				w.reader(group[0])
			}()
			select {
			case <-c.done:
			case <-time.After(200 * time.Millisecond):
			}
		case "bgo":
			g, first, n := st.G, st.First, st.N
			job := &call{kind: "goroutine", id: g, val: n, done: make(chan struct{})}
			w.mu.Lock()
			w.calls = append(w.calls, job)
			w.mu.Unlock()
			w.wg.Add(1)
			go func() {
				defer w.wg.Done()
				defer close(job.done)
				for k := 0; k < n; k++ {
					v := g*1000 + first + k
					c := &call{kind: "broadcast", val: v, done: make(chan struct{})}
					w.mu.Lock()
					c.id = w.tickets
					w.tickets++
					w.calls = append(w.calls, c)
					w.log(Ev{K: "bcall", A: c.id, V: v})
					w.mu.Unlock()
					func() {
						defer w.guard("Broadcast")
						w.b.Broadcast(v)
					}()
					w.mu.Lock()
					w.log(Ev{K: "bret", A: c.id, V: v})
					w.mu.Unlock()
					close(c.done)
				}
			}()
		case "cancel":
			w.mu.Lock()
			if st.H < len(w.subs) && w.subs[st.H].returned && !w.subs[st.H].cancelled {
				s := w.subs[st.H]
				s.cancel()
				for k := s.first; k < s.first+s.nchan; k++ {
					w.subs[k].cancelled = true
				}
				w.log(Ev{K: "cancel", A: s.first})
			} else {
				out.Skipped++
			}
			w.mu.Unlock()
		case "wake":
			w.mu.Lock()
			if st.H < len(w.subs) && w.subs[st.H].kind == "stalled" {
				s := w.subs[st.H]
				select {
				case <-s.wake:
				default:
					close(s.wake)
				}
			} else {
				out.Skipped++
			}
			w.mu.Unlock()
		case "close":
			for k := 0; k < st.N; k++ {
				c := &call{kind: "close", done: make(chan struct{})}
				w.mu.Lock()
				c.id = w.closers
				w.closers++
				w.closeReq = true
				w.calls = append(w.calls, c)
				w.log(Ev{K: "ccall", A: c.id})
				w.mu.Unlock()
				w.wg.Add(1)
				go func() {
					defer w.wg.Done()
					func() {
						defer w.guard("Close")
						w.b.Close()
					}()
					w.mu.Lock()
					w.log(Ev{K: "cret", A: c.id})
					w.mu.Unlock()
					close(c.done)
				}()
			}
		case "park":
			w.parkMu.Lock()
			if w.park == nil {
				w.park = map[uint64]chan struct{}{}
			}
			w.park[uint64(st.H)] = make(chan struct{})
			w.parkMu.Unlock()
		case "unpark":
			w.parkMu.Lock()
			if ch := w.park[uint64(st.H)]; ch != nil {
				close(ch)
				delete(w.park, uint64(st.H))
			}
			w.parkMu.Unlock()
		case "waitret":
			t0 := time.Now()
			for len(w.pending()) > 0 && time.Since(t0) < time.Duration(st.N)*time.Millisecond {
				time.Sleep(200 * time.Microsecond)
			}
		case "rblock":
			if st.H < len(w.subs) {
				s := w.subs[st.H]
				w.mu.Lock()
				lo := len(w.trace)
				w.mu.Unlock()
				w.wg.Add(1)
				w.rwg.Add(1)
				go func() {
					defer w.wg.Done()
					defer w.rwg.Done()
					select {
					case v := <-s.ch:
						w.mu.Lock()
						w.log(Ev{K: "recv", A: s.tag, V: v, Lo: lo})
						w.mu.Unlock()
					case <-time.After(time.Duration(st.N) * time.Millisecond):
					case <-w.stop:
					}
				}()
				time.Sleep(time.Millisecond) // let it block in the receive
			}
		case "rjoin":
			done := make(chan struct{})
			go func() { w.rwg.Wait(); close(done) }()
			select {
			case <-done:
			case <-time.After(time.Duration(st.N) * time.Millisecond):
			}
		case "settle":
			time.Sleep(time.Duration(st.N) * time.Millisecond)
		case "quiesce":
			must := w.mustReturn()
			limit := deadline
			if !must {
				limit = 40 * time.Millisecond
			}
			t0 := time.Now()
			var p []*call
			for {
				p = w.pending()
				if len(p) == 0 || time.Since(t0) > limit {
					break
				}
				time.Sleep(200 * time.Microsecond)
				if !must && w.mustReturn() {
					must, limit = true, deadline
				}
			}
			if len(p) > 0 {
				if must && out.StuckAt < 0 {
					out.Stuck = describe(p)
					out.StuckAt = i
					out.Dump = broadcasterDump()
				} else if !must {
					out.Blocked = describe(p)
				}
			}
		case "drain":
			t0 := time.Now()
			for {
				w.mu.Lock()
				miss := missing(w.trace, w.subs)
				w.mu.Unlock()
				if len(miss) == 0 {
					break
				}
				if time.Since(t0) > deadline {
					out.Lost = miss
					break
				}
				time.Sleep(300 * time.Microsecond)
			}
		}
		if out.StuckAt >= 0 {
			break
		}
	}
	// nothing may arrive after Close returned: keep the readers polling a little, and probe the
	// channels of the readers that never read.
	if out.StuckAt < 0 {
		time.Sleep(2 * time.Millisecond)
		for r := 0; r < 3; r++ {
			w.mu.Lock()
			for _, s := range w.subs {
				if !s.reading {
					select {
					case v := <-s.ch:
						w.log(Ev{K: "recv", A: s.tag, V: v})
					default:
					}
				}
			}
			w.mu.Unlock()
			time.Sleep(300 * time.Microsecond)
		}
	}
	close(w.stop)
	if out.StuckAt < 0 {
		w.wg.Wait()
	} // else: goroutines parked inside the broadcaster are leaked on purpose
	w.mu.Lock()
	out.Trace = append([]Ev(nil), w.trace...)
	out.Panics = append([]string(nil), w.panics...)
	for _, s := range w.subs {
		out.ReaderKind = append(out.ReaderKind, s.kind)
	}
	w.mu.Unlock()
	return out
}

// missing lists "tag:value" for every value that a reading, uncancelled subscriber must already
// have been offered (its Broadcast was called after the Subscribe returned and has returned, with
// no Close call so far) but has not received yet.
func missing(tr []Ev, subs []*subRec) []string {
	for _, e := range tr {
		if e.K == "ccall" {
			return nil
		}
	}
	var out []string
	for _, s := range subs {
		if !s.returned || s.cancelled || !s.reading {
			continue
		}
		joined := false
		called := map[int]bool{}
		need := map[int]bool{}
		got := map[int]bool{}
		for _, e := range tr {
			switch {
			case e.K == "sret" && e.A == s.tag:
				joined = true
			case e.K == "bcall" && joined:
				called[e.A] = true
			case e.K == "bret" && called[e.A]:
				need[e.V] = true
			case e.K == "recv" && e.A == s.tag:
				got[e.V] = true
			}
		}
		for v := range got {
			delete(need, v)
		}
		for v := range need {
			out = append(out, fmt.Sprintf("%d:%d", s.tag, v))
		}
	}
	return out
}
