package main

import (
	"context"
	"fmt"
	"sync"
	"time"

	"github.com/dapr/kit/events/broadcaster"
	"github.com/dapr/kit/verifhook"
)

// Stress: one broadcaster goroutine sending 1..n as fast as it can, `readers` subscribers whose
// readers receive continuously with a *blocking* receive (so that a receiver is often already
// waiting when the next Broadcast runs while the forwarder still holds the previous value).  No
// model is involved: with a single sequential broadcaster every subscriber must see exactly
// 1, 2, …, n (each Broadcast returns before the next one is called).
func Stress(n, readers int, deadline time.Duration) (fs []Finding, received int) {
	verifhook.Set(nil)
	b := broadcaster.New[int]()
	ctx, cancel := context.WithCancel(context.Background())
	defer cancel()
	seqs := make([][]int, readers)
	var mu sync.Mutex
	var wg sync.WaitGroup
	stop := make(chan struct{})
	for r := 0; r < readers; r++ {
		ch := make(chan int)
		b.Subscribe(ctx, ch)
		wg.Add(1)
		go func(r int) {
			defer wg.Done()
			local := make([]int, 0, n)
			defer func() { mu.Lock(); seqs[r] = local; mu.Unlock() }()
			for len(local) < n {
				select {
				case v := <-ch:
					local = append(local, v)
				case <-stop:
					return
				}
			}
		}(r)
	}
	sent := make(chan struct{})
	go func() {
		defer close(sent)
		for v := 1; v <= n; v++ {
			b.Broadcast(v)
		}
	}()
	done := make(chan struct{})
	go func() { wg.Wait(); close(done) }()
	select {
	case <-done:
	case <-time.After(deadline):
	}
	close(stop)
	<-done
	select {
	case <-sent:
	case <-time.After(2 * time.Second):
		fs = append(fs, Finding{"stuck-after-leave", "stress: the broadcaster goroutine did not finish although every reader reads"})
	}
	closed := make(chan struct{})
	go func() { b.Close(); close(closed) }()
	select {
	case <-closed:
	case <-time.After(2 * time.Second):
		fs = append(fs, Finding{"stuck-after-close", "stress: Close did not return"})
	}
	for r, seq := range seqs {
		received += len(seq)
		seen := make(map[int]bool, len(seq))
		for i, v := range seq {
			if seen[v] {
				fs = append(fs, Finding{"duplicate-delivery", fmt.Sprintf("stress: subscriber %d received %d twice", r, v)})
				break
			}
			seen[v] = true
			if i > 0 && v < seq[i-1] {
				fs = append(fs, Finding{"overtaken-by-later-broadcast", fmt.Sprintf(
					"stress (1 sequential broadcaster, %d values, %d continuously receiving readers): subscriber %d received %d before %d although Broadcast(%d) returned before Broadcast(%d) was called",
					n, readers, r, seq[i-1], v, v, seq[i-1])})
				break
			}
		}
		if len(seq) != n && len(fs) == 0 {
			fs = append(fs, Finding{"lost-value", fmt.Sprintf("stress: subscriber %d received %d of %d values before the deadline", r, len(seq), n)})
		}
	}
	return fs, received
}
