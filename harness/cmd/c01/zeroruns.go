// Runs of consecutive zero-length reads of the source (added after seeded change C01-r6m2).
//
// The property quantifies over "all read-size sequences of the source reader (including
// zero-length reads ...)". io.Reader allows a (0, nil) result any number of times in a row
// ("callers should treat a return of 0 and nil as indicating that nothing happened"), so a source
// that answers (0, nil) k times in a row and then goes on must round-trip like any other, for the
// plaintext source of Encrypt and for the ciphertext source of Decrypt (while readHeader scans the
// header as well as in the segment loop). This file holds
//
//   - runReader: a position-exact source. It delivers the stream in chunks of a base size, and at
//     each chosen byte offset answers (0, nil) k times before it continues (whatever buffer sizes the
//     code under test passes). It records the sizes it returned; that trace is a caps list in the
//     sense of encx.Script / Kit.Enc.Reader, so the Lean model is driven with the very same read
//     sequence (T2: `dec` = decryptImpl, `ps seg=65536` = processSegments).
//   - genZeroRuns: k in {1,2,10,99,100,101,250,1000,5000} (and neighbours of other plausible limits
//     in the thorough tier) x every named position x both sides, ciphers, lengths around k*65536,
//     base chunk sizes, both EOF styles; several runs in one stream; runs separated by one byte.
//
// The cases are ordinary document cases (kind "doc"), so every monitor of checkDoc applies and the
// replay path is the one of documents. Monitor: Encrypt succeeds, the independent decoder opens the
// ciphertext, Decrypt returns exactly the plaintext and no error.
package main

import (
	"fmt"
	"io"
	"sort"
	"strings"

	"verifharness/encx"
	"verifharness/lib"
)

// zrun: at byte offset At of the stream (0 = before the first byte, len = after the last byte,
// before EOF is reported) the source answers (0, nil) K times in a row.
type zrun struct {
	At int `json:"at"`
	K  int `json:"k"`
}

type runReader struct {
	data  []byte
	pos   int
	chunk int // <= 0: as much as the caller's buffer takes
	ewd   bool
	rem   map[int]int // offset -> zero-length reads still to answer there
	stops []int       // sorted offsets of runs (a data read never crosses one)
	trace []int       // sizes returned by the calls that did not report EOF alone
	zeros int         // zero-length results answered so far
}

func newRunReader(data []byte, chunk int, runs []zrun, ewd bool) *runReader {
	r := &runReader{data: data, chunk: chunk, ewd: ewd, rem: map[int]int{}}
	for _, z := range runs {
		at := z.At
		if at < 0 {
			at = 0
		}
		if at > len(data) {
			at = len(data)
		}
		if z.K <= 0 {
			continue
		}
		if _, ok := r.rem[at]; !ok {
			r.stops = append(r.stops, at)
		}
		r.rem[at] += z.K
	}
	sort.Ints(r.stops)
	return r
}

func (r *runReader) Read(p []byte) (int, error) {
	if len(p) == 0 {
		return 0, nil
	}
	if r.rem[r.pos] > 0 {
		r.rem[r.pos]--
		r.zeros++
		r.trace = append(r.trace, 0)
		return 0, nil
	}
	if r.pos >= len(r.data) {
		return 0, io.EOF
	}
	k := len(p)
	if r.chunk > 0 && r.chunk < k {
		k = r.chunk
	}
	if rest := len(r.data) - r.pos; rest < k {
		k = rest
	}
	for _, s := range r.stops {
		if s > r.pos && s-r.pos < k && r.rem[s] > 0 {
			k = s - r.pos
			break
		}
	}
	n := copy(p, r.data[r.pos:r.pos+k])
	r.pos += n
	r.trace = append(r.trace, n)
	if r.ewd && r.pos == len(r.data) {
		return n, io.EOF // the terminal condition arrives together with the last bytes (a run at the very end is then never asked for)
	}
	return n, nil
}

// script is the read sequence that was actually delivered, as a reader script of the model.
func (r *runReader) script(data []byte) encx.Script {
	return encx.Script{Data: data, Caps: append([]int(nil), r.trace...), EWD: r.ewd, Term: "eof"}
}

func (c docCase) zeroRuns() bool { return len(c.SrcRuns) > 0 || len(c.MidRuns) > 0 }

// srcReader / midReader: the source of Encrypt resp. Decrypt for this case. The second result is
// nil for an ordinary scripted reader.
func (c docCase) srcReader(p []byte) (io.Reader, *runReader) {
	if len(c.SrcRuns) > 0 || c.SrcChunk != 0 {
		rr := newRunReader(p, c.SrcChunk, c.SrcRuns, c.Src.EWD)
		return rr, rr
	}
	s := c.Src
	s.Data = p
	return s.Reader(), nil
}

func (c docCase) midReader(doc []byte) (io.Reader, *runReader) {
	if len(c.MidRuns) > 0 || c.MidChunk != 0 {
		rr := newRunReader(doc, c.MidChunk, c.MidRuns, c.Mid.EWD)
		return rr, rr
	}
	s := c.Mid
	s.Data = doc
	return s.Reader(), nil
}

func maxRun(rs []zrun) int {
	m := 0
	for _, z := range rs {
		if z.K > m {
			m = z.K
		}
	}
	return m
}

func runBucket(k int) string {
	switch {
	case k == 0:
		return "0"
	case k < 10:
		return "1-9"
	case k < 99:
		return "10-98"
	case k <= 101:
		return fmt.Sprint(k)
	case k <= 1000:
		return "102-1000"
	}
	return ">1000"
}

type zpos struct {
	name string
	at   int
}

// zeroRunPositions: the named offsets of a stream. For the plaintext source hdr = 0 and unit = S;
// for the ciphertext source hdr = header length and unit = S+16.
func zeroRunPositions(hdr, unit, total int) []zpos {
	var ps []zpos
	add := func(name string, at int) {
		if at < 0 || at > total {
			return
		}
		for _, q := range ps {
			if q.at == at {
				return
			}
		}
		ps = append(ps, zpos{name, at})
	}
	add("before-first-byte", 0)
	if hdr > 0 {
		add("in-scheme-line", 7)
		add("after-scheme-line", 15)
		add("in-manifest", hdr/2)
		add("before-header-end", hdr-1)
		add("header-body", hdr)
		add("after-first-body-byte", hdr+1)
	}
	body := total - hdr
	add("mid-first-segment", hdr+min(body, unit)/2)
	add("before-eof", total)
	add("before-last-byte", total-1)
	if hdr > 0 {
		add("before-last-tag", total-16)
	}
	for j := 1; hdr+j*unit <= total && j <= 6; j++ {
		add("segment-boundary(before-look-ahead)", hdr+j*unit)
		add("before-segment-end", hdr+j*unit-1)
		add("after-look-ahead", hdr+j*unit+1)
		add("mid-later-segment", hdr+j*unit+min(total-hdr-j*unit, unit)/2)
	}
	return ps
}

func docLenOf(hdr, plain int) int { return hdr + plain + 16*((plain+65535)/65536) }

// genZeroRuns: see the file comment. Deterministic but for plaintext seeds, EOF style and the
// rotation offsets, which come from the seed.
func genZeroRuns(tier string, rng *lib.Rand, search bool) []docCase {
	const S = 65536
	full := tier == "thorough" || search
	ks := []int{1, 2, 10, 99, 100, 101, 250, 1000, 5000}
	lens := []int{0, 1, 300, S - 1, S, S + 1, 2 * S, 2*S + 1}
	chunks := []int{0, 7, 4096, S, S + 1, S + 16, S + 17, 1000}
	if full {
		// neighbours of other limits a "no progress" guard could plausibly use
		ks = append(ks, 3, 5, 15, 16, 17, 31, 32, 33, 63, 64, 65, 127, 128, 129, 255, 256, 257, 511, 512, 513, 1023, 1024, 1025, 4096, 10000, 65537)
		lens = append(lens, 2*S-1, 3*S-1, 3*S, 3*S+1, 4*S+1, 6 * S)
		chunks = append(chunks, 1, 512, 513, 2*S + 3)
	}
	ciphers := []string{"AES-GCM", "CHACHA20-POLY1305"}
	algs := []string{"A256KW", "RSA-OAEP-256", "AES", "A128CBC-NOPAD"}
	var cases []docCase
	rot := rng.Intn(1000)
	mk := func(i, plainLen int) docCase {
		c := docCase{Kind: "doc", PlainLen: plainLen, PlainSeed: rng.U64(), Cipher: ciphers[i%2], Alg: algs[(i/2)%4], KeyName: "kn"}
		c.Src = encx.Script{Term: "eof", EWD: rng.Intn(3) == 0}
		c.Mid = encx.Script{Term: "eof", EWD: rng.Intn(3) == 0}
		c.HdrLen = headerLenOf(c)
		return c
	}
	chunkFor := func(i, total int) int {
		ch := chunks[(i+rot)%len(chunks)]
		if ch > 0 && ch < 512 && total > 70000 {
			ch = 4096 // tiny reads of a long stream only make the trace long
		}
		return ch
	}
	i := 0
	for _, side := range []string{"encrypt-source", "decrypt-source"} {
		// every k at every named position; the plaintext length rotates so that each position is met at several lengths
		for li, L := range lens {
			probe := mk(0, L)
			hdr, unit, total := 0, S, L
			if side == "decrypt-source" {
				hdr, unit, total = probe.HdrLen, S+16, docLenOf(probe.HdrLen, L)
			}
			for pi, ps := range zeroRunPositions(hdr, unit, total) {
				for ki, k := range ks {
					// quick: each (position, k) pair at every other length that has the position;
					// thorough/search: the full product for the short lengths, one half for the long ones
					if (!full || L > 2*S+1) && (li+pi+ki+rot)%2 != 0 {
						continue
					}
					c := mk(i, L)
					c.ZeroRunWhere = side + ":" + ps.name
					if side == "encrypt-source" {
						c.SrcRuns, c.SrcChunk = []zrun{{ps.at, k}}, chunkFor(i, total)
					} else {
						c.MidRuns, c.MidChunk = []zrun{{ps.at, k}}, chunkFor(i, total)
					}
					cases = append(cases, c)
					i++
				}
			}
		}
	}
	// several runs in one stream: runs separated by a single byte (99+99, 100+100), a run at every named
	// position at once, both sources at once
	multi := []int{300, S + 1, 2*S + 1}
	if full {
		multi = append(multi, 1, S, 3*S+1)
	}
	for _, L := range multi {
		for _, k := range []int{50, 99, 100, 1000} {
			c := mk(i, L)
			i++
			hdr, total := c.HdrLen, docLenOf(c.HdrLen, L)
			c.ZeroRunWhere = "both:runs-one-byte-apart"
			a := min(L, 200)
			c.SrcRuns, c.SrcChunk = []zrun{{a, k}, {a + 1, k}, {a + 2, k}}, chunkFor(i, L)
			c.MidRuns, c.MidChunk = []zrun{{hdr - 1, k}, {hdr, k}, {hdr + 1, k}, {total - 1, k}, {total, k}}, chunkFor(i+3, total)
			cases = append(cases, c)
			c = mk(i, L)
			i++
			c.ZeroRunWhere = "both:run-at-every-position"
			for _, ps := range zeroRunPositions(0, S, L) {
				c.SrcRuns = append(c.SrcRuns, zrun{ps.at, k})
			}
			for _, ps := range zeroRunPositions(hdr, S+16, total) {
				c.MidRuns = append(c.MidRuns, zrun{ps.at, k})
			}
			c.SrcChunk, c.MidChunk = chunkFor(i+1, L), chunkFor(i+2, total)
			cases = append(cases, c)
		}
	}
	// a zero-length read before EVERY data read (never two in a row): 0,c,0,c,... and k-1 of them before every read
	for j, L := range []int{300, S + 1, 2*S + 1} {
		for _, k := range []int{1, 99} {
			c := mk(i, L)
			i++
			c.ZeroRunWhere = "both:before-every-read"
			step := []int{1, 4096, 30000}[j]
			total := docLenOf(c.HdrLen, L)
			for at := 0; at <= L; at += step {
				c.SrcRuns = append(c.SrcRuns, zrun{at, k})
			}
			for at := 0; at <= total; at += step {
				c.MidRuns = append(c.MidRuns, zrun{at, k})
			}
			cases = append(cases, c)
		}
	}
	if full {
		// random: up to 4 runs of random length at random offsets
		n := 150
		for q := 0; q < n; q++ {
			L := []int{rng.Intn(400), S - 2 + rng.Intn(5), 2*S - 2 + rng.Intn(5), rng.Intn(3*S + 2)}[rng.Intn(4)]
			c := mk(i, L)
			i++
			c.ZeroRunWhere = "both:random"
			total := docLenOf(c.HdrLen, L)
			for r := rng.Intn(4); r >= 0; r-- {
				k := []int{rng.Range(1, 120), rng.Range(90, 110), rng.Range(1, 3000)}[rng.Intn(3)]
				if rng.Bool() {
					c.SrcRuns = append(c.SrcRuns, zrun{rng.Intn(L + 1), k})
				} else {
					c.MidRuns = append(c.MidRuns, zrun{rng.Intn(total + 1), k})
				}
			}
			c.SrcChunk, c.MidChunk = chunkFor(rng.Intn(100), L), chunkFor(rng.Intn(100), total)
			cases = append(cases, c)
		}
	}
	return cases
}

// checkZeroRunModel (T2): the Lean segment loop is run on the plaintext with the read sequence the
// real Encrypt saw (zero-length reads included) and must make the calls the real ciphertext shows:
// as many segments as the independent decoder found, the last one flagged, all bytes passed on.
func checkZeroRunModel(res *lib.Result, drv *lib.Drv, c docCase, p []byte, sc encx.Script, payloadLen int) {
	ans, err := drv.Ask("ps seg=65536 " + sc.Line("data") + " failcall=none")
	if err != nil {
		res.Disagree("driver-alive", c, err.Error(), "")
		return
	}
	res.Traces++
	kv := encx.KV(ans)
	nseg := (len(p) + 65535) / 65536
	var sizes []string
	total := 0
	calls := 0
	lastFlags := ""
	if kv["calls"] != "" {
		for _, call := range strings.Split(kv["calls"], ";") {
			f := strings.Split(call, ":")
			if len(f) != 3 {
				continue
			}
			calls++
			total += len(f[0]) / 2
			sizes = append(sizes, fmt.Sprint(len(f[0])/2))
			lastFlags += f[2]
		}
	}
	wantFlags := strings.Repeat("0", max(nseg-1, 0)) + strings.Repeat("1", min(nseg, 1))
	implCalls := (payloadLen - len(p)) / 16
	if kv["term"] != "ok" || calls != implCalls || total != len(p) || lastFlags != wantFlags || kv["out"] != encx.Hex(p) {
		res.Disagree("Encrypt(real) segments under a source with runs of zero-length reads = Kit.Enc.processSegments on the same read sequence", c,
			fmt.Sprintf("term=%s calls=%d sizes=%s last=%s", kv["term"], calls, strings.Join(sizes, ","), lastFlags),
			fmt.Sprintf("term=ok calls=%d bytes=%d last=%s", implCalls, len(p), wantFlags))
	}
}

// leanForZeroRun: which zero-run cases are also sent to the Lean model (the rest are checked by the
// model-independent monitors only; the Lean-native AEAD costs ~0.3 s per 64 KiB).
func leanForZeroRun(c docCase, o docObs, idx int) bool {
	tr := 0
	if o.srcRR != nil {
		tr += len(o.srcRR.trace)
	}
	if o.midRR != nil {
		tr += len(o.midRR.trace)
	}
	if tr > 30000 {
		return false
	}
	switch {
	case c.PlainLen <= 300:
		return idx%4 == 0
	case c.PlainLen <= 65537:
		return idx%32 == 0
	}
	return idx%80 == 0
}
