// Harness for property C01 (enc/v1: Decrypt inverts Encrypt; ciphertext follows the published
// layout; interop with an independent implementation).
//
//	T2a  the real, unexported processSegments / readHeader (reached through the build overlay
//	     harness/overlay/enc_zz_verif.go) against the Lean model, exhaustively in small scope:
//	     segment sizes {1,2,3,4,8}, every content length 0..3·seg+1, compositions of the content
//	     into read chunks with up to two zero-length reads, both EOF styles, failing reads at
//	     every offset, failing processFn at every call.
//	T2b  real documents: Encrypt's output is recomputed byte for byte by the Lean specification
//	     encoder running on the Lean-native primitives (fk captured from WrapKeyFn, np from the
//	     manifest); documents produced by the Lean encoder are opened by the real Decrypt under
//	     random chunking; the Lean decoder opens the repository's testdata files.
//	monitors (model independent): Decrypt(Encrypt(p)) == p for random scripts on all three
//	     readers; an independent README decoder written with the Go standard library opens the
//	     document and checks the segment layout; Decrypt accepts the independent encoder's output.
package main

import (
	"bytes"
	"encoding/base64"
	"encoding/hex"
	"encoding/json"
	"errors"
	"fmt"
	"io"
	"os"
	"path/filepath"
	"runtime"
	"strconv"
	"strings"
	"sync"
	"time"

	enc "github.com/dapr/kit/schemes/enc/v1"

	"verifharness/encx"
	"verifharness/lib"
)

const rule = "interleave case: distinct (lengths, phase, bytes read first, B mode, GOMAXPROCS, parallelism); loop case: content non-empty or script has a zero-length read/failure; header case: any; document case: distinct (plaintext length, cipher, algorithm, key-name options, wrap/unwrap callback modes, scripts). Complete enumerations (independent of the seed): segment loop with segSize in {1,2,3,4,8}, content length 0..3*seg+1: every composition of the content into read sizes up to length 4/7/10/9/8 (quick) resp. 4/7/10/13/13 (thorough), times both EOF styles, times terminal eof/failOnce/failSticky, one zero-length read at every position (content <= 7 quick, all thorough), two zero-length reads at every pair of positions (content <= 4 quick, <= 7 thorough), a failing processFn at every call; header reader: every subset of cut points over the last 12 bytes of the small well-formed headers with 0..3 payload bytes and every truncation offset, times EOF styles and terminals. Everything else (longer contents, extra zero-length reads, oversized headers, mutated headers, the fourth reader script of each toy-AEAD case) is drawn from the seed, hence exhaustive=false for the run as a whole. In this harness additionally complete: the key-name option table (empty/non-empty KeyName x DecryptionKeyName x OmitKeyName x Decrypt-side KeyName), the argument-mutating callback family (4 wrap modes x 3 unwrap modes x 3 lengths), all files of testdata, and the zero-read-run family (zeroruns.go: a source that answers (0, nil) k times in a row at a chosen byte offset, k in {1,2,10,99,100,101,250,1000,5000} x every named offset (before the first byte, inside the scheme line / manifest, before the end of the header, between header and body, middle of a segment, before the end of a segment, at the segment boundary = before the look-ahead byte, after the look-ahead byte, before the last tag, before the last byte, before EOF) x plaintext source of Encrypt / ciphertext source of Decrypt, each pair at every other of the plaintext lengths {0,1,300,65535,65536,65537,131072,131073} in the quick tier and at all of them (plus more k and lengths up to 6*65536) in the thorough tier, both ciphers, base chunk sizes {unlimited,7,1000,4096,S,S+1,S+16,S+17}; several runs in one stream); document scripts, large headers, foreign manifests, interleaved streams and io.Pipe consumers are seeded random. Units: `evaluations` counts cases (one loop/header script, one document, one history); `traces_validated_against_impl` counts individual comparisons of an implementation observable with the value the Lean model computes for it, and a document case contributes several (ciphertext bytes of Encrypt, outcome of Decrypt under the reader script, specDecrypt of the same bytes, header split), so traces can exceed evaluations."

// ---- documents ----

type docCase struct {
	Kind       string      `json:"kind"` // doc
	PlainLen   int         `json:"plain_len"`
	PlainSeed  uint64      `json:"plain_seed"`
	Cipher     string      `json:"cipher"` // "" = default
	Alg        string      `json:"alg"`
	KeyName    string      `json:"key_name"`
	DecKeyName string      `json:"decryption_key_name"`
	Omit       bool        `json:"omit_key_name"`
	Override   string      `json:"decrypt_key_name_option"`
	Src        encx.Script `json:"src_script"`
	Mid        encx.Script `json:"doc_script"`
	Out        []int       `json:"consumer_bufs"`
	// large-header family: generated names / wrapped keys (lengths only, so that replay files stay small)
	KeyNameLen    int `json:"key_name_len,omitempty"`            // > 0: KeyName is longName(len)
	DecKeyNameLen int `json:"decryption_key_name_len,omitempty"` // > 0: DecryptionKeyName is longName(len)
	WfkLen        int `json:"wrapped_key_len,omitempty"`         // > 32: WrapKeyFn returns that many bytes; -1: an EMPTY wrapped key (the matching UnwrapKeyFn returns the file key for it)
	HdrLen        int `json:"expected_header_len,omitempty"`     // header length these options produce (0 = not computed)
	// callbacks that write to their arguments (the contract is about VALUES at call time: unwrap(wrap(k)) = k)
	WrapMode   string `json:"wrap_mode,omitempty"`   // zero-after | in-place | append7 | append16
	UnwrapMode string `json:"unwrap_mode,omitempty"` // wipe-wrapped | reuse-buffer
	// runs of consecutive zero-length reads (zeroruns.go): when set, the source of Encrypt (Src*) resp. of Decrypt
	// (Mid*) is a position-exact runReader (base chunk size, (0, nil) K times at byte offset At) instead of the
	// script; only the EOF style of the script (ewd) is used.
	SrcRuns      []zrun `json:"src_zero_runs,omitempty"`
	SrcChunk     int    `json:"src_chunk,omitempty"`
	MidRuns      []zrun `json:"doc_zero_runs,omitempty"`
	MidChunk     int    `json:"doc_chunk,omitempty"`
	ZeroRunWhere string `json:"zero_run_where,omitempty"` // label of the family member (distribution only)
}

var appendTag = []byte{0xa1, 0xa2, 0xa3, 0xa4, 0xa5, 0xa6, 0xa7, 0xa8, 0xa9, 0xaa, 0xab, 0xac, 0xad, 0xae, 0xaf, 0xb0}

// wrapCall is the harness's WrapKeyFn body; depending on WrapMode it writes to its argument.
func (c docCase) wrapCall(k []byte) []byte {
	switch c.WrapMode {
	case "zero-after": // wipes the plaintext key once the wrapped key has been computed
		w := c.wrapFor(k)
		for i := range k {
			k[i] = 0
		}
		return w
	case "in-place": // wraps in place and returns the same slice (like CryptBlocks(k, k))
		for i := range k {
			k[i] ^= byte(0x5c + i)
		}
		return k
	case "append7": // appends a short trailer to its argument (fits a spare capacity of 7)
		return append(k, appendTag[:7]...)
	case "append16":
		return append(k, appendTag...)
	}
	return c.wrapFor(k)
}

// wrapValue is the wrapped key as a VALUE, computed from a copy of the file key.
func (c docCase) wrapValue(fk []byte) []byte {
	switch c.WrapMode {
	case "in-place":
		return wrapMask(fk)
	case "append7":
		return append(append([]byte(nil), fk...), appendTag[:7]...)
	case "append16":
		return append(append([]byte(nil), fk...), appendTag...)
	}
	return c.wrapFor(fk)
}

// unwrapValue inverts wrapValue.
func (c docCase) unwrapValue(w []byte) []byte {
	if strings.HasPrefix(c.WrapMode, "append") {
		if len(w) > 32 {
			w = w[:32]
		}
		return append([]byte(nil), w...)
	}
	return unwrapOf(w)
}

func (c docCase) mutating() string {
	if c.WrapMode != "" || c.UnwrapMode != "" {
		return ":mutating-wrap"
	}
	return ""
}

func plainOf(c docCase) []byte { return lib.NewRand(c.PlainSeed).Bytes(c.PlainLen) }

// longName is a key name of n bytes that needs no JSON escaping.
func longName(n int, salt byte) string {
	const al = "abcdefghijklmnopqrstuvwxyz0123456789/-_."
	b := make([]byte, n)
	for i := range b {
		b[i] = al[(i*7+int(salt))%len(al)]
	}
	return string(b)
}

func (c docCase) kn() string {
	if c.KeyNameLen > 0 {
		return longName(c.KeyNameLen, 'k')
	}
	return c.KeyName
}

func (c docCase) dkn() string {
	if c.DecKeyNameLen > 0 {
		return longName(c.DecKeyNameLen, 'd')
	}
	return c.DecKeyName
}

// wrapFor is what the harness's WrapKeyFn returns: the masked key, padded to WfkLen bytes.
func (c docCase) wrapFor(k []byte) []byte {
	if c.WfkLen < 0 {
		return []byte{}
	}
	w := wrapMask(k)
	for i := len(w); i < c.WfkLen; i++ {
		w = append(w, byte(i*13+5))
	}
	return w
}

// unwrapOf inverts wrapFor.
func unwrapOf(w []byte) []byte {
	if len(w) > 32 {
		w = w[:32]
	}
	return wrapMask(w)
}

// headerLenOf computes the header length Encrypt must produce for these options (README layout:
// scheme line, compact manifest in Go's field order, 44-character MAC line).
func headerLenOf(c docCase) int {
	wl := 32
	if c.WfkLen > 32 {
		wl = c.WfkLen
	}
	if c.WfkLen < 0 {
		wl = 0
	}
	switch c.WrapMode {
	case "append7":
		wl = 39
	case "append16":
		wl = 48
	}
	m := struct {
		K   string `json:"k,omitempty"`
		KW  int    `json:"kw"`
		WFK []byte `json:"wfk"`
		Cph int    `json:"cph"`
		NP  []byte `json:"np"`
	}{expectKeyName(c), 1, make([]byte, wl), 1, make([]byte, 7)}
	b, _ := json.Marshal(m)
	return len("dapr.io/enc/v1\n") + len(b) + 1 + 44 + 1
}

func hdrClass(n int) string {
	if n <= 512 {
		return ""
	}
	return ":large-header"
}

func hdrBucket(n int) string {
	switch {
	case n <= 512:
		return "<=512"
	case n <= 4096:
		return "<=4096"
	case n <= 16384:
		return "<=16384"
	case n <= 65536:
		return "<=65536"
	}
	return ">65536"
}

var canonAlg = map[string]string{"A256KW": "A256KW", "A128CBC-NOPAD": "A128CBC-NOPAD", "A192CBC-NOPAD": "A192CBC-NOPAD",
	"A256CBC-NOPAD": "A256CBC-NOPAD", "RSA-OAEP-256": "RSA-OAEP-256", "AES": "A256KW", "RSA": "RSA-OAEP-256"}
var algID = map[string]int{"A256KW": 1, "A128CBC-NOPAD": 2, "A192CBC-NOPAD": 3, "A256CBC-NOPAD": 4, "RSA-OAEP-256": 5}
var cphID = map[string]int{"": 1, "AES-GCM": 1, "CHACHA20-POLY1305": 2}

// wrapMask makes the wrapped key differ from the file key (the wrap algorithms proper are C03's).
func wrapMask(k []byte) []byte {
	o := make([]byte, len(k))
	for i := range k {
		o[i] = k[i] ^ byte(0x5c+i)
	}
	return o
}

type docObs struct {
	doc      []byte
	fk       []byte
	wrapAlg  string
	wrapKey  string
	encErr   error
	termErr  error
	plain    []byte
	decErr   error
	decTerm  error
	unwrapKN string
	unwrapAl string
	unwrapN  int
	srcRR    *runReader // the position-exact sources of a zero-run case (nil otherwise)
	midRR    *runReader
}

func runDoc(c docCase) docObs {
	var o docObs
	p := plainOf(c)
	srcReader, srcRR := c.srcReader(p)
	o.srcRR = srcRR
	opts := enc.EncryptOptions{
		Algorithm: enc.KeyAlgorithm(c.Alg), KeyName: c.kn(), DecryptionKeyName: c.dkn(), OmitKeyName: c.Omit,
		WrapKeyFn: func(k []byte, alg, kn string, nonce []byte) ([]byte, []byte, error) {
			o.fk = append([]byte(nil), k...)
			o.wrapAlg, o.wrapKey = alg, kn
			return c.wrapCall(k), nil, nil
		},
	}
	if c.Cipher != "" {
		ci := enc.Cipher(c.Cipher)
		opts.Cipher = &ci
	}
	gerr := encx.Guard(60*time.Second, func() error {
		r, err := enc.Encrypt(srcReader, opts)
		if err != nil {
			o.encErr = err
			return nil
		}
		o.doc, o.termErr = encx.Drain(r, c.Out)
		return nil
	})
	if gerr != nil {
		o.encErr = gerr
		return o
	}
	if o.encErr != nil || o.termErr != nil {
		return o
	}
	midReader, midRR := c.midReader(o.doc)
	o.midRR = midRR
	var ubuf []byte
	gerr = encx.Guard(60*time.Second, func() error {
		r, err := enc.Decrypt(midReader, enc.DecryptOptions{KeyName: c.Override,
			UnwrapKeyFn: func(w []byte, alg, kn string, nonce, tag []byte) ([]byte, error) {
				o.unwrapN++
				o.unwrapAl, o.unwrapKN = alg, kn
				if len(w) == 0 && c.WfkLen < 0 {
					return append([]byte(nil), o.fk...), nil // the unwrap function that matches a WrapKeyFn with an empty wrapped key
				}
				k := c.unwrapValue(w)
				switch c.UnwrapMode {
				case "wipe-wrapped": // wipes its argument after use
					for i := range w {
						w[i] = 0
					}
				case "reuse-buffer": // returns a slice of a buffer its owner overwrites later
					ubuf = make([]byte, len(k))
					copy(ubuf, k)
					return ubuf, nil
				}
				return k, nil
			}})
		if err != nil {
			o.decErr = err
			return nil
		}
		for i := range ubuf { // the callback's owner reuses its buffer as soon as Decrypt has returned
			ubuf[i] = 0xEE
		}
		o.plain, o.decTerm = encx.Drain(r, c.Out)
		return nil
	})
	if gerr != nil {
		o.decErr = gerr
	}
	return o
}

func expectKeyName(c docCase) string {
	if c.Omit {
		return ""
	}
	if c.dkn() != "" {
		return c.dkn()
	}
	return c.kn()
}

func genDocs(tier string, rng *lib.Rand, search bool) []docCase {
	var cases []docCase
	algs := []string{"A256KW", "A128CBC-NOPAD", "A192CBC-NOPAD", "A256CBC-NOPAD", "RSA-OAEP-256", "AES", "RSA"}
	ciphers := []string{"", "AES-GCM", "CHACHA20-POLY1305"}
	const S = 65536
	lens := []int{0, 1, 2, 15, 16, 17, S - 1, S, S + 1, 2*S - 1, 2 * S, 2*S + 1}
	kmax := 3
	n := 70
	if tier == "thorough" || search {
		kmax = 6
		n = 600
	}
	for k := 3; k <= kmax; k++ {
		lens = append(lens, k*S-1, k*S, k*S+1)
	}
	keyNames := []string{"mykey", "key/1", "a b", "k<&>", "q\"uote\\", "é-ключ", "tab\there", "x"}
	for i := 0; i < n; i++ {
		c := docCase{Kind: "doc"}
		if i < len(lens)*2 {
			c.PlainLen = lens[i%len(lens)]
		} else if rng.Intn(3) == 0 {
			c.PlainLen = rng.Intn(300)
		} else {
			c.PlainLen = rng.Intn(kmax*S + 2)
			if tier == "quick" && !search {
				c.PlainLen = rng.Intn(2*S + 100)
			}
		}
		c.PlainSeed = rng.U64()
		c.Cipher = ciphers[i%3]
		c.Alg = algs[i%7]
		c.KeyName = keyNames[rng.Intn(len(keyNames))]
		switch rng.Intn(4) {
		case 0:
			c.DecKeyName = keyNames[rng.Intn(len(keyNames))]
		}
		c.Omit = rng.Intn(4) == 0
		if c.Omit || rng.Intn(3) == 0 {
			c.Override = keyNames[rng.Intn(len(keyNames))]
		}
		c.Src = encx.RandomScript(rng, c.PlainLen, S)
		c.Mid = encx.RandomScript(rng, c.PlainLen+200, S+16)
		for j := rng.Intn(4); j > 0; j-- {
			c.Out = append(c.Out, []int{1, 7, 100, 4096, 65536, 65537, 1 << 20}[rng.Intn(7)])
		}
		cases = append(cases, c)
	}
	// large-header family: key names / decryption key names / wrapped keys that make the header
	// 500 bytes … exactly 64 KiB (the limit of both SignHeader and readHeader's buffer), and just above it
	mk := func(i int, plainLen int) docCase {
		c := docCase{Kind: "doc", PlainLen: plainLen, PlainSeed: rng.U64(), Cipher: ciphers[i%3], Alg: algs[i%7], KeyName: "kn"}
		c.Src = encx.RandomScript(rng, c.PlainLen, S)
		c.Mid = encx.RandomScript(rng, 70000, []int{512, 4096, S + 16}[i%3])
		return c
	}
	// fit adjusts the (decryption) key name so that the header has exactly `target` bytes
	fit := func(c docCase, target int, dec bool) docCase {
		if dec {
			c.DecKeyNameLen = 1
		} else {
			c.KeyNameLen = 1
		}
		d := target - headerLenOf(c)
		if d < 0 {
			d = 0
		}
		if dec {
			c.DecKeyNameLen += d
		} else {
			c.KeyNameLen += d
		}
		c.HdrLen = headerLenOf(c)
		return c
	}
	targets := []int{500, 3000, 4095, 4096, 4097, 4759, 8192, 16384, 16385, 40000, 65535, 65536, 65537, 70001}
	if tier == "thorough" || search {
		targets = append(targets, 1000, 2048, 4000, 4200, 5000, 12000, 32768, 32769, 60000, 65000, 65530, 65540, 100000)
	}
	j := 0
	for _, t := range targets {
		pl := []int{10, 0, 300, S + 1}[j%4]
		if tier == "quick" && !search && pl > 300 && j%8 != 3 {
			pl = 17
		}
		cases = append(cases, fit(mk(j, pl), t, false))
		j++
		if t%2 == 0 || t > 60000 {
			c := mk(j, 10)
			c.Override = []string{"", "ov"}[j%2]
			cases = append(cases, fit(c, t, true)) // long DecryptionKeyName, short KeyName
			j++
		}
	}
	// long wrapped keys (WrapKeyFn returning long byte strings), the key name fills up to the target
	for _, w := range []int{33, 100, 2200, 2900, 3100, 10000, 30000, 48000} {
		c := mk(j, []int{10, 300}[j%2])
		c.WfkLen = w
		c.HdrLen = headerLenOf(c)
		cases = append(cases, c)
		j++
	}
	for _, t := range []int{4097, 65536, 65537} {
		c := mk(j, 10)
		c.WfkLen = []int{2900, 40000, 48000}[j%3]
		cases = append(cases, fit(c, t, false))
		j++
	}
	for k := 0; k < 2; k++ { // a WrapKeyFn that returns an empty wrapped key
		c := mk(j, []int{10, 70000}[k])
		c.WfkLen = -1
		c.HdrLen = headerLenOf(c)
		cases = append(cases, c)
		j++
	}
	{ // a wrapped key that alone exceeds the limit
		c := mk(j, 10)
		c.WfkLen = 50000
		c.HdrLen = headerLenOf(c)
		cases = append(cases, c)
	}
	// callbacks that write to their arguments: the contract unwrap(wrap(k)) = k holds for the VALUES at call time
	for _, wm := range []string{"zero-after", "in-place", "append7", "append16", ""} {
		for _, um := range []string{"", "wipe-wrapped", "reuse-buffer"} {
			if wm == "" && um == "" {
				continue
			}
			for _, pl := range []int{0, 10, S + 1} {
				if pl == S+1 && tier == "quick" && !search && um != "" {
					continue
				}
				c := mk(j, pl)
				j++
				c.WrapMode, c.UnwrapMode = wm, um
				c.HdrLen = headerLenOf(c)
				cases = append(cases, c)
			}
		}
	}
	// key-name option table, exhaustively over empty/non-empty
	for _, dk := range []string{"", "dk"} {
		for _, omit := range []bool{false, true} {
			for _, ov := range []string{"", "ov"} {
				cases = append(cases, docCase{Kind: "doc", PlainLen: 5, PlainSeed: rng.U64(), Alg: "AES", KeyName: "kn", DecKeyName: dk, Omit: omit, Override: ov})
			}
		}
	}
	return cases
}

func main() {
	f := lib.ParseFlags()
	encx.Supervise(f.Out, rule, func() { run(f) })
}

func run(f lib.Flags) {
	res := lib.NewResult(rule)
	rng := lib.NewRand(f.Seed)
	drv, err := lib.StartDrv(f.Drv, "C01")
	if err != nil {
		res.Note("model driver could not be started: " + err.Error())
		drv = nil
	}
	defer drv.Close()

	if f.Replay != "" {
		replay(f, res, drv)
		res.Write(f.Out)
		return
	}

	// ---------- T2a: the unexported loop and header reader (separate binary built with the overlay) ----------
	encx.RunLoop("c01", f, res)
	rng.Fork() // the loop harness consumes the first two forks of the same seed
	rng.Fork()
	// ---------- T2b + monitors: documents ----------
	docs := genDocs(f.Tier, rng.Fork(), f.Search)
	real := false
	if drv != nil {
		a, err := drv.Ask("caps")
		real = err == nil && strings.Contains(a, "real=1")
		if !real {
			res.Note("kitdrv has no Lean-native primitives linked in: documents are checked by the monitors only (" + a + ")")
		}
	}
	for i, c := range docs {
		encx.Inflight(c)
		checkDoc(res, drv, real, c, rng, i)
	}
	for i, c := range genZeroRuns(f.Tier, lib.NewRand(f.Seed^0x7a65726f72756e73), f.Search) {
		encx.Inflight(c)
		checkDoc(res, drv, real, c, rng, i)
	}
	for i, c := range genForeign(f.Tier, rng.Fork()) {
		checkForeign(res, drv, real, c, i)
	}
	checkPipes(res, drv, genPipe(f.Tier, rng.Fork()))
	for i, c := range genInterleave(f.Tier, rng.Fork(), f.Search) {
		checkInterleave(res, c, i)
	}
	if real {
		checkTestdata(res, drv)
		checkLeanDocs(res, drv, rng.Fork(), f.Tier)
	}
	res.Exhaustive = false // the run mixes complete small-scope enumerations with seeded families: see rule
	res.Write(f.Out)
}

func checkDoc(res *lib.Result, drv *lib.Drv, real bool, c docCase, rng *lib.Rand, idx int) {
	if encx.TooStuck() {
		res.Hit("doc.skipped-after-timeouts")
		return
	}
	o := runDoc(c)
	if (o.encErr != nil && strings.HasPrefix(o.encErr.Error(), "TIMEOUT")) || (o.decErr != nil && strings.HasPrefix(o.decErr.Error(), "TIMEOUT")) {
		// a genuine hang reproduces; a stall of a heavily loaded machine does not
		o2 := runDoc(c)
		if !((o2.encErr != nil && strings.HasPrefix(o2.encErr.Error(), "TIMEOUT")) || (o2.decErr != nil && strings.HasPrefix(o2.decErr.Error(), "TIMEOUT"))) {
			o = o2
			encx.Stuck--
			res.Hit("doc.retried-after-timeout")
		}
	}
	key, _ := json.Marshal(c)
	res.Count(string(key), true)
	res.Hit("doc.cipher=" + map[string]string{"": "default", "AES-GCM": "AES-GCM", "CHACHA20-POLY1305": "CHACHA20-POLY1305"}[c.Cipher])
	res.Hit("doc.alg=" + c.Alg)
	switch {
	case c.PlainLen == 0:
		res.Hit("doc.len=0")
	case c.PlainLen%65536 == 0:
		res.Hit("doc.len=k*65536")
	case c.PlainLen%65536 == 1 && c.PlainLen > 1:
		res.Hit("doc.len=k*65536+1")
	case c.PlainLen%65536 == 65535:
		res.Hit("doc.len=k*65536-1")
	case c.PlainLen < 65536:
		res.Hit("doc.len=<1seg")
	default:
		res.Hit("doc.len=multi")
	}
	if idx%17 == 0 {
		res.Sample(c)
	}
	p := plainOf(c)
	hl := headerLenOf(c)
	hc := hdrClass(hl) + c.mutating()
	if c.zeroRuns() {
		// finding class of this family: the failure is met under a source with a run of (0, nil) reads
		hc += ":zero-read-run"
		res.Hit("doc.zero_run=" + c.ZeroRunWhere)
		res.Hit("doc.zero_run.src_longest=" + runBucket(maxRun(c.SrcRuns)))
		res.Hit("doc.zero_run.doc_longest=" + runBucket(maxRun(c.MidRuns)))
		if o.srcRR != nil {
			res.Hit("doc.zero_run.src_zero_reads_answered>=100=" + strconv.FormatBool(o.srcRR.zeros >= 100))
		}
		if o.midRR != nil {
			res.Hit("doc.zero_run.doc_zero_reads_answered>=100=" + strconv.FormatBool(o.midRR.zeros >= 100))
		}
	}
	if c.WrapMode != "" {
		res.Hit("doc.wrap_mode=" + c.WrapMode)
	}
	if c.UnwrapMode != "" {
		res.Hit("doc.unwrap_mode=" + c.UnwrapMode)
	}
	res.Hit("doc.header" + hdrBucket(hl))
	if o.encErr != nil && hl > 65536 && strings.Contains(o.encErr.Error(), "header is too long") {
		// the code's own limit (SignHeader: "The header must not be bigger than 64KB"): Encrypt refuses.
		// Decrypt must then refuse the same header made by an independent encoder, and the model agrees on both.
		res.Hit("doc.encrypt=header-too-long")
		checkOversized(res, drv, real, c, p)
		return
	}
	if c.WfkLen < 0 {
		// a WrapKeyFn that returns an empty wrapped key: Decrypt rejects such a manifest (Validate), so Encrypt
		// must refuse too instead of emitting a document that cannot be decrypted
		if o.encErr != nil && strings.Contains(o.encErr.Error(), "wrapped key is empty") {
			res.Hit("doc.encrypt=empty-wrapped-key-refused")
			if real && drv != nil {
				if ans, err := drv.Ask(fmt.Sprintf("enc fk=%s np=%s wfk= kw=1 cph=1 keyname=%s plain=%s", encx.Hex(make([]byte, 32)), encx.Hex(make([]byte, 7)), encx.Hex([]byte("kn")), encx.Hex(p))); err == nil {
					res.Traces++
					if encx.KV(ans)["refuse"] != "emptyWrappedKey" {
						res.Disagree("Encrypt(real) refuses an empty wrapped key = Kit.Enc.encryptImpl", c, summarize(ans), "Encrypt: the wrapped key is empty")
					}
				}
			}
			return
		}
		if o.encErr == nil && o.termErr == nil {
			res.Violate("empty-wrapped-key-accepted-by-encrypt", fmt.Sprintf("WrapKeyFn returned an empty wrapped key; Encrypt produced a %d-byte document that Decrypt with the matching UnwrapKeyFn answers with: %v / %v", len(o.doc), o.decErr, o.decTerm), c)
			return
		}
	}
	if o.encErr != nil || o.termErr != nil {
		res.Violate("encrypt-fails"+hc, fmt.Sprintf("Encrypt failed on valid options (header of %d bytes): %v / %v", hl, o.encErr, o.termErr), c)
		return
	}
	if _, l2, l3, payload, err := encx.SplitHeader(o.doc); err == nil {
		if got := len(o.doc) - len(payload); got != hl {
			res.Violate("layout-header-length"+hc, fmt.Sprintf("header has %d bytes, the layout gives %d (manifest %d, MAC line %d)", got, hl, len(l2), len(l3)), c)
		}
	}
	// monitor 1: WrapKeyFn saw the canonical algorithm and the key name
	if o.wrapAlg != canonAlg[c.Alg] || o.wrapKey != c.kn() {
		res.Violate("wrap-arguments", fmt.Sprintf("WrapKeyFn(alg=%q,key=%q)", o.wrapAlg, o.wrapKey), c)
	}
	// monitor 2: layout by the independent decoder
	ip, im, ierr := encx.IndepDecrypt(o.doc, o.fk)
	if ierr != nil {
		res.Violate("layout-independent-decoder"+hc, "an independent README decoder rejects Encrypt's output: "+ierr.Error(), c)
	} else {
		if !bytes.Equal(ip, p) {
			res.Violate("layout-independent-plaintext", "independent decoder yields a different plaintext", c)
		}
		if im.K != expectKeyName(c) || im.KW != algID[canonAlg[c.Alg]] || im.Cph != cphID[c.Cipher] || !bytes.Equal(im.WFK, c.wrapValue(o.fk)) {
			res.Violate("manifest-fields", fmt.Sprintf("manifest %+v", im), c)
		}
		nseg := (len(p) + 65535) / 65536
		_, l2, l3, payload, _ := encx.SplitHeader(o.doc)
		if len(payload) != len(p)+16*nseg {
			res.Violate("layout-length", fmt.Sprintf("payload has %d bytes for %d plaintext bytes", len(payload), len(p)), c)
		}
		if len(l3) != 44 || bytes.ContainsAny(l2, "\n") {
			res.Violate("layout-header", "MAC line is not 44 base64 characters", c)
		}
	}
	// monitor 3: round trip
	wantKN := c.Override
	if wantKN == "" {
		wantKN = expectKeyName(c)
	}
	if wantKN == "" {
		if encx.Canon(o.decErr) != "keyMissing" {
			res.Violate("key-name-missing-not-reported", fmt.Sprintf("no key name anywhere but Decrypt returned %v", o.decErr), c)
		}
		res.Hit("doc.decrypt=keyMissing")
	} else {
		if o.decErr != nil || o.decTerm != nil {
			res.Violate("roundtrip-error"+hc, fmt.Sprintf("Decrypt(Encrypt(p)) failed (header of %d bytes): %v / %v", hl, o.decErr, o.decTerm), c)
		} else if !bytes.Equal(o.plain, p) {
			res.Violate("roundtrip-mismatch"+hc, fmt.Sprintf("Decrypt(Encrypt(p)) returned %d bytes, want %d", len(o.plain), len(p)), c)
		}
		if o.unwrapN > 0 && (o.unwrapKN != wantKN || o.unwrapAl != canonAlg[c.Alg]) {
			res.Violate("unwrap-arguments", fmt.Sprintf("UnwrapKeyFn(alg=%q,key=%q), want key %q", o.unwrapAl, o.unwrapKN, wantKN), c)
		}
		res.Hit("doc.decrypt=ok")
	}
	// monitor 4: Decrypt accepts an independent implementation's document
	if wantKN != "" && ierr == nil {
		_, l2, _, _, _ := encx.SplitHeader(o.doc)
		np := append([]byte{}, im.NP...)
		np[0] ^= 0x55
		var mm map[string]any
		json.Unmarshal(l2, &mm)
		mm["np"] = base64.StdEncoding.EncodeToString(np)
		// re-render compactly in Go's field order
		manifest := []byte("{")
		if k, ok := mm["k"]; ok {
			kb, _ := json.Marshal(k)
			manifest = append(manifest, `"k":`...)
			manifest = append(manifest, kb...)
			manifest = append(manifest, ',')
		}
		manifest = append(manifest, fmt.Sprintf(`"kw":%d,"wfk":"%s","cph":%d,"np":"%s"}`, im.KW, base64.StdEncoding.EncodeToString(im.WFK), im.Cph, mm["np"])...)
		idoc := encx.IndepEncrypt(o.fk, np, manifest, im.Cph, p)
		imid, _ := c.midReader(idoc)
		var got []byte
		var derr, dterm error
		gerr := encx.Guard(60*time.Second, func() error {
			r, err := enc.Decrypt(imid, enc.DecryptOptions{KeyName: c.Override,
				UnwrapKeyFn: func(w []byte, alg, kn string, nonce, tag []byte) ([]byte, error) { return c.unwrapValue(w), nil }})
			if err != nil {
				derr = err
				return nil
			}
			got, dterm = encx.Drain(r, c.Out)
			return nil
		})
		if gerr != nil || derr != nil || dterm != nil || !bytes.Equal(got, p) {
			res.Violate("interop-independent-encoder"+hc, fmt.Sprintf("Decrypt rejects/misreads an independent encoder's document: %v %v %v", gerr, derr, dterm), c)
		}
	}
	// T2b: the Lean specification encoder reproduces the document byte for byte
	if c.zeroRuns() && !leanForZeroRun(c, o, idx) {
		res.Hit("doc.zero_run.lean=monitors-only")
		return
	}
	if real && len(im.NP) > 0 {
		line := fmt.Sprintf("enc fk=%s np=%s wfk=%s kw=%d cph=%d keyname=%s plain=%s",
			encx.Hex(o.fk), encx.Hex(im.NP), encx.Hex(im.WFK), im.KW, im.Cph, encx.Hex([]byte(im.K)), encx.Hex(p))
		ans, err := drv.Ask(line)
		if err != nil {
			res.Disagree("driver-alive", c, err.Error(), "")
			return
		}
		res.Traces++
		kv := encx.KV(ans)
		if kv["unmodelled"] != "" {
			res.Hit("doc.lean=unmodelled:" + kv["unmodelled"])
			return
		}
		if kv["doc"] != encx.Hex(o.doc) {
			res.Disagree("Encrypt(real) = Kit.Enc.specEncrypt over Lean-native primitives (bytes)", c, summarize(kv["doc"]), summarize(encx.Hex(o.doc)))
		}
		if o.srcRR != nil {
			_, _, _, payload, _ := encx.SplitHeader(o.doc)
			checkZeroRunModel(res, drv, c, p, o.srcRR.script(p), len(payload))
		}
		// the README-only Lean decoder (specDecrypt) opens the real document
		if len(o.doc) <= 4*65552+400 && !c.zeroRuns() {
			ans, err = drv.Ask(fmt.Sprintf("specdec fk=%s data=%s", encx.Hex(o.fk), encx.Hex(o.doc)))
			if err != nil {
				res.Disagree("driver-alive", c, err.Error(), "")
				return
			}
			res.Traces++
			if ans != "out="+encx.Hex(p) {
				res.Disagree("Kit.Enc.specDecrypt (README-only decoder) opens Encrypt(real)", c, summarize(ans), "out="+summarize(encx.Hex(p)))
			}
		}
		// and the Lean implementation-shaped decryptor opens the real document under the same script
		mid := c.Mid
		mid.Data = o.doc
		if o.midRR != nil {
			mid = o.midRR.script(o.doc) // the read sequence the real Decrypt saw, zero-length reads included
		}
		line = fmt.Sprintf("dec fk=%s keyname=%s %s", encx.Hex(o.fk), encx.Hex([]byte(c.Override)), mid.Line("data"))
		ans, err = drv.Ask(line)
		if err != nil {
			res.Disagree("driver-alive", c, err.Error(), "")
			return
		}
		res.Traces++
		kv = encx.KV(ans)
		if kv["unmodelled"] != "" {
			res.Hit("doc.lean=unmodelled:" + kv["unmodelled"])
			return
		}
		implTerm, implOut := encx.Canon(o.decTerm), o.plain
		if o.decErr != nil {
			implTerm, implOut = encx.Canon(o.decErr), nil
		}
		if kv["term"] != implTerm || kv["out"] != encx.Hex(implOut) {
			res.Disagree("Decrypt(real) = Kit.Enc.decryptImpl over Lean-native primitives", c, "term="+kv["term"]+" out="+summarize(kv["out"]), "term="+implTerm+" out="+summarize(encx.Hex(implOut)))
		}
	}
}

// checkOversized: options whose header exceeds 64 KiB. Encrypt refused; the model must refuse too,
// and the real Decrypt and the model must agree on the same header produced by an independent
// encoder (by the code: both refuse, the header does not fit the 64 KiB read buffer).
func checkOversized(res *lib.Result, drv *lib.Drv, real bool, c docCase, p []byte) {
	fk := lib.NewRand(c.PlainSeed ^ 0x5151).Bytes(32)
	np := lib.NewRand(c.PlainSeed ^ 0x7272).Bytes(7)
	m := struct {
		K   string `json:"k,omitempty"`
		KW  int    `json:"kw"`
		WFK []byte `json:"wfk"`
		Cph int    `json:"cph"`
		NP  []byte `json:"np"`
	}{expectKeyName(c), algID[canonAlg[c.Alg]], c.wrapFor(fk), cphID[c.Cipher], np}
	manifest, _ := json.Marshal(m)
	idoc := encx.IndepEncrypt(fk, np, manifest, m.Cph, p)
	mid := c.Mid
	mid.Data = idoc
	var got []byte
	var derr, dterm error
	gerr := encx.Guard(60*time.Second, func() error {
		r, err := enc.Decrypt(mid.Reader(), enc.DecryptOptions{KeyName: c.Override,
			UnwrapKeyFn: func(w []byte, alg, kn string, nonce, tag []byte) ([]byte, error) { return c.unwrapValue(w), nil }})
		if err != nil {
			derr = err
			return nil
		}
		got, dterm = encx.Drain(r, c.Out)
		return nil
	})
	implTerm := encx.Canon(dterm)
	if derr != nil {
		implTerm, got = encx.Canon(derr), nil
	}
	if gerr != nil {
		implTerm = encx.Canon(gerr)
		res.Violate("decrypt-"+implTerm+":oversized-header", "Decrypt did not return normally on an oversized header", c)
		return
	}
	res.Hit("doc.oversized.decrypt=" + implTerm)
	if implTerm == "ok" && !bytes.Equal(got, p) {
		res.Violate("roundtrip-mismatch:header>65536", "Decrypt accepted an oversized header and released the wrong bytes", c)
	}
	if !real || drv == nil {
		return
	}
	ans, err := drv.Ask(fmt.Sprintf("enc fk=%s np=%s wfk=%s kw=%d cph=%d keyname=%s plain=%s",
		encx.Hex(fk), encx.Hex(np), encx.Hex(m.WFK), m.KW, m.Cph, encx.Hex([]byte(m.K)), encx.Hex(p)))
	if err != nil {
		res.Disagree("driver-alive", c, err.Error(), "")
		return
	}
	res.Traces++
	if kv := encx.KV(ans); kv["refuse"] != "headerTooLong" {
		res.Disagree("Encrypt(real) refuses an oversized header = Kit.Enc.encryptImpl", c, summarize(ans), "Encrypt: header is too long")
	}
	ans, err = drv.Ask(fmt.Sprintf("dec fk=%s keyname=%s %s", encx.Hex(fk), encx.Hex([]byte(c.Override)), mid.Line("data")))
	if err != nil {
		res.Disagree("driver-alive", c, err.Error(), "")
		return
	}
	res.Traces++
	kv := encx.KV(ans)
	if kv["unmodelled"] != "" {
		res.Hit("doc.lean=unmodelled:" + kv["unmodelled"])
		return
	}
	if kv["term"] != implTerm || kv["out"] != encx.Hex(got) {
		res.Disagree("Decrypt(real) = Kit.Enc.decryptImpl on an oversized header", c, "term="+kv["term"], "term="+implTerm)
	}
}

// ---- interleaved / parallel consumers (monitor only: the model has no notion of two streams) ----

type ilCase struct {
	Kind      string `json:"kind"` // interleave
	SeedA     uint64 `json:"seed_a"`
	SeedB     uint64 `json:"seed_b"`
	LenA      int    `json:"len_a"`
	LenB      int    `json:"len_b"`
	Cipher    string `json:"cipher"`
	Phase     string `json:"phase"`      // decrypt | encrypt: which stream of A is left partly read while B runs
	ReadFirst int    `json:"read_first"` // bytes of A's output consumed before B starts (0 = none)
	Pause     bool   `json:"pause"`      // let A's goroutine run until it blocks before B starts
	BMode     string `json:"b_mode"`     // same | goroutine
	BRounds   int    `json:"b_rounds"`   // complete Encrypt→Decrypt round trips of B while A is pending
	Procs     int    `json:"gomaxprocs"` // 0 = unchanged
	Parallel  int    `json:"parallel"`   // > 0: that many concurrent round trips instead of A/B
	DrainBuf  int    `json:"drain_buf"`
}

func ilOpts(ciph string, fkOut *[]byte) enc.EncryptOptions {
	o := enc.EncryptOptions{Algorithm: enc.KeyAlgorithmAES256KW, KeyName: "kek",
		WrapKeyFn: func(k []byte, alg, kn string, nonce []byte) ([]byte, []byte, error) {
			if fkOut != nil {
				*fkOut = append([]byte(nil), k...)
			}
			return wrapMask(k), nil, nil
		}}
	if ciph != "" {
		c := enc.Cipher(ciph)
		o.Cipher = &c
	}
	return o
}

var ilDec = enc.DecryptOptions{UnwrapKeyFn: func(w []byte, alg, kn string, nonce, tag []byte) ([]byte, error) { return wrapMask(w), nil }}

// roundTrip encrypts and decrypts p sequentially; returns a description of what went wrong ("" = fine).
func roundTrip(p []byte, ciph string, bufs []int) string {
	r, err := enc.Encrypt(bytes.NewReader(p), ilOpts(ciph, nil))
	if err != nil {
		return "Encrypt: " + err.Error()
	}
	doc, terr := encx.Drain(r, bufs)
	if terr != nil {
		return "Encrypt stream: " + terr.Error()
	}
	d, err := enc.Decrypt(bytes.NewReader(doc), ilDec)
	if err != nil {
		return "ERROR Decrypt: " + err.Error()
	}
	got, terr := encx.Drain(d, bufs)
	if terr != nil {
		return "ERROR Decrypt stream: " + terr.Error()
	}
	if !bytes.Equal(got, p) {
		return fmt.Sprintf("MISMATCH: %d bytes, want %d, first difference at %d", len(got), len(p), firstDiff(got, p))
	}
	return ""
}

func firstDiff(a, b []byte) int {
	for i := 0; i < len(a) && i < len(b); i++ {
		if a[i] != b[i] {
			return i
		}
	}
	if len(a) < len(b) {
		return len(a)
	}
	return len(b)
}

// runInterleave returns a list of problems, each prefixed ERROR or MISMATCH.
func runInterleave(c ilCase) []string {
	var problems []string
	if c.Procs > 0 {
		old := runtime.GOMAXPROCS(c.Procs)
		defer runtime.GOMAXPROCS(old)
	}
	pA := lib.NewRand(c.SeedA).Bytes(c.LenA)
	pB := lib.NewRand(c.SeedB).Bytes(c.LenB)
	bufs := []int{c.DrainBuf}
	if c.DrainBuf <= 0 {
		bufs = nil
	}
	if c.Parallel > 0 {
		var mu sync.Mutex
		var wg sync.WaitGroup
		for g := 0; g < c.Parallel; g++ {
			wg.Add(1)
			go func(g int) {
				defer wg.Done()
				defer func() {
					if x := recover(); x != nil {
						mu.Lock()
						problems = append(problems, fmt.Sprintf("ERROR panic in stream %d: %v", g, x))
						mu.Unlock()
					}
				}()
				p := lib.NewRand(c.SeedA + uint64(g)*7919).Bytes([]int{c.LenA, c.LenB, 1, 65536 + g}[g%4])
				for round := 0; round < 3; round++ {
					if w := roundTrip(p, c.Cipher, []int{1 + (g*977+round*131)%70000}); w != "" {
						mu.Lock()
						problems = append(problems, fmt.Sprintf("%s (parallel stream %d of %d, round %d)", w, g, c.Parallel, round))
						mu.Unlock()
						return
					}
				}
			}(g)
		}
		wg.Wait()
		return problems
	}
	runB := func() {
		for i := 0; i < c.BRounds; i++ {
			if w := roundTrip(pB, c.Cipher, nil); w != "" {
				problems = append(problems, w+" (stream B, running while A was pending)")
			}
		}
	}
	startB := func() {
		if c.BMode == "goroutine" {
			done := make(chan struct{})
			go func() { defer close(done); runB() }()
			<-done
		} else {
			runB()
		}
	}
	pause := func() {
		if c.Pause {
			for i := 0; i < 20; i++ {
				runtime.Gosched()
			}
			time.Sleep(2 * time.Millisecond)
		}
	}
	readFirst := func(r io.Reader) ([]byte, error) {
		if c.ReadFirst <= 0 {
			return nil, nil
		}
		b := make([]byte, c.ReadFirst)
		n, err := io.ReadFull(r, b)
		if err == io.EOF || err == io.ErrUnexpectedEOF {
			err = nil
		}
		return b[:n], err
	}
	var fkA []byte
	switch c.Phase {
	case "encrypt":
		rE, err := enc.Encrypt(bytes.NewReader(pA), ilOpts(c.Cipher, &fkA))
		if err != nil {
			return append(problems, "ERROR Encrypt A: "+err.Error())
		}
		head, err := readFirst(rE)
		if err != nil {
			return append(problems, "ERROR Encrypt stream A: "+err.Error())
		}
		pause()
		startB()
		rest, terr := encx.Drain(rE, bufs)
		if terr != nil {
			return append(problems, "ERROR Encrypt stream A: "+terr.Error())
		}
		docA := append(head, rest...)
		if ip, _, ierr := encx.IndepDecrypt(docA, fkA); ierr != nil {
			problems = append(problems, "MISMATCH: ciphertext of A (left partly read while B ran) is not a valid document: "+ierr.Error())
		} else if !bytes.Equal(ip, pA) {
			problems = append(problems, fmt.Sprintf("MISMATCH: ciphertext of A decodes to other bytes (first difference at %d)", firstDiff(ip, pA)))
		}
	default:
		r, err := enc.Encrypt(bytes.NewReader(pA), ilOpts(c.Cipher, &fkA))
		if err != nil {
			return append(problems, "ERROR Encrypt A: "+err.Error())
		}
		docA, terr := encx.Drain(r, nil)
		if terr != nil {
			return append(problems, "ERROR Encrypt stream A: "+terr.Error())
		}
		rD, err := enc.Decrypt(bytes.NewReader(docA), ilDec)
		if err != nil {
			return append(problems, "ERROR Decrypt A: "+err.Error())
		}
		head, err := readFirst(rD)
		if err != nil {
			return append(problems, "ERROR Decrypt stream A: "+err.Error())
		}
		pause()
		startB()
		rest, terr := encx.Drain(rD, bufs)
		if terr != nil {
			return append(problems, "ERROR Decrypt stream A (drained after B ran): "+terr.Error())
		}
		got := append(head, rest...)
		if !bytes.Equal(got, pA) {
			problems = append(problems, fmt.Sprintf("MISMATCH: A decrypted WITHOUT ERROR to the wrong bytes after B ran in between (%d bytes, want %d, first difference at %d)", len(got), len(pA), firstDiff(got, pA)))
		}
	}
	return problems
}

func genInterleave(tier string, rng *lib.Rand, search bool) []ilCase {
	var cases []ilCase
	const S = 65536
	lensA := []int{300, 100000, 2*S + 1}
	lensB := []int{300, 70000}
	reads := []int{0, 10, S / 2}
	full := tier == "thorough" || search
	i := 0
	for _, la := range lensA {
		for _, lb := range lensB {
			for _, rf := range reads {
				for _, ph := range []string{"decrypt", "encrypt"} {
					for _, bm := range []string{"same", "goroutine"} {
						for _, procs := range []int{0, 1} {
							i++
							if !full && i%3 != 0 && !(ph == "decrypt" && bm == "same" && procs == 0) {
								continue
							}
							cases = append(cases, ilCase{Kind: "interleave", SeedA: rng.U64(), SeedB: rng.U64(), LenA: la, LenB: lb,
								Cipher: []string{"AES-GCM", "CHACHA20-POLY1305"}[i%2], Phase: ph, ReadFirst: rf, Pause: i%4 != 1, BMode: bm,
								BRounds: 1 + i%2, Procs: procs, DrainBuf: []int{0, 1000, 65536, 7}[i%4] * (1 - (la/100000)*(i%4/3))})
						}
					}
				}
			}
		}
	}
	for _, n := range []int{2, 4, 16} {
		for _, procs := range []int{0, 1} {
			cases = append(cases, ilCase{Kind: "interleave", SeedA: rng.U64(), LenA: 100000, LenB: 300, Cipher: "AES-GCM", Parallel: n, Procs: procs})
		}
	}
	return cases
}

func checkInterleave(res *lib.Result, c ilCase, idx int) {
	if encx.TooStuck() {
		return
	}
	encx.Inflight(c)
	var problems []string
	gerr := encx.Guard(120*time.Second, func() error { problems = runInterleave(c); return nil })
	key, _ := json.Marshal(c)
	res.Count(string(key), true)
	if c.Parallel > 0 {
		res.Hit(fmt.Sprintf("interleave.parallel=%d", c.Parallel))
	} else {
		res.Hit("interleave.phase=" + c.Phase)
		res.Hit("interleave.b=" + c.BMode)
		res.Hit(fmt.Sprintf("interleave.read_first=%d", c.ReadFirst))
	}
	res.Hit(fmt.Sprintf("interleave.gomaxprocs=%d", c.Procs))
	if idx%29 == 0 {
		res.Sample(c)
	}
	if gerr != nil {
		res.Violate("interleaved-streams-"+encx.Canon(gerr), "interleaved Encrypt/Decrypt streams did not finish: "+gerr.Error(), c)
		return
	}
	for _, w := range problems {
		if strings.HasPrefix(w, "MISMATCH") {
			res.Violate("roundtrip-mismatch-interleaved-streams", w, c)
		} else {
			res.Violate("roundtrip-error-interleaved-streams", w, c)
		}
	}
	if len(problems) == 0 {
		res.Hit("interleave.ok")
	}
}

// ---- io.Pipe with a scripted consumer against Kit.Enc.Pipe.consumeAll ----

type pipeCase struct {
	Kind   string   `json:"kind"` // pipe
	Writes []string `json:"writes_hex"`
	Closed string   `json:"closed"` // ok | err
	Bufs   []int    `json:"bufs"`
	Dflt   int      `json:"dflt"`
}

func (c pipeCase) line() string {
	ws := make([]string, len(c.Writes))
	for i, w := range c.Writes {
		ws[i] = w
		if w == "" {
			ws[i] = "-"
		}
	}
	bs := make([]string, len(c.Bufs))
	for i, b := range c.Bufs {
		bs[i] = strconv.Itoa(b)
	}
	return fmt.Sprintf("pipe writes=%s closed=%s bufs=%s dflt=%d", strings.Join(ws, ";"), c.Closed, strings.Join(bs, ","), c.Dflt)
}

func runPipe(c pipeCase) string {
	var reads []string
	term := "ok"
	gerr := encx.Guard(20*time.Second, func() error {
		pr, pw := io.Pipe()
		go func() {
			for _, w := range c.Writes {
				b, _ := hex.DecodeString(w)
				if _, err := pw.Write(b); err != nil {
					return
				}
			}
			if c.Closed == "ok" {
				pw.Close()
			} else {
				pw.CloseWithError(encx.ErrSource)
			}
		}()
		for i := 0; ; i++ {
			sz := c.Dflt
			if i < len(c.Bufs) {
				sz = c.Bufs[i]
			}
			p := make([]byte, sz)
			n, err := pr.Read(p)
			if err != nil {
				term = encx.Canon(err)
				return nil
			}
			if n == 0 {
				reads = append(reads, "-")
			} else {
				reads = append(reads, hex.EncodeToString(p[:n]))
			}
			if i > 100000 {
				return errors.New("TIMEOUT: pipe never ends")
			}
		}
	})
	if gerr != nil {
		return "term=" + encx.Canon(gerr)
	}
	return fmt.Sprintf("reads=%s term=%s", strings.Join(reads, ";"), term)
}

func genPipe(tier string, rng *lib.Rand) []pipeCase {
	n := 1500
	if tier == "thorough" {
		n = 20000
	}
	var cases []pipeCase
	for i := 0; i < n; i++ {
		c := pipeCase{Kind: "pipe", Closed: []string{"ok", "err"}[rng.Intn(2)], Dflt: rng.Range(1, 9)}
		for k := rng.Intn(5); k > 0; k-- {
			l := rng.Intn(7)
			if rng.Intn(6) == 0 {
				l = 0
			}
			c.Writes = append(c.Writes, hex.EncodeToString(rng.Bytes(l)))
		}
		for k := rng.Intn(8); k > 0; k-- {
			c.Bufs = append(c.Bufs, rng.Intn(5))
		}
		cases = append(cases, c)
	}
	return cases
}

func checkPipes(res *lib.Result, drv *lib.Drv, cases []pipeCase) {
	var lines []string
	for _, c := range cases {
		lines = append(lines, c.line())
	}
	var answers []string
	if drv != nil {
		var err error
		answers, err = drv.AskBatch(lines)
		if err != nil {
			res.Disagree("driver-alive", "pipe batch", err.Error(), "")
			answers = nil
		}
	}
	for i, c := range cases {
		impl := runPipe(c)
		res.Count(lines[i], len(c.Writes) > 0)
		res.Hit("pipe.term=" + encx.KV(impl)["term"])
		// monitor: the consumer receives the concatenation of the writes
		var want, got []byte
		for _, w := range c.Writes {
			b, _ := hex.DecodeString(w)
			want = append(want, b...)
		}
		if rs := encx.KV(impl)["reads"]; rs != "" {
			for _, r := range strings.Split(rs, ";") {
				if r != "-" {
					b, _ := hex.DecodeString(r)
					got = append(got, b...)
				}
			}
		}
		if !bytes.Equal(want, got) {
			res.Violate("pipe-consumer-bytes", "io.Pipe consumer did not receive the concatenation of the writes", c)
		}
		if answers != nil {
			res.Traces++
			if answers[i] != impl {
				res.Disagree("io.Pipe with a scripted consumer = Kit.Enc.Pipe.consumeAll", c, answers[i], impl)
			}
		}
	}
}

// ---- documents of an "independent encoder" that writes the manifest its own way ----

type foreignCase struct {
	Kind     string      `json:"kind"` // foreign
	Style    string      `json:"style"`
	Seed     uint64      `json:"seed"`
	PlainLen int         `json:"plain_len"`
	Cipher   int         `json:"cipher_id"`
	Manifest string      `json:"manifest_line"` // the exact line (filled in by the generator)
	KeyName  string      `json:"key_name_hex"`  // what the line denotes
	Mid      encx.Script `json:"doc_script"`
}

// foreignManifest renders {k, kw, wfk, cph, np} in the given style; returns the line and the key name it denotes.
func foreignManifest(style string, kw, cph int, wfk, np []byte) (string, string) {
	b64 := base64.StdEncoding.EncodeToString
	esc := func(s string) string { return strings.ReplaceAll(s, "/", `\/`) }
	switch style {
	case "sorted-keys":
		return fmt.Sprintf(`{"cph":%d,"k":"mykey","kw":%d,"np":"%s","wfk":"%s"}`, cph, kw, b64(np), b64(wfk)), "mykey"
	case "slash-escapes":
		return fmt.Sprintf(`{"k":"key\/version\/1","kw":%d,"wfk":"%s","cph":%d,"np":"%s"}`, kw, esc(b64(wfk)), cph, esc(b64(np))), "key/version/1"
	case "unescaped-html":
		return fmt.Sprintf(`{"k":"a&b<c>d","kw":%d,"wfk":"%s","cph":%d,"np":"%s"}`, kw, b64(wfk), cph, b64(np)), "a&b<c>d"
	case "unicode-escapes":
		return fmt.Sprintf(`{"k":"\u006b\u0065y\u002F\u00e9\u20AC\u0041","kw":%d,"wfk":"%s","cph":%d,"np":"%s"}`, kw, b64(wfk), cph, b64(np)), "key/é€A"
	case "raw-utf8":
		return fmt.Sprintf(`{"k":"clé-ключ-鍵","kw":%d,"wfk":"%s","cph":%d,"np":"%s"}`, kw, b64(wfk), cph, b64(np)), "clé-ключ-鍵"
	case "whitespace":
		return fmt.Sprintf("  {\t\"k\" : \"my key\" ,\r \"kw\":  %d ,\"wfk\" :\"%s\"\t, \"cph\" : %d , \"np\": \"%s\" }  ", kw, b64(wfk), cph, b64(np)), "my key"
	case "unknown-members":
		return fmt.Sprintf(`{"v":1,"k":"mykey","alg":"x","kw":%d,"wfk":"%s","flag":true,"cph":%d,"none":null,"np":"%s"}`, kw, b64(wfk), cph, b64(np)), "mykey"
	case "other-escapes":
		return fmt.Sprintf(`{"np":"%s","k":"tab\tq\"b\\s\u000a\b\f\r","cph":%d,"wfk":"%s","kw":%d}`, b64(np), cph, b64(wfk), kw), "tab\tq\"b\\s\n\b\f\r"
	default: // everything at once
		return fmt.Sprintf("{ \"np\" :\"%s\", \"x\":\"\\u00e9\" ,\"cph\":%d,\"k\":\"k\\/\\u0031&\" , \"wfk\":\"%s\",\"kw\" :%d\t}", esc(b64(np)), cph, esc(b64(wfk)), kw), "k/1&"
	}
}

var foreignStyles = []string{"sorted-keys", "slash-escapes", "unescaped-html", "unicode-escapes", "raw-utf8", "whitespace", "unknown-members", "other-escapes", "mixed"}

func genForeign(tier string, rng *lib.Rand) []foreignCase {
	var cases []foreignCase
	lens := []int{0, 5, 70000}
	for i, st := range foreignStyles {
		for j, n := range lens {
			if tier == "quick" && n == 70000 && i%3 != 0 {
				continue
			}
			cases = append(cases, foreignCase{Kind: "foreign", Style: st, Seed: rng.U64(), PlainLen: n, Cipher: 1 + (i+j)%2,
				Mid: encx.RandomScript(rng, n+400, 65552)})
		}
	}
	return cases
}

func checkForeign(res *lib.Result, drv *lib.Drv, real bool, c foreignCase, idx int) {
	if encx.TooStuck() {
		return
	}
	encx.Inflight(c)
	rng := lib.NewRand(c.Seed)
	p := rng.Bytes(c.PlainLen)
	fk, np := rng.Bytes(32), rng.Bytes(7)
	line, kn := foreignManifest(c.Style, 1+int(c.Seed%5), c.Cipher, wrapMask(fk), np)
	c.Manifest, c.KeyName = line, encx.Hex([]byte(kn))
	doc := encx.IndepEncrypt(fk, np, []byte(line), c.Cipher, p)
	mid := c.Mid
	mid.Data = doc
	var got []byte
	var derr, dterm error
	seenKN := ""
	calls := 0
	gerr := encx.Guard(60*time.Second, func() error {
		r, err := enc.Decrypt(mid.Reader(), enc.DecryptOptions{
			UnwrapKeyFn: func(w []byte, alg, k string, nonce, tag []byte) ([]byte, error) {
				calls++
				seenKN = k
				return wrapMask(w), nil
			}})
		if err != nil {
			derr = err
			return nil
		}
		got, dterm = encx.Drain(r, nil)
		return nil
	})
	key, _ := json.Marshal(c)
	res.Count(string(key), true)
	res.Hit("foreign.style=" + c.Style)
	if idx%5 == 0 {
		res.Sample(c)
	}
	implTerm := encx.Canon(dterm)
	if derr != nil {
		implTerm, got = encx.Canon(derr), nil
	}
	if gerr != nil {
		implTerm = encx.Canon(gerr)
	}
	// monitor: a document of an independent implementation of the published spec (MAC over the exact manifest
	// string, README: "Verifiers should not re-encode the message as JSON themselves") must be accepted
	if implTerm != "ok" || !bytes.Equal(got, p) {
		res.Violate("interop-foreign-manifest-rejected", fmt.Sprintf("Decrypt rejects/misreads a document whose manifest is valid JSON written in another style (%s): %s, %d of %d bytes; manifest line %q", c.Style, implTerm, len(got), len(p), line), c)
	} else if calls > 0 && seenKN != kn {
		res.Violate("interop-foreign-keyname", fmt.Sprintf("UnwrapKeyFn saw key name %q, the manifest says %q", seenKN, kn), c)
	}
	if real && drv != nil {
		ans, err := drv.Ask(fmt.Sprintf("dec fk=%s keyname= %s", encx.Hex(fk), mid.Line("data")))
		if err != nil {
			res.Disagree("driver-alive", c, err.Error(), "")
			return
		}
		kv := encx.KV(ans)
		if kv["unmodelled"] != "" {
			res.Hit("foreign.lean=unmodelled:" + c.Style)
			return
		}
		res.Traces++
		if kv["term"] != implTerm || kv["out"] != encx.Hex(got) {
			res.Disagree("Decrypt(real) = Kit.Enc.decryptImpl on a foreign manifest ("+c.Style+")", c, "term="+kv["term"]+" out="+summarize(kv["out"]), "term="+implTerm+" out="+summarize(encx.Hex(got)))
		}
	}
}

func summarize(h string) string {
	if len(h) <= 96 {
		return h
	}
	return fmt.Sprintf("%s…%s (%d bytes)", h[:48], h[len(h)-32:], len(h)/2)
}

// checkTestdata: the Lean decoder opens the repository's stored documents (their key is the one
// scheme_test.go uses: the wrapped key is the file key itself).
func checkTestdata(res *lib.Result, drv *lib.Drv) {
	repo := os.Getenv("VERIF_REPO")
	if repo == "" {
		repo = "/repo"
	}
	files, _ := filepath.Glob(filepath.Join(repo, "schemes/enc/v1/testdata/*.enc"))
	for _, fn := range files {
		doc, err := os.ReadFile(fn)
		if err != nil {
			continue
		}
		// real Decrypt with identity unwrap tells us the expected plaintext
		var want []byte
		var derr, dterm error
		encx.Guard(60*time.Second, func() error {
			r, err := enc.Decrypt(bytes.NewReader(doc), enc.DecryptOptions{KeyName: "testkey",
				UnwrapKeyFn: func(w []byte, alg, kn string, nonce, tag []byte) ([]byte, error) { return w, nil }})
			if err != nil {
				derr = err
				return nil
			}
			want, dterm = encx.Drain(r, nil)
			return nil
		})
		if derr != nil || dterm != nil {
			res.Note(fmt.Sprintf("testdata %s: real Decrypt with identity unwrap fails (%v/%v); skipped", filepath.Base(fn), derr, dterm))
			continue
		}
		if len(doc) > 8*65552+400 {
			res.Hit("testdata.skipped-large")
			continue
		}
		ans, err := drv.Ask(fmt.Sprintf("dec fk=wfk keyname=%s data=%s caps= ewd=0 term=eof", encx.Hex([]byte("testkey")), encx.Hex(doc)))
		if err != nil {
			res.Disagree("driver-alive", fn, err.Error(), "")
			return
		}
		res.Traces++
		res.Count("testdata:"+filepath.Base(fn), true)
		res.Hit("testdata.opened")
		kv := encx.KV(ans)
		if kv["term"] != "ok" || kv["out"] != encx.Hex(want) {
			res.Disagree("Kit.Enc.decryptImpl opens testdata/"+filepath.Base(fn), filepath.Base(fn), "term="+kv["term"]+" out="+summarize(kv["out"]), "term=ok out="+summarize(encx.Hex(want)))
		}
	}
}

// checkLeanDocs: documents produced by the Lean specification encoder (its own fk/np) must be
// opened by the real Decrypt under random chunking.
func checkLeanDocs(res *lib.Result, drv *lib.Drv, rng *lib.Rand, tier string) {
	const S = 65536
	lens := []int{0, 1, 100, S - 1, S, S + 1, 2 * S, 2*S + 1}
	if tier == "thorough" {
		lens = append(lens, 3*S, 3*S+1, 4*S-1, 5*S+7)
	}
	names := []string{"k1", "key/version", "we<ird&\"\\ name>", ""}
	for i, n := range lens {
		p := rng.Bytes(n)
		fk, np := rng.Bytes(32), rng.Bytes(7)
		cph := 1 + i%2
		kw := 1 + i%5
		kn := names[i%len(names)]
		line := fmt.Sprintf("enc fk=%s np=%s wfk=%s kw=%d cph=%d keyname=%s plain=%s", encx.Hex(fk), encx.Hex(np), encx.Hex(wrapMask(fk)), kw, cph, encx.Hex([]byte(kn)), encx.Hex(p))
		ans, err := drv.Ask(line)
		if err != nil {
			res.Disagree("driver-alive", "leandoc", err.Error(), "")
			return
		}
		kv := encx.KV(ans)
		doc, _ := hex.DecodeString(kv["doc"])
		c := map[string]any{"kind": "leandoc", "plain_len": n, "cipher_id": cph, "kw": kw, "key_name": kn, "seed_state": rng.S}
		sc := encx.RandomScript(rng, len(doc), S+16)
		sc.Data = doc
		c["doc_script"] = sc
		var got []byte
		var derr, dterm error
		gerr := encx.Guard(60*time.Second, func() error {
			r, err := enc.Decrypt(sc.Reader(), enc.DecryptOptions{KeyName: "override-if-empty",
				UnwrapKeyFn: func(w []byte, alg, k string, nonce, tag []byte) ([]byte, error) { return wrapMask(w), nil }})
			if err != nil {
				derr = err
				return nil
			}
			got, dterm = encx.Drain(r, []int{1 + rng.Intn(70000)})
			return nil
		})
		res.Traces++
		res.Count(fmt.Sprintf("leandoc:%d:%d", n, i), true)
		res.Hit("leandoc.len=" + strconv.Itoa(n))
		if gerr != nil || derr != nil || dterm != nil || !bytes.Equal(got, p) {
			res.Disagree("Decrypt(real) opens Kit.Enc.specEncrypt documents", c, "plaintext of "+strconv.Itoa(n)+" bytes", fmt.Sprintf("%v %v %v, %d bytes", gerr, derr, dterm, len(got)))
		}
	}
}

func replay(f lib.Flags, res *lib.Result, drv *lib.Drv) {
	b, err := os.ReadFile(f.Replay)
	if err != nil {
		res.Note("replay: " + err.Error())
		return
	}
	var rf struct {
		Case json.RawMessage `json:"case"`
	}
	if err := json.Unmarshal(b, &rf); err != nil {
		res.Note("replay: " + err.Error())
		return
	}
	var kind struct {
		Kind string `json:"kind"`
	}
	json.Unmarshal(rf.Case, &kind)
	switch kind.Kind {
	case "ps", "rh":
		encx.RunLoop("c01", f, res)
	case "doc":
		var c docCase
		json.Unmarshal(rf.Case, &c)
		real := false
		if drv != nil {
			a, err := drv.Ask("caps")
			real = err == nil && strings.Contains(a, "real=1")
		}
		checkDoc(res, drv, real, c, lib.NewRand(f.Seed), 0)
	case "foreign":
		var c foreignCase
		json.Unmarshal(rf.Case, &c)
		real := false
		if drv != nil {
			a, err := drv.Ask("caps")
			real = err == nil && strings.Contains(a, "real=1")
		}
		checkForeign(res, drv, real, c, 1)
	case "pipe":
		var c pipeCase
		json.Unmarshal(rf.Case, &c)
		checkPipes(res, drv, []pipeCase{c})
	case "interleave":
		var c ilCase
		json.Unmarshal(rf.Case, &c)
		checkInterleave(res, c, 1)
	default:
		res.Note("replay: unknown case kind " + kind.Kind)
	}
}
