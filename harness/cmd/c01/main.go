// Harness for property C01 (enc/v1: Decrypt inverts Encrypt; ciphertext follows the published
// layout; interop with an independent implementation).
//
//	T2a  the real, unexported processSegments / readHeader (reached through the build overlay
//	     harness/overlay/enc_zz_verif.go) against the Lean model, exhaustively in small scope:
//	     segment sizes {1,2,3,4,8}, every content length 0..3·seg+1, compositions of the content
//	     into read chunks with up to two zero-length reads, both EOF styles, failing reads at
//	     every offset, failing processFn at every call.
//	T2b  real documents: Encrypt's output is recomputed byte for byte by the Lean specification
//	     encoder running on the Lean-native primitives (fk captured from WrapKeyFn, np from the
//	     manifest); documents produced by the Lean encoder are opened by the real Decrypt under
//	     random chunking; the Lean decoder opens the repository's testdata files.
//	monitors (model independent): Decrypt(Encrypt(p)) == p for random scripts on all three
//	     readers; an independent README decoder written with the Go standard library opens the
//	     document and checks the segment layout; Decrypt accepts the independent encoder's output.
package main

import (
	"bytes"
	"encoding/base64"
	"encoding/hex"
	"encoding/json"
	"fmt"
	"io"
	"os"
	"path/filepath"
	"strconv"
	"strings"
	"time"

	enc "github.com/dapr/kit/schemes/enc/v1"

	"verifharness/encx"
	"verifharness/lib"
)

const rule = "loop case: content non-empty or script has a zero-length read/failure; header case: any; document case: distinct (plaintext length, cipher, algorithm, key-name options, scripts)"

type psCase struct {
	Kind     string      `json:"kind"` // ps
	Seg      int         `json:"seg"`
	Len      int         `json:"len"`
	Script   encx.Script `json:"script"`
	FailCall int         `json:"failcall"` // -1 = never
}

func content(n int) []byte {
	b := make([]byte, n)
	for i := range b {
		b[i] = byte(i%250 + 1)
	}
	return b
}

func (c psCase) line() string {
	s := c.Script
	s.Data = content(c.Len)
	fc := "none"
	if c.FailCall >= 0 {
		fc = strconv.Itoa(c.FailCall)
	}
	return fmt.Sprintf("ps seg=%d %s failcall=%s", c.Seg, s.Line("data"), fc)
}

// runPS executes the real processSegments and renders the observation in the driver's format.
func runPS(c psCase) string {
	s := c.Script
	s.Data = content(c.Len)
	var calls []string
	fn := func(out io.Writer, data []byte, num uint32, last bool) error {
		l := 0
		if last {
			l = 1
		}
		calls = append(calls, fmt.Sprintf("%s:%d:%d", hex.EncodeToString(data), num, l))
		if c.FailCall >= 0 && uint32(c.FailCall) == num {
			return encx.ErrProc
		}
		_, err := out.Write(data)
		return err
	}
	var out []byte
	var terr error
	gerr := encx.Guard(20*time.Second, func() error {
		r := enc.VerifProcessSegments(s.Reader(), c.Seg, fn)
		out, terr = encx.Drain(r, nil)
		return nil
	})
	if gerr != nil {
		return "term=" + encx.Canon(gerr)
	}
	return fmt.Sprintf("calls=%s out=%s term=%s", strings.Join(calls, ";"), hex.EncodeToString(out), encx.Canon(terr))
}

// compositions calls f with every composition of n (ordered chunk sizes summing to n).
func compositions(n int, f func([]int)) {
	if n == 0 {
		f(nil)
		return
	}
	for mask := 0; mask < 1<<(n-1); mask++ {
		var parts []int
		cur := 1
		for i := 0; i < n-1; i++ {
			if mask&(1<<i) != 0 {
				parts = append(parts, cur)
				cur = 1
			} else {
				cur++
			}
		}
		parts = append(parts, cur)
		f(parts)
	}
}

func insertZero(caps []int, pos int) []int {
	out := make([]int, 0, len(caps)+1)
	out = append(out, caps[:pos]...)
	out = append(out, 0)
	out = append(out, caps[pos:]...)
	return out
}

func genPS(tier string, rng *lib.Rand, search bool) []psCase {
	var cases []psCase
	terms := []string{"eof", "failOnce", "failSticky"}
	add := func(seg, n int, caps []int, fail int) {
		for _, ewd := range []bool{false, true} {
			for _, t := range terms {
				cases = append(cases, psCase{"ps", seg, n, encx.Script{Caps: append([]int(nil), caps...), EWD: ewd, Term: t}, fail})
			}
		}
	}
	maxFull := map[int]int{1: 4, 2: 7, 3: 10, 4: 9, 8: 8} // all compositions up to this length
	if tier == "thorough" || search {
		maxFull = map[int]int{1: 4, 2: 7, 3: 10, 4: 13, 8: 13}
	}
	for _, seg := range []int{1, 2, 3, 4, 8} {
		for n := 0; n <= 3*seg+1; n++ {
			if n <= maxFull[seg] {
				compositions(n, func(parts []int) {
					add(seg, n, parts, -1)
					// one zero-length read at every position
					if n <= 7 || tier == "thorough" {
						for p := 0; p <= len(parts); p++ {
							z := insertZero(parts, p)
							add(seg, n, z, -1)
							if n <= 4 || (tier == "thorough" && n <= 7) {
								for q := p; q <= len(z); q++ {
									add(seg, n, insertZero(z, q), -1)
								}
							}
						}
					} else {
						z := insertZero(parts, rng.Intn(len(parts)+1))
						add(seg, n, z, -1)
						add(seg, n, insertZero(z, rng.Intn(len(z)+1)), -1)
					}
				})
			} else {
				k := 120
				if tier == "thorough" || search {
					k = 1500
				}
				for j := 0; j < k; j++ {
					var parts []int
					left := n
					for left > 0 {
						var c int
						switch rng.Intn(4) {
						case 0:
							c = 1
						case 1:
							c = seg + rng.Range(-1, 1)
						case 2:
							c = rng.Range(1, left)
						default:
							c = rng.Range(1, 2*seg+2)
						}
						if c < 1 {
							c = 1
						}
						if c > left && rng.Bool() {
							c = left
						}
						parts = append(parts, c)
						left -= c
					}
					for z := rng.Intn(3); z > 0; z-- {
						parts = insertZero(parts, rng.Intn(len(parts)+1))
					}
					add(seg, n, parts, -1)
				}
			}
			// caps larger than what is left, unlimited reads, aligned reads
			add(seg, n, nil, -1)
			add(seg, n, []int{seg}, -1)
			add(seg, n, []int{seg + 1}, -1)
			add(seg, n, []int{seg, 0, 1, 0}, -1)
			// a failing processFn at every call
			for fc := 0; fc*seg < n; fc++ {
				add(seg, n, nil, fc)
				add(seg, n, []int{1, seg, 1}, fc)
			}
		}
	}
	return cases
}

// ---- readHeader ----

type rhCase struct {
	Kind   string      `json:"kind"` // rh
	Doc    string      `json:"doc_hex"`
	Script encx.Script `json:"script"`
}

func (c rhCase) line() string {
	s := c.Script
	s.Data, _ = hex.DecodeString(c.Doc)
	return "rh " + s.Line("data") + " fix=1"
}

func runRH(c rhCase) string {
	s := c.Script
	s.Data, _ = hex.DecodeString(c.Doc)
	var res string
	gerr := encx.Guard(20*time.Second, func() error {
		m, mac, rest, err := enc.VerifReadHeader(s.Reader())
		if err != nil {
			res = "err=" + encx.Canon(err)
			return nil
		}
		b, rerr := encx.Drain(rest, nil)
		rt := "eof"
		if rerr != nil {
			rt = "fail"
		}
		res = fmt.Sprintf("ok manifest=%s mac=%s rest=%s restterm=%s", hex.EncodeToString(m), hex.EncodeToString(mac), hex.EncodeToString(b), rt)
		return nil
	})
	if gerr != nil {
		return "err=" + encx.Canon(gerr)
	}
	return res
}

func genRH(tier string, rng *lib.Rand, search bool) []rhCase {
	var cases []rhCase
	terms := []string{"eof", "failOnce", "failSticky"}
	add := func(doc []byte, caps []int) {
		for _, ewd := range []bool{false, true} {
			for _, t := range terms {
				cases = append(cases, rhCase{"rh", hex.EncodeToString(doc), encx.Script{Caps: append([]int(nil), caps...), EWD: ewd, Term: t}})
			}
		}
	}
	// well-formed small headers with 0..3 payload bytes; cuts enumerated around the three newlines
	for extra := 0; extra <= 3; extra++ {
		doc := []byte("dapr.io/enc/v1\nmf\nc\n")
		doc = append(doc, []byte{0xAA, '\n', 0xBB}[:extra]...)
		tail := len(doc) - 12 // enumerate all cut subsets over the last 12 positions
		nb := len(doc) - tail - 1
		if nb > 11 {
			nb = 11
		}
		for mask := 0; mask < 1<<nb; mask++ {
			var caps []int
			cur := tail + 1
			for i := 0; i < nb; i++ {
				if mask&(1<<i) != 0 {
					caps = append(caps, cur)
					cur = 1
				} else {
					cur++
				}
			}
			caps = append(caps, cur)
			add(doc, caps)
			if mask%7 == 0 {
				add(doc, insertZero(caps, rng.Intn(len(caps)+1)))
			}
		}
		// every truncation (= failure / EOF at every offset)
		for cut := 0; cut <= len(doc); cut++ {
			add(doc[:cut], nil)
			add(doc[:cut], []int{1, 1, 1, 1, 1, 1, 1, 1, 1, 1, 1, 1, 1, 1, 1, 1, 1, 1, 1, 1, 1, 1, 1, 1})
			add(doc[:cut], []int{14, 1, 0, 1, 2})
		}
	}
	// malformed stream
	bad := [][]byte{
		[]byte(""), []byte("\n"), []byte("\n\n\n"), []byte("dapr.io/enc/v1\n\nmac\n"), []byte("dapr.io/enc/v1\nm\n\n"),
		[]byte("dapr.io/enc/v2\nm\nc\n"), []byte("dapr.io/enc/v1"), []byte("dapr.io/enc/v1\n"), []byte("dapr.io/enc/v1\nm"),
		[]byte("dapr.io/enc/v1\nm\n"), []byte("dapr.io/enc/v1\nm\nc"), []byte("dapr.io/enc/v1\r\nm\nc\n"), []byte("xdapr.io/enc/v1\nm\nc\n"),
		[]byte("dapr.io/enc/v1\nm\nc\n\n\n"), []byte("dapr.io/enc/v1\nm\nc\nrest\nmore\n"),
	}
	for _, b := range bad {
		add(b, nil)
		add(b, []int{1, 1, 1, 1, 1, 1, 1, 1, 1, 1, 1, 1, 1, 1, 1, 1, 1, 1, 1, 1, 1})
		add(b, []int{15, 0, 1, 1, 1, 1, 1})
	}
	// long headers: exactly at, below and above the 64 KiB limit; no newline at all
	nLong := 2
	if tier == "thorough" || search {
		nLong = 8
	}
	for j := 0; j < nLong; j++ {
		for _, total := range []int{65535, 65536, 65537} {
			mlen := total - len("dapr.io/enc/v1\n") - len("\nc\n")
			doc := []byte("dapr.io/enc/v1\n")
			doc = append(doc, bytes.Repeat([]byte{'m'}, mlen)...)
			doc = append(doc, "\nc\n"...)
			doc = append(doc, "xyz"...)
			sc := encx.RandomScript(rng, len(doc), 4096)
			cases = append(cases, rhCase{"rh", hex.EncodeToString(doc), sc})
		}
		cases = append(cases, rhCase{"rh", hex.EncodeToString(bytes.Repeat([]byte{'q'}, 65536+rng.Intn(3))), encx.RandomScript(rng, 65538, 8000)})
	}
	// random mutations of a well-formed header
	nMut := 300
	if tier == "thorough" || search {
		nMut = 5000
	}
	for j := 0; j < nMut; j++ {
		doc := []byte("dapr.io/enc/v1\n{\"kw\":1}\nbWFj\npayload")
		for k := rng.Range(1, 3); k > 0; k-- {
			p := rng.Intn(len(doc))
			switch rng.Intn(4) {
			case 0:
				doc[p] = '\n'
			case 1:
				doc = append(doc[:p], doc[p+1:]...)
			case 2:
				doc = append(doc[:p], append([]byte{'\n'}, doc[p:]...)...)
			default:
				doc[p] ^= 1 << uint(rng.Intn(8))
			}
		}
		sc := encx.RandomScript(rng, len(doc), 5)
		sc.Term = terms[rng.Intn(3)]
		cases = append(cases, rhCase{"rh", hex.EncodeToString(doc), sc})
	}
	return cases
}

// ---- documents ----

type docCase struct {
	Kind       string      `json:"kind"` // doc
	PlainLen   int         `json:"plain_len"`
	PlainSeed  uint64      `json:"plain_seed"`
	Cipher     string      `json:"cipher"` // "" = default
	Alg        string      `json:"alg"`
	KeyName    string      `json:"key_name"`
	DecKeyName string      `json:"decryption_key_name"`
	Omit       bool        `json:"omit_key_name"`
	Override   string      `json:"decrypt_key_name_option"`
	Src        encx.Script `json:"src_script"`
	Mid        encx.Script `json:"doc_script"`
	Out        []int       `json:"consumer_bufs"`
}

func plainOf(c docCase) []byte { return lib.NewRand(c.PlainSeed).Bytes(c.PlainLen) }

var canonAlg = map[string]string{"A256KW": "A256KW", "A128CBC-NOPAD": "A128CBC-NOPAD", "A192CBC-NOPAD": "A192CBC-NOPAD",
	"A256CBC-NOPAD": "A256CBC-NOPAD", "RSA-OAEP-256": "RSA-OAEP-256", "AES": "A256KW", "RSA": "RSA-OAEP-256"}
var algID = map[string]int{"A256KW": 1, "A128CBC-NOPAD": 2, "A192CBC-NOPAD": 3, "A256CBC-NOPAD": 4, "RSA-OAEP-256": 5}
var cphID = map[string]int{"": 1, "AES-GCM": 1, "CHACHA20-POLY1305": 2}

// wrapMask makes the wrapped key differ from the file key (the wrap algorithms proper are C03's).
func wrapMask(k []byte) []byte {
	o := make([]byte, len(k))
	for i := range k {
		o[i] = k[i] ^ byte(0x5c+i)
	}
	return o
}

type docObs struct {
	doc      []byte
	fk       []byte
	wrapAlg  string
	wrapKey  string
	encErr   error
	termErr  error
	plain    []byte
	decErr   error
	decTerm  error
	unwrapKN string
	unwrapAl string
	unwrapN  int
}

func runDoc(c docCase) docObs {
	var o docObs
	p := plainOf(c)
	src := c.Src
	src.Data = p
	opts := enc.EncryptOptions{
		Algorithm: enc.KeyAlgorithm(c.Alg), KeyName: c.KeyName, DecryptionKeyName: c.DecKeyName, OmitKeyName: c.Omit,
		WrapKeyFn: func(k []byte, alg, kn string, nonce []byte) ([]byte, []byte, error) {
			o.fk = append([]byte(nil), k...)
			o.wrapAlg, o.wrapKey = alg, kn
			return wrapMask(k), nil, nil
		},
	}
	if c.Cipher != "" {
		ci := enc.Cipher(c.Cipher)
		opts.Cipher = &ci
	}
	gerr := encx.Guard(60*time.Second, func() error {
		r, err := enc.Encrypt(src.Reader(), opts)
		if err != nil {
			o.encErr = err
			return nil
		}
		o.doc, o.termErr = encx.Drain(r, c.Out)
		return nil
	})
	if gerr != nil {
		o.encErr = gerr
		return o
	}
	if o.encErr != nil || o.termErr != nil {
		return o
	}
	mid := c.Mid
	mid.Data = o.doc
	gerr = encx.Guard(60*time.Second, func() error {
		r, err := enc.Decrypt(mid.Reader(), enc.DecryptOptions{KeyName: c.Override,
			UnwrapKeyFn: func(w []byte, alg, kn string, nonce, tag []byte) ([]byte, error) {
				o.unwrapN++
				o.unwrapAl, o.unwrapKN = alg, kn
				return wrapMask(w), nil
			}})
		if err != nil {
			o.decErr = err
			return nil
		}
		o.plain, o.decTerm = encx.Drain(r, c.Out)
		return nil
	})
	if gerr != nil {
		o.decErr = gerr
	}
	return o
}

func expectKeyName(c docCase) string {
	if c.Omit {
		return ""
	}
	if c.DecKeyName != "" {
		return c.DecKeyName
	}
	return c.KeyName
}

func genDocs(tier string, rng *lib.Rand, search bool) []docCase {
	var cases []docCase
	algs := []string{"A256KW", "A128CBC-NOPAD", "A192CBC-NOPAD", "A256CBC-NOPAD", "RSA-OAEP-256", "AES", "RSA"}
	ciphers := []string{"", "AES-GCM", "CHACHA20-POLY1305"}
	const S = 65536
	lens := []int{0, 1, 2, 15, 16, 17, S - 1, S, S + 1, 2*S - 1, 2 * S, 2*S + 1}
	kmax := 3
	n := 70
	if tier == "thorough" || search {
		kmax = 6
		n = 600
	}
	for k := 3; k <= kmax; k++ {
		lens = append(lens, k*S-1, k*S, k*S+1)
	}
	keyNames := []string{"mykey", "key/1", "a b", "k<&>", "q\"uote\\", "é-ключ", "tab\there", "x"}
	for i := 0; i < n; i++ {
		c := docCase{Kind: "doc"}
		if i < len(lens)*2 {
			c.PlainLen = lens[i%len(lens)]
		} else if rng.Intn(3) == 0 {
			c.PlainLen = rng.Intn(300)
		} else {
			c.PlainLen = rng.Intn(kmax*S + 2)
			if tier == "quick" && !search {
				c.PlainLen = rng.Intn(2*S + 100)
			}
		}
		c.PlainSeed = rng.U64()
		c.Cipher = ciphers[i%3]
		c.Alg = algs[i%7]
		c.KeyName = keyNames[rng.Intn(len(keyNames))]
		switch rng.Intn(4) {
		case 0:
			c.DecKeyName = keyNames[rng.Intn(len(keyNames))]
		}
		c.Omit = rng.Intn(4) == 0
		if c.Omit || rng.Intn(3) == 0 {
			c.Override = keyNames[rng.Intn(len(keyNames))]
		}
		c.Src = encx.RandomScript(rng, c.PlainLen, S)
		c.Mid = encx.RandomScript(rng, c.PlainLen+200, S+16)
		for j := rng.Intn(4); j > 0; j-- {
			c.Out = append(c.Out, []int{1, 7, 100, 4096, 65536, 65537, 1 << 20}[rng.Intn(7)])
		}
		cases = append(cases, c)
	}
	// key-name option table, exhaustively over empty/non-empty
	for _, dk := range []string{"", "dk"} {
		for _, omit := range []bool{false, true} {
			for _, ov := range []string{"", "ov"} {
				cases = append(cases, docCase{Kind: "doc", PlainLen: 5, PlainSeed: rng.U64(), Alg: "AES", KeyName: "kn", DecKeyName: dk, Omit: omit, Override: ov})
			}
		}
	}
	return cases
}

func main() {
	f := lib.ParseFlags()
	encx.Supervise(f.Out, rule, func() { run(f) })
}

func run(f lib.Flags) {
	res := lib.NewResult(rule)
	rng := lib.NewRand(f.Seed)
	drv, err := lib.StartDrv(f.Drv, "C01")
	if err != nil {
		res.Note("model driver could not be started: " + err.Error())
		drv = nil
	}
	defer drv.Close()

	if f.Replay != "" {
		replay(f, res, drv)
		res.Write(f.Out)
		return
	}

	// ---------- T2a: segment loop ----------
	ps := genPS(f.Tier, rng.Fork(), f.Search)
	var lines []string
	for _, c := range ps {
		lines = append(lines, c.line())
	}
	var answers []string
	if drv != nil {
		answers, err = drv.AskBatch(lines)
		if err != nil {
			res.Note("driver: " + err.Error())
			res.Disagree("driver-alive", "ps batch", err.Error(), "")
			answers = nil
		}
	}
	for i, c := range ps {
		if i%64 == 0 {
			encx.Inflight(c)
		}
		impl := runPS(c)
		checkPSMonitor(res, c, impl)
		nontrivial := c.Len > 0 || c.Script.Term != "eof"
		for _, z := range c.Script.Caps {
			if z == 0 {
				nontrivial = true
			}
		}
		res.Count(lines[i], nontrivial)
		res.Hit(fmt.Sprintf("ps.seg=%d", c.Seg))
		res.Hit("ps.term=" + kvGet(impl, "term"))
		res.Hit("ps.script.term=" + c.Script.Term)
		if c.Len%c.Seg == 0 && c.Len > 0 {
			res.Hit("ps.len=multiple-of-seg")
		} else if c.Len%c.Seg == 1 && c.Len > 1 {
			res.Hit("ps.len=multiple+1")
		} else if c.Len == 0 {
			res.Hit("ps.len=0")
		} else {
			res.Hit("ps.len=other")
		}
		if i%9973 == 0 {
			res.Sample(c)
		}
		if answers != nil {
			res.Traces++
			if answers[i] != impl {
				res.Disagree("processSegments(real, overlay) = Kit.Enc.processSegments", c, answers[i], impl)
			}
		}
	}

	// ---------- T2a: readHeader ----------
	rh := genRH(f.Tier, rng.Fork(), f.Search)
	lines = lines[:0]
	for _, c := range rh {
		lines = append(lines, c.line())
	}
	answers = nil
	if drv != nil {
		answers, err = drv.AskBatch(lines)
		if err != nil {
			res.Note("driver: " + err.Error())
			res.Disagree("driver-alive", "rh batch", err.Error(), "")
			answers = nil
		}
	}
	for i, c := range rh {
		if i%16 == 0 {
			encx.Inflight(c)
		}
		impl := runRH(c)
		res.Count(lines[i], true)
		if strings.HasPrefix(impl, "ok") {
			res.Hit("rh.ok")
		} else {
			res.Hit("rh." + impl)
		}
		if i%4999 == 0 {
			res.Sample(c)
		}
		if strings.Contains(impl, "panic") || strings.Contains(impl, "timeout") {
			res.Violate("readheader-"+strings.TrimPrefix(impl, "err="), "readHeader did not return normally", c)
		}
		if answers != nil {
			res.Traces++
			if answers[i] != impl {
				res.Disagree("readHeader(real, overlay) = Kit.Enc.readHeader", c, answers[i], impl)
			}
		}
	}

	// ---------- T2b + monitors: documents ----------
	docs := genDocs(f.Tier, rng.Fork(), f.Search)
	real := false
	if drv != nil {
		a, err := drv.Ask("caps")
		real = err == nil && strings.Contains(a, "real=1")
		if !real {
			res.Note("kitdrv has no Lean-native primitives linked in: documents are checked by the monitors only (" + a + ")")
		}
	}
	for i, c := range docs {
		encx.Inflight(c)
		checkDoc(res, drv, real, c, rng, i)
	}
	if real {
		checkTestdata(res, drv)
		checkLeanDocs(res, drv, rng.Fork(), f.Tier)
	}
	res.Exhaustive = true
	res.Write(f.Out)
}

func kvGet(line, k string) string { return encx.KV(line)[k] }

// checkPSMonitor: model-independent facts about one run of the loop: the calls are the pure
// split of the delivered content (prefix of it when something failed), numbered from 0, only the
// final one flagged last; a clean end processed everything.
func checkPSMonitor(res *lib.Result, c psCase, impl string) {
	kv := encx.KV(impl)
	term := kv["term"]
	if term == "panic" || term == "timeout" {
		res.Violate("loop-"+term, "processSegments did not return normally", c)
		return
	}
	data := content(c.Len)
	var got []byte
	callsStr := kv["calls"]
	var calls []string
	if callsStr != "" {
		calls = strings.Split(callsStr, ";")
	}
	for i, cs := range calls {
		p := strings.Split(cs, ":")
		d, _ := hex.DecodeString(p[0])
		if p[1] != strconv.Itoa(i) {
			res.Violate("loop-numbering", "segment numbers are not 0,1,2,…", c)
		}
		isLast := p[2] == "1"
		if (isLast && i != len(calls)-1) || (term == "ok" && i == len(calls)-1 && !isLast) {
			res.Violate("loop-last-flag", "last flag on a non-final segment or missing on the final one", c)
		}
		if !isLast && len(d) != c.Seg {
			res.Violate("loop-short-nonfinal", "a non-final segment is not full", c)
		}
		if len(d) == 0 || len(d) > c.Seg {
			res.Violate("loop-segment-size", "empty or oversized segment", c)
		}
		got = append(got, d...)
	}
	if !encx.IsPrefix(got, data) {
		res.Violate("loop-not-prefix", "processed bytes are not a prefix of the content", c)
	}
	if term == "ok" && (!bytes.Equal(got, data) || c.Script.Term != "eof" && c.FailCall < 0) {
		if c.Script.Term != "eof" {
			res.Violate("loop-source-error-lost", "source failed but the pipe closed cleanly", c)
		} else {
			res.Violate("loop-silent-truncation", "clean end without processing all content", c)
		}
	}
	if c.Script.Term == "eof" && c.FailCall < 0 && term != "ok" {
		res.Violate("loop-spurious-error", "non-failing source and processFn but terminal "+term, c)
	}
}

func checkDoc(res *lib.Result, drv *lib.Drv, real bool, c docCase, rng *lib.Rand, idx int) {
	if encx.TooStuck() {
		res.Hit("doc.skipped-after-timeouts")
		return
	}
	o := runDoc(c)
	key, _ := json.Marshal(c)
	res.Count(string(key), true)
	res.Hit("doc.cipher=" + map[string]string{"": "default", "AES-GCM": "AES-GCM", "CHACHA20-POLY1305": "CHACHA20-POLY1305"}[c.Cipher])
	res.Hit("doc.alg=" + c.Alg)
	switch {
	case c.PlainLen == 0:
		res.Hit("doc.len=0")
	case c.PlainLen%65536 == 0:
		res.Hit("doc.len=k*65536")
	case c.PlainLen%65536 == 1 && c.PlainLen > 1:
		res.Hit("doc.len=k*65536+1")
	case c.PlainLen%65536 == 65535:
		res.Hit("doc.len=k*65536-1")
	case c.PlainLen < 65536:
		res.Hit("doc.len=<1seg")
	default:
		res.Hit("doc.len=multi")
	}
	if idx%17 == 0 {
		res.Sample(c)
	}
	p := plainOf(c)
	if o.encErr != nil || o.termErr != nil {
		res.Violate("encrypt-fails", fmt.Sprintf("Encrypt failed on valid options: %v / %v", o.encErr, o.termErr), c)
		return
	}
	// monitor 1: WrapKeyFn saw the canonical algorithm and the key name
	if o.wrapAlg != canonAlg[c.Alg] || o.wrapKey != c.KeyName {
		res.Violate("wrap-arguments", fmt.Sprintf("WrapKeyFn(alg=%q,key=%q)", o.wrapAlg, o.wrapKey), c)
	}
	// monitor 2: layout by the independent decoder
	ip, im, ierr := encx.IndepDecrypt(o.doc, o.fk)
	if ierr != nil {
		res.Violate("layout-independent-decoder", "an independent README decoder rejects Encrypt's output: "+ierr.Error(), c)
	} else {
		if !bytes.Equal(ip, p) {
			res.Violate("layout-independent-plaintext", "independent decoder yields a different plaintext", c)
		}
		if im.K != expectKeyName(c) || im.KW != algID[canonAlg[c.Alg]] || im.Cph != cphID[c.Cipher] || !bytes.Equal(im.WFK, wrapMask(o.fk)) {
			res.Violate("manifest-fields", fmt.Sprintf("manifest %+v", im), c)
		}
		nseg := (len(p) + 65535) / 65536
		_, l2, l3, payload, _ := encx.SplitHeader(o.doc)
		if len(payload) != len(p)+16*nseg {
			res.Violate("layout-length", fmt.Sprintf("payload has %d bytes for %d plaintext bytes", len(payload), len(p)), c)
		}
		if len(l3) != 44 || bytes.ContainsAny(l2, "\n") {
			res.Violate("layout-header", "MAC line is not 44 base64 characters", c)
		}
	}
	// monitor 3: round trip
	wantKN := c.Override
	if wantKN == "" {
		wantKN = expectKeyName(c)
	}
	if wantKN == "" {
		if encx.Canon(o.decErr) != "keyMissing" {
			res.Violate("key-name-missing-not-reported", fmt.Sprintf("no key name anywhere but Decrypt returned %v", o.decErr), c)
		}
		res.Hit("doc.decrypt=keyMissing")
	} else {
		if o.decErr != nil || o.decTerm != nil {
			res.Violate("roundtrip-error", fmt.Sprintf("Decrypt(Encrypt(p)) failed: %v / %v", o.decErr, o.decTerm), c)
		} else if !bytes.Equal(o.plain, p) {
			res.Violate("roundtrip-mismatch", fmt.Sprintf("Decrypt(Encrypt(p)) returned %d bytes, want %d", len(o.plain), len(p)), c)
		}
		if o.unwrapKN != wantKN || o.unwrapAl != canonAlg[c.Alg] {
			res.Violate("unwrap-arguments", fmt.Sprintf("UnwrapKeyFn(alg=%q,key=%q), want key %q", o.unwrapAl, o.unwrapKN, wantKN), c)
		}
		res.Hit("doc.decrypt=ok")
	}
	// monitor 4: Decrypt accepts an independent implementation's document
	if wantKN != "" && ierr == nil {
		_, l2, _, _, _ := encx.SplitHeader(o.doc)
		np := append([]byte{}, im.NP...)
		np[0] ^= 0x55
		var mm map[string]any
		json.Unmarshal(l2, &mm)
		mm["np"] = base64.StdEncoding.EncodeToString(np)
		// re-render compactly in Go's field order
		manifest := []byte("{")
		if k, ok := mm["k"]; ok {
			kb, _ := json.Marshal(k)
			manifest = append(manifest, `"k":`...)
			manifest = append(manifest, kb...)
			manifest = append(manifest, ',')
		}
		manifest = append(manifest, fmt.Sprintf(`"kw":%d,"wfk":"%s","cph":%d,"np":"%s"}`, im.KW, base64.StdEncoding.EncodeToString(im.WFK), im.Cph, mm["np"])...)
		idoc := encx.IndepEncrypt(o.fk, np, manifest, im.Cph, p)
		mid := c.Mid
		mid.Data = idoc
		var got []byte
		var derr, dterm error
		gerr := encx.Guard(60*time.Second, func() error {
			r, err := enc.Decrypt(mid.Reader(), enc.DecryptOptions{KeyName: c.Override,
				UnwrapKeyFn: func(w []byte, alg, kn string, nonce, tag []byte) ([]byte, error) { return wrapMask(w), nil }})
			if err != nil {
				derr = err
				return nil
			}
			got, dterm = encx.Drain(r, c.Out)
			return nil
		})
		if gerr != nil || derr != nil || dterm != nil || !bytes.Equal(got, p) {
			res.Violate("interop-independent-encoder", fmt.Sprintf("Decrypt rejects/misreads an independent encoder's document: %v %v %v", gerr, derr, dterm), c)
		}
	}
	// T2b: the Lean specification encoder reproduces the document byte for byte
	if real && len(im.NP) > 0 {
		line := fmt.Sprintf("enc fk=%s np=%s wfk=%s kw=%d cph=%d keyname=%s plain=%s",
			encx.Hex(o.fk), encx.Hex(im.NP), encx.Hex(im.WFK), im.KW, im.Cph, encx.Hex([]byte(im.K)), encx.Hex(p))
		ans, err := drv.Ask(line)
		if err != nil {
			res.Disagree("driver-alive", c, err.Error(), "")
			return
		}
		res.Traces++
		kv := encx.KV(ans)
		if kv["unmodelled"] != "" {
			res.Hit("doc.lean=unmodelled:" + kv["unmodelled"])
			return
		}
		if kv["doc"] != encx.Hex(o.doc) {
			res.Disagree("Encrypt(real) = Kit.Enc.specEncrypt over Lean-native primitives (bytes)", c, summarize(kv["doc"]), summarize(encx.Hex(o.doc)))
		}
		// the README-only Lean decoder (specDecrypt) opens the real document
		if len(o.doc) <= 4*65552+400 {
			ans, err = drv.Ask(fmt.Sprintf("specdec fk=%s data=%s", encx.Hex(o.fk), encx.Hex(o.doc)))
			if err != nil {
				res.Disagree("driver-alive", c, err.Error(), "")
				return
			}
			res.Traces++
			if ans != "out="+encx.Hex(p) {
				res.Disagree("Kit.Enc.specDecrypt (README-only decoder) opens Encrypt(real)", c, summarize(ans), "out="+summarize(encx.Hex(p)))
			}
		}
		// and the Lean implementation-shaped decryptor opens the real document under the same script
		mid := c.Mid
		mid.Data = o.doc
		line = fmt.Sprintf("dec fk=%s keyname=%s %s", encx.Hex(o.fk), encx.Hex([]byte(c.Override)), mid.Line("data"))
		ans, err = drv.Ask(line)
		if err != nil {
			res.Disagree("driver-alive", c, err.Error(), "")
			return
		}
		res.Traces++
		kv = encx.KV(ans)
		if kv["unmodelled"] != "" {
			res.Hit("doc.lean=unmodelled:" + kv["unmodelled"])
			return
		}
		implTerm, implOut := encx.Canon(o.decTerm), o.plain
		if o.decErr != nil {
			implTerm, implOut = encx.Canon(o.decErr), nil
		}
		if kv["term"] != implTerm || kv["out"] != encx.Hex(implOut) {
			res.Disagree("Decrypt(real) = Kit.Enc.decryptImpl over Lean-native primitives", c, "term="+kv["term"]+" out="+summarize(kv["out"]), "term="+implTerm+" out="+summarize(encx.Hex(implOut)))
		}
	}
}

func summarize(h string) string {
	if len(h) <= 96 {
		return h
	}
	return fmt.Sprintf("%s…%s (%d bytes)", h[:48], h[len(h)-32:], len(h)/2)
}

// checkTestdata: the Lean decoder opens the repository's stored documents (their key is the one
// scheme_test.go uses: the wrapped key is the file key itself).
func checkTestdata(res *lib.Result, drv *lib.Drv) {
	repo := os.Getenv("VERIF_REPO")
	if repo == "" {
		repo = "/repo"
	}
	files, _ := filepath.Glob(filepath.Join(repo, "schemes/enc/v1/testdata/*.enc"))
	for _, fn := range files {
		doc, err := os.ReadFile(fn)
		if err != nil {
			continue
		}
		// real Decrypt with identity unwrap tells us the expected plaintext
		var want []byte
		var derr, dterm error
		encx.Guard(60*time.Second, func() error {
			r, err := enc.Decrypt(bytes.NewReader(doc), enc.DecryptOptions{KeyName: "testkey",
				UnwrapKeyFn: func(w []byte, alg, kn string, nonce, tag []byte) ([]byte, error) { return w, nil }})
			if err != nil {
				derr = err
				return nil
			}
			want, dterm = encx.Drain(r, nil)
			return nil
		})
		if derr != nil || dterm != nil {
			res.Note(fmt.Sprintf("testdata %s: real Decrypt with identity unwrap fails (%v/%v); skipped", filepath.Base(fn), derr, dterm))
			continue
		}
		if len(doc) > 8*65552+400 {
			res.Hit("testdata.skipped-large")
			continue
		}
		ans, err := drv.Ask(fmt.Sprintf("dec fk=wfk keyname=%s data=%s caps= ewd=0 term=eof", encx.Hex([]byte("testkey")), encx.Hex(doc)))
		if err != nil {
			res.Disagree("driver-alive", fn, err.Error(), "")
			return
		}
		res.Traces++
		res.Count("testdata:"+filepath.Base(fn), true)
		res.Hit("testdata.opened")
		kv := encx.KV(ans)
		if kv["term"] != "ok" || kv["out"] != encx.Hex(want) {
			res.Disagree("Kit.Enc.decryptImpl opens testdata/"+filepath.Base(fn), filepath.Base(fn), "term="+kv["term"]+" out="+summarize(kv["out"]), "term=ok out="+summarize(encx.Hex(want)))
		}
	}
}

// checkLeanDocs: documents produced by the Lean specification encoder (its own fk/np) must be
// opened by the real Decrypt under random chunking.
func checkLeanDocs(res *lib.Result, drv *lib.Drv, rng *lib.Rand, tier string) {
	const S = 65536
	lens := []int{0, 1, 100, S - 1, S, S + 1, 2 * S, 2*S + 1}
	if tier == "thorough" {
		lens = append(lens, 3*S, 3*S+1, 4*S-1, 5*S+7)
	}
	names := []string{"k1", "key/version", "we<ird&\"\\ name>", ""}
	for i, n := range lens {
		p := rng.Bytes(n)
		fk, np := rng.Bytes(32), rng.Bytes(7)
		cph := 1 + i%2
		kw := 1 + i%5
		kn := names[i%len(names)]
		line := fmt.Sprintf("enc fk=%s np=%s wfk=%s kw=%d cph=%d keyname=%s plain=%s", encx.Hex(fk), encx.Hex(np), encx.Hex(wrapMask(fk)), kw, cph, encx.Hex([]byte(kn)), encx.Hex(p))
		ans, err := drv.Ask(line)
		if err != nil {
			res.Disagree("driver-alive", "leandoc", err.Error(), "")
			return
		}
		kv := encx.KV(ans)
		doc, _ := hex.DecodeString(kv["doc"])
		c := map[string]any{"kind": "leandoc", "plain_len": n, "cipher_id": cph, "kw": kw, "key_name": kn, "seed_state": rng.S}
		sc := encx.RandomScript(rng, len(doc), S+16)
		sc.Data = doc
		c["doc_script"] = sc
		var got []byte
		var derr, dterm error
		gerr := encx.Guard(60*time.Second, func() error {
			r, err := enc.Decrypt(sc.Reader(), enc.DecryptOptions{KeyName: "override-if-empty",
				UnwrapKeyFn: func(w []byte, alg, k string, nonce, tag []byte) ([]byte, error) { return wrapMask(w), nil }})
			if err != nil {
				derr = err
				return nil
			}
			got, dterm = encx.Drain(r, []int{1 + rng.Intn(70000)})
			return nil
		})
		res.Traces++
		res.Count(fmt.Sprintf("leandoc:%d:%d", n, i), true)
		res.Hit("leandoc.len=" + strconv.Itoa(n))
		if gerr != nil || derr != nil || dterm != nil || !bytes.Equal(got, p) {
			res.Disagree("Decrypt(real) opens Kit.Enc.specEncrypt documents", c, "plaintext of "+strconv.Itoa(n)+" bytes", fmt.Sprintf("%v %v %v, %d bytes", gerr, derr, dterm, len(got)))
		}
	}
}

func replay(f lib.Flags, res *lib.Result, drv *lib.Drv) {
	b, err := os.ReadFile(f.Replay)
	if err != nil {
		res.Note("replay: " + err.Error())
		return
	}
	var rf struct {
		Case json.RawMessage `json:"case"`
	}
	if err := json.Unmarshal(b, &rf); err != nil {
		res.Note("replay: " + err.Error())
		return
	}
	var kind struct {
		Kind string `json:"kind"`
	}
	json.Unmarshal(rf.Case, &kind)
	switch kind.Kind {
	case "ps":
		var c psCase
		json.Unmarshal(rf.Case, &c)
		impl := runPS(c)
		checkPSMonitor(res, c, impl)
		res.Count(c.line(), true)
		res.Note("replay impl: " + impl)
		if drv != nil {
			if a, err := drv.Ask(c.line()); err == nil {
				res.Note("replay model: " + a)
				if a != impl {
					res.Disagree("processSegments(real, overlay) = Kit.Enc.processSegments", c, a, impl)
				}
			}
		}
	case "rh":
		var c rhCase
		json.Unmarshal(rf.Case, &c)
		impl := runRH(c)
		res.Count(c.line(), true)
		res.Note("replay impl: " + impl)
		if drv != nil {
			if a, err := drv.Ask(c.line()); err == nil {
				res.Note("replay model: " + a)
				if a != impl {
					res.Disagree("readHeader(real, overlay) = Kit.Enc.readHeader", c, a, impl)
				}
			}
		}
	case "doc":
		var c docCase
		json.Unmarshal(rf.Case, &c)
		real := false
		if drv != nil {
			a, err := drv.Ask("caps")
			real = err == nil && strings.Contains(a, "real=1")
		}
		checkDoc(res, drv, real, c, lib.NewRand(f.Seed), 0)
	default:
		res.Note("replay: unknown case kind " + kind.Kind)
	}
}
