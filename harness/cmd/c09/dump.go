package main

import (
	"runtime"
	"sort"
	"strconv"
	"strings"
)

// Goroutine accounting from runtime.Stack(all): which goroutines of the limiter exist and whether
// each of them is blocked. This is how the harness knows (independently of the model) that the
// component is quiescent and how many helper goroutines are alive.

type gInfo struct {
	ID      int
	State   string
	Kind    string // token | sender | loop | closer | adder | other
	Blocked bool
}

const pkgPrefix = "github.com/dapr/kit/events/ratelimiting.(*coalescing)."

var dumpBuf = make([]byte, 1<<20)

var blockedStates = map[string]bool{
	"select": true, "chan send": true, "chan receive": true, "select (no cases)": true,
	"chan send (nil chan)": true, "chan receive (nil chan)": true,
	"sync.Mutex.Lock": true, "sync.RWMutex.RLock": true, "sync.RWMutex.Lock": true,
	"sync.WaitGroup.Wait": true, "sync.Cond.Wait": true, "semacquire": true,
}

func dumpGoroutines() []gInfo {
	n := runtime.Stack(dumpBuf, true)
	for n == len(dumpBuf) {
		dumpBuf = make([]byte, 2*len(dumpBuf))
		n = runtime.Stack(dumpBuf, true)
	}
	var out []gInfo
	for _, blk := range strings.Split(string(dumpBuf[:n]), "\n\n") {
		if !strings.Contains(blk, pkgPrefix) {
			continue
		}
		nl := strings.IndexByte(blk, '\n')
		if nl < 0 {
			continue
		}
		head := blk[:nl]
		if !strings.HasPrefix(head, "goroutine ") {
			continue
		}
		rest := head[len("goroutine "):]
		sp := strings.IndexByte(rest, ' ')
		if sp < 0 {
			continue
		}
		id, _ := strconv.Atoi(rest[:sp])
		st := ""
		if a := strings.IndexByte(rest, '['); a >= 0 {
			if b := strings.IndexByte(rest[a:], ']'); b >= 0 {
				st = rest[a+1 : a+b]
			}
		}
		if c := strings.IndexByte(st, ','); c >= 0 {
			st = st[:c]
		}
		body := blk[nl+1:]
		// only the frames of the goroutine itself, not its "created by" line
		if cb := strings.Index(body, "created by "); cb >= 0 {
			body = body[:cb]
		}
		kind := ""
		switch {
		case strings.Contains(body, pkgPrefix+"Add.func1"):
			kind = "token"
		case strings.Contains(body, pkgPrefix+"fireEvent.func1"):
			kind = "sender"
		case strings.Contains(body, pkgPrefix+"Run("):
			kind = "loop"
		case strings.Contains(body, pkgPrefix+"Close("):
			kind = "closer"
		case strings.Contains(body, pkgPrefix+"Add("):
			kind = "adder"
		case strings.Contains(body, pkgPrefix):
			kind = "other"
		default:
			continue
		}
		// Only waits that another goroutine of the limiter (or the harness) must end count as
		// blocked. "GC assist wait", "preempted", "runnable" … end by themselves.
		blocked := blockedStates[st]
		if st == "semacquire" && !strings.Contains(body, "sync.(*WaitGroup).Wait") {
			// runtime-internal semaphores (e.g. an allocation starting a GC cycle waits for the
			// world semaphore this very dump holds) end by themselves
			blocked = false
		}
		out = append(out, gInfo{ID: id, State: st, Kind: kind, Blocked: blocked})
	}
	sort.Slice(out, func(i, j int) bool { return out[i].ID < out[j].ID })
	return out
}

type snapshot struct {
	Tokens, Senders, Loop, Closers, Adders, Other int
	key                                          string
	allBlocked                                   bool
}

func snapshotOf(gs []gInfo, ignore map[int]bool) snapshot {
	var s snapshot
	s.allBlocked = true
	var sb strings.Builder
	for _, g := range gs {
		if ignore[g.ID] {
			continue
		}
		switch g.Kind {
		case "token":
			s.Tokens++
		case "sender":
			s.Senders++
		case "loop":
			s.Loop++
		case "closer":
			s.Closers++
		case "adder":
			s.Adders++
		default:
			s.Other++
		}
		if !g.Blocked {
			s.allBlocked = false
		}
		sb.WriteString(strconv.Itoa(g.ID))
		sb.WriteByte(':')
		sb.WriteString(g.Kind)
		sb.WriteByte(':')
		sb.WriteString(g.State)
		sb.WriteByte(' ')
	}
	s.key = sb.String()
	return s
}
