// Harness for property C09 (events/ratelimiting: coalescing rate limiter).
//
// It drives the REAL limiter (ratelimiting.NewCoalescing + the repo's own `unit`-tag WithTicker) with
// a deterministic fake clock (vclock.go), records the observable trace — Add call/return, clock
// moves, signal receives stamped with the fake clock, Close call/return, cancel, Run return, the
// two hook events coalescing.inputHandled / coalescing.timerHandled, and at every quiescent point
// the number of live helper goroutines (from a goroutine dump, dump.go) and the armed timer — and
// asks `kitdrv C09` whether the Lean model accepts that trace (state-set simulation), once with the
// hook events and once projected to the API events.
//
// Independently of the model it runs monitors that decide C09 on the concrete execution:
//
//	signals-exceed-adds          more signals (received + senders alive) than Add calls
//	signal-without-add           a signal although nothing could be pending
//	first-add-not-immediate      Add in the idle state not signalled without a clock move
//	add-lost                     a definitely unsignalled Add, limiter running, and no timer armed
//	deadline-missed              clock reached the end of the window, Adds definitely pending, no signal
//	expiry-not-handled           quiescent with a timer whose deadline has passed
//	token-not-taken              quiescent and running with a token goroutine still waiting
//	signal-inside-window         no cap: a signal while the window stayed open (burst ⇒ one signal at its end)
//	cap-not-fired                pending Adds definitely ≥ MaxPendingEvents at a quiescent point
//	window-length-wrong          NewTimer/Reset durations ≠ initial, min(max, initial·2^k) (k-th extension)
//	close-hangs                  Close did not return (all goroutines blocked: a deadlock, or timeout)
//	run-hangs                    Run did not return after Close / cancellation
//	close-returned-helpers-alive helper goroutines of the limiter alive after Close returned
//	signal-after-close           a signal received after Close returned
//	panic                        the limiter panicked
package main

import (
	"context"
	"encoding/json"
	"fmt"
	"os"
	"path/filepath"
	"reflect"
	"runtime"
	"runtime/debug"
	"runtime/pprof"
	"sort"
	"strconv"
	"strings"
	"sync"
	"sync/atomic"
	"time"

	"github.com/dapr/kit/events/ratelimiting"
	"github.com/dapr/kit/verifhook"

	"verifharness/lib"
)

// ---------------------------------------------------------------------------------------------
// cases

type Op struct {
	K   string `json:"k"`             // add | adv | recv | park | release | close | cancel | flush | run
	N   int    `json:"n,omitempty"`   // add: number of Add calls; recv: max signals to take
	G   int    `json:"g,omitempty"`   // add: number of goroutines issuing them
	Rel string `json:"rel,omitempty"` // adv: inside | exact | beyond | gap (resolved against the armed timer when run)
	T   int64  `json:"t"`             // adv: absolute clock target once resolved
	Res bool   `json:"res,omitempty"` // adv: T is resolved
	// adv: keep the expiry's channel send back until flush / Stop / Reset (see vclock.go)
	Hold bool `json:"hold,omitempty"`
}

type Case struct {
	Family   string `json:"family"`
	Initial  int64  `json:"initial"`
	Max      int64  `json:"max"`
	Cap      int    `json:"cap"`      // 0 = unset
	Consumer string `json:"consumer"` // prompt | slow
	// LateRun: Run is not called at the start; `run` ops call it (the first may come after Adds or after Close).
	LateRun bool `json:"late_run,omitempty"`
	Ops     []Op `json:"ops"`
}

func (c Case) key() string {
	b, _ := json.Marshal(c)
	return string(b)
}

// ---------------------------------------------------------------------------------------------
// execution of one case against the real limiter

type tline struct {
	s      string
	hook   bool // hin/htm/release: dropped in the projected trace
	parked bool // settle recorded while the loop was parked / inside a forced schedule
}

type violation struct{ id, what string }

type exec struct {
	c     Case
	clk   *VClock
	rl    ratelimiting.RateLimiter
	ch    chan struct{}
	cancl context.CancelFunc

	mu        sync.Mutex
	lines     []tline
	parkNext  bool
	parked    bool
	releaseCh chan struct{}
	hookSeq   []string
	panics    []string

	runIssued, runReturned     int
	runErrReturned             int // Run calls that returned "already running"
	ctx                        context.Context
	closeIssued, closeReturned int

	ignore map[int]bool
	viol   []violation
	hung   string

	// monitor state
	addCalls   int
	received   int
	lo, hi     int
	running    bool // Run issued, neither Close nor cancel issued
	cancelled  bool
	recvTimes  []int64 // clock value of every receive
	recvAfter  []int   // number of receives after each executed op (index = op index)
	lateNil    int  // Run calls after the first that returned nil
	firstErr   bool // the first Run call returned "already running"
	everClosed bool
	closeRetAt int // number of signals received when the first Close returned (-1: none yet)
	lastSnap   snapshot
	fires      int
	stats      map[string]int
	// quietUntil: clock value before which no further signal may be sent (history-based, independent
	// of the limiter's timer state): the latest instant at which an Add's token was fully handled,
	// plus the initial delay (every Add either opens a window of the initial delay or extends the
	// open one to at least that). Only maintained when no cap is set.
	quietUntil int64
}

const opTimeout = 3 * time.Second

func (ex *exec) rec(s string, hook bool) {
	ex.lines = append(ex.lines, tline{s: s, hook: hook})
}

func (ex *exec) violate(id, what string) {
	for _, v := range ex.viol {
		if v.id == id {
			return
		}
	}
	ex.mu.Lock()
	from := len(ex.lines) - 14
	if from < 0 {
		from = 0
	}
	var tail []string
	for _, l := range ex.lines[from:] {
		tail = append(tail, l.s)
	}
	ex.mu.Unlock()
	what += " [goroutines: " + ex.lastSnap.key + "] [trace tail: " + strings.Join(tail, " | ") + "]"
	ex.viol = append(ex.viol, violation{id, what})
}

func (ex *exec) onHook(name string) {
	var tag string
	switch name {
	case "coalescing.inputHandled":
		tag = "hin"
	case "coalescing.timerHandled":
		tag = "htm"
	default:
		return
	}
	ex.mu.Lock()
	park := ex.parkNext
	ex.parkNext = false
	p := 0
	var rc chan struct{}
	if park {
		p = 1
		ex.parked = true
		ex.releaseCh = make(chan struct{})
		rc = ex.releaseCh
	}
	ex.rec(tag+" park="+strconv.Itoa(p), true)
	ex.hookSeq = append(ex.hookSeq, tag)
	ex.mu.Unlock()
	if rc != nil {
		<-rc
	}
}

func (ex *exec) guard(where string) {
	if r := recover(); r != nil {
		ex.mu.Lock()
		ex.panics = append(ex.panics, fmt.Sprintf("%s: %v", where, r))
		ex.mu.Unlock()
	}
}

// settle waits until every goroutine of the limiter is blocked (a goroutine dump is a consistent
// cut: with all of them blocked and the harness idle nothing can move any more).
func (ex *exec) settle() (snapshot, bool) {
	deadline := time.Now().Add(opTimeout)
	for i := 0; ; i++ {
		runtime.Gosched()
		// read the return counters BEFORE the dump: a caller that returns after the read is then
		// either still visible in the (later) dump or makes the equation fail, never a stale match
		ex.mu.Lock()
		cr, ci, rr, ri := ex.closeReturned, ex.closeIssued, ex.runReturned+ex.runErrReturned, ex.runIssued
		ex.mu.Unlock()
		snap := snapshotOf(dumpGoroutines(), ex.ignore)
		ok := snap.allBlocked && snap.Adders == 0 && snap.Closers+cr == ci && snap.Loop+rr == ri
		if ok {
			return snap, true
		}
		if time.Now().After(deadline) {
			return snap, false
		}
		if i > 50 {
			time.Sleep(20 * time.Microsecond)
		}
	}
}

func (ex *exec) drain(max int) int {
	n := 0
	for max < 0 || n < max {
		select {
		case <-ex.ch:
			ex.mu.Lock()
			ex.received++
			ex.recvTimes = append(ex.recvTimes, ex.clk.NowNs())
			ex.rec("recv t="+strconv.FormatInt(ex.clk.NowNs(), 10), false)
			ex.mu.Unlock()
			n++
			// the next sender (if any) must get a chance to park on the channel again
			if _, ok := ex.settle(); !ok {
				return n
			}
		default:
			return n
		}
	}
	return n
}

// quiesce = settle, let the consumer act, settle again, record the settle line. Returns false on a hang.
func (ex *exec) quiesce() bool {
	snap, ok := ex.settle()
	if !ok {
		ex.lastSnap = snap
		return false
	}
	if ex.c.Consumer == "prompt" {
		if ex.drain(-1) > 0 {
			snap, ok = ex.settle()
			if !ok {
				ex.lastSnap = snap
				return false
			}
		}
	}
	ex.lastSnap = snap
	act := ex.clk.Active()
	held := false
	for _, a := range act {
		if a.Held {
			held = true
		}
	}
	if len(act) > 1 {
		ex.violate("two-timers", fmt.Sprintf("%d timers active at a quiescent point: %+v", len(act), act))
	}
	if !held && len(act) <= 1 {
		tm := "none"
		if len(act) == 1 {
			tm = strconv.FormatInt(act[0].Deadline, 10)
		}
		ex.mu.Lock()
		ex.lines = append(ex.lines, tline{
			s:      fmt.Sprintf("settle tok=%d snd=%d loop=%d timer=%s", snap.Tokens, snap.Senders, snap.Loop, tm),
			parked: ex.parked,
		})
		ex.mu.Unlock()
	}
	return true
}

func activeDeadline(act []ActiveTimer) (int64, bool) {
	if len(act) == 1 {
		return act[0].Deadline, true
	}
	return 0, false
}

// resolve turns a relative clock move into an absolute target using the timer that is armed now.
func (ex *exec) resolve(op *Op) {
	if op.Res {
		return
	}
	now := ex.clk.NowNs()
	d, ok := activeDeadline(ex.clk.Active())
	switch {
	case !ok || d <= now:
		op.T = now + max64(1, ex.c.Initial/2)
		if op.Rel == "gap" {
			op.T = now + 3*ex.c.Max + 1
		}
	case op.Rel == "inside":
		op.T = now + (d-now)/2
	case op.Rel == "exact":
		op.T = d
	case op.Rel == "beyond":
		op.T = d + 1 + (d-now)/3
	default: // gap
		op.T = d + 3*ex.c.Max + 1
	}
	op.Res = true
}

func max64(a, b int64) int64 {
	if a > b {
		return a
	}
	return b
}

// step runs one operation, waits for quiescence and evaluates the monitors. false = stop the case.
func (ex *exec) step(op *Op) bool {
	preAct := ex.clk.Active()
	preNow := ex.clk.NowNs()
	preFires := ex.fires
	preTokens := ex.lastSnap.Tokens
	preParked := ex.parked
	preHi := ex.hi
	preLo := ex.lo
	nAdds := 0
	wasRunning := ex.running
	loopStarts := false
	ex.stats["op:"+op.K]++

	switch op.K {
	case "add":
		g := op.G
		if g < 1 {
			g = 1
		}
		var wg sync.WaitGroup
		per := make([]int, g)
		for i := 0; i < op.N; i++ {
			per[i%g]++
		}
		ex.addCalls += op.N
		nAdds = op.N
		for _, k := range per {
			if k == 0 {
				continue
			}
			wg.Add(1)
			go func(k int) {
				defer wg.Done()
				defer ex.guard("Add")
				for j := 0; j < k; j++ {
					ex.mu.Lock()
					ex.rec("addcall", false)
					ex.mu.Unlock()
					ex.rl.Add()
					ex.mu.Lock()
					ex.rec("addret", false)
					ex.mu.Unlock()
				}
			}(k)
		}
		done := make(chan struct{})
		go func() { wg.Wait(); close(done) }()
		select {
		case <-done:
		case <-time.After(opTimeout):
			ex.hung = "Add did not return"
			ex.violate("add-hangs", "Add() did not return within the deadline (blocked on c.lock)")
			return false
		}
	case "adv":
		ex.resolve(op)
		ex.mu.Lock()
		ex.rec("adv t="+strconv.FormatInt(op.T, 10), false)
		ex.clk.Set(op.T, op.Hold)
		ex.mu.Unlock()
		if op.Rel != "" {
			ex.stats["adv:"+op.Rel]++
		}
	case "flush":
		ex.clk.Flush()
	case "recv":
		ex.drain(op.N)
	case "park":
		ex.mu.Lock()
		ex.parkNext = true
		ex.mu.Unlock()
	case "release":
		ex.mu.Lock()
		if ex.parked {
			ex.rec("release", true)
			ex.parked = false
			close(ex.releaseCh)
		}
		ex.parkNext = false
		ex.mu.Unlock()
	case "close":
		ex.mu.Lock()
		ex.rec("closecall", false)
		ex.closeIssued++
		ex.running = false
		ex.everClosed = true
		ex.mu.Unlock()
		go func() {
			defer ex.guard("Close")
			ex.rl.Close()
			ex.mu.Lock()
			ex.rec("closeret", false)
			ex.closeReturned++
			if ex.closeRetAt < 0 {
				ex.closeRetAt = ex.received
			}
			ex.mu.Unlock()
		}()
	case "run":
		first := ex.runIssued == 0
		ex.callRun()
		if first && ex.running {
			wasRunning = true // the step in which the loop starts is judged like a running step
			loopStarts = true
		}
	case "cancel":
		ex.mu.Lock()
		ex.rec("cancel", false)
		ex.cancl()
		ex.running = false
		ex.cancelled = true
		ex.mu.Unlock()
	}

	if !ex.quiesce() {
		ex.hung = "not quiescent after " + op.K
		return false
	}
	ex.recvAfter = append(ex.recvAfter, len(ex.recvTimes))
	snap := ex.lastSnap
	now := ex.clk.NowNs()
	act := ex.clk.Active()
	held := false
	for _, a := range act {
		held = held || a.Held
	}

	// ---- monitors ----
	if ex.received+snap.Senders > ex.addCalls {
		ex.violate("signals-exceed-adds", fmt.Sprintf("%d signals received + %d being sent > %d Add calls", ex.received, snap.Senders, ex.addCalls))
	}
	if len(ex.panics) > 0 {
		ex.violate("panic", strings.Join(ex.panics, "; "))
	}
	ex.mu.Lock()
	cr, ci := ex.closeReturned, ex.closeIssued
	cra := ex.closeRetAt
	ex.mu.Unlock()
	if cr > 0 {
		if snap.Tokens+snap.Senders+snap.Loop > 0 {
			ex.violate("close-returned-helpers-alive", fmt.Sprintf("after Close returned: %d token, %d sender goroutines, run loop alive=%d (%s)", snap.Tokens, snap.Senders, snap.Loop, snap.key))
		}
		if ex.received > cra {
			ex.violate("signal-after-close", fmt.Sprintf("%d signals received after Close had returned", ex.received-cra))
		}
	}
	_ = ci

	if !wasRunning && ex.runIssued == 0 && !ex.everClosed && op.K == "add" {
		// Adds before Run: accepted, nothing can signal them yet
		ex.lo += nAdds
		ex.hi += nAdds
		if ex.received+snap.Senders > 0 {
			ex.violate("signal-without-add", "a signal although Run has not been called")
		}
	}
	if ex.lateNil > 0 {
		ex.violate("second-run-returned-nil", fmt.Sprintf("%d Run calls after the first returned nil instead of \"already running\"", ex.lateNil))
	}
	if ex.firstErr {
		ex.violate("first-run-rejected", "the first Run call returned \"already running\"")
	}
	if snap.Loop > 1 {
		ex.violate("second-run-started", fmt.Sprintf("%d goroutines are inside Run", snap.Loop))
	}
	if wasRunning && ex.running {
		ex.fires = ex.received + snap.Senders
		f := ex.fires - preFires
		b := 0
		if preHi > 0 {
			b = 1
		}
		if f > nAdds+b {
			ex.violate("signal-without-add", fmt.Sprintf("%d signals in a step with %d Adds and at most %d Adds pending before", f, nAdds, preHi))
		}
		if f == 0 {
			ex.lo += nAdds
			ex.hi += nAdds
		} else {
			ex.lo = 0
			ex.hi = nAdds - maxInt(0, f-b)
			if ex.hi < 0 {
				ex.hi = 0
			}
			if op.K != "add" {
				ex.hi = 0
			}
		}
		// history-based quiet window (does not read the limiter's timer): once an Add's token has been
		// handled at clock A (quiescent, loop not parked, no token left), that Add has either been
		// signalled as the first after idle and opened a window [A, A+initial], or it lies inside a
		// window whose end it moved to at least A+initial. With no cap nothing may be signalled while
		// the clock stays below A+initial — whatever the limiter did to its timer in between.
		if ex.c.Cap == 0 {
			if ex.quietUntil > 0 && preNow < ex.quietUntil && now < ex.quietUntil {
				ex.stats["mon:quiet-window"]++
				if f != 0 {
					ex.violate("signal-before-window-end", fmt.Sprintf("%d signal(s) at clock %d (step %q, %d Adds): the last Add before this step was handled by the run loop at clock %d, so a window is open until at least %d (initial delay %d), no cap is set",
						f, now, op.K, nAdds, ex.quietUntil-ex.c.Initial, ex.quietUntil, ex.c.Initial))
				}
			}
			if !ex.parked && !held && snap.Tokens == 0 && (nAdds > 0 || preTokens > 0) && now+ex.c.Initial > ex.quietUntil {
				ex.quietUntil = now + ex.c.Initial
			}
		}
		parkedNow := ex.parked || preParked
		if !parkedNow && !held {
			preD, preOpen := activeDeadline(preAct)
			// quiescent and running: nothing may be left for the loop to do
			for _, a := range act {
				if a.Deadline <= now {
					ex.violate("expiry-not-handled", fmt.Sprintf("quiescent at now=%d with a timer whose deadline %d has passed", now, a.Deadline))
				}
			}
			if snap.Tokens > 0 {
				ex.violate("token-not-taken", fmt.Sprintf("quiescent and running with %d token goroutines waiting", snap.Tokens))
			}
			if ex.lo > 0 && len(act) == 0 {
				ex.violate("add-lost", fmt.Sprintf("%d Adds have definitely not been signalled, the limiter is running and quiescent, and no timer is armed", ex.lo))
			}
			if ex.c.Cap > 0 && ex.lo >= ex.c.Cap {
				ex.violate("cap-not-fired", fmt.Sprintf("%d Adds definitely pending with MaxPendingEvents=%d", ex.lo, ex.c.Cap))
			}
			idleBefore := len(preAct) == 0 && preTokens == 0 && preHi == 0
			if op.K == "add" && idleBefore {
				ex.stats["mon:first-after-idle"]++
				if f < 1 {
					ex.violate("first-add-not-immediate", fmt.Sprintf("%d Adds in the idle state, no signal without a clock move", nAdds))
				}
			}
			if ex.c.Cap == 0 && preOpen && preD > now && preD > preNow {
				ex.stats["mon:inside-window"]++
				if f != 0 {
					ex.violate("signal-inside-window", fmt.Sprintf("%d signals while the window (deadline %d) stayed open at now=%d, no cap", f, preD, now))
				}
			}
			if loopStarts && preLo > 0 && f == 0 {
				ex.violate("add-lost", fmt.Sprintf("%d Adds were pending when Run started; no signal", preLo))
			}
			if op.K == "adv" && preOpen && preD <= now {
				ex.stats["mon:window-end"]++
				if preLo > 0 && f == 0 {
					ex.violate("deadline-missed", fmt.Sprintf("clock moved to %d ≥ window end %d with %d Adds definitely pending, no signal", now, preD, preLo))
				}
				if f > 1 {
					ex.violate("signal-without-add", fmt.Sprintf("%d signals at one window end", f))
				}
			}
		}
	}
	return true
}

func maxInt(a, b int) int {
	if a > b {
		return a
	}
	return b
}

// specTimeline is C09 restated as a function (independent of the model and of the limiter):
// no cap, prompt consumer, Run called first. State: clock, open window (end, extensions k),
// whether an Add waits. An Add without an open window is signalled at once and opens a window of
// the initial delay; an Add inside a window waits and moves the window's end to
// now + min(max, initial·2^(k+1)); when the clock reaches the end, one signal iff something waited.
type tlState struct {
	now     int64
	open    bool
	end     int64
	k       uint
	waiting bool
}

func (t *tlState) grow(initial, max int64, k uint) int64 {
	if k == 0 {
		return initial
	}
	if k < 62 && initial <= (max>>k) {
		if w := initial << k; w < max {
			return w
		}
	}
	return max
}

func (t *tlState) add(initial, max int64) []int64 {
	if !t.open {
		t.open, t.end, t.k, t.waiting = true, t.now+initial, 0, false
		return []int64{t.now}
	}
	t.k++
	t.end = t.now + t.grow(initial, max, t.k)
	t.waiting = true
	return nil
}

func (t *tlState) adv(to int64) []int64 {
	if to > t.now {
		t.now = to
	}
	if t.open && t.end <= t.now {
		w := t.waiting
		t.open, t.waiting = false, false
		if w {
			return []int64{t.now}
		}
	}
	return nil
}

// checkTimeline compares the observed receive times with specTimeline over the longest prefix of the
// executed ops that consists of single Adds and clock moves only.
func (ex *exec) checkTimeline() {
	c := ex.c
	if c.Cap != 0 || c.Consumer != "prompt" || c.LateRun || c.Initial >= 1<<53 {
		return
	}
	var st tlState
	var want []int64
	n := 0
	for i, op := range c.Ops {
		if i >= len(ex.recvAfter) {
			break
		}
		switch {
		case op.K == "add" && op.N == 1:
			want = append(want, st.add(c.Initial, c.Max)...)
		case op.K == "adv" && !op.Hold && op.Res:
			want = append(want, st.adv(op.T)...)
		case op.K == "recv":
		default:
			goto done
		}
		n = i + 1
	}
done:
	if n == 0 {
		return
	}
	got := ex.recvTimes
	if k := ex.recvAfter[n-1]; k < len(got) {
		got = got[:k]
	}
	ex.stats["mon:timeline-spec"]++
	ex.stats["mon:timeline-spec-signals"] += len(want)
	if fmt.Sprint(got) != fmt.Sprint(want) {
		ex.violate("timeline-spec-mismatch", fmt.Sprintf("signal times over the first %d ops: observed %v, the property's closed form gives %v", n, got, want))
	}
}

// checkWindows: NewTimer(initial), then Reset(min(max, initial·2^k)) for the k-th extension (initial < 2^53).
func (ex *exec) checkWindows() {
	if ex.c.Initial >= 1<<53 {
		return
	}
	k := map[int]int{}
	for _, tc := range ex.clk.LogCopy() {
		switch tc.Kind {
		case "new":
			k[tc.Timer] = 0
			if tc.D != ex.c.Initial {
				ex.violate("window-length-wrong", fmt.Sprintf("NewTimer(%d), initial delay is %d", tc.D, ex.c.Initial))
			}
		case "reset":
			k[tc.Timer]++
			want := ex.c.Max
			kk := k[tc.Timer]
			if kk < 62 && ex.c.Initial <= (ex.c.Max>>uint(kk)) {
				if w := ex.c.Initial << uint(kk); w < want {
					want = w
				}
			}
			if tc.D != want {
				ex.violate("window-length-wrong", fmt.Sprintf("extension %d of a window: Reset(%d), want min(max=%d, initial=%d·2^%d)=%d", kk, tc.D, ex.c.Max, ex.c.Initial, kk, want))
			}
			ex.stats["window-k:"+strconv.Itoa(minInt(kk, 8))]++
		}
	}
}

func minInt(a, b int) int {
	if a < b {
		return a
	}
	return b
}

type outcome struct {
	Case   Case
	Lines  []tline
	Viol   []violation
	Hung   string
	Stats  map[string]int
	HookSq []string
}

var leaked = map[int]bool{}

// callRun issues one Run call. The first call that is issued while the limiter is neither closed
// nor cancelled makes the limiter "running" for the monitors; every call after the first must
// return "already running".
func (ex *exec) callRun() {
	ex.mu.Lock()
	ex.rec("runcall", false)
	ex.runIssued++
	nth := ex.runIssued
	if nth == 1 && !ex.everClosed && !ex.cancelled {
		ex.running = true
	}
	ex.mu.Unlock()
	go func() {
		defer ex.guard("Run")
		err := ex.rl.Run(ex.ctx, ex.ch)
		ex.mu.Lock()
		switch {
		case err == nil:
			ex.rec("runret", false)
			ex.runReturned++
			if nth > 1 {
				ex.lateNil++
			}
		case err.Error() == "already running":
			ex.rec("runerr", false)
			ex.runErrReturned++
			if nth == 1 {
				ex.firstErr = true
			}
		default:
			ex.panics = append(ex.panics, "Run returned error: "+err.Error())
			ex.rec("runret", false)
			ex.runReturned++
		}
		ex.mu.Unlock()
	}()
}

// runCase executes c (ops are resolved in place; gen, when not nil, supplies further ops adaptively).
func runCase(c Case, gen func(ex *exec, i int) *Op) *outcome {
	ex := &exec{c: c, clk: NewVClock(), ch: make(chan struct{}), closeRetAt: -1, stats: map[string]int{}}
	ex.ignore = map[int]bool{}
	for id := range leaked {
		ex.ignore[id] = true
	}
	for _, g := range dumpGoroutines() {
		ex.ignore[g.ID] = true
		leaked[g.ID] = true
	}
	opts := ratelimiting.OptionsCoalescing{}
	ini, mx := time.Duration(c.Initial), time.Duration(c.Max)
	opts.InitialDelay, opts.MaxDelay = &ini, &mx
	if c.Cap > 0 {
		cp := c.Cap
		opts.MaxPendingEvents = &cp
	}
	rl, err := ratelimiting.NewCoalescing(opts)
	if err != nil {
		return &outcome{Case: c, Viol: []violation{{"harness-bad-config", err.Error()}}, Stats: ex.stats}
	}
	rl.(ratelimiting.RateLimiterWithTicker).WithTicker(ex.clk)
	ex.rl = rl
	ctx, cancel := context.WithCancel(context.Background())
	ex.cancl = cancel
	verifhook.Set(func(name string, _ ...any) { ex.onHook(name) })
	defer verifhook.Set(nil)

	ex.ctx = ctx
	if !c.LateRun {
		ex.callRun()
	}
	ok := ex.quiesce()
	var ops []Op
	for i := 0; ok; i++ {
		var op *Op
		if i < len(c.Ops) {
			o := c.Ops[i]
			op = &o
		} else if gen != nil {
			op = gen(ex, i)
		}
		if op == nil {
			break
		}
		ok = ex.step(op)
		ops = append(ops, *op)
	}
	ex.c.Ops = ops
	// ---- epilogue: release, flush, Close; everything must come to rest with no helper left ----
	if ok {
		for _, k := range []string{"release", "flush"} {
			o := Op{K: k}
			if ok = ex.step(&o); !ok {
				break
			}
		}
	}
	if ok {
		if ex.closeIssued == 0 {
			o := Op{K: "close"}
			ok = ex.step(&o)
		}
	}
	if ok {
		ex.mu.Lock()
		cr, ci, rr, ri := ex.closeReturned, ex.closeIssued, ex.runReturned+ex.runErrReturned, ex.runIssued
		ex.mu.Unlock()
		if cr < ci {
			ex.violate("close-hangs", fmt.Sprintf("%d of %d Close calls have not returned although every goroutine of the limiter is blocked (%s)", ci-cr, ci, ex.lastSnap.key))
			ex.hung = "Close"
		}
		if rr < ri {
			ex.violate("run-hangs", fmt.Sprintf("%d of %d Run calls have not returned after Close although every goroutine is blocked (%s)", ri-rr, ri, ex.lastSnap.key))
			ex.hung = "Run"
		}
		ex.mu.Lock()
		ex.rec("end", false)
		ex.mu.Unlock()
	} else {
		if ex.hung == "" {
			ex.hung = "settle timeout"
		}
		if len(ex.viol) == 0 {
			ex.violate("not-quiescent", "the limiter did not come to rest within the deadline: "+ex.hung+" ("+ex.lastSnap.key+")")
		}
	}
	if ex.hung != "" {
		// best effort: unwedge what can be unwedged, remember the goroutines that stay behind
		ex.mu.Lock()
		if ex.parked {
			ex.parked = false
			close(ex.releaseCh)
		}
		ex.mu.Unlock()
		cancel()
		time.Sleep(2 * time.Millisecond)
		for _, g := range dumpGoroutines() {
			leaked[g.ID] = true
		}
	}
	cancel()
	ex.checkWindows()
	if ex.hung == "" {
		ex.checkTimeline()
	}
	if len(ex.panics) > 0 {
		ex.violate("panic", strings.Join(ex.panics, "; "))
	}
	ex.mu.Lock()
	defer ex.mu.Unlock()
	return &outcome{Case: ex.c, Lines: append([]tline(nil), ex.lines...), Viol: ex.viol, Hung: ex.hung, Stats: ex.stats, HookSq: ex.hookSeq}
}

// ---------------------------------------------------------------------------------------------
// generators

var initials = []int64{2, 3, 4, 5, 8, 10, 100, 1000, 500_000_000}
var factors = []int64{1, 1, 2, 3, 4, 7, 8, 10, 64, 1000}

func randCfg(r *lib.Rand, fam string) Case {
	ini := initials[r.Intn(len(initials))]
	c := Case{Family: fam, Initial: ini, Max: ini * factors[r.Intn(len(factors))], Cap: r.Intn(5), Consumer: "prompt"}
	if r.Intn(3) == 0 {
		c.Consumer = "slow"
	}
	return c
}

func randOp(r *lib.Rand, ex *exec) *Op {
	if r.Intn(25) == 0 {
		return &Op{K: "run"}
	}
	switch x := r.Intn(100); {
	case x < 40:
		return &Op{K: "add", N: 1 + r.Intn(5), G: 1 + r.Intn(3)}
	case x < 50:
		return &Op{K: "add", N: 1, G: 1}
	case x < 62:
		return &Op{K: "adv", Rel: "inside"}
	case x < 74:
		return &Op{K: "adv", Rel: "exact"}
	case x < 84:
		return &Op{K: "adv", Rel: "beyond"}
	case x < 90:
		return &Op{K: "adv", Rel: "gap"}
	default:
		return &Op{K: "recv", N: 1 + r.Intn(3)}
	}
}

// timeline: random walk, ended by Close or cancel at a random point, sometimes with operations after it.
func genTimeline(r *lib.Rand) (Case, func(*exec, int) *Op) {
	c := randCfg(r, "timeline")
	c.LateRun = r.Intn(6) == 0
	n := 4 + r.Intn(22)
	endAt := n
	endKind := ""
	if r.Intn(2) == 0 {
		endAt = r.Intn(n)
		endKind = []string{"close", "cancel"}[r.Intn(2)]
	}
	return c, func(ex *exec, i int) *Op {
		if i >= n {
			return nil
		}
		if i == endAt && endKind != "" {
			return &Op{K: endKind}
		}
		return randOp(r, ex)
	}
}

// specline: single Adds and clock moves only, no cap, prompt consumer — the whole case is compared
// with the property's closed form (checkTimeline).
func genSpecline(r *lib.Rand) (Case, func(*exec, int) *Op) {
	c := randCfg(r, "specline")
	c.Cap, c.Consumer = 0, "prompt"
	n := 8 + r.Intn(40)
	return c, func(ex *exec, i int) *Op {
		if i >= n {
			return nil
		}
		switch x := r.Intn(100); {
		case x < 50:
			return &Op{K: "add", N: 1, G: 1}
		case x < 68:
			return &Op{K: "adv", Rel: "inside"}
		case x < 84:
			return &Op{K: "adv", Rel: "exact"}
		case x < 94:
			return &Op{K: "adv", Rel: "beyond"}
		default:
			return &Op{K: "adv", Rel: "gap"}
		}
	}
}

// forced: park the loop at a hook, run operations against the parked loop, release.
func genForced(r *lib.Rand) (Case, func(*exec, int) *Op) {
	c := randCfg(r, "forced")
	var script []Op
	pre := r.Intn(3)
	for i := 0; i < pre; i++ {
		script = append(script, *randOp(r, nil))
	}
	// get the loop parked: at inputHandled (after an Add) or at timerHandled (after an expiry)
	if r.Intn(3) == 0 {
		script = append(script, Op{K: "add", N: 1, G: 1}, Op{K: "park"}, Op{K: "adv", Rel: "exact"})
	} else {
		script = append(script, Op{K: "park"}, Op{K: "add", N: 1 + r.Intn(2), G: 1})
	}
	m := 1 + r.Intn(4)
	for i := 0; i < m; i++ {
		switch x := r.Intn(10); {
		case x < 4:
			script = append(script, Op{K: "add", N: 1 + r.Intn(3), G: 1 + r.Intn(2)})
		case x < 6:
			script = append(script, Op{K: "adv", Rel: []string{"inside", "exact", "beyond"}[r.Intn(3)]})
		case x < 7:
			script = append(script, Op{K: "close"})
		case x < 8:
			script = append(script, Op{K: "run"})
		case x < 9:
			script = append(script, Op{K: "cancel"})
		default:
			script = append(script, Op{K: "recv", N: 1})
		}
	}
	script = append(script, Op{K: "release"})
	post := r.Intn(4)
	for i := 0; i < post; i++ {
		script = append(script, *randOp(r, nil))
	}
	c.Ops = script
	return c, nil
}

// race: "deadline reached and token pending" with the loop parked, then released: the select sees both.
func genRace(r *lib.Rand, hold bool) (Case, func(*exec, int) *Op) {
	c := randCfg(r, "race")
	if hold {
		c.Family = "race-hold"
		// the expiry's send is kept back: the token is handled first although the deadline has passed
		c.Ops = []Op{{K: "add", N: 1, G: 1}, {K: "add", N: 1, G: 1}, {K: "adv", Rel: []string{"exact", "beyond"}[r.Intn(2)], Hold: true},
			{K: "add", N: 1 + r.Intn(2), G: 1}, {K: "flush"}, {K: "adv", Rel: "inside"}, {K: "adv", Rel: "exact"}, {K: "add", N: 1, G: 1}, {K: "adv", Rel: "gap"}}
		return c, nil
	}
	c.Ops = []Op{{K: "park"}, {K: "add", N: 1, G: 1}, {K: "add", N: 1 + r.Intn(2), G: 1}, {K: "adv", Rel: []string{"exact", "beyond"}[r.Intn(2)]},
		{K: "release"}, {K: "adv", Rel: "inside"}, {K: "adv", Rel: "exact"}, {K: "add", N: 1, G: 1}, {K: "adv", Rel: "gap"}}
	return c, nil
}

// stale-expiry: the window's timer HAS expired (Stop() will report false) but the run loop has not
// consumed the expiry when the next Add's token is handled; then further Adds at the same instant,
// inside the re-armed window, exactly at and beyond its end. Two ways of getting there:
//   hold: the expiry's channel send is kept back until the limiter's Stop/Reset (token-first forced);
//   park: the loop stands at a hook while the clock reaches the deadline, the expiry sits in the
//         timer's 1-slot channel (what a k8s FakeClock timer does) and the select picks either.
// pre = Adds inside the first window before the expiry (0: the expired window is the initial one,
// nothing pending; k: the k-th doubled window with Adds pending).
func genStale(r *lib.Rand, hold bool) (Case, func(*exec, int) *Op) {
	c := randCfg(r, "stale-expiry")
	if r.Intn(3) != 0 {
		c.Cap = 0
	}
	pre := r.Intn(3)
	rel := []string{"exact", "beyond"}[r.Intn(2)]
	one := Op{K: "add", N: 1, G: 1}
	var ops []Op
	if hold {
		ops = append(ops, one)
		for i := 0; i < pre; i++ {
			ops = append(ops, one)
		}
		ops = append(ops, Op{K: "adv", Rel: rel, Hold: true}, Op{K: "add", N: 1 + r.Intn(2), G: 1})
	} else {
		if pre == 0 {
			ops = append(ops, Op{K: "park"}, one)
		} else {
			ops = append(ops, one)
			for i := 1; i < pre; i++ {
				ops = append(ops, one)
			}
			ops = append(ops, Op{K: "park"}, one)
		}
		ops = append(ops, Op{K: "add", N: 1 + r.Intn(2), G: 1}, Op{K: "adv", Rel: rel}, Op{K: "release"})
	}
	// the same instant: the window has just been re-armed (or opened by the late token)
	switch r.Intn(4) {
	case 0:
		ops = append(ops, one)
	case 1:
		ops = append(ops, one, one)
	case 2:
		ops = append(ops, Op{K: "add", N: 2, G: 2})
	default:
		ops = append(ops, Op{K: "adv", Rel: "inside"}, one)
	}
	ops = append(ops, Op{K: "adv", Rel: "inside"}, one, Op{K: "adv", Rel: []string{"exact", "beyond"}[r.Intn(2)]}, one, Op{K: "adv", Rel: "gap"})
	c.Ops = ops
	return c, nil
}

// closeAtHook: Close (or cancel) lands exactly while the loop is between a handler and its select.
func genCloseAtHook(r *lib.Rand, viaTimer bool, kind string) Case {
	c := randCfg(r, "close-at-hook")
	if viaTimer {
		c.Ops = []Op{{K: "add", N: 1, G: 1}, {K: "park"}, {K: "adv", Rel: "exact"}, {K: kind}, {K: "release"}}
	} else {
		c.Ops = []Op{{K: "park"}, {K: "add", N: 1 + r.Intn(3), G: 1}, {K: kind}, {K: "release"}}
	}
	return c
}

// big: durations near the int64/float64 limits (back-off arithmetic), no clock moves beyond the window.
func genBig(r *lib.Rand) (Case, func(*exec, int) *Op) {
	c := Case{Family: "big", Consumer: "prompt", Cap: 0}
	switch r.Intn(4) {
	case 0:
		c.Initial = int64(1)<<53 + int64(r.Intn(1000)) - 500
	case 1:
		c.Initial = int64(r.U64()>>3) | int64(1)<<52
	case 2:
		c.Initial = int64(1)<<uint(20+r.Intn(41)) + int64(r.Intn(3)) - 1
	default:
		c.Initial = int64(r.U64() >> uint(3+r.Intn(30)))
	}
	if c.Initial < 1 {
		c.Initial = 1
	}
	const lim = int64(1)<<62 - 257
	if c.Initial > lim {
		c.Initial = lim
	}
	switch r.Intn(3) {
	case 0:
		c.Max = lim
	case 1:
		c.Max = c.Initial + int64(r.U64()>>2)%(lim-c.Initial+1)
	default:
		c.Max = c.Initial
		for i := r.Intn(8); i > 0 && c.Max < lim/2; i-- {
			c.Max *= 2
		}
		if r.Bool() && c.Max < lim {
			c.Max++
		}
	}
	n := 3 + r.Intn(66)
	for i := 0; i < n; i++ {
		c.Ops = append(c.Ops, Op{K: "add", N: 1, G: 1})
	}
	return c, nil
}

// exhaustive small scope: every sequence over the alphabet up to the given length.
var alphabet = []Op{
	{K: "add", N: 1, G: 1}, {K: "add", N: 2, G: 2}, {K: "adv", Rel: "inside"}, {K: "adv", Rel: "exact"},
	{K: "adv", Rel: "beyond"}, {K: "close"}, {K: "cancel"}, {K: "run"},
}

func enumerate(maxLen int, f func([]Op)) {
	var rec func(cur []Op)
	rec = func(cur []Op) {
		if len(cur) > 0 {
			f(cur)
		}
		if len(cur) == maxLen {
			return
		}
		for _, o := range alphabet {
			// nothing interesting happens after both Close and cancel
			nc := 0
			for _, p := range cur {
				if p.K == "close" || p.K == "cancel" {
					nc++
				}
			}
			if nc >= 1 && (o.K == "close" || o.K == "cancel") {
				continue
			}
			rec(append(append([]Op(nil), cur...), o))
		}
	}
	rec(nil)
}

// ---------------------------------------------------------------------------------------------
// model side

type checker struct {
	drv    *lib.Drv // used for the f64 differential (main goroutine only)
	res    *lib.Result
	jobs   chan *outcome
	wg     sync.WaitGroup
	traces int64
}

// startWorkers launches n model drivers that check traces while the harness executes the next cases.
func (ck *checker) startWorkers(path string, n int) {
	ck.jobs = make(chan *outcome, 256)
	for i := 0; i < n; i++ {
		d, err := lib.StartDrv(path, "C09")
		if err != nil || d == nil {
			continue
		}
		ck.wg.Add(1)
		go func(d *lib.Drv) {
			defer ck.wg.Done()
			defer d.Close()
			for o := range ck.jobs {
				ck.checkWith(d, o)
			}
		}(d)
	}
}

func (ck *checker) finish() {
	if ck.jobs != nil {
		close(ck.jobs)
		ck.wg.Wait()
		ck.jobs = nil
	}
	ck.res.Traces = int(atomic.LoadInt64(&ck.traces))
}

func traceLines(o *outcome, hooks bool) []string {
	h := 0
	if hooks {
		h = 1
	}
	out := []string{fmt.Sprintf("begin initial=%d max=%d cap=%d hooks=%d", o.Case.Initial, o.Case.Max, o.Case.Cap, h)}
	parkedRegion := false
	for _, l := range o.Lines {
		if !hooks {
			if l.hook {
				if strings.HasSuffix(l.s, "park=1") {
					parkedRegion = true
				}
				if l.s == "release" {
					parkedRegion = false
				}
				continue
			}
			if strings.HasPrefix(l.s, "settle") && (l.parked || parkedRegion) {
				continue
			}
		}
		out = append(out, l.s)
	}
	if out[len(out)-1] != "end" {
		out = append(out, "end")
	}
	return out
}

func (ck *checker) check(o *outcome) {
	if ck.drv == nil {
		return
	}
	if ck.jobs != nil {
		ck.jobs <- o
		return
	}
	ck.checkWith(ck.drv, o)
}

func (ck *checker) checkWith(drv *lib.Drv, o *outcome) {
	hasPark := false
	for _, l := range o.Lines {
		if l.hook && strings.HasSuffix(l.s, "park=1") {
			hasPark = true
		}
	}
	for _, hooks := range []bool{true, false} {
		if !hooks && hasPark {
			// without the hook events the model cannot know that the loop stood still while the
			// harness acted; the projection of such a trace is accepted a fortiori but its state set
			// explodes — the hook-level check above is the precise one
			ck.res.Hit("model:projection-skipped(parked)")
			continue
		}
		ls := traceLines(o, hooks)
		t0 := time.Now()
		ans, err := drv.AskBatch(ls)
		if el := time.Since(t0); el > 100*time.Millisecond {
			ck.res.Hit("model:slow-trace(>100ms)")
			if os.Getenv("C09_SLOW") != "" {
				fmt.Fprintf(os.Stderr, "slow trace %v hooks=%v %s\n", el, hooks, o.Case.key())
			}
		}
		if err != nil {
			ck.res.Disagree("trace-inclusion", o.Case, "driver error: "+err.Error(), "")
			return
		}
		for i, a := range ans {
			if strings.HasPrefix(a, "ok") {
				continue
			}
			from := i - 12
			if from < 0 {
				from = 0
			}
			name := "trace-inclusion(hooks+API events)"
			if !hooks {
				name = "trace-inclusion(API events)"
			}
			ck.res.Disagree(name, o.Case, a, fmt.Sprintf("event %d of %d; trace tail: %s", i, len(ls), strings.Join(ls[from:i+1], " | ")))
			break
		}
		atomic.AddInt64(&ck.traces, 1)
	}
}

// ---------------------------------------------------------------------------------------------

func nontrivial(o *outcome) bool {
	// rule: the run loop handled at least one token inside an open window or one expiry, or the case
	// contains a forced schedule / Close / cancel before the end
	for _, l := range o.Lines {
		if strings.HasPrefix(l.s, "htm") || strings.HasSuffix(l.s, "park=1") {
			return true
		}
	}
	n := 0
	for _, l := range o.Lines {
		if strings.HasPrefix(l.s, "hin") {
			n++
		}
	}
	return n >= 2
}

func report(res *lib.Result, ck *checker, o *outcome) {
	res.Count(o.Case.key(), nontrivial(o))
	res.Hit("family:" + o.Case.Family)
	res.Hit("cap:" + strconv.Itoa(o.Case.Cap))
	res.Hit("consumer:" + o.Case.Consumer)
	if o.Case.LateRun {
		res.Hit("cfg:late-run")
	}
	for _, l := range o.Lines {
		if l.s == "runerr" {
			res.Hit("run:already-running")
		}
	}
	if o.Case.Initial == o.Case.Max {
		res.Hit("cfg:initial=max")
	} else {
		res.Hit("cfg:initial<max")
	}
	for k, v := range o.Stats {
		for i := 0; i < v; i++ {
			res.Hit(k)
		}
	}
	nl := len(o.Lines)
	switch {
	case nl < 20:
		res.Hit("trace-events:<20")
	case nl < 60:
		res.Hit("trace-events:20-59")
	default:
		res.Hit("trace-events:60+")
	}
	if o.Hung != "" {
		res.Hit("outcome:hang")
	}
	for _, v := range o.Viol {
		res.Violate(v.id, v.what, o.Case)
	}
	if len(o.Viol) == 0 && o.Hung == "" {
		ck.check(o)
	}
}

// raceOrder: which hook came first after the release in a race case.
func raceOrder(o *outcome) string {
	seen := false
	for _, l := range o.Lines {
		if l.s == "release" {
			seen = true
			continue
		}
		if seen && strings.HasPrefix(l.s, "htm") {
			return "timer-first"
		}
		if seen && strings.HasPrefix(l.s, "hin") {
			return "token-first"
		}
	}
	return "none"
}

func f64Differential(res *lib.Result, ck *checker, r *lib.Rand, n int) {
	if ck.drv == nil {
		return
	}
	var vals []uint64
	for _, b := range []uint{52, 53, 54, 55, 60, 61, 62, 63} {
		for d := -3; d <= 3; d++ {
			v := (uint64(1) << b) + uint64(int64(d))
			if v < 1<<63 {
				vals = append(vals, v)
			}
		}
	}
	vals = append(vals, 1<<62-257, 1<<62-256, 1<<62-255, 1<<62-2, 1<<62-1, 1<<63-1, 1<<63-512, 1<<63-513, 0, 1, 2, 3)
	for i := 0; i < n; i++ {
		v := r.U64() >> uint(1+r.Intn(12))
		switch r.Intn(4) {
		case 0: // exactly halfway between two representable values
			sh := uint(1 + r.Intn(10))
			v = (v>>sh)<<sh | 1<<(sh-1)
		case 1:
			sh := uint(1 + r.Intn(10))
			v = (v>>sh)<<sh | 1<<(sh-1) | 1
		}
		vals = append(vals, v&(1<<63-1))
	}
	lines := make([]string, len(vals))
	for i, v := range vals {
		lines[i] = "f64 n=" + strconv.FormatUint(v, 10)
	}
	ans, err := ck.drv.AskBatch(lines)
	if err != nil {
		res.Disagree("f64OfNat", nil, err.Error(), "")
		return
	}
	for i, v := range vals {
		want := "f64 v=" + strconv.FormatUint(uint64(float64(int64(v))), 10)
		res.Count("f64:"+strconv.FormatUint(v, 10), false)
		res.Hit("f64:checked")
		if ans[i] != want {
			res.Disagree("f64OfNat = float64(int64)", v, ans[i], want)
		}
	}
}

func main() {
	fl := lib.ParseFlags()
	if pf := os.Getenv("C09_CPUPROFILE"); pf != "" {
		if f, err := os.Create(pf); err == nil {
			pprof.StartCPUProfile(f)
			defer pprof.StopCPUProfile()
		}
	}
	debug.SetGCPercent(400)
	res := lib.NewResult("a case is non-trivial when the run loop handled an expiry, or ≥ 2 tokens, or was parked at a hook by the harness (distinct = distinct executed op list incl. resolved clock targets and configuration)")
	drv, err := lib.StartDrv(fl.Drv, "C09")
	if err != nil {
		fmt.Fprintln(os.Stderr, "c09: cannot start model driver:", err)
		drv = nil
	}
	defer drv.Close()
	ck := &checker{drv: drv, res: res}
	if drv == nil {
		res.Note("model driver unavailable: monitors only")
	}

	if fl.Replay != "" {
		b, err := os.ReadFile(fl.Replay)
		if err != nil {
			fmt.Fprintln(os.Stderr, "c09: replay:", err)
			os.Exit(3)
		}
		var rp struct {
			Case Case `json:"case"`
		}
		var gp struct {
			Case gateCase `json:"case"`
		}
		if json.Unmarshal(b, &gp) == nil && gp.Case.Family == "clock-gate" {
			for i := 0; i < 5; i++ {
				gcase := gp.Case
				runClockGateCase(res, &gcase)
			}
			ck.finish()
			res.Write(fl.Out)
			return
		}
		if err := json.Unmarshal(b, &rp); err != nil || reflect.DeepEqual(rp.Case, Case{}) {
			fmt.Fprintln(os.Stderr, "c09: replay file has no case:", err)
			os.Exit(3)
		}
		n := 1
		if v, err := strconv.Atoi(os.Getenv("C09_REPEAT")); err == nil && v > 0 {
			n = v
		} else if rp.Case.Family == "race" || rp.Case.Family == "stale-expiry" {
			n = 40 // the select's choice is the runtime's: repeat
		}
		for i := 0; i < n; i++ {
			o := runCase(rp.Case, nil)
			report(res, ck, o)
			res.Sample(map[string]any{"case": o.Case, "trace": plain(o.Lines), "violations": o.Viol})
		}
		ck.finish()
		res.Write(fl.Out)
		return
	}

	r := lib.NewRand(fl.Seed*0x9e3779b97f4a7c15 + 0xc09)
	mult := 1
	if fl.Tier == "thorough" {
		mult = 8
	}
	if fl.Search {
		mult *= 6
	}
	start := time.Now()
	if drv != nil {
		ck.startWorkers(fl.Drv, 6)
	}

	// 0. corpus: minimised past findings, run first
	if vd := os.Getenv("VERIF_DIR"); vd != "" {
		files, _ := filepath.Glob(filepath.Join(vd, "corpus", "C09", "*.json"))
		sort.Strings(files)
		for _, f := range files {
			b, err := os.ReadFile(f)
			if err != nil {
				continue
			}
			var rp struct {
				Case Case `json:"case"`
			}
			if json.Unmarshal(b, &rp) != nil || len(rp.Case.Ops) == 0 {
				res.Note("corpus file unreadable: " + f)
				continue
			}
			report(res, ck, runCase(rp.Case, nil))
		}
	}
	// 1. Close / cancel landing between a handler and the select (every combination, several configurations)
	for rep := 0; rep < 6*mult; rep++ {
		for _, viaTimer := range []bool{false, true} {
			for _, kind := range []string{"close", "cancel"} {
				report(res, ck, runCase(genCloseAtHook(r, viaTimer, kind), nil))
			}
		}
	}
	// 2. exhaustive small scope
	maxLen := 4
	if fl.Tier == "thorough" {
		maxLen = 5
	}
	cfgs := []Case{
		{Family: "exhaustive", Initial: 4, Max: 16, Cap: 0, Consumer: "prompt"},
		{Family: "exhaustive", Initial: 4, Max: 4, Cap: 2, Consumer: "slow"},
		{Family: "exhaustive", Initial: 3, Max: 7, Cap: 1, Consumer: "prompt"},
		{Family: "exhaustive", Initial: 4, Max: 16, Cap: 2, Consumer: "prompt", LateRun: true},
	}
	if fl.Tier == "thorough" {
		cfgs = append(cfgs, Case{Family: "exhaustive", Initial: 4, Max: 16, Cap: 3, Consumer: "slow"},
			Case{Family: "exhaustive", Initial: 2, Max: 1000, Cap: 4, Consumer: "prompt"})
	}
	for _, cfg := range cfgs {
		enumerate(maxLen, func(ops []Op) {
			c := cfg
			c.Ops = append([]Op(nil), ops...)
			report(res, ck, runCase(c, nil))
		})
	}
	res.Exhaustive = false
	res.Note(fmt.Sprintf("exhaustive small scope: every op sequence of length ≤ %d over {add, add×2 from 2 goroutines, advance inside/exactly at/beyond the window end, Close, cancel, Run (a further call, or the first one when Run is not called at the start)} for %d configurations", maxLen, len(cfgs)))
	// 3. seeded timelines
	for i := 0; i < 500*mult; i++ {
		c, g := genTimeline(r)
		o := runCase(c, g)
		report(res, ck, o)
		if i < 3 {
			res.Sample(map[string]any{"case": o.Case, "trace": plain(o.Lines)})
		}
	}
	// 3b. timelines compared as a whole with the property's closed form
	for i := 0; i < 250*mult; i++ {
		c, g := genSpecline(r)
		o := runCase(c, g)
		report(res, ck, o)
		if i < 1 {
			res.Sample(map[string]any{"case": o.Case, "trace": plain(o.Lines)})
		}
	}
	// 4. forced schedules at the two hook points
	for i := 0; i < 300*mult; i++ {
		c, g := genForced(r)
		o := runCase(c, g)
		report(res, ck, o)
		if i < 2 {
			res.Sample(map[string]any{"case": o.Case, "trace": plain(o.Lines)})
		}
	}
	// 5. race "deadline reached and token pending": until both orders have been seen (the runtime picks)
	seen := map[string]int{}
	for i := 0; i < 60*mult || (i < 4000 && (seen["timer-first"] == 0 || seen["token-first"] == 0)); i++ {
		c, g := genRace(r, false)
		o := runCase(c, g)
		ord := raceOrder(o)
		seen[ord]++
		res.Hit("race:" + ord)
		report(res, ck, o)
		if i < 1 {
			res.Sample(map[string]any{"case": o.Case, "trace": plain(o.Lines), "order": ord})
		}
	}
	if seen["timer-first"] == 0 || seen["token-first"] == 0 {
		res.Note(fmt.Sprintf("race family did not see both orders: %v", seen))
	}
	for i := 0; i < 60*mult; i++ {
		c, g := genRace(r, true)
		o := runCase(c, g)
		res.Hit("race:token-first-deadline-passed(held expiry)")
		report(res, ck, o)
		if i < 1 {
			res.Sample(map[string]any{"case": o.Case, "trace": plain(o.Lines)})
		}
	}
	// 5b. stale expiry: timer expired but not consumed when the next token is handled, then Adds at the same instant
	rs := lib.NewRand(fl.Seed*0x9e3779b97f4a7c15 + 0x57a1e)
	for i := 0; i < 120*mult; i++ {
		c, g := genStale(rs, i%2 == 0)
		o := runCase(c, g)
		if i%2 == 0 {
			res.Hit("stale-expiry:held")
		} else {
			res.Hit("stale-expiry:in-channel:" + raceOrder(o))
		}
		report(res, ck, o)
		if i < 2 {
			res.Sample(map[string]any{"case": o.Case, "trace": plain(o.Lines)})
		}
	}
	// 6. big durations (float64/int64 arithmetic of the back-off)
	for i := 0; i < 150*mult; i++ {
		c, g := genBig(r)
		report(res, ck, runCase(c, g))
	}
	f64Differential(res, ck, r, 2000*mult)
	runClockGateFamily(res, lib.NewRand(fl.Seed^0x6a7e), 80*mult)
	ck.finish()
	res.Note(fmt.Sprintf("wall %.1fs", time.Since(start).Seconds()))
	res.Write(fl.Out)
}

func plain(ls []tline) []string {
	out := make([]string, len(ls))
	for i, l := range ls {
		out[i] = l.s
	}
	return out
}
