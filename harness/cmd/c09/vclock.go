package main

import (
	"sync"
	"time"

	"k8s.io/utils/clock"
)

// VClock is a deterministic clock.WithTicker. Time only moves when the harness calls Set.
// A timer fires (one value into its 1-slot channel) as soon as now >= deadline — immediately when
// created or reset with d <= 0 (the k8s fake waits for the next Step in that case).
//
// Hold mode: Set(t, hold=true) marks the timers whose deadline was reached as expired (Stop/Reset
// report "not active") but keeps the channel send back until Flush or until Stop/Reset is called
// on the timer — the situation of a runtime timer that has expired while its send has not been
// observed yet. It lets the harness force "a token is handled although the deadline has passed".
type VClock struct {
	mu     sync.Mutex
	now    int64 // ns since base
	timers []*vtimer
	// log of NewTimer / Reset durations per timer, for the window-growth monitor
	Log []TimerCall
	// gate: one-shot schedule point inside a clock call (clockgate.go)
	gate *clockGate
}

type TimerCall struct {
	Timer int    // index of the timer (creation order)
	Kind  string // "new" | "reset" | "stop"
	D     int64  // duration argument (new/reset)
	At    int64  // clock value
	Was   bool   // return value of Stop/Reset
}

var base = time.Unix(1_700_000_000, 0)

type vtimer struct {
	c        *VClock
	idx      int
	ch       chan time.Time
	armed    bool
	deadline int64
	held     bool // expired, send kept back (hold mode)
	firedAt  int64
}

var _ clock.WithTicker = (*VClock)(nil)

func NewVClock() *VClock { return &VClock{} }

func (c *VClock) Now() time.Time {
	c.mu.Lock()
	defer c.mu.Unlock()
	return base.Add(time.Duration(c.now))
}
func (c *VClock) NowNs() int64 {
	c.mu.Lock()
	defer c.mu.Unlock()
	return c.now
}
func (c *VClock) Since(t time.Time) time.Duration { return c.Now().Sub(t) }

func (c *VClock) NewTimer(d time.Duration) clock.Timer {
	c.atGate("new")
	c.mu.Lock()
	defer c.mu.Unlock()
	t := &vtimer{c: c, idx: len(c.timers), ch: make(chan time.Time, 1)}
	c.timers = append(c.timers, t)
	c.Log = append(c.Log, TimerCall{Timer: t.idx, Kind: "new", D: int64(d), At: c.now})
	t.arm(int64(d))
	return t
}

// arm is called with c.mu held.
func (t *vtimer) arm(d int64) {
	t.deadline = t.c.now + d
	t.armed = true
	t.held = false
	if t.deadline <= t.c.now {
		t.fire(false)
	}
}

func (t *vtimer) fire(hold bool) {
	t.armed = false
	t.firedAt = t.c.now
	if hold {
		t.held = true
		return
	}
	select {
	case t.ch <- base.Add(time.Duration(t.c.now)):
	default:
	}
}

func (t *vtimer) release() {
	if t.held {
		t.held = false
		select {
		case t.ch <- base.Add(time.Duration(t.firedAt)):
		default:
		}
	}
}

func (t *vtimer) C() <-chan time.Time { return t.ch }

func (t *vtimer) Stop() bool {
	t.c.atGate("stop")
	t.c.mu.Lock()
	defer t.c.mu.Unlock()
	was := t.armed
	t.armed = false
	t.release()
	t.c.Log = append(t.c.Log, TimerCall{Timer: t.idx, Kind: "stop", At: t.c.now, Was: was})
	return was
}

func (t *vtimer) Reset(d time.Duration) bool {
	t.c.atGate("reset")
	t.c.mu.Lock()
	defer t.c.mu.Unlock()
	was := t.armed
	t.release()
	t.c.Log = append(t.c.Log, TimerCall{Timer: t.idx, Kind: "reset", D: int64(d), At: t.c.now, Was: was})
	t.arm(int64(d))
	return was
}

// Set moves the clock to t (>= now) and fires what is due.
func (c *VClock) Set(t int64, hold bool) {
	c.mu.Lock()
	defer c.mu.Unlock()
	if t > c.now {
		c.now = t
	}
	for _, tm := range c.timers {
		if tm.armed && tm.deadline <= c.now {
			tm.fire(hold)
		}
	}
}

// Flush delivers every held expiry.
func (c *VClock) Flush() {
	c.mu.Lock()
	defer c.mu.Unlock()
	for _, tm := range c.timers {
		tm.release()
	}
}

// Active describes the timers that are armed or have fired without having been drained/stopped.
type ActiveTimer struct {
	Deadline int64
	Armed    bool // false: expired, value waiting in the channel (or held)
	Held     bool
}

func (c *VClock) Active() []ActiveTimer {
	c.mu.Lock()
	defer c.mu.Unlock()
	var out []ActiveTimer
	for _, tm := range c.timers {
		switch {
		case tm.armed:
			out = append(out, ActiveTimer{tm.deadline, true, false})
		case tm.held:
			out = append(out, ActiveTimer{tm.deadline, false, true})
		case len(tm.ch) > 0:
			out = append(out, ActiveTimer{tm.deadline, false, false})
		}
	}
	return out
}

func (c *VClock) LogLen() int {
	c.mu.Lock()
	defer c.mu.Unlock()
	return len(c.Log)
}

func (c *VClock) LogCopy() []TimerCall {
	c.mu.Lock()
	defer c.mu.Unlock()
	return append([]TimerCall(nil), c.Log...)
}

// ---- rest of clock.WithTicker (not used by the limiter; implemented on the same semantics) ----

func (c *VClock) After(d time.Duration) <-chan time.Time { return c.NewTimer(d).C() }

func (c *VClock) Sleep(d time.Duration) { <-c.After(d) }

func (c *VClock) Tick(d time.Duration) <-chan time.Time { return c.NewTicker(d).C() }

type vticker struct {
	t *vtimer
	d time.Duration
}

// NewTicker: a timer that the reader re-arms by reading; enough for an interface the limiter never calls.
func (c *VClock) NewTicker(d time.Duration) clock.Ticker {
	return &vticker{t: c.NewTimer(d).(*vtimer), d: d}
}
func (k *vticker) C() <-chan time.Time { return k.t.ch }
func (k *vticker) Stop()               { k.t.Stop() }
