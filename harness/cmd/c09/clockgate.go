package main

import (
	"context"
	"fmt"
	"sync/atomic"
	"time"

	"github.com/dapr/kit/events/ratelimiting"
	"github.com/dapr/kit/verifhook"

	"verifharness/lib"
)

// Clock-call gate family (monitors only). Every call the limiter makes into its clock (NewTimer,
// timer.Stop, timer.Reset) is a schedule point inside one of the run loop's handlers. The harness
// parks the run loop INSIDE such a call, issues an Add from another goroutine while the handler is
// half done, lets the loop go on and then drives the clock. Whatever the limiter does with its
// lock, the property's "no Add is lost however Add, timer expiry … interleave" requires that a
// signal is sent after that Add returned. Soundness of the monitor: every signal that can have
// been sent before the Add returned is taken off the channel first (at most one sender can exist
// at the gate; it is waited for), so a signal received afterwards was sent afterwards; the monitor
// never demands more than one further signal, and gives the limiter `opTimeout` of wall time while
// the clock is moved to every armed deadline.

type clockGate struct {
	kind    string // new | stop | reset
	skip    int    // calls of that kind to let pass first
	hit     chan struct{}
	release chan struct{}
}

// atGate is called by VClock/vtimer at the start of NewTimer / Stop / Reset (before c.mu).
func (c *VClock) atGate(kind string) {
	c.mu.Lock()
	g := c.gate
	if g != nil && g.kind == kind {
		if g.skip > 0 {
			g.skip--
			g = nil
		} else {
			c.gate = nil
		}
	} else {
		g = nil
	}
	c.mu.Unlock()
	if g != nil {
		close(g.hit)
		<-g.release
	}
}

func (c *VClock) armGate(kind string, skip int) *clockGate {
	g := &clockGate{kind: kind, skip: skip, hit: make(chan struct{}), release: make(chan struct{})}
	c.mu.Lock()
	c.gate = g
	c.mu.Unlock()
	return g
}

func (c *VClock) disarmGate() {
	c.mu.Lock()
	c.gate = nil
	c.mu.Unlock()
}

type gateCase struct {
	Family  string `json:"family"`
	Kind    string `json:"kind"`    // which clock call the loop is parked in
	Where   string `json:"where"`   // the handler that makes the call
	Initial int64  `json:"initial"` // ns
	Max     int64  `json:"max"`
	Prefix  int    `json:"prefix"` // extra burst Adds before the gate is armed
	Script  string `json:"script"`
}

func runClockGateFamily(res *lib.Result, rg *lib.Rand, n int) {
	kinds := []struct{ kind, where string }{
		{"stop", "handleTimerFired/reset"}, {"stop", "handleInputCh"}, {"reset", "handleInputCh"}, {"new", "handleInputCh(first)"},
	}
	for it := 0; it < n; it++ {
		k := kinds[it%len(kinds)]
		ini := int64(rg.Range(1, 2000)) * int64(time.Millisecond)
		mx := ini * int64(rg.Range(1, 9))
		gc := gateCase{Family: "clock-gate", Kind: k.kind, Where: k.where, Initial: ini, Max: mx, Prefix: rg.Intn(3)}
		runClockGateCase(res, &gc)
	}
}

func runClockGateCase(res *lib.Result, gc *gateCase) {
	clk := NewVClock()
	opts := ratelimiting.OptionsCoalescing{}
	ini, mx := time.Duration(gc.Initial), time.Duration(gc.Max)
	opts.InitialDelay, opts.MaxDelay = &ini, &mx
	rl, err := ratelimiting.NewCoalescing(opts)
	if err != nil {
		return
	}
	rl.(ratelimiting.RateLimiterWithTicker).WithTicker(clk)
	var handled atomic.Int64
	verifhook.Set(func(name string, _ ...any) {
		if name == "coalescing.inputHandled" || name == "coalescing.timerHandled" {
			handled.Add(1)
		}
	})
	defer verifhook.Set(nil)
	ch := make(chan struct{})
	ctx, cancel := context.WithCancel(context.Background())
	defer cancel()
	runDone := make(chan struct{})
	go func() { defer close(runDone); _ = rl.Run(ctx, ch) }()
	received := 0
	recv := func(d time.Duration) bool {
		select {
		case <-ch:
			received++
			return true
		case <-time.After(d):
			return false
		}
	}
	waitHandled := func(k int64) bool {
		dl := time.Now().Add(opTimeout)
		for handled.Load() < k {
			if time.Now().After(dl) {
				return false
			}
			time.Sleep(10 * time.Microsecond)
		}
		return true
	}
	finish := func() {
		clk.disarmGate()
		done := make(chan struct{})
		go func() { rl.Close(); close(done) }()
		select {
		case <-done:
		case <-time.After(opTimeout):
			res.Violate("close-hangs", "clock-gate: Close did not return: "+gc.Script, gc)
			return
		}
		select {
		case <-runDone:
		case <-time.After(opTimeout):
			res.Violate("run-hangs", "clock-gate: Run did not return after Close: "+gc.Script, gc)
		}
	}
	adds := 0
	add := func() { rl.Add(); adds++ }
	var g *clockGate
	switch {
	case gc.Kind == "new":
		gc.Script = "Run; [gate NewTimer]; Add#1 -> loop parks inside NewTimer of the first-event branch"
		g = clk.armGate("new", 0)
		add()
	case gc.Where == "handleInputCh":
		// Add#1 is signalled at once and opens the window; burst Adds extend it; the gated Add's token
		// makes the loop Stop and Reset the timer
		gc.Script = fmt.Sprintf("Run; Add#1; recv; %d burst Adds (each handled); [gate %s]; Add -> loop parks inside timer.%s of handleInputCh", gc.Prefix, gc.Kind, gc.Kind)
		add()
		if !recv(opTimeout) || !waitHandled(1) {
			res.Hit("clock-gate:setup-incomplete")
			finish()
			return
		}
		for i := 0; i < gc.Prefix; i++ {
			add()
			if !waitHandled(int64(2 + i)) {
				res.Hit("clock-gate:setup-incomplete")
				finish()
				return
			}
		}
		g = clk.armGate(gc.Kind, 0)
		add()
	default: // stop inside reset() of handleTimerFired
		gc.Script = fmt.Sprintf("Run; Add#1; recv; %d burst Adds (pending); [gate stop]; clock -> window end: loop fires the pending signal and parks inside timer.Stop of reset()", gc.Prefix+1)
		add()
		if !recv(opTimeout) || !waitHandled(1) {
			res.Hit("clock-gate:setup-incomplete")
			finish()
			return
		}
		for i := 0; i <= gc.Prefix; i++ {
			add()
			if !waitHandled(int64(2 + i)) {
				res.Hit("clock-gate:setup-incomplete")
				finish()
				return
			}
		}
		act := clk.Active()
		if len(act) != 1 || !act[0].Armed {
			res.Hit("clock-gate:setup-incomplete")
			finish()
			return
		}
		g = clk.armGate("stop", 0)
		clk.Set(act[0].Deadline, false)
	}
	select {
	case <-g.hit:
	case <-time.After(opTimeout / 3):
		// the limiter did not make that clock call in this state (a rewrite may legitimately avoid it)
		res.Hit("clock-gate:not-reached:" + gc.Where + "/" + gc.Kind)
		res.Count(fmt.Sprintf("clock-gate:%s:%s:%d:%d:%d:nr", gc.Where, gc.Kind, gc.Initial, gc.Max, gc.Prefix), false)
		finish()
		return
	}
	// at most one sender can exist now (the expiry's); take its signal off the channel first
	for recv(2 * time.Millisecond) {
	}
	before := received
	addDone := make(chan struct{})
	go func() { rl.Add(); close(addDone) }()
	adds++
	returnedWhileParked := false
	select {
	case <-addDone:
		returnedWhileParked = true
	case <-time.After(300 * time.Microsecond):
	}
	close(g.release)
	select {
	case <-addDone:
	case <-time.After(opTimeout):
		res.Violate("add-hangs", "clock-gate: an Add issued while the run loop was inside a clock call did not return after the call completed: "+gc.Script, gc)
		finish()
		return
	}
	// drive: the Add has returned; a signal must now be sent once its window ends
	dl := time.Now().Add(opTimeout)
	got := false
	for time.Now().Before(dl) {
		if recv(200 * time.Microsecond) {
			got = true
			break
		}
		now := clk.NowNs()
		for _, a := range clk.Active() {
			if a.Armed && a.Deadline > now {
				clk.Set(a.Deadline, false)
				break
			}
		}
	}
	if !got {
		res.Violate("add-lost", fmt.Sprintf("an Add that returned while the run loop was inside timer.%s of %s was never followed by a signal although the clock was moved to every armed deadline for %s (%d Adds, %d signals in all; Add returned while the loop was parked: %v): %s",
			gc.Kind, gc.Where, opTimeout, adds, received, returnedWhileParked, gc.Script), gc)
	}
	if received > adds {
		res.Violate("signals-exceed-adds", fmt.Sprintf("clock-gate: %d signals for %d Adds: %s", received, adds, gc.Script), gc)
	}
	_ = before
	res.Hit("clock-gate:" + gc.Where + "/" + gc.Kind)
	res.Hit(fmt.Sprintf("clock-gate:add-returned-while-loop-in-clock-call:%v", returnedWhileParked))
	res.Count(fmt.Sprintf("clock-gate:%s:%s:%d:%d:%d", gc.Where, gc.Kind, gc.Initial, gc.Max, gc.Prefix), true)
	finish()
}
