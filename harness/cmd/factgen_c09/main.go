// Command factgen_c09 regenerates the facts of property C09 from the current source of
// /repo/events/ratelimiting/coalescing.go (T1).
//
// Arithmetic and guards are translated into the statement language of
// lean/KitModel/CoalescingIR.lean and are EXECUTED by the model (lean/KitModel/Coalescing.lean):
//
//	backoffBlock    the `if c.currentDur < c.maxDelay { … }` block of handleInputCh
//	resetBlock      the field assignments of reset()
//	capGuard        the comparison of the MaxPendingEvents test (its nil check is required)
//	fireGuard       fireEvent's `if c.pendingEvents > 0`, fireZero its assignments
//	addBlock        Add's `c.pendingEvents++`
//	newTimerArg     argument of c.clock.NewTimer, resetTimerArg argument of c.timer.Reset
//	initCur / initFactor   currentDur / backoffFactor in NewCoalescing's literal
//
// Control structure is emitted as lists of (whitespace-normalised) source statements that the
// theorem `source_shape_as_modelled` compares with what the model was written against: the select
// cases of Run and what each does, Run's prologue, the two branches of handleInputCh,
// handleTimerFired, the rest of fireEvent and reset, Add, Close, NewCoalescing's validation, hook sites.
//
// Anything the translator does not recognise makes it exit non-zero.
package main

import (
	"bytes"
	"flag"
	"fmt"
	"go/ast"
	"go/parser"
	"go/printer"
	"go/token"
	"os"
	"path/filepath"
	"strconv"
	"strings"
)

var fset = token.NewFileSet()

func src(n ast.Node) string {
	var b bytes.Buffer
	printer.Fprint(&b, fset, n)
	return strings.Join(strings.Fields(b.String()), " ")
}

func die(format string, a ...any) {
	fmt.Fprintf(os.Stderr, "factgen_c09: "+format+"\n", a...)
	os.Exit(1)
}

func funcDecl(f *ast.File, name string) *ast.FuncDecl {
	var found *ast.FuncDecl
	for _, d := range f.Decls {
		if fd, ok := d.(*ast.FuncDecl); ok && fd.Name.Name == name {
			if found != nil {
				die("two declarations of %s", name)
			}
			found = fd
		}
	}
	if found == nil {
		die("function %s not found", name)
	}
	return found
}

func lstr(xs []string) string {
	q := make([]string, len(xs))
	for i, x := range xs {
		q[i] = strconv.Quote(x)
	}
	return "[" + strings.Join(q, ", ") + "]"
}

func srcs(list []ast.Stmt) []string {
	out := make([]string, len(list))
	for i, s := range list {
		out[i] = src(s)
	}
	return out
}

// ---- translation into the IR ----

var fieldVar = map[string]string{
	"c.pendingEvents": ".pending", "c.currentDur": ".cur", "c.backoffFactor": ".factor",
	"c.initialDelay": ".initial", "c.maxDelay": ".max",
}

func varOf(e ast.Expr) string {
	switch x := e.(type) {
	case *ast.ParenExpr:
		return varOf(x.X)
	case *ast.SelectorExpr:
		if v, ok := fieldVar[src(x)]; ok {
			return v
		}
	case *ast.StarExpr:
		if src(x.X) == "c.maxPendingEvents" {
			return ".cap"
		}
	case *ast.BasicLit:
		if x.Kind == token.INT {
			n, err := strconv.ParseUint(x.Value, 0, 63)
			if err == nil {
				return fmt.Sprintf("(.lit %d)", n)
			}
		}
	}
	die("operand not understood: %s", src(e))
	return ""
}

var cmpOf = map[token.Token]string{
	token.LSS: ".lt", token.LEQ: ".le", token.GTR: ".gt", token.GEQ: ".ge", token.EQL: ".eq", token.NEQ: ".ne",
}

func guardOf(e ast.Expr) string {
	if p, ok := e.(*ast.ParenExpr); ok {
		return guardOf(p.X)
	}
	b, ok := e.(*ast.BinaryExpr)
	if !ok {
		die("guard is not a comparison: %s", src(e))
	}
	op, ok := cmpOf[b.Op]
	if !ok {
		die("guard operator not understood: %s", src(e))
	}
	return fmt.Sprintf("⟨%s, %s, %s⟩", op, varOf(b.X), varOf(b.Y))
}

func floatArg(e ast.Expr) (ast.Expr, bool) {
	c, ok := e.(*ast.CallExpr)
	if !ok || len(c.Args) != 1 || src(c.Fun) != "float64" {
		return nil, false
	}
	return c.Args[0], true
}

func rhsOf(e ast.Expr) string {
	if c, ok := e.(*ast.CallExpr); ok {
		// time.Duration(float64(a) * float64(b))
		if src(c.Fun) == "time.Duration" && len(c.Args) == 1 {
			if m, ok := c.Args[0].(*ast.BinaryExpr); ok && m.Op == token.MUL {
				a, ok1 := floatArg(m.X)
				b, ok2 := floatArg(m.Y)
				if ok1 && ok2 {
					return fmt.Sprintf("(.durOfFloatProduct %s %s)", varOf(a), varOf(b))
				}
			}
		}
		die("conversion not understood: %s", src(e))
	}
	return fmt.Sprintf("(.var %s)", varOf(e))
}

func litOf(e ast.Expr) uint64 {
	l, ok := e.(*ast.BasicLit)
	if !ok || l.Kind != token.INT {
		die("integer literal expected: %s", src(e))
	}
	n, err := strconv.ParseUint(l.Value, 0, 63)
	if err != nil {
		die("integer literal: %s", src(e))
	}
	return n
}

func assignable(e ast.Expr) string {
	v := varOf(e)
	if v != ".pending" && v != ".cur" && v != ".factor" {
		die("assignment to %s is not modelled", src(e))
	}
	return v
}

func stmtOf(s ast.Stmt) string {
	switch x := s.(type) {
	case *ast.AssignStmt:
		if len(x.Lhs) != 1 || len(x.Rhs) != 1 {
			die("assignment not understood: %s", src(s))
		}
		lhs := assignable(x.Lhs[0])
		switch x.Tok {
		case token.ASSIGN:
			return fmt.Sprintf(".assign %s %s", lhs, rhsOf(x.Rhs[0]))
		case token.MUL_ASSIGN:
			return fmt.Sprintf(".assign %s (.mulLit %s %d)", lhs, lhs, litOf(x.Rhs[0]))
		case token.ADD_ASSIGN:
			return fmt.Sprintf(".assign %s (.addLit %s %d)", lhs, lhs, litOf(x.Rhs[0]))
		}
		die("assignment operator not understood: %s", src(s))
	case *ast.IncDecStmt:
		if x.Tok != token.INC {
			die("decrement not understood: %s", src(s))
		}
		lhs := assignable(x.X)
		return fmt.Sprintf(".assign %s (.addLit %s 1)", lhs, lhs)
	case *ast.IfStmt:
		if x.Init != nil || x.Else != nil {
			die("if with init/else not understood: %s", src(s))
		}
		return fmt.Sprintf(".ifThen %s %s", guardOf(x.Cond), blockOf(x.Body.List))
	}
	die("statement not understood: %s", src(s))
	return ""
}

func blockOf(list []ast.Stmt) string {
	parts := make([]string, len(list))
	for i, s := range list {
		parts[i] = stmtOf(s)
	}
	return "[" + strings.Join(parts, ", ") + "]"
}

// isFieldAssign: an assignment / inc to one of the modelled integer fields.
func isFieldAssign(s ast.Stmt) bool {
	switch x := s.(type) {
	case *ast.AssignStmt:
		if len(x.Lhs) == 1 {
			_, ok := fieldVar[src(x.Lhs[0])]
			return ok
		}
	case *ast.IncDecStmt:
		_, ok := fieldVar[src(x.X)]
		return ok
	}
	return false
}

func callArg(s ast.Stmt, fun string) ast.Expr {
	var call *ast.CallExpr
	switch x := s.(type) {
	case *ast.ExprStmt:
		call, _ = x.X.(*ast.CallExpr)
	case *ast.AssignStmt:
		if len(x.Rhs) == 1 {
			call, _ = x.Rhs[0].(*ast.CallExpr)
		}
	}
	if call == nil || src(call.Fun) != fun || len(call.Args) != 1 {
		die("expected a call %s(arg): %s", fun, src(s))
	}
	return call.Args[0]
}

func main() {
	repo := flag.String("repo", "/repo", "")
	out := flag.String("out", "", "")
	flag.Parse()
	f, err := parser.ParseFile(fset, filepath.Join(*repo, "events", "ratelimiting", "coalescing.go"), nil, 0)
	if err != nil {
		die("%v", err)
	}
	var w strings.Builder
	p := func(format string, a ...any) { fmt.Fprintf(&w, format+"\n", a...) }
	p("/-")
	p("GENERATED by harness/cmd/factgen_c09 from events/ratelimiting/coalescing.go.")
	p("Do not edit: bin/check C09 rewrites this file from the working tree of /repo on every run.")
	p("-/")
	p("import KitModel.CoalescingIR")
	p("namespace Kit.Generated.C09")
	p("open Kit.Coalescing.IR")
	p("")

	// ---- NewCoalescing: validation guards, initial field values, channel capacities ----
	nc := funcDecl(f, "NewCoalescing")
	var valid []string
	var lit *ast.CompositeLit
	ast.Inspect(nc, func(n ast.Node) bool {
		switch x := n.(type) {
		case *ast.IfStmt:
			if len(x.Body.List) == 1 {
				if r, ok := x.Body.List[0].(*ast.ReturnStmt); ok && len(r.Results) == 2 && src(r.Results[0]) == "nil" {
					valid = append(valid, src(x.Cond))
				}
			}
		case *ast.CompositeLit:
			if src(x.Type) == "coalescing" {
				if lit != nil {
					die("NewCoalescing: two coalescing literals")
				}
				lit = x
			}
		}
		return true
	})
	if lit == nil {
		die("NewCoalescing: coalescing literal not found")
	}
	fields := map[string]string{}
	for _, e := range lit.Elts {
		kv, ok := e.(*ast.KeyValueExpr)
		if !ok {
			die("NewCoalescing: literal without field names")
		}
		fields[src(kv.Key)] = src(kv.Value)
	}
	if fields["initialDelay"] != "initialDelay" || fields["maxDelay"] != "maxDelay" || fields["maxPendingEvents"] != "opts.MaxPendingEvents" {
		die("NewCoalescing: initialDelay/maxDelay/maxPendingEvents are not stored as validated: %v", fields)
	}
	initCur := ""
	switch fields["currentDur"] {
	case "initialDelay":
		initCur = ".initial"
	case "maxDelay":
		initCur = ".max"
	default:
		die("NewCoalescing: currentDur: %q not understood", fields["currentDur"])
	}
	initFactor, err := strconv.ParseUint(fields["backoffFactor"], 0, 63)
	if err != nil {
		die("NewCoalescing: backoffFactor: %q is not an integer literal", fields["backoffFactor"])
	}
	if _, has := fields["pendingEvents"]; has {
		die("NewCoalescing: pendingEvents is initialised explicitly (model assumes the zero value)")
	}
	p("/-- the `if … { return nil, err }` guards of `NewCoalescing`, in order (the model's `Config.valid` is their negation). -/")
	p("def validationGuards : List String := %s", lstr(valid))
	p("/-- `currentDur:` and `backoffFactor:` in the literal `NewCoalescing` returns. -/")
	p("def initCur : Var := %s", initCur)
	p("def initFactor : Nat := %d", initFactor)
	p("/-- `inputCh:` / `closeCh:` in that literal (unbuffered = `make(chan struct{})`). -/")
	p("def inputChMake : String := %s", strconv.Quote(fields["inputCh"]))
	p("def closeChMake : String := %s", strconv.Quote(fields["closeCh"]))
	p("")

	// ---- Run ----
	run := funcDecl(f, "Run")
	var loop *ast.ForStmt
	var prologue []string
	for _, s := range run.Body.List {
		if fs, ok := s.(*ast.ForStmt); ok {
			if loop != nil {
				die("Run: two loops")
			}
			loop = fs
			continue
		}
		if loop != nil {
			die("Run: statement after the loop: %s", src(s))
		}
		prologue = append(prologue, src(s))
	}
	if loop == nil || loop.Cond != nil || loop.Init != nil || loop.Post != nil {
		die("Run: `for { … }` not found")
	}
	var head []string
	var sel *ast.SelectStmt
	for _, s := range loop.Body.List {
		if ss, ok := s.(*ast.SelectStmt); ok {
			if sel != nil {
				die("Run: two selects")
			}
			sel = ss
			continue
		}
		if sel != nil {
			die("Run: statement after the select: %s", src(s))
		}
		head = append(head, src(s))
	}
	if sel == nil {
		die("Run: select not found")
	}
	var cases []string
	for _, cl := range sel.Body.List {
		cc := cl.(*ast.CommClause)
		comm := "default"
		if cc.Comm != nil {
			comm = src(cc.Comm)
		}
		cases = append(cases, comm+" => "+strings.Join(srcs(cc.Body), "; "))
	}
	p("/-- `Run` before its loop. -/")
	p("def runPrologue : List String := %s", lstr(prologue))
	p("/-- the loop head (before the select). -/")
	p("def runLoopHead : List String := %s", lstr(head))
	p("/-- the select cases of the run loop and what each does. -/")
	p("def runSelectCases : List String := %s", lstr(cases))
	p("")

	// ---- handleInputCh ----
	hi := funcDecl(f, "handleInputCh")
	if len(hi.Body.List) != 3 {
		die("handleInputCh: expected Lock; defer Unlock; switch — got %d statements", len(hi.Body.List))
	}
	sw, ok := hi.Body.List[2].(*ast.SwitchStmt)
	if !ok || sw.Tag != nil || sw.Init != nil || len(sw.Body.List) != 2 {
		die("handleInputCh: tagless switch with two clauses expected")
	}
	first := sw.Body.List[0].(*ast.CaseClause)
	deflt := sw.Body.List[1].(*ast.CaseClause)
	if len(first.List) != 1 || deflt.List != nil {
		die("handleInputCh: expected `case <cond>:` then `default:`")
	}
	if len(first.Body) != 3 {
		die("handleInputCh: first branch: expected NewTimer; hasTimer.Store(true); fireEvent")
	}
	newTimerArg := varOf(callArg(first.Body[0], "c.clock.NewTimer"))
	if len(deflt.Body) != 4 {
		die("handleInputCh: default branch: expected cap test; stop/drain; back-off; Reset — got %d statements", len(deflt.Body))
	}
	capIf, ok := deflt.Body[0].(*ast.IfStmt)
	if !ok || capIf.Init != nil || capIf.Else != nil {
		die("handleInputCh: cap test not understood: %s", src(deflt.Body[0]))
	}
	and, ok := capIf.Cond.(*ast.BinaryExpr)
	if !ok || and.Op != token.LAND || src(and.X) != "c.maxPendingEvents != nil" {
		die("handleInputCh: cap test is not `c.maxPendingEvents != nil && <cmp>`: %s", src(capIf.Cond))
	}
	capGuard := guardOf(and.Y)
	backIf, ok := deflt.Body[2].(*ast.IfStmt)
	if !ok {
		die("handleInputCh: back-off block not found: %s", src(deflt.Body[2]))
	}
	backoff := "[" + stmtOf(backIf) + "]"
	resetTimerArg := varOf(callArg(deflt.Body[3], "c.timer.Reset"))
	p("/-- `handleInputCh` before the switch. -/")
	p("def inputLocking : List String := %s", lstr(srcs(hi.Body.List[:2])))
	p("/-- condition and body of the first switch clause (no timer yet). -/")
	p("def inputFirstCond : String := %s", strconv.Quote(src(first.List[0])))
	p("def inputFirstBranch : List String := %s", lstr(srcs(first.Body)))
	p("def newTimerArg : Var := %s", newTimerArg)
	p("/-- default clause: the cap test (nil check required by the translator), its body, the stop/drain statement. -/")
	p("def capNilCheck : String := %s", strconv.Quote(src(and.X)))
	p("def capGuard : Guard := %s", capGuard)
	p("def capBody : List String := %s", lstr(srcs(capIf.Body.List)))
	p("def stopDrain : String := %s", strconv.Quote(src(deflt.Body[1])))
	p("/-- the back-off block, executed by the model. -/")
	p("def backoffBlock : List Stmt := %s", backoff)
	p("def resetTimerCall : String := %s", strconv.Quote(src(deflt.Body[3])))
	p("def resetTimerArg : Var := %s", resetTimerArg)
	p("")

	// ---- handleTimerFired ----
	ht := funcDecl(f, "handleTimerFired")
	p("def timerFiredBody : List String := %s", lstr(srcs(ht.Body.List)))
	p("")

	// ---- fireEvent ----
	fe := funcDecl(f, "fireEvent")
	if len(fe.Body.List) != 1 {
		die("fireEvent: a single if expected")
	}
	fif, ok := fe.Body.List[0].(*ast.IfStmt)
	if !ok || fif.Init != nil || fif.Else != nil {
		die("fireEvent: if not understood")
	}
	var fireZero, fireRest []ast.Stmt
	for _, s := range fif.Body.List {
		if isFieldAssign(s) {
			if len(fireRest) > 0 {
				die("fireEvent: field assignment after the goroutine is started: %s", src(s))
			}
			fireZero = append(fireZero, s)
		} else {
			fireRest = append(fireRest, s)
		}
	}
	p("/-- `fireEvent`: guard, the field assignments in its body (executed by the model), the rest. -/")
	p("def fireGuard : Guard := %s", guardOf(fif.Cond))
	p("def fireZero : List Stmt := %s", blockOf(fireZero))
	p("def fireRest : List String := %s", lstr(srcs(fireRest)))
	p("")

	// ---- reset ----
	rs := funcDecl(f, "reset")
	var resetAssign []ast.Stmt
	var resetShape []string
	for _, s := range rs.Body.List {
		if isFieldAssign(s) {
			resetAssign = append(resetAssign, s)
			resetShape = append(resetShape, "<field assignment>")
		} else {
			resetShape = append(resetShape, src(s))
		}
	}
	p("/-- `reset`: the field assignments (executed by the model) and the statements around them. -/")
	p("def resetBlock : List Stmt := %s", blockOf(resetAssign))
	p("def resetShape : List String := %s", lstr(resetShape))
	p("")

	// ---- Add ----
	ad := funcDecl(f, "Add")
	var addAssign []ast.Stmt
	var addShape []string
	for _, s := range ad.Body.List {
		if isFieldAssign(s) {
			addAssign = append(addAssign, s)
			addShape = append(addShape, "<field assignment>")
		} else {
			addShape = append(addShape, src(s))
		}
	}
	p("/-- `Add`: the field update (executed by the model) and the statements around it, in order. -/")
	p("def addBlock : List Stmt := %s", blockOf(addAssign))
	p("def addShape : List String := %s", lstr(addShape))
	p("")

	// ---- Close ----
	cl := funcDecl(f, "Close")
	p("/-- `Close`, in order. -/")
	p("def closeOrder : List String := %s", lstr(srcs(cl.Body.List)))
	p("")

	// ---- hook sites ----
	var hooks []string
	ast.Inspect(f, func(n ast.Node) bool {
		if c, ok := n.(*ast.CallExpr); ok && src(c.Fun) == "verifhook.Point" && len(c.Args) >= 1 {
			if l, ok := c.Args[0].(*ast.BasicLit); ok {
				s, _ := strconv.Unquote(l.Value)
				hooks = append(hooks, s)
			} else {
				die("hook name is not a literal: %s", src(c))
			}
		}
		return true
	})
	p("/-- `verifhook.Point` call sites in source order. -/")
	p("def hookSites : List String := %s", lstr(hooks))
	p("")
	p("end Kit.Generated.C09")

	if *out == "" {
		fmt.Print(w.String())
		return
	}
	if err := os.WriteFile(*out, []byte(w.String()), 0o644); err != nil {
		die("%v", err)
	}
}
