// Command c16 ties the Lean model of package streams (lean/KitModel/Streams.lean) to the real
// code and runs model-independent monitors for property C16.
package main

import (
	"encoding/json"
	"fmt"
	"os"
	"path/filepath"
	"runtime"
	"sort"
	"strings"
	"sync"

	"verifharness/lib"
)

const rule = "a case is non-trivial when its sources hold at least one byte in total; distinct = distinct (reader, parameters, sources with scripts, consumption mode/ops) tuples. " +
	"The run mixes complete enumerations with seeded random families, so `exhaustive` is false. COMPLETE ENUMERATIONS (every element of the stated finite set is run): " +
	"genLimit (N 0..16 x length 0..N+3 x all compositions up to length 5 [thorough 9] x 8 reader styles x listed buffers x Read/ReadAll/io.Copy wrapped/io.Copy direct; for longer sources a fixed set of boundary chunkings plus 2 random ones), " +
	"genLimitZeroAtOffsets (one and two zero-length reads at every offset), the int64-boundary limit family, genMulti for 0..2 sources, genTee, genWriteToFailingWriter, genMultiFastPaths for 1 source (and 2 sources in thorough; a fixed quarter of the pairs in quick), genStd. " +
	"SEEDED RANDOM: genMulti / genMultiFastPaths with 3..5 sources, genRandomLarge, genOps, concurrent Tee histories (teeconc, also under -race)"

// workDir is where temp files for *os.File sources / writers go ("" = the system temp dir).
var workDir string

type runner struct {
	res     *lib.Result
	drv     *lib.Drv
	batch   []*Case
	dead    bool
	sampled map[string]bool
}

func (r *runner) emit(c *Case) {
	r.batch = append(r.batch, c)
	if len(r.batch) >= 8192 {
		r.flush()
	}
}

func classify(c *Case, o *Obs, res *lib.Result) {
	res.Hit("kind:" + c.Kind)
	res.Hit("mode:" + c.Mode)
	res.Hit(fmt.Sprintf("sources:%d", len(c.Srcs)))
	total := 0
	for _, s := range c.Srcs {
		total += len(s.Content) / 2
		if s.WithData {
			res.Hit("style:terminal-with-last-data")
		} else {
			res.Hit("style:terminal-alone")
		}
		if s.Boom {
			res.Hit("style:error-at-offset")
		}
		if s.BodyClosed {
			res.Hit("style:ErrBodyReadAfterClose")
		}
		if s.WT {
			res.Hit("source:scripted-with-WriteTo")
		}
		if s.Std != "" {
			res.Hit("source:std-" + s.Std)
		}
		for _, x := range s.Script {
			if x == 0 {
				res.Hit("style:zero-length-reads")
				break
			}
		}
		if len(s.Script) > 1 {
			res.Hit("style:split-into->=2-chunks")
		}
	}
	switch {
	case total == 0:
		res.Hit("bytes:0")
	case total <= 4:
		res.Hit("bytes:1-4")
	case total <= 19:
		res.Hit("bytes:5-19")
	case total <= 2000:
		res.Hit("bytes:20-2000")
	default:
		res.Hit("bytes:>2000")
	}
	if c.Kind == "limit" && c.N >= 0 && c.N < 1<<30 {
		d := int64(total) - c.N
		switch {
		case d < -1:
			res.Hit("limit:len<N-1")
		case d > 3:
			res.Hit("limit:len>N+3")
		default:
			res.Hit(fmt.Sprintf("limit:len-N=%+d", d))
		}
	}
	if c.Kind == "tee" && c.WCap >= 0 {
		if c.WCap < total {
			res.Hit("tee:writer-fails-mid-stream")
		} else {
			res.Hit("tee:writer-cap-not-reached")
		}
	}
	if c.Mode != "ops" {
		res.Hit("outcome:" + o.Term)
	}
	if c.RF > 0 {
		res.Hit("writer:scripted-with-ReadFrom")
	}
	if w := c.stdW(); w != "" {
		res.Hit("writer:std-" + w)
	}
}

func (r *runner) flush() {
	batch := r.batch
	r.batch = nil
	if len(batch) == 0 {
		return
	}
	obs := make([]*Obs, len(batch))
	var wg sync.WaitGroup
	workers := runtime.NumCPU()
	if workers > 8 {
		workers = 8
	}
	ch := make(chan int, 256)
	for w := 0; w < workers; w++ {
		wg.Add(1)
		go func() {
			defer wg.Done()
			for i := range ch {
				obs[i] = execute(batch[i])
			}
		}()
	}
	for i := range batch {
		ch <- i
	}
	close(ch)
	wg.Wait()

	var lines []string
	var idx []int
	for i, c := range batch {
		o := obs[i]
		line := c.modelLine(o.Ops)
		nontrivial := false
		for _, s := range c.Srcs {
			if len(s.Content) > 0 {
				nontrivial = true
			}
		}
		r.res.Count(c.Mode+"/"+fmt.Sprint(c.Buf, c.Closes)+"/"+line, nontrivial)
		classify(c, o, r.res)
		if k := c.Kind + "/" + c.Mode; nontrivial && len(c.Srcs[0].Script) > 1 && !r.sampled[k] && len(c.Srcs[0].Content) <= 64 {
			r.sampled[k] = true
			r.res.Sample(map[string]any{"case": c, "model_request": line, "implementation_answer": o.answer(c.Kind)})
		}
		for _, v := range monitor(c, o) {
			r.res.Violate(v.id, v.what, c)
		}
		if r.drv != nil && !r.dead && !o.Timeout && o.Panic == "" {
			lines = append(lines, line)
			idx = append(idx, i)
		}
	}
	if len(lines) == 0 {
		return
	}
	outs, err := r.drv.AskBatch(lines)
	if err != nil {
		r.dead = true
		r.res.Disagree("streams-model-driver", nil, "driver failed: "+err.Error(), "")
		return
	}
	for j, out := range outs {
		i := idx[j]
		impl := obs[i].answer(batch[i].Kind)
		r.res.Traces++
		if out != impl {
			r.res.Disagree("KitModel.Streams (Limit/Multi/Tee over scripted sources) = streams package, per-op results, close counts, writer bytes",
				map[string]any{"case": batch[i], "line": lines[j]}, out, impl)
		}
	}
}

func main() {
	f := lib.ParseFlags()
	workDir = f.Work
	res := lib.NewResult(rule)
	drv, err := lib.StartDrv(f.Drv, "C16")
	if err != nil {
		res.Note("model driver could not be started: " + err.Error())
		drv = nil
	}
	defer drv.Close()
	r := &runner{res: res, drv: drv, sampled: map[string]bool{}}

	if f.Replay != "" {
		raw, err := os.ReadFile(f.Replay)
		if err != nil {
			fmt.Fprintln(os.Stderr, "c16: replay:", err)
			os.Exit(3)
		}
		var rp struct {
			Case json.RawMessage `json:"case"`
		}
		if err := json.Unmarshal(raw, &rp); err != nil {
			fmt.Fprintln(os.Stderr, "c16: replay:", err)
			os.Exit(3)
		}
		var c Case
		// a disagreement replay wraps the case as {"case":…, "line":…}
		var wrapped struct {
			Case *Case `json:"case"`
		}
		if json.Unmarshal(rp.Case, &wrapped) == nil && wrapped.Case != nil && wrapped.Case.Kind != "" {
			c = *wrapped.Case
		} else if err := json.Unmarshal(rp.Case, &c); err != nil || c.Kind == "" {
			fmt.Fprintln(os.Stderr, "c16: replay file has no usable case")
			os.Exit(3)
		}
		o := execute(&c)
		fmt.Fprintf(os.Stderr, "c16 replay: %s\n  impl: %s\n  bytes=%x term=%s closes=%v closes-before-Close=%v\n",
			c.modelLine(o.Ops), o.answer(c.Kind), o.Bytes, o.Term, o.Closes, o.ClosesAt)
		for _, v := range monitor(&c, o) {
			fmt.Fprintf(os.Stderr, "  MONITOR %s: %s\n", v.id, v.what)
		}
		r.emit(&c)
		r.flush()
		res.Write(f.Out)
		return
	}

	thorough := f.Tier == "thorough" || f.Search
	rnd := lib.NewRand(f.Seed)
	// corpus first: minimised past findings (each file is one Case as JSON)
	if dir := os.Getenv("VERIF_DIR"); dir != "" {
		files, _ := filepath.Glob(filepath.Join(dir, "corpus", "C16", "*.json"))
		sort.Strings(files)
		for _, fn := range files {
			raw, err := os.ReadFile(fn)
			var c Case
			if err != nil || json.Unmarshal(raw, &c) != nil || c.Kind == "" {
				res.Note("corpus file unreadable: " + fn)
				continue
			}
			res.Hit("corpus")
			r.emit(&c)
		}
		r.flush()
	}
	genLimit(thorough, rnd.Fork(), r.emit)
	genMulti(thorough, rnd.Fork(), r.emit)
	genTee(thorough, r.emit)
	genWriteToFailingWriter(r.emit)
	genMultiFastPaths(thorough, rnd.Fork(), r.emit)
	genStd(thorough, rnd.Fork(), r.emit)
	nLarge, nOps := 400, 4000
	if thorough {
		nLarge, nOps = 3000, 40000
	}
	if f.Search {
		nLarge, nOps = 10000, 200000
	}
	genRandomLarge(nLarge, rnd.Fork(), r.emit)
	genOps(nOps, rnd.Fork(), r.emit)
	r.flush()
	// TeeReadCloser from several goroutines: in-process histories, then the same under -race
	nConc, nRace := 1500, 400
	if thorough {
		nConc, nRace = 15000, 4000
	}
	r.runTeeConc(f.Seed, nConc)
	r.runRace(f, nRace)
	res.Exhaustive = false // complete enumerations are mixed with seeded random families; `rule` names which is which
	res.Note("exhaustive part: limit N in 0..16 x source length 0..N+3 x (all compositions up to length " +
		map[bool]string{false: "5", true: "9"}[thorough] + ", boundary chunkings above) x 8 reader styles x consumer buffers x {Read loop, io.ReadAll, io.Copy}; " +
		"multi: 0..2 sources exhaustively over per-source options, 3..5 sampled; tee: all compositions x styles x writer capacities")
	if r.dead {
		res.Note("model driver died; remaining cases were judged by the monitors only")
	}
	_ = strings.TrimSpace
	res.Write(f.Out)
}
