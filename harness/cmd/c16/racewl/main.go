// Command racewl runs the concurrent TeeReadCloser workload of package teeconc; harness/cmd/c16
// builds it with -race and judges the histories it prints (monitors + linearization against the
// Lean model) together with the race detector's reports.
package main

import (
	"encoding/json"
	"flag"
	"fmt"
	"os"

	"verifharness/cmd/c16/teeconc"
)

func main() {
	seed := flag.Uint64("seed", 1, "seed")
	n := flag.Int("n", 500, "scenarios")
	out := flag.String("out", "", "output json")
	flag.Parse()
	specs := teeconc.Generate(*seed, *n)
	hs := make([]teeconc.History, 0, len(specs))
	for _, sp := range specs {
		hs = append(hs, teeconc.Run(sp))
	}
	b, err := json.Marshal(hs)
	if err != nil {
		fmt.Fprintln(os.Stderr, err)
		os.Exit(3)
	}
	if *out == "" {
		os.Stdout.Write(b)
		return
	}
	if err := os.WriteFile(*out, b, 0o644); err != nil {
		fmt.Fprintln(os.Stderr, err)
		os.Exit(3)
	}
}
