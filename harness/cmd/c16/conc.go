package main

import (
	"bytes"
	"encoding/hex"
	"encoding/json"
	"fmt"
	"os"
	"os/exec"
	"path/filepath"
	"sort"
	"strconv"
	"strings"
	"time"

	"verifharness/cmd/c16/teeconc"
	"verifharness/lib"
)

// ---- TeeReadCloser from several goroutines: monitors + trace inclusion in the Lean LTS ----

// concMonitor judges one history without the model.
func concMonitor(h *teeconc.History) []verdict {
	var v []verdict
	add := func(id, f string, a ...any) { v = append(v, verdict{id, fmt.Sprintf(f, a...)}) }
	if h.Timeout {
		add("tee-conc-hang", "calls did not return within the deadline")
		return v
	}
	if h.Panic != "" {
		add("tee-conc-panic", "panic: %s", h.Panic)
		return v
	}
	content := teeconc.Content(h.Spec.Len)
	wgot, _ := hex.DecodeString(h.WGot)
	if !bytes.HasPrefix(content, wgot) {
		add("tee-conc-writer-not-prefix", "writer got %x, source is %x", wgot, content)
	}
	// every chunk handed to a caller must be in the writer: position-coded content lets each chunk
	// name its own offset; the chunks must tile [0, len(writer bytes)) exactly
	type iv struct{ lo, hi int }
	var ivs []iv
	var lastDetach int64 = -1 // earliest return time of a completed Close/Stop
	closeDone, stopDone := false, false
	for _, c := range h.Calls {
		if c.Op == "c" || c.Op == "s" {
			if lastDetach < 0 || c.Ret < lastDetach {
				lastDetach = c.Ret
			}
			if c.Op == "c" {
				closeDone = true
			} else {
				stopDone = true
			}
		}
	}
	for _, c := range h.Calls {
		if !strings.HasPrefix(c.Op, "r") {
			continue
		}
		parts := strings.Split(c.Res, ":")
		if len(parts) != 3 {
			add("tee-conc-bad-result", "%s", c.Res)
			continue
		}
		d, err := hex.DecodeString(parts[1])
		if err != nil {
			add("tee-conc-bad-result", "%s", c.Res)
			continue
		}
		if lastDetach >= 0 && c.Inv > lastDetach && (len(d) > 0 || parts[2] != "closedpipe") {
			add("tee-conc-read-after-close", "Read invoked after a Close/Stop had returned gave %s", c.Res)
		}
		if len(d) == 0 {
			continue
		}
		off := int(d[0])
		if off+len(d) > len(content) || !bytes.Equal(content[off:off+len(d)], d) {
			add("tee-conc-data-corrupt", "Read returned %x, not a chunk of the source", d)
			continue
		}
		ivs = append(ivs, iv{off, off + len(d)})
	}
	sort.Slice(ivs, func(i, j int) bool { return ivs[i].lo < ivs[j].lo })
	pos := 0
	for _, x := range ivs {
		if x.lo != pos {
			add("tee-conc-data-not-written", "chunks returned by Reads do not tile the writer's bytes (gap or overlap at %d)", pos)
			break
		}
		pos = x.hi
	}
	if pos != len(wgot) && len(v) == 0 {
		add("tee-conc-data-not-written", "Reads returned %d bytes in total, the writer received %d", pos, len(wgot))
	}
	if h.Closes > 1 {
		add("tee-conc-source-closed-twice", "source closed %d times", h.Closes)
	}
	if h.WCl > 1 {
		add("tee-conc-writer-closed-twice", "writer closed %d times", h.WCl)
	}
	if closeDone && h.Spec.Closable && h.Closes != 1 {
		add("tee-conc-source-close-count", "Close returned but the source was closed %d times", h.Closes)
	}
	if (closeDone || stopDone) && h.Spec.WClos && h.WCl != 1 {
		add("tee-conc-writer-close-count", "Close/Stop returned but the writer was closed %d times", h.WCl)
	}
	return v
}

// concLine: the linearization request for kitdrv (`hist=`).
func concLine(h *teeconc.History) string {
	sc := make([]string, len(h.Spec.Script))
	for i, c := range h.Spec.Script {
		sc[i] = strconv.Itoa(c)
	}
	t := "e"
	if h.Spec.Boom {
		t = "b"
	}
	wcap := "-"
	if h.Spec.WCap >= 0 {
		wcap = strconv.Itoa(h.Spec.WCap)
	}
	calls := make([]string, len(h.Calls))
	for i, c := range h.Calls {
		calls[i] = fmt.Sprintf("%d/%d/%s/%s", c.Inv, c.Ret, c.Op, c.Res)
	}
	return fmt.Sprintf("case kind=tee ver=%s wcap=%s wclos=%s srcs=%s:%s:%s:%s:%s final=%d/%s/%d hist=%s",
		modelVer, wcap, b01(h.Spec.WClos), hex.EncodeToString(teeconc.Content(h.Spec.Len)), strings.Join(sc, "."),
		b01(h.Spec.WithData), t, b01(h.Spec.Closable), h.Closes, h.WGot, h.WCl, strings.Join(calls, ";"))
}

func (r *runner) judgeHistories(hs []teeconc.History, tag string) {
	var lines []string
	var idx []int
	for i := range hs {
		h := &hs[i]
		key := fmt.Sprint(tag, i, h.Spec, h.Calls)
		r.res.Count(key, h.Spec.Len > 0)
		r.res.Hit("kind:tee-concurrent" + tag)
		r.res.Hit(fmt.Sprintf("tee-conc:goroutines=%d", len(h.Spec.Gs)))
		overlap := false
		for a := range h.Calls {
			for b := range h.Calls {
				if a != b && h.Calls[a].Inv < h.Calls[b].Inv && h.Calls[b].Inv < h.Calls[a].Ret {
					overlap = true
				}
			}
		}
		if overlap {
			r.res.Hit("tee-conc:calls-overlapped-in-time")
		}
		for _, v := range concMonitor(h) {
			r.res.Violate(v.id, v.what, map[string]any{"kind": "tee-concurrent", "history": h})
		}
		if r.drv != nil && !r.dead && !h.Timeout && h.Panic == "" {
			lines = append(lines, concLine(h))
			idx = append(idx, i)
		}
	}
	if len(lines) == 0 {
		return
	}
	outs, err := r.drv.AskBatch(lines)
	if err != nil {
		r.dead = true
		r.res.Disagree("streams-model-driver", nil, "driver failed: "+err.Error(), "")
		return
	}
	for j, out := range outs {
		r.res.Traces++
		if !strings.HasPrefix(out, "ok lin=1") {
			r.res.Disagree("TeeConc (KitModel.Streams): the concurrent history is a run of the LTS (linearizable w.r.t. Tee.apply, same final close counts and writer bytes)",
				map[string]any{"history": hs[idx[j]], "line": lines[j]}, out, "observed history")
		}
	}
}

// runTeeConc: in-process (no race detector) histories.
func (r *runner) runTeeConc(seed uint64, n int) {
	specs := teeconc.Generate(seed, n)
	hs := make([]teeconc.History, 0, n)
	for _, sp := range specs {
		hs = append(hs, teeconc.Run(sp))
	}
	r.judgeHistories(hs, "")
}

// runRace builds cmd/c16/racewl with -race, runs it, judges its histories the same way and turns
// race-detector reports into violations.  If -race binaries cannot be built here, that is noted.
func (r *runner) runRace(f lib.Flags, n int) {
	verif := os.Getenv("VERIF_DIR")
	if verif == "" {
		verif = "/verif"
	}
	work := f.Work
	if work == "" {
		work = os.TempDir()
	}
	bin := filepath.Join(work, "c16_racewl")
	env := append(os.Environ(), "CGO_ENABLED=1", "GOFLAGS=-mod=mod", "GOPROXY=off", "GOSUMDB=off", "GOTOOLCHAIN=local")
	t0 := time.Now()
	args := []string{"build", "-race", "-tags", "verif unit", "-o", bin}
	if repo := os.Getenv("VERIF_REPO"); repo != "" && repo != "/repo" {
		// bin/check runs against a scratch copy of the repository: build the race workload against it too
		md := filepath.Join(work, "c16_race_modfile")
		gm, err1 := os.ReadFile(filepath.Join(verif, "harness", "go.mod"))
		gs, err2 := os.ReadFile(filepath.Join(repo, "go.sum"))
		if err1 == nil && err2 == nil && os.MkdirAll(md, 0o755) == nil {
			os.WriteFile(filepath.Join(md, "go.mod"), []byte(strings.ReplaceAll(string(gm), "=> /repo", "=> "+repo)), 0o644)
			os.WriteFile(filepath.Join(md, "go.sum"), gs, 0o644)
			args = append(args, "-modfile", filepath.Join(md, "go.mod"))
		}
	}
	args = append(args, "./cmd/c16/racewl")
	cmd := exec.Command("go", args...)
	cmd.Dir = filepath.Join(verif, "harness")
	cmd.Env = env
	if out, err := cmd.CombinedOutput(); err != nil {
		s := string(out)
		if len(s) > 400 {
			s = s[len(s)-400:]
		}
		r.res.Note("race variant NOT run: `go build -race` failed here (" + err.Error() + "): " + s)
		r.res.Hit("race:unavailable")
		return
	}
	outf := filepath.Join(work, "c16_race_out.json")
	logp := filepath.Join(work, "c16_race_report")
	if old, _ := filepath.Glob(logp + "*"); len(old) > 0 { // stale reports of an earlier run in the same dir
		for _, o := range old {
			os.Remove(o)
		}
	}
	run := exec.Command(bin, "--seed", fmt.Sprint(f.Seed+7), "--n", fmt.Sprint(n), "--out", outf)
	run.Env = append(env, "GORACE=halt_on_error=0 exitcode=0 log_path="+logp)
	done := make(chan error, 1)
	var ro []byte
	go func() {
		var e error
		ro, e = run.CombinedOutput()
		done <- e
	}()
	select {
	case err := <-done:
		if err != nil {
			r.res.Note("race variant: run failed: " + err.Error() + ": " + string(ro))
			r.res.Hit("race:run-failed")
			return
		}
	case <-time.After(10 * time.Minute):
		_ = run.Process.Kill()
		r.res.Note("race variant: timed out")
		r.res.Hit("race:timeout")
		return
	}
	var hs []teeconc.History
	if b, err := os.ReadFile(outf); err != nil || json.Unmarshal(b, &hs) != nil {
		r.res.Note("race variant: output unreadable")
		r.res.Hit("race:run-failed")
		return
	}
	r.judgeHistories(hs, "-race")
	reports, _ := filepath.Glob(logp + "*")
	nrep := 0
	for _, rp := range reports {
		b, _ := os.ReadFile(rp)
		s := string(b)
		k := strings.Count(s, "WARNING: DATA RACE")
		nrep += k
		if k > 0 {
			if len(s) > 1500 {
				s = s[:1500]
			}
			r.res.Violate("tee-data-race-reported", "race detector report (first 1500 bytes): "+s, map[string]any{"kind": "tee-concurrent-race", "seed": f.Seed})
		}
	}
	r.res.Distribution["race:reports"] = nrep
	r.res.Hit("race:built-and-run")
	r.res.Note(fmt.Sprintf("race variant: built and ran in %.0fs, %d histories, %d race reports", time.Since(t0).Seconds(), len(hs), nrep))
}
