package main

import (
	"encoding/hex"
	"fmt"
	"math"

	"verifharness/lib"
)

// ---- case generators ----

// compositions returns every way to write L as an ordered sum of positive chunks (2^(L-1) of them).
func compositions(L int) [][]int {
	if L == 0 {
		return [][]int{{}}
	}
	var out [][]int
	for first := 1; first <= L; first++ {
		for _, rest := range compositions(L - first) {
			out = append(out, append([]int{first}, rest...))
		}
	}
	return out
}

// boundaryChunkings: for lengths too large to enumerate all compositions, the chunkings that put
// a read boundary at every interesting place around the limit N, plus two random compositions.
func boundaryChunkings(L int, N int, r *lib.Rand) [][]int {
	seen := map[string]bool{}
	var out [][]int
	add := func(c []int) {
		sum := 0
		var cc []int
		for _, x := range c {
			if x > 0 {
				cc = append(cc, x)
				sum += x
			}
		}
		if sum != L {
			return
		}
		k := fmt.Sprint(cc)
		if !seen[k] {
			seen[k] = true
			out = append(out, cc)
		}
	}
	ones := make([]int, L)
	for i := range ones {
		ones[i] = 1
	}
	add([]int{L})
	add(ones)
	for _, cut := range []int{1, N - 1, N, N + 1, N + 2, L - 1} {
		if cut > 0 && cut < L {
			add([]int{cut, L - cut})
			if cut > 1 {
				add([]int{cut - 1, 1, L - cut})
			}
			rest := make([]int, 0, L)
			rest = append(rest, cut)
			for i := cut; i < L; i++ {
				rest = append(rest, 1)
			}
			add(rest)
		}
	}
	for i := 0; i < 2; i++ {
		add(randomComposition(L, r))
	}
	return out
}

func randomComposition(L int, r *lib.Rand) []int {
	var c []int
	for L > 0 {
		max := L
		if max > 8 && r.Intn(4) != 0 {
			max = 1 + L/3
		}
		x := r.Range(1, max)
		c = append(c, x)
		L -= x
	}
	return c
}

// withZeros interleaves zero-length reads: 0,c1,0,c2,…,ck,0,0
func withZeros(c []int) []int {
	out := []int{0}
	for _, x := range c {
		out = append(out, x, 0)
	}
	return append(out, 0)
}

func content(L int, salt int) string {
	b := make([]byte, L)
	for i := range b {
		b[i] = byte(0x21 + (i*7+salt*37)%94)
	}
	return hex.EncodeToString(b)
}

type emitFn func(c *Case)

func dedupInts(xs []int) []int {
	seen := map[int]bool{}
	var out []int
	for _, x := range xs {
		if x >= 1 && !seen[x] {
			seen[x] = true
			out = append(out, x)
		}
	}
	return out
}

// genLimit: every N in 0..16, every source length 0..N+3, chunkings, reader styles, consumers.
func genLimit(thorough bool, r *lib.Rand, emit emitFn) {
	maxAll := 5
	if thorough {
		maxAll = 9
	}
	for N := 0; N <= 16; N++ {
		for L := 0; L <= N+3; L++ {
			var chunkings [][]int
			if L <= maxAll {
				chunkings = compositions(L)
			} else {
				chunkings = boundaryChunkings(L, N, r)
			}
			var bufs []int
			if thorough {
				for b := 1; b <= N+2; b++ {
					bufs = append(bufs, b)
				}
			} else {
				bufs = dedupInts([]int{1, 2, N, N + 1, N + 2})
			}
			for _, ch := range chunkings {
				for style := 0; style < 8; style++ {
					sp := SrcSpec{Content: content(L, N), Script: ch, WithData: style&1 != 0, Boom: style&2 != 0, Closable: true}
					if style&4 != 0 {
						sp.Script = withZeros(ch)
					}
					for _, b := range bufs {
						emit(&Case{Kind: "limit", N: int64(N), WCap: -1, Srcs: []SrcSpec{sp}, Mode: "read", Buf: b, Closes: 1})
					}
					emit(&Case{Kind: "limit", N: int64(N), WCap: -1, Srcs: []SrcSpec{sp}, Mode: "readall", Closes: 1})
					emit(&Case{Kind: "limit", N: int64(N), WCap: -1, Srcs: []SrcSpec{sp}, Mode: "copywrap", Closes: 1})
					emit(&Case{Kind: "limit", N: int64(N), WCap: -1, Srcs: []SrcSpec{sp}, Mode: "copy", Closes: 1})
				}
			}
		}
	}
	genLimitZeroAtOffsets(thorough, emit)
	// limits at the int64 boundary and "unlimited" idioms; negative limits
	for _, N := range []int64{math.MaxInt64, math.MaxInt64 - 1, math.MaxInt32, math.MaxInt32 + 1, math.MaxUint32, 1 << 40} {
		for L := 0; L <= 3; L++ {
			for _, ch := range compositions(L) {
				for style := 0; style < 4; style++ {
					sp := SrcSpec{Content: content(L, 3), Script: ch, WithData: style&1 != 0, Boom: style&2 != 0, Closable: true}
					for _, mode := range []string{"read", "readall", "copywrap", "copy"} {
						emit(&Case{Kind: "limit", N: N, WCap: -1, Srcs: []SrcSpec{sp}, Mode: mode, Buf: 2, Closes: 1})
					}
				}
			}
		}
	}
}

func sourceOptions(maxL int, zerosUpTo int, salt int) []SrcSpec {
	var out []SrcSpec
	for L := 0; L <= maxL; L++ {
		for _, ch := range compositions(L) {
			for style := 0; style < 8; style++ {
				sp := SrcSpec{Content: content(L, salt), Script: ch, WithData: style&1 != 0, Boom: style&2 != 0, Closable: style&4 != 0}
				out = append(out, sp)
				if L <= zerosUpTo {
					z := sp
					z.Script = withZeros(ch)
					out = append(out, z)
				}
			}
		}
	}
	return out
}

func emitMultiModes(srcs []SrcSpec, maxBuf int, emit emitFn) {
	for b := 1; b <= maxBuf; b++ {
		emit(&Case{Kind: "multi", WCap: -1, Srcs: srcs, Mode: "read", Buf: b, Closes: 1})
	}
	for _, mode := range []string{"readall", "copy", "copywrap", "copybuf"} {
		emit(&Case{Kind: "multi", WCap: -1, Srcs: srcs, Mode: mode, Closes: 1})
	}
}

func genMulti(thorough bool, r *lib.Rand, emit emitFn) {
	emitMultiModes(nil, 2, emit)
	maxL, zl := 2, 1
	if thorough {
		maxL, zl = 3, 2
	}
	o0, o1, o2 := sourceOptions(maxL, zl, 0), sourceOptions(maxL, zl, 1), sourceOptions(maxL, zl, 2)
	for _, a := range o0 {
		emitMultiModes([]SrcSpec{a}, maxL+1, emit)
	}
	for _, a := range o0 {
		for _, b := range o1 {
			emitMultiModes([]SrcSpec{a, b}, maxL+1, emit)
		}
	}
	n3 := 4000
	if thorough {
		n3 = 40000
	}
	for i := 0; i < n3; i++ {
		k := 3 + r.Intn(3)
		srcs := make([]SrcSpec, k)
		for j := range srcs {
			switch j % 3 {
			case 0:
				srcs[j] = o0[r.Intn(len(o0))]
			case 1:
				srcs[j] = o1[r.Intn(len(o1))]
			default:
				srcs[j] = o2[r.Intn(len(o2))]
			}
		}
		switch r.Intn(6) {
		case 0, 1:
			emit(&Case{Kind: "multi", WCap: -1, Srcs: srcs, Mode: "read", Buf: r.Range(1, 4), Closes: 1})
		case 2:
			emit(&Case{Kind: "multi", WCap: -1, Srcs: srcs, Mode: "readall", Closes: 1})
		case 3:
			emit(&Case{Kind: "multi", WCap: -1, Srcs: srcs, Mode: "copy", Closes: 1})
		case 4:
			emit(&Case{Kind: "multi", WCap: -1, Srcs: srcs, Mode: "copywrap", Closes: 1})
		default:
			emit(&Case{Kind: "multi", WCap: -1, Srcs: srcs, Mode: "copybuf", Closes: 1})
		}
	}
}

func genTee(thorough bool, emit emitFn) {
	maxL := 5
	if thorough {
		maxL = 7
	}
	for L := 0; L <= maxL; L++ {
		for _, ch := range compositions(L) {
			for style := 0; style < 16; style++ {
				sp := SrcSpec{Content: content(L, 5), Script: ch, WithData: style&1 != 0, Boom: style&2 != 0, Closable: style&8 != 0}
				if style&4 != 0 {
					sp.Script = withZeros(ch)
				}
				for wcap := -1; wcap <= L+1; wcap++ {
					wclos := (wcap+style)%2 == 0
					for b := 1; b <= L+1; b++ {
						emit(&Case{Kind: "tee", WCap: wcap, WClos: wclos, Srcs: []SrcSpec{sp}, Mode: "read", Buf: b, Closes: 1})
					}
					emit(&Case{Kind: "tee", WCap: wcap, WClos: wclos, Srcs: []SrcSpec{sp}, Mode: "readall", Closes: 1})
					emit(&Case{Kind: "tee", WCap: wcap, WClos: wclos, Srcs: []SrcSpec{sp}, Mode: "copywrap", Closes: 1})
					emit(&Case{Kind: "tee", WCap: wcap, WClos: wclos, Srcs: []SrcSpec{sp}, Mode: "copy", Closes: 1})
				}
			}
		}
	}
}

func randomSrc(r *lib.Rand, L int, salt int) SrcSpec {
	b := r.Bytes(L)
	sp := SrcSpec{Content: hex.EncodeToString(b), WithData: r.Bool(), Boom: r.Intn(4) == 0, Closable: r.Intn(5) != 0}
	_ = salt
	switch r.Intn(4) {
	case 0: // no script: the source gives whatever is asked
	case 1:
		sp.Script = randomComposition(L, r)
	default:
		c := randomComposition(L, r)
		for _, x := range c {
			if r.Intn(5) == 0 {
				sp.Script = append(sp.Script, 0)
			}
			sp.Script = append(sp.Script, x)
		}
		for r.Intn(3) == 0 {
			sp.Script = append(sp.Script, 0)
		}
		if r.Intn(3) == 0 && len(sp.Script) > 1 { // script shorter than the content
			sp.Script = sp.Script[:len(sp.Script)/2]
		}
	}
	return sp
}

// genRandomLarge: larger limits and sources, including ones crossing io.Copy's 32 KiB buffer and
// io.ReadAll's growth steps.
func genRandomLarge(count int, r *lib.Rand, emit emitFn) {
	for i := 0; i < count; i++ {
		big := r.Intn(10) == 0
		switch r.Intn(3) {
		case 0:
			N := r.Range(0, 2000)
			if big {
				N = r.Range(30000, 70000)
			}
			L := N + r.Range(-3, 3)
			if r.Intn(4) == 0 {
				L = r.Range(0, 2*N+2)
			}
			if L < 0 {
				L = 0
			}
			sp := randomSrc(r, L, i)
			sp.Closable = true
			c := &Case{Kind: "limit", N: int64(N), WCap: -1, Srcs: []SrcSpec{sp}, Closes: 1}
			pickMode(c, r, false)
			emit(c)
		case 1:
			k := r.Range(1, 6)
			srcs := make([]SrcSpec, k)
			for j := range srcs {
				L := r.Range(0, 600)
				if big && j == 0 {
					L = r.Range(30000, 70000)
				}
				srcs[j] = randomSrc(r, L, j)
				if r.Intn(3) != 0 {
					srcs[j].Boom = false
				}
			}
			c := &Case{Kind: "multi", WCap: -1, Srcs: srcs, Closes: 1}
			pickMode(c, r, true)
			emit(c)
		default:
			L := r.Range(0, 1500)
			if big {
				L = r.Range(30000, 70000)
			}
			wcap := -1
			if r.Intn(3) == 0 {
				wcap = r.Range(0, L+2)
			}
			c := &Case{Kind: "tee", WCap: wcap, WClos: r.Bool(), Srcs: []SrcSpec{randomSrc(r, L, i)}, Closes: 1}
			pickMode(c, r, false)
			emit(c)
		}
	}
}

func pickMode(c *Case, r *lib.Rand, multi bool) {
	n := 4
	if multi {
		n = 5
	}
	switch r.Intn(n) {
	case 0:
		c.Mode = "read"
		c.Buf = []int{1, 2, 3, 7, 64, 512, 4096, 40000}[r.Intn(8)]
	case 1:
		c.Mode = "readall"
	case 2:
		c.Mode = "copywrap"
	case 3:
		c.Mode = "copy"
	default:
		c.Mode = "copybuf"
	}
}

// genOps: literal op sequences, including the ones a well-behaved consumer would not issue
// (read after Close, Close twice, zero-length buffers, Stop, negative limits, WriteTo after Read).
func genOps(count int, r *lib.Rand, emit emitFn) {
	for i := 0; i < count; i++ {
		kind := []string{"limit", "multi", "tee"}[r.Intn(3)]
		c := &Case{Kind: kind, WCap: -1, Mode: "ops"}
		k := 1
		if kind == "multi" {
			k = r.Range(0, 4)
		}
		for j := 0; j < k; j++ {
			sp := randomSrc(r, r.Range(0, 9), j)
			if kind == "limit" {
				sp.Closable = true
			}
			c.Srcs = append(c.Srcs, sp)
		}
		if kind == "limit" {
			c.N = int64(r.Range(-2, 10))
		}
		if kind != "limit" && r.Intn(3) == 0 {
			c.WCap = r.Range(0, 10)
		}
		c.WClos = r.Bool()
		nops := r.Range(1, 10)
		for j := 0; j < nops; j++ {
			switch x := r.Intn(12); {
			case x < 6:
				c.Ops = append(c.Ops, fmt.Sprintf("r%d", r.Range(0, 5)))
			case x < 8:
				c.Ops = append(c.Ops, "c")
			case x == 8:
				c.Ops = append(c.Ops, fmt.Sprintf("d%d:%d.%d", r.Range(1, 4), r.Range(0, 3), r.Range(0, 3)))
			case x == 9 && kind == "multi":
				c.Ops = append(c.Ops, "w")
			case x == 10 && kind == "tee":
				c.Ops = append(c.Ops, "s")
			default:
				c.Ops = append(c.Ops, fmt.Sprintf("r%d", r.Range(1, 12)))
			}
		}
		emit(c)
	}
}

// genWriteToFailingWriter: WriteTo into a writer that fails after wcap bytes, then resume by Read
// or a second WriteTo, then Close (model comparison: per-op results, writer bytes, close counts).
func genWriteToFailingWriter(emit emitFn) {
	o0, o1 := sourceOptions(2, 0, 0), sourceOptions(2, 0, 1)
	for _, a := range o0 {
		for _, b := range o1 {
			for wcap := 0; wcap <= 4; wcap++ {
				emit(&Case{Kind: "multi", WCap: wcap, WClos: false, Srcs: []SrcSpec{a, b}, Mode: "ops", Ops: []string{"w", "c"}})
				if wcap%2 == 0 {
					emit(&Case{Kind: "multi", WCap: wcap, WClos: false, Srcs: []SrcSpec{a, b}, Mode: "ops", Ops: []string{"w", "r3", "w", "d2:", "c", "c"}})
				}
			}
		}
	}
}

// genLimitZeroAtOffsets: zero-length reads `(0, nil)` — one, and two in a row — at EVERY byte
// offset k of the source, in particular exactly at N and N+1, for sources around and above the
// limit, consumed by every consumer including io.Copy straight on the reader.  Three chunk shapes:
//   ones:    1,1,…(k times),0[,0],1,1,…   the zero read sits at offset k whatever buffer sizes the
//                                          consumer (or a fast path inside the reader) uses
//   prefix:  k,0[,0]                        one full chunk up to k, zero read, rest uncapped
//   prefix1: k,0[,0],1,1,…                  … rest byte by byte
func genLimitZeroAtOffsets(thorough bool, emit emitFn) {
	for N := 0; N <= 16; N++ {
		lo := N
		if thorough && N > 0 {
			lo = N - 1
		}
		for L := lo; L <= N+3; L++ {
			for k := 0; k <= L; k++ {
				for z := 1; z <= 2; z++ {
					zeros := make([]int, z)
					for shape := 0; shape < 3; shape++ {
						var sc []int
						switch shape {
						case 0:
							for i := 0; i < k; i++ {
								sc = append(sc, 1)
							}
							sc = append(sc, zeros...)
							for i := k; i < L; i++ {
								sc = append(sc, 1)
							}
						case 1:
							if k > 0 {
								sc = append(sc, k)
							}
							sc = append(sc, zeros...)
						default:
							if k > 0 {
								sc = append(sc, k)
							}
							sc = append(sc, zeros...)
							for i := k; i < L; i++ {
								sc = append(sc, 1)
							}
						}
						for style := 0; style < 4; style++ {
							sp := SrcSpec{Content: content(L, N+1), Script: sc, WithData: style&1 != 0, Boom: style&2 != 0, Closable: true}
							mk := func(mode string, buf int) {
								emit(&Case{Kind: "limit", N: int64(N), WCap: -1, Srcs: []SrcSpec{sp}, Mode: mode, Buf: buf, Closes: 1})
							}
							mk("copy", 0)
							mk("readall", 0)
							mk("read", N+2)
							if thorough {
								mk("copywrap", 0)
								mk("read", 1)
								mk("read", N+1)
							}
						}
					}
				}
			}
		}
	}
}

// sourceOptionsX: small sources with every combination of terminal kind (EOF, error,
// http.ErrBodyReadAfterClose), terminal with data / alone, closer or not, io.WriterTo or not.
func sourceOptionsX(salt int) []SrcSpec {
	var out []SrcSpec
	for _, sc := range [][]int{{}, {1}, {1, 1}, {0, 2, 0}} {
		L := 0
		for _, x := range sc {
			L += x
		}
		for style := 0; style < 24; style++ {
			sp := SrcSpec{Content: content(L, salt), Script: sc, WithData: style&1 != 0, Closable: style&2 != 0, WT: style&4 != 0}
			switch style / 8 {
			case 1:
				sp.Boom = true
			case 2:
				sp.BodyClosed = true
			}
			out = append(out, sp)
		}
	}
	return out
}

// genMultiFastPaths: the io.CopyBuffer fast paths inside MultiReaderCloser.WriteTo (sources with
// WriteTo, writers with ReadFrom of several buffer sizes) and the ErrBodyReadAfterClose branch of
// Read, for one and two sources exhaustively over sourceOptionsX.
func genMultiFastPaths(thorough bool, r *lib.Rand, emit emitFn) {
	o0, o1 := sourceOptionsX(0), sourceOptionsX(1)
	modes := func(srcs []SrcSpec) {
		for _, rf := range []int{0, 1, 3, 512} {
			emit(&Case{Kind: "multi", WCap: -1, RF: rf, Srcs: srcs, Mode: "copy", Closes: 1})
		}
		emit(&Case{Kind: "multi", WCap: -1, Srcs: srcs, Mode: "copybuf", Closes: 1})
		emit(&Case{Kind: "multi", WCap: -1, Srcs: srcs, Mode: "read", Buf: 1, Closes: 1})
		emit(&Case{Kind: "multi", WCap: -1, Srcs: srcs, Mode: "read", Buf: 3, Closes: 1})
		emit(&Case{Kind: "multi", WCap: -1, Srcs: srcs, Mode: "readall", Closes: 1})
	}
	for _, a := range o0 {
		modes([]SrcSpec{a})
		// failing writers (model comparison of per-op results, writer bytes, close counts), resume
		for wcap := 0; wcap <= 2; wcap++ {
			for _, rf := range []int{0, 1} {
				emit(&Case{Kind: "multi", WCap: wcap, RF: rf, WClos: wcap == 1, Srcs: []SrcSpec{a}, Mode: "ops", Ops: []string{"w", "w", "r2", "c"}})
			}
		}
	}
	for i, a := range o0 {
		for j, b := range o1 {
			if !thorough && (i*7+j*3)%4 != 0 { // quick: a quarter of the pairs, every option still occurs in both positions
				continue
			}
			modes([]SrcSpec{a, b})
			wcap := (i + j) % 4
			emit(&Case{Kind: "multi", WCap: wcap, RF: (i + j) % 2, Srcs: []SrcSpec{a, b}, Mode: "ops", Ops: []string{"w", "r1", "w", "c", "c"}})
		}
	}
	// three to five sources, sampled
	n := 3000
	if thorough {
		n = 30000
	}
	for i := 0; i < n; i++ {
		k := 3 + r.Intn(3)
		srcs := make([]SrcSpec, k)
		for j := range srcs {
			if j%2 == 0 {
				srcs[j] = o0[r.Intn(len(o0))]
			} else {
				srcs[j] = o1[r.Intn(len(o1))]
			}
			if r.Intn(3) != 0 { // keep most streams going past the first source
				srcs[j].Boom = false
			}
		}
		switch r.Intn(4) {
		case 0:
			emit(&Case{Kind: "multi", WCap: -1, RF: []int{0, 1, 7, 512}[r.Intn(4)], Srcs: srcs, Mode: "copy", Closes: 1})
		case 1:
			emit(&Case{Kind: "multi", WCap: -1, Srcs: srcs, Mode: "copybuf", Closes: 1})
		case 2:
			emit(&Case{Kind: "multi", WCap: -1, Srcs: srcs, Mode: "read", Buf: r.Range(1, 4), Closes: 1})
		default:
			emit(&Case{Kind: "multi", WCap: r.Range(0, 6), RF: r.Intn(3), Srcs: srcs, Mode: "ops", Ops: []string{"r1", "w", "w", "c"}})
		}
	}
}

// genStd: real standard-library sources that implement io.WriterTo (strings.Reader, bytes.Reader,
// bytes.Buffer, *os.File) and real destinations that implement io.ReaderFrom (bytes.Buffer,
// *os.File), mixed with scripted ones, through every reader and consumer.
func genStd(thorough bool, r *lib.Rand, emit emitFn) {
	stds := []string{"strings", "bytesreader", "bytesbuffer", "file"}
	lens := []int{0, 1, 5, 700, 40000}
	mk := func(std string, L, salt int) SrcSpec {
		return SrcSpec{Content: content(L, salt), Std: std, Closable: true}
	}
	for _, std := range stds {
		for li, L := range lens {
			if std == "file" && L == 40000 && !thorough {
				continue
			}
			one := []SrcSpec{mk(std, L, li)}
			scripted := SrcSpec{Content: content(3, 9), Script: []int{1, 0, 2}, WithData: true, Closable: true}
			lists := [][]SrcSpec{one, {scripted, mk(std, L, li)}, {mk(std, L, li), scripted, mk(stds[(li+1)%4], 5, 7)}}
			for _, srcs := range lists {
				for _, stdw := range []string{"", "bytesbuffer", "file"} {
					emit(&Case{Kind: "multi", WCap: -1, StdW: stdw, Srcs: srcs, Mode: "copy", Closes: 1})
				}
				emit(&Case{Kind: "multi", WCap: -1, RF: 4, Srcs: srcs, Mode: "copy", Closes: 1})
				emit(&Case{Kind: "multi", WCap: -1, Srcs: srcs, Mode: "readall", Closes: 1})
				emit(&Case{Kind: "multi", WCap: -1, Srcs: srcs, Mode: "read", Buf: 3, Closes: 1})
				// failing writer + resume: not for *os.File sources — os.File.WriteTo reads ahead of
				// what the writer accepted (generic io.Copy inside), which Src.writeTo does not model
				hasFile := false
				for _, sp := range srcs {
					hasFile = hasFile || sp.Std == "file"
				}
				if L <= 5 && !hasFile {
					emit(&Case{Kind: "multi", WCap: 2, Srcs: srcs, Mode: "ops", Ops: []string{"w", "r4", "c"}})
				}
			}
			// the same real sources under limit and tee (they only ever see Read there)
			for _, N := range []int64{int64(L) - 1, int64(L), int64(L) + 1} {
				if N < 0 {
					continue
				}
				for _, mode := range []string{"copy", "readall"} {
					emit(&Case{Kind: "limit", N: N, WCap: -1, Srcs: one, Mode: mode, Closes: 1})
				}
			}
			for _, wcap := range []int{-1, L / 2} {
				emit(&Case{Kind: "tee", WCap: wcap, WClos: true, RF: li % 2, Srcs: one, Mode: "copy", Closes: 1})
				emit(&Case{Kind: "tee", WCap: wcap, WClos: true, Srcs: one, Mode: "read", Buf: 4096, Closes: 1})
			}
		}
	}
	_ = r
}
