// Package teeconc runs streams.TeeReadCloser from several goroutines (Read ∥ Close ∥ Stop) and
// records the history of calls.  It is used in-process by harness/cmd/c16 and, built with -race,
// by harness/cmd/c16/racewl.  The scripted source/writer here are NOT synchronised on purpose:
// TeeReadCloser must only touch them under its mutex, so any report of the race detector on
// them is a locking bug in TeeReadCloser.
package teeconc

import (
	"encoding/hex"
	"errors"
	"fmt"
	"io"
	"runtime"
	"strconv"
	"strings"
	"sync"
	"sync/atomic"
	"time"

	"github.com/dapr/kit/streams"
)

var (
	ErrBoom      = errors.New("c16: scripted source error")
	ErrSrcClosed = errors.New("c16: read from closed scripted source")
	ErrWFail     = errors.New("c16: scripted writer full")
)

// Spec is one concurrent scenario. Content is position-coded (byte i = i) so that every chunk a
// Read returns identifies its own offset.
type Spec struct {
	Len      int        `json:"len"`
	Script   []int      `json:"script"`
	WithData bool       `json:"with_data"`
	Boom     bool       `json:"boom"`
	Closable bool       `json:"closable"`
	WCap     int        `json:"wcap"`
	WClos    bool       `json:"wclos"`
	Gs       [][]string `json:"goroutines"` // per goroutine: ops r<m> | c | s
	Yield    int        `json:"yield"`      // how the source's Read gives other goroutines a chance
}

type Call struct {
	G   int    `json:"g"`
	Inv int64  `json:"inv"`
	Ret int64  `json:"ret"`
	Op  string `json:"op"`
	Res string `json:"res"`
}

type History struct {
	Spec    Spec   `json:"spec"`
	Calls   []Call `json:"calls"`
	Closes  int    `json:"closes"`
	WGot    string `json:"wgot"`
	WCl     int    `json:"wcl"`
	Timeout bool   `json:"timeout,omitempty"`
	Panic   string `json:"panic,omitempty"`
}

func Content(n int) []byte {
	b := make([]byte, n)
	for i := range b {
		b[i] = byte(i)
	}
	return b
}

type src struct {
	rest     []byte
	script   []int
	withData bool
	term     error
	closes   int
	yield    int
}

// Read: same semantics as Src.read of the Lean model (see harness/cmd/c16/script.go).
func (s *src) Read(p []byte) (int, error) {
	switch s.yield {
	case 1:
		runtime.Gosched()
	case 2:
		time.Sleep(20 * time.Microsecond)
	}
	if s.closes > 0 {
		return 0, ErrSrcClosed
	}
	k := len(p)
	if len(s.script) > 0 {
		c := s.script[0]
		s.script = s.script[1:]
		if c < k {
			k = c
		}
	}
	if k == 0 {
		return 0, nil
	}
	if len(s.rest) == 0 {
		return 0, s.term
	}
	n := k
	if len(s.rest) < n {
		n = len(s.rest)
	}
	copy(p, s.rest[:n])
	s.rest = s.rest[n:]
	if len(s.rest) == 0 && s.withData {
		return n, s.term
	}
	return n, nil
}

type closableSrc struct{ *src }

func (c closableSrc) Close() error { c.src.closes++; return nil }

type readerOnly struct{ s *src }

func (r readerOnly) Read(p []byte) (int, error) { return r.s.Read(p) }

type wr struct {
	got    []byte
	cap    int
	closes int
}

func (w *wr) Write(p []byte) (int, error) {
	if w.cap < 0 {
		w.got = append(w.got, p...)
		return len(p), nil
	}
	if len(p) <= w.cap {
		w.got = append(w.got, p...)
		w.cap -= len(p)
		return len(p), nil
	}
	n := w.cap
	w.got = append(w.got, p[:n]...)
	w.cap = 0
	return n, ErrWFail
}

type closableWr struct{ *wr }

func (c closableWr) Close() error { c.wr.closes++; return nil }

type writerOnly struct{ w *wr }

func (x writerOnly) Write(p []byte) (int, error) { return x.w.Write(p) }

func errName(err error) string {
	switch {
	case err == nil:
		return "nil"
	case err == io.EOF:
		return "eof"
	case err == ErrBoom:
		return "boom"
	case err == io.ErrClosedPipe:
		return "closedpipe"
	case err == ErrSrcClosed:
		return "srcclosed"
	case err == ErrWFail:
		return "wfail"
	}
	return "other(" + strings.ReplaceAll(err.Error(), " ", "_") + ")"
}

// Run executes the scenario on the real TeeReadCloser.
func Run(sp Spec) History {
	h := History{Spec: sp}
	term := io.EOF
	if sp.Boom {
		term = ErrBoom
	}
	s := &src{rest: Content(sp.Len), script: append([]int(nil), sp.Script...), withData: sp.WithData, term: term, yield: sp.Yield}
	w := &wr{cap: sp.WCap}
	var rd io.Reader = readerOnly{s}
	if sp.Closable {
		rd = closableSrc{s}
	}
	var wi io.Writer = writerOnly{w}
	if sp.WClos {
		wi = closableWr{w}
	}
	t := streams.NewTeeReadCloser(rd, wi)
	var clock atomic.Int64
	var mu sync.Mutex
	var wg sync.WaitGroup
	start := make(chan struct{})
	for g, ops := range sp.Gs {
		wg.Add(1)
		go func(g int, ops []string) {
			defer wg.Done()
			defer func() {
				if x := recover(); x != nil {
					mu.Lock()
					h.Panic = fmt.Sprint(x)
					mu.Unlock()
				}
			}()
			<-start
			for _, op := range ops {
				var res string
				inv := clock.Add(1)
				switch {
				case op == "c":
					t.Close()
					res = "c"
				case op == "s":
					t.Stop()
					res = "s"
				default:
					m, _ := strconv.Atoi(op[1:])
					p := make([]byte, m)
					n, err := t.Read(p)
					if n < 0 || n > m {
						res = fmt.Sprintf("r:badcount(%d):%s", n, errName(err))
					} else {
						res = "r:" + hex.EncodeToString(p[:n]) + ":" + errName(err)
					}
				}
				ret := clock.Add(1)
				mu.Lock()
				h.Calls = append(h.Calls, Call{G: g, Inv: inv, Ret: ret, Op: op, Res: res})
				mu.Unlock()
			}
		}(g, ops)
	}
	close(start)
	done := make(chan struct{})
	go func() { wg.Wait(); close(done) }()
	select {
	case <-done:
	case <-time.After(20 * time.Second):
		h.Timeout = true
		return h
	}
	h.Closes, h.WGot, h.WCl = s.closes, hex.EncodeToString(w.got), w.closes
	return h
}

// splitmix64, same as lib.Rand (kept local so that the -race binary needs nothing else)
type rnd struct{ s uint64 }

func (r *rnd) u64() uint64 {
	r.s += 0x9e3779b97f4a7c15
	z := r.s
	z = (z ^ (z >> 30)) * 0xbf58476d1ce4e5b9
	z = (z ^ (z >> 27)) * 0x94d049bb133111eb
	return z ^ (z >> 31)
}
func (r *rnd) intn(n int) int { return int(r.u64() % uint64(n)) }

// Generate derives n scenarios from the seed: 2–4 goroutines, 1–3 calls each (≤ 9 calls per
// history so that the linearization search stays small), at least one Close or Stop in most.
func Generate(seed uint64, n int) []Spec {
	r := &rnd{s: seed ^ 0xc16c16}
	out := make([]Spec, 0, n)
	for i := 0; i < n; i++ {
		sp := Spec{Len: r.intn(12), WithData: r.intn(2) == 0, Boom: r.intn(5) == 0, Closable: r.intn(4) != 0,
			WCap: -1, WClos: r.intn(3) != 0, Yield: r.intn(3)}
		if r.intn(4) == 0 {
			sp.WCap = r.intn(sp.Len + 2)
		}
		left := sp.Len
		for left > 0 && r.intn(5) != 0 {
			if r.intn(5) == 0 {
				sp.Script = append(sp.Script, 0)
			}
			x := 1 + r.intn(left)
			sp.Script = append(sp.Script, x)
			left -= x
		}
		g := 2 + r.intn(3)
		for j := 0; j < g; j++ {
			var ops []string
			k := 1 + r.intn(3)
			if g == 4 && k > 2 {
				k = 2
			}
			for x := 0; x < k; x++ {
				switch y := r.intn(10); {
				case y < 6:
					ops = append(ops, "r"+strconv.Itoa(1+r.intn(5)))
				case y < 9:
					ops = append(ops, "c")
				default:
					ops = append(ops, "s")
				}
			}
			sp.Gs = append(sp.Gs, ops)
		}
		out = append(out, sp)
	}
	return out
}
