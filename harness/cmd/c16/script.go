package main

import (
	"errors"
	"io"
)

// Scripted source and writer: the Go mirror of `Src` / `Wr` in lean/KitModel/Streams.lean.
// Keep the two in step line by line (Src.read / Src.deliver / Wr.write).

var (
	errBoom      = errors.New("c16: scripted source error")
	errSrcClosed = errors.New("c16: read from closed scripted source")
	errWFail     = errors.New("c16: scripted writer full")
)

type src struct {
	rest     []byte
	script   []int
	withData bool
	term     error
	closes   int
	reads    int
	// readsAfterClose is observed only by monitors/notes, never part of the model comparison.
	readsAfterClose int
}

// Read mirrors Src.read: closed -> error; take the next script cap (if any); k = min(len(p), cap);
// k = 0 -> (0, nil); nothing left -> (0, term); else deliver min(k, remaining) bytes, with the
// terminal in the same call iff withData and nothing remains.
func (s *src) Read(p []byte) (int, error) {
	s.reads++
	if s.closes > 0 {
		s.readsAfterClose++
		return 0, errSrcClosed
	}
	k := len(p)
	if len(s.script) > 0 {
		c := s.script[0]
		s.script = s.script[1:]
		if c < k {
			k = c
		}
	}
	if k == 0 {
		return 0, nil
	}
	if len(s.rest) == 0 {
		return 0, s.term
	}
	n := k
	if len(s.rest) < n {
		n = len(s.rest)
	}
	copy(p, s.rest[:n])
	s.rest = s.rest[n:]
	// io.Reader: "Read may use all of p as scratch space" — scribble over the unused part.
	for i := n; i < len(p); i++ {
		p[i] = 0xEE
	}
	if len(s.rest) == 0 && s.withData {
		return n, s.term
	}
	return n, nil
}

// writeTo mirrors Src.writeTo: the whole rest goes to w in ONE Write; the source advances by what
// the writer accepted; result = the writer's error, else the terminal (nil for EOF).
func (s *src) writeTo(w io.Writer) (int64, error) {
	if s.closes > 0 {
		s.readsAfterClose++
		return 0, errSrcClosed
	}
	if len(s.rest) == 0 {
		return 0, errOfTerm(s.term)
	}
	n, err := w.Write(s.rest)
	if n < 0 || n > len(s.rest) {
		panic("c16: writer returned an impossible count")
	}
	s.rest = s.rest[n:]
	if err != nil {
		return int64(n), err
	}
	return int64(n), errOfTerm(s.term)
}

func errOfTerm(e error) error {
	if e == io.EOF {
		return nil
	}
	return e
}

// The four shapes of a scripted source as seen through type assertions: with/without io.Closer,
// with/without io.WriterTo.
type closableSrcWT struct{ *src }

func (c closableSrcWT) Close() error                        { c.src.closes++; return nil }
func (c closableSrcWT) WriteTo(w io.Writer) (int64, error) { return c.src.writeTo(w) }

type readerOnlyWT struct{ s *src }

func (r readerOnlyWT) Read(p []byte) (int, error)         { return r.s.Read(p) }
func (r readerOnlyWT) WriteTo(w io.Writer) (int64, error) { return r.s.writeTo(w) }

// stdSrc wraps a real standard-library reader that implements io.WriterTo (strings.Reader,
// bytes.Reader, bytes.Buffer, *os.File) and counts Close calls; after Close it fails like the
// scripted source does.
type stdSrc struct {
	r interface {
		io.Reader
		io.WriterTo
	}
	closes int
}

func (s *stdSrc) Read(p []byte) (int, error) {
	if s.closes > 0 {
		return 0, errSrcClosed
	}
	return s.r.Read(p)
}
func (s *stdSrc) WriteTo(w io.Writer) (int64, error) {
	if s.closes > 0 {
		return 0, errSrcClosed
	}
	return s.r.WriteTo(w)
}
func (s *stdSrc) Close() error { s.closes++; return nil }

// closableSrc adds Close (io.ReadCloser); a bare *src wrapped in readerOnly has no Close method.
type closableSrc struct{ *src }

func (c closableSrc) Close() error { c.src.closes++; return nil }

type readerOnly struct{ s *src }

func (r readerOnly) Read(p []byte) (int, error) { return r.s.Read(p) }

// wr mirrors Wr.write: accepts `cap` more bytes (cap < 0: unlimited), then fails with a short write.
type wr struct {
	got    []byte
	cap    int
	closes int
	rf     int // > 0: the ReadFrom variants read with buffers of this size
}

// readFrom mirrors copyLoop with m = rf (the scripted writer's io.ReaderFrom).
func (w *wr) readFrom(r io.Reader) (int64, error) {
	buf := make([]byte, w.rf)
	var total int64
	for i := 0; i < 1<<22; i++ {
		n, er := r.Read(buf)
		if n > 0 {
			nw, ew := w.Write(buf[:n])
			total += int64(nw)
			if ew != nil {
				return total, ew
			}
		}
		if er == io.EOF {
			return total, nil
		}
		if er != nil {
			return total, er
		}
	}
	return total, errors.New("stuck")
}

type closableWrRF struct{ *wr }

func (c closableWrRF) Close() error                          { c.wr.closes++; return nil }
func (c closableWrRF) ReadFrom(r io.Reader) (int64, error) { return c.wr.readFrom(r) }

type writerOnlyRF struct{ w *wr }

func (x writerOnlyRF) Write(p []byte) (int, error)          { return x.w.Write(p) }
func (x writerOnlyRF) ReadFrom(r io.Reader) (int64, error) { return x.w.readFrom(r) }

func (w *wr) Write(p []byte) (int, error) {
	if w.cap < 0 {
		w.got = append(w.got, p...)
		return len(p), nil
	}
	if len(p) <= w.cap {
		w.got = append(w.got, p...)
		w.cap -= len(p)
		return len(p), nil
	}
	n := w.cap
	w.got = append(w.got, p[:n]...)
	w.cap = 0
	return n, errWFail
}

type closableWr struct{ *wr }

func (c closableWr) Close() error { c.wr.closes++; return nil }

type writerOnly struct{ w *wr }

func (x writerOnly) Write(p []byte) (int, error) { return x.w.Write(p) }

// recorder sits between a consumer (io.ReadAll, io.Copy) and the reader under test and records
// every Read: buffer size, bytes, error.  It has no WriteTo, so io.Copy goes through Read.
type recorder struct {
	r     io.Reader
	sizes []int
	data  []byte
	last  error
}

func (r *recorder) Read(p []byte) (int, error) {
	n, err := r.r.Read(p)
	r.sizes = append(r.sizes, len(p))
	if n > 0 {
		r.data = append(r.data, p[:n]...)
	}
	r.last = err
	return n, err
}
