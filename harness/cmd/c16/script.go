package main

import (
	"errors"
	"io"
)

// Scripted source and writer: the Go mirror of `Src` / `Wr` in lean/KitModel/Streams.lean.
// Keep the two in step line by line (Src.read / Src.deliver / Wr.write).

var (
	errBoom      = errors.New("c16: scripted source error")
	errSrcClosed = errors.New("c16: read from closed scripted source")
	errWFail     = errors.New("c16: scripted writer full")
)

type src struct {
	rest     []byte
	script   []int
	withData bool
	term     error
	closes   int
	reads    int
	// readsAfterClose is observed only by monitors/notes, never part of the model comparison.
	readsAfterClose int
}

// Read mirrors Src.read: closed -> error; take the next script cap (if any); k = min(len(p), cap);
// k = 0 -> (0, nil); nothing left -> (0, term); else deliver min(k, remaining) bytes, with the
// terminal in the same call iff withData and nothing remains.
func (s *src) Read(p []byte) (int, error) {
	s.reads++
	if s.closes > 0 {
		s.readsAfterClose++
		return 0, errSrcClosed
	}
	k := len(p)
	if len(s.script) > 0 {
		c := s.script[0]
		s.script = s.script[1:]
		if c < k {
			k = c
		}
	}
	if k == 0 {
		return 0, nil
	}
	if len(s.rest) == 0 {
		return 0, s.term
	}
	n := k
	if len(s.rest) < n {
		n = len(s.rest)
	}
	copy(p, s.rest[:n])
	s.rest = s.rest[n:]
	// io.Reader: "Read may use all of p as scratch space" — scribble over the unused part.
	for i := n; i < len(p); i++ {
		p[i] = 0xEE
	}
	if len(s.rest) == 0 && s.withData {
		return n, s.term
	}
	return n, nil
}

// closableSrc adds Close (io.ReadCloser); a bare *src wrapped in readerOnly has no Close method.
type closableSrc struct{ *src }

func (c closableSrc) Close() error { c.src.closes++; return nil }

type readerOnly struct{ s *src }

func (r readerOnly) Read(p []byte) (int, error) { return r.s.Read(p) }

// wr mirrors Wr.write: accepts `cap` more bytes (cap < 0: unlimited), then fails with a short write.
type wr struct {
	got    []byte
	cap    int
	closes int
}

func (w *wr) Write(p []byte) (int, error) {
	if w.cap < 0 {
		w.got = append(w.got, p...)
		return len(p), nil
	}
	if len(p) <= w.cap {
		w.got = append(w.got, p...)
		w.cap -= len(p)
		return len(p), nil
	}
	n := w.cap
	w.got = append(w.got, p[:n]...)
	w.cap = 0
	return n, errWFail
}

type closableWr struct{ *wr }

func (c closableWr) Close() error { c.wr.closes++; return nil }

type writerOnly struct{ w *wr }

func (x writerOnly) Write(p []byte) (int, error) { return x.w.Write(p) }

// recorder sits between a consumer (io.ReadAll, io.Copy) and the reader under test and records
// every Read: buffer size, bytes, error.  It has no WriteTo, so io.Copy goes through Read.
type recorder struct {
	r     io.Reader
	sizes []int
	data  []byte
	last  error
}

func (r *recorder) Read(p []byte) (int, error) {
	n, err := r.r.Read(p)
	r.sizes = append(r.sizes, len(p))
	if n > 0 {
		r.data = append(r.data, p[:n]...)
	}
	r.last = err
	return n, err
}
