package main

import (
	"bytes"
	"encoding/hex"
	"errors"
	"fmt"
	"io"
	"math"
	"net/http"
	"os"
	"strconv"
	"strings"
	"time"

	"github.com/dapr/kit/streams"
)

// SrcSpec is one scripted source (see lean/KitModel/Streams.lean, `Src`).
type SrcSpec struct {
	Content  string `json:"content"` // hex
	Script   []int  `json:"script"`
	WithData bool   `json:"with_data"`
	Boom     bool   `json:"boom"` // terminal is an error instead of EOF
	Closable bool   `json:"closable"`
	// BodyClosed: the terminal is http.ErrBodyReadAfterClose (takes precedence over Boom)
	BodyClosed bool `json:"body_closed,omitempty"`
	// WT: the source also implements io.WriterTo (Src.hasWriteTo)
	WT bool `json:"wt,omitempty"`
	// Std: use a real standard-library source instead of the scripted one: "strings" (strings.Reader),
	// "bytesreader" (bytes.Reader), "bytesbuffer" (bytes.Buffer), "file" (*os.File). They all
	// implement io.WriterTo; modelled as a scripted source with no script, EOF alone, hasWriteTo.
	Std string `json:"std,omitempty"`
}

// Case is one concrete experiment on a reader of package streams.
type Case struct {
	Kind  string    `json:"kind"` // limit | multi | tee
	N     int64     `json:"n"`    // limit
	WCap  int       `json:"wcap"` // tee writer / multi WriteTo destination; -1 = never fails
	WClos bool      `json:"wclos"`
	Srcs  []SrcSpec `json:"srcs"`
	// Mode: read (Read loop, buffer Buf) | readall (io.ReadAll) | copy (io.Copy straight on the
	// reader: WriteTo for multi, whatever io.Copy picks for limit/tee)
	// | copywrap (io.Copy through Read) | copybuf (io.Copy into a bytes.Buffer; monitors only)
	// | ops (literal op list: r<m>, d<dflt>:<b.b>, w, c, s)
	Mode   string   `json:"mode"`
	Buf    int      `json:"buf,omitempty"`
	Ops    []string `json:"ops,omitempty"`
	Closes int      `json:"closes"` // Close calls after consumption (modes other than ops)
	// RF > 0: the scripted writer also implements io.ReaderFrom, reading with buffers of RF bytes
	RF int `json:"rf,omitempty"`
	// StdW: a real standard-library writer as WriteTo destination (multi, mode copy):
	// "bytesbuffer" (bytes.Buffer: ReadFrom with >= 512-byte reads) or "file" (*os.File: ReadFrom)
	StdW string `json:"stdw,omitempty"`
}

func (s SrcSpec) bytes() []byte {
	b, err := hex.DecodeString(s.Content)
	if err != nil {
		panic("bad hex in case: " + err.Error())
	}
	return b
}

func (s SrcSpec) encode() string {
	sc := make([]string, len(s.Script))
	for i, c := range s.Script {
		sc[i] = strconv.Itoa(c)
	}
	t := "e"
	if s.Boom {
		t = "b"
	}
	if s.BodyClosed {
		t = "h"
	}
	if s.Std != "" {
		return fmt.Sprintf("%s::0:e:1:1", s.Content)
	}
	return fmt.Sprintf("%s:%s:%s:%s:%s:%s", s.Content, strings.Join(sc, "."), b01(s.WithData), t, b01(s.Closable), b01(s.WT))
}

func (s SrcSpec) termName() string {
	switch {
	case s.Std != "":
		return "eof"
	case s.BodyClosed:
		return "bodyclosed"
	case s.Boom:
		return "boom"
	}
	return "eof"
}

func b01(b bool) string {
	if b {
		return "1"
	}
	return "0"
}

// modelLine is the request sent to `kitdrv C16` for the ops actually executed.
func (c *Case) modelLine(ops []string) string {
	ss := make([]string, len(c.Srcs))
	for i, s := range c.Srcs {
		ss[i] = s.encode()
	}
	wcap := "-"
	if c.WCap >= 0 {
		wcap = strconv.Itoa(c.WCap)
	}
	rf := c.RF
	switch c.stdW() {
	case "bytesbuffer":
		rf = 512 // bytes.MinRead; the result does not depend on the size (copyBuffer_all_paths)
	case "file":
		rf = 32768 // os.File.ReadFrom falls back to io.Copy's generic loop for these sources
	}
	return fmt.Sprintf("case kind=%s ver=%s n=%d wcap=%s wclos=%s rf=%d srcs=%s ops=%s",
		c.Kind, modelVer, c.N, wcap, b01(c.WClos), rf, strings.Join(ss, "|"), strings.Join(ops, ","))
}

func (c *Case) stdW() string {
	if c.Mode == "copybuf" {
		return "bytesbuffer"
	}
	return c.StdW
}

func errName(err error) string {
	switch {
	case err == http.ErrBodyReadAfterClose:
		return "bodyclosed"
	case err == nil:
		return "nil"
	case err == io.EOF:
		return "eof"
	case err == errBoom:
		return "boom"
	case err == streams.ErrStreamTooLarge:
		return "toolarge"
	case err == io.ErrClosedPipe:
		return "closedpipe"
	case err == errSrcClosed:
		return "srcclosed"
	case err == errWFail:
		return "wfail"
	case errors.Is(err, errPanic):
		return "panic"
	}
	return "other(" + strings.ReplaceAll(err.Error(), " ", "_") + ")"
}

var errPanic = errors.New("panic")

// modelVer selects which version of the model the driver runs: "fixed" (the code after the fix:
// commits; what the theorems are about) or "orig" (the code as found; C16_MODEL_VER=orig is used
// only to self-test the tie and to confirm the witnesses against an unrepaired tree).
var modelVer = func() string {
	if v := os.Getenv("C16_MODEL_VER"); v == "orig" {
		return "orig"
	}
	return "fixed"
}()

// Obs is what was observed on the real code.
type Obs struct {
	Ops      []string // ops as executed (model format)
	Res      []string // per-op results (model format)
	Closes   []int    // per source, at the end
	WGot     []byte
	WCl      int
	Bytes    []byte // full-consumption modes: everything the consumer received
	Term     string // … and the error that ended consumption
	ClosesAt []int  // per-source Close counts right after consumption, before Close()
	Panic    string
	Timeout  bool
	ReadsAfterClose int
	CopyN    int64
}

func (o *Obs) answer(kind string) string {
	cl := make([]string, len(o.Closes))
	for i, c := range o.Closes {
		cl[i] = strconv.Itoa(c)
	}
	wgot := hex.EncodeToString(o.WGot)
	if kind == "limit" {
		wgot = ""
	}
	return fmt.Sprintf("ok ops=%s closes=%s wgot=%s wcl=%d", strings.Join(o.Res, ","), strings.Join(cl, "."), wgot, o.WCl)
}

type stopper interface{ Stop() error }

// safeRead runs one Read of the real code under recover.
func safeRead(r io.Reader, p []byte) (n int, err error) {
	defer func() {
		if x := recover(); x != nil {
			n, err = 0, fmt.Errorf("%w: %v", errPanic, x)
		}
	}()
	return r.Read(p)
}

type guarded struct{ r io.Reader }

func (g guarded) Read(p []byte) (int, error) { return safeRead(g.r, p) }

// drainImpl is the consumer loop of the model's `drain` on the real reader.
func drainImpl(r io.Reader, bufs []int, dflt int, limit int) ([]byte, error) {
	var out []byte
	for i := 0; ; i++ {
		if i > limit {
			return out, errors.New("stuck")
		}
		m := dflt
		if i < len(bufs) {
			m = bufs[i]
		}
		p := make([]byte, m)
		n, err := safeRead(r, p)
		if n > 0 && n <= len(p) {
			out = append(out, p[:n]...)
		}
		if err != nil {
			return out, err
		}
	}
}

func sizesOp(sizes []int) string {
	s := make([]string, len(sizes))
	for i, x := range sizes {
		s[i] = strconv.Itoa(x)
	}
	return "d1:" + strings.Join(s, ".")
}

// execute runs the case on the real code (github.com/dapr/kit/streams). Never panics.
func execute(c *Case) *Obs {
	o := &Obs{}
	done := make(chan struct{})
	go func() {
		defer close(done)
		defer func() {
			if x := recover(); x != nil {
				o.Panic = fmt.Sprint(x)
			}
		}()
		executeInner(c, o)
	}()
	select {
	case <-done:
	case <-time.After(20 * time.Second):
		return &Obs{Timeout: true, Term: "timeout"}
	}
	return o
}

func executeInner(c *Case, o *Obs) {
	type live struct {
		reader io.Reader
		closes func() int
		rac    func() int
	}
	srcs := make([]live, len(c.Srcs))
	total := 0
	var cleanup []func()
	defer func() {
		for _, f := range cleanup {
			f()
		}
	}()
	tempFile := func(content []byte) *os.File {
		f, err := os.CreateTemp(workDir, "c16-*")
		if err != nil {
			panic("harness: temp file: " + err.Error())
		}
		cleanup = append(cleanup, func() { f.Close(); os.Remove(f.Name()) })
		if _, err := f.Write(content); err != nil {
			panic("harness: temp file: " + err.Error())
		}
		if _, err := f.Seek(0, io.SeekStart); err != nil {
			panic("harness: temp file: " + err.Error())
		}
		return f
	}
	for i, sp := range c.Srcs {
		content := sp.bytes()
		total += len(content) + len(sp.Script) + 2
		if sp.Std != "" {
			var ss *stdSrc
			switch sp.Std {
			case "strings":
				ss = &stdSrc{r: strings.NewReader(string(content))}
			case "bytesreader":
				ss = &stdSrc{r: bytes.NewReader(content)}
			case "bytesbuffer":
				ss = &stdSrc{r: bytes.NewBuffer(append([]byte(nil), content...))}
			case "file":
				ss = &stdSrc{r: tempFile(content)}
			default:
				panic("harness: unknown std source " + sp.Std)
			}
			srcs[i] = live{ss, func() int { return ss.closes }, func() int { return 0 }}
			continue
		}
		term := io.EOF
		if sp.Boom {
			term = errBoom
		}
		if sp.BodyClosed {
			term = http.ErrBodyReadAfterClose
		}
		s := &src{rest: content, script: append([]int(nil), sp.Script...), withData: sp.WithData, term: term}
		var rd io.Reader
		closable := sp.Closable || c.Kind == "limit"
		switch {
		case closable && sp.WT:
			rd = closableSrcWT{s}
		case closable:
			rd = closableSrc{s}
		case sp.WT:
			rd = readerOnlyWT{s}
		default:
			rd = readerOnly{s}
		}
		srcs[i] = live{rd, func() int { return s.closes }, func() int { return s.readsAfterClose }}
	}
	w := &wr{cap: c.WCap, rf: c.RF}
	var wIface io.Writer
	switch {
	case c.WClos && c.RF > 0:
		wIface = closableWrRF{w}
	case c.WClos:
		wIface = closableWr{w}
	case c.RF > 0:
		wIface = writerOnlyRF{w}
	default:
		wIface = writerOnly{w}
	}
	// a real standard-library destination for WriteTo
	var stdBuf *bytes.Buffer
	var stdFile *os.File
	switch c.stdW() {
	case "bytesbuffer":
		stdBuf = &bytes.Buffer{}
		wIface = stdBuf
	case "file":
		stdFile = tempFile(nil)
		wIface = stdFile
	case "":
	default:
		panic("harness: unknown std writer " + c.StdW)
	}
	wGot := func() []byte {
		switch {
		case stdBuf != nil:
			return append([]byte(nil), stdBuf.Bytes()...)
		case stdFile != nil:
			b, err := os.ReadFile(stdFile.Name())
			if err != nil {
				panic("harness: read back: " + err.Error())
			}
			return b
		}
		return append([]byte(nil), w.got...)
	}
	var r io.ReadCloser
	switch c.Kind {
	case "limit":
		r = streams.LimitReadCloser(srcs[0].reader.(io.ReadCloser), c.N)
	case "multi":
		rs := make([]io.Reader, len(srcs))
		for i := range srcs {
			rs[i] = srcs[i].reader
		}
		r = streams.NewMultiReaderCloser(rs...)
	case "tee":
		r = streams.NewTeeReadCloser(srcs[0].reader, wIface)
	default:
		panic("unknown kind " + c.Kind)
	}
	snapshot := func() []int {
		cl := make([]int, len(srcs))
		for i, s := range srcs {
			cl[i] = s.closes()
		}
		return cl
	}
	loopLimit := 4*total + 64
	full := func(data []byte, err error) {
		o.Bytes, o.Term = data, errName(err)
		o.ClosesAt = snapshot()
	}
	addDrain := func(op string, data []byte, err error) {
		o.Ops = append(o.Ops, op)
		o.Res = append(o.Res, "d:"+hex.EncodeToString(data)+":"+errName(err))
	}
	doClose := func() {
		func() {
			defer func() {
				if x := recover(); x != nil {
					o.Panic = fmt.Sprint("Close: ", x)
				}
			}()
			r.Close()
		}()
		o.Ops = append(o.Ops, "c")
		o.Res = append(o.Res, "c")
	}
	switch c.Mode {
	case "read":
		data, err := drainImpl(r, nil, c.Buf, loopLimit)
		addDrain(fmt.Sprintf("d%d:", c.Buf), data, err)
		full(data, err)
	case "readall", "copywrap":
		rec := &recorder{r: guarded{r}}
		var got []byte
		var err error
		if c.Mode == "readall" {
			got, err = io.ReadAll(rec)
		} else {
			sink := &wr{cap: -1}
			_, err = io.Copy(writerOnly{sink}, rec)
			got = sink.got
		}
		// the consumer's own view must agree with what Read returned
		if !bytes.Equal(got, rec.data) || (err == nil) != (rec.last == io.EOF) {
			o.Panic = fmt.Sprintf("harness: %s saw %x/%v but Read returned %x/%v", c.Mode, got, err, rec.data, rec.last)
		}
		addDrain(sizesOp(rec.sizes), rec.data, rec.last)
		full(rec.data, rec.last)
	case "copy", "copybuf": // io.Copy straight on the reader under test, so that io.Copy sees its real method set
		if c.Kind != "multi" {
			// limit / tee have no WriteTo today: io.Copy then is a Read loop with 32 KiB buffers
			// (model op d32768:).  If a WriteTo/ReadFrom fast path ever appears, io.Copy takes it
			// here, and the monitors judge its result like any other consumer's.
			sink := &wr{cap: -1}
			var n int64
			var err error
			func() {
				defer func() {
					if x := recover(); x != nil {
						err = fmt.Errorf("%w: %v", errPanic, x)
					}
				}()
				n, err = io.Copy(writerOnly{sink}, r)
			}()
			o.CopyN = n
			if err == nil {
				err = io.EOF // io.Copy reports a clean end of stream as nil
			}
			addDrain("d32768:", sink.got, err)
			full(append([]byte(nil), sink.got...), err)
			break
		}
		var n int64
		var err error
		func() {
			defer func() {
				if x := recover(); x != nil {
					err = fmt.Errorf("%w: %v", errPanic, x)
				}
			}()
			n, err = io.Copy(wIface, r)
		}()
		o.CopyN = n
		o.Ops = append(o.Ops, "w")
		o.Res = append(o.Res, "w:"+errName(err))
		if err == nil {
			err = io.EOF
		}
		full(wGot(), err)
	case "ops":
		for _, op := range c.Ops {
			o.Ops = append(o.Ops, op)
			switch {
			case op == "c":
				o.Ops = o.Ops[:len(o.Ops)-1]
				doClose()
			case op == "s":
				if st, ok := r.(stopper); ok {
					st.Stop()
					o.Res = append(o.Res, "s")
				} else {
					o.Res = append(o.Res, "unsupported")
				}
			case op == "w":
				wt, ok := r.(io.WriterTo)
				if !ok {
					o.Res = append(o.Res, "unsupported")
					break
				}
				_, err := wt.WriteTo(wIface)
				o.Res = append(o.Res, "w:"+errName(err))
			case strings.HasPrefix(op, "r"):
				m, _ := strconv.Atoi(op[1:])
				p := make([]byte, m)
				n, err := safeRead(r, p)
				if n < 0 || n > m {
					o.Res = append(o.Res, fmt.Sprintf("r:badcount(%d):%s", n, errName(err)))
				} else {
					o.Res = append(o.Res, "r:"+hex.EncodeToString(p[:n])+":"+errName(err))
				}
			case strings.HasPrefix(op, "d"):
				parts := strings.SplitN(op[1:], ":", 2)
				dflt, _ := strconv.Atoi(parts[0])
				var bufs []int
				if len(parts) == 2 && parts[1] != "" {
					for _, b := range strings.Split(parts[1], ".") {
						x, _ := strconv.Atoi(b)
						bufs = append(bufs, x)
					}
				}
				data, err := drainImpl(r, bufs, dflt, loopLimit+len(bufs))
				o.Res = append(o.Res, "d:"+hex.EncodeToString(data)+":"+errName(err))
			default:
				o.Res = append(o.Res, "unsupported")
			}
		}
	default:
		panic("unknown mode " + c.Mode)
	}
	if c.Mode != "ops" {
		for i := 0; i < c.Closes; i++ {
			doClose()
		}
	}
	o.Closes = snapshot()
	o.WGot = wGot()
	o.WCl = w.closes
	for _, s := range srcs {
		o.ReadsAfterClose += s.rac()
	}
}

// ---- property monitors: decided from the case and the observation only (no model) ----

type verdict struct{ id, what string }

// expectedMulti: concatenation of the sources up to and including the first failing one.
// On the Read path a source ending in http.ErrBodyReadAfterClose counts as ended (the documented
// behaviour of Read); on the WriteTo path io.CopyBuffer reports it like any other error.
func expectedMulti(c *Case) ([]byte, string) {
	writeTo := c.Mode == "copy" || c.Mode == "copybuf"
	var out []byte
	for _, s := range c.Srcs {
		out = append(out, s.bytes()...)
		switch t := s.termName(); {
		case t == "boom", t == "bodyclosed" && writeTo:
			return out, t
		}
	}
	return out, "eof"
}

func monitor(c *Case, o *Obs) []verdict {
	var v []verdict
	add := func(id, f string, a ...any) { v = append(v, verdict{id, fmt.Sprintf(f, a...)}) }
	if o.Timeout {
		add(c.Kind+"-hang", "the call did not return within the deadline")
		return v
	}
	if o.Panic != "" {
		if strings.HasPrefix(o.Panic, "harness:") {
			add("harness-inconsistent", "%s", o.Panic)
		} else {
			add(c.Kind+"-panic", "panic: %s", o.Panic)
		}
		return v
	}
	if c.Mode == "ops" {
		return v // literal op lists are for the model comparison only
	}
	if o.Term == "panic" {
		id := c.Kind + "-panic"
		if c.Kind == "limit" && c.N == math.MaxInt64 {
			id = "limit-maxint64-panic"
		}
		add(id, "Read panicked (N=%d)", c.N)
		return v
	}
	closed := c.Closes >= 1
	if c.Mode == "copy" && c.Kind != "multi" && o.CopyN != int64(len(o.Bytes)) {
		add(c.Kind+"-copy-count", "io.Copy reported %d bytes, wrote %d", o.CopyN, len(o.Bytes))
	}
	switch c.Kind {
	case "multi":
		want, term := expectedMulti(c)
		if !bytes.Equal(o.Bytes, want) {
			add("multi-not-concatenation", "consumer got %x, sources concatenate to %x", o.Bytes, want)
		}
		if o.Term != term {
			add("multi-wrong-terminal", "stream ended with %s, expected %s", o.Term, term)
		}
		if c.Mode == "copy" && o.CopyN != int64(len(o.Bytes)) {
			add("multi-writeto-count", "WriteTo reported %d bytes, wrote %d", o.CopyN, len(o.Bytes))
		}
		if closed && c.Closes == 1 {
			for i, s := range c.Srcs {
				if !s.Closable && s.Std == "" {
					continue
				}
				if s.BodyClosed {
					// a body that answers ErrBodyReadAfterClose is somebody else's to close; the
					// reader may leave it alone (Read does) but must never close it twice
					if o.Closes[i] > 1 {
						add("multi-body-closed-source-closed-twice", "source %d closed %d times", i, o.Closes[i])
					}
					continue
				}
				path := "read"
				if c.Mode == "copy" || c.Mode == "copybuf" {
					path = "writeto"
				}
				if o.Closes[i] == 0 {
					add("multi-"+path+"-source-unclosed", "source %d never closed after full consumption via %s and Close", i, c.Mode)
				} else if o.Closes[i] > 1 {
					add("multi-"+path+"-source-closed-twice", "source %d closed %d times", i, o.Closes[i])
				}
			}
		}
	case "tee":
		content := c.Srcs[0].bytes()
		term := c.Srcs[0].termName()
		if !bytes.Equal(o.Bytes, o.WGot) {
			add("tee-writer-differs", "consumer got %x, writer got %x", o.Bytes, o.WGot)
		}
		if c.WCap < 0 || c.WCap >= len(content) {
			if !bytes.Equal(o.Bytes, content) || o.Term != term {
				add("tee-not-preserved", "consumer got %x/%s, source is %x/%s", o.Bytes, o.Term, content, term)
			}
		} else {
			if !bytes.HasPrefix(content, o.Bytes) {
				add("tee-not-prefix", "consumer got %x, not a prefix of %x", o.Bytes, content)
			}
			if o.Term == "eof" || o.Term == "nil" {
				add("tee-silent-writer-failure", "writer failed after %d bytes but the stream ended with %s", c.WCap, o.Term)
			}
		}
		if c.Closes == 1 && (c.Srcs[0].Closable || c.Srcs[0].Std != "") && o.Closes[0] != 1 {
			add("tee-source-close-count", "source closed %d times after Close", o.Closes[0])
		}
	case "limit":
		content := c.Srcs[0].bytes()
		term := c.Srcs[0].termName()
		if int64(len(content)) <= c.N {
			if !bytes.Equal(o.Bytes, content) || o.Term != term {
				add("limit-not-identity", "N=%d: consumer got %x/%s, source is %x/%s", c.N, o.Bytes, o.Term, content, term)
			}
		} else if c.N >= 0 {
			if o.Term == "eof" {
				add("limit-silent-truncation", "N=%d, source has %d bytes: consumer got %d bytes and a clean EOF", c.N, len(content), len(o.Bytes))
			} else if o.Term != "toolarge" && !(o.Term == term && term != "eof") {
				add("limit-wrong-error", "N=%d, source has %d bytes: stream ended with %s", c.N, len(content), o.Term)
			}
			if int64(len(o.Bytes)) > c.N {
				add("limit-exceeded", "N=%d: consumer got %d bytes", c.N, len(o.Bytes))
			}
			if !bytes.HasPrefix(content, o.Bytes) {
				add("limit-not-prefix", "consumer got %x, not a prefix of %x", o.Bytes, content)
			}
			if o.Term == "toolarge" && len(o.ClosesAt) == 1 && o.ClosesAt[0] != 1 {
				add("limit-source-not-closed-on-too-large", "source closed %d times when ErrStreamTooLarge was returned", o.ClosesAt[0])
			}
		}
		if c.Closes == 1 && o.Closes[0] != 1 {
			add("limit-source-close-count", "source closed %d times after consumption and Close", o.Closes[0])
		}
	}
	return v
}
