// Harness for property C13 (locks): fifo.Mutex, fifo.Map, cmap.Mutex, lock.Context,
// lock.OuterCancel.
//
// Every scenario runs the REAL primitive in-process with one goroutine per model caller, under a
// forced schedule: one step at a time (start an operation, release a caller parked at a
// verifhook point between the map look-up and the mutex operation, cancel a context, let real
// time pass for OuterCancel), then wait until every goroutine is parked, returned or blocked
// according to the runtime's goroutine wait state. The observable trace (call / ret / probe / env
// lines) is sent to the Lean model (`kitdrv C13`, state-set simulation closing under internal
// steps): a rejected event is a disagreement. Independently of the model the monitors decide:
//
//	<prim>-mutual-exclusion        occupancy counters updated inside the critical sections: two
//	                               exclusive holders, or an exclusive holder with a shared holder
//	                               (OuterCancel: a reader whose context is not cancelled)
//	cmap-delete-unlock-with-waiter the same failure on cmap.Mutex when a DeleteUnlock/DeleteRUnlock
//	                               ran while another caller held or waited on the key
//	<prim>-fifo-order              grant order differs from the confirmed arrival order
//	fifomap-leak / fifomap-ilen    entries ≠ keys with holders or waiters, ilen ≠ their number
//	context-*                      error without cancelled context, error that still holds the
//	                               lock, cancelled waiter that does not return
//	outer-*                        writer granted before every earlier reader released or was
//	                               cancelled with the configured cause / before the grace period;
//	                               reader admitted during a writer; reader cancelled for no reason
//	<prim>-hang / -stuck / -panic  the real code hung or panicked
package main

import (
	"bytes"
	"encoding/json"
	"fmt"
	"hash/fnv"
	"os"
	"os/exec"
	"runtime"
	"strconv"
	"strings"
	"time"

	"verifharness/lib"
)

// cmapRC tells the model which cmap.Mutex it is compared with: 1 = DeleteUnlock/DeleteRUnlock
// keep an entry that other callers still reference (the repaired code), 0 = the code as found.
var cmapRC = 1

type outcome struct {
	c      *Case
	lines  []string
	viol   []violation
	hist   map[string]int
	reject string // first rejected event ("" = accepted)
	nontrv bool
}

func caseKey(c *Case) string {
	b, _ := json.Marshal(c)
	h := fnv.New64a()
	h.Write(b)
	return fmt.Sprintf("%s:%x", c.Prim, h.Sum64())
}

// runCase executes one scenario against the real code.
func runCase(c *Case, next func(r *run) *Step) *outcome {
	if c.Prim == "outer" {
		return runOuter(c, next)
	}
	if c.Prim == "fifomap" && (c.Family == "first-lock-gated" || c.Family == "first-lock-barrier") {
		return runFirstLock(c)
	}
	if c.Procs > 0 {
		old := runtime.GOMAXPROCS(c.Procs)
		defer runtime.GOMAXPROCS(old)
	}
	r := newRun(c)
	header := r.header()
	lines := r.execute(next)
	o := &outcome{c: c, lines: append([]string{header}, lines...), viol: r.viol, hist: r.hist}
	o.nontrv = r.hist["blocked.confirmed"] > 0 || r.hist["park.lock"] > 0 || r.hist["park.unlock"] > 0
	return o
}

func stored(steps []Step) func(r *run) *Step {
	i := 0
	return func(r *run) *Step {
		if i >= len(steps) {
			return nil
		}
		i++
		return &steps[i-1]
	}
}

// askModel sends the trace to the model; returns the first rejected line.
func askModel(drv *lib.Drv, lines []string) (string, error) {
	outs, err := drv.AskBatch(lines)
	if err != nil {
		return "", err
	}
	if os.Getenv("C13_DEBUG") != "" {
		for i := range outs {
			fmt.Fprintf(os.Stderr, "%-50s -> %s\n", lines[i], outs[i])
		}
	}
	for i, o := range outs {
		if !strings.HasPrefix(o, "ok") {
			return fmt.Sprintf("event #%d %q: model answered %q", i, lines[i], o), nil
		}
	}
	return "", nil
}

// ---- crash isolation ----
// `sync: Unlock of unlocked RWMutex` and friends are fatal errors, not panics: they kill the
// process. The scenarios therefore run in a child process; the parent turns a dead child into a
// reported violation for the scenario that was running, and restarts after it.

type progress struct {
	Index   int    `json:"index"`
	Flushed int    `json:"flushed"` // scenarios whose results are in the flushed result file
	Case    *Case  `json:"case"`
	Finding string `json:"finding"`
}

var (
	progressFile string
	scenarioIdx  int
	fromIdx      int
	skipIdx      = map[int]bool{}
	flushedIdx   int
	curProgress  progress
)

func writeProgress() {
	if progressFile == "" {
		return
	}
	b, _ := json.Marshal(curProgress)
	os.WriteFile(progressFile, b, 0o644)
}

func parent(fl lib.Flags) {
	total := lib.NewResult("")
	work := fl.Work
	if work == "" {
		work, _ = os.MkdirTemp("", "c13-")
		defer os.RemoveAll(work)
	}
	pf := work + "/c13.progress.json"
	out := work + "/c13.child.json"
	from := 0
	var skips []string
	for attempt := 0; attempt < 12; attempt++ {
		os.Remove(out)
		os.Remove(pf)
		args := append([]string{}, os.Args[1:]...)
		cmd := exec.Command(os.Args[0], args...)
		cmd.Env = append(os.Environ(), "C13_CHILD=1", "C13_PROGRESS="+pf, "C13_CHILD_OUT="+out,
			"C13_FROM="+strconv.Itoa(from), "C13_SKIPS="+strings.Join(skips, ","))
		var stderr bytes.Buffer
		cmd.Stderr = &stderr
		cmd.Stdout = os.Stdout
		err := cmd.Run()
		if os.Getenv("C13_DEBUG") != "" {
			os.Stderr.Write(stderr.Bytes())
		}
		if b, e := os.ReadFile(out); e == nil {
			var part lib.Result
			if json.Unmarshal(b, &part) == nil {
				mergeResult(total, &part)
			}
		}
		if err == nil {
			break
		}
		var pr progress
		if b, e := os.ReadFile(pf); e == nil {
			json.Unmarshal(b, &pr)
		}
		head := stderr.String()
		if i := strings.Index(head, "\n\n"); i > 0 {
			head = head[:i]
		}
		if len(head) > 600 {
			head = head[:600]
		}
		if pr.Case == nil {
			total.Note("child died before any scenario: " + head)
			break
		}
		id := pr.Finding
		if id == "" {
			id = pr.Case.Prim + "-fatal-error"
		}
		total.Violate(id, "the process running the real code died (fatal runtime error, not a panic): "+head, pr.Case)
		total.Evaluations++
		from = pr.Flushed
		skips = append(skips, strconv.Itoa(pr.Index))
		if fl.Replay != "" {
			break
		}
	}
	total.Write(fl.Out)
}

func mergeResult(t, p *lib.Result) {
	t.Evaluations += p.Evaluations
	t.Nontrivial += p.Nontrivial
	t.Traces += p.Traces
	if p.Rule != "" {
		t.Rule = p.Rule
	}
	for k, v := range p.Distribution {
		t.Distribution[k] += v
	}
	for _, s := range p.Samples {
		t.Sample(s)
	}
	t.Disagreements = append(t.Disagreements, p.Disagreements...)
	for _, v := range p.Violations {
		t.Violate(v.FindingID, v.What, v.Case)
	}
	t.Notes = append(t.Notes, p.Notes...)
}

func main() {
	fl := lib.ParseFlags()
	if v := os.Getenv("C13_CMAP_RC"); v == "0" {
		cmapRC = 0
	}
	if os.Getenv("C13_CHILD") == "" {
		parent(fl)
		return
	}
	progressFile = os.Getenv("C13_PROGRESS")
	fl.Out = os.Getenv("C13_CHILD_OUT")
	fromIdx, _ = strconv.Atoi(os.Getenv("C13_FROM"))
	for _, x := range strings.Split(os.Getenv("C13_SKIPS"), ",") {
		if i, err := strconv.Atoi(x); err == nil {
			skipIdx[i] = true
		}
	}
	res := lib.NewResult("a scenario is non-trivial if at least one caller was confirmed blocked behind another (goroutine wait state) or parked at a schedule point between look-up and mutex operation; distinct = distinct step lists")
	drv, err := lib.StartDrv(fl.Drv, "C13")
	if err != nil {
		fmt.Fprintln(os.Stderr, "c13: cannot start model driver:", err)
		drv = nil
	}
	defer drv.Close()
	rng := lib.NewRand(fl.Seed*0x9e3779b97f4a7c15 + 13)

	report := func(o *outcome) {
		res.Count(caseKey(o.c), o.nontrv)
		res.Hit("prim." + o.c.Prim)
		res.Hit(fmt.Sprintf("n.%d", o.c.N))
		res.Hit(fmt.Sprintf("keys.%d", maxi(o.c.Keys, 1)))
		if o.c.Family != "" {
			res.Hit("family." + o.c.Prim + "." + o.c.Family)
		}
		for k, v := range o.hist {
			res.Distribution[o.c.Prim+"."+k] += v
		}
		res.Distribution["events"] += len(o.lines)
		for _, v := range o.viol {
			res.Violate(v.id, v.what, o.c)
		}
		if tf := os.Getenv("C13_TRACE"); tf != "" {
			os.WriteFile(tf, []byte(strings.Join(o.lines, "\n")+"\n"), 0o644)
		}
		if drv != nil && len(o.lines) > 0 {
			rej, err := askModel(drv, o.lines)
			if err != nil {
				res.Note("model driver failed: " + err.Error())
				drv = nil
			} else if rej != "" {
				res.Disagree("trace inclusion: observable trace of the real "+o.c.Prim+" must be a trace of its LTS", map[string]any{"case": o.c, "trace": o.lines}, rej, "real execution produced this trace")
			} else {
				res.Traces++
			}
		}
		if len(res.Samples) < 8 && o.nontrv && len(o.lines) < 40 {
			res.Sample(map[string]any{"case": o.c, "trace": o.lines})
		}
	}

	do := func(c *Case, next func(r *run) *Step) {
		idx := scenarioIdx
		scenarioIdx++
		if idx < fromIdx || skipIdx[idx] {
			return
		}
		curProgress = progress{Index: idx, Flushed: flushedIdx, Case: c}
		writeProgress()
		report(runCase(c, next))
		if (idx+1)%25 == 0 {
			res.Write(fl.Out)
			flushedIdx = idx + 1
		}
	}

	if fl.Replay != "" {
		b, err := os.ReadFile(fl.Replay)
		if err != nil {
			fmt.Fprintln(os.Stderr, "c13: replay:", err)
			os.Exit(3)
		}
		var rp struct {
			Case json.RawMessage `json:"case"`
		}
		var c Case
		if err := json.Unmarshal(b, &rp); err != nil || json.Unmarshal(rp.Case, &c) != nil {
			// disagreement replays store {case, trace}
			var w struct {
				Case struct {
					Case Case `json:"case"`
				} `json:"case"`
			}
			if json.Unmarshal(b, &w) != nil {
				fmt.Fprintln(os.Stderr, "c13: replay: cannot decode case")
				os.Exit(3)
			}
			c = w.Case.Case
		}
		steps := c.Steps
		c.Steps = nil
		do(&c, stored(steps))
		res.Write(fl.Out)
		return
	}

	budget := 1
	if fl.Tier == "thorough" {
		budget = 8
	}
	if fl.Search {
		budget *= 20
	}
	t0 := time.Now()
	// 1. forced families (deterministic, exhaustive over small thread orders). Without a model
	// (`--drv ""`: the proof or a regenerated fact no longer checks) the real-time families of the
	// thorough tier run as well: bin/check only starts a separate search when no violation (not
	// even a known one) was reported.
	only := os.Getenv("C13_ONLY")
	for _, c := range forcedCases(fl.Tier == "thorough" || fl.Search || fl.Drv == "") {
		if only != "" && c.Prim != only {
			continue
		}
		steps := c.Steps
		c.Steps = nil
		do(c, stored(steps))
	}
	// 2. seeded random schedules with parks, cancellations and deletes
	for _, prim := range []string{"fifomutex", "fifomap", "cmap", "context", "outer"} {
		if only != "" && prim != only {
			continue
		}
		nsc := 120 * budget
		if prim == "outer" {
			nsc = 60 * budget
		}
		for i := 0; i < nsc; i++ {
			cr := rng.Fork()
			c := &Case{Prim: prim, N: cr.Range(2, 8), Keys: cr.Range(1, 3), Family: "random"}
			if cr.Intn(3) > 0 {
				c.N = cr.Range(2, 4)
			}
			if prim == "fifomutex" || prim == "context" || prim == "outer" {
				c.Keys = 1
			}
			if prim == "outer" {
				c.GraceMs = cr.Range(2, 5)
				c.N = cr.Range(2, 5)
			}
			steps := cr.Range(8, 40)
			if prim == "outer" {
				steps = cr.Range(6, 22)
			}
			do(c, randomGen(cr, steps))
		}
	}
	res.Exhaustive = false
	res.Note(fmt.Sprintf("scenarios ran in %.1fs; cmap model variant rc=%d", time.Since(t0).Seconds(), cmapRC))
	res.Write(fl.Out)
}
