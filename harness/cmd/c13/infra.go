package main

// Scheduling infrastructure shared by the five lock primitives: worker goroutines that stand for
// the model's callers, an event log, forced schedules through verifhook points, and "settling"
// (waiting until every busy goroutine is parked at a hook, returned, or really blocked according
// to the runtime's goroutine wait state).

import (
	"bytes"
	"fmt"
	"regexp"
	"runtime"
	"strconv"
	"strings"
	"sync"
	"sync/atomic"
	"time"

	"github.com/dapr/kit/verifhook"
)

// ---- goroutine ids and wait states ----

func goid() int64 {
	var buf [64]byte
	n := runtime.Stack(buf[:], false)
	// "goroutine 123 [running]:"
	f := bytes.Fields(buf[:n])
	id, _ := strconv.ParseInt(string(f[1]), 10, 64)
	return id
}

var hdrRe = regexp.MustCompile(`^goroutine (\d+) \[([^\],]+)`)

type gInfo struct {
	state string
	inKit bool // some frame is inside github.com/dapr/kit/concurrency
	stack string
}

var stackBuf = make([]byte, 1<<20)

// snapshot returns the wait state of every goroutine (the runtime stops the world for it, so it
// is one consistent cut).
func snapshot() map[int64]gInfo {
	n := runtime.Stack(stackBuf, true)
	out := map[int64]gInfo{}
	for _, blk := range strings.Split(string(stackBuf[:n]), "\n\n") {
		m := hdrRe.FindStringSubmatch(blk)
		if m == nil {
			continue
		}
		id, _ := strconv.ParseInt(m[1], 10, 64)
		out[id] = gInfo{state: m[2], inKit: strings.Contains(blk, "github.com/dapr/kit/concurrency/"), stack: blk}
	}
	return out
}

func blockedState(s string) bool {
	switch s {
	case "chan send", "chan receive", "select", "sync.Mutex.Lock", "sync.RWMutex.Lock", "sync.RWMutex.RLock",
		"sync.WaitGroup.Wait", "semacquire", "sync.Cond.Wait":
		return true
	}
	return false
}

// ---- workers ----

type worker struct {
	t      int
	gid    int64
	cmd    chan func()
	busy   atomic.Bool
	parked atomic.Bool // at a hook point, waiting for release
	// park request: "" = run through; otherwise "<point>/<method>" or "<point>/*"
	parkReq atomic.Value
	release chan struct{}
	point   atomic.Value // where it is parked: "<point>/<method>"
}

type sched struct {
	mu      sync.Mutex
	lines   []string
	ws      []*worker
	byGid   sync.Map                      // gid -> *worker
	extra   func(gi map[int64]gInfo) bool // additional settle condition (internal goroutines)
	hung    bool
	stopped bool
}

func (s *sched) log(format string, a ...any) {
	s.mu.Lock()
	s.lines = append(s.lines, fmt.Sprintf(format, a...))
	s.mu.Unlock()
}

func newSched(n int) *sched {
	s := &sched{}
	for t := 0; t < n; t++ {
		w := &worker{t: t, cmd: make(chan func(), 1), release: make(chan struct{}, 1)}
		w.parkReq.Store("")
		w.point.Store("")
		ready := make(chan struct{})
		go func() {
			w.gid = goid()
			s.byGid.Store(w.gid, w)
			close(ready)
			for f := range w.cmd {
				f()
				w.busy.Store(false)
			}
		}()
		<-ready
		s.ws = append(s.ws, w)
	}
	verifhook.Set(s.hook)
	return s
}

func (s *sched) close() {
	verifhook.Set(nil)
	s.stopped = true
	for _, w := range s.ws {
		// release anything still parked; leaked goroutines of a hung scenario are abandoned
		select {
		case w.release <- struct{}{}:
		default:
		}
		if !w.busy.Load() {
			close(w.cmd)
		}
	}
}

// hook is the verifhook callback: park the calling worker if it was asked to.
func (s *sched) hook(name string, args ...any) {
	v, ok := s.byGid.Load(goid())
	if !ok {
		return
	}
	w := v.(*worker)
	method := ""
	if len(args) >= 2 {
		method, _ = args[1].(string)
	}
	req := w.parkReq.Load().(string)
	if req == "" {
		return
	}
	if req != name+"/*" && req != name+"/"+method {
		return
	}
	w.parkReq.Store("")
	w.point.Store(name + "/" + method)
	if hookLogs(method) {
		s.log("probe t=%d p=hook", w.t)
	}
	w.parked.Store(true)
	<-w.release
	w.parked.Store(false)
	w.point.Store("")
}

// hookLogs: the model has a hook observation for the acquiring methods and for the cmap
// release methods (reaching the point proves the look-up succeeded).
var hookLogs = func(method string) bool { return true }

func (s *sched) start(t int, park string, f func()) bool {
	w := s.ws[t]
	if w.busy.Load() {
		return false
	}
	w.busy.Store(true)
	w.parkReq.Store(park)
	w.cmd <- f
	return true
}

func (s *sched) releaseParked(t int) bool {
	w := s.ws[t]
	if !w.parked.Load() {
		return false
	}
	w.release <- struct{}{}
	// wait until it has left the hook
	for i := 0; w.parked.Load() && i < 100000; i++ {
		runtime.Gosched()
	}
	return true
}

type tStatus int

const (
	stIdle tStatus = iota
	stParked
	stBlocked
	stRunning
)

// settle waits until no worker (and no internal goroutine of the primitive) is runnable.
// It returns the status of every worker; ok=false if the deadline passed (reported as a hang of
// the real code by the caller).
func (s *sched) settle(deadline time.Duration) (st []tStatus, ok bool) {
	t0 := time.Now()
	st = make([]tStatus, len(s.ws))
	for spin := 0; ; spin++ {
		all := true
		var gi map[int64]gInfo
		for _, w := range s.ws {
			if !w.busy.Load() {
				st[w.t] = stIdle
				continue
			}
			if w.parked.Load() {
				st[w.t] = stParked
				continue
			}
			if gi == nil {
				gi = snapshot()
			}
			g := gi[w.gid]
			if blockedState(g.state) && g.inKit && !w.parked.Load() && w.busy.Load() {
				st[w.t] = stBlocked
				continue
			}
			st[w.t] = stRunning
			all = false
		}
		if all && s.extra != nil {
			if gi == nil {
				gi = snapshot()
			}
			all = s.extra(gi)
		}
		if all {
			// re-check the cheap flags: a worker may have finished between the checks
			stable := true
			for _, w := range s.ws {
				switch st[w.t] {
				case stIdle:
					stable = stable && !w.busy.Load()
				case stParked:
					stable = stable && w.parked.Load()
				case stBlocked:
					stable = stable && w.busy.Load() && !w.parked.Load()
				}
			}
			if stable {
				// confirm blocked goroutines with a second, later cut: a truly blocked goroutine stays blocked
				anyBlocked := false
				for _, x := range st {
					anyBlocked = anyBlocked || x == stBlocked
				}
				if anyBlocked {
					time.Sleep(150 * time.Microsecond)
					gi2 := snapshot()
					for _, w := range s.ws {
						if st[w.t] == stBlocked {
							g := gi2[w.gid]
							if !(blockedState(g.state) && g.inKit && w.busy.Load() && !w.parked.Load()) {
								stable = false
							}
						}
					}
					if stable && s.extra != nil && !s.extra(gi2) {
						stable = false
					}
				}
			}
			if stable {
				return st, true
			}
		}
		if time.Since(t0) > deadline {
			return st, false
		}
		if spin < 20 {
			runtime.Gosched()
		} else {
			time.Sleep(20 * time.Microsecond)
		}
	}
}

// guard runs f under recover; a panic of the real code becomes an outcome.
func guard(f func()) (panicked any) {
	defer func() {
		if r := recover(); r != nil {
			panicked = r
		}
	}()
	f()
	return nil
}
