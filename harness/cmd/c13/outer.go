package main

func outerForced(thorough bool) []*Case { return nil }

func runOuter(c *Case, next func(r *run) *Step) *outcome {
	return &outcome{c: c, hist: map[string]int{}}
}
