package main

// lock.OuterCancel: operations, real-time observations and the model-independent monitors.

import (
	"context"
	"fmt"
	"strings"
	"time"
)

// pick: the launch of a reader's graceful cancellation is no earlier than the call of the first
// writer that waited for it while it was inside; if it was admitted while this writer already
// waited, no earlier than this writer's own call.
func pick(firstW, callAt time.Duration) time.Duration {
	if firstW != 0 {
		return firstW
	}
	return callAt
}

func (r *run) elapsed() time.Duration { return time.Since(r.t0) }

// logTicks brings the model clock (1 tick = 1 ms) up to the measured elapsed time. Caller holds r.mu
// or is the only logger of ticks (ticks are only logged from the controller goroutine).
func (r *run) logTicks(el time.Duration) {
	want := int(el / time.Millisecond)
	for r.ticks < want {
		r.s.log("env e=tick")
		r.ticks++
	}
}

func (r *run) outerLock(t int, st Step) func() {
	th := r.th[t]
	return func() {
		if st.Md == "r" {
			pre := 0
			if st.Ms == 1 {
				pre = 1
			}
			rcallAt := r.elapsed()
			r.s.log("call t=%d op=rlock pre=%d", t, pre)
			var (
				rctx   context.Context
				cancel context.CancelFunc
				err    error
			)
			if p := guard(func() { rctx, cancel, err = r.oc.RLock(th.ctx) }); p != nil {
				r.violate("outer-panic", fmt.Sprintf("RLock panicked: %v", p))
				return
			}
			r.mu.Lock()
			// bring the model clock up to now before this return is logged: an RLock behind a writer that
			// waits for the grace period returns (granted, or with its context's error from the handler)
			// only after the handler answered that writer, i.e. after the grace period — and this goroutine
			// may log its return before the writer's goroutine has logged the ticks and its own return
			r.logTicks(r.elapsed())
			if err != nil {
				th.ph = phIdle
				v := 2
				if th.ctx.Err() != nil && err == th.ctx.Err() {
					v = 1
				}
				shut := r.shutdown
				r.mu.Unlock()
				r.hist[fmt.Sprintf("ret.rlock.err%d", v)]++
				if v == 2 && !shut {
					r.violate("outer-error-while-running", fmt.Sprintf("caller %d: RLock returned %v although neither its context is done nor shutdown was requested", t, err))
				}
				r.s.log("ret t=%d v=%d", t, v)
				return
			}
			th.ph, th.rctx, th.unlock, th.inside, th.toldAt, th.firstW, th.justified = phHolding, rctx, cancel, true, 0, 0, false
			if r.wPending > 0 {
				// admitted while a writer already waits: the launch of its graceful cancellation is no
				// earlier than its admission, which is no earlier than its own call and the last writer unlock
				th.firstW = rcallAt
				if r.lastWUnlock > th.firstW {
					th.firstW = r.lastWUnlock
				}
				if th.firstW == 0 {
					th.firstW = 1
				}
			}
			// no reader is admitted while a writer holds (while running)
			// (a reader whose goroutine is scheduled late may see a writer that was granted after the
			// grace period had already cancelled this reader's context: that reader has been told to stop)
			if w := r.occW[0].Load(); w != 0 && !r.shutdown && rctx.Err() == nil {
				r.viol = append(r.viol, violation{"outer-reader-during-writer", fmt.Sprintf("reader %d admitted with a live context while %d writer(s) hold the lock", t, w)})
				r.abort.Store(true)
			}
			r.mu.Unlock()
			r.s.log("ret t=%d v=0", t)
			return
		}
		r.mu.Lock()
		callAt := r.elapsed()
		r.wCalls[t] = callAt
		r.wPending++
		// nothing outstanding: no reader inside or on its way, no other writer
		free := !r.shutdown && len(r.wCalls) == 1
		for u, ot := range r.th {
			if u != t && (ot.inside || ot.ph == phInLock || ot.ph == phInUnlock) {
				free = false
			}
		}
		for _, ot := range r.th {
			if ot.inside && ot.firstW == 0 {
				ot.firstW = callAt // the first writer that has to wait for this reader
			}
		}
		r.mu.Unlock()
		r.s.log("call t=%d op=lock", t)
		var fn context.CancelFunc
		if p := guard(func() { fn = r.oc.Lock() }); p != nil {
			r.violate("outer-panic", fmt.Sprintf("Lock panicked: %v", p))
			return
		}
		grantAt := r.elapsed()
		r.mu.Lock()
		r.logTicks(grantAt)
		r.wPending--
		if free && r.c.GraceMs >= 15 && grantAt-callAt >= time.Duration(r.c.GraceMs)*time.Millisecond*3/4 {
			// informational only: under machine load plain scheduling delays reach this size; the
			// registry-residue monitor (outerObserve) is the reliable detector of a ghost reader
			r.hist["writer.slow-grant-with-nothing-outstanding"]++
		}
		th.ph, th.unlock = phHolding, fn
		if !r.shutdown {
			if w := r.occW[0].Add(1); w != 1 {
				r.viol = append(r.viol, violation{"outer-mutual-exclusion", fmt.Sprintf("writer %d granted while %d other writer(s) hold the lock", t, w-1)})
				r.abort.Store(true)
			}
			// every earlier reader has released or was told to stop with the configured cause, and a
			// reader that did not release by itself was not cancelled before the grace period
			for u, ot := range r.th {
				if u == t || !ot.inside {
					continue
				}
				ot.justified = true // a writer was granted while this reader was inside: it may have been told to stop
				grace := time.Duration(r.c.GraceMs) * time.Millisecond
				cause := context.Cause(ot.rctx)
				switch base := pick(ot.firstW, callAt); {
				case ot.rctx.Err() == nil:
					r.viol = append(r.viol, violation{"outer-writer-with-live-reader", fmt.Sprintf("writer %d granted while reader %d is inside with a live context", t, u)})
					r.abort.Store(true)
				case cause == errOuter && grantAt-base < grace:
					r.viol = append(r.viol, violation{"outer-writer-before-grace", fmt.Sprintf("writer %d granted at %v although reader %d had not released and the first writer waiting for it called Lock at %v (grace %dms)", t, grantAt, u, ot.firstW, r.c.GraceMs)})
					r.abort.Store(true)
				case cause != errOuter && ot.ctx.Err() == nil:
					// done, not with the configured cause, and its parent is live: cancelled for no stated reason
					r.viol = append(r.viol, violation{"outer-spurious-cancel", fmt.Sprintf("writer %d granted while reader %d is inside with a context done with cause %v although its parent is live", t, u, cause)})
					r.abort.Store(true)
				case cause != errOuter && grantAt-base < grace:
					// the reader's context ended through its PARENT (the cause is the parent's, not the configured
					// one): that is neither a release nor a cancellation by the lock, so the writer still has to
					// wait for the release or for the whole grace period, counted from the call of the first
					// writer that had to wait for this reader (time.After(grace) is started after that call, and
					// grantAt is read after Lock returned: on the code as it is grantAt-base >= grace always)
					r.hist["writer.granted.parent-ended-reader.early"]++
					r.viol = append(r.viol, violation{"outer-writer-before-grace-parent-ended-reader", fmt.Sprintf("writer %d granted %v after the call of the first writer waiting for reader %d (at %v; granted at %v; grace %dms): reader %d has not released, its context ended through its parent (cause %v, not the configured cause) and the grace period has not elapsed", t, grantAt-base, u, base, grantAt, r.c.GraceMs, u, cause)})
					r.abort.Store(true)
				case cause != errOuter:
					r.hist["writer.granted.parent-ended-reader.after-grace"]++
				}
			}
		} else if w := r.occW[0].Add(1); w != 1 {
			// after shutdown Lock goes through shutdownLock and ignores a writer granted before it
			r.viol = append(r.viol, violation{"outer-two-writers-after-shutdown", fmt.Sprintf("writer %d granted after shutdown while %d writer(s) granted earlier still hold the lock", t, w-1)})
			r.abort.Store(true)
		}
		r.mu.Unlock()
		r.s.log("ret t=%d v=0", t)
	}
}

func (r *run) outerUnlock(t int, st Step) func() {
	th := r.th[t]
	return func() {
		if th.md == "r" {
			r.mu.Lock()
			th.inside = false
			r.mu.Unlock()
			r.s.log("call t=%d op=runlock", t)
		} else {
			r.mu.Lock()
			r.occW[0].Add(-1)
			delete(r.wCalls, t)
			r.lastWUnlock = r.elapsed()
			r.mu.Unlock()
			r.s.log("call t=%d op=unlock", t)
		}
		if p := guard(func() { th.unlock() }); p != nil {
			r.violate("outer-panic", fmt.Sprintf("unlock func panicked: %v", p))
			return
		}
		r.mu.Lock()
		th.ph = phIdle
		r.mu.Unlock()
		r.s.log("ret t=%d v=0", t)
	}
}

// outerObserve runs at a quiescent point (caller holds r.mu): read every inside reader's context,
// then the clock, then log ticks and the observations; check the cancellation causes.
func (r *run) outerObserve() {
	type obs struct {
		t     int
		done  bool
		cause bool
	}
	var os []obs
	for t, th := range r.th {
		if th.inside && th.ph == phHolding && th.rctx != nil {
			o := obs{t: t, done: th.rctx.Err() != nil}
			if o.done {
				o.cause = context.Cause(th.rctx) == errOuter
			}
			os = append(os, o)
		}
	}
	if !r.shutdown {
		// no residue: the registry holds exactly the readers that are inside and whose rcancel has not
		// run (an acquisition that reported an error holds nothing)
		for try := 0; ; try++ {
			reg := r.oc.VerifRegistered()
			// lo: readers inside with a live context (certainly registered); hi additionally counts
			// readers inside whose context ended through their parent: rcancel may or may not have run
			// for them since (a later cancel(cause) does not change the cause)
			lo, hi := 0, 0
			for _, th := range r.th {
				if th.inside && th.ph == phHolding && th.rctx != nil {
					switch {
					case th.rctx.Err() == nil:
						lo++
						hi++
					case context.Cause(th.rctx) != errOuter:
						hi++
					}
				}
			}
			if lo <= reg && reg <= hi {
				break
			}
			if try >= 3 {
				id := "outer-registry-lost-reader"
				if reg > hi {
					id = "outercancel-error-return-holds-reader"
				}
				r.viol = append(r.viol, violation{id, fmt.Sprintf("%d reader registration(s) in rcancels, but between %d and %d reader(s) hold the lock with a context that rcancel has not cancelled", reg, lo, hi)})
				r.abort.Store(true)
				break
			}
			time.Sleep(300 * time.Microsecond)
		}
	}
	if r.shutdown {
		// shutdown reclaims every registration (also one whose RLock reported errLockClosed): once the
		// run loop has left, its deferred launch ends them all. Exempt: the loop is still inside
		// handleHold (blocked behind a writer that holds the slot).
		for try := 0; ; try++ {
			reg := r.oc.VerifRegistered()
			if reg == 0 {
				break
			}
			stuck := false
			for _, g := range snapshot() {
				if strings.Contains(g.stack, "(*OuterCancel).handleHold") {
					stuck = true
				}
			}
			if stuck {
				r.hist["shutdown.handler-still-in-handleHold"]++
				break
			}
			if try >= 5 {
				r.viol = append(r.viol, violation{"outer-shutdown-leaves-registration", fmt.Sprintf("%d reader registration(s) left after shutdown although the run loop has returned", reg)})
				r.abort.Store(true)
				break
			}
			time.Sleep(500 * time.Microsecond)
		}
	}
	el := r.elapsed()
	r.logTicks(el)
	// every caller is idle or blocked and every internal goroutine is blocked (settle): no model
	// goroutine may have an enabled step left (timers excepted)
	r.s.log("probe t=0 p=quiet")
	for _, o := range os {
		th := r.th[o.t]
		switch {
		case !o.done:
			r.s.log("probe t=%d p=live", o.t)
			r.hist["reader.live"]++
		case o.cause:
			if th.toldAt == 0 {
				th.toldAt = el
			}
			r.s.log("probe t=%d p=cancelled v=1", o.t)
			r.hist["reader.cancelled.cause"]++
			// told to stop with the configured cause: only a writer (after the grace period) or shutdown
			ok := r.shutdown
			for _, at := range r.wCalls {
				if el-at >= time.Duration(r.c.GraceMs)*time.Millisecond {
					ok = true
				}
			}
			if !ok && !th.lockErr {
				// a writer that was granted while the reader was inside (and may have unlocked since) also justifies it
				if !th.justified {
					r.viol = append(r.viol, violation{"outer-spurious-cancel", fmt.Sprintf("reader %d cancelled with the configured cause at %v: no shutdown, no writer past its grace period", o.t, el)})
					r.abort.Store(true)
				}
			}
		default:
			r.s.log("probe t=%d p=cancelled v=0", o.t)
			r.hist["reader.cancelled.parent"]++
			if th.ctx.Err() == nil {
				r.viol = append(r.viol, violation{"outer-spurious-cancel", fmt.Sprintf("reader %d context done with cause %v although its parent is live", o.t, context.Cause(th.rctx))})
				r.abort.Store(true)
			}
		}
	}
	for _, th := range r.th {
		if th.ph == phHolding && th.md == "w" {
			r.hist["writer.granted"]++
		}
	}
}

func outerForced(thorough bool) []*Case {
	var cs []*Case
	add := func(fam string, n, grace int, steps ...Step) {
		cs = append(cs, &Case{Prim: "outer", N: n, Keys: 1, GraceMs: grace, Family: fam, Steps: steps})
	}
	sl := func(ms int) Step { return Step{Do: "sleep", Ms: ms} }
	for _, g := range []int{2, 3, 5} {
		// readers that release only at the grace timeout
		add("writer-waits-grace", 4, g, lk(0, 0, "r", false), lk(1, 0, "r", false), lk(3, 0, "w", false), sl(g+2),
			lk(2, 0, "r", false), ul(3, false, false), ul(0, false, false), ul(1, false, false), ul(2, false, false))
		// readers that release promptly: the writer is granted before the grace period
		add("writer-readers-release", 3, g, lk(0, 0, "r", false), lk(1, 0, "r", false), lk(2, 0, "w", false),
			ul(0, false, false), ul(1, false, false), ul(2, false, false))
		// two writers, reader queued behind them
		add("two-writers", 4, g, lk(0, 0, "w", false), lk(1, 0, "w", false), lk(2, 0, "r", false), ul(0, false, false),
			ul(1, false, false), ul(2, false, false))
		// reader whose parent context ends while it waits behind a writer / while it holds
		add("reader-parent-cancel", 3, g, lk(0, 0, "w", false), lk(1, 0, "r", false), Step{Do: "cancel", T: 1},
			lk(2, 0, "r", false), ul(0, false, false), Step{Do: "cancel", T: 2}, ul(2, false, false))
		// shutdown with readers inside; Lock keeps working, RLock fails
		add("shutdown", 4, g, lk(0, 0, "r", false), lk(1, 0, "r", false), Step{Do: "close"}, sl(1),
			lk(2, 0, "w", false), lk(3, 0, "r", false), ul(2, false, false), ul(0, false, false), ul(1, false, false))
		// a reader queued behind another waiting reader is cancelled while it waits; afterwards a writer
		// must not be held up by anything the failed acquisition left behind
		for rep := 0; rep < 4; rep++ {
			add("queued-reader-cancel", 4, g+15, lk(0, 0, "w", false), lk(1, 0, "r", false), lk(2, 0, "r", false),
				Step{Do: "cancel", T: 2}, ul(0, false, false), ul(1, false, false), ul(2, false, false),
				lk(3, 0, "w", false), ul(3, false, false))
			// cancellation racing the grant: the writer unlocks while the waiting reader's context ends
			for _, us := range []int{0, 2, 5, 10, 20, 50} {
				add("cancel-racing-grant", 3, g+15, lk(0, 0, "w", false), lk(1, 0, "r", false),
					Step{Do: "race", T: 1, K: 0, Us: us + rep}, ul(1, false, false), lk(2, 0, "w", false), ul(2, false, false))
			}
		}
		// late release: R1 is cancelled at the grace timeout by W, W unlocks, R2 is admitted, only then
		// R1 calls its release function; the next writer must still wait for R2
		add("late-release", 4, g, lk(1, 0, "r", false), lk(0, 0, "w", false), sl(g+2), ul(0, false, false),
			lk(2, 0, "r", false), ul(1, false, false), lk(3, 0, "w", false), sl(g+2), ul(3, false, false), ul(2, false, false))
		// a writer granted before shutdown and a writer arriving after it
		add("writers-across-shutdown", 2, g, lk(0, 0, "w", false), Step{Do: "close"}, sl(1), lk(1, 0, "w", false),
			ul(1, false, false), ul(0, false, false))
		// shutdown while a reader waits behind a writer: its admission races errLockClosed
		for rep := 0; rep < 4; rep++ {
			add("shutdown-racing-admission", 3, g, lk(0, 0, "w", false), lk(1, 0, "r", false), Step{Do: "close"}, sl(1),
				ul(0, false, false), sl(1), ul(1, false, false))
		}
		// shutdown while a writer waits for the grace period
		add("shutdown-during-grace", 3, g, lk(0, 0, "r", false), lk(1, 0, "w", false), Step{Do: "close"}, sl(1),
			ul(1, false, false), ul(0, false, false))
	}
	cs = append(cs, outerParentEnded(thorough)...)
	return cs
}

// outerParentEnded: readers whose PARENT context ends while they HOLD the read lock and which do not
// release. Such a reader has neither released nor been cancelled by the lock: a later writer waits
// for its release or for the whole grace period, exactly as for a reader with a live parent (its
// context's cause stays the parent's). Orders: parent ends before the writer arrives / while the
// writer waits (early, middle, just before the end of the grace period) / reader admitted behind a
// writer; alone or together with readers that release promptly, that stay live, or whose parents
// end too; the reader releases late, at once, or never (drain); a second writer; shutdown.
func outerParentEnded(thorough bool) []*Case {
	var cs []*Case
	add := func(fam string, n, grace int, steps ...Step) {
		cs = append(cs, &Case{Prim: "outer", N: n, Keys: 1, GraceMs: grace, Family: fam, Steps: steps})
	}
	sl := func(ms int) Step { return Step{Do: "sleep", Ms: ms} }
	cn := func(t int) Step { return Step{Do: "cancel", T: t} }
	r := func(t int) Step { return lk(t, 0, "r", false) }
	w := func(t int) Step { return lk(t, 0, "w", false) }
	u := func(t int) Step { return ul(t, false, false) }
	graces := []int{3, 5, 20, 40}
	if thorough {
		graces = []int{2, 3, 5, 8, 20, 40, 80, 150}
	}
	for _, g := range graces {
		// the parent ends before the writer arrives; the reader keeps holding past the grace period
		add("parent-ended-before-writer", 2, g, r(0), cn(0), w(1), sl(g+2), u(1), u(0))
		// … and never releases by itself (the drain releases it after the writer)
		add("parent-ended-before-writer", 2, g, r(0), cn(0), sl(1), w(1))
		// … and releases at once after the writer arrived: then the writer is granted early, rightly
		add("parent-ended-reader-releases", 2, g, r(0), cn(0), w(1), u(0), u(1))
		// a second writer after the first one had waited the whole grace period
		add("parent-ended-two-writers", 3, g, r(0), cn(0), w(1), sl(g+2), u(1), w(2), u(2), u(0))
		// several readers: one releases promptly, one's parent ended: the writer still waits
		add("parent-ended-and-prompt-release", 3, g, r(0), r(1), cn(0), w(2), u(1), sl(g+2), u(2), u(0))
		add("parent-ended-and-prompt-release", 4, g, r(0), r(1), r(2), cn(2), w(3), u(0), u(1), sl(g+2), u(3), u(2))
		// several readers: some parents ended, one reader stays live until the grace timeout
		add("parent-ended-some-of-several", 4, g, r(0), r(1), r(2), cn(0), cn(2), w(3), sl(g+2), u(3), u(0), u(1), u(2))
		// all parents ended
		add("parent-ended-all-of-several", 4, g, r(0), r(1), r(2), cn(1), cn(0), cn(2), w(3), sl(g+2), u(3), u(2), u(1), u(0))
		// reader admitted behind a writer, its parent ends while it holds, next writer
		add("parent-ended-after-queued-admission", 3, g, w(0), r(1), u(0), cn(1), w(2), sl(g+2), u(2), u(1))
		// the next writer is already queued when the reader is admitted and its parent ends
		add("parent-ended-writer-already-queued", 3, g, w(0), r(1), w(2), u(0), cn(1), sl(g+2), u(2), u(1))
		// shutdown while the writer waits for a reader whose parent ended
		add("parent-ended-shutdown-during-grace", 2, g, r(0), cn(0), w(1), Step{Do: "close"}, sl(1), u(1), u(0))
	}
	// the parent ends while the writer is inside its grace period (needs a grace period long enough
	// to place the cancellation inside it): early, in the middle, just before the end
	dg := []int{20, 40}
	if thorough {
		dg = []int{12, 20, 40, 80, 150}
	}
	for _, g := range dg {
		for _, at := range []int{0, 1, g / 4, g / 2, g - 6, g - 3} {
			if at < 0 {
				continue
			}
			st := []Step{r(0), w(1)}
			if at > 0 {
				st = append(st, sl(at))
			}
			st = append(st, cn(0), sl(g-at+2), u(1), u(0))
			add("parent-ended-during-grace", 2, g, st...)
			// with a second reader that releases promptly, and a third whose parent stays live
			st = []Step{r(0), r(1), w(2), u(1)}
			if at > 0 {
				st = append(st, sl(at))
			}
			st = append(st, cn(0), sl(g-at+2), u(2), u(0))
			add("parent-ended-during-grace-mixed", 3, g, st...)
		}
	}
	return cs
}

func runOuter(c *Case, next func(r *run) *Step) *outcome {
	r := newRun(c)
	header := r.header()
	lines := r.execute(next)
	o := &outcome{c: c, lines: append([]string{header}, lines...), viol: r.viol, hist: r.hist}
	o.nontrv = r.hist["blocked.confirmed"] > 0 || r.hist["reader.cancelled.cause"] > 0
	return o
}
