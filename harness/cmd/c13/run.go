package main

// Scenario executor for fifo.Mutex, fifo.Map, cmap.Mutex and lock.Context: one step at a time
// (start an operation on a caller, release a parked caller, cancel a context), settle, observe.
// The observable trace goes to the model; the monitors below do not depend on the model.

import (
	"context"
	"errors"
	"fmt"
	"strings"
	"sync"
	"sync/atomic"
	"time"

	"github.com/dapr/kit/concurrency/cmap"
	"github.com/dapr/kit/concurrency/fifo"
	"github.com/dapr/kit/concurrency/lock"
)

type Step struct {
	Do   string `json:"do"` // start | release | cancel | close | sleep
	T    int    `json:"t"`
	Op   string `json:"op,omitempty"` // lock | unlock | delete | clear | count
	K    int    `json:"k,omitempty"`
	Md   string `json:"md,omitempty"` // w | r
	Del  bool   `json:"del,omitempty"`
	Park bool   `json:"park,omitempty"`
	Ms   int    `json:"ms,omitempty"`
	Us   int    `json:"us,omitempty"` // race: delay between the unlock start and the cancellation
}

type Case struct {
	Prim    string `json:"prim"` // fifomutex | fifomap | cmap | context | outer
	N       int    `json:"n"`
	Keys    int    `json:"keys"`
	GraceMs int    `json:"grace_ms,omitempty"`
	Family  string `json:"family,omitempty"`
	Rounds  int    `json:"rounds,omitempty"`
	Procs   int    `json:"procs,omitempty"` // GOMAXPROCS for this scenario (0 = leave as is)
	Steps   []Step `json:"steps"`
}

type phase int

const (
	phIdle phase = iota
	phInLock
	phHolding
	phInUnlock
	phInAdmin
)

type thread struct {
	ph        phase
	k         int
	md        string
	status    tStatus
	probed    bool // `probe blocked` already logged for the current call
	ctx       context.Context
	cancel    context.CancelFunc
	lockErr   bool
	rctx      context.Context    // OuterCancel reader context
	unlock    context.CancelFunc // OuterCancel unlock / release func
	inside    bool               // OuterCancel: reader between RLock return and release start
	enterAt   time.Duration
	firstW    time.Duration // OuterCancel: call time of the first writer that had to wait for this reader
	justified bool          // OuterCancel: a writer was granted while this reader was inside
	toldAt    time.Duration // OuterCancel: when the reader's context was first seen cancelled with the configured cause
}

type violation struct {
	id, what string
}

type run struct {
	c     *Case
	s     *sched
	mu    sync.Mutex
	th    []*thread
	viol  []violation
	hang  bool
	abort atomic.Bool

	// occupancy monitor, updated inside critical sections
	occW, occR []atomic.Int32
	// FIFO monitor: confirmed arrival order per key
	arrivals [][]int
	// cmap: a DeleteUnlock/DeleteRUnlock was started on key k while another caller held or waited on k
	delWithWaiter []bool

	fm   *fifo.Mutex
	fmap fifo.Map[int]
	cm   cmap.Mutex[int]
	lc   *lock.Context

	oc          *lock.OuterCancel
	runCancel   context.CancelFunc
	t0          time.Time
	ticks       int
	shutdown    bool
	wCalls      map[int]time.Duration // pending/holding writers: time of their Lock call
	wPending    int                   // writers that called Lock and were not granted yet
	lastWUnlock time.Duration         // time of the latest writer unlock call

	hist map[string]int
}

var errOuter = errors.New("c13 outer cancel cause")

func newRun(c *Case) *run {
	r := &run{c: c, hist: map[string]int{}}
	r.s = newSched(c.N)
	for i := 0; i < c.N; i++ {
		r.th = append(r.th, &thread{})
	}
	keys := c.Keys
	if keys < 1 {
		keys = 1
	}
	r.occW = make([]atomic.Int32, keys)
	r.occR = make([]atomic.Int32, keys)
	r.arrivals = make([][]int, keys)
	r.delWithWaiter = make([]bool, keys)
	switch c.Prim {
	case "fifomutex":
		r.fm = fifo.New()
	case "fifomap":
		r.fmap = fifo.NewMap[int]()
	case "cmap":
		r.cm = cmap.NewMutex[int]()
	case "context":
		r.lc = lock.NewContext()
	case "outer":
		r.oc = lock.NewOuterCancel(errOuter, time.Duration(c.GraceMs)*time.Millisecond)
		var ctx context.Context
		ctx, r.runCancel = context.WithCancel(context.Background())
		go r.oc.Run(ctx)
		r.wCalls = map[int]time.Duration{}
		r.s.extra = func(gi map[int64]gInfo) bool {
			for _, g := range gi {
				if strings.Contains(g.stack, "concurrency/lock.(*OuterCancel)") && !strings.Contains(g.stack, "main.(*run)") && !blockedState(g.state) {
					return false
				}
			}
			return true
		}
		r.t0 = time.Now()
	}
	return r
}

func (r *run) header() string {
	h := fmt.Sprintf("new prim=%s n=%d keys=%d", r.c.Prim, r.c.N, maxi(r.c.Keys, 1))
	if r.c.Prim == "cmap" {
		h += fmt.Sprintf(" rc=%d", cmapRC)
	}
	if r.c.Prim == "outer" {
		h = fmt.Sprintf("new prim=outer n=%d grace=%d", r.c.N, r.c.GraceMs)
	}
	return h
}

func maxi(a, b int) int {
	if a > b {
		return a
	}
	return b
}

func (r *run) violate(id, what string) {
	r.mu.Lock()
	r.viol = append(r.viol, violation{id, what})
	r.mu.Unlock()
	r.abort.Store(true)
}

// enter/leave are called by the caller goroutine itself while it is inside its critical section.
func (r *run) enter(t, k int, md string) {
	if md == "r" {
		rd := r.occR[k].Add(1)
		if w := r.occW[k].Load(); w != 0 {
			r.violate(r.mutexFinding(k), fmt.Sprintf("%s: caller %d entered key %d shared while %d exclusive holder(s) inside (readers=%d)", r.c.Prim, t, k, w, rd))
		}
		return
	}
	w := r.occW[k].Add(1)
	rd := r.occR[k].Load()
	if w != 1 || rd != 0 {
		r.violate(r.mutexFinding(k), fmt.Sprintf("%s: caller %d entered key %d exclusively with %d exclusive and %d shared holder(s) inside", r.c.Prim, t, k, w, rd))
	}
}

func (r *run) leave(k int, md string) {
	if md == "r" {
		r.occR[k].Add(-1)
	} else {
		r.occW[k].Add(-1)
	}
}

func (r *run) mutexFinding(k int) string {
	if r.c.Prim == "cmap" {
		r.mu.Lock()
		d := r.delWithWaiter[k]
		r.mu.Unlock()
		if d {
			return "cmap-delete-unlock-with-waiter"
		}
	}
	return r.c.Prim + "-mutual-exclusion"
}

// liveFinding classifies a hang: on cmap.Mutex after a DeleteUnlock with a waiter it is the lost
// unlock of the same defect.
func (r *run) liveFinding(kind string) string {
	if r.c.Prim == "cmap" {
		r.mu.Lock()
		defer r.mu.Unlock()
		for _, d := range r.delWithWaiter {
			if d {
				return "cmap-delete-unlock-with-waiter"
			}
		}
	}
	return r.c.Prim + "-" + kind
}

// usesKey: caller t holds key k or waits for it (harness-side bookkeeping, not the model).
func (r *run) usesKey(t, k int) bool {
	th := r.th[t]
	return (th.ph == phInLock || th.ph == phHolding || th.ph == phInUnlock) && th.k == k
}

func (r *run) othersUse(t, k int) bool {
	for u := range r.th {
		if u != t && r.usesKey(u, k) {
			return true
		}
	}
	return false
}

// ---- operations (run on the worker goroutine) ----

func (r *run) opLock(t int, st Step) func() {
	th := r.th[t]
	if r.c.Prim == "outer" {
		return r.outerLock(t, st)
	}
	return func() {
		k, md := st.K, st.Md
		if md == "" {
			md = "w"
		}
		switch r.c.Prim {
		case "fifomutex":
			r.s.log("call t=%d op=lock", t)
		case "context":
			pre := 0
			if st.Ms == 1 {
				pre = 1
			}
			r.s.log("call t=%d op=lock md=%s pre=%d", t, md, pre)
		default:
			r.s.log("call t=%d op=lock k=%d md=%s", t, k, md)
		}
		var err error
		p := guard(func() {
			switch r.c.Prim {
			case "fifomutex":
				r.fm.Lock()
			case "fifomap":
				r.fmap.Lock(k)
			case "cmap":
				if md == "r" {
					r.cm.RLock(k)
				} else {
					r.cm.Lock(k)
				}
			case "context":
				if md == "r" {
					err = r.lc.RLock(th.ctx)
				} else {
					err = r.lc.Lock(th.ctx)
				}
			}
		})
		if p != nil {
			r.violate(r.c.Prim+"-panic", fmt.Sprintf("Lock panicked: %v", p))
			return
		}
		r.mu.Lock()
		if err != nil {
			th.ph = phIdle
			th.lockErr = true
			r.mu.Unlock()
			r.hist["ret.lock.err"]++
			if th.ctx.Err() == nil {
				r.violate("context-error-without-cancel", fmt.Sprintf("caller %d: Lock returned %v although its context is not done", t, err))
			}
			r.s.log("ret t=%d v=1", t)
			return
		}
		th.ph = phHolding
		// FIFO monitor: the grant must go to the longest-waiting confirmed arrival
		if r.c.Prim == "fifomutex" || r.c.Prim == "fifomap" {
			q := r.arrivals[k]
			if len(q) > 0 {
				if q[0] == t {
					r.arrivals[k] = q[1:]
				} else {
					r.viol = append(r.viol, violation{r.c.Prim + "-fifo-order", fmt.Sprintf("key %d granted to caller %d while confirmed arrival order is %v", k, t, q)})
					r.abort.Store(true)
				}
			}
		}
		r.mu.Unlock()
		r.enter(t, k, md)
		if r.c.Prim == "context" {
			r.s.log("ret t=%d v=0", t)
		} else {
			r.s.log("ret t=%d", t)
		}
	}
}

func (r *run) opUnlock(t int, st Step) func() {
	th := r.th[t]
	if r.c.Prim == "outer" {
		return r.outerUnlock(t, st)
	}
	return func() {
		k, md := th.k, th.md
		r.leave(k, md)
		del := 0
		if st.Del {
			del = 1
		}
		switch r.c.Prim {
		case "cmap":
			r.s.log("call t=%d op=unlock del=%d", t, del)
		default:
			r.s.log("call t=%d op=unlock", t)
		}
		p := guard(func() {
			switch r.c.Prim {
			case "fifomutex":
				r.fm.Unlock()
			case "fifomap":
				r.fmap.Unlock(k)
			case "cmap":
				switch {
				case md == "r" && st.Del:
					r.cm.DeleteRUnlock(k)
				case md == "r":
					r.cm.RUnlock(k)
				case st.Del:
					r.cm.DeleteUnlock(k)
				default:
					r.cm.Unlock(k)
				}
			case "context":
				if md == "r" {
					r.lc.RUnlock()
				} else {
					r.lc.Unlock()
				}
			}
		})
		if p != nil {
			r.violate(r.c.Prim+"-panic", fmt.Sprintf("Unlock panicked: %v", p))
			return
		}
		r.mu.Lock()
		th.ph = phIdle
		r.mu.Unlock()
		r.s.log("ret t=%d", t)
	}
}

func (r *run) opAdmin(t int, st Step) func() {
	th := r.th[t]
	return func() {
		switch st.Op {
		case "delete":
			r.s.log("call t=%d op=delete k=%d", t, st.K)
			r.cm.Delete(st.K)
			r.s.log("ret t=%d", t)
		case "clear":
			r.s.log("call t=%d op=clear", t)
			r.cm.Clear()
			r.s.log("ret t=%d", t)
		case "count":
			r.s.log("call t=%d op=count", t)
			n := r.cm.ItemCount()
			r.s.log("ret t=%d v=%d", t, n)
		}
		r.mu.Lock()
		th.ph = phIdle
		r.mu.Unlock()
	}
}

// raceContext: the holder's goroutine releases the lock and ends the waiter's context back to
// back (both on the same goroutine, so that under GOMAXPROCS(1) nothing runs in between), in either
// order, with a skew of st.Us microseconds.
func (r *run) raceContext(st Step) {
	hd, wt := r.th[st.K], r.th[st.T]
	r.mu.Lock()
	hd.ph, hd.probed = phInUnlock, false
	r.mu.Unlock()
	k, md := hd.k, hd.md
	spin := func() {
		for t0 := time.Now(); time.Since(t0) < time.Duration(st.Us)*time.Microsecond; {
		}
	}
	unlock := func() {
		if md == "r" {
			r.lc.RUnlock()
		} else {
			r.lc.Unlock()
		}
	}
	r.hist["race."+st.Md]++
	r.s.start(st.K, "", func() {
		r.leave(k, md)
		if st.Md == "cu" {
			r.s.log("env e=cancel t=%d", st.T)
			wt.cancel()
			spin()
			r.s.log("call t=%d op=unlock", st.K)
			unlock()
		} else {
			r.s.log("call t=%d op=unlock", st.K)
			r.s.log("env e=cancel t=%d", st.T) // logged before the cancellation really happens
			unlock()
			spin()
			wt.cancel()
		}
		r.mu.Lock()
		hd.ph = phIdle
		r.mu.Unlock()
		r.s.log("ret t=%d", st.K)
	})
}

// contextFreeCheck (quiescent point, caller holds r.mu): when no caller holds lock.Context, nobody
// may be parked waiting for it, and — after an acquisition reported an error — a fresh Lock must be
// granted at once: an acquisition that reports an error holds nothing.
func (r *run) contextFreeCheck(st []tStatus) {
	holders, errSeen := 0, false
	for _, th := range r.th {
		if th.ph == phHolding || th.ph == phInUnlock {
			holders++
		}
		if th.lockErr {
			errSeen = true
		}
	}
	if holders > 0 {
		return
	}
	for t, th := range r.th {
		if th.ph == phInLock && st[t] == stBlocked && th.ctx != nil && th.ctx.Err() == nil {
			r.viol = append(r.viol, violation{"context-error-return-holds-lock", fmt.Sprintf("nobody holds the lock, yet caller %d is parked waiting for it (an earlier acquisition that reported an error kept the token or the RWMutex)", t)})
			r.abort.Store(true)
			return
		}
	}
	if !errSeen {
		return
	}
	for _, th := range r.th {
		th.lockErr = false
	}
	ctx, cancel := context.WithTimeout(context.Background(), time.Second)
	defer cancel()
	if err := r.lc.Lock(ctx); err != nil {
		r.viol = append(r.viol, violation{"context-error-return-holds-lock", "after an acquisition reported an error and with no holder, a fresh Lock(ctx, 1s) is not granted: " + err.Error()})
		r.abort.Store(true)
		return
	}
	r.lc.Unlock()
	r.hist["free-check.passed"]++
}

// ---- one step + settle ----

func (r *run) hookName(op string) string {
	switch r.c.Prim {
	case "fifomap":
		return "fifo.map.beforeMutex/*"
	case "cmap":
		return "cmap.mutex.afterLookup/*"
	}
	return ""
}

// valid says whether the step can be executed in the current harness-side state.
func (r *run) valid(st Step) bool {
	if st.T < 0 || st.T >= r.c.N {
		return false
	}
	th := r.th[st.T]
	switch st.Do {
	case "start":
		switch st.Op {
		case "lock":
			return th.ph == phIdle && !r.s.ws[st.T].busy.Load() && st.K >= 0 && st.K < maxi(r.c.Keys, 1)
		case "unlock":
			return th.ph == phHolding && !r.s.ws[st.T].busy.Load()
		case "delete":
			return r.c.Prim == "cmap" && th.ph == phIdle && !r.s.ws[st.T].busy.Load()
		case "clear", "count":
			return r.c.Prim == "cmap" && th.ph == phIdle && !r.s.ws[st.T].busy.Load()
		}
		return false
	case "release":
		return r.s.ws[st.T].parked.Load()
	case "cancel":
		if r.c.Prim == "outer" {
			return th.cancel != nil && th.md == "r" && (th.ph == phInLock || th.ph == phHolding) && th.ctx.Err() == nil
		}
		return r.c.Prim == "context" && th.cancel != nil && th.ph == phInLock && th.ctx.Err() == nil
	case "close":
		return r.c.Prim == "outer" && !r.shutdown
	case "race": // unlock holder K while cancelling waiter T
		if st.K < 0 || st.K >= r.c.N {
			return false
		}
		if r.c.Prim == "context" {
			hd := r.th[st.K]
			return hd.ph == phHolding && !r.s.ws[st.K].busy.Load() &&
				th.ph == phInLock && th.cancel != nil && th.ctx.Err() == nil
		}
		if r.c.Prim != "outer" {
			return false
		}
		wr := r.th[st.K]
		return wr.ph == phHolding && wr.md == "w" && !r.s.ws[st.K].busy.Load() &&
			th.ph == phInLock && th.md == "r" && th.cancel != nil && th.ctx.Err() == nil
	case "sleep":
		return true
	}
	return false
}

func (r *run) doStep(st Step) {
	r.hist["step."+st.Do+"."+st.Op]++
	th := r.th[st.T]
	park := ""
	if st.Park {
		park = r.hookName(st.Op)
		r.hist["park."+st.Op]++
	}
	switch st.Do {
	case "start":
		r.mu.Lock()
		switch st.Op {
		case "lock":
			th.ph, th.k, th.md, th.probed, th.lockErr = phInLock, st.K, st.Md, false, false
			if th.md == "" {
				th.md = "w"
			}
			if r.c.Prim == "context" || r.c.Prim == "outer" {
				th.ctx, th.cancel = context.WithCancel(context.Background())
				if st.Ms == 1 {
					th.cancel() // context already done when Lock is called
				}
			}
			r.mu.Unlock()
			r.s.start(st.T, park, r.opLock(st.T, st))
		case "unlock":
			if r.c.Prim == "cmap" && st.Del && r.othersUse(st.T, th.k) {
				r.delWithWaiter[th.k] = true
				curProgress.Finding = "cmap-delete-unlock-with-waiter"
				curProgress.Case = r.c
				writeProgress()
				r.hist["cmap.deleteUnlock.withWaiter"]++
			}
			th.ph, th.probed = phInUnlock, false
			r.mu.Unlock()
			r.s.start(st.T, park, r.opUnlock(st.T, st))
		default:
			th.ph = phInAdmin
			r.mu.Unlock()
			r.s.start(st.T, "", r.opAdmin(st.T, st))
		}
	case "release":
		r.s.releaseParked(st.T)
	case "cancel":
		r.s.log("env e=cancel t=%d", st.T)
		th.cancel()
	case "race":
		if r.c.Prim == "context" {
			r.raceContext(st)
			return
		}
		wr := r.th[st.K]
		r.s.log("env e=cancel t=%d", st.T)
		r.mu.Lock()
		wr.ph, wr.probed = phInUnlock, false
		r.mu.Unlock()
		r.s.start(st.K, "", r.opUnlock(st.K, Step{Do: "start", T: st.K, Op: "unlock"}))
		for t0 := time.Now(); time.Since(t0) < time.Duration(st.Us)*time.Microsecond; {
		}
		th.cancel()
	case "close":
		r.s.log("env e=shutdown")
		r.mu.Lock()
		r.shutdown = true
		r.mu.Unlock()
		r.runCancel()
	case "sleep":
		time.Sleep(time.Duration(st.Ms) * time.Millisecond)
	}
}

// afterSettle logs the observations of a quiescent point and runs the quiescent monitors.
func (r *run) afterSettle(st []tStatus) {
	r.mu.Lock()
	defer r.mu.Unlock()
	mapSectionHeld := false // a caller is parked inside a map-lock section (cmap release methods)
	for t, w := range r.s.ws {
		if st[t] == stParked && r.c.Prim == "cmap" && r.th[t].ph == phInUnlock {
			mapSectionHeld = true
		}
		_ = w
	}
	for t := range r.th {
		th := r.th[t]
		th.status = st[t]
		if st[t] == stBlocked && th.ph == phInLock && !th.probed && !mapSectionHeld {
			th.probed = true
			if r.c.Prim != "outer" {
				r.s.log("probe t=%d p=blocked", t)
			}
			r.hist["blocked.confirmed"]++
			if r.c.Prim == "fifomutex" || r.c.Prim == "fifomap" {
				r.arrivals[th.k] = append(r.arrivals[th.k], t)
			}
		}
	}
	if r.c.Prim == "outer" {
		r.outerObserve()
	}
	if r.c.Prim == "context" {
		r.contextFreeCheck(st)
		// a waiter whose context has ended stops waiting, whoever holds the lock in whatever mode
		for t, th := range r.th {
			if th.ph == phInLock && st[t] == stBlocked && th.ctx != nil && th.ctx.Err() != nil {
				r.viol = append(r.viol, violation{"context-cancelled-waiter-still-waiting", fmt.Sprintf("caller %d is still blocked in Lock/RLock (mode %s) after its context was cancelled", t, th.md)})
				r.abort.Store(true)
			}
		}
	}
	if r.c.Prim == "fifomap" {
		// no-leak monitor: entries = keys with a holder or waiter; ilen = their number
		want := map[int]int{}
		for t, th := range r.th {
			counted := false
			switch th.ph {
			case phInLock:
				counted = st[t] == stBlocked || st[t] == stParked
			case phHolding:
				counted = true
			case phInUnlock:
				counted = false // parked at the hook after the map section, or blocked in the receive
			}
			if counted {
				want[th.k]++
			}
		}
		got := fifo.VerifLen(r.fmap)
		r.s.log("probe t=0 p=len v=%d", got)
		if got != len(want) {
			r.viol = append(r.viol, violation{"fifomap-leak", fmt.Sprintf("fifo map has %d entries, %d key(s) have holders or waiters (%v)", got, len(want), want)})
			r.abort.Store(true)
		}
		for k := 0; k < r.c.Keys; k++ {
			il := fifo.VerifIlen(r.fmap, k)
			w, ok := want[k]
			if (!ok && il != -1) || (ok && il != w) {
				r.viol = append(r.viol, violation{"fifomap-ilen", fmt.Sprintf("key %d: ilen=%d, holders+waiters=%d", k, il, w)})
				r.abort.Store(true)
			}
		}
	}
}

const settleDeadline = 3 * time.Second

// execute runs the scenario: steps from next() until it returns nil, then a drain that lets every
// caller finish. It returns the observable trace.
func (r *run) execute(next func(r *run) *Step) []string {
	defer r.s.close()
	record := r.c.Steps == nil
	if record {
		r.c.Steps = []Step{}
	}
	one := func(st Step) bool {
		if !r.valid(st) {
			r.hist["step.skipped"]++
			return true
		}
		if record {
			r.c.Steps = append(r.c.Steps, st)
		}
		curProgress.Case = r.c
		writeProgress()
		r.doStep(st)
		stt, ok := r.s.settle(settleDeadline)
		if !ok {
			r.hang = true
			r.violate(r.liveFinding("hang"), fmt.Sprintf("callers did not settle within %v after %+v", settleDeadline, st))
			return false
		}
		r.afterSettle(stt)
		return !r.abort.Load()
	}
	for {
		st := next(r)
		if st == nil {
			break
		}
		if !one(*st) {
			return r.s.lines
		}
	}
	// drain: release parked callers, unlock holders, until everybody is idle
	for round := 0; round < 8*r.c.N+16; round++ {
		progress := false
		for t := range r.th {
			var st *Step
			r.mu.Lock()
			ph := r.th[t].ph
			r.mu.Unlock()
			switch {
			case r.s.ws[t].parked.Load():
				st = &Step{Do: "release", T: t}
			case ph == phHolding && !r.s.ws[t].busy.Load():
				st = &Step{Do: "start", T: t, Op: "unlock"}
			}
			if st != nil {
				progress = true
				if !one(*st) {
					return r.s.lines
				}
			}
		}
		if !progress {
			waiting := false
			for _, th := range r.th {
				waiting = waiting || th.ph == phInLock
			}
			if r.c.Prim == "outer" && waiting && round < 8 {
				if !one(Step{Do: "sleep", Ms: r.c.GraceMs + 2}) {
					return r.s.lines
				}
				continue
			}
			break
		}
	}
	if r.c.Prim == "outer" {
		r.runCancel()
	}
	for t, th := range r.th {
		if th.ph != phIdle || r.s.ws[t].busy.Load() {
			r.violate(r.liveFinding("stuck"), fmt.Sprintf("caller %d never finished (phase %d) although every holder released", t, th.ph))
			break
		}
	}
	if r.c.Prim == "context" && !r.abort.Load() {
		// an acquisition that reported an error holds nothing: the lock must still be acquirable
		ctx, cancel := context.WithTimeout(context.Background(), time.Second)
		if err := r.lc.Lock(ctx); err != nil {
			r.violate("context-error-return-holds-lock", "after every caller released or failed, Lock does not succeed within 1s: "+err.Error())
		} else {
			r.lc.Unlock()
		}
		cancel()
	}
	return r.s.lines
}
