package main

import (
	"verifharness/lib"
)

func lk(t, k int, md string, park bool) Step {
	return Step{Do: "start", T: t, Op: "lock", K: k, Md: md, Park: park}
}
func ul(t int, del, park bool) Step {
	return Step{Do: "start", T: t, Op: "unlock", Del: del, Park: park}
}
func rel(t int) Step { return Step{Do: "release", T: t} }

func perms(n int) [][]int {
	if n == 1 {
		return [][]int{{0}}
	}
	var out [][]int
	for _, p := range perms(n - 1) {
		for i := 0; i <= len(p); i++ {
			q := append(append(append([]int{}, p[:i]...), n-1), p[i:]...)
			out = append(out, q)
		}
	}
	return out
}

// forcedCases: the named schedule families; every context switch the property quantifier names
// (between look-up and mutex operation of every method) is placed deterministically.
func forcedCases(thorough bool) []*Case {
	var cs []*Case
	add := func(prim, fam string, n, keys int, steps ...Step) {
		cs = append(cs, &Case{Prim: prim, N: n, Keys: keys, Family: fam, Steps: steps})
	}
	maxN := 4
	if thorough {
		maxN = 5
	}
	// --- fifo.Mutex / fifo.Map: a holder, then contenders arriving in every order ---
	for n := 2; n <= maxN; n++ {
		for _, p := range perms(n) {
			for _, prim := range []string{"fifomutex", "fifomap"} {
				var st []Step
				for _, t := range p {
					st = append(st, lk(t, 0, "w", false))
				}
				for _, t := range p {
					st = append(st, ul(t, false, false))
				}
				add(prim, "arrival-order", n, 1, st...)
			}
		}
	}
	// 8 callers, one key, arrival order = a fixed shuffle
	for _, prim := range []string{"fifomutex", "fifomap"} {
		order := []int{3, 7, 0, 5, 1, 6, 2, 4}
		var st []Step
		for _, t := range order {
			st = append(st, lk(t, 0, "w", false))
		}
		for _, t := range order {
			st = append(st, ul(t, false, false))
		}
		add(prim, "arrival-order-8", 8, 1, st...)
	}
	if thorough {
		// long wait: a parked waiter that has waited longer than any plausible internal timeout must
		// still be served before a later arrival (real time: ≈ 6 s per scenario, thorough / search only)
		for _, prim := range []string{"fifomutex", "fifomap"} {
			// B parks, C parks 2.5 s later, the release comes when B has waited 5.6 s and C 3.1 s: a waiter
			// that re-queues itself after a 5 s internal timeout would now stand behind C
			add(prim, "long-wait", 3, 1, lk(0, 0, "w", false), lk(1, 0, "w", false), Step{Do: "sleep", Ms: 2500},
				lk(2, 0, "w", false), Step{Do: "sleep", Ms: 3100}, ul(0, false, false), ul(1, false, false), ul(2, false, false))
			// and the plain variant: B alone waits 5.6 s, then C arrives, then the release
			add(prim, "long-wait-then-arrival", 3, 1, lk(0, 0, "w", false), lk(1, 0, "w", false), Step{Do: "sleep", Ms: 5600},
				lk(2, 0, "w", false), ul(0, false, false), ul(1, false, false), ul(2, false, false))
		}
	}
	// --- fifo.Map: context switch between the map section and the item mutex operation ---
	// Lock parked after counting itself: a later caller overtakes it at the channel (arrival order
	// is the order at the channel), the entry must not disappear meanwhile.
	add("fifomap", "lock-parked-overtaken", 3, 1,
		lk(0, 0, "w", true), lk(1, 0, "w", false), lk(2, 0, "w", false), rel(0),
		ul(1, false, false), ul(2, false, false), ul(0, false, false))
	// Unlock parked after the map section (ilen already decremented) with a waiter
	add("fifomap", "unlock-parked-with-waiter", 3, 1,
		lk(0, 0, "w", false), lk(1, 0, "w", false), ul(0, false, true), lk(2, 0, "w", false), rel(0),
		ul(1, false, false), ul(2, false, false))
	// last Unlock parked after deleting the entry: the next Lock creates a fresh entry and mutex
	add("fifomap", "unlock-parked-after-delete", 2, 1,
		lk(0, 0, "w", false), ul(0, false, true), lk(1, 0, "w", false), rel(0), ul(1, false, false))
	// two keys interleaved, parked on both
	add("fifomap", "two-keys-parked", 4, 2,
		lk(0, 0, "w", true), lk(1, 1, "w", true), lk(2, 0, "w", false), lk(3, 1, "w", false), rel(1), rel(0),
		ul(2, false, true), ul(3, false, false), rel(2), ul(0, false, false), ul(1, false, false))

	// --- cmap.Mutex ---
	for _, m1 := range []string{"w", "r"} {
		for _, m2 := range []string{"w", "r"} {
			for _, m3 := range []string{"w", "r"} {
				if m1 == "r" && m2 == "r" && m3 == "r" {
					continue
				}
				// the expected finding: delete-and-release while another caller waits (blocked)
				if !(m1 == "r" && m2 == "r") {
					add("cmap", "delete-unlock-with-blocked-waiter", 3, 1,
						lk(0, 0, m1, false), lk(1, 0, m2, false), ul(0, true, false), lk(2, 0, m3, false),
						ul(1, false, false), ul(2, false, false))
				} else {
					// two readers: one deletes-and-releases while the other still holds
					add("cmap", "delete-runlock-with-coholder", 3, 1,
						lk(0, 0, "r", false), lk(1, 0, "r", false), ul(0, true, false), lk(2, 0, m3, false),
						ul(1, false, false), ul(2, false, false))
				}
				// … while another caller is between its look-up and the mutex operation
				add("cmap", "delete-unlock-with-parked-waiter", 3, 1,
					lk(0, 0, m1, false), lk(1, 0, m2, true), ul(0, true, false), rel(1), lk(2, 0, m3, false),
					ul(1, false, false), ul(2, false, false))
			}
		}
	}
	// slow path (miss, create under the map write lock) parked before the mutex operation
	add("cmap", "create-parked", 3, 1,
		lk(0, 0, "w", true), lk(1, 0, "w", false), lk(2, 0, "r", false), rel(0), ul(1, true, false),
		ul(0, false, false), ul(2, true, false))
	// release methods parked between their look-up and the unlock (inside the map section)
	add("cmap", "unlock-parked", 3, 2,
		lk(0, 0, "w", false), lk(1, 0, "w", false), ul(0, false, true), lk(2, 1, "w", false), rel(0),
		ul(1, true, true), rel(1), ul(2, true, false))
	add("cmap", "count-delete-clear", 2, 3,
		lk(0, 0, "w", false), lk(1, 1, "r", false), Step{Do: "start", T: 0, Op: "unlock"}, Step{Do: "start", T: 0, Op: "count"},
		Step{Do: "start", T: 0, Op: "delete", K: 0}, Step{Do: "start", T: 0, Op: "count"}, ul(1, true, false),
		Step{Do: "start", T: 1, Op: "count"}, lk(0, 2, "w", false), ul(0, false, false), Step{Do: "start", T: 1, Op: "clear"},
		Step{Do: "start", T: 1, Op: "count"})

	// --- lock.Context ---
	for _, m1 := range []string{"w", "r"} {
		for _, m2 := range []string{"w", "r"} {
			// cancellation while waiting
			add("context", "cancel-while-waiting", 3, 1,
				lk(0, 0, m1, false), lk(1, 0, m2, false), Step{Do: "cancel", T: 1}, lk(2, 0, m2, false),
				ul(0, false, false), ul(2, false, false))
			// cancellation before the call
			add("context", "cancel-before", 2, 1,
				lk(0, 0, m1, false), Step{Do: "start", T: 1, Op: "lock", Md: m2, Ms: 1}, ul(0, false, false),
				lk(1, 0, m2, false), ul(1, false, false))
		}
	}
	// lock.Context: the holder's release and the end of the parked waiter's context back to back, in
	// both orders, 0–50 µs apart, on all processors and on one: whichever way the waiter's select
	// goes, an error return must leave the lock free and a grant must be a real grant
	reps := 1
	if thorough {
		reps = 6
	}
	for rep := 0; rep < reps; rep++ {
		for _, hm := range []string{"w", "r"} {
			for _, wm := range []string{"w", "r"} {
				for _, order := range []string{"uc", "cu"} {
					for _, us := range []int{0, 1, 3, 10, 50} {
						for _, procs := range []int{0, 1} {
							c := &Case{Prim: "context", N: 3, Keys: 1, Family: "release-racing-cancel", Procs: procs, Steps: []Step{
								lk(0, 0, hm, false), lk(1, 0, wm, false), {Do: "race", T: 1, K: 0, Md: order, Us: us + rep},
								ul(1, false, false), lk(2, 0, "w", false), ul(2, false, false)}}
							cs = append(cs, c)
						}
					}
				}
			}
		}
	}
	// lock.Context token queue: several parked waiters, one in the middle leaves, the rest are
	// served in arrival order (checked by trace inclusion against the queue of the model)
	for _, p := range perms(3) {
		for _, md := range []string{"w", "r"} {
			a, b, c := p[0]+1, p[1]+1, p[2]+1
			add("context", "token-queue", 4, 1,
				lk(0, 0, "w", false), lk(a, 0, md, false), lk(b, 0, "w", false), lk(c, 0, md, false),
				Step{Do: "cancel", T: b}, ul(0, false, false), ul(a, false, false), ul(c, false, false))
		}
	}
	// --- fifo.Map: simultaneous FIRST Lock of a fresh key ---
	for _, k := range []int{2, 4, 8} {
		gr, br := 40, 150
		if thorough {
			gr, br = 200, 1500
		}
		cs = append(cs, &Case{Prim: "fifomap", N: k, Keys: 1, Family: "first-lock-gated", Rounds: gr})
		cs = append(cs, &Case{Prim: "fifomap", N: k, Keys: 1, Family: "first-lock-barrier", Rounds: br})
	}
	cs = append(cs, outerForced(thorough)...)
	return cs
}

// randomGen draws the next step from the callers' current (harness-side) states.
func randomGen(rng *lib.Rand, maxSteps int) func(r *run) *Step {
	i := 0
	afterClose := 0
	return func(r *run) *Step {
		if i >= maxSteps {
			return nil
		}
		i++
		if r.shutdown {
			// the model keeps every internal possibility after shutdown: keep such tails short
			afterClose++
			if afterClose > 3 {
				return nil
			}
		}
		hooks := r.c.Prim == "fifomap" || r.c.Prim == "cmap"
		rw := r.c.Prim == "cmap" || r.c.Prim == "context" || r.c.Prim == "outer"
		if r.c.Prim == "outer" {
			waiting := false
			for _, th := range r.th {
				waiting = waiting || (th.ph == phInLock && th.status == stBlocked)
			}
			if waiting && rng.Intn(3) == 0 {
				return &Step{Do: "sleep", Ms: rng.Range(1, r.c.GraceMs+1)}
			}
			if !r.shutdown && rng.Intn(40) == 0 {
				return &Step{Do: "close"}
			}
		}
		var cands []Step
		for t := range r.th {
			th := r.th[t]
			w := r.s.ws[t]
			switch {
			case w.parked.Load():
				cands = append(cands, rel(t), rel(t))
			case th.ph == phIdle && !w.busy.Load():
				k := rng.Intn(maxi(r.c.Keys, 1))
				md := "w"
				if rw && rng.Intn(3) == 0 {
					md = "r"
				}
				if r.c.Prim == "outer" && rng.Intn(2) == 0 {
					md = "r"
				}
				st := lk(t, k, md, hooks && rng.Intn(3) == 0)
				if r.c.Prim == "context" && rng.Intn(6) == 0 {
					st.Ms = 1 // context cancelled before the call
				}
				cands = append(cands, st)
				if r.c.Prim == "cmap" {
					switch rng.Intn(12) {
					case 0:
						cands = append(cands, Step{Do: "start", T: t, Op: "count"})
					case 1:
						if !r.othersUse(t, k) {
							cands = append(cands, Step{Do: "start", T: t, Op: "delete", K: k})
						}
					case 2:
						any := false
						for kk := 0; kk < r.c.Keys; kk++ {
							any = any || r.othersUse(t, kk)
						}
						if !any {
							cands = append(cands, Step{Do: "start", T: t, Op: "clear"})
						}
					}
				}
			case th.ph == phHolding && !w.busy.Load():
				st := ul(t, r.c.Prim == "cmap" && rng.Intn(2) == 0, hooks && rng.Intn(3) == 0)
				cands = append(cands, st, st)
				// OuterCancel: the parent context of a reader that HOLDS the lock ends (it keeps holding)
				if r.c.Prim == "outer" && th.md == "r" && th.cancel != nil && th.ctx.Err() == nil && rng.Intn(2) == 0 {
					cands = append(cands, Step{Do: "cancel", T: t})
				}
			case r.c.Prim == "outer" && th.md == "r" && (th.ph == phInLock && th.status == stBlocked) && th.ctx.Err() == nil:
				if rng.Intn(3) == 0 {
					cands = append(cands, Step{Do: "cancel", T: t})
				}
			case th.ph == phInLock && r.c.Prim == "context" && th.status == stBlocked && th.ctx.Err() == nil:
				if rng.Intn(2) == 0 {
					cands = append(cands, Step{Do: "cancel", T: t})
				}
			}
		}
		if len(cands) == 0 {
			return nil
		}
		st := cands[rng.Intn(len(cands))]
		return &st
	}
}
