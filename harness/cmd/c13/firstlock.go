package main

// fifo.Map: K goroutines perform the FIRST Lock of a fresh key at the same moment (no entry yet).
// "gated": the harness holds the map's global lock until all K callers are parked on it (goroutine
// wait state), then releases it — the FIFO hand-off of that lock then interleaves their map
// sections deterministically. "barrier": the callers are released together by closing a channel.
// Occupancy is counted inside the critical section; entries and ilen are checked after every round.

import (
	"fmt"
	"runtime"
	"sync"
	"sync/atomic"
	"time"

	"github.com/dapr/kit/concurrency/fifo"
)

func runFirstLock(c *Case) *outcome {
	o := &outcome{c: c, hist: map[string]int{}, nontrv: true}
	m := fifo.NewMap[int]()
	var (
		mu    sync.Mutex
		lines []string
	)
	log := func(f string, a ...any) {
		mu.Lock()
		lines = append(lines, fmt.Sprintf(f, a...))
		mu.Unlock()
	}
	violate := func(id, what string) {
		mu.Lock()
		o.viol = append(o.viol, violation{id, what})
		mu.Unlock()
	}
	K, rounds := c.N, c.Rounds
	toModel := K == 2
	for round := 0; round < rounds && len(o.viol) == 0; round++ {
		key := round
		// one model session per round: the map is empty between rounds (checked below), and heap
		// addresses / ghost histories of earlier rounds would only multiply the model's state set.
		// The fresh real key is key 0 of that session.
		lines = append(lines, fmt.Sprintf("new prim=fifomap n=%d keys=1", K))
		var occ atomic.Int32
		gids := make([]int64, K)
		var ready, done sync.WaitGroup
		ready.Add(K)
		done.Add(K)
		start := make(chan struct{})
		var release func()
		if c.Family == "first-lock-gated" {
			release = fifo.VerifHoldMapLock(m)
		}
		for t := 0; t < K; t++ {
			go func() {
				defer done.Done()
				gids[t] = goid()
				ready.Done()
				if release == nil {
					<-start
				}
				log("call t=%d op=lock k=0 md=w", t)
				if p := guard(func() { m.Lock(key) }); p != nil {
					violate("fifomap-panic", fmt.Sprintf("Lock(%d) panicked: %v", key, p))
					return
				}
				if n := occ.Add(1); n != 1 {
					violate("fifomap-mutual-exclusion-first-lock", fmt.Sprintf("round %d: caller %d entered fresh key %d with %d holders inside (%d callers did the first Lock of the key together)", round, t, key, n, K))
				}
				log("ret t=%d", t)
				runtime.Gosched()
				runtime.Gosched()
				occ.Add(-1)
				log("call t=%d op=unlock", t)
				if p := guard(func() { m.Unlock(key) }); p != nil {
					violate("fifomap-unlock-panic", fmt.Sprintf("round %d: Unlock(%d) by caller %d panicked: %v", round, key, t, p))
					return
				}
				log("ret t=%d", t)
			}()
		}
		ready.Wait()
		if release != nil {
			// wait until every caller is parked on the global lock
			deadline := time.Now().Add(500 * time.Millisecond)
			for {
				gi := snapshot()
				all := true
				for _, g := range gids {
					all = all && blockedState(gi[g].state) && gi[g].inKit
				}
				if all || time.Now().After(deadline) {
					break
				}
				runtime.Gosched()
			}
			o.hist["firstlock.gated.rounds"]++
			release()
		} else {
			o.hist["firstlock.barrier.rounds"]++
			close(start)
		}
		fin := make(chan struct{})
		go func() { done.Wait(); close(fin) }()
		select {
		case <-fin:
		case <-time.After(3 * time.Second):
			if len(o.viol) == 0 {
				violate("fifomap-first-lock-hang", fmt.Sprintf("round %d: %d callers of Lock/Unlock(%d) did not finish within 3s", round, K, key))
			}
		}
		if len(o.viol) > 0 {
			break
		}
		if n := fifo.VerifLen(m); n != 0 {
			violate("fifomap-leak", fmt.Sprintf("round %d: %d entries left after every caller unlocked key %d (ilen=%d)", round, n, key, fifo.VerifIlen(m, key)))
		}
		log("probe t=0 p=len v=0")
	}
	if toModel && len(o.viol) == 0 {
		o.lines = lines
	}
	return o
}
