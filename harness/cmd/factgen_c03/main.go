// Command factgen_c03 extracts the facts of /repo/crypto that the Lean model of C03 is tied to
// (T1) and writes them as the Lean file KitModel/Generated/C03.lean.
//
//	factgen_c03 --repo /repo --out <file.lean>
//
// Only go/parser, go/ast, go/token and go/printer are used on the source.  Every source shape the
// extraction relies on is checked; an unrecognised shape is a fatal error (exit 1, message on
// stderr) and no output file is written.
package main

import (
	"bytes"
	"crypto/aes"
	"flag"
	"fmt"
	"go/ast"
	"go/parser"
	"go/printer"
	"go/token"
	"os"
	"path/filepath"
	"sort"
	"strconv"
	"strings"

	"golang.org/x/crypto/chacha20poly1305"
)

// ---------------------------------------------------------------------------------------------
// failure, printing

var fset = token.NewFileSet()

func failf(pos token.Pos, format string, a ...any) {
	where := ""
	if pos.IsValid() {
		where = fset.Position(pos).String() + ": "
	}
	fmt.Fprintf(os.Stderr, "factgen_c03: %s%s\n", where, fmt.Sprintf(format, a...))
	os.Exit(1)
}

// show renders a node with go/printer.
func show(n ast.Node) string {
	var b bytes.Buffer
	if err := printer.Fprint(&b, fset, n); err != nil {
		failf(n.Pos(), "go/printer: %v", err)
	}
	s := b.String()
	if strings.ContainsAny(s, "\n\r") {
		failf(n.Pos(), "rendered source spans several lines: %q", s)
	}
	return s
}

// q renders a Lean string literal.
func q(s string) string {
	var b strings.Builder
	b.WriteByte('"')
	for _, r := range s {
		switch r {
		case '\\':
			b.WriteString(`\\`)
		case '"':
			b.WriteString(`\"`)
		case '\n':
			b.WriteString(`\n`)
		case '\t':
			b.WriteString(`\t`)
		case '\r':
			b.WriteString(`\r`)
		default:
			b.WriteRune(r)
		}
	}
	b.WriteByte('"')
	return b.String()
}

func qlist(ss []string) string {
	qs := make([]string, len(ss))
	for i, s := range ss {
		qs[i] = q(s)
	}
	return "[" + strings.Join(qs, ", ") + "]"
}

func leanBool(b bool) string {
	if b {
		return "true"
	}
	return "false"
}

// ---------------------------------------------------------------------------------------------
// packages

type pkg struct {
	dir     string
	files   map[string]*ast.File     // base name → file
	funcs   map[string]*ast.FuncDecl // functions without receiver
	methods map[string]*ast.FuncDecl // "Recv.Name"
	fileOf  map[*ast.FuncDecl]*ast.File
}

func loadPkg(dir string) *pkg {
	ents, err := os.ReadDir(dir)
	if err != nil {
		failf(token.NoPos, "%v", err)
	}
	p := &pkg{dir: dir, files: map[string]*ast.File{}, funcs: map[string]*ast.FuncDecl{},
		methods: map[string]*ast.FuncDecl{}, fileOf: map[*ast.FuncDecl]*ast.File{}}
	var names []string
	for _, e := range ents {
		n := e.Name()
		if e.IsDir() || !strings.HasSuffix(n, ".go") || strings.HasSuffix(n, "_test.go") {
			continue
		}
		names = append(names, n)
	}
	sort.Strings(names)
	for _, n := range names {
		f, err := parser.ParseFile(fset, filepath.Join(dir, n), nil, parser.ParseComments|parser.SkipObjectResolution)
		if err != nil {
			failf(token.NoPos, "parse: %v", err)
		}
		p.files[n] = f
		for _, d := range f.Decls {
			fd, ok := d.(*ast.FuncDecl)
			if !ok {
				continue
			}
			if fd.Body == nil {
				failf(fd.Pos(), "function %s has no body", fd.Name.Name)
			}
			p.fileOf[fd] = f
			if fd.Recv == nil {
				if _, dup := p.funcs[fd.Name.Name]; dup && fd.Name.Name != "init" {
					failf(fd.Pos(), "function %s declared twice", fd.Name.Name)
				}
				p.funcs[fd.Name.Name] = fd
				continue
			}
			if len(fd.Recv.List) != 1 {
				failf(fd.Pos(), "method %s: unexpected receiver list", fd.Name.Name)
			}
			t := fd.Recv.List[0].Type
			if st, ok := t.(*ast.StarExpr); ok {
				t = st.X
			}
			id, ok := t.(*ast.Ident)
			if !ok {
				failf(fd.Pos(), "method %s: unexpected receiver type %s", fd.Name.Name, show(t))
			}
			key := id.Name + "." + fd.Name.Name
			if _, dup := p.methods[key]; dup {
				failf(fd.Pos(), "method %s declared twice", key)
			}
			p.methods[key] = fd
		}
	}
	return p
}

// checkNoSharedState fails unless the named files are free of shared mutable state: no import of
// sync / sync/atomic / unsafe, and every package-level `var` is an `errors.New("…")` sentinel or a
// byte-slice literal constant (aeskw's defaultIV).
func checkNoSharedState(p *pkg, names ...string) {
	for _, n := range names {
		f, ok := p.files[n]
		if !ok {
			failf(token.NoPos, "file %s not found in %s", n, p.dir)
		}
		for _, im := range f.Imports {
			path := strings.Trim(im.Path.Value, `"`)
			if path == "sync" || path == "sync/atomic" || path == "unsafe" {
				failf(im.Pos(), "%s imports %q: shared state between calls (e.g. a sync.Pool) is a shape the C03 model does not have — results must not be derived from pooled/shared buffers", n, path)
			}
		}
		for _, d := range f.Decls {
			gd, ok := d.(*ast.GenDecl)
			if !ok || gd.Tok != token.VAR {
				continue
			}
			for _, sp := range gd.Specs {
				vs := sp.(*ast.ValueSpec)
				for i, name := range vs.Names {
					if i >= len(vs.Values) {
						failf(name.Pos(), "%s: package-level variable %s without initialiser (shared mutable state: unknown shape)", n, name.Name)
					}
					if !stateFreeInit(vs.Values[i]) {
						failf(name.Pos(), "%s: package-level variable %s = %s is neither an errors.New sentinel nor a byte literal (shared mutable state: unknown shape)", n, name.Name, show(vs.Values[i]))
					}
				}
			}
		}
	}
}

func stateFreeInit(e ast.Expr) bool {
	switch v := e.(type) {
	case *ast.CallExpr:
		sel, ok := v.Fun.(*ast.SelectorExpr)
		if !ok || len(v.Args) != 1 {
			return false
		}
		x, ok := sel.X.(*ast.Ident)
		if !ok || x.Name != "errors" || sel.Sel.Name != "New" {
			return false
		}
		_, isStr := strLit(v.Args[0])
		return isStr
	case *ast.CompositeLit:
		at, ok := v.Type.(*ast.ArrayType)
		if !ok || at.Len != nil {
			return false
		}
		if id, ok := at.Elt.(*ast.Ident); !ok || id.Name != "byte" {
			return false
		}
		for _, el := range v.Elts {
			if _, ok := el.(*ast.BasicLit); !ok {
				return false
			}
		}
		return true
	}
	return false
}

func (p *pkg) file(name string) *ast.File {
	f, ok := p.files[name]
	if !ok {
		failf(token.NoPos, "source file %s not found", filepath.Join(p.dir, name))
	}
	return f
}

// fctx is a function together with the file it lives in (needed to resolve imports).
type fctx struct {
	p    *pkg
	file *ast.File
	fd   *ast.FuncDecl
	name string
}

func (p *pkg) fn(name string) fctx {
	fd, ok := p.funcs[name]
	if !ok {
		failf(token.NoPos, "function %s not found in %s", name, p.dir)
	}
	return fctx{p, p.fileOf[fd], fd, name}
}

func (p *pkg) fnIn(name, file string) fctx {
	c := p.fn(name)
	if c.file != p.file(file) {
		failf(c.fd.Pos(), "function %s expected in %s", name, file)
	}
	return c
}

func (p *pkg) method(recv, name string) fctx {
	fd, ok := p.methods[recv+"."+name]
	if !ok {
		failf(token.NoPos, "method %s.%s not found in %s", recv, name, p.dir)
	}
	return fctx{p, p.fileOf[fd], fd, recv + "." + name}
}

// importPath resolves a package identifier of the file to its import path ("" if none).
func importPath(f *ast.File, local string) string {
	for _, im := range f.Imports {
		path, err := strconv.Unquote(im.Path.Value)
		if err != nil {
			failf(im.Pos(), "bad import path %s", im.Path.Value)
		}
		name := path[strings.LastIndex(path, "/")+1:]
		if im.Name != nil {
			name = im.Name.Name
		}
		if name == local {
			return path
		}
	}
	return ""
}

// pkgSel matches `pkgident.Sel` where pkgident is an imported package; it returns the import path.
func (c fctx) pkgSel(e ast.Expr) (path, sel string, ok bool) {
	se, isSel := e.(*ast.SelectorExpr)
	if !isSel {
		return "", "", false
	}
	id, isId := se.X.(*ast.Ident)
	if !isId {
		return "", "", false
	}
	path = importPath(c.file, id.Name)
	if path == "" {
		return "", "", false
	}
	return path, se.Sel.Name, true
}

func (c fctx) isPkgSel(e ast.Expr, path, sel string) bool {
	p, s, ok := c.pkgSel(e)
	return ok && p == path && s == sel
}

// pkgCall matches `pkgident.F(args)`.
func (c fctx) pkgCall(e ast.Expr) (path, sel string, call *ast.CallExpr, ok bool) {
	call, isCall := e.(*ast.CallExpr)
	if !isCall {
		return "", "", nil, false
	}
	path, sel, ok = c.pkgSel(call.Fun)
	return path, sel, call, ok
}

func (c fctx) params() []string {
	var ps []string
	for _, f := range c.fd.Type.Params.List {
		if len(f.Names) == 0 {
			failf(f.Pos(), "%s: unnamed parameter", c.name)
		}
		for _, n := range f.Names {
			ps = append(ps, n.Name)
		}
	}
	return ps
}

func (c fctx) stmts() []ast.Stmt { return c.fd.Body.List }

// ---------------------------------------------------------------------------------------------
// small AST predicates

func isIdent(e ast.Expr, name string) bool {
	id, ok := e.(*ast.Ident)
	return ok && id.Name == name
}

func identName(e ast.Expr) (string, bool) {
	id, ok := e.(*ast.Ident)
	if !ok {
		return "", false
	}
	return id.Name, true
}

func unparen(e ast.Expr) ast.Expr {
	for {
		p, ok := e.(*ast.ParenExpr)
		if !ok {
			return e
		}
		e = p.X
	}
}

func intLit(e ast.Expr) (int, bool) {
	bl, ok := e.(*ast.BasicLit)
	if !ok || bl.Kind != token.INT {
		return 0, false
	}
	n, err := strconv.ParseInt(bl.Value, 0, 64)
	if err != nil || n < 0 {
		failf(bl.Pos(), "bad integer literal %s", bl.Value)
	}
	return int(n), true
}

func strLit(e ast.Expr) (string, bool) {
	bl, ok := e.(*ast.BasicLit)
	if !ok || bl.Kind != token.STRING {
		return "", false
	}
	s, err := strconv.Unquote(bl.Value)
	if err != nil {
		failf(bl.Pos(), "bad string literal %s", bl.Value)
	}
	return s, true
}

// lenOf matches `len(ident)`.
func lenOf(e ast.Expr) (string, bool) {
	call, ok := e.(*ast.CallExpr)
	if !ok || !isIdent(call.Fun, "len") || len(call.Args) != 1 {
		return "", false
	}
	return identName(call.Args[0])
}

// lenMinus matches `len(v) - y` and returns y.
func lenMinus(e ast.Expr, v string) (ast.Expr, bool) {
	be, ok := e.(*ast.BinaryExpr)
	if !ok || be.Op != token.SUB {
		return nil, false
	}
	if n, ok := lenOf(be.X); !ok || n != v {
		return nil, false
	}
	return be.Y, true
}

func isErrNeNil(e ast.Expr) bool {
	be, ok := e.(*ast.BinaryExpr)
	return ok && be.Op == token.NEQ && isIdent(be.X, "err") && isIdent(be.Y, "nil")
}

// isErrorsNew matches `errors.New("…")`.
func (c fctx) isErrorsNew(e ast.Expr) bool {
	path, sel, call, ok := c.pkgCall(e)
	if !ok || path != "errors" || sel != "New" || len(call.Args) != 1 {
		return false
	}
	_, isStr := strLit(call.Args[0])
	return isStr
}

type clauses struct {
	cases []*ast.CaseClause
	dflt  *ast.CaseClause
}

func switchClauses(sw *ast.SwitchStmt) clauses {
	var cl clauses
	for _, s := range sw.Body.List {
		cc, ok := s.(*ast.CaseClause)
		if !ok {
			failf(s.Pos(), "switch body: not a case clause")
		}
		if cc.List == nil {
			if cl.dflt != nil {
				failf(cc.Pos(), "two default clauses")
			}
			cl.dflt = cc
			continue
		}
		cl.cases = append(cl.cases, cc)
	}
	return cl
}

// isSwitchOn matches `switch <ident> { … }` without init statement.
func isSwitchOn(s ast.Stmt, tag string) (*ast.SwitchStmt, bool) {
	sw, ok := s.(*ast.SwitchStmt)
	if !ok || sw.Tag == nil || !isIdent(sw.Tag, tag) {
		return nil, false
	}
	if sw.Init != nil {
		failf(sw.Pos(), "switch %s with an init statement", tag)
	}
	return sw, true
}

// ---------------------------------------------------------------------------------------------
// generator

type extConst struct {
	path string // import path
	sel  string // selector as written in the guards
	val  int
}

// The package constants the guards refer to; the values are those of the packages compiled into
// factgen (the harness module resolves them through the dapr/kit dependency graph).
var extConsts = []extConst{
	{"crypto/aes", "aes.BlockSize", aes.BlockSize},
	{"golang.org/x/crypto/chacha20poly1305", "chacha20poly1305.KeySize", chacha20poly1305.KeySize},
	{"golang.org/x/crypto/chacha20poly1305", "chacha20poly1305.NonceSize", chacha20poly1305.NonceSize},
	{"golang.org/x/crypto/chacha20poly1305", "chacha20poly1305.NonceSizeX", chacha20poly1305.NonceSizeX},
	{"golang.org/x/crypto/chacha20poly1305", "chacha20poly1305.Overhead", chacha20poly1305.Overhead},
}

const (
	pathPadding    = "github.com/dapr/kit/crypto/padding"
	pathAESCBCAEAD = "github.com/dapr/kit/crypto/aescbcaead"
)

type gen struct {
	crypto, aead, kw *pkg

	algNames   []string
	algVal     map[string]string
	sentinels  []string
	isSentinel map[string]bool

	out strings.Builder
}

func (g *gen) pf(format string, a ...any) { fmt.Fprintf(&g.out, format, a...) }

// extConst resolves a selector constant met in a guard.
func (g *gen) extConst(c fctx, e ast.Expr) (int, bool) {
	se, ok := e.(*ast.SelectorExpr)
	if !ok {
		return 0, false
	}
	x, ok := se.X.(*ast.Ident)
	if !ok {
		failf(e.Pos(), "%s: selector %s is not a package constant", c.name, show(e))
	}
	key := x.Name + "." + se.Sel.Name
	for _, ec := range extConsts {
		if ec.sel == key {
			if got := importPath(c.file, x.Name); got != ec.path {
				failf(e.Pos(), "%s: %s refers to package %q, expected %q", c.name, key, got, ec.path)
			}
			return ec.val, true
		}
	}
	failf(e.Pos(), "%s: selector constant %s is not one of the known external constants", c.name, key)
	return 0, false
}

// intConst: integer literal or known external constant.
func (g *gen) intConst(c fctx, e ast.Expr) int {
	if n, ok := intLit(e); ok {
		return n
	}
	if n, ok := g.extConst(c, e); ok {
		return n
	}
	failf(e.Pos(), "%s: expected an integer literal or package constant, found %s", c.name, show(e))
	return 0
}

func (g *gen) alg(c fctx, e ast.Expr) string {
	id, ok := e.(*ast.Ident)
	if !ok {
		failf(e.Pos(), "%s: expected an Algorithm_* identifier, found %s", c.name, show(e))
	}
	v, ok := g.algVal[id.Name]
	if !ok {
		failf(e.Pos(), "%s: identifier %s is not an Algorithm_* constant of consts.go", c.name, id.Name)
	}
	return v
}

func (g *gen) algs(c fctx, es []ast.Expr) []string {
	var out []string
	for _, e := range es {
		out = append(out, g.alg(c, e))
	}
	return out
}

// sentinelResult checks `return z…, ErrX` (all results but the last are one of the identifiers in
// zeros) and returns ErrX, which must be a sentinel of consts.go.
func (g *gen) sentinelResult(c fctx, r *ast.ReturnStmt, zeros ...string) string {
	if len(r.Results) == 0 {
		failf(r.Pos(), "%s: bare return where a sentinel was expected", c.name)
	}
	for _, e := range r.Results[:len(r.Results)-1] {
		ok := false
		for _, z := range zeros {
			ok = ok || isIdent(e, z)
		}
		if !ok {
			failf(e.Pos(), "%s: result %s next to a sentinel (expected %s)", c.name, show(e), strings.Join(zeros, "/"))
		}
	}
	last := r.Results[len(r.Results)-1]
	n, ok := identName(last)
	if !ok || !g.isSentinel[n] {
		failf(last.Pos(), "%s: last result %s is not a sentinel of consts.go", c.name, show(last))
	}
	return n
}

// ------------------------------------------------------------------ consts.go

func (g *gen) readConsts() {
	g.algVal = map[string]string{}
	g.isSentinel = map[string]bool{}
	cf := g.crypto.file("consts.go")
	for fname, f := range g.crypto.files {
		for _, d := range f.Decls {
			gd, ok := d.(*ast.GenDecl)
			if !ok || (gd.Tok != token.CONST && gd.Tok != token.VAR) {
				continue
			}
			for _, sp := range gd.Specs {
				vs := sp.(*ast.ValueSpec)
				for i, n := range vs.Names {
					isAlg := gd.Tok == token.CONST && strings.HasPrefix(n.Name, "Algorithm_")
					isErr := gd.Tok == token.VAR && strings.HasPrefix(n.Name, "Err")
					if !isAlg && !isErr {
						continue
					}
					if f != cf {
						failf(n.Pos(), "%s declared in %s, expected in consts.go", n.Name, fname)
					}
					if len(vs.Values) != len(vs.Names) {
						failf(n.Pos(), "%s: declaration without its own value", n.Name)
					}
					if isAlg {
						v, ok := strLit(vs.Values[i])
						if !ok {
							failf(vs.Values[i].Pos(), "%s: value is not a string literal", n.Name)
						}
						if vs.Type != nil && !isIdent(vs.Type, "string") {
							failf(vs.Type.Pos(), "%s: unexpected type %s", n.Name, show(vs.Type))
						}
						if _, dup := g.algVal[n.Name]; dup {
							failf(n.Pos(), "%s declared twice", n.Name)
						}
						g.algVal[n.Name] = v
					} else {
						c := fctx{p: g.crypto, file: f, name: n.Name}
						if !c.isErrorsNew(vs.Values[i]) {
							failf(vs.Values[i].Pos(), "%s: value is not errors.New(\"…\")", n.Name)
						}
						g.isSentinel[n.Name] = true
					}
				}
			}
		}
	}
	// source order (consts.go only, checked above)
	for _, d := range cf.Decls {
		gd, ok := d.(*ast.GenDecl)
		if !ok {
			continue
		}
		for _, sp := range gd.Specs {
			vs, ok := sp.(*ast.ValueSpec)
			if !ok {
				continue
			}
			for _, n := range vs.Names {
				if _, ok := g.algVal[n.Name]; ok && gd.Tok == token.CONST {
					g.algNames = append(g.algNames, n.Name)
				}
				if g.isSentinel[n.Name] && gd.Tok == token.VAR {
					g.sentinels = append(g.sentinels, n.Name)
				}
			}
		}
	}
	if len(g.algNames) == 0 {
		failf(cf.Pos(), "no Algorithm_* constant in consts.go")
	}
	if len(g.sentinels) == 0 {
		failf(cf.Pos(), "no Err* variable in consts.go")
	}
}

// ------------------------------------------------------------------ Supported*Algorithms

func (g *gen) supported(fn string) []string {
	c := g.crypto.fn(fn)
	if len(c.stmts()) != 1 {
		failf(c.fd.Pos(), "%s: body is not a single return", fn)
	}
	r, ok := c.stmts()[0].(*ast.ReturnStmt)
	if !ok || len(r.Results) != 1 {
		failf(c.fd.Pos(), "%s: body is not a single return of one value", fn)
	}
	cl, ok := r.Results[0].(*ast.CompositeLit)
	if !ok {
		failf(r.Pos(), "%s: result is not a composite literal", fn)
	}
	at, ok := cl.Type.(*ast.ArrayType)
	if !ok || at.Len != nil || !isIdent(at.Elt, "string") {
		failf(cl.Pos(), "%s: result is not a []string literal", fn)
	}
	return g.algs(c, cl.Elts)
}

// ------------------------------------------------------------------ dispatch switches

// algorithmSwitch finds the single top-level `switch algorithm` of a function.
func algorithmSwitch(c fctx) (int, *ast.SwitchStmt) {
	idx, found := -1, (*ast.SwitchStmt)(nil)
	for i, s := range c.stmts() {
		if sw, ok := isSwitchOn(s, "algorithm"); ok {
			if found != nil {
				failf(sw.Pos(), "%s: more than one top-level `switch algorithm`", c.name)
			}
			idx, found = i, sw
		}
	}
	if found == nil {
		failf(c.fd.Pos(), "%s: no top-level `switch algorithm`", c.name)
	}
	return idx, found
}

type swCase struct {
	names  []string
	callee string
	extra  string
}

type swFacts struct {
	cases []swCase
	dflt  string
}

// hashArg recognises the arguments that end in the `extra` column.
func (c fctx) hashArg(e ast.Expr) (string, bool) {
	if path, _, ok := c.pkgSel(e); ok && path == "crypto" {
		return show(e), true // crypto.SHA1
	}
	if call, ok := e.(*ast.CallExpr); ok {
		if isIdent(call.Fun, "getSHAHash") || isIdent(call.Fun, "ecdsaCurve") {
			return show(e), true
		}
	}
	return "", false
}

func (g *gen) dispatch(fn string) swFacts {
	c := g.crypto.fn(fn)
	_, sw := algorithmSwitch(c)
	cl := switchClauses(sw)
	var out swFacts
	for _, cc := range cl.cases {
		var call *ast.CallExpr
		switch len(cc.Body) {
		case 1:
			r, ok := cc.Body[0].(*ast.ReturnStmt)
			if !ok || len(r.Results) != 1 {
				failf(cc.Body[0].Pos(), "%s: case body is not `return f(…)`", fn)
			}
			call, ok = r.Results[0].(*ast.CallExpr)
			if !ok {
				failf(r.Pos(), "%s: case body is not `return f(…)`", fn)
			}
		case 2:
			as, ok := cc.Body[0].(*ast.AssignStmt)
			if !ok || (as.Tok != token.ASSIGN && as.Tok != token.DEFINE) || len(as.Rhs) != 1 {
				failf(cc.Body[0].Pos(), "%s: case body is not `x, err = f(…); return`", fn)
			}
			for _, l := range as.Lhs {
				if _, ok := l.(*ast.Ident); !ok {
					failf(l.Pos(), "%s: assignment target %s is not an identifier", fn, show(l))
				}
			}
			call, ok = as.Rhs[0].(*ast.CallExpr)
			if !ok {
				failf(as.Pos(), "%s: case body is not `x, err = f(…); return`", fn)
			}
			r, ok := cc.Body[1].(*ast.ReturnStmt)
			if !ok {
				failf(cc.Body[1].Pos(), "%s: assignment in a case is not followed by return", fn)
			}
			for _, e := range r.Results {
				if _, ok := e.(*ast.Ident); !ok {
					failf(e.Pos(), "%s: return after the call returns %s (expected plain variables)", fn, show(e))
				}
			}
		default:
			failf(cc.Pos(), "%s: case body has %d statements", fn, len(cc.Body))
		}
		callee, ok := identName(call.Fun)
		if !ok {
			failf(call.Pos(), "%s: callee %s is not a function of package crypto", fn, show(call.Fun))
		}
		if _, ok := g.crypto.funcs[callee]; !ok {
			failf(call.Pos(), "%s: callee %s is not declared in package crypto", fn, callee)
		}
		extra := ""
		for _, a := range call.Args {
			if _, ok := a.(*ast.Ident); ok {
				continue
			}
			h, ok := c.hashArg(a)
			if !ok {
				failf(a.Pos(), "%s: unrecognised argument %s in the call of %s", fn, show(a), callee)
			}
			if extra != "" {
				failf(a.Pos(), "%s: more than one hash/curve argument in the call of %s", fn, callee)
			}
			extra = h
		}
		out.cases = append(out.cases, swCase{g.algs(c, cc.List), callee, extra})
	}
	if len(out.cases) == 0 {
		failf(sw.Pos(), "%s: switch without cases", fn)
	}
	if cl.dflt == nil {
		failf(sw.Pos(), "%s: switch without default", fn)
	}
	if len(cl.dflt.Body) != 1 {
		failf(cl.dflt.Pos(), "%s: default is not a single return", fn)
	}
	r, ok := cl.dflt.Body[0].(*ast.ReturnStmt)
	if !ok {
		failf(cl.dflt.Pos(), "%s: default is not a single return", fn)
	}
	out.dflt = g.sentinelResult(c, r, "nil", "false")
	return out
}

func (g *gen) emitSwitch(fn string, f swFacts) {
	g.pf("def sw_%s : Switch := {\n  cases := [\n", fn)
	for i, cs := range f.cases {
		end := ","
		if i == len(f.cases)-1 {
			end = "]"
		}
		g.pf("  (%s, %s, %s)%s\n", qlist(cs.names), q(cs.callee), q(cs.extra), end)
	}
	g.pf("  dflt := %s }\n", q(f.dflt))
}

// ------------------------------------------------------------------ slice tables

// tblValue renders the value of a table: int literal, crypto.SHAn, crypto.Hash(n).
func (c fctx) tblValue(e ast.Expr) int {
	if n, ok := intLit(e); ok {
		return n
	}
	if path, sel, ok := c.pkgSel(e); ok && path == "crypto" && strings.HasPrefix(sel, "SHA") {
		n, err := strconv.Atoi(strings.TrimPrefix(sel, "SHA"))
		if err != nil || n < 0 {
			failf(e.Pos(), "%s: cannot render %s as a number", c.name, show(e))
		}
		return n
	}
	if path, sel, call, ok := c.pkgCall(e); ok && path == "crypto" && sel == "Hash" && len(call.Args) == 1 {
		if n, ok := intLit(call.Args[0]); ok {
			return n
		}
	}
	failf(e.Pos(), "%s: unrecognised table value %s", c.name, show(e))
	return 0
}

func singleResult(c fctx, s ast.Stmt) ast.Expr {
	r, ok := s.(*ast.ReturnStmt)
	if !ok || len(r.Results) != 1 {
		failf(s.Pos(), "%s: expected `return <value>`", c.name)
	}
	return r.Results[0]
}

func (g *gen) sliceTable(fn string) string {
	c := g.crypto.fn(fn)
	ps := c.params()
	if len(ps) != 1 {
		failf(c.fd.Pos(), "%s: expected one parameter", fn)
	}
	v := ps[0]
	st := c.stmts()
	if len(st) != 2 {
		failf(c.fd.Pos(), "%s: body is not `switch …; return …`", fn)
	}
	sw, ok := st[0].(*ast.SwitchStmt)
	if !ok || sw.Init != nil || sw.Tag == nil {
		failf(st[0].Pos(), "%s: first statement is not a switch", fn)
	}
	se, ok := sw.Tag.(*ast.SliceExpr)
	if !ok || se.Slice3 || !isIdent(se.X, v) || se.Low == nil {
		failf(sw.Tag.Pos(), "%s: switch tag %s is not a slice of %s", fn, show(sw.Tag), v)
	}
	fromEnd, lo, hi := false, 0, 0
	if l, ok := intLit(se.Low); ok {
		h, ok := intLit(se.High)
		if se.High == nil || !ok {
			failf(sw.Tag.Pos(), "%s: unrecognised slice bounds %s", fn, show(sw.Tag))
		}
		lo, hi = l, h
	} else if y, ok := lenMinus(se.Low, v); ok && se.High == nil {
		k, ok := intLit(y)
		if !ok {
			failf(sw.Tag.Pos(), "%s: unrecognised slice bounds %s", fn, show(sw.Tag))
		}
		fromEnd, lo, hi = true, k, 0
	} else {
		failf(sw.Tag.Pos(), "%s: unrecognised slice bounds %s", fn, show(sw.Tag))
	}
	cl := switchClauses(sw)
	if cl.dflt != nil {
		failf(cl.dflt.Pos(), "%s: unexpected default clause", fn)
	}
	var cases []string
	for _, cc := range cl.cases {
		if len(cc.List) != 1 || len(cc.Body) != 1 {
			failf(cc.Pos(), "%s: case is not `case \"…\": return v`", fn)
		}
		k, ok := strLit(cc.List[0])
		if !ok {
			failf(cc.List[0].Pos(), "%s: case label is not a string literal", fn)
		}
		cases = append(cases, fmt.Sprintf("(%s, %d)", q(k), c.tblValue(singleResult(c, cc.Body[0]))))
	}
	dflt := c.tblValue(singleResult(c, st[1]))
	return fmt.Sprintf("{ fromEnd := %s, lo := %d, hi := %d, cases := [%s], dflt := %d }",
		leanBool(fromEnd), lo, hi, strings.Join(cases, ", "), dflt)
}

// ecdsaCurve: `switch algorithm { case A: return elliptic.Pn() … }; return nil`.
func (g *gen) curveTable(fn string) (string, int) {
	c := g.crypto.fn(fn)
	ps := c.params()
	if len(ps) != 1 {
		failf(c.fd.Pos(), "%s: expected one parameter", fn)
	}
	st := c.stmts()
	if len(st) != 2 {
		failf(c.fd.Pos(), "%s: body is not `switch …; return …`", fn)
	}
	sw, ok := isSwitchOn(st[0], ps[0])
	if !ok {
		failf(st[0].Pos(), "%s: first statement is not `switch %s`", fn, ps[0])
	}
	cl := switchClauses(sw)
	if cl.dflt != nil {
		failf(cl.dflt.Pos(), "%s: unexpected default clause", fn)
	}
	curve := func(e ast.Expr) int {
		path, sel, call, ok := c.pkgCall(e)
		if !ok || path != "crypto/elliptic" || len(call.Args) != 0 || !strings.HasPrefix(sel, "P") {
			failf(e.Pos(), "%s: unrecognised curve %s", fn, show(e))
		}
		n, err := strconv.Atoi(strings.TrimPrefix(sel, "P"))
		if err != nil || n < 0 {
			failf(e.Pos(), "%s: cannot render %s as a number", fn, show(e))
		}
		return n
	}
	var cases []string
	for _, cc := range cl.cases {
		if len(cc.Body) != 1 {
			failf(cc.Pos(), "%s: case body is not a single return", fn)
		}
		n := curve(singleResult(c, cc.Body[0]))
		for _, name := range g.algs(c, cc.List) {
			cases = append(cases, fmt.Sprintf("(%s, %d)", q(name), n))
		}
	}
	d := singleResult(c, st[1])
	if !isIdent(d, "nil") {
		failf(d.Pos(), "%s: final return is not `return nil`", fn)
	}
	return "[" + strings.Join(cases, ", ") + "]", 0
}

// ------------------------------------------------------------------ key-kind guard

func (g *gen) kindGuard(fn string) string {
	c := g.crypto.fn(fn)
	swIdx, _ := algorithmSwitch(c)
	for i, s := range c.stmts() {
		is, ok := s.(*ast.IfStmt)
		if !ok {
			continue
		}
		if i > swIdx {
			break
		}
		bad := func() {
			failf(is.Pos(), "%s: first `if` is not the key-kind guard `key.KeyType() != K || key.Raw(&keyBytes) != nil`", fn)
		}
		if is.Init != nil || is.Else != nil || len(is.Body.List) != 1 {
			bad()
		}
		or, ok := is.Cond.(*ast.BinaryExpr)
		if !ok || or.Op != token.LOR {
			bad()
		}
		l, ok := or.X.(*ast.BinaryExpr)
		if !ok || l.Op != token.NEQ {
			bad()
		}
		kt, ok := l.X.(*ast.CallExpr)
		if !ok || len(kt.Args) != 0 {
			bad()
		}
		ks, ok := kt.Fun.(*ast.SelectorExpr)
		if !ok || !isIdent(ks.X, "key") || ks.Sel.Name != "KeyType" {
			bad()
		}
		if _, _, ok := c.pkgSel(l.Y); !ok {
			bad()
		}
		r, ok := or.Y.(*ast.BinaryExpr)
		if !ok || r.Op != token.NEQ || !isIdent(r.Y, "nil") {
			bad()
		}
		raw, ok := r.X.(*ast.CallExpr)
		if !ok || len(raw.Args) != 1 {
			bad()
		}
		rs, ok := raw.Fun.(*ast.SelectorExpr)
		if !ok || !isIdent(rs.X, "key") || rs.Sel.Name != "Raw" {
			bad()
		}
		if u, ok := raw.Args[0].(*ast.UnaryExpr); !ok || u.Op != token.AND {
			bad()
		} else if _, ok := u.X.(*ast.Ident); !ok {
			bad()
		}
		ret, ok := is.Body.List[0].(*ast.ReturnStmt)
		if !ok {
			bad()
		}
		return fmt.Sprintf("(%s, %s)", q(show(l.Y)), q(g.sentinelResult(c, ret, "nil")))
	}
	failf(c.fd.Pos(), "%s: no `if` before the `switch algorithm`", fn)
	return ""
}

// ------------------------------------------------------------------ guard prefixes

type term struct {
	s      string
	atomic bool
}

func (t term) arg() string {
	if t.atomic {
		return t.s
	}
	return "(" + t.s + ")"
}

func (g *gen) term(c fctx, e ast.Expr) term {
	e = unparen(e)
	if n, ok := intLit(e); ok {
		return term{fmt.Sprintf(".lit %d", n), false}
	}
	switch x := e.(type) {
	case *ast.SelectorExpr:
		n, _ := g.extConst(c, x) // fails on anything unknown
		return term{fmt.Sprintf(".lit %d", n), false}
	case *ast.CallExpr:
		if v, ok := lenOf(x); ok {
			return term{".len " + q(v), false}
		}
		if isIdent(x.Fun, "expectedKeySize") && len(x.Args) == 1 && isIdent(x.Args[0], "algorithm") {
			return term{".keySize", true}
		}
		if se, ok := x.Fun.(*ast.SelectorExpr); ok && isIdent(se.X, "aead") && len(x.Args) == 0 {
			switch se.Sel.Name {
			case "NonceSize":
				return term{".aeadNonceSize", true}
			case "Overhead":
				return term{".aeadOverhead", true}
			}
		}
	case *ast.BinaryExpr:
		if x.Op == token.REM {
			return term{".mod " + g.term(c, x.X).arg() + " " + g.term(c, x.Y).arg(), false}
		}
	}
	failf(e.Pos(), "%s: unknown guard shape: term %s", c.name, show(e))
	return term{}
}

func (g *gen) cond(c fctx, e ast.Expr) string {
	e = unparen(e)
	be, ok := e.(*ast.BinaryExpr)
	if !ok {
		failf(e.Pos(), "%s: unknown guard shape: condition %s", c.name, show(e))
	}
	var op string
	switch be.Op {
	case token.NEQ:
		op = ".ne"
	case token.EQL:
		op = ".eq"
	case token.LSS:
		op = ".lt"
	default:
		failf(e.Pos(), "%s: unknown guard shape: condition %s", c.name, show(e))
	}
	return "(" + op + " " + g.term(c, be.X).arg() + " " + g.term(c, be.Y).arg() + ")"
}

// guardLike: an `if` whose body ends in `return …, ErrX`.
func guardLike(s ast.Stmt) (*ast.IfStmt, bool) {
	is, ok := s.(*ast.IfStmt)
	if !ok || len(is.Body.List) == 0 {
		return nil, false
	}
	r, ok := is.Body.List[len(is.Body.List)-1].(*ast.ReturnStmt)
	if !ok || len(r.Results) == 0 {
		return nil, false
	}
	n, ok := identName(r.Results[len(r.Results)-1])
	return is, ok && strings.HasPrefix(n, "Err")
}

// guard translates a guard-like `if`; every deviation from `if c { return nil…, ErrX }` is fatal.
func (g *gen) guard(c fctx, is *ast.IfStmt, only []string) string {
	if is.Init != nil || is.Else != nil || len(is.Body.List) != 1 {
		failf(is.Pos(), "%s: unknown guard shape: `if` returning a sentinel has an init, an else or several statements", c.name)
	}
	errName := g.sentinelResult(c, is.Body.List[0].(*ast.ReturnStmt), "nil")
	return fmt.Sprintf(".guard %s %s %s", qlist(only), g.cond(c, is.Cond), q(errName))
}

func (g *gen) stepsN(fn string) ([]string, int) {
	c := g.crypto.fnIn(fn, "symmetric.go")
	st := c.stmts()
	var out []string
	for i := 0; i < len(st); i++ {
		switch s := st[i].(type) {
		case *ast.AssignStmt:
			// x, err := f(…)  followed by  if err != nil { return nil…, E }
			if len(s.Lhs) < 1 || len(s.Rhs) != 1 || (s.Tok != token.DEFINE && s.Tok != token.ASSIGN) ||
				!isIdent(s.Lhs[len(s.Lhs)-1], "err") || i+1 >= len(st) {
				return out, i
			}
			call, ok := s.Rhs[0].(*ast.CallExpr)
			if !ok {
				return out, i
			}
			is, ok := st[i+1].(*ast.IfStmt)
			if !ok || !isErrNeNil(is.Cond) {
				return out, i
			}
			if is.Init != nil || is.Else != nil || len(is.Body.List) != 1 {
				failf(is.Pos(), "%s: unknown shape: error check after %s is not `if err != nil { return … }`", fn, show(call.Fun))
			}
			r, ok := is.Body.List[0].(*ast.ReturnStmt)
			if !ok || len(r.Results) == 0 {
				failf(is.Pos(), "%s: unknown shape: error check after %s does not return", fn, show(call.Fun))
			}
			e := ""
			if last := r.Results[len(r.Results)-1]; isIdent(last, "err") {
				for _, x := range r.Results[:len(r.Results)-1] {
					if !isIdent(x, "nil") {
						failf(x.Pos(), "%s: result %s next to err (expected nil)", fn, show(x))
					}
				}
			} else {
				e = g.sentinelResult(c, r, "nil")
			}
			switch call.Fun.(type) {
			case *ast.Ident, *ast.SelectorExpr:
			default:
				failf(call.Pos(), "%s: unknown shape: callee %s", fn, show(call.Fun))
			}
			out = append(out, fmt.Sprintf(".try_ %s %s", q(show(call.Fun)), q(e)))
			i++
		case *ast.IfStmt:
			is, ok := guardLike(s)
			if !ok {
				return out, i
			}
			out = append(out, g.guard(c, is, nil))
		case *ast.SwitchStmt:
			sw, ok := isSwitchOn(s, "algorithm")
			if !ok {
				return out, i
			}
			cl := switchClauses(sw)
			all := cl.cases
			if cl.dflt != nil {
				all = append(append([]*ast.CaseClause{}, all...), cl.dflt)
			}
			hasGuard := false
			for _, cc := range all {
				for _, b := range cc.Body {
					if _, ok := guardLike(b); ok {
						hasGuard = true
					}
				}
			}
			if !hasGuard {
				return out, i
			}
			if cl.dflt != nil || len(cl.cases) != 1 || len(cl.cases[0].Body) != 1 {
				failf(sw.Pos(), "%s: unknown guard shape: `switch algorithm` containing a guard is not `switch algorithm { case names…: if c { return …, ErrX } }`", fn)
			}
			is, _ := guardLike(cl.cases[0].Body[0])
			out = append(out, g.guard(c, is, g.algs(c, cl.cases[0].List)))
		default:
			return out, i
		}
	}
	return out, len(st)
}

func (g *gen) steps(fn string) []string {
	out, _ := g.stepsN(fn)
	return out
}

// bodyAfterSteps: every statement of the helper after its guard prefix, rendered flat.
func (g *gen) bodyAfterSteps(fn string) []string {
	_, i := g.stepsN(fn)
	c := g.crypto.fnIn(fn, "symmetric.go")
	return stmtsOneLine(c.stmts()[i:])
}

// ------------------------------------------------------------------ CBC padding switch, ChaCha tag split

func (g *gen) nopad(fn, padFn string) []string {
	c := g.crypto.fnIn(fn, "symmetric.go")
	var found []string
	n := 0
	for _, s := range c.stmts() {
		sw, ok := isSwitchOn(s, "algorithm")
		if !ok {
			continue
		}
		cl := switchClauses(sw)
		if cl.dflt == nil {
			continue
		}
		calls := false
		for _, b := range cl.dflt.Body {
			ast.Inspect(b, func(x ast.Node) bool {
				if e, ok := x.(ast.Expr); ok {
					if path, sel, _, ok := c.pkgCall(e); ok && path == pathPadding && sel == padFn {
						calls = true
					}
				}
				return true
			})
		}
		if !calls {
			continue
		}
		n++
		if len(cl.cases) != 1 || len(cl.cases[0].Body) != 0 {
			failf(sw.Pos(), "%s: the switch whose default calls padding.%s is not `case names…: (empty)`", fn, padFn)
		}
		found = g.algs(c, cl.cases[0].List)
	}
	if n != 1 {
		failf(c.fd.Pos(), "%s: expected exactly one `switch algorithm` whose default calls padding.%s, found %d", fn, padFn, n)
	}
	return found
}

func (g *gen) chachaTagSplit() int {
	fn := "encryptSymmetricChaCha20Poly1305"
	c := g.crypto.fnIn(fn, "symmetric.go")
	st := c.stmts()
	r, ok := st[len(st)-1].(*ast.ReturnStmt)
	if !ok || len(r.Results) != 3 || !isIdent(r.Results[2], "nil") {
		failf(st[len(st)-1].Pos(), "%s: last statement is not `return out[0:len(out)-k], out[len(out)-k:], nil`", fn)
	}
	bad := func() {
		failf(r.Pos(), "%s: final return is not `return out[0:len(out)-k], out[len(out)-k:], nil`", fn)
	}
	ct, ok := r.Results[0].(*ast.SliceExpr)
	if !ok || ct.Slice3 || ct.High == nil {
		bad()
	}
	tag, ok := r.Results[1].(*ast.SliceExpr)
	if !ok || tag.Slice3 || tag.High != nil || tag.Low == nil {
		bad()
	}
	v, ok := identName(tag.X)
	if !ok || !isIdent(ct.X, v) {
		bad()
	}
	if ct.Low != nil {
		if z, ok := intLit(ct.Low); !ok || z != 0 {
			bad()
		}
	}
	kh, ok := lenMinus(ct.High, v)
	if !ok {
		bad()
	}
	kt, ok := lenMinus(tag.Low, v)
	if !ok {
		bad()
	}
	a, b := g.intConst(c, kh), g.intConst(c, kt)
	if a != b {
		failf(r.Pos(), "%s: ciphertext and tag are split at different offsets (%d, %d)", fn, a, b)
	}
	return b
}

// ------------------------------------------------------------------ getAESCBCHMACCipher / getChaCha20Poly1305Cipher

func (g *gen) cbcHmac() (cases []string, ctorErr string) {
	fn := "getAESCBCHMACCipher"
	c := g.crypto.fnIn(fn, "symmetric.go")
	st := c.stmts()
	if len(st) != 3 {
		failf(c.fd.Pos(), "%s: body is not `switch algorithm {…}; if err != nil {…}; return aead, nil`", fn)
	}
	sw, ok := isSwitchOn(st[0], "algorithm")
	if !ok {
		failf(st[0].Pos(), "%s: first statement is not `switch algorithm`", fn)
	}
	cl := switchClauses(sw)
	target := ""
	for _, cc := range cl.cases {
		if len(cc.List) != 1 || len(cc.Body) != 2 {
			failf(cc.Pos(), "%s: case is not `case A: if len(key) != N { return nil, ErrKeyTypeMismatch }; aead, err = aescbcaead.F(key)`", fn)
		}
		is, ok := guardLike(cc.Body[0])
		if !ok || is.Init != nil || is.Else != nil || len(is.Body.List) != 1 {
			failf(cc.Body[0].Pos(), "%s: first statement of the case is not a key-length guard", fn)
		}
		if e := g.sentinelResult(c, is.Body.List[0].(*ast.ReturnStmt), "nil"); e != "ErrKeyTypeMismatch" {
			failf(is.Pos(), "%s: key-length guard returns %s, expected ErrKeyTypeMismatch", fn, e)
		}
		be, ok := is.Cond.(*ast.BinaryExpr)
		if !ok || be.Op != token.NEQ {
			failf(is.Cond.Pos(), "%s: key-length guard is not `len(key) != N`", fn)
		}
		kv, ok := lenOf(be.X)
		if !ok {
			failf(is.Cond.Pos(), "%s: key-length guard is not `len(key) != N`", fn)
		}
		keyLen := g.intConst(c, be.Y)
		as, ok := cc.Body[1].(*ast.AssignStmt)
		if !ok || as.Tok != token.ASSIGN || len(as.Lhs) != 2 || len(as.Rhs) != 1 || !isIdent(as.Lhs[1], "err") {
			failf(cc.Body[1].Pos(), "%s: second statement of the case is not `aead, err = aescbcaead.F(key)`", fn)
		}
		tv, ok := identName(as.Lhs[0])
		if !ok || (target != "" && tv != target) {
			failf(as.Pos(), "%s: cases assign different variables", fn)
		}
		target = tv
		path, sel, call, ok := c.pkgCall(as.Rhs[0])
		if !ok || path != pathAESCBCAEAD || len(call.Args) != 1 || !isIdent(call.Args[0], kv) {
			failf(as.Pos(), "%s: second statement of the case is not `aead, err = aescbcaead.F(%s)`", fn, kv)
		}
		cases = append(cases, fmt.Sprintf("{ name := %s, keyLen := %d, ctor := %s }", q(g.alg(c, cc.List[0])), keyLen, q(sel)))
	}
	if len(cases) == 0 {
		failf(sw.Pos(), "%s: switch without cases", fn)
	}
	if cl.dflt == nil || len(cl.dflt.Body) != 1 {
		failf(sw.Pos(), "%s: default is not `return nil, errors.New(…)`", fn)
	}
	if r, ok := cl.dflt.Body[0].(*ast.ReturnStmt); !ok || len(r.Results) != 2 || !isIdent(r.Results[0], "nil") || !c.isErrorsNew(r.Results[1]) {
		failf(cl.dflt.Pos(), "%s: default is not `return nil, errors.New(…)`", fn)
	}
	is, ok := st[1].(*ast.IfStmt)
	if !ok || !isErrNeNil(is.Cond) || is.Init != nil || is.Else != nil || len(is.Body.List) != 1 {
		failf(st[1].Pos(), "%s: statement after the switch is not `if err != nil { return nil, ErrX }`", fn)
	}
	r, ok := is.Body.List[0].(*ast.ReturnStmt)
	if !ok {
		failf(is.Pos(), "%s: statement after the switch is not `if err != nil { return nil, ErrX }`", fn)
	}
	ctorErr = g.sentinelResult(c, r, "nil")
	last, ok := st[2].(*ast.ReturnStmt)
	if !ok || len(last.Results) != 2 || !isIdent(last.Results[0], target) || !isIdent(last.Results[1], "nil") {
		failf(st[2].Pos(), "%s: last statement is not `return %s, nil`", fn, target)
	}
	return cases, ctorErr
}

func (g *gen) chacha() (cases []string, nonceErr string) {
	fn := "getChaCha20Poly1305Cipher"
	c := g.crypto.fnIn(fn, "symmetric.go")
	st := c.stmts()
	if len(st) != 2 {
		failf(c.fd.Pos(), "%s: body is not `switch algorithm {…}; return nil, errors.New(…)`", fn)
	}
	sw, ok := isSwitchOn(st[0], "algorithm")
	if !ok {
		failf(st[0].Pos(), "%s: first statement is not `switch algorithm`", fn)
	}
	cl := switchClauses(sw)
	if cl.dflt != nil {
		failf(cl.dflt.Pos(), "%s: unexpected default clause", fn)
	}
	for _, cc := range cl.cases {
		shape := "`aead, err = chacha20poly1305.F(key); if err == nil && len(nonce) != N { err = ErrX }; return`"
		if len(cc.Body) != 3 {
			failf(cc.Pos(), "%s: case body is not %s", fn, shape)
		}
		as, ok := cc.Body[0].(*ast.AssignStmt)
		if !ok || as.Tok != token.ASSIGN || len(as.Lhs) != 2 || len(as.Rhs) != 1 || !isIdent(as.Lhs[0], "aead") || !isIdent(as.Lhs[1], "err") {
			failf(cc.Body[0].Pos(), "%s: case body is not %s", fn, shape)
		}
		path, _, call, ok := c.pkgCall(as.Rhs[0])
		if !ok || path != "golang.org/x/crypto/chacha20poly1305" || len(call.Args) != 1 || !isIdent(call.Args[0], "key") {
			failf(as.Pos(), "%s: constructor call %s is not chacha20poly1305.F(key)", fn, show(as.Rhs[0]))
		}
		is, ok := cc.Body[1].(*ast.IfStmt)
		if !ok || is.Init != nil || is.Else != nil || len(is.Body.List) != 1 {
			failf(cc.Body[1].Pos(), "%s: case body is not %s", fn, shape)
		}
		and, ok := is.Cond.(*ast.BinaryExpr)
		if !ok || and.Op != token.LAND {
			failf(is.Cond.Pos(), "%s: nonce check is not `err == nil && len(nonce) != N`", fn)
		}
		l, ok := and.X.(*ast.BinaryExpr)
		if !ok || l.Op != token.EQL || !isIdent(l.X, "err") || !isIdent(l.Y, "nil") {
			failf(is.Cond.Pos(), "%s: nonce check is not `err == nil && len(nonce) != N`", fn)
		}
		r, ok := and.Y.(*ast.BinaryExpr)
		if !ok || r.Op != token.NEQ {
			failf(is.Cond.Pos(), "%s: nonce check is not `err == nil && len(nonce) != N`", fn)
		}
		if v, ok := lenOf(r.X); !ok || v != "nonce" {
			failf(is.Cond.Pos(), "%s: nonce check is not `err == nil && len(nonce) != N`", fn)
		}
		nonceLen := g.intConst(c, r.Y)
		set, ok := is.Body.List[0].(*ast.AssignStmt)
		if !ok || set.Tok != token.ASSIGN || len(set.Lhs) != 1 || len(set.Rhs) != 1 || !isIdent(set.Lhs[0], "err") {
			failf(is.Body.Pos(), "%s: body of the nonce check is not `err = ErrX`", fn)
		}
		e, ok := identName(set.Rhs[0])
		if !ok || !g.isSentinel[e] {
			failf(set.Pos(), "%s: nonce check assigns %s, which is not a sentinel", fn, show(set.Rhs[0]))
		}
		if nonceErr != "" && nonceErr != e {
			failf(set.Pos(), "%s: cases use different nonce errors (%s, %s)", fn, nonceErr, e)
		}
		nonceErr = e
		if ret, ok := cc.Body[2].(*ast.ReturnStmt); !ok || len(ret.Results) != 0 {
			failf(cc.Body[2].Pos(), "%s: case does not end in a bare return", fn)
		}
		cases = append(cases, fmt.Sprintf("{ names := %s, ctor := %s, nonceLen := %d }", qlist(g.algs(c, cc.List)), q(show(call.Fun)), nonceLen))
	}
	if len(cases) == 0 {
		failf(sw.Pos(), "%s: switch without cases", fn)
	}
	if r, ok := st[1].(*ast.ReturnStmt); !ok || len(r.Results) != 2 || !isIdent(r.Results[0], "nil") || !c.isErrorsNew(r.Results[1]) {
		failf(st[1].Pos(), "%s: last statement is not `return nil, errors.New(…)`", fn)
	}
	return cases, nonceErr
}

// ------------------------------------------------------------------ package aescbcaead

func (g *gen) aeadParams() []string {
	f := g.aead.file("aescbcaead.go")
	var out []string
	for _, d := range f.Decls {
		fd, ok := d.(*ast.FuncDecl)
		if !ok || fd.Recv != nil || !strings.HasPrefix(fd.Name.Name, "NewAESCBC") || fd.Name.Name == "NewAESCBCAEAD" {
			continue
		}
		c := fctx{g.aead, f, fd, fd.Name.Name}
		ps := c.params()
		pl := fd.Type.Params.List
		if len(ps) != 1 || show(pl[0].Type) != "[]byte" {
			failf(fd.Pos(), "%s: signature is not (key []byte)", c.name)
		}
		shape := "`return NewAESCBCAEAD(aesCBCAEADParams{…})`"
		if len(fd.Body.List) != 1 {
			failf(fd.Pos(), "%s: body is not %s", c.name, shape)
		}
		call, ok := singleResult(c, fd.Body.List[0]).(*ast.CallExpr)
		if !ok || !isIdent(call.Fun, "NewAESCBCAEAD") || len(call.Args) != 1 {
			failf(fd.Body.Pos(), "%s: body is not %s", c.name, shape)
		}
		lit, ok := call.Args[0].(*ast.CompositeLit)
		if !ok || !isIdent(lit.Type, "aesCBCAEADParams") {
			failf(call.Pos(), "%s: body is not %s", c.name, shape)
		}
		vals := map[string]int{}
		for _, el := range lit.Elts {
			kv, ok := el.(*ast.KeyValueExpr)
			if !ok {
				failf(el.Pos(), "%s: literal element without field name", c.name)
			}
			k, ok := identName(kv.Key)
			if !ok {
				failf(kv.Pos(), "%s: literal element without field name", c.name)
			}
			if _, dup := vals[k]; dup {
				failf(kv.Pos(), "%s: field %s given twice", c.name, k)
			}
			switch k {
			case "macAlg":
				se, ok := kv.Value.(*ast.SelectorExpr)
				if !ok || se.Sel.Name != "New" {
					failf(kv.Value.Pos(), "%s: macAlg is not crypto.SHAn.New", c.name)
				}
				path, sel, ok := c.pkgSel(se.X)
				if !ok || path != "crypto" || !strings.HasPrefix(sel, "SHA") {
					failf(kv.Value.Pos(), "%s: macAlg is not crypto.SHAn.New", c.name)
				}
				n, err := strconv.Atoi(strings.TrimPrefix(sel, "SHA"))
				if err != nil || n < 0 {
					failf(kv.Value.Pos(), "%s: cannot render %s as a number", c.name, show(se.X))
				}
				vals[k] = n
			case "encKeySize", "macKeySize", "tagSize":
				n, ok := intLit(kv.Value)
				if !ok {
					failf(kv.Value.Pos(), "%s: %s is not an integer literal", c.name, k)
				}
				vals[k] = n
			case "key":
				if !isIdent(kv.Value, ps[0]) {
					failf(kv.Value.Pos(), "%s: field key is not the parameter %s", c.name, ps[0])
				}
				vals[k] = 0
			default:
				failf(kv.Pos(), "%s: unknown field %s", c.name, k)
			}
		}
		for _, k := range []string{"macAlg", "encKeySize", "macKeySize", "tagSize", "key"} {
			if _, ok := vals[k]; !ok {
				failf(lit.Pos(), "%s: field %s missing", c.name, k)
			}
		}
		out = append(out, fmt.Sprintf("{ ctor := %s, hashBits := %d, encKeySize := %d, macKeySize := %d, tagSize := %d }",
			q(c.name), vals["macAlg"], vals["encKeySize"], vals["macKeySize"], vals["tagSize"]))
	}
	if len(out) == 0 {
		failf(f.Pos(), "no NewAESCBC… constructor in aescbcaead.go")
	}
	return out
}

func (g *gen) aeadKeySplit() string {
	c := g.aead.fnIn("NewAESCBCAEAD", "aescbcaead.go")
	rhs := map[string]string{}
	for _, s := range c.stmts() {
		as, ok := s.(*ast.AssignStmt)
		if !ok || as.Tok != token.DEFINE || len(as.Lhs) != 1 || len(as.Rhs) != 1 {
			continue
		}
		n, _ := identName(as.Lhs[0])
		if n != "macKey" && n != "encKey" {
			continue
		}
		if _, dup := rhs[n]; dup {
			failf(as.Pos(), "NewAESCBCAEAD: %s defined twice", n)
		}
		rhs[n] = strings.ReplaceAll(show(as.Rhs[0]), " ", "")
	}
	for _, n := range []string{"macKey", "encKey"} {
		if _, ok := rhs[n]; !ok {
			failf(c.fd.Pos(), "NewAESCBCAEAD: no top-level `%s := …`", n)
		}
	}
	return "macKey=" + rhs["macKey"] + ";encKey=" + rhs["encKey"]
}

func (g *gen) aeadOpenOrder() []string {
	c := g.aead.method("aesCBCAEAD", "Open")
	first := map[string]token.Pos{}
	note := func(k string, p token.Pos) {
		if old, ok := first[k]; !ok || p < old {
			first[k] = p
		}
	}
	ast.Inspect(c.fd.Body, func(n ast.Node) bool {
		call, ok := n.(*ast.CallExpr)
		if !ok {
			return true
		}
		se, ok := call.Fun.(*ast.SelectorExpr)
		if !ok {
			return true
		}
		switch {
		case c.isPkgSel(se, "crypto/hmac", "Equal"):
			note("hmac.Equal", se.Sel.Pos())
		case c.isPkgSel(se, pathPadding, "UnpadPKCS7"):
			note("padding.UnpadPKCS7", se.Sel.Pos())
		case se.Sel.Name == "CryptBlocks":
			note("CryptBlocks", se.Sel.Pos())
		}
		return true
	})
	keys := []string{"hmac.Equal", "CryptBlocks", "padding.UnpadPKCS7"}
	for _, k := range keys {
		if _, ok := first[k]; !ok {
			failf(c.fd.Pos(), "aesCBCAEAD.Open: no call of %s", k)
		}
	}
	sort.SliceStable(keys, func(i, j int) bool { return first[keys[i]] < first[keys[j]] })
	return keys
}

// stmtsOneLine prints statements with whitespace collapsed (comments are not part of the AST nodes).
func stmtsOneLine(ss []ast.Stmt) []string {
	var out []string
	for _, s := range ss {
		out = append(out, showFlat(s))
	}
	return out
}

// showFlat renders a node (possibly spanning lines) with all white space collapsed.
func showFlat(n ast.Node) string {
	var b strings.Builder
	if err := printer.Fprint(&b, fset, n); err != nil {
		failf(n.Pos(), "cannot render source: %v", err)
	}
	return strings.Join(strings.Fields(b.String()), " ")
}

// aeadOpenHead: every top-level statement of aesCBCAEAD.Open up to and including the `if` that
// contains hmac.Equal (how the tag is cut off, recomputed and compared), and hmacTag's return.
func (g *gen) aeadOpenHead() []string {
	c := g.aead.method("aesCBCAEAD", "Open")
	for i, s := range c.stmts() {
		found := false
		if is, ok := s.(*ast.IfStmt); ok {
			ast.Inspect(is.Cond, func(n ast.Node) bool {
				if se, ok := n.(*ast.SelectorExpr); ok && c.isPkgSel(se, "crypto/hmac", "Equal") {
					found = true
				}
				return true
			})
		}
		if found {
			return stmtsOneLine(c.stmts()[:i+1])
		}
	}
	failf(c.fd.Pos(), "aesCBCAEAD.Open: no top-level `if` on hmac.Equal")
	return nil
}

func (g *gen) aeadHmacTagReturn() string {
	c := g.aead.method("aesCBCAEAD", "hmacTag")
	ss := c.stmts()
	r, ok := ss[len(ss)-1].(*ast.ReturnStmt)
	if !ok {
		failf(c.fd.Pos(), "hmacTag does not end in a return")
	}
	return showFlat(r)
}

// kwTail: the statements of Wrap / Unwrap after the round loop (output assembly; the IV check).
func (g *gen) kwTail(fn string) []string {
	c := g.kw.fnIn(fn, "keywrap.go")
	for i, s := range c.stmts() {
		if fs, ok := s.(*ast.ForStmt); ok && len(fs.Body.List) == 1 {
			if _, ok := fs.Body.List[0].(*ast.ForStmt); ok {
				return stmtsOneLine(c.stmts()[i+1:])
			}
		}
	}
	failf(c.fd.Pos(), "%s: no round loop", fn)
	return nil
}

// kwHead: the statements of Wrap / Unwrap between the length guards and the round loop (register set-up).
func (g *gen) kwHead(fn string) []string {
	c := g.kw.fnIn(fn, "keywrap.go")
	n := len(g.kwGuards(fn))
	for i, s := range c.stmts() {
		if fs, ok := s.(*ast.ForStmt); ok && len(fs.Body.List) == 1 {
			if _, ok := fs.Body.List[0].(*ast.ForStmt); ok {
				return stmtsOneLine(c.stmts()[n:i])
			}
		}
	}
	failf(c.fd.Pos(), "%s: no round loop", fn)
	return nil
}

func (g *gen) aeadHmacTag() (macInput []string, al string) {
	c := g.aead.method("aesCBCAEAD", "hmacTag")
	ps := c.params()
	if len(ps) == 0 {
		failf(c.fd.Pos(), "hmacTag: no parameter")
	}
	h := ps[0]
	nAL := 0
	ast.Inspect(c.fd.Body, func(n ast.Node) bool {
		call, ok := n.(*ast.CallExpr)
		if !ok {
			return true
		}
		se, ok := call.Fun.(*ast.SelectorExpr)
		if !ok {
			return true
		}
		if isIdent(se.X, h) && se.Sel.Name == "Write" {
			if len(call.Args) != 1 {
				failf(call.Pos(), "hmacTag: %s.Write with %d arguments", h, len(call.Args))
			}
			macInput = append(macInput, show(call.Args[0]))
		}
		return true
	})
	for _, s := range c.stmts() {
		es, ok := s.(*ast.ExprStmt)
		if !ok {
			continue
		}
		call, ok := es.X.(*ast.CallExpr)
		if !ok {
			continue
		}
		se, ok := call.Fun.(*ast.SelectorExpr)
		if !ok || se.Sel.Name != "PutUint64" || !c.isPkgSel(se.X, "encoding/binary", "BigEndian") {
			continue
		}
		if len(call.Args) != 2 || !isIdent(call.Args[0], "al") {
			failf(call.Pos(), "hmacTag: PutUint64 does not write to al")
		}
		nAL++
		al = show(es)
	}
	if len(macInput) == 0 {
		failf(c.fd.Pos(), "hmacTag: no %s.Write call", h)
	}
	if nAL != 1 {
		failf(c.fd.Pos(), "hmacTag: expected exactly one top-level binary.BigEndian.PutUint64(al, …), found %d", nAL)
	}
	return macInput, al
}

// ------------------------------------------------------------------ package aeskw

func (g *gen) kwGuards(fn string) []string {
	c := g.kw.fnIn(fn, "keywrap.go")
	out := []string{}
	for _, s := range c.stmts() {
		is, ok := s.(*ast.IfStmt)
		if !ok || len(is.Body.List) == 0 {
			break
		}
		r, ok := is.Body.List[len(is.Body.List)-1].(*ast.ReturnStmt)
		if !ok || len(r.Results) != 2 || !isIdent(r.Results[0], "nil") || isIdent(r.Results[1], "nil") {
			break
		}
		// an `if` returning (nil, error): it must be exactly `if c { return nil, errors.New("…") }`
		if is.Init != nil || is.Else != nil || len(is.Body.List) != 1 || !c.isErrorsNew(r.Results[1]) {
			failf(is.Pos(), "%s: leading check is not `if c { return nil, errors.New(\"…\") }`", fn)
		}
		out = append(out, show(is.Cond))
	}
	return out
}

// kwRound prints the two loop headers and every statement of the round body of Wrap / Unwrap
// (`for j … { for i … { body } }`): the hand-written Lean wrap/unwrap mirror exactly these.
func (g *gen) kwRound(fn string) []string {
	c := g.kw.fnIn(fn, "keywrap.go")
	var outer *ast.ForStmt
	for _, s := range c.stmts() {
		if fs, ok := s.(*ast.ForStmt); ok && len(fs.Body.List) == 1 {
			if _, ok := fs.Body.List[0].(*ast.ForStmt); ok {
				if outer != nil {
					failf(fs.Pos(), "%s: more than one nested round loop", fn)
				}
				outer = fs
			}
		}
	}
	if outer == nil {
		failf(c.fd.Pos(), "%s: no `for j { for i { … } }` round loop found", fn)
	}
	inner := outer.Body.List[0].(*ast.ForStmt)
	hdr := func(f *ast.ForStmt) string {
		if f.Init == nil || f.Cond == nil || f.Post == nil {
			failf(f.Pos(), "%s: loop header is not `for init; cond; post`", fn)
		}
		return "for " + show(f.Init) + "; " + show(f.Cond) + "; " + show(f.Post)
	}
	out := []string{hdr(outer), hdr(inner)}
	for _, s := range inner.Body.List {
		out = append(out, strings.Join(strings.Fields(show(s)), " "))
	}
	return out
}

func (g *gen) kwDefaultIV() []string {
	f := g.kw.file("keywrap.go")
	var out []string
	n := 0
	for _, d := range f.Decls {
		gd, ok := d.(*ast.GenDecl)
		if !ok || (gd.Tok != token.VAR && gd.Tok != token.CONST) {
			continue
		}
		for _, sp := range gd.Specs {
			vs := sp.(*ast.ValueSpec)
			for i, name := range vs.Names {
				if name.Name != "defaultIV" {
					continue
				}
				n++
				if gd.Tok != token.VAR || len(vs.Values) != len(vs.Names) {
					failf(name.Pos(), "defaultIV is not `var defaultIV = []byte{…}`")
				}
				cl, ok := vs.Values[i].(*ast.CompositeLit)
				if !ok || cl.Type == nil || show(cl.Type) != "[]byte" {
					failf(vs.Values[i].Pos(), "defaultIV is not a []byte literal")
				}
				for _, e := range cl.Elts {
					b, ok := intLit(e)
					if !ok || b > 255 {
						failf(e.Pos(), "defaultIV: element %s is not a byte literal", show(e))
					}
					out = append(out, strconv.Itoa(b))
				}
			}
		}
	}
	if n != 1 {
		failf(f.Pos(), "expected exactly one declaration of defaultIV in keywrap.go, found %d", n)
	}
	return out
}

// ------------------------------------------------------------------ asymmetric helpers

var stdAsymPkgs = map[string]bool{"crypto/rsa": true, "crypto/ecdsa": true, "crypto/ed25519": true}

func (g *gen) asymHelper(name string) string {
	c := g.crypto.fn(name)
	rawType := ""
	var stdCalls []string
	errs := map[string]bool{}
	mapsVerif, checksCurve := false, false
	ast.Inspect(c.fd.Body, func(n ast.Node) bool {
		switch x := n.(type) {
		case *ast.CompositeLit:
			if x.Type != nil && rawType == "" {
				if path, _, ok := c.pkgSel(x.Type); ok && stdAsymPkgs[path] {
					rawType = show(x.Type)
				}
			}
		case *ast.CallExpr:
			if path, _, ok := c.pkgSel(x.Fun); ok && stdAsymPkgs[path] {
				stdCalls = append(stdCalls, show(x.Fun))
			}
			if c.isPkgSel(x.Fun, "errors", "Is") {
				if len(x.Args) != 2 || !isIdent(x.Args[0], "err") || !c.isPkgSel(x.Args[1], "crypto/rsa", "ErrVerification") {
					failf(x.Pos(), "%s: errors.Is call is not errors.Is(err, rsa.ErrVerification)", name)
				}
				mapsVerif = true
			}
		case *ast.ReturnStmt:
			if len(x.Results) > 0 {
				if id, ok := identName(x.Results[len(x.Results)-1]); ok && strings.HasPrefix(id, "Err") {
					if !g.isSentinel[id] {
						failf(x.Pos(), "%s: returns %s, which is not a sentinel of consts.go", name, id)
					}
					errs[id] = true
				}
			}
		case *ast.BinaryExpr:
			if se, ok := x.X.(*ast.SelectorExpr); ok && x.Op == token.NEQ && se.Sel.Name == "Curve" {
				checksCurve = true
			}
		}
		return true
	})
	if rawType == "" {
		failf(c.fd.Pos(), "%s: no composite literal of an rsa/ecdsa/ed25519 type", name)
	}
	if len(errs) != 1 {
		var es []string
		for e := range errs {
			es = append(es, e)
		}
		sort.Strings(es)
		failf(c.fd.Pos(), "%s: expected exactly one sentinel among the returned errors, found %v", name, es)
	}
	guardErr := ""
	for e := range errs {
		guardErr = e
	}
	if len(stdCalls) != 1 {
		failf(c.fd.Pos(), "%s: expected exactly one call into rsa/ecdsa/ed25519, found %v", name, stdCalls)
	}
	return fmt.Sprintf("{ name := %s, rawType := %s, guardErr := %s, stdCall := %s, mapsErrVerification := %s, checksCurve := %s }",
		q(name), q(rawType), q(guardErr), q(stdCalls[0]), leanBool(mapsVerif), leanBool(checksCurve))
}

// ------------------------------------------------------------------ output

var dispatchFuncs = []string{"Encrypt", "Decrypt", "EncryptSymmetric", "DecryptSymmetric",
	"EncryptPublicKey", "DecryptPrivateKey", "SignPrivateKey", "VerifyPublicKey"}

// The helpers whose guard prefix the model interprets.  Every callee of the EncryptSymmetric /
// DecryptSymmetric switches has to be one of them (checked below).
var stepFuncs = []string{
	"encryptSymmetricAESCBC", "decryptSymmetricAESCBC",
	"encryptSymmetricAESGCM", "decryptSymmetricAESGCM",
	"encryptSymmetricAESCBCHMAC", "decryptSymmetricAESCBCHMAC",
	"encryptSymmetricAEAD", "decryptSymmetricAEAD",
	"encryptSymmetricAESKW", "decryptSymmetricAESKW",
	"encryptSymmetricChaCha20Poly1305", "decryptSymmetricChaCha20Poly1305",
}

func (g *gen) emitMultiline(header string, items []string) {
	if len(items) == 0 {
		g.pf("%s []\n", header)
		return
	}
	g.pf("%s [\n", header)
	for i, it := range items {
		end := ","
		if i == len(items)-1 {
			end = "]"
		}
		g.pf("  %s%s\n", it, end)
	}
}

func (g *gen) generate() string {
	g.readConsts()

	g.pf("/- GENERATED by harness/cmd/factgen_c03 from /repo/crypto — do not edit. -/\n")
	g.pf("import KitModel.CryptoGlueFacts\nnamespace Kit.Generated.C03\nopen Kit.CryptoGlue.Facts\n\n")

	g.pf("/-- `Algorithm_*` constants of consts.go. -/\n")
	var items []string
	for _, n := range g.algNames {
		items = append(items, fmt.Sprintf("(%s, %s)", q(n), q(g.algVal[n])))
	}
	g.emitMultiline("def algConsts : List (String × String) :=", items)
	g.pf("\n/-- Error sentinels declared in consts.go. -/\n")
	g.pf("def sentinels : List String := %s\n", qlist(g.sentinels))
	g.pf("\n/-- Package constants the guards refer to, as compiled into factgen. -/\n")
	items = nil
	for _, ec := range extConsts {
		items = append(items, fmt.Sprintf("(%s, %d)", q(ec.sel), ec.val))
	}
	g.emitMultiline("def extConsts : List (String × Nat) :=", items)

	g.pf("\n")
	g.pf("def supportedSymmetric : List String := %s\n", qlist(g.supported("SupportedSymmetricAlgorithms")))
	g.pf("def supportedAsymmetric : List String := %s\n", qlist(g.supported("SupportedAsymmetricAlgorithms")))
	g.pf("def supportedSignature : List String := %s\n", qlist(g.supported("SupportedSignatureAlgorithms")))

	g.pf("\n")
	sws := map[string]swFacts{}
	for _, fn := range dispatchFuncs {
		sws[fn] = g.dispatch(fn)
		g.emitSwitch(fn, sws[fn])
	}

	g.pf("\n/-- `expectedKeySize`: `switch alg[1:4]`. -/\n")
	g.pf("def tbl_expectedKeySize : SliceTable := %s\n", g.sliceTable("expectedKeySize"))
	g.pf("/-- `getSHAHash`: `switch alg[len(alg)-3:]`; `crypto.SHAn` is rendered as `n`. -/\n")
	g.pf("def tbl_getSHAHash : SliceTable := %s\n", g.sliceTable("getSHAHash"))
	g.pf("\n/-- `ecdsaCurve`: `switch algorithm`; `elliptic.Pn()` is rendered as `n`; the final `return nil` as 0. -/\n")
	curves, curveDflt := g.curveTable("ecdsaCurve")
	g.pf("def tbl_ecdsaCurve : List (String × Nat) := %s\n", curves)
	g.pf("def tbl_ecdsaCurve_dflt : Nat := %d\n", curveDflt)

	g.pf("\n/-- Key-kind guard opening `EncryptSymmetric` / `DecryptSymmetric`: (required `KeyType()`, error). -/\n")
	g.pf("def kind_EncryptSymmetric : String × String := %s\n", g.kindGuard("EncryptSymmetric"))
	g.pf("def kind_DecryptSymmetric : String × String := %s\n", g.kindGuard("DecryptSymmetric"))

	g.pf("\n")
	known := map[string]bool{}
	for _, fn := range stepFuncs {
		known[fn] = true
	}
	for _, top := range []string{"EncryptSymmetric", "DecryptSymmetric"} {
		for _, cs := range sws[top].cases {
			if !known[cs.callee] {
				failf(g.crypto.fn(cs.callee).fd.Pos(), "%s dispatches to %s, a helper whose guard prefix is not extracted", top, cs.callee)
			}
		}
	}
	for _, fn := range stepFuncs {
		g.emitMultiline(fmt.Sprintf("def steps_%s : List Step :=", fn), g.steps(fn))
	}
	g.pf("\n/-- What each helper does after its guard prefix, statement by statement (rendered source). -/\n")
	for _, fn := range stepFuncs {
		g.pf("def body_%s : List String := %s\n", fn, qlist(g.bodyAfterSteps(fn)))
	}

	g.pf("\n/-- Names for which the CBC helpers skip PKCS#7 (the `switch` whose `default` calls padding.*). -/\n")
	g.pf("def nopad_encryptSymmetricAESCBC : List String := %s\n", qlist(g.nopad("encryptSymmetricAESCBC", "PadPKCS7")))
	g.pf("def nopad_decryptSymmetricAESCBC : List String := %s\n", qlist(g.nopad("decryptSymmetricAESCBC", "UnpadPKCS7")))
	g.pf("/-- Tag split in encryptSymmetricChaCha20Poly1305: `out[len(out)-k:]`. -/\n")
	g.pf("def chachaEncryptTagSplit : Nat := %d\n", g.chachaTagSplit())

	g.pf("\n/-- `getAESCBCHMACCipher`. -/\n")
	cbc, ctorErr := g.cbcHmac()
	g.emitMultiline("def cbcHmacCiphers : List CbcHmacCase :=", cbc)
	g.pf("def cbcHmacCtorErr : String := %s\n", q(ctorErr))
	g.pf("/-- `getChaCha20Poly1305Cipher`. -/\n")
	cc, nonceErr := g.chacha()
	g.emitMultiline("def chachaCiphers : List ChaChaCase :=", cc)
	g.pf("def chachaNonceErr : String := %s\n", q(nonceErr))
	g.pf("/-- Constructors of package aescbcaead. -/\n")
	g.emitMultiline("def aescbcaeadParams : List AeadParams :=", g.aeadParams())
	g.pf("/-- Key split in `NewAESCBCAEAD`. -/\n")
	g.pf("def aescbcaeadKeySplit : String := %s\n", q(g.aeadKeySplit()))
	g.pf("/-- Order of the checks in `aesCBCAEAD.Open`. -/\n")
	g.pf("def aescbcaeadOpenOrder : List String := %s\n", qlist(g.aeadOpenOrder()))
	g.pf("/-- `hmacTag`: order of the `h.Write` arguments and the length encoding. -/\n")
	macInput, al := g.aeadHmacTag()
	g.pf("def aescbcaeadMacInput : List String := %s\n", qlist(macInput))
	g.pf("def aescbcaeadAL : String := %s\n", q(al))
	g.pf("/-- aeskw: the length guards of Wrap / Unwrap, rendered. -/\n")
	g.pf("def aeskwWrapGuards : List String := %s\n", qlist(g.kwGuards("Wrap")))
	g.pf("def aeskwUnwrapGuards : List String := %s\n", qlist(g.kwGuards("Unwrap")))
	g.pf("def aeskwDefaultIV : List Nat := [%s]\n", strings.Join(g.kwDefaultIV(), ", "))
	g.pf("/-- aeskw: loop headers and statements of the round body of Wrap / Unwrap, rendered. -/\n")
	g.pf("def aeskwWrapRound : List String := %s\n", qlist(g.kwRound("Wrap")))
	g.pf("def aeskwUnwrapRound : List String := %s\n", qlist(g.kwRound("Unwrap")))
	g.pf("/-- aeskw: register set-up before, and the statements after, the round loop. -/\n")
	g.pf("def aeskwWrapHead : List String := %s\n", qlist(g.kwHead("Wrap")))
	g.pf("def aeskwWrapTail : List String := %s\n", qlist(g.kwTail("Wrap")))
	g.pf("def aeskwUnwrapHead : List String := %s\n", qlist(g.kwHead("Unwrap")))
	g.pf("def aeskwUnwrapTail : List String := %s\n", qlist(g.kwTail("Unwrap")))
	g.pf("/-- aescbcaead: Open up to and including the tag comparison; what hmacTag returns. -/\n")
	g.pf("def aescbcaeadOpenHead : List String := %s\n", qlist(g.aeadOpenHead()))
	g.pf("def aescbcaeadHmacTagReturn : String := %s\n", q(g.aeadHmacTagReturn()))

	g.pf("\n")
	seen := map[string]bool{}
	items = nil
	for _, top := range []string{"EncryptPublicKey", "DecryptPrivateKey", "SignPrivateKey", "VerifyPublicKey"} {
		for _, cs := range sws[top].cases {
			if seen[cs.callee] {
				continue
			}
			seen[cs.callee] = true
			items = append(items, g.asymHelper(cs.callee))
		}
	}
	g.emitMultiline("def asymHelpers : List AsymHelper :=", items)

	g.pf("\n/-- The asymmetric side statement by statement (rendered source): what each entry point does\nbefore its `switch algorithm`, and the whole body of every helper. -/\n")
	for _, top := range []string{"Encrypt", "Decrypt", "EncryptSymmetric", "DecryptSymmetric", "EncryptPublicKey", "DecryptPrivateKey", "SignPrivateKey", "VerifyPublicKey"} {
		c := g.crypto.fn(top)
		idx, _ := algorithmSwitch(c)
		g.pf("def pre_%s : List String := %s\n", top, qlist(stmtsOneLine(c.stmts()[:idx])))
		if idx != len(c.stmts())-1 {
			failf(c.fd.Pos(), "%s: statements after the `switch algorithm` (unknown shape)", top)
		}
	}
	var order []string
	seen2 := map[string]bool{}
	for _, top := range []string{"EncryptPublicKey", "DecryptPrivateKey", "SignPrivateKey", "VerifyPublicKey"} {
		for _, cs := range sws[top].cases {
			if !seen2[cs.callee] {
				seen2[cs.callee] = true
				order = append(order, cs.callee)
			}
		}
	}
	for _, fn := range order {
		g.pf("def abody_%s : List String := %s\n", fn, qlist(stmtsOneLine(g.crypto.fn(fn).stmts())))
	}

	g.pf("\nend Kit.Generated.C03\n")
	return g.out.String()
}

func main() {
	repo := flag.String("repo", "", "root of the dapr/kit checkout")
	out := flag.String("out", "", "Lean file to write")
	flag.Parse()
	if *repo == "" || *out == "" || flag.NArg() != 0 {
		fmt.Fprintln(os.Stderr, "usage: factgen_c03 --repo <dir> --out <file.lean>")
		os.Exit(2)
	}
	g := &gen{
		crypto: loadPkg(filepath.Join(*repo, "crypto")),
		aead:   loadPkg(filepath.Join(*repo, "crypto", "aescbcaead")),
		kw:     loadPkg(filepath.Join(*repo, "crypto", "aeskw")),
	}
	// The model of C03 has no state shared between calls: every helper returns freshly allocated
	// slices. Package-level mutable state (a sync.Pool, a cache, a scratch buffer) in the anchored
	// files is a shape the model does not have — refuse to translate it.
	checkNoSharedState(g.crypto, "crypto.go", "symmetric.go", "asymmetric_enc.go", "asymmetric_sig.go", "consts.go")
	checkNoSharedState(g.aead, "aescbcaead.go")
	checkNoSharedState(g.kw, "keywrap.go")
	checkNoSharedState(loadPkg(filepath.Join(*repo, "crypto", "padding")), "pkcs7_padding.go")
	text := g.generate()
	if err := os.WriteFile(*out, []byte(text), 0o644); err != nil {
		failf(token.NoPos, "%v", err)
	}
}
