package main

import (
	"fmt"
	"math/big"
	"runtime"
	"strings"
	"sync"
	"sync/atomic"
	"time"

	"github.com/dapr/kit/events/queue"
	"github.com/dapr/kit/verifhook"

	"verifharness/lib"
)

// item is the queued object; the Processor compares items by pointer.
type item struct {
	key int
	at  time.Time
	id  int // assigned under p.lock by the enqueue hook = order of the Enqueue bodies
}

func (i *item) Key() int                 { return i.key }
func (i *item) ScheduledTime() time.Time { return i.at }

// Ev is one observed event (in the order of the global log; events raised under p.lock or the
// clock mutex are exactly ordered among themselves).
type Ev struct {
	Kind  string    `json:"k"` // enq deq adv newtimer peeked popped stale exec ret closecall closeret park unpark quiet
	ID    int       `json:"id,omitempty"`
	Key   int       `json:"key,omitempty"`
	At    int64     `json:"at,omitempty"`  // newtimer: duration in ns
	AtT   time.Time `json:"-"`             // scheduled time of an item (any time.Time, also far outside the int64-ns range)
	Now   int64     `json:"now,omitempty"` // clock value, ns from base
	First bool      `json:"first,omitempty"`
	Out   string    `json:"out,omitempty"` // spawn | reset | none  (what process() did)
	P     string    `json:"p,omitempty"`   // hook point of a park
	None  bool      `json:"none,omitempty"`
}

func (e Ev) Line() string {
	b := func(x bool) int {
		if x {
			return 1
		}
		return 0
	}
	switch e.Kind {
	case "enq":
		return fmt.Sprintf("enq key=%d at=%s id=%d first=%d out=%s", e.Key, bigNs(baseTime, e.AtT), e.ID, b(e.First), e.Out)
	case "deq":
		return fmt.Sprintf("deq key=%d first=%d out=%s", e.Key, b(e.First), e.Out)
	case "adv":
		return fmt.Sprintf("adv to=%d", e.Now)
	case "newtimer":
		return fmt.Sprintf("newtimer dur=%d created=%d", e.At, e.Now)
	case "peeked":
		if e.None {
			return "peeked none=1"
		}
		return fmt.Sprintf("peeked id=%d", e.ID)
	case "popped", "stale", "ret":
		return fmt.Sprintf("%s id=%d", e.Kind, e.ID)
	case "exec":
		return fmt.Sprintf("exec id=%d key=%d at=%s now=%d", e.ID, e.Key, bigNs(baseTime, e.AtT), e.Now)
	case "park":
		if e.None {
			return fmt.Sprintf("park p=%s none=1", e.P)
		}
		return fmt.Sprintf("park p=%s id=%d", e.P, e.ID)
	default:
		return e.Kind
	}
}

type parkReq struct {
	name    string
	match   func(args []any) bool
	used    atomic.Bool
	parked  chan struct{}
	release chan struct{}
	counted atomic.Bool // releasePark found the goroutine parked: it owes a releasing.Add(-1)
}

// World is one Processor under test together with everything the harness observes about it.
type World struct {
	base time.Time
	clk  *VClock
	p    *queue.Processor[int, *item]

	mu   sync.Mutex
	evs  []Ev
	live map[int]*item // by key, maintained from the lock-ordered events (monitor)

	nextID   int
	lastProc string // what process() did inside the current Enqueue/Dequeue body (under p.lock)

	loopsStarted  atomic.Int32
	loopsReleased atomic.Int32
	lastLoopHook  atomic.Value // string
	beforeLast    atomic.Value // string: the loop hook before lastLoopHook
	resetPending  atomic.Bool
	stopClosed    atomic.Bool
	closeCalled   atomic.Bool
	held          atomic.Bool // a goroutine is parked by the harness
	heldN         atomic.Int32
	releasing     atomic.Int32
	inBody        atomic.Bool  // an Enqueue/Dequeue body has touched the channels but not yet logged its event
	api           atomic.Int32 // Enqueue/Dequeue calls of the scripted scenarios that have not returned yet
	inCb          atomic.Int32

	park    atomic.Pointer[parkReq]
	park2   atomic.Pointer[parkReq] // a second, simultaneous park (other goroutine, other point)
	cbBlock atomic.Pointer[parkReq] // park inside the callback (name = "cb")

	reenter *lib.Rand // callbacks of keys < 4 call Enqueue/Dequeue themselves (nil = never); guarded by yieldMu
	yield   *lib.Rand // random perturbation at hooks (nil = none)
	yieldMu sync.Mutex

	hookHits map[string]int
}

func ns(base, t time.Time) int64 { return t.Sub(base).Nanoseconds() }

// baseTime is the clock origin of every World (model time 0).
var baseTime = time.Unix(1700000000, 0).UTC()

// fromBigNs is the inverse of bigNs.
func fromBigNs(base time.Time, s string) (time.Time, bool) {
	d, ok := new(big.Int).SetString(s, 10)
	if !ok {
		return time.Time{}, false
	}
	d.Add(d, big.NewInt(int64(base.Nanosecond())))
	sec, nsec := new(big.Int).DivMod(d, big.NewInt(1000000000), new(big.Int))
	if !sec.IsInt64() {
		return time.Time{}, false
	}
	return time.Unix(base.Unix()+sec.Int64(), nsec.Int64()).UTC(), true
}

// bigNs is t - base in nanoseconds as an unbounded decimal (Time.Sub saturates at ±292 years).
func bigNs(base, t time.Time) string {
	d := new(big.Int).Mul(big.NewInt(t.Unix()-base.Unix()), big.NewInt(1000000000))
	d.Add(d, big.NewInt(int64(t.Nanosecond()-base.Nanosecond())))
	return d.String()
}

func NewWorld() *World {
	base := baseTime
	w := &World{base: base, clk: NewVClock(base), live: map[int]*item{}, lastProc: "none", hookHits: map[string]int{}}
	w.lastLoopHook.Store("")
	w.beforeLast.Store("")
	w.clk.OnAdvance = func(now time.Time) { w.add(Ev{Kind: "adv", Now: ns(base, now)}) }
	w.clk.OnNewTimer = func(d time.Duration, now time.Time) {
		w.add(Ev{Kind: "newtimer", At: d.Nanoseconds(), Now: ns(base, now)})
	}
	w.p = queue.NewProcessor[int, *item](w.callback).WithClock(w.clk)
	verifhook.Set(w.hook)
	return w
}

func (w *World) add(e Ev) {
	w.mu.Lock()
	w.evs = append(w.evs, e)
	w.mu.Unlock()
}

func (w *World) callback(r *item) {
	w.inCb.Add(1)
	w.clk.WithLock(func(now time.Time) {
		w.add(Ev{Kind: "exec", ID: r.id, Key: r.key, AtT: r.at, Now: ns(w.base, now)})
	})
	w.setLoopHook("cb")
	w.maybePark("cb", []any{r})
	w.perturb()
	if r.key < 4 {
		w.yieldMu.Lock()
		x := -1
		if w.reenter != nil {
			x = w.reenter.Intn(6)
		}
		w.yieldMu.Unlock()
		switch x {
		case 0, 1: // follow-up item, due 1 ms from now
			w.p.Enqueue(&item{key: r.key + 4, at: w.clk.Now().Add(time.Millisecond), id: -1})
		case 2: // follow-up item that is already due
			w.p.Enqueue(&item{key: r.key + 4, at: w.clk.Now(), id: -1})
		case 3:
			w.p.Dequeue((r.key + 1) % 4)
		}
	}
	w.add(Ev{Kind: "ret", ID: r.id})
	w.setLoopHook("cbret")
	w.inCb.Add(-1)
}

func (w *World) setLoopHook(name string) {
	w.beforeLast.Store(w.lastLoopHook.Load())
	w.lastLoopHook.Store(name)
}

func (w *World) perturb() {
	w.yieldMu.Lock()
	if w.yield == nil {
		w.yieldMu.Unlock()
		return
	}
	x := w.yield.Intn(16)
	w.yieldMu.Unlock()
	switch {
	case x < 4:
		runtime.Gosched()
	case x == 4:
		time.Sleep(20 * time.Microsecond)
	}
}

func (w *World) maybePark(name string, args []any) {
	req := w.park.Load()
	if req == nil || req.name != name {
		req = w.park2.Load()
	}
	if req == nil || req.name != name {
		return
	}
	if req.match != nil && !req.match(args) {
		return
	}
	if !req.used.CompareAndSwap(false, true) {
		return
	}
	switch name {
	case "loop.reset", "loop.beforeArm", "loop.beforeTimer", "loop.parked", "loop.fired", "loop.exit", "loop.sawEmpty", "cb":
		// A lock-free step of the loop can see a reset/token that an Enqueue/Dequeue body has just sent
		// before that body has logged its event (it does so at the end of its critical section). The
		// loop holds no lock here, so the call returns promptly: wait for it, so that the park is
		// logged after the event that caused it.
		deadline := time.Now().Add(time.Second)
		for (w.api.Load() > 0 || w.inBody.Load()) && time.Now().Before(deadline) {
			runtime.Gosched()
		}
	}
	e := Ev{Kind: "park", P: name, None: true}
	if len(args) > 0 {
		if it, ok := args[0].(*item); ok && it != nil {
			e.ID, e.None = it.id, false
		}
	}
	w.add(e)
	w.heldN.Add(1)
	w.held.Store(true)
	close(req.parked)
	<-req.release
	if w.heldN.Add(-1) == 0 {
		w.held.Store(false)
	}
	w.add(Ev{Kind: "unpark"})
	if req.counted.Load() {
		w.releasing.Add(-1)
	}
}

// releasePark lets a parked goroutine go on. Until that goroutine has actually resumed and logged
// its `unpark`, the world is not stable: without this a loaded machine could log `quiet` between
// the release and the resumption, with the loop still waiting for a lock the released goroutine
// holds (a harness artefact, seen once on a fresh restore).
func (w *World) releasePark(req *parkReq) {
	select {
	case <-req.parked:
		req.counted.Store(true)
		w.releasing.Add(1)
	default:
	}
	close(req.release)
}

// hook is the verifhook callback: it records the lock-ordered events, tracks where the loop
// goroutine is, and parks goroutines for forced schedules.
func (w *World) hook(name string, args ...any) {
	w.mu.Lock()
	w.hookHits[name]++
	w.mu.Unlock()
	switch name {
	case "queue.process.tokenTaken":
		w.inBody.Store(true)
		w.lastProc = "spawn"
		w.loopsStarted.Add(1)
		w.setLoopHook("spawned")
	case "queue.process.resetSent":
		w.inBody.Store(true)
		w.lastProc = "reset"
		w.resetPending.Store(true)
	case "queue.enqueue.locked":
		r := args[0].(*item)
		r.id = w.nextID
		w.nextID++
		w.add(Ev{Kind: "enq", Key: r.key, AtT: r.at, ID: r.id, First: args[1].(bool), Out: w.lastProc})
		w.lastProc = "none"
		w.inBody.Store(false)
	case "queue.dequeue.locked":
		// the hook passes values only (key, ok, peek): "the removed item was the head" is computed here,
		// so that no user code (Key()) is evaluated in the hook's arguments when the build tag is off
		first := false
		if ok := args[1].(bool); ok {
			if pk, _ := args[2].(*item); pk != nil {
				first = pk.Key() == args[0].(int)
			}
		}
		w.add(Ev{Kind: "deq", Key: args[0].(int), First: first, Out: w.lastProc})
		w.lastProc = "none"
		w.inBody.Store(false)
	case "queue.close.afterCAS":
		w.closeCalled.Store(true)
		w.add(Ev{Kind: "closecall"})
	case "queue.close.stopClosed":
		w.stopClosed.Store(true)
	case "queue.close.tokenTaken":
	case "queue.loop.peeked":
		w.setLoopHook("peeked")
		if ok := args[1].(bool); ok {
			w.add(Ev{Kind: "peeked", ID: args[0].(*item).id})
		} else {
			w.add(Ev{Kind: "peeked", None: true})
			args = []any{nil, false}
		}
	case "queue.execute.popped":
		w.setLoopHook("popped")
		w.add(Ev{Kind: "popped", ID: args[0].(*item).id})
	case "queue.execute.stale":
		w.setLoopHook("stale")
		w.add(Ev{Kind: "stale", ID: args[0].(*item).id})
	case "queue.loop.reset":
		w.resetPending.Store(false)
		w.setLoopHook("reset")
	case "queue.loop.beforeArm":
		// the loop is about to read the clock: remember the clock value (for the monitor only)
		w.clk.WithLock(func(now time.Time) { w.add(Ev{Kind: "beforearm", Now: ns(w.base, now)}) })
		w.setLoopHook("beforeArm")
	case "queue.loop.beforeTimer", "queue.loop.exit":
		w.setLoopHook(name[len("queue.loop."):])
	case "queue.loop.fired":
		w.setLoopHook("fired")
	case "queue.loop.parked":
		w.setLoopHook("parked")
	case "queue.loop.released":
		w.loopsReleased.Add(1)
	case "queue.loop.sawEmpty":
		// after the fix this runs after the token was released: the goroutine is no longer "the loop"
	}
	short := name
	if len(name) > 6 {
		short = name[6:] // drop "queue."
	}
	w.maybePark(short, args)
	w.perturb()
}

// loopGoroutines inspects the Go runtime: how many goroutines are executing processLoop, and are
// all of them blocked (in the loop's select, or held by the harness at a hook / behind a held lock)?
// A goroutine that a channel operation has made ready is reported as runnable, so "blocked" is
// exact at the instant of the snapshot. This needs neither hooks nor the model.
func loopGoroutines(held bool) (n int, allBlocked bool) {
	buf := make([]byte, 1<<16)
	for {
		m := runtime.Stack(buf, true)
		if m < len(buf) {
			buf = buf[:m]
			break
		}
		buf = make([]byte, 2*len(buf))
	}
	allBlocked = true
	for _, g := range strings.Split(string(buf), "\n\n") {
		if !strings.Contains(g, ").processLoop(") && !strings.Contains(g, ").process.func") {
			continue
		}
		n++
		state := ""
		if i := strings.IndexByte(g, '['); i >= 0 {
			if j := strings.IndexAny(g[i:], ",]"); j > 0 {
				state = g[i+1 : i+j]
			}
		}
		switch {
		case state == "select" && !strings.Contains(g, "verifhook"):
		case held && (state == "chan receive" || state == "sync.Mutex.Lock" || state == "select"):
		default:
			allBlocked = false
		}
	}
	return n, allBlocked
}

// stable reports whether nothing will move without a new external action.
func (w *World) stable() bool {
	if w.releasing.Load() > 0 {
		return false
	}
	if !w.held.Load() && w.api.Load() > 0 {
		return false // an Enqueue/Dequeue call is still running and nothing holds it
	}
	_, blocked := loopGoroutines(w.held.Load())
	return blocked
}

// settle waits until the world is stable (twice in a row, to let a just-returned API call's
// goroutine start). false = it never settled (reported as a hang).
func (w *World) settle(timeout time.Duration) bool {
	deadline := time.Now().Add(timeout)
	ok := 0
	for {
		if w.stable() {
			ok++
			if ok >= 2 {
				return true
			}
		} else {
			ok = 0
		}
		if time.Now().After(deadline) {
			return false
		}
		runtime.Gosched()
	}
}

func (w *World) armPark(name string, match func(args []any) bool) *parkReq {
	req := &parkReq{name: name, match: match, parked: make(chan struct{}), release: make(chan struct{})}
	w.park.Store(req)
	return req
}

func (w *World) enqueue(key int, atNs int64) {
	w.api.Add(1)
	defer w.api.Add(-1)
	w.p.Enqueue(&item{key: key, at: w.base.Add(time.Duration(atNs)), id: -1})
}

func (w *World) dequeue(key int) {
	w.api.Add(1)
	defer w.api.Add(-1)
	w.p.Dequeue(key)
}

func (w *World) advance(toNs int64) { w.clk.Advance(w.base.Add(time.Duration(toNs))) }

func (w *World) events() []Ev {
	w.mu.Lock()
	defer w.mu.Unlock()
	return append([]Ev(nil), w.evs...)
}

func (w *World) loopsAlive() int {
	n, _ := loopGoroutines(w.held.Load())
	return n
}

// runWithDeadline runs f in a goroutine; returns false if it has not returned within d.
func runWithDeadline(f func(), d time.Duration) (done chan struct{}, finished bool) {
	done = make(chan struct{})
	go func() {
		defer close(done)
		defer func() { recover() }()
		f()
	}()
	select {
	case <-done:
		return done, true
	case <-time.After(d):
		return done, false
	}
}
