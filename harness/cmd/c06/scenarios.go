package main

import (
	"fmt"
	"runtime"
	"strings"
	"sync"
	"time"

	"verifharness/lib"
)

const ms = int64(1000000)

// Case is what a replay file stores.
type Case struct {
	Kind    string   `json:"kind"`            // forced | random | close2
	Point   string   `json:"point,omitempty"` // forced: hook point at which a goroutine is parked
	Op      string   `json:"op,omitempty"`    // forced: operation run while it is parked
	Op2     string   `json:"op2,omitempty"`   // forced: second operation run while it is parked
	Seed    uint64   `json:"seed,omitempty"`  // random
	Workers int      `json:"workers,omitempty"`
	Ops     int      `json:"ops,omitempty"`
	Close   bool     `json:"close,omitempty"`
	Reenter bool     `json:"reenter,omitempty"`
	HeapOps []string `json:"ops,omitempty"`     // kind "heap": operations on the queue alone
	TD      []string `json:"td,omitempty"`      // kind "timedomain": a, c, b<i>, deqb<i>, adv10, adv20
	Extreme bool     `json:"extreme,omitempty"` // random: some scheduled times are corners of the time domain
}

func (c Case) String() string {
	if c.Kind == "forced" {
		if c.Op2 != "" {
			return "forced:" + c.Point + "×" + c.Op + "×" + c.Op2
		}
		return "forced:" + c.Point + "×" + c.Op
	}
	if c.Kind == "close2" {
		return "close2"
	}
	if c.Kind == "timedomain" {
		return "timedomain:" + strings.Join(c.TD, ",")
	}
	return fmt.Sprintf("random:seed=%d,w=%d,n=%d,close=%v,reenter=%v", c.Seed, c.Workers, c.Ops, c.Close, c.Reenter)
}

// Points at which a goroutine is parked. Except for the two "empty" points the queue holds
// a = key 1 @ 10 ms (the head the loop is working on) and c = key 3 @ 20 ms.
var Points = []string{
	"loop.peeked", "loop.beforeArm", "loop.beforeTimer", "loop.parked", "loop.reset", "loop.fired", "loop.firedNow",
	"execute.popped", "cb", "loop.peekedNone", "loop.sawEmpty", "process.resetSent", "process.tokenTaken",
}

var Ops = []string{
	"enqNewHead", "enqNonHead", "enqLast", "enqDue", "enqTie", "replHeadEarlier", "replHeadLater", "replHeadLaterStillHead", "replHeadSame",
	"replNonHeadToHead", "replNonHead", "deqHead", "deqNonHead", "deqAbsent", "close", "advHead", "advAll", "advNone",
}

func (w *World) doOp(op string) {
	switch op {
	case "enqNewHead":
		w.enqueue(2, 5*ms)
	case "enqNonHead":
		w.enqueue(2, 15*ms)
	case "enqLast":
		w.enqueue(2, 30*ms)
	case "enqDue":
		w.enqueue(2, 0)
	case "enqTie":
		w.enqueue(2, 10*ms)
	case "replHeadEarlier":
		w.enqueue(1, 5*ms)
	case "replHeadLaterStillHead": // same key, later time, but still earlier than everything else
		w.enqueue(1, 15*ms)
	case "replHeadLater":
		w.enqueue(1, 30*ms)
	case "replHeadSame":
		w.enqueue(1, 10*ms)
	case "replNonHeadToHead":
		w.enqueue(3, 5*ms)
	case "replNonHead":
		w.enqueue(3, 25*ms)
	case "deqHead":
		w.dequeue(1)
	case "deqNonHead":
		w.dequeue(3)
	case "deqAbsent":
		w.dequeue(9)
	case "close":
		w.closeAndLog()
	case "advHead":
		w.advance(10 * ms)
	case "advAll":
		w.advance(30 * ms)
	case "advNone":
		w.advance(1 * ms)
	default:
		panic("unknown op " + op)
	}
}

// closeAndLog calls Close and logs its return: "closeret" for the call that performed the CAS,
// "closeret2" for a later call.
func (w *World) closeAndLog() {
	later := w.closeCalled.Load()
	w.p.Close()
	if later {
		w.add(Ev{Kind: "closeret2"})
	} else {
		w.add(Ev{Kind: "closeret"})
	}
}

func keyIs(k int) func([]any) bool {
	return func(a []any) bool {
		if len(a) == 0 {
			return false
		}
		it, ok := a[0].(*item)
		return ok && it != nil && it.key == k
	}
}

const settleTimeout = 3 * time.Second

func (w *World) quiet() {
	w.add(Ev{Kind: "quiet", ID: w.loopsAlive(), Now: ns(w.base, w.clk.Now()), P: w.lastLoopHook.Load().(string)})
}

func (w *World) settleOr(what string) bool {
	if !w.settle(settleTimeout) {
		w.add(Ev{Kind: "hang", P: what})
		return false
	}
	return true
}

// reach drives the processor to the park point and returns once a goroutine is parked there.
func (w *World) reach(point string) (*parkReq, bool) {
	var req *parkReq
	var trigger func()
	switch point {
	case "loop.peeked", "loop.beforeArm", "loop.beforeTimer", "loop.parked":
		w.enqueue(3, 20*ms)
		w.settleOr("prefix")
		req = w.armPark(point, keyIs(1))
		trigger = func() { w.enqueue(1, 10*ms) }
	case "loop.reset":
		w.enqueue(3, 20*ms)
		w.settleOr("prefix")
		req = w.armPark(point, nil)
		trigger = func() { w.enqueue(1, 10*ms) }
	case "process.resetSent":
		w.enqueue(3, 20*ms)
		w.settleOr("prefix")
		req = w.armPark(point, nil)
		trigger = func() { w.enqueue(1, 10*ms) }
	case "process.tokenTaken":
		req = w.armPark(point, nil)
		trigger = func() { w.enqueue(1, 10*ms) }
	case "loop.fired", "execute.popped", "cb":
		w.enqueue(3, 20*ms)
		w.enqueue(1, 10*ms)
		w.settleOr("prefix")
		req = w.armPark(point, keyIs(1))
		trigger = func() { w.advance(10 * ms) }
	case "loop.firedNow":
		w.enqueue(3, 20*ms)
		w.settleOr("prefix")
		w.advance(10 * ms)
		req = w.armPark("loop.fired", func(a []any) bool { return keyIs(1)(a) && !a[1].(bool) })
		trigger = func() { w.enqueue(1, 10*ms) }
	case "loop.peekedNone":
		w.enqueue(1, 10*ms)
		w.settleOr("prefix")
		req = w.armPark("loop.peeked", func(a []any) bool { return !a[1].(bool) })
		trigger = func() { w.dequeue(1) }
	case "loop.sawEmpty":
		w.enqueue(1, 10*ms)
		w.settleOr("prefix")
		req = w.armPark(point, nil)
		trigger = func() { w.dequeue(1) }
	default:
		panic("unknown point " + point)
	}
	go func() {
		defer func() { recover() }()
		trigger()
	}()
	select {
	case <-req.parked:
		return req, true
	case <-time.After(settleTimeout):
		w.add(Ev{Kind: "hang", P: "reach-" + point})
		return req, false
	}
}

// runCase executes one case against a fresh Processor and returns the observed events.
func runCase(c Case) []Ev {
	w := NewWorld()
	defer func() {
		// never leave goroutines parked
		if r := w.park.Load(); r != nil && r.used.CompareAndSwap(false, true) {
			// not reached: nothing to release
		}
	}()
	switch c.Kind {
	case "forced":
		w.runForced(c)
	case "random":
		w.runRandom(c)
	case "close2":
		w.runClose2()
	case "timedomain":
		w.runTimeDomain(c)
	}
	w.finish()
	return w.events()
}

func holdsLock(point string) bool {
	switch point {
	case "loop.peeked", "loop.peekedNone", "execute.popped", "process.resetSent", "process.tokenTaken":
		return true
	}
	return false
}

func (w *World) runForced(c Case) {
	req, ok := w.reach(c.Point)
	if !ok {
		w.releasePark(req)
		return
	}
	blocks := func(op string) bool { return op == "close" || (holdsLock(c.Point) && op[0] != 'a') }
	mayBlock := blocks(c.Op) || (c.Op2 != "" && blocks(c.Op2))
	wait := settleTimeout
	if mayBlock {
		wait = 4 * time.Millisecond
	}
	var pv any
	done := make(chan struct{})
	go func() {
		defer close(done)
		defer func() { pv = recover() }()
		w.doOp(c.Op)
		if c.Op2 != "" {
			w.doOp(c.Op2)
		}
	}()
	select {
	case <-done:
	case <-time.After(wait):
		if !mayBlock {
			w.add(Ev{Kind: "hang", P: "op-" + c.Op})
		}
	}
	w.releasePark(req)
	select {
	case <-done:
		if pv != nil {
			w.add(Ev{Kind: "panic", P: fmt.Sprint(pv)})
		}
	case <-time.After(settleTimeout):
		w.add(Ev{Kind: "hang", P: "op-" + c.Op})
	}
}

// runClose2: two concurrent Close calls and an Enqueue that passed the stopped check before the
// first of them. G1 = Enqueue(due item) held between its stopped check and the lock; G2 = Close
// held right after its CompareAndSwap; then a second Close is called. Whatever that second Close
// does, once it has returned no callback may start.
func (w *World) runClose2() {
	wait := func(ch chan struct{}, what string) bool {
		select {
		case <-ch:
			return true
		case <-time.After(settleTimeout):
			w.add(Ev{Kind: "hang", P: what})
			return false
		}
	}
	r1 := &parkReq{name: "enqueue.afterStoppedCheck", parked: make(chan struct{}), release: make(chan struct{})}
	w.park.Store(r1)
	g1 := make(chan struct{})
	go func() { defer close(g1); defer func() { recover() }(); w.enqueue(1, 0) }()
	if !wait(r1.parked, "reach-enqueue.afterStoppedCheck") {
		w.releasePark(r1)
		return
	}
	r2 := &parkReq{name: "close.afterCAS", parked: make(chan struct{}), release: make(chan struct{})}
	w.park2.Store(r2)
	g2 := make(chan struct{})
	go func() {
		defer close(g2)
		defer func() { recover() }()
		w.p.Close()
		w.add(Ev{Kind: "closeret"})
	}()
	if !wait(r2.parked, "reach-close.afterCAS") {
		w.releasePark(r1)
		w.releasePark(r2)
		return
	}
	g3 := make(chan struct{})
	go func() {
		defer close(g3)
		defer func() { recover() }()
		w.p.Close()
		w.add(Ev{Kind: "closeret2"})
	}()
	select {
	case <-g3:
	case <-time.After(4 * time.Millisecond): // it (rightly) waits for the first Close
	}
	w.releasePark(r1)
	wait(g1, "enqueue")
	w.settle(50 * time.Millisecond)
	w.releasePark(r2)
	wait(g2, "close")
	wait(g3, "close2")
}

// timeDomainCases: ordinary items a (key 1 @ 10 ms) and c (key 3 @ 20 ms) mixed with an item b<i> (key
// 10+i) scheduled at the i-th corner of the time domain, enqueued before, between and after them; all
// corners together. Expected of ANY correct implementation: far-past items run at once, a and c run at
// 10 and 20 ms whatever is queued behind them, far-future items just stay queued.
func timeDomainCases() []Case {
	var cs []Case
	for i := range boundaryTimes {
		b := fmt.Sprintf("b%d", i)
		cs = append(cs,
			Case{Kind: "timedomain", TD: []string{b}},
			Case{Kind: "timedomain", TD: []string{b, "a", "c"}},
			Case{Kind: "timedomain", TD: []string{"a", b, "c"}},
			Case{Kind: "timedomain", TD: []string{"a", "c", b}},
			Case{Kind: "timedomain", TD: []string{b, "a", "deq" + b, "c"}},
			Case{Kind: "timedomain", TD: []string{"a", b, "adv10", "c", "adv20"}},
		)
	}
	var all, rev []string
	for i := range boundaryTimes {
		all = append(all, fmt.Sprintf("b%d", i))
		rev = append([]string{fmt.Sprintf("b%d", i)}, rev...)
	}
	cs = append(cs,
		Case{Kind: "timedomain", TD: append(append([]string{}, all...), "a", "c")},
		Case{Kind: "timedomain", TD: append([]string{"a", "c"}, rev...)},
		Case{Kind: "timedomain", TD: append(append([]string{"a"}, all...), "c")},
	)
	return cs
}

func (w *World) runTimeDomain(c Case) {
	for _, op := range c.TD {
		switch {
		case op == "a":
			w.enqueue(1, 10*ms)
		case op == "c":
			w.enqueue(3, 20*ms)
		case op == "adv10":
			w.advance(10 * ms)
		case op == "adv20":
			w.advance(20 * ms)
		case strings.HasPrefix(op, "deqb"):
			var i int
			fmt.Sscanf(op, "deqb%d", &i)
			w.dequeue(10 + i)
		case strings.HasPrefix(op, "b"):
			var i int
			fmt.Sscanf(op, "b%d", &i)
			w.api.Add(1)
			w.p.Enqueue(&item{key: 10 + i, at: boundaryTimes[i%len(boundaryTimes)], id: -1})
			w.api.Add(-1)
		default:
			panic("unknown timedomain op " + op)
		}
		if !w.settleOr("timedomain-" + op) {
			return
		}
		w.quiet()
	}
}

type rop struct {
	kind string // enq deq adv yield close
	key  int
	off  int64 // enq: offset from the clock at execution time; adv: increment
	bi   int   // enq: index+1 of a corner of the time domain to use instead (0 = none)
}

var enqOffsets = []int64{-1 * ms, 0, 300000, 600000, 1 * ms, 2 * ms, 2 * ms, 5 * ms, 9 * ms}
var advSteps = []int64{200000, 500000, 1 * ms, 1 * ms, 3 * ms, 7 * ms}

func genOps(r *lib.Rand, n int, withClose, extreme bool) []rop {
	ops := make([]rop, 0, n+1)
	closeAt := -1
	if withClose {
		closeAt = r.Intn(n + 1)
	}
	for i := 0; i < n; i++ {
		if i == closeAt {
			ops = append(ops, rop{kind: "close"})
		}
		switch x := r.Intn(10); {
		case x < 5:
			o := rop{kind: "enq", key: r.Intn(4), off: enqOffsets[r.Intn(len(enqOffsets))]}
			if extreme && r.Intn(5) == 0 {
				o.bi = 1 + r.Intn(len(boundaryTimes))
			}
			ops = append(ops, o)
		case x < 7:
			ops = append(ops, rop{kind: "deq", key: r.Intn(4)})
		case x < 9:
			ops = append(ops, rop{kind: "adv", off: advSteps[r.Intn(len(advSteps))]})
		default:
			ops = append(ops, rop{kind: "yield"})
		}
	}
	if closeAt == n {
		ops = append(ops, rop{kind: "close"})
	}
	return ops
}

func (w *World) runRandom(c Case) {
	r := lib.NewRand(c.Seed)
	w.yield = r.Fork()
	if c.Reenter {
		w.reenter = r.Fork()
	}
	lists := make([][]rop, c.Workers)
	for i := range lists {
		lists[i] = genOps(r.Fork(), c.Ops, c.Close && i == 0, c.Extreme)
	}
	var wg sync.WaitGroup
	var advMu sync.Mutex // clock increments are relative: serialise read-modify-write
	for i := range lists {
		wg.Add(1)
		go func(ops []rop) {
			defer wg.Done()
			defer func() {
				if p := recover(); p != nil {
					w.add(Ev{Kind: "panic", P: fmt.Sprint(p)})
				}
			}()
			for _, o := range ops {
				switch o.kind {
				case "enq":
					at := w.clk.Now().Add(time.Duration(o.off))
					if o.bi > 0 {
						at = boundaryTimes[o.bi-1]
					}
					w.p.Enqueue(&item{key: o.key, at: at, id: -1})
				case "deq":
					w.p.Dequeue(o.key)
				case "adv":
					advMu.Lock()
					w.clk.Advance(w.clk.Now().Add(time.Duration(o.off)))
					advMu.Unlock()
				case "yield":
					runtime.Gosched()
				case "close":
					w.closeAndLog()
				}
			}
		}(lists[i])
	}
	done := make(chan struct{})
	go func() { wg.Wait(); close(done) }()
	select {
	case <-done:
	case <-time.After(settleTimeout):
		w.add(Ev{Kind: "hang", P: "workers"})
	}
}

// nextLiveTime: the earliest scheduled time after the current clock value among the items that the
// lock-ordered events say are still queued.
func (w *World) nextLiveTime() (int64, bool) {
	now := ns(w.base, w.clk.Now())
	live := map[int]int{} // key -> id
	byID := map[int]Ev{}
	for _, e := range w.events() {
		switch e.Kind {
		case "enq":
			live[e.Key] = e.ID
			byID[e.ID] = e
		case "deq":
			delete(live, e.Key)
		case "popped":
			if it, ok := byID[e.ID]; ok && live[it.Key] == e.ID {
				delete(live, it.Key)
			}
		}
	}
	best, ok := int64(0), false
	for _, id := range live {
		t := byID[id].AtT
		// only items within an hour of the clock: a far-future item is not waited for
		if t.After(w.clk.Now()) && t.Before(w.clk.Now().Add(time.Hour)) {
			at := ns(w.base, t)
			if at > now && (!ok || at < best) {
				best, ok = at, true
			}
		}
	}
	return best, ok
}

// finish: quiescence check, drain (clock far ahead), quiescence check, Close, final check.
func (w *World) finish() {
	w.yieldMu.Lock()
	w.yield = nil
	w.reenter = nil
	w.yieldMu.Unlock()
	if w.settleOr("after-ops") {
		w.quiet()
	}
	// "on time": step the clock to the scheduled time of every item that is still live, one at a
	// time, and look at the quiescent state each time (an item that is served late shows up here)
	for i := 0; i < 12; i++ {
		next, ok := w.nextLiveTime()
		if !ok {
			break
		}
		w.clk.Advance(w.base.Add(time.Duration(next)))
		if !w.settleOr("step-drain") {
			break
		}
		w.quiet()
	}
	w.clk.Advance(w.clk.Now().Add(time.Second))
	if w.settleOr("drain") {
		w.quiet()
	}
	first := !w.closeCalled.Load()
	_, fin := runWithDeadline(func() { w.p.Close() }, settleTimeout)
	if !fin {
		w.add(Ev{Kind: "hang", P: "close"})
		return
	}
	if first {
		w.add(Ev{Kind: "closeret"})
	}
	// anything the processor still does now is after Close returned
	w.clk.Advance(w.clk.Now().Add(time.Second))
	w.enqueue(7, 0)
	for i := 0; i < 20; i++ {
		runtime.Gosched()
	}
	time.Sleep(200 * time.Microsecond)
}
