package main

import (
	"fmt"
	"time"
)

// Problem is a monitor verdict: FindingID is the class of failure.
type Problem struct {
	FindingID string
	What      string
}

const halfMsNs = 500000

// monitor decides, from the observed events alone (no model), whether the execution violates C06.
// Events raised under p.lock (enq, deq, peeked, popped, stale) are exactly ordered, so the set of
// live items at every pop is known exactly.
//
// The second result lists ACCEPTED behaviours that are worth counting (not violations): the property
// bounds earliness and demands service, it gives no upper bound on lateness, and a timer armed after
// the clock was read is late by whatever the clock did in between.
func monitor(evs []Ev) ([]Problem, []string) {
	base := baseTime
	clk := func(n int64) time.Time { return base.Add(time.Duration(n)) }
	var accepted []string
	type info struct {
		key int
		at  time.Time // compared with time.Time.Before/After only: any scheduled time is legal
	}
	var out []Problem
	add := func(id, format string, a ...any) { out = append(out, Problem{id, fmt.Sprintf(format, a...)}) }
	items := map[int]info{}
	live := map[int]int{} // key -> id
	lastEnqOut := map[int]string{}
	peekedAfter := map[int]bool{} // id -> a peek happened after it was enqueued
	popped := map[int]int{}
	executed := map[int]int{}
	running := 0
	lastPeeked := -1
	lastBeforeArm := int64(0)
	var tmr struct {
		dur, created, window int64 // window: clock value when the loop was about to read the clock
		forID                int
		ok                   bool
	}
	closeCalled, closeRet, closeRet2 := false, false, false
	afterClose := func() string {
		if closeRet2 && !closeRet {
			return "callback-after-second-close-returned"
		}
		return "callback-after-close"
	}
	for i, e := range evs {
		switch e.Kind {
		case "enq":
			items[e.ID] = info{e.Key, e.AtT}
			live[e.Key] = e.ID
			lastEnqOut[e.ID] = e.Out
		case "deq":
			delete(live, e.Key)
		case "beforearm":
			lastBeforeArm = e.Now
		case "newtimer":
			tmr.dur, tmr.created, tmr.window, tmr.forID, tmr.ok = e.At, e.Now, lastBeforeArm, lastPeeked, lastPeeked >= 0
		case "peeked":
			if !e.None {
				lastPeeked = e.ID
			}
			for _, id := range live {
				peekedAfter[id] = true
			}
		case "popped":
			it, ok := items[e.ID]
			if !ok {
				add("popped-unknown-item", "event %d: popped id=%d that was never enqueued", i, e.ID)
				continue
			}
			if cur, ok := live[it.key]; !ok || cur != e.ID {
				add("dequeued-or-replaced-item-ran", "event %d: id=%d (key %d) was popped although it had been dequeued or replaced", i, e.ID, it.key)
			}
			for _, oid := range live {
				if items[oid].at.Before(it.at) {
					add("out-of-order", "event %d: id=%d (at %s) popped while id=%d (at %s) was live", i, e.ID, it.at.UTC(), oid, items[oid].at.UTC())
				}
			}
			if cur, ok := live[it.key]; ok && cur == e.ID {
				delete(live, it.key)
			}
			popped[e.ID]++
			if popped[e.ID] > 1 {
				add("executed-twice", "event %d: id=%d popped twice", i, e.ID)
			}
			if closeRet || closeRet2 {
				add(afterClose(), "event %d: id=%d popped after Close returned", i, e.ID)
			}
		case "exec":
			it := items[e.ID]
			if popped[e.ID] == 0 {
				add("exec-without-pop", "event %d: callback for id=%d that was not popped", i, e.ID)
			}
			executed[e.ID]++
			if executed[e.ID] > 1 {
				add("executed-twice", "event %d: callback for id=%d ran twice", i, e.ID)
			}
			if clk(e.Now).Before(it.at.Add(-halfMsNs)) {
				add("executed-early", "event %d: id=%d scheduled at %s ran at clock %s", i, e.ID, it.at.UTC(), clk(e.Now))
			}
			if closeRet || closeRet2 {
				add(afterClose(), "event %d: callback for id=%d started after a call to Close returned", i, e.ID)
			}
			running++
		case "ret":
			running--
		case "closecall":
			closeCalled = true
		case "closeret":
			closeRet = true
			if running > 0 {
				add("close-during-callback", "event %d: Close returned while a callback was running", i)
			}
		case "closeret2":
			closeRet2 = true
			if running > 0 {
				add("close-during-callback", "event %d: a second Close returned while a callback was running", i)
			}
		case "quiet":
			// e.ID = number of live loop goroutines, e.Now = clock
			if closeCalled {
				continue
			}
			if len(live) > 0 && e.ID == 0 {
				id := "stranded-item"
				for _, lid := range live {
					if lastEnqOut[lid] != "spawn" && !peekedAfter[lid] {
						id = "enqueue-after-saw-empty"
					}
				}
				add(id, "event %d: at quiescence %d item(s) are queued, no loop goroutine holds the running token and the processor is not closed (the loop last passed %q)", i, len(live), e.P)
				continue
			}
			for _, lid := range live {
				if !items[lid].at.After(clk(e.Now)) && e.ID > 0 && e.P == "parked" && tmr.ok {
					// The loop is parked on a timer. If the clock advanced between the loop's Now() and its
					// NewTimer() (lag > 0, observed directly: duration and creation time of the timer), the
					// timer is late by exactly that much; the item is then served at the timer, not before.
					// The lateness of the timer must not exceed the clock advance the harness itself observed
					// between the hook just before the loop's Now() and the creation of the timer.
					r := items[tmr.forID]
					lag := clk(tmr.created).Add(time.Duration(tmr.dur)).Sub(r.at).Nanoseconds()
					if lag > 0 && lag <= tmr.created-tmr.window && clk(tmr.created).Add(time.Duration(tmr.dur)).After(clk(e.Now)) && !r.at.After(items[lid].at) {
						accepted = append(accepted, "late-by-clock-advance-in-arm-window")
						continue
					}
				}
				if !items[lid].at.After(clk(e.Now)) {
					add("due-item-not-served", "event %d: at quiescence id=%d (at %s) is due at clock %s but was not executed", i, lid, items[lid].at.UTC(), clk(e.Now))
				}
			}
		case "hang":
			add("hang-"+e.P, "event %d: %s did not finish", i, e.P)
		case "panic":
			add("panic", "event %d: %s", i, e.P)
		}
	}
	for id, n := range popped {
		if n > 0 && executed[id] == 0 {
			add("popped-not-executed", "id=%d was popped but its callback never started", id)
		}
	}
	return out, accepted
}
