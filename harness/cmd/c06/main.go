// Harness for property C06 (events/queue Processor): forced schedules at the loop's hook points,
// random multi-goroutine histories under a deterministic clock, a model-independent monitor,
// and trace inclusion of every observed execution in the Lean model (kitdrv C06).
package main

import (
	"encoding/json"
	"fmt"
	"hash/fnv"
	"os"
	"path/filepath"
	"sort"
	"strings"
	"time"

	"github.com/dapr/kit/verifhook"

	"verifharness/lib"
)

type runner struct {
	res   *lib.Result
	drv   *lib.Drv
	fl    lib.Flags
	hangs int
	abort bool // too many hangs (each costs seconds and leaves goroutines behind): stop generating cases
	until time.Time
}

func (r *runner) stop() bool {
	if !r.abort && time.Now().After(r.until) {
		r.abort = true
		r.res.Note("time budget exhausted: remaining cases skipped")
	}
	return r.abort
}

// traceLines are the lines sent to the model driver for one execution.
func traceLines(evs []Ev) []string {
	lines := []string{"reset fixed=1"}
	if os.Getenv("C06_MODEL_VARIANT") == "orig" { // self-test of the tie: compare against the model of the unrepaired loop
		lines[0] = "reset fixed=0"
	}
	for _, e := range evs {
		if e.Kind == "hang" || e.Kind == "panic" || e.Kind == "beforearm" {
			continue
		}
		if e.Kind == "quiet" {
			lines = append(lines, "quiet")
			continue
		}
		lines = append(lines, e.Line())
	}
	return lines
}

func (r *runner) eval(c Case) []Problem {
	if r.stop() {
		return nil
	}
	evs := runCase(c)
	probs, accepted := monitor(evs)
	for _, a := range accepted {
		r.res.Hit("accepted:" + a)
	}
	for _, e := range evs {
		if e.Kind == "hang" {
			r.hangs++
			if r.hangs >= 4 && !r.abort {
				r.abort = true
				r.res.Note("4 executions hung: remaining cases skipped")
			}
			break
		}
	}
	nontrivial := false
	locked := 0
	var h = fnv.New64a()
	for _, e := range evs {
		r.res.Hit("event:" + e.Kind)
		switch e.Kind {
		case "exec", "park":
			nontrivial = true
		case "enq", "deq":
			r.res.Hit(e.Kind + ":out=" + e.Out)
			if e.First {
				r.res.Hit(e.Kind + ":first")
			}
			locked++
		case "peeked", "popped", "stale":
			locked++
		}
		h.Write([]byte(e.Line()))
		h.Write([]byte{'\n'})
	}
	nontrivial = nontrivial && locked >= 3
	key := c.String()
	if c.Kind == "random" {
		key = fmt.Sprintf("random:%x", h.Sum64())
	}
	r.res.Count(key, nontrivial)
	r.res.Hit("case:" + c.Kind)
	if c.Reenter {
		r.res.Hit("case:random-with-reentrant-callbacks")
	}
	if len(r.res.Samples) < 8 && nontrivial && (r.res.Evaluations%37 == 1 || len(r.res.Samples) < 2) {
		ls := traceLines(evs)
		if len(ls) > 40 {
			ls = ls[:40]
		}
		r.res.Sample(map[string]any{"case": c, "trace": ls})
	}
	for _, p := range probs {
		r.res.Hit("violation:" + p.FindingID)
		r.res.Violate(p.FindingID, p.What, c)
	}
	if r.drv != nil {
		lines := traceLines(evs)
		outs, err := r.drv.AskBatch(lines)
		if err != nil {
			r.res.Disagree("trace-inclusion (driver died)", c, err.Error(), "")
			r.drv = nil
			return probs
		}
		accepted := true
		for i, o := range outs {
			if !strings.HasPrefix(o, "ok") {
				accepted = false
				from := i - 12
				if from < 0 {
					from = 0
				}
				r.res.Disagree("trace inclusion: observable events of the real Processor (lock-ordered enq/deq/peek/pop, callbacks with clock value, parks, Close return, quiescence) must be accepted by the LTS of KitModel/Processor.lean",
					c, o, strings.Join(lines[from:i+1], " | "))
				r.res.Hit("disagreement")
				break
			}
		}
		if accepted {
			r.res.Traces++
		}
	}
	return probs
}

func forcedCases(thorough bool) []Case {
	var cs []Case
	for _, p := range Points {
		for _, o := range Ops {
			cs = append(cs, Case{Kind: "forced", Point: p, Op: o})
		}
	}
	if thorough {
		for _, p := range Points {
			for _, o := range Ops {
				for _, o2 := range Ops {
					cs = append(cs, Case{Kind: "forced", Point: p, Op: o, Op2: o2})
				}
			}
		}
	}
	return cs
}

func main() {
	fl := lib.ParseFlags()
	res := lib.NewResult("non-trivial = the execution contains a callback or a forced park AND at least 3 lock-ordered events (Enqueue/Dequeue bodies, loop peeks/pops), or a queue-operation sequence of >= 3 operations; distinct = by (point, op[, op2]) for forced schedules, by hash of the observed event sequence for random histories and of the operation list for queue sequences. The run is NOT exhaustive as a whole (exhaustive=false): complete enumerations are the forced-schedule matrix (13 points x 18 ops; thorough: all triples), the close2 and time-domain processor scenarios, the queue sequences of length <= 4 over 8 operations, the time-domain triples, and the Remove family for 7 items (8 items: thorough only); the random histories, the random queue sequences and the model comparison of the Remove family are seeded samples")
	defer func() {
		verifhook.Set(nil)
		res.Write(fl.Out)
	}()
	budget := 150 * time.Second
	if fl.Tier == "thorough" {
		budget = 12 * time.Minute
	}
	if fl.Search {
		budget *= 2
	}
	r := &runner{res: res, fl: fl, until: time.Now().Add(budget)}
	drv, err := lib.StartDrv(fl.Drv, "C06")
	if err != nil {
		res.Note("driver did not start: " + err.Error())
	}
	r.drv = drv
	defer drv.Close()
	if drv == nil {
		res.Note("model driver unavailable: monitors only")
	}

	if fl.Replay != "" {
		b, err := os.ReadFile(fl.Replay)
		if err != nil {
			fmt.Fprintln(os.Stderr, "replay:", err)
			os.Exit(3)
		}
		var rp struct {
			Case Case `json:"case"`
		}
		if err := json.Unmarshal(b, &rp); err != nil {
			fmt.Fprintln(os.Stderr, "replay:", err)
			os.Exit(3)
		}
		if rp.Case.Kind == "heap" {
			var ops []hop
			for _, l := range rp.Case.HeapOps {
				var o hop
				f := strings.Fields(l)
				if len(f) == 0 || f[0] == "h.reset" {
					continue
				}
				o.kind = strings.TrimPrefix(f[0], "h.")
				for _, kv := range f[1:] {
					var v int64
					if _, err := fmt.Sscanf(kv, "key=%d", &v); err == nil {
						o.key = int(v)
					}
					if strings.HasPrefix(kv, "at=") {
						if t, ok := fromBigNs(baseTime, kv[3:]); ok {
							o.abs = &t
						}
					}
				}
				ops = append(ops, o)
			}
			r.heapSeq(ops, "replay")
			return
		}
		n := 1
		if rp.Case.Kind == "random" {
			n = 300 // the interleaving of a random history is not fixed by its seed
		}
		for i := 0; i < n; i++ {
			if len(r.eval(rp.Case)) > 0 {
				break
			}
		}
		return
	}

	thorough := fl.Tier == "thorough"
	// 0. corpus: the minimised schedules of past findings run first
	if dir := os.Getenv("VERIF_DIR"); dir != "" {
		files, _ := filepath.Glob(filepath.Join(dir, "corpus", "C06", "*.json"))
		sort.Strings(files)
		for _, f := range files {
			b, err := os.ReadFile(f)
			var c Case
			if err == nil {
				err = json.Unmarshal(b, &c)
			}
			if err != nil {
				res.Note("corpus file unreadable: " + f)
				continue
			}
			r.eval(c)
			res.Hit("case:corpus")
		}
	}
	// 1. forced schedules: every (point, op) pair; thorough: every (point, op, op2) triple
	for _, c := range forcedCases(thorough || fl.Search) {
		r.eval(c)
	}
	r.eval(Case{Kind: "close2"})
	for _, c := range timeDomainCases() {
		r.eval(c)
	}
	res.Exhaustive = false // the run mixes complete enumerations with seeded random families (see rule)
	// 2. random multi-goroutine histories
	n := 400
	if thorough {
		n = 6000
	}
	if fl.Search {
		n *= 5
	}
	rnd := lib.NewRand(fl.Seed)
	for i := 0; i < n; i++ {
		c := Case{Kind: "random", Seed: rnd.U64(), Workers: rnd.Range(1, 4), Ops: rnd.Range(2, 14), Close: rnd.Intn(4) == 0, Reenter: rnd.Intn(3) == 0, Extreme: rnd.Intn(4) == 0}
		r.eval(c)
	}
	// 3. queue.go against the heap layer of the model
	hn := 300
	if thorough {
		hn = 5000
	}
	r.heapDiff(rnd.Fork(), hn)
	res.Note(fmt.Sprintf("forced schedules: %d points x %d ops; random histories: %d", len(Points), len(Ops), n))
}
