package main

import (
	"sync"
	"time"

	kclock "k8s.io/utils/clock"
)

// VClock is a deterministic clock.Clock: time moves only through Advance, and a timer fires
// (into its 1-slot channel) as soon as now >= created + d -- immediately when d <= 0, unlike the
// k8s FakeClock whose timers wait for the next Step.
type VClock struct {
	mu     sync.Mutex
	now    time.Time
	timers []*vtimer

	// OnNewTimer is called with the clock mutex held when a timer is created: its duration and the
	// clock value at creation (so the event is exactly ordered with respect to Advance).
	OnNewTimer func(d time.Duration, now time.Time)

	// OnAdvance is called with the clock mutex held, after now moved and before timers fire.
	OnAdvance func(now time.Time)

	lastDeadline time.Time
	created      int
}

var _ kclock.WithTicker = (*VClock)(nil)

func NewVClock(start time.Time) *VClock { return &VClock{now: start} }

func (c *VClock) Now() time.Time {
	c.mu.Lock()
	defer c.mu.Unlock()
	return c.now
}

func (c *VClock) Since(t time.Time) time.Duration { return c.Now().Sub(t) }

// WithLock runs f atomically with respect to Advance.
func (c *VClock) WithLock(f func(now time.Time)) {
	c.mu.Lock()
	defer c.mu.Unlock()
	f(c.now)
}

func (c *VClock) NewTimer(d time.Duration) kclock.Timer {
	c.mu.Lock()
	defer c.mu.Unlock()
	t := &vtimer{c: c, ch: make(chan time.Time, 1), deadline: c.now.Add(d), armed: true}
	c.lastDeadline = t.deadline
	c.created++
	if c.OnNewTimer != nil {
		c.OnNewTimer(d, c.now)
	}
	if !t.deadline.After(c.now) {
		t.armed = false
		t.ch <- c.now
	} else {
		c.timers = append(c.timers, t)
	}
	return t
}

func (c *VClock) After(d time.Duration) <-chan time.Time { return c.NewTimer(d).C() }
func (c *VClock) Sleep(d time.Duration)                  { <-c.After(d) }

func (c *VClock) Tick(d time.Duration) <-chan time.Time { return c.NewTicker(d).C() }

func (c *VClock) NewTicker(d time.Duration) kclock.Ticker {
	c.mu.Lock()
	defer c.mu.Unlock()
	t := &vtimer{c: c, ch: make(chan time.Time, 1), deadline: c.now.Add(d), armed: true, period: d}
	c.timers = append(c.timers, t)
	return (*vticker)(t)
}

// LastDeadline is the deadline of the most recently created timer and the number created so far.
func (c *VClock) LastDeadline() (time.Time, int) {
	c.mu.Lock()
	defer c.mu.Unlock()
	return c.lastDeadline, c.created
}

// Advance moves the clock to `to` (no-op if not later) and fires every due timer in deadline order.
func (c *VClock) Advance(to time.Time) {
	c.mu.Lock()
	defer c.mu.Unlock()
	if to.Before(c.now) {
		return
	}
	c.now = to
	if c.OnAdvance != nil {
		c.OnAdvance(c.now)
	}
	for {
		var best *vtimer
		bi := -1
		for i, t := range c.timers {
			if t.armed && !t.deadline.After(c.now) && (best == nil || t.deadline.Before(best.deadline)) {
				best, bi = t, i
			}
		}
		if best == nil {
			break
		}
		select {
		case best.ch <- c.now:
		default:
		}
		if best.period > 0 {
			best.deadline = best.deadline.Add(best.period)
			if !best.deadline.After(c.now) {
				best.deadline = c.now.Add(best.period)
			}
		} else {
			best.armed = false
			c.timers = append(c.timers[:bi], c.timers[bi+1:]...)
		}
	}
}

type vtimer struct {
	c        *VClock
	ch       chan time.Time
	deadline time.Time
	armed    bool
	period   time.Duration
}

func (t *vtimer) C() <-chan time.Time { return t.ch }

func (t *vtimer) Stop() bool {
	t.c.mu.Lock()
	defer t.c.mu.Unlock()
	was := t.armed
	t.armed = false
	for i, x := range t.c.timers {
		if x == t {
			t.c.timers = append(t.c.timers[:i], t.c.timers[i+1:]...)
			break
		}
	}
	return was
}

func (t *vtimer) Reset(d time.Duration) bool {
	was := t.Stop()
	t.c.mu.Lock()
	defer t.c.mu.Unlock()
	t.deadline = t.c.now.Add(d)
	if !t.deadline.After(t.c.now) {
		select {
		case t.ch <- t.c.now:
		default:
		}
	} else {
		t.armed = true
		t.c.timers = append(t.c.timers, t)
	}
	return was
}

type vticker vtimer

func (t *vticker) C() <-chan time.Time { return t.ch }
func (t *vticker) Stop()               { (*vtimer)(t).Stop() }
