package main

import (
	"fmt"
	"hash/fnv"
	"math"
	"strings"
	"time"

	"github.com/dapr/kit/events/queue"

	"verifharness/lib"
)

// Differential test of queue.go (the real heap + key index, reached through the overlay file
// events/queue/zz_verif.go) against the heap layer of KitModel/Queue.lean: after every operation
// the heap array (item ids in array order with the index stored in each entry) and the value
// returned by Peek/Pop must be identical, ties included. Independently of the model the harness
// checks that Peek/Pop return a minimal item and that the key index is consistent with the array.

type hop struct {
	kind string // ins pop peek rm
	key  int
	at   int64      // scheduled time: ns from the base clock ...
	abs  *time.Time // ... or, if set, this instant (time-domain boundary family)
}

func (o hop) when(base time.Time) time.Time {
	if o.abs != nil {
		return *o.abs
	}
	return base.Add(time.Duration(o.at))
}

func (o hop) line(id int) string {
	switch o.kind {
	case "ins":
		return fmt.Sprintf("h.ins key=%d at=%s id=%d", o.key, bigNs(baseTime, o.when(baseTime)), id)
	case "rm":
		return fmt.Sprintf("h.rm key=%d", o.key)
	}
	return "h." + o.kind
}

func dumpReal(q *queue.VerifQueue[int, *item]) string {
	if q == nil {
		return ""
	}
	vals, idx := q.Dump()
	parts := make([]string, len(vals))
	for i := range vals {
		parts[i] = fmt.Sprintf("%d:%d", vals[i].id, idx[i])
	}
	return "arr=" + strings.Join(parts, ",")
}

func (r *runner) heapSeq(ops []hop, label string) { r.heapSeqOpt(ops, label, true) }

// heapSeqOpt: withModel=false runs only the model-independent checks (minimal Peek/Pop, consistent index).
func (r *runner) heapSeqOpt(ops []hop, label string, withModel bool) {
	if r.stop() {
		return
	}
	base := baseTime
	q := queue.NewVerifQueue[int, *item]()
	dq := q // what is dumped after every operation (nothing if the model is not consulted)
	if !withModel || r.drv == nil {
		dq = nil
	}
	lines := []string{"h.reset"}
	want := []string{"ok"}
	id := 0
	bad := ""
	done := make(chan struct{})
	go func() {
		defer close(done)
		defer func() {
			if p := recover(); p != nil {
				bad = fmt.Sprint("panic: ", p)
			}
		}()
		for _, o := range ops {
			lines = append(lines, o.line(id))
			switch o.kind {
			case "ins":
				q.Insert(&item{key: o.key, at: o.when(base), id: id})
				id++
				want = append(want, dumpReal(dq))
			case "rm":
				q.Remove(o.key)
				want = append(want, dumpReal(dq))
			case "peek", "pop":
				// model-independent: the result is a minimal item
				vals, _ := q.Dump()
				var got *item
				var ok bool
				if o.kind == "peek" {
					got, ok = q.Peek()
				} else {
					got, ok = q.Pop()
				}
				res := "none"
				if ok {
					res = fmt.Sprint(got.id)
					for _, v := range vals {
						if v.at.Before(got.at) && bad == "" {
							bad = fmt.Sprintf("%s returned id=%d although id=%d is earlier", o.kind, got.id, v.id)
						}
					}
				} else if len(vals) != 0 && bad == "" {
					bad = o.kind + " returned nothing from a non-empty queue"
				}
				want = append(want, o.kind+"="+res+" "+dumpReal(dq))
			}
			if c := q.Consistent(); c != "" && bad == "" {
				bad = "key index inconsistent: " + c
			}
		}
	}()
	guard := time.NewTimer(2 * time.Second)
	defer guard.Stop()
	select {
	case <-done:
	case <-guard.C:
		r.res.Violate("queue-heap-hang", "an operation of the queue did not return", map[string]any{"kind": "heap", "ops": lines})
		r.hangs += 4
		r.abort = true
		r.res.Note("a queue operation hung: remaining cases skipped")
		return
	}
	hh := fnv.New64a()
	for _, l := range lines {
		hh.Write([]byte(l))
		hh.Write([]byte{';'})
	}
	r.res.Count(fmt.Sprintf("heap:%x", hh.Sum64()), len(ops) >= 3)
	r.res.Hit("case:heap-" + label)
	for _, o := range ops {
		r.res.Hit("heapop:" + o.kind)
	}
	if bad != "" {
		r.res.Hit("violation:queue-heap-" + strings.Fields(bad)[0])
		r.res.Violate("queue-heap-"+strings.Fields(bad)[0], bad, map[string]any{"kind": "heap", "ops": lines})
	}
	if r.drv == nil || !withModel {
		return
	}
	outs, err := r.drv.AskBatch(lines[:len(want)])
	if err != nil {
		r.res.Disagree("heap differential (driver died)", lines, err.Error(), "")
		r.drv = nil
		return
	}
	for i := range outs {
		if outs[i] != want[i] {
			r.res.Disagree("queue.go heap+index = Heap layer of KitModel/Queue.lean (array order, stored indices, Peek/Pop results)",
				map[string]any{"kind": "heap", "ops": lines[:i+1]}, outs[i], want[i])
			r.res.Hit("disagreement")
			return
		}
	}
	r.res.Traces++
}

// heapRemoveFamily: n items with distinct keys inserted in EVERY order of their n distinct times,
// then Remove of the item at every heap position, then Pop until empty: the order of execution of the
// remaining n-1 items must be by time. Sifting UP after Remove is only needed from 7 items on
// (the last element moves into another subtree whose parent is later), so n = 7 and n = 8.
// The model-independent checks run on every sequence; every `sample`-th is also compared with the model.
func (r *runner) heapRemoveFamily(n, sample, every int) {
	perm := make([]int, n)
	for i := range perm {
		perm[i] = i
	}
	count, perms := 0, 0
	var rec func(k int)
	emit := func() {
		perms++
		if perms%every != 0 { // quick tier: a fixed subset of the orders
			return
		}
		for rm := 0; rm < n; rm++ {
			ops := make([]hop, 0, 2*n+1)
			for i, t := range perm {
				ops = append(ops, hop{kind: "ins", key: i, at: int64(t + 1)})
			}
			ops = append(ops, hop{kind: "rm", key: rm, at: 0})
			for i := 0; i < n; i++ {
				ops = append(ops, hop{kind: "pop"})
			}
			count++
			r.heapSeqOpt(ops, fmt.Sprintf("remove-family-%d", n), count%sample == 0)
		}
	}
	rec = func(k int) {
		if r.abort {
			return
		}
		if k == n {
			emit()
			return
		}
		for i := k; i < n; i++ {
			perm[k], perm[i] = perm[i], perm[k]
			rec(k + 1)
			perm[k], perm[i] = perm[i], perm[k]
		}
	}
	rec(0)
}

// boundaryTimes: the corners of the time domain. Scheduled times are time.Time values; nothing in the
// queue or the processor may depend on their fitting into int64 nanoseconds (UnixNano) or on a span
// fitting into a time.Duration.
var boundaryTimes = []time.Time{
	{}, // the zero Time (year 1)
	time.Date(1, 1, 2, 0, 0, 0, 0, time.UTC),
	time.Unix(0, math.MinInt64).Add(-time.Nanosecond), // just below the UnixNano range (1677-09-21)
	time.Unix(0, math.MinInt64),
	time.Unix(0, math.MinInt64).Add(time.Nanosecond),
	time.Unix(0, math.MaxInt64).Add(-time.Nanosecond), // 2262-04-11
	time.Unix(0, math.MaxInt64),
	time.Unix(0, math.MaxInt64).Add(time.Nanosecond), // just above the UnixNano range
	time.Date(9999, 12, 31, 23, 59, 59, 0, time.UTC), // a "never" sentinel
	time.Unix(1<<62, 0),
}

// heapTimeDomain: boundary instants mixed with ordinary near-future times: every ordered triple of a
// pool of instants is inserted and popped (execution order must be time.Time order), plus random
// sequences with replacements and removals drawn from the pool.
func (r *runner) heapTimeDomain(rnd *lib.Rand, n int) {
	var pool []hop
	for i := range boundaryTimes {
		t := boundaryTimes[i]
		pool = append(pool, hop{kind: "ins", abs: &t})
	}
	for _, off := range []int64{-1000000, 0, 1, 10000000} {
		pool = append(pool, hop{kind: "ins", at: off})
	}
	for a := range pool {
		for b := range pool {
			for c := range pool {
				if a == b || b == c || a == c {
					continue
				}
				ops := []hop{pool[a], pool[b], pool[c]}
				for i := range ops {
					ops[i].key = i
				}
				ops = append(ops, hop{kind: "pop"}, hop{kind: "pop"}, hop{kind: "pop"})
				r.heapSeq(ops, "timedomain-triples")
			}
		}
	}
	for i := 0; i < n; i++ {
		m := rnd.Range(6, 40)
		ops := make([]hop, 0, m)
		for j := 0; j < m; j++ {
			switch x := rnd.Intn(10); {
			case x < 6:
				o := pool[rnd.Intn(len(pool))]
				o.key = rnd.Intn(8)
				ops = append(ops, o)
			case x < 8:
				ops = append(ops, hop{kind: "pop"})
			default:
				ops = append(ops, hop{kind: "rm", key: rnd.Intn(8)})
			}
		}
		for j := 0; j < 8; j++ {
			ops = append(ops, hop{kind: "pop"})
		}
		r.heapSeq(ops, "timedomain-random")
	}
}

var heapTimes = []int64{0, 1, 1, 2, 3, 3, 5, 8}

func (r *runner) heapDiff(rnd *lib.Rand, n int) {
	// exhaustive small scope: all sequences of length <= 5 over {ins k∈{0,1} t∈{1,2}, pop, rm 0}, then peek
	alphabet := []hop{{kind: "ins", key: 0, at: 1}, {kind: "ins", key: 0, at: 2}, {kind: "ins", key: 1, at: 1}, {kind: "ins", key: 1, at: 2}, {kind: "ins", key: 2, at: 1}, {kind: "pop", key: 0, at: 0}, {kind: "rm", key: 0, at: 0}, {kind: "rm", key: 1, at: 0}}
	var rec func(prefix []hop, depth int)
	rec = func(prefix []hop, depth int) {
		if depth == 0 {
			r.heapSeq(append(append([]hop{}, prefix...), hop{kind: "peek"}), "exhaustive")
			return
		}
		for _, a := range alphabet {
			rec(append(prefix, a), depth-1)
		}
	}
	for d := 1; d <= 4; d++ {
		rec(nil, d)
	}
	// Remove at every position of every 7- and 8-item heap
	if n >= 1000 { // thorough
		r.heapRemoveFamily(7, 4, 1)
		r.heapRemoveFamily(8, 40, 1)
	} else {
		r.heapRemoveFamily(7, 16, 1)
		r.heapRemoveFamily(8, 100, 8)
	}
	// the corners of the time domain
	r.heapTimeDomain(rnd, n/3+50)
	// random long sequences with many ties and replacements
	for i := 0; i < n; i++ {
		m := rnd.Range(5, 60)
		keys := rnd.Range(2, 12)
		ops := make([]hop, 0, m)
		for j := 0; j < m; j++ {
			switch x := rnd.Intn(10); {
			case x < 5:
				ops = append(ops, hop{kind: "ins", key: rnd.Intn(keys), at: heapTimes[rnd.Intn(len(heapTimes))]})
			case x < 7:
				ops = append(ops, hop{kind: "pop", key: 0, at: 0})
			case x < 9:
				ops = append(ops, hop{kind: "rm", key: rnd.Intn(keys), at: 0})
			default:
				ops = append(ops, hop{kind: "peek", key: 0, at: 0})
			}
		}
		r.heapSeq(ops, "random")
	}
}
