package main

import (
	"bytes"
	"go/ast"
	"go/printer"
	"go/token"
	"sort"
	"strconv"
	"strings"
)

// A site is one place in a function body where memory reachable from a []byte parameter (the
// caller's memory) is used in a way that matters for the frame property:
//
//	internal  passed to a function/method of the four packages (which has its own obligation)
//	pass      passed, at argument position #pos, to anything else (standard library, jwx, builtin)
//	write     `x[i] = …`, `x[i]++` … through it
//	reslice   re-sliced with an explicit upper bound (may reach beyond len into the capacity)
//	retain    stored into a struct field (kept beyond the call)
//
// "Reachable from" is a syntactic, flow-insensitive may-alias analysis: a parameter, a []byte
// field of a same-package struct (receiver state), a package-level []byte variable; and any
// variable assigned from such a value by plain assignment, re-slicing, `append(x, …)` (the result
// may be x's array), a call into the four packages or into package bytes/slices with such an
// argument (the result may alias it), or ranging over a `...[]byte` parameter.
type site struct{ kind, head, roots string }

type analysis struct {
	pkg       string
	fset      *token.FileSet
	decls     map[string][]*ast.FuncDecl
	imports   map[string]bool
	byteField map[string]bool // names of []byte fields of same-package structs
	globals   map[string]bool // package-level []byte variables
	taint     map[string]map[string]bool
	nested    map[string]bool // identifiers that are slices of slices (`...[]byte`)
	changed   bool
}

var fourPkgs = map[string]bool{"aeskw": true, "padding": true, "aescbcaead": true, "crypto": true}
var aliasLibs = map[string]bool{"bytes": true, "slices": true}

func (a *analysis) text(n ast.Node) string {
	var b bytes.Buffer
	printer.Fprint(&b, a.fset, n)
	return strings.Join(strings.Fields(b.String()), " ")
}

func union(dst map[string]bool, src map[string]bool) map[string]bool {
	if len(src) == 0 {
		return dst
	}
	if dst == nil {
		dst = map[string]bool{}
	}
	for k := range src {
		dst[k] = true
	}
	return dst
}

func rootsString(m map[string]bool) string {
	ks := make([]string, 0, len(m))
	for k := range m {
		ks = append(ks, k)
	}
	sort.Strings(ks)
	return strings.Join(ks, "+")
}

// calleeName: "f" (same package or builtin), "pkg.F" (imported package), ".M" (method), "<expr>".
func (a *analysis) calleeName(fun ast.Expr) (name string, internal bool) {
	switch f := fun.(type) {
	case *ast.Ident:
		_, same := a.decls[f.Name]
		return f.Name, same
	case *ast.SelectorExpr:
		if x, ok := f.X.(*ast.Ident); ok && a.imports[x.Name] {
			return x.Name + "." + f.Sel.Name, fourPkgs[x.Name] && x.Name != a.pkg
		}
		for _, d := range a.decls[f.Sel.Name] {
			if d.Recv != nil {
				return "." + f.Sel.Name, true
			}
		}
		return "." + f.Sel.Name, false
	case *ast.ParenExpr:
		return a.calleeName(f.X)
	}
	return "<expr>", false
}

// roots of a slice-valued expression that may alias caller memory (nil: none).
func (a *analysis) roots(e ast.Expr) map[string]bool {
	switch x := e.(type) {
	case *ast.Ident:
		if t, ok := a.taint[x.Name]; ok {
			return t
		}
		if a.globals[x.Name] {
			return map[string]bool{"global:" + x.Name: true}
		}
	case *ast.SelectorExpr:
		if a.byteField[x.Sel.Name] {
			if id, ok := x.X.(*ast.Ident); !ok || !a.imports[id.Name] {
				return map[string]bool{a.text(x): true}
			}
		}
	case *ast.SliceExpr:
		return a.roots(x.X)
	case *ast.ParenExpr:
		return a.roots(x.X)
	case *ast.IndexExpr: // an element of a `...[]byte` parameter is a caller slice
		if id, ok := x.X.(*ast.Ident); ok && a.nested[id.Name] {
			return a.roots(id)
		}
		if sl, ok := x.X.(*ast.SliceExpr); ok {
			if id, ok := sl.X.(*ast.Ident); ok && a.nested[id.Name] {
				return a.roots(id)
			}
		}
	case *ast.CompositeLit:
		var r map[string]bool
		for _, el := range x.Elts {
			if kv, ok := el.(*ast.KeyValueExpr); ok {
				r = union(r, a.roots(kv.Value))
			} else {
				r = union(r, a.roots(el))
			}
		}
		return r
	case *ast.UnaryExpr:
		if x.Op == token.AND {
			return a.roots(x.X)
		}
	case *ast.CallExpr:
		if _, isConv := x.Fun.(*ast.ArrayType); isConv {
			return nil // []byte(x): a copy
		}
		name, internal := a.calleeName(x.Fun)
		switch {
		case name == "append":
			if len(x.Args) > 0 {
				return a.roots(x.Args[0])
			}
		case name == "len" || name == "cap" || name == "string" || name == "copy" || name == "make" || name == "new":
			return nil
		case internal || aliasLibs[strings.SplitN(name, ".", 2)[0]]:
			var r map[string]bool
			for _, arg := range x.Args {
				r = union(r, a.roots(arg))
			}
			return r
		}
	}
	return nil
}

func (a *analysis) assign(lhs ast.Expr, r map[string]bool) {
	id, ok := lhs.(*ast.Ident)
	if !ok || id.Name == "_" || len(r) == 0 {
		return
	}
	switch id.Name { // by convention not slices: keeps the error/flag results of multi-value calls out
	case "err", "ok", "n", "valid":
		return
	}
	cur := a.taint[id.Name]
	for k := range r {
		if !cur[k] {
			if cur == nil {
				cur = map[string]bool{}
				a.taint[id.Name] = cur
			}
			cur[k] = true
			a.changed = true
		}
	}
}

func (a *analysis) propagate(body *ast.BlockStmt) {
	ast.Inspect(body, func(n ast.Node) bool {
		switch s := n.(type) {
		case *ast.AssignStmt:
			if len(s.Lhs) == len(s.Rhs) {
				for i := range s.Lhs {
					a.assign(s.Lhs[i], a.roots(s.Rhs[i]))
				}
			} else if len(s.Rhs) == 1 {
				r := a.roots(s.Rhs[0])
				for _, l := range s.Lhs {
					a.assign(l, r)
				}
			}
		case *ast.ValueSpec:
			for i, nm := range s.Names {
				if i < len(s.Values) {
					a.assign(nm, a.roots(s.Values[i]))
				}
			}
		case *ast.RangeStmt:
			if s.Value != nil {
				base := s.X
				if sl, ok := base.(*ast.SliceExpr); ok {
					base = sl.X
				}
				if id, ok := base.(*ast.Ident); ok && a.nested[id.Name] {
					a.assign(s.Value, a.roots(id))
				}
			}
		}
		return true
	})
}

// baseOfIndex strips index/slice/paren layers: the expression whose memory `x[i]…` designates.
func baseOfIndex(e ast.Expr) ast.Expr {
	for {
		switch x := e.(type) {
		case *ast.IndexExpr:
			return x.X
		case *ast.ParenExpr:
			e = x.X
		default:
			return nil
		}
	}
}

func (a *analysis) collect(fd *ast.FuncDecl) []site {
	seen := map[site]bool{}
	var out []site
	add := func(kind, head string, r map[string]bool) {
		if len(r) == 0 {
			return
		}
		s := site{kind, head, rootsString(r)}
		if !seen[s] {
			seen[s] = true
			out = append(out, s)
		}
	}
	ast.Inspect(fd.Body, func(n ast.Node) bool {
		switch s := n.(type) {
		case *ast.AssignStmt:
			for _, l := range s.Lhs {
				if b := baseOfIndex(l); b != nil {
					add("write", "index", a.roots(b))
				}
				if sel, ok := l.(*ast.SelectorExpr); ok {
					for i := range s.Rhs {
						if len(s.Lhs) == len(s.Rhs) && s.Lhs[i] == l {
							add("retain", sel.Sel.Name, a.roots(s.Rhs[i]))
						}
					}
				}
			}
		case *ast.IncDecStmt:
			if b := baseOfIndex(s.X); b != nil {
				add("write", "index", a.roots(b))
			}
		case *ast.SliceExpr:
			if s.High != nil || s.Max != nil {
				add("reslice", a.text(s), a.roots(s.X))
			}
		case *ast.CompositeLit:
			for _, el := range s.Elts {
				if kv, ok := el.(*ast.KeyValueExpr); ok {
					add("retain", a.text(kv.Key), a.roots(kv.Value))
				}
			}
		case *ast.CallExpr:
			if _, isConv := s.Fun.(*ast.ArrayType); isConv {
				return true
			}
			name, internal := a.calleeName(s.Fun)
			if name == "len" || name == "cap" || name == "string" {
				return true
			}
			kind := "pass"
			if internal {
				kind = "internal"
			}
			for i, arg := range s.Args {
				add(kind, name+"#"+strconv.Itoa(i), a.roots(arg))
			}
		}
		return true
	})
	sort.Slice(out, func(i, j int) bool {
		if out[i].kind != out[j].kind {
			return out[i].kind < out[j].kind
		}
		if out[i].head != out[j].head {
			return out[i].head < out[j].head
		}
		return out[i].roots < out[j].roots
	})
	return out
}

// analyse one function: taint its []byte parameters and find the sites.
func analyse(pkg string, fset *token.FileSet, fd *ast.FuncDecl, decls map[string][]*ast.FuncDecl,
	imports map[string]bool, byteField map[string]bool, globals map[string]bool) []site {
	a := &analysis{pkg: pkg, fset: fset, decls: decls, imports: imports, byteField: byteField, globals: globals,
		taint: map[string]map[string]bool{}, nested: map[string]bool{}}
	for _, fl := range fd.Type.Params.List {
		for _, n := range fl.Names {
			switch {
			case isByteSlice(fl.Type):
				a.taint[n.Name] = map[string]bool{n.Name: true}
			case isVariadicBytes(fl.Type):
				a.taint[n.Name] = map[string]bool{n.Name: true}
				a.nested[n.Name] = true
			}
		}
	}
	if fd.Body == nil {
		return nil
	}
	for i := 0; i < 10; i++ {
		a.changed = false
		a.propagate(fd.Body)
		if !a.changed {
			break
		}
	}
	return a.collect(fd)
}
