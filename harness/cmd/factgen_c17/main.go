// Command factgen_c17 re-extracts from the current source of dapr/kit what the C17 frame
// theorems are parameterised by (T1):
//
//   - every exported function, and every exported method of any type, of packages crypto,
//     crypto/aeskw, crypto/padding, crypto/aescbcaead that takes a []byte parameter, with the
//     names of those parameters (a parameter of a same-package struct type that has []byte fields
//     is listed as "<param>.<field>");
//   - every NON-exported function/method of those packages that is reachable from an exported one
//     through same-package calls and takes []byte parameters (the helpers the caller's slices are
//     handed on to): a new helper is a new obligation;
//   - the algorithm lists of the `switch algorithm` statements of the crypto package's exported
//     dispatchers (case clauses with their string constants resolved).
//
// Output: lean/KitModel/Generated/C17.lean. go/parser + go/ast only. Any shape it does not
// understand makes it exit non-zero (the check then reports the tie as broken).
package main

import (
	"flag"
	"fmt"
	"go/ast"
	"go/parser"
	"go/token"
	"os"
	"path/filepath"
	"sort"
	"strconv"
	"strings"
)

type fn struct {
	pkg, recv, name string
	params          []string
}

func fatal(format string, a ...any) {
	fmt.Fprintf(os.Stderr, "factgen_c17: "+format+"\n", a...)
	os.Exit(1)
}

// `...[]byte`
func isVariadicBytes(e ast.Expr) bool {
	el, ok := e.(*ast.Ellipsis)
	return ok && isByteSlice(el.Elt)
}

func isByteSlice(e ast.Expr) bool {
	at, ok := e.(*ast.ArrayType)
	if !ok || at.Len != nil {
		return false
	}
	id, ok := at.Elt.(*ast.Ident)
	return ok && (id.Name == "byte" || id.Name == "uint8")
}

// mentionsBytes: the type contains a []byte somewhere below the top level.
func mentionsBytes(e ast.Expr) bool {
	found := false
	ast.Inspect(e, func(n ast.Node) bool {
		if x, ok := n.(ast.Expr); ok && isByteSlice(x) {
			found = true
		}
		return !found
	})
	return found
}

func recvName(fd *ast.FuncDecl) string {
	if fd.Recv == nil || len(fd.Recv.List) == 0 {
		return ""
	}
	t := fd.Recv.List[0].Type
	if s, ok := t.(*ast.StarExpr); ok {
		t = s.X
	}
	if id, ok := t.(*ast.Ident); ok {
		return id.Name
	}
	fatal("%s: receiver of unknown shape", fd.Name.Name)
	return ""
}

func lean(s string) string { return strconv.Quote(s) }

// byteParams lists the []byte parameters of a function: plain `[]byte` by name, `...[]byte` as
// "<name>...", a same-package struct with []byte fields as "<name>.<field>".
func byteParams(pkg string, fd *ast.FuncDecl, structs map[string][]string) []string {
	var params []string
	for _, fl := range fd.Type.Params.List {
		names := fl.Names
		switch {
		case isByteSlice(fl.Type), isVariadicBytes(fl.Type):
			if len(names) == 0 {
				fatal("%s.%s: unnamed []byte parameter", pkg, fd.Name.Name)
			}
			for _, n := range names {
				if isVariadicBytes(fl.Type) {
					params = append(params, n.Name+"...")
				} else {
					params = append(params, n.Name)
				}
			}
		case mentionsBytes(fl.Type):
			fatal("%s.%s: parameter type with nested []byte (%T)", pkg, fd.Name.Name, fl.Type)
		default:
			if id, ok := fl.Type.(*ast.Ident); ok {
				if bf, ok := structs[id.Name]; ok && len(bf) > 0 {
					for _, n := range names {
						for _, b := range bf {
							params = append(params, n.Name+"."+b)
						}
					}
				}
			}
		}
	}
	return params
}

// callees: names of same-package functions / methods called in the body (by identifier; a method
// call x.f(…) counts when the package declares a method f and x is not an imported package).
func callees(fd *ast.FuncDecl, decls map[string][]*ast.FuncDecl, imports map[string]bool) []string {
	var out []string
	if fd.Body == nil {
		return nil
	}
	ast.Inspect(fd.Body, func(n ast.Node) bool {
		ce, ok := n.(*ast.CallExpr)
		if !ok {
			return true
		}
		switch f := ce.Fun.(type) {
		case *ast.Ident:
			if _, ok := decls[f.Name]; ok {
				out = append(out, f.Name)
			}
		case *ast.SelectorExpr:
			if x, ok := f.X.(*ast.Ident); ok && imports[x.Name] {
				return true
			}
			for _, d := range decls[f.Sel.Name] {
				if d.Recv != nil {
					out = append(out, f.Sel.Name)
					break
				}
			}
		}
		return true
	})
	return out
}

func main() {
	repo := flag.String("repo", "/repo", "dapr/kit checkout")
	out := flag.String("out", "", "output .lean file")
	flag.Parse()
	if *out == "" {
		fatal("--out required")
	}
	pkgs := []struct{ dir, name string }{
		{"crypto", "crypto"}, {"crypto/aeskw", "aeskw"}, {"crypto/padding", "padding"}, {"crypto/aescbcaead", "aescbcaead"},
	}
	var fns, helpers []fn
	type fnSites struct {
		pkg, recv, name string
		sites           []site
	}
	var allSites []fnSites
	var globalVars []string
	consts := map[string]string{}
	type sw struct {
		fn    string
		cases [][]string
	}
	var switches []sw
	for _, p := range pkgs {
		fset := token.NewFileSet()
		matches, err := filepath.Glob(filepath.Join(*repo, p.dir, "*.go"))
		if err != nil || len(matches) == 0 {
			fatal("no source files in %s", p.dir)
		}
		sort.Strings(matches)
		var files []*ast.File
		for _, m := range matches {
			if strings.HasSuffix(m, "_test.go") {
				continue
			}
			f, err := parser.ParseFile(fset, m, nil, parser.SkipObjectResolution)
			if err != nil {
				fatal("%v", err)
			}
			files = append(files, f)
		}
		// struct types of the package with []byte fields; string constants
		structs := map[string][]string{}
		pkgByteGlobals := map[string]bool{}
		for _, f := range files {
			for _, d := range f.Decls {
				gd, ok := d.(*ast.GenDecl)
				if !ok {
					continue
				}
				for _, sp := range gd.Specs {
					switch s := sp.(type) {
					case *ast.TypeSpec:
						st, ok := s.Type.(*ast.StructType)
						if !ok {
							continue
						}
						var bf []string
						for _, fl := range st.Fields.List {
							if isByteSlice(fl.Type) {
								for _, n := range fl.Names {
									bf = append(bf, n.Name)
								}
							} else if mentionsBytes(fl.Type) {
								fatal("%s.%s: field type with nested []byte", p.name, s.Name.Name)
							}
						}
						structs[s.Name.Name] = bf
					case *ast.ValueSpec:
						if gd.Tok == token.VAR { // package-level state (error sentinels made by errors.New excepted)
							for i, n := range s.Names {
								if i < len(s.Values) {
									if ce, ok := s.Values[i].(*ast.CallExpr); ok {
										if se, ok := ce.Fun.(*ast.SelectorExpr); ok {
											if x, ok := se.X.(*ast.Ident); ok && x.Name == "errors" && se.Sel.Name == "New" {
												continue
											}
										}
									}
									if cl, ok := s.Values[i].(*ast.CompositeLit); ok && isByteSlice(cl.Type) {
										pkgByteGlobals[n.Name] = true
									}
								}
								if s.Type != nil && isByteSlice(s.Type) {
									pkgByteGlobals[n.Name] = true
								}
								globalVars = append(globalVars, p.name+"."+n.Name)
							}
							continue
						}
						if gd.Tok != token.CONST || p.name != "crypto" {
							continue
						}
						for i, n := range s.Names {
							if i < len(s.Values) {
								if bl, ok := s.Values[i].(*ast.BasicLit); ok && bl.Kind == token.STRING {
									v, err := strconv.Unquote(bl.Value)
									if err != nil {
										fatal("constant %s: %v", n.Name, err)
									}
									consts[n.Name] = v
								}
							}
						}
					}
				}
			}
		}
		// call graph: non-exported functions / methods reachable from the exported ones
		decls := map[string][]*ast.FuncDecl{}
		imports := map[string]bool{}
		for _, f := range files {
			for _, im := range f.Imports {
				path, _ := strconv.Unquote(im.Path.Value)
				name := path[strings.LastIndex(path, "/")+1:]
				if im.Name != nil {
					name = im.Name.Name
				}
				imports[name] = true
			}
			for _, d := range f.Decls {
				if fd, ok := d.(*ast.FuncDecl); ok {
					decls[fd.Name.Name] = append(decls[fd.Name.Name], fd)
				}
			}
		}
		seen := map[*ast.FuncDecl]bool{}
		var work []*ast.FuncDecl
		for _, ds := range decls {
			for _, fd := range ds {
				if fd.Name.IsExported() {
					seen[fd] = true
					work = append(work, fd)
				}
			}
		}
		for len(work) > 0 {
			fd := work[0]
			work = work[1:]
			for _, name := range callees(fd, decls, imports) {
				for _, c := range decls[name] {
					if !seen[c] {
						seen[c] = true
						work = append(work, c)
					}
				}
			}
		}
		byteField := map[string]bool{}
		for _, bf := range structs {
			for _, f := range bf {
				byteField[f] = true
			}
		}
		for fd := range seen {
			if len(byteParams(p.name, fd, structs)) > 0 {
				allSites = append(allSites, fnSites{p.name, recvName(fd), fd.Name.Name,
					analyse(p.name, fset, fd, decls, imports, byteField, pkgByteGlobals)})
			}
		}
		for fd := range seen {
			if fd.Name.IsExported() {
				continue
			}
			if params := byteParams(p.name, fd, structs); len(params) > 0 {
				helpers = append(helpers, fn{p.name, recvName(fd), fd.Name.Name, params})
			}
		}
		for _, f := range files {
			for _, d := range f.Decls {
				fd, ok := d.(*ast.FuncDecl)
				if !ok || !fd.Name.IsExported() {
					continue
				}
				params := byteParams(p.name, fd, structs)
				if len(params) > 0 {
					fns = append(fns, fn{p.name, recvName(fd), fd.Name.Name, params})
				}
				// dispatch tables: `switch algorithm { case A, B: … }` directly in the body
				if p.name == "crypto" && fd.Recv == nil && fd.Body != nil {
					for _, st := range fd.Body.List {
						ss, ok := st.(*ast.SwitchStmt)
						if !ok {
							continue
						}
						tag, ok := ss.Tag.(*ast.Ident)
						if !ok || tag.Name != "algorithm" {
							continue
						}
						var cases [][]string
						for _, cc := range ss.Body.List {
							cl := cc.(*ast.CaseClause)
							if cl.List == nil {
								continue // default
							}
							var vals []string
							for _, e := range cl.List {
								switch x := e.(type) {
								case *ast.Ident:
									v, ok := consts[x.Name]
									if !ok {
										fatal("%s: case %s is not a string constant of the package", fd.Name.Name, x.Name)
									}
									vals = append(vals, v)
								case *ast.BasicLit:
									v, err := strconv.Unquote(x.Value)
									if err != nil {
										fatal("%s: case literal %s", fd.Name.Name, x.Value)
									}
									vals = append(vals, v)
								default:
									fatal("%s: case expression of unknown shape %T", fd.Name.Name, e)
								}
							}
							cases = append(cases, vals)
						}
						switches = append(switches, sw{fd.Name.Name, cases})
					}
				}
			}
		}
	}
	if len(fns) == 0 {
		fatal("no exported []byte-taking function found")
	}
	sort.Slice(fns, func(i, j int) bool {
		a, b := fns[i], fns[j]
		if a.pkg != b.pkg {
			return a.pkg < b.pkg
		}
		if a.recv != b.recv {
			return a.recv < b.recv
		}
		return a.name < b.name
	})
	sort.Slice(helpers, func(i, j int) bool {
		a, b := helpers[i], helpers[j]
		if a.pkg != b.pkg {
			return a.pkg < b.pkg
		}
		if a.recv != b.recv {
			return a.recv < b.recv
		}
		return a.name < b.name
	})
	sort.Slice(switches, func(i, j int) bool { return switches[i].fn < switches[j].fn })
	var sb strings.Builder
	sb.WriteString("/-! GENERATED by harness/cmd/factgen_c17 from /repo/crypto{,/aeskw,/padding,/aescbcaead} — do not edit.\n")
	sb.WriteString("Exported functions and methods taking `[]byte` parameters (with the parameter names), and the\nalgorithm lists of the `switch algorithm` dispatchers of package crypto. -/\n")
	sb.WriteString("namespace Kit.Generated.C17\n\n")
	sb.WriteString("structure Fn where\n  pkg : String\n  recv : String\n  name : String\n  params : List String\n  deriving DecidableEq, Repr\n\n")
	sb.WriteString("def fns : List Fn := [\n")
	for i, f := range fns {
		ps := make([]string, len(f.params))
		for k, p := range f.params {
			ps[k] = lean(p)
		}
		sep := ","
		if i == len(fns)-1 {
			sep = ""
		}
		fmt.Fprintf(&sb, "  ⟨%s, %s, %s, [%s]⟩%s\n", lean(f.pkg), lean(f.recv), lean(f.name), strings.Join(ps, ", "), sep)
	}
	sb.WriteString("]\n\n")
	sb.WriteString("/-- non-exported functions and methods reachable (same-package call graph) from the exported\nones that take `[]byte` parameters: they are handed the caller's slices -/\n")
	sb.WriteString("def helpers : List Fn := [\n")
	for i, f := range helpers {
		ps := make([]string, len(f.params))
		for k, p := range f.params {
			ps[k] = lean(p)
		}
		sep := ","
		if i == len(helpers)-1 {
			sep = ""
		}
		fmt.Fprintf(&sb, "  ⟨%s, %s, %s, [%s]⟩%s\n", lean(f.pkg), lean(f.recv), lean(f.name), strings.Join(ps, ", "), sep)
	}
	sb.WriteString("]\n\n")
	sort.Slice(allSites, func(i, j int) bool {
		a, b := allSites[i], allSites[j]
		return a.pkg+"|"+a.recv+"|"+a.name < b.pkg+"|"+b.recv+"|"+b.name
	})
	sort.Strings(globalVars)
	sb.WriteString("/-- per function `(pkg, receiver, name)`: the sites `(kind, head, roots)` where memory reachable from a\n`[]byte` parameter is passed on, written, re-sliced with an upper bound or retained\n(syntactic may-alias analysis, see harness/cmd/factgen_c17/sites.go) -/\n")
	sb.WriteString("def sites : List ((String × String × String) × List (String × String × String)) := [\n")
	for i, fsi := range allSites {
		var parts []string
		for _, st := range fsi.sites {
			parts = append(parts, "("+lean(st.kind)+", "+lean(st.head)+", "+lean(st.roots)+")")
		}
		sep := ","
		if i == len(allSites)-1 {
			sep = ""
		}
		fmt.Fprintf(&sb, "  ((%s, %s, %s), [%s])%s\n", lean(fsi.pkg), lean(fsi.recv), lean(fsi.name), strings.Join(parts, ",\n    "), sep)
	}
	sb.WriteString("]\n\n")
	sb.WriteString("/-- package-level variables of the four packages (error sentinels made by `errors.New` excepted):\nstate that outlives a call (a buffer pool would appear here) -/\n")
	gq := make([]string, len(globalVars))
	for i, gname := range globalVars {
		gq[i] = lean(gname)
	}
	sb.WriteString("def globals : List String := [" + strings.Join(gq, ", ") + "]\n\n")
	sb.WriteString("/-- `(function, case clauses in source order, each with its algorithm names)` -/\n")
	sb.WriteString("def switches : List (String × List (List String)) := [\n")
	for i, s := range switches {
		var cl []string
		for _, c := range s.cases {
			q := make([]string, len(c))
			for k, v := range c {
				q[k] = lean(v)
			}
			cl = append(cl, "["+strings.Join(q, ", ")+"]")
		}
		sep := ","
		if i == len(switches)-1 {
			sep = ""
		}
		fmt.Fprintf(&sb, "  (%s, [%s])%s\n", lean(s.fn), strings.Join(cl, ",\n    "), sep)
	}
	sb.WriteString("]\n\nend Kit.Generated.C17\n")
	if err := os.WriteFile(*out, []byte(sb.String()), 0o644); err != nil {
		fatal("%v", err)
	}
}
