package main

// ECDSA interop, independently established: ES256/ES384/ES512 signatures of the real code are checked
// against the Lean-native ECDSA (lean/KitModel/Crypto/Ecdsa.lean: Jacobian arithmetic over Nat on
// P-256/384/521, strict DER) in both directions; finding id `ecdsa-interop-mismatch`.
//
//   params   the curve constants typed into the Lean file equal Go's elliptic.Params()
//   verify   kit signs → Lean verifies; every mutated signature (byte flips, length changes, DER
//            variants) / digest (also digests shorter and longer than the group order) is accepted by
//            Lean exactly when kit accepts it
//   sign     Lean signs with the private scalar and a given per-signature secret → kit and Go's
//            stdlib verify

import (
	"crypto/ecdsa"
	"crypto/x509"
	"encoding/asn1"
	"encoding/pem"
	"fmt"
	"math/big"

	"verifharness/lib"
)

const idEC = "ecdsa-interop-mismatch"

func curveBitsOf(alg string) int {
	switch alg {
	case "ES256":
		return 256
	case "ES384":
		return 384
	}
	return 521
}

type ecCtx struct {
	h   *H
	drv *lib.Drv
}

func (e *ecCtx) ask(line string) string {
	out, err := e.drv.Ask(line)
	if err != nil {
		return "driver-error " + err.Error()
	}
	return out
}

func (e *ecCtx) mismatch(c map[string]any, what, lean, real string) {
	c["family"], c["lean"], c["real"] = "ecdsa", lean, real
	e.h.res.Violate(idEC, what, c)
}

func (e *ecCtx) check(c map[string]any, key *ecdsa.PrivateKey) {
	str := func(k string) string { s, _ := c[k].(string); return s }
	alg, mon := str("alg"), str("monitor")
	bits := curveBitsOf(alg)
	res := e.h.res
	res.Hit("ecdsa:" + mon + ":" + alg)
	switch mon {
	case "verify":
		digest, sig := unhx(str("digest")), unhx(str("sig"))
		o := callAsym("VerifyPublicKey", alg, mustJWK(&key.PublicKey), digest, sig, nil)
		goValid := o.class == "ok" && o.valid
		ans := e.ask(fmt.Sprintf("ec op=verify bits=%d qx=%s qy=%s digest=%s sig=%s", bits, hx(key.X.Bytes()), hx(key.Y.Bytes()), hx(digest), hx(sig)))
		v, ok := field(ans, "valid")
		res.Count("ec verify "+alg+hx(digest)+hx(sig), true)
		if !ok || (v == "true") != goValid {
			e.mismatch(c, "an independent ECDSA verifier and VerifyPublicKey disagree on a signature", ans, fmt.Sprintf("valid=%v class=%s", goValid, o.class))
		} else {
			e.h.trace()
		}
	case "sign":
		digest := unhx(str("digest"))
		ans := e.ask(fmt.Sprintf("ec op=sign bits=%d d=%s k=%s digest=%s", bits, hx(key.D.Bytes()), str("k"), hx(digest)))
		s, ok := field(ans, "sig")
		res.Count("ec sign "+alg+hx(digest)+str("k"), true)
		if !ok {
			e.mismatch(c, "the independent ECDSA implementation could not sign", ans, "")
			return
		}
		o := callAsym("VerifyPublicKey", alg, mustJWK(&key.PublicKey), digest, unhx(s), nil)
		std := ecdsa.VerifyASN1(&key.PublicKey, digest, unhx(s))
		if o.class != "ok" || !o.valid || !std {
			c["sig"] = s
			e.mismatch(c, "VerifyPublicKey rejects an ECDSA signature made by an independent implementation", ans, fmt.Sprintf("kit valid=%v class=%s stdlib=%v", o.valid, o.class, std))
		} else {
			e.h.trace()
		}
	}
}

func (h *H) ecdsaInterop(rng *lib.Rand) {
	if h.f.Drv == "" {
		h.res.Note("ecdsa interop: model driver unavailable, skipped")
		return
	}
	d, err := lib.StartDrv(h.f.Drv, "C03")
	if err != nil || d == nil {
		h.res.Note("ecdsa interop: cannot start driver: " + fmt.Sprint(err))
		return
	}
	defer d.Close()
	e := &ecCtx{h: h, drv: d}
	ks := getKeys()
	thorough := h.f.Tier == "thorough"
	for _, alg := range []string{"ES256", "ES384", "ES512"} {
		curve := sigSpecs[alg].curve
		bits := curveBitsOf(alg)
		// the constants of the Lean file
		params := ks.ec[curve][0].Curve.Params()
		fb := (params.BitSize + 7) / 8
		pad := func(x *big.Int) string { b := make([]byte, fb); x.FillBytes(b); return hx(b) }
		want := fmt.Sprintf("ok p=%s b=%s gx=%s gy=%s n=%s", pad(params.P), pad(params.B), pad(params.Gx), pad(params.Gy), pad(params.N))
		if got := e.ask(fmt.Sprintf("ec op=params bits=%d", bits)); got != want {
			e.mismatch(map[string]any{"monitor": "params", "alg": alg}, "the curve constants of the independent implementation differ from the standard's", got, want)
			continue
		}
		h.trace()
		nKeys := 1
		if thorough {
			nKeys = 2
		}
		for ki := 0; ki < nKeys; ki++ {
			key := ks.ec[curve][ki]
			pemS := ks.pems[fmt.Sprintf("ec%s%d", curve, ki)]
			base := func(mon string) map[string]any {
				return map[string]any{"monitor": mon, "alg": alg, "key_pem": pemS}
			}
			hs := sigSpecs[alg].hash.Size()
			digests := [][]byte{rng.Bytes(hs), make([]byte, hs)}
			// ECDSA takes any digest length: shorter and longer than the group order (truncation rule)
			for _, n := range []int{1, 20, hs - 1, hs + 1, 66, 80} {
				digests = append(digests, rng.Bytes(n))
			}
			ff := make([]byte, 70)
			for i := range ff {
				ff[i] = 0xff
			}
			digests = append(digests, ff)
			for di, dg := range digests {
				so := callAsym("SignPrivateKey", alg, mustJWK(key), dg, nil, nil)
				if so.class != "ok" {
					continue
				}
				c := base("verify")
				c["digest"], c["sig"], c["mutation"] = hx(dg), hx(so.out), "none (genuine)"
				e.check(c, key)
				// the other direction
				kk := new(big.Int).SetBytes(rng.Bytes(fb + 8))
				kk.Mod(kk, new(big.Int).Sub(params.N, big.NewInt(1)))
				kk.Add(kk, big.NewInt(1))
				c = base("sign")
				c["digest"], c["k"] = hx(dg), hx(kk.Bytes())
				e.check(c, key)
				if di >= 2 && !thorough {
					continue
				}
				muts := sigMutations(rng, so.out, 1)
				for k, v := range ecdsaVariants(so.out, fb, rng) {
					muts[k] = v
				}
				// (r, n−s): the other signature of the same (key, digest) — both sides must agree on it
				var rs struct{ R, S *big.Int }
				if _, err := asn1.Unmarshal(so.out, &rs); err == nil {
					ns := new(big.Int).Sub(params.N, rs.S)
					body := append(derInt(rs.R, 0), derInt(ns, 0)...)
					muts["(r, n−s)"] = append(append([]byte{0x30}, derLen(len(body))...), body...)
					zb := append(derInt(big.NewInt(0), 0), derInt(rs.S, 0)...)
					muts["r = 0"] = append(append([]byte{0x30}, derLen(len(zb))...), zb...)
					nb := append(derInt(rs.R, 0), derInt(params.N, 0)...)
					muts["s = n"] = append(append([]byte{0x30}, derLen(len(nb))...), nb...)
					rb := append(derInt(new(big.Int).Add(rs.R, params.N), 0), derInt(rs.S, 0)...)
					muts["r + n"] = append(append([]byte{0x30}, derLen(len(rb))...), rb...)
				}
				for name, ms := range muts {
					c := base("verify")
					c["digest"], c["sig"], c["mutation"] = hx(dg), hx(ms), name
					h.res.Hit("ecdsa:mutation:signature")
					e.check(c, key)
				}
				for i := 0; i < len(dg); i += 5 {
					md := cp(dg)
					md[i] ^= byte(rng.Range(1, 255))
					c := base("verify")
					c["digest"], c["sig"], c["mutation"] = hx(md), hx(so.out), fmt.Sprintf("digest[%d]", i)
					h.res.Hit("ecdsa:mutation:digest")
					e.check(c, key)
				}
			}
		}
	}
}

func (h *H) replayEC(c map[string]any) {
	h.res.Count("replay-ecdsa", true)
	if h.f.Drv == "" {
		h.res.Note("replay: ecdsa interop needs the model driver")
		return
	}
	s, _ := c["key_pem"].(string)
	blk, _ := pem.Decode([]byte(s))
	if blk == nil {
		h.res.Note("replay: ecdsa case without key")
		return
	}
	k, err := x509.ParsePKCS8PrivateKey(blk.Bytes)
	key, ok := k.(*ecdsa.PrivateKey)
	if err != nil || !ok {
		h.res.Note("replay: ecdsa case: bad key")
		return
	}
	d, err := lib.StartDrv(h.f.Drv, "C03")
	if err != nil || d == nil {
		return
	}
	defer d.Close()
	delete(c, "lean")
	delete(c, "real")
	(&ecCtx{h: h, drv: d}).check(c, key)
}
