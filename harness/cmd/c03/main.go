// Harness for property C03 (crypto: every algorithm round-trips, interoperates and rejects
// tampering). It calls the real dapr/kit code in-process, sends the same cases to the Lean model
// driver (`kitdrv C03`, model instantiated with Lean-native AES/GCM/ChaCha/HMAC) and compares
// outputs byte for byte; independently of the model it runs API-level property monitors.
package main

import (
	"crypto/aes"
	"crypto/hmac"
	"crypto/sha256"
	"crypto/sha512"
	"encoding/binary"
	"encoding/hex"
	"encoding/json"
	"errors"
	"fmt"
	"hash"
	"os"
	"path/filepath"
	"sort"
	"strings"
	"sync"
	"time"

	kc "github.com/dapr/kit/crypto"
	"github.com/dapr/kit/crypto/aescbcaead"
	"github.com/dapr/kit/crypto/aeskw"
	"github.com/dapr/kit/crypto/padding"
	"github.com/lestrrat-go/jwx/v2/jwk"

	"verifharness/lib"
)

const rule = "a case is non-trivial if every size/kind guard passed and a primitive ran: the outcome is ok, or an authentication / integrity / padding failure (not a guard sentinel, not an unsupported name); distinct = distinct request line"

// ---------------------------------------------------------------- cases

// Case is one concrete execution; it is what violations and replay files carry.
type Case struct {
	Family  string `json:"family"`  // sym | kw | pad | cbchmac | asym
	Monitor string `json:"monitor"` // which monitor produced/judges it
	Fn      string `json:"fn,omitempty"`
	Alg     string `json:"alg,omitempty"`
	Kind    string `json:"kind,omitempty"`
	Key     string `json:"key,omitempty"`
	Nonce   string `json:"nonce,omitempty"`
	Data    string `json:"data,omitempty"` // plaintext (enc) or ciphertext (dec)
	Tag     string `json:"tag,omitempty"`
	AD      string `json:"ad,omitempty"`
	Size    int    `json:"size,omitempty"`
	Mut     string `json:"mutation,omitempty"` // e.g. "ct[3]^=0x41", "append 3 bytes"
	Orig    string `json:"orig,omitempty"`     // original plaintext a tampered case must not yield
	Expect  string `json:"expect,omitempty"`
	Got     string `json:"got,omitempty"`
	Seq     []Case `json:"seq,omitempty"`  // family "seq": the calls, in order
	Key2    string `json:"key2,omitempty"` // family "repeat": the wrong key tried first
	Gen     string `json:"gen,omitempty"`  // family "kwgen": seed (hex) of the generator of the Size bytes of key data
	Kid     string `json:"kid,omitempty"`  // family "keyid": the kid the jwk key of this step carries
}

func hx(b []byte) string { return hex.EncodeToString(b) }
func unhx(s string) []byte {
	b, err := hex.DecodeString(s)
	if err != nil {
		panic("bad hex in case: " + s)
	}
	return b
}

// ---------------------------------------------------------------- calling the real code

type outcome struct {
	class string // ok | sentinel | aead:auth | … | panic | timeout
	a, b  []byte // outputs
	msg   string
	inMod string // which INPUT buffer the call modified ("" = none)
}

// inputsChanged names the first input buffer that differs from its snapshot.
func inputsChanged(names []string, now, before [][]byte) string {
	for i := range names {
		if !bytesEq(now[i], before[i]) {
			return fmt.Sprintf("%s: %s -> %s", names[i], hx(before[i]), hx(now[i]))
		}
	}
	return ""
}

func clean(s string) string {
	return strings.Map(func(r rune) rune {
		if r == ' ' || r == '\n' {
			return '_'
		}
		return r
	}, s)
}

func classify(err error) string {
	if err == nil {
		return "ok"
	}
	switch {
	case errors.Is(err, kc.ErrKeyTypeMismatch):
		return "ErrKeyTypeMismatch"
	case errors.Is(err, kc.ErrInvalidNonce):
		return "ErrInvalidNonce"
	case errors.Is(err, kc.ErrInvalidTag):
		return "ErrInvalidTag"
	case errors.Is(err, kc.ErrInvalidPlaintextLength):
		return "ErrInvalidPlaintextLength"
	case errors.Is(err, kc.ErrInvalidCiphertextLength):
		return "ErrInvalidCiphertextLength"
	case errors.Is(err, kc.ErrUnsupportedAlgorithm):
		return "ErrUnsupportedAlgorithm"
	case errors.Is(err, padding.ErrInvalidPKCS7Padding):
		return "pkcs7:padding"
	case errors.Is(err, padding.ErrInvalidPKCS7BlockSize):
		return "pkcs7:blocksize"
	}
	m := err.Error()
	switch {
	case strings.Contains(m, "message authentication failed"):
		return "aead:auth"
	case m == "invalid ciphertext size", m == "invalid nonce size":
		return "aead:size"
	case strings.HasPrefix(m, "cek must be"), strings.HasPrefix(m, "wrapped key must be"):
		return "kw:size"
	case strings.HasPrefix(m, "integrity check failed"):
		return "kw:integrity"
	case m == "invalid algorithm":
		return "invalid_algorithm"
	}
	return "other:" + clean(m)
}

// guarded runs f under recover and a deadline; a panic or hang of the real code is an outcome.
func guarded(f func() outcome) outcome {
	ch := make(chan outcome, 1)
	go func() {
		defer func() {
			if p := recover(); p != nil {
				ch <- outcome{class: "panic", msg: fmt.Sprint(p)}
			}
		}()
		ch <- f()
	}()
	select {
	case o := <-ch:
		return o
	case <-time.After(20 * time.Second):
		return outcome{class: "timeout"}
	}
}

func cp(b []byte) []byte {
	if b == nil {
		return nil
	}
	return append(make([]byte, 0, len(b)), b...)
}

func callEnc(fn, alg string, key jwk.Key, nonce, pt, ad []byte) outcome {
	o := callEnc0(fn, alg, key, nonce, pt, ad)
	c := symCaseOf(fn, alg, key, nonce, pt, nil, ad)
	ledger.after(c, map[string][]byte{"ciphertext": o.a, "tag": o.b})
	if o.inMod != "" && ledger.res != nil {
		c.Monitor, c.Mut = "input-integrity", o.inMod
		ledger.res.Violate("sym-input-modified", "an encryption call modified one of its INPUT buffers", c)
	}
	return o
}

func callEnc0(fn, alg string, key jwk.Key, nonce, pt, ad []byte) outcome {
	return guarded(func() outcome {
		var ct, tag []byte
		var err error
		p2, n2, a2 := cp(pt), cp(nonce), cp(ad)
		if fn == "Encrypt" {
			ct, tag, err = kc.Encrypt(p2, alg, key, n2, a2)
		} else {
			ct, tag, err = kc.EncryptSymmetric(p2, alg, key, n2, a2)
		}
		o := outcome{class: classify(err), a: ct, b: tag}
		o.inMod = inputsChanged([]string{"plaintext", "nonce", "associated data"}, [][]byte{p2, n2, a2}, [][]byte{pt, nonce, ad})
		if err != nil {
			o.msg = err.Error()
		}
		return o
	})
}

func callDec(fn, alg string, key jwk.Key, nonce, ct, tag, ad []byte) outcome {
	o := callDec0(fn, alg, key, nonce, ct, tag, ad)
	c := symCaseOf(fn, alg, key, nonce, ct, tag, ad)
	ledger.after(c, map[string][]byte{"plaintext": o.a})
	if o.inMod != "" && ledger.res != nil {
		c.Monitor, c.Mut = "input-integrity", o.inMod
		ledger.res.Violate("sym-input-modified", "a decryption call modified one of its INPUT buffers (the caller's ciphertext / wrapped key / tag / nonce / AD)", c)
	}
	return o
}

func callDec0(fn, alg string, key jwk.Key, nonce, ct, tag, ad []byte) outcome {
	return guarded(func() outcome {
		var pt []byte
		var err error
		c2, n2, t2, a2 := cp(ct), cp(nonce), cp(tag), cp(ad)
		if fn == "Decrypt" {
			pt, err = kc.Decrypt(c2, alg, key, n2, t2, a2)
		} else {
			pt, err = kc.DecryptSymmetric(c2, alg, key, n2, t2, a2)
		}
		o := outcome{class: classify(err), a: pt}
		o.inMod = inputsChanged([]string{"ciphertext", "nonce", "tag", "associated data"}, [][]byte{c2, n2, t2, a2}, [][]byte{ct, nonce, tag, ad})
		if err != nil {
			o.msg = err.Error()
		}
		return o
	})
}

// ---------------------------------------------------------------- algorithm facts used by the MONITORS
// (written from the standards the names denote, deliberately not from the package's tables)

type algSpec struct {
	family   string // cbc | cbcnopad | gcm | cbchmac | kw | chacha | xchacha
	keyLen   int
	nonceLen int // 0 = not used
	tagLen   int // 0 = none
	auth     bool
}

var specs = map[string]algSpec{
	"A128CBC": {"cbc", 16, 16, 0, false}, "A192CBC": {"cbc", 24, 16, 0, false}, "A256CBC": {"cbc", 32, 16, 0, false},
	"A128CBC-NOPAD": {"cbcnopad", 16, 16, 0, false}, "A192CBC-NOPAD": {"cbcnopad", 24, 16, 0, false}, "A256CBC-NOPAD": {"cbcnopad", 32, 16, 0, false},
	"A128GCM": {"gcm", 16, 12, 16, true}, "A192GCM": {"gcm", 24, 12, 16, true}, "A256GCM": {"gcm", 32, 12, 16, true},
	"A128CBC-HS256": {"cbchmac", 32, 16, 16, true}, "A192CBC-HS384": {"cbchmac", 48, 16, 24, true}, "A256CBC-HS512": {"cbchmac", 64, 16, 32, true},
	"A128KW": {"kw", 16, 0, 0, true}, "A192KW": {"kw", 24, 0, 0, true}, "A256KW": {"kw", 32, 0, 0, true},
	"C20P": {"chacha", 32, 12, 16, true}, "C20PKW": {"chacha", 32, 12, 16, true},
	"XC20P": {"xchacha", 32, 24, 16, true}, "XC20PKW": {"xchacha", 32, 24, 16, true},
}

func symNames() []string {
	names := kc.SupportedSymmetricAlgorithms()
	return append([]string{}, names...)
}

// validPlaintextLen says whether the standard the name denotes accepts a message of n bytes.
func validPlaintextLen(s algSpec, n int) bool {
	switch s.family {
	case "cbcnopad":
		return n%16 == 0
	case "kw":
		return n%8 == 0 && n >= 16
	}
	return true
}

// ---------------------------------------------------------------- harness state

type H struct {
	f    lib.Flags
	res  *lib.Result
	rng  *lib.Rand
	keys map[string]jwk.Key // non-oct keys by kind
	// queued model comparisons
	lines []string
	impls []string
	cases []Case
	corr  []string
}

func (h *H) octKey(raw []byte) (jwk.Key, bool) {
	k, err := jwk.FromRaw(cp(raw))
	if err != nil {
		return nil, false
	}
	return k, true
}

// queue one request for the model driver together with the implementation's canonical answer.
func (h *H) queue(corr, line, impl string, c Case) {
	h.lines = append(h.lines, line)
	h.impls = append(h.impls, impl)
	h.cases = append(h.cases, c)
	h.corr = append(h.corr, corr)
}

func symLine(fn, alg, kind string, key, nonce, data, tag, ad []byte) string {
	return fmt.Sprintf("sym fn=%s alg=%s kind=%s key=%s nonce=%s data=%s tag=%s ad=%s",
		fn, alg, kind, hx(key), hx(nonce), hx(data), hx(tag), hx(ad))
}

func canonEnc(o outcome) string {
	switch o.class {
	case "ok":
		return fmt.Sprintf("ok ct=%s tag=%s", hx(o.a), hx(o.b))
	case "panic", "timeout":
		return o.class
	}
	return "err " + o.class
}

func canonDec(o outcome) string {
	switch o.class {
	case "ok":
		return fmt.Sprintf("ok pt=%s", hx(o.a))
	case "panic", "timeout":
		return o.class
	}
	return "err " + o.class
}

func nontrivialClass(c string) bool {
	switch c {
	case "ok", "aead:auth", "kw:integrity", "pkcs7:padding":
		return true
	}
	return false
}

// algOK reports whether alg contains only characters that survive the line protocol.
func lineSafe(s string) bool {
	if s == "" {
		return false
	}
	for _, r := range s {
		if r <= ' ' || r == '=' || r > '~' {
			return false
		}
	}
	return true
}

// ---------------------------------------------------------------- monitors (model-independent)

// encMonitor judges one encryption call against the property statement.
func (h *H) encMonitor(c Case, s algSpec, known bool, keyKindOK bool, key, nonce, pt []byte, o outcome) {
	if o.class == "panic" || o.class == "timeout" {
		h.res.Violate("sym-"+o.class, "encryption "+o.class+": "+o.msg, c)
		return
	}
	if o.class != "ok" && (len(o.a) != 0 || len(o.b) != 0) {
		h.res.Violate("sym-error-with-output", "encryption returned an error AND output", c)
	}
	if !known {
		if o.class != "ErrUnsupportedAlgorithm" {
			c.Expect, c.Got = "ErrUnsupportedAlgorithm", o.class
			h.res.Violate("sym-unknown-name-not-sentinel", "unknown algorithm name did not yield ErrUnsupportedAlgorithm", c)
		}
		return
	}
	want := ""
	switch {
	case !keyKindOK || len(key) != s.keyLen:
		want = "ErrKeyTypeMismatch"
	case s.nonceLen != 0 && len(nonce) != s.nonceLen:
		want = "ErrInvalidNonce"
	case s.family == "cbcnopad" && len(pt)%16 != 0:
		want = "ErrInvalidPlaintextLength"
	}
	if want != "" {
		// several things may be wrong at once: the sentinel of the FIRST wrong thing in the
		// order key, nonce, plaintext is what the helpers document; accept any applicable one.
		ok := o.class == want
		if !ok && o.class != "ok" {
			for _, alt := range h.applicableEnc(s, keyKindOK, key, nonce, pt) {
				if o.class == alt {
					ok = true
				}
			}
		}
		if o.class == "ok" {
			c.Expect, c.Got = want, o.class
			h.res.Violate("sym-wrong-size-accepted", "wrong key/nonce/plaintext size or kind yielded output", c)
		} else if !ok {
			c.Expect, c.Got = want, o.class
			h.res.Violate("sym-wrong-size-not-sentinel", "wrong size/kind did not yield the package's sentinel", c)
		}
		return
	}
	if !validPlaintextLen(s, len(pt)) { // KW sizes: an error (no sentinel defined), no output
		if o.class == "ok" {
			c.Expect, c.Got = "error", o.class
			h.res.Violate("sym-wrong-size-accepted", "key wrap of key data outside RFC 3394's domain yielded output", c)
		}
		return
	}
	if o.class != "ok" {
		c.Expect, c.Got = "ok", o.class
		h.res.Violate("sym-valid-input-rejected", "encryption of a valid input failed", c)
	}
}

func (h *H) applicableEnc(s algSpec, kindOK bool, key, nonce, pt []byte) []string {
	var r []string
	if !kindOK || len(key) != s.keyLen {
		r = append(r, "ErrKeyTypeMismatch")
	}
	if s.nonceLen != 0 && len(nonce) != s.nonceLen {
		r = append(r, "ErrInvalidNonce")
	}
	if s.family == "cbcnopad" && len(pt)%16 != 0 {
		r = append(r, "ErrInvalidPlaintextLength")
	}
	return r
}

// decSizeMonitor judges a decryption whose sizes/kinds may be wrong (not a tamper case).
func (h *H) decSizeMonitor(c Case, s algSpec, known bool, kindOK bool, key, nonce, ct, tag []byte, o outcome) {
	if o.class == "panic" || o.class == "timeout" {
		h.res.Violate("sym-"+o.class, "decryption "+o.class+": "+o.msg, c)
		return
	}
	if o.class != "ok" && len(o.a) != 0 {
		h.res.Violate("sym-error-with-output", "decryption returned an error AND output", c)
	}
	if !known {
		if o.class != "ErrUnsupportedAlgorithm" {
			c.Expect, c.Got = "ErrUnsupportedAlgorithm", o.class
			h.res.Violate("sym-unknown-name-not-sentinel", "unknown algorithm name did not yield ErrUnsupportedAlgorithm", c)
		}
		return
	}
	var app []string
	if !kindOK || len(key) != s.keyLen {
		app = append(app, "ErrKeyTypeMismatch")
	}
	if s.nonceLen != 0 && len(nonce) != s.nonceLen {
		app = append(app, "ErrInvalidNonce")
	}
	if s.tagLen != 0 && len(tag) != s.tagLen {
		app = append(app, "ErrInvalidTag")
	}
	if (s.family == "cbc" || s.family == "cbcnopad") && len(ct)%16 != 0 {
		app = append(app, "ErrInvalidCiphertextLength")
	}
	if len(app) == 0 {
		return
	}
	if o.class == "ok" {
		c.Expect, c.Got = app[0], o.class
		h.res.Violate("sym-wrong-size-accepted", "wrong key/nonce/tag/ciphertext size or kind yielded output", c)
		return
	}
	for _, a := range app {
		if o.class == a {
			return
		}
	}
	c.Expect, c.Got = strings.Join(app, "|"), o.class
	h.res.Violate("sym-wrong-size-not-sentinel", "wrong size/kind did not yield the package's sentinel", c)
}

// ---------------------------------------------------------------- generators

func (h *H) msgLens(s algSpec, tier string) []int {
	var ls []int
	switch s.family {
	case "kw":
		// 6·n steps: the step counter t = n·j+i exceeds one byte from n = 43 (344 bytes) — lengths
		// on both sides of that boundary (two bytes would need 87 KB of key data: too slow for the
		// list-based Lean model, not generated)
		ls = []int{16, 24, 32, 40, 48, 64, 336, 344, 520, 8 * h.rng.Range(43, 130)}
		if tier == "thorough" {
			ls = append(ls, 56, 72, 128, 8*h.rng.Range(10, 40), 2056)
		}
	case "cbcnopad":
		ls = []int{0, 16, 32, 48, 64}
		if tier == "thorough" {
			ls = append(ls, 16*h.rng.Range(5, 20))
		}
	default:
		ls = []int{0, 1, 15, 16, 17, 31, 32, 33, 47, 48, 49, 63, 64, h.rng.Range(65, 200)}
		if tier == "thorough" {
			ls = append(ls, h.rng.Range(65, 400), h.rng.Range(200, 1000))
		}
	}
	return ls
}

func (h *H) ads() [][]byte {
	return [][]byte{nil, {0x41}, h.rng.Bytes(13), h.rng.Bytes(64), {}, h.rng.Bytes(8)}
}

// roundTrips: valid sizes; encrypt (both entry points), compare with the model byte for byte,
// decrypt, check inversion; then tamper with every byte of every component.
func (h *H) roundTrips() {
	tier := h.f.Tier
	for _, alg := range symNames() {
		s, ok := specs[alg]
		if !ok {
			h.res.Violate("sym-unlisted-name", "SupportedSymmetricAlgorithms lists a name the harness has no standard for: "+alg, Case{Family: "sym", Alg: alg})
			continue
		}
		lens := h.msgLens(s, tier)
		for li, n := range lens {
			for ai, ad := range h.ads() {
				if s.family == "kw" && ai > 0 { // AD and nonce are not inputs of key wrap
					continue
				}
				if tier == "quick" && ai >= 2 && li%3 != 0 {
					continue
				}
				key := h.rng.Bytes(s.keyLen)
				nonce := h.rng.Bytes(s.nonceLen)
				pt := h.rng.Bytes(n)
				jk, _ := h.octKey(key)
				fn := "EncryptSymmetric"
				dfn := "DecryptSymmetric"
				if (li+ai)%2 == 1 {
					fn, dfn = "Encrypt", "Decrypt"
				}
				c := Case{Family: "sym", Monitor: "roundtrip", Fn: fn, Alg: alg, Kind: "oct", Key: hx(key), Nonce: hx(nonce), Data: hx(pt), AD: hx(ad)}
				eo := callEnc(fn, alg, jk, nonce, pt, ad)
				line := symLine(fn, alg, "oct", key, nonce, pt, nil, ad)
				h.res.Count(line, nontrivialClass(eo.class))
				h.res.Hit("sym:enc:" + alg)
				h.res.Hit("outcome:" + eo.class)
				h.res.Hit(fmt.Sprintf("ptlen:%d", bucketLen(n)))
				h.encMonitor(c, s, true, true, key, nonce, pt, eo)
				if s.family == "kw" {
					h.kwInteropMonitor(c, key, pt, outcome{class: eo.class, a: eo.a})
				}
				h.interopMonitor(c, alg, s, key, nonce, pt, ad, eo)
				h.queue("encrypt output = model(Lean-native primitives)", line, canonEnc(eo), c)
				if eo.class != "ok" {
					continue
				}
				h.res.Sample(map[string]any{"alg": alg, "ptlen": n, "adlen": len(ad), "ct": hx(eo.a), "tag": hx(eo.b)})
				// lengths the standards fix
				if s.tagLen != len(eo.b) {
					h.res.Violate("sym-tag-length", fmt.Sprintf("tag length %d, standard says %d", len(eo.b), s.tagLen), c)
				}
				// inversion
				do := callDec(dfn, alg, jk, nonce, eo.a, eo.b, ad)
				dc := c
				dc.Fn, dc.Data, dc.Tag, dc.Orig = dfn, hx(eo.a), hx(eo.b), hx(pt)
				dline := symLine(dfn, alg, "oct", key, nonce, eo.a, eo.b, ad)
				h.res.Count(dline, nontrivialClass(do.class))
				h.res.Hit("sym:dec:" + alg)
				if do.class != "ok" || !bytesEq(do.a, pt) {
					dc.Expect, dc.Got = "ok pt="+hx(pt), canonDec(do)
					h.res.Violate("sym-roundtrip", "Decrypt(Encrypt(p)) != p", dc)
				}
				h.queue("decrypt output = model(Lean-native primitives)", dline, canonDec(do), dc)
				// tampering
				if (tier == "quick" && !(li%4 == 0 || n == 17 || n == 16)) || n > 600 {
					continue
				}
				h.tamperAll(dfn, alg, s, jk, key, nonce, eo.a, eo.b, ad, pt)
			}
		}
	}
}

func bucketLen(n int) int {
	switch {
	case n <= 64:
		return n
	case n < 256:
		return 128
	}
	return 1024
}

func bytesEq(a, b []byte) bool {
	if len(a) != len(b) {
		return false
	}
	for i := range a {
		if a[i] != b[i] {
			return false
		}
	}
	return true
}

// tamperAll applies every single-byte mutation to every component of a valid output.
func (h *H) tamperAll(dfn, alg string, s algSpec, jk jwk.Key, key, nonce, ct, tag, ad, pt []byte) {
	comps := []struct {
		name string
		b    []byte
	}{{"ct", ct}, {"tag", tag}, {"nonce", nonce}, {"ad", ad}}
	for ci, comp := range comps {
		if s.family == "kw" && ci > 0 {
			continue // key wrap has no tag/nonce/ad inputs
		}
		if (s.family == "cbc" || s.family == "cbcnopad") && (comp.name == "tag" || comp.name == "ad") {
			continue // ignored by design (documented)
		}
		for i := range comp.b {
			x := byte(h.rng.Range(1, 255))
			if h.f.Tier == "thorough" && i%5 == 0 {
				x = 1 << uint(h.rng.Intn(8)) // single-bit flips as well
			}
			m := cp(comp.b)
			m[i] ^= x
			n2, c2, t2, a2 := nonce, ct, tag, ad
			switch comp.name {
			case "ct":
				c2 = m
			case "tag":
				t2 = m
			case "nonce":
				n2 = m
			case "ad":
				a2 = m
			}
			o := callDec(dfn, alg, jk, n2, c2, t2, a2)
			c := Case{Family: "sym", Monitor: "tamper", Fn: dfn, Alg: alg, Kind: "oct", Key: hx(key), Nonce: hx(n2), Data: hx(c2), Tag: hx(t2), AD: hx(a2),
				Mut: fmt.Sprintf("%s[%d]^=0x%02x", comp.name, i, x), Orig: hx(pt)}
			line := symLine(dfn, alg, "oct", key, n2, c2, t2, a2)
			h.res.Count(line, nontrivialClass(o.class))
			h.res.Hit("mutation:" + comp.name)
			h.res.Hit("tamper-outcome:" + o.class)
			h.tamperMonitor(c, s, pt, o)
			h.queue("tampered input rejected exactly when the model rejects it", line, canonDec(o), c)
		}
	}
}

func (h *H) tamperMonitor(c Case, s algSpec, pt []byte, o outcome) {
	if o.class == "panic" || o.class == "timeout" {
		h.res.Violate("sym-"+o.class, "decryption of a tampered input "+o.class+": "+o.msg, c)
		return
	}
	if o.class != "ok" && len(o.a) != 0 {
		h.res.Violate("sym-error-with-output", "decryption returned an error AND output", c)
	}
	if s.auth {
		if o.class == "ok" {
			c.Expect, c.Got = "error", canonDec(o)
			h.res.Violate("sym-tamper-accepted", "a changed "+strings.SplitN(c.Mut, "[", 2)[0]+" of an authenticated algorithm was not rejected", c)
		}
		return
	}
	// unauthenticated CBC: a change can only be noticed through the padding; it must at least
	// never be silently ignored (same plaintext returned for a different ciphertext/IV)
	if o.class == "ok" && bytesEq(o.a, pt) && c.Data != "" { // with zero blocks the IV is not an input
		h.res.Violate("sym-tamper-ignored", "a changed ciphertext/IV decrypted to the original plaintext", c)
	}
}

// sizeSweeps: every name × wrong key sizes / nonce sizes 0..32 / tag sizes 0..32 / misaligned
// lengths / wrong key kinds, for both directions and both entry points.
func (h *H) sizeSweeps() {
	keySizes := []int{1, 8, 15, 16, 17, 23, 24, 25, 31, 32, 33, 47, 48, 49, 63, 64, 65, 128}
	kinds := []string{"rsaPriv", "rsaPub", "ecP256Priv", "ecP256Pub", "ed25519Priv", "ed25519Pub", "x25519Priv"}
	for ni, alg := range symNames() {
		s := specs[alg]
		fn, dfn := "EncryptSymmetric", "DecryptSymmetric"
		if ni%2 == 1 {
			fn, dfn = "Encrypt", "Decrypt"
		}
		okKey := h.rng.Bytes(s.keyLen)
		okNonce := h.rng.Bytes(s.nonceLen)
		ptLen := 32
		pt := h.rng.Bytes(ptLen)
		ad := h.rng.Bytes(5)
		jkOK, _ := h.octKey(okKey)
		// a valid ciphertext to decrypt with wrong sizes
		valid := callEnc(fn, alg, jkOK, okNonce, pt, ad)
		vct, vtag := valid.a, valid.b
		if valid.class != "ok" {
			vct, vtag = h.rng.Bytes(32), h.rng.Bytes(s.tagLen)
		}
		one := func(kind string, jk jwk.Key, key, nonce, p, ct, tag []byte, what string) {
			kindOK := kind == "oct"
			c := Case{Family: "sym", Monitor: "sizes", Fn: fn, Alg: alg, Kind: kind, Key: hx(key), Nonce: hx(nonce), Data: hx(p), AD: hx(ad), Mut: what}
			eo := callEnc(fn, alg, jk, nonce, p, ad)
			line := symLine(fn, alg, kind, key, nonce, p, nil, ad)
			h.res.Count(line, nontrivialClass(eo.class))
			h.res.Hit("outcome:" + eo.class)
			h.res.Hit("sweep:" + what)
			h.encMonitor(c, s, true, kindOK, key, nonce, p, eo)
			h.queue("size/kind guards: encrypt outcome class = model", line, canonEnc(eo), c)
			dc := c
			dc.Fn, dc.Data, dc.Tag = dfn, hx(ct), hx(tag)
			do := callDec(dfn, alg, jk, nonce, ct, tag, ad)
			dline := symLine(dfn, alg, kind, key, nonce, ct, tag, ad)
			h.res.Count(dline, nontrivialClass(do.class))
			h.res.Hit("outcome:" + do.class)
			h.decSizeMonitor(dc, s, true, kindOK, key, nonce, ct, tag, do)
			h.queue("size/kind guards: decrypt outcome class = model", dline, canonDec(do), dc)
		}
		for _, ks := range keySizes {
			if ks == s.keyLen {
				continue
			}
			key := h.rng.Bytes(ks)
			jk, ok := h.octKey(key)
			if !ok {
				continue
			}
			one("oct", jk, key, okNonce, pt, vct, vtag, "keysize")
		}
		for nl := 0; nl <= 32; nl++ {
			if nl == s.nonceLen {
				continue
			}
			one("oct", jkOK, okKey, h.rng.Bytes(nl), pt, vct, vtag, "noncesize")
		}
		for tl := 0; tl <= 32; tl++ {
			if tl == s.tagLen {
				continue
			}
			one("oct", jkOK, okKey, okNonce, pt, vct, h.rng.Bytes(tl), "tagsize")
		}
		if s.tagLen > 0 && valid.class == "ok" {
			// a PREFIX of the genuine tag (truncated tag) and the genuine tag plus extra bytes
			for tl := 0; tl <= s.tagLen+4; tl++ {
				if tl == s.tagLen {
					continue
				}
				t := append(cp(vtag), 0, 0, 0, 0)[:tl]
				one("oct", jkOK, okKey, okNonce, pt, vct, t, "tagsize-genuine-prefix")
			}
		}
		for _, pl := range []int{1, 7, 8, 9, 15, 17, 24, 31, 33, 40} {
			one("oct", jkOK, okKey, okNonce, h.rng.Bytes(pl), h.rng.Bytes(pl), vtag, "datalen")
		}
		for _, kind := range kinds {
			one(kind, h.keys[kind], nil, okNonce, pt, vct, vtag, "keykind")
		}
		// everything wrong at once, random
		reps := 6
		if h.f.Tier == "thorough" {
			reps = 40
		}
		for r := 0; r < reps; r++ {
			key := h.rng.Bytes(h.rng.Range(1, 70))
			jk, ok := h.octKey(key)
			if !ok {
				continue
			}
			n := h.rng.Range(0, 80)
			one("oct", jk, key, h.rng.Bytes(h.rng.Range(0, 32)), h.rng.Bytes(n), h.rng.Bytes(n), h.rng.Bytes(h.rng.Range(0, 32)), "random-sizes")
		}
	}
}

// junkNames: names outside the supported list must yield ErrUnsupportedAlgorithm and no output.
func (h *H) junkNames() {
	names := []string{"A128", "A12", "A", "a128cbc", "A128CBC_", "A512GCM", "A128GCMKW", "A192GCMKW", "A256GCMKW", "RS256", "EdDSA", "RSA1_5", "ECDH-ES", "ECDH-ES+A128KW",
		"HS256", "A128CBC-HS512", "A128CBC-NOPAD-", "C20", "XC20PK", "A128KWW", "A128cbc", "AES", "none", "A128CBC-HS256x", "XA128CBC"}
	for i := 0; i < 20; i++ {
		b := h.rng.Bytes(h.rng.Range(1, 12))
		for j := range b {
			b[j] = "ABCDEFGHKPSWXY0123456789-_+acg"[int(b[j])%30]
		}
		names = append(names, string(b))
	}
	key := h.rng.Bytes(16)
	jk, _ := h.octKey(key)
	nonce := h.rng.Bytes(16)
	pt := h.rng.Bytes(32)
	supported := map[string]bool{}
	for _, n := range symNames() {
		supported[n] = true
	}
	for _, name := range names {
		if supported[name] || !lineSafe(name) {
			continue
		}
		for _, fn := range []string{"EncryptSymmetric", "Encrypt"} {
			c := Case{Family: "sym", Monitor: "junkname", Fn: fn, Alg: name, Kind: "oct", Key: hx(key), Nonce: hx(nonce), Data: hx(pt)}
			isAsymRoute := fn == "Encrypt" && (strings.HasPrefix(name, "RSA") || strings.HasPrefix(name, "ECDH"))
			eo := callEnc(fn, name, jk, nonce, pt, nil)
			h.res.Count(fn+name, false)
			h.res.Hit("outcome:" + eo.class)
			if isAsymRoute {
				// routed to the public-key entry with an octet key: an error and no output
				if eo.class == "ok" || len(eo.a) != 0 {
					h.res.Violate("sym-wrong-size-accepted", "octet key accepted by a public-key algorithm", c)
				}
			} else {
				h.encMonitor(c, algSpec{}, false, true, key, nonce, pt, eo)
				h.queue("unknown name: encrypt outcome class = model", symLine(fn, name, "oct", key, nonce, pt, nil, nil), canonEnc(eo), c)
			}
			dfn := "DecryptSymmetric"
			if fn == "Encrypt" {
				dfn = "Decrypt"
			}
			do := callDec(dfn, name, jk, nonce, pt, nonce, nil)
			dc := c
			dc.Fn, dc.Tag = dfn, hx(nonce)
			h.res.Count(dfn+name, false)
			if isAsymRoute {
				if do.class == "ok" || len(do.a) != 0 {
					h.res.Violate("sym-wrong-size-accepted", "octet key accepted by a public-key algorithm", dc)
				}
			} else {
				h.decSizeMonitor(dc, algSpec{}, false, true, key, nonce, pt, nonce, do)
				h.queue("unknown name: decrypt outcome class = model", symLine(dfn, name, "oct", key, nonce, pt, nonce, nil), canonDec(do), dc)
			}
		}
	}
}

// ---------------------------------------------------------------- sub-packages called directly

func (h *H) kwDirect() {
	for _, kl := range []int{16, 24, 32} {
		key := h.rng.Bytes(kl)
		blk, _ := aes.NewCipher(key)
		maxLen := 64
		if h.f.Tier == "thorough" {
			maxLen = 96
		}
		var lens []int
		for n := 0; n <= maxLen; n++ {
			lens = append(lens, n)
		}
		// step counter t = n·j+i on both sides of the one-byte boundary (n = 43 ⇒ 344 bytes) and well beyond
		lens = append(lens, 256, 336, 344, 352, 512, 1024, 2048, 4096, 8*h.rng.Range(43, 200))
		for _, n := range lens {
			data := h.rng.Bytes(n)
			// Wrap
			wo := guarded(func() outcome {
				w, err := aeskw.Wrap(blk, cp(data))
				return outcome{class: classify(err), a: w}
			})
			c := Case{Family: "kw", Monitor: "kw-wrap", Key: hx(key), Data: hx(data)}
			line := fmt.Sprintf("kw dir=wrap key=%s data=%s", hx(key), hx(data))
			h.res.Count(line, nontrivialClass(wo.class))
			h.res.Hit("kw:wrap:" + wo.class)
			h.kwWrapMonitor(c, data, wo)
			h.kwInteropMonitor(c, key, data, wo)
			h.queue("aeskw.Wrap = model wrap (= Kit.Crypto.kwWrap)", line, canonOut(wo), c)
			// Unwrap of arbitrary bytes of every length
			uo := h.unwrapCall(key, blk, data)
			uc := Case{Family: "kw", Monitor: "kw-unwrap-arbitrary", Key: hx(key), Data: hx(data)}
			uline := fmt.Sprintf("kw dir=unwrap key=%s data=%s", hx(key), hx(data))
			h.res.Count(uline, nontrivialClass(uo.class))
			h.res.Hit("kw:unwrap:" + uo.class)
			h.kwUnwrapMonitor(uc, nil, data, uo)
			h.queue("aeskw.Unwrap = model unwrap (= Kit.Crypto.kwUnwrap)", uline, canonOut(uo), uc)
			if wo.class != "ok" {
				continue
			}
			// inversion, then: trailing bytes, truncation, every single-byte mutation
			ro := h.unwrapCall(key, blk, wo.a)
			rc := Case{Family: "kw", Monitor: "kw-roundtrip", Key: hx(key), Data: hx(wo.a), Orig: hx(data)}
			if ro.class != "ok" || !bytesEq(ro.a, data) {
				rc.Got = canonOut(ro)
				h.res.Violate("aeskw-roundtrip", "Unwrap(Wrap(cek)) != cek", rc)
			}
			h.queue("aeskw.Unwrap = model unwrap (= Kit.Crypto.kwUnwrap)", fmt.Sprintf("kw dir=unwrap key=%s data=%s", hx(key), hx(wo.a)), canonOut(ro), rc)
			for extra := 1; extra <= 17; extra++ {
				in := append(cp(wo.a), h.rng.Bytes(extra)...)
				o := h.unwrapCall(key, blk, in)
				tc := Case{Family: "kw", Monitor: "kw-changed", Key: hx(key), Data: hx(in), Orig: hx(data), Mut: fmt.Sprintf("append %d bytes", extra)}
				l := fmt.Sprintf("kw dir=unwrap key=%s data=%s", hx(key), hx(in))
				h.res.Count(l, nontrivialClass(o.class))
				h.res.Hit("mutation:wrapped-append")
				h.kwUnwrapMonitor(tc, data, in, o)
				h.queue("aeskw.Unwrap = model unwrap (= Kit.Crypto.kwUnwrap)", l, canonOut(o), tc)
			}
			for cut := 1; cut <= len(wo.a); cut += 1 + cut/9 {
				in := cp(wo.a[:len(wo.a)-cut])
				o := h.unwrapCall(key, blk, in)
				tc := Case{Family: "kw", Monitor: "kw-changed", Key: hx(key), Data: hx(in), Orig: hx(data), Mut: fmt.Sprintf("truncate %d bytes", cut)}
				l := fmt.Sprintf("kw dir=unwrap key=%s data=%s", hx(key), hx(in))
				h.res.Count(l, nontrivialClass(o.class))
				h.res.Hit("mutation:wrapped-truncate")
				h.kwUnwrapMonitor(tc, data, in, o)
				h.queue("aeskw.Unwrap = model unwrap (= Kit.Crypto.kwUnwrap)", l, canonOut(o), tc)
			}
			if n%8 == 0 && n <= 96 && (h.f.Tier == "thorough" || n <= 32) {
				for i := range wo.a {
					in := cp(wo.a)
					x := byte(h.rng.Range(1, 255))
					in[i] ^= x
					o := h.unwrapCall(key, blk, in)
					tc := Case{Family: "kw", Monitor: "kw-changed", Key: hx(key), Data: hx(in), Orig: hx(data), Mut: fmt.Sprintf("wrapped[%d]^=0x%02x", i, x)}
					l := fmt.Sprintf("kw dir=unwrap key=%s data=%s", hx(key), hx(in))
					h.res.Count(l, nontrivialClass(o.class))
					h.res.Hit("mutation:wrapped")
					h.kwUnwrapMonitor(tc, data, in, o)
					h.queue("aeskw.Unwrap = model unwrap (= Kit.Crypto.kwUnwrap)", l, canonOut(o), tc)
				}
			}
		}
	}
}

func (h *H) unwrapCall(kek []byte, blk interface {
	BlockSize() int
	Encrypt(dst, src []byte)
	Decrypt(dst, src []byte)
}, in []byte) outcome {
	o := guarded(func() outcome {
		in2 := cp(in)
		p, err := aeskw.Unwrap(blk, in2)
		return outcome{class: classify(err), a: p, inMod: inputsChanged([]string{"wrapped key"}, [][]byte{in2}, [][]byte{in})}
	})
	if o.inMod != "" {
		h.res.Violate("sym-input-modified", "aeskw.Unwrap modified the caller's wrapped key", Case{Family: "kw", Monitor: "input-integrity", Key: hx(kek), Data: hx(in), Mut: o.inMod})
	}
	return o
}

func canonOut(o outcome) string {
	switch o.class {
	case "ok":
		return "ok out=" + hx(o.a)
	case "panic", "timeout":
		return o.class
	}
	return "err " + o.class
}

func (h *H) kwWrapMonitor(c Case, data []byte, o outcome) {
	if o.class == "panic" || o.class == "timeout" {
		h.res.Violate("aeskw-wrap-"+o.class, "aeskw.Wrap "+o.class+": "+o.msg, c)
		return
	}
	inDomain := len(data)%8 == 0 && len(data) >= 16 // RFC 3394 section 2: n >= 2 blocks of 64 bits
	if inDomain && (o.class != "ok" || len(o.a) != len(data)+8) {
		c.Got = canonOut(o)
		h.res.Violate("aeskw-wrap-valid-rejected", "Wrap of valid key data failed or has the wrong length", c)
	}
	if !inDomain && (o.class == "ok" || len(o.a) != 0) {
		c.Got = canonOut(o)
		h.res.Violate("aeskw-wrap-outside-domain", "Wrap accepted key data outside RFC 3394's domain", c)
	}
}

// rfc3394Wrap is an independent implementation written from RFC 3394 section 2.2.1 (index based:
// A = IV, R[1..n] = P[1..n]; for j = 0..5, for i = 1..n: B = AES(K, A | R[i]); A = MSB64(B) ^ t with
// t = n*j+i as a 64-bit big-endian integer; R[i] = LSB64(B); output A | R[1] | … | R[n]).
func rfc3394Wrap(kek, p []byte) []byte {
	blk, err := aes.NewCipher(kek)
	if err != nil || len(p)%8 != 0 || len(p) < 16 {
		return nil
	}
	n := len(p) / 8
	out := make([]byte, 8+len(p))
	for i := 0; i < 8; i++ {
		out[i] = 0xA6
	}
	copy(out[8:], p)
	var b [16]byte
	for j := 0; j <= 5; j++ {
		for i := 1; i <= n; i++ {
			copy(b[:8], out[:8])
			copy(b[8:], out[8*i:8*i+8])
			blk.Encrypt(b[:], b[:])
			t := uint64(n*j + i)
			for k := 0; k < 8; k++ {
				b[7-k] ^= byte(t >> (8 * uint(k)))
			}
			copy(out[:8], b[:8])
			copy(out[8*i:], b[8:])
		}
	}
	return out
}

// kwInteropMonitor: the wrapped key must be the one any RFC 3394 implementation produces
// (model-independent: judged against rfc3394Wrap above).
func (h *H) kwInteropMonitor(c Case, key, data []byte, o outcome) {
	if o.class != "ok" {
		return
	}
	want := rfc3394Wrap(key, data)
	if want == nil {
		return
	}
	h.res.Hit("kw:interop-checked")
	if !bytesEq(o.a, want) {
		c.Expect, c.Got = "ok out="+hx(want), canonOut(o)
		h.res.Violate("aeskw-interop-mismatch", "Wrap output differs from RFC 3394 (an independent implementation cannot unwrap it)", c)
		return
	}
	// cross-unwrap both ways: the reference unwraps kit's output, kit unwraps the reference's output
	if p, ok := rfc3394Unwrap(key, o.a); !ok || !bytesEq(p, data) {
		h.res.Violate("aeskw-interop-mismatch", "an independent RFC 3394 Unwrap does not recover the key data from kit's Wrap output", c)
	}
	blk, _ := aes.NewCipher(key)
	if uo := h.unwrapCall(key, blk, want); uo.class != "ok" || !bytesEq(uo.a, data) {
		c.Got = canonOut(uo)
		h.res.Violate("aeskw-interop-mismatch", "kit's Unwrap does not recover the key data from an independent RFC 3394 Wrap", c)
	}
}

// rfc3394Unwrap: RFC 3394 section 2.2.2, index based, independent of dapr/kit.
func rfc3394Unwrap(kek, c []byte) ([]byte, bool) {
	blk, err := aes.NewCipher(kek)
	if err != nil || len(c)%8 != 0 || len(c) < 24 {
		return nil, false
	}
	n := len(c)/8 - 1
	buf := cp(c)
	var b [16]byte
	for j := 5; j >= 0; j-- {
		for i := n; i >= 1; i-- {
			copy(b[:8], buf[:8])
			t := uint64(n*j + i)
			for k := 0; k < 8; k++ {
				b[7-k] ^= byte(t >> (8 * uint(k)))
			}
			copy(b[8:], buf[8*i:8*i+8])
			blk.Decrypt(b[:], b[:])
			copy(buf[:8], b[:8])
			copy(buf[8*i:], b[8:])
		}
	}
	for i := 0; i < 8; i++ {
		if buf[i] != 0xA6 {
			return nil, false
		}
	}
	return buf[8:], true
}

// kwHuge (thorough): key data of n >= 10923 blocks, so that the step counter exceeds two bytes;
// judged by the independent Go reference only (the list-based Lean model is too slow at 87 KiB).
func (h *H) kwHuge() {
	if h.f.Tier != "thorough" {
		return
	}
	for _, kl := range []int{16, 24, 32} {
		key := h.rng.Bytes(kl)
		blk, _ := aes.NewCipher(key)
		data := h.rng.Bytes(8 * (10923 + h.rng.Intn(50)))
		wo := guarded(func() outcome {
			w, err := aeskw.Wrap(blk, cp(data))
			return outcome{class: classify(err), a: w}
		})
		c := Case{Family: "kw", Monitor: "kw-wrap", Key: hx(key), Data: hx(data)}
		h.res.Count(fmt.Sprintf("kw huge %d %d", kl, len(data)), true)
		h.res.Hit("kw:huge")
		h.kwWrapMonitor(c, data, wo)
		h.kwInteropMonitor(c, key, data, wo)
	}
}

// kwUnwrapMonitor: `orig` != nil means `in` is a CHANGED version of a valid wrapped key of orig.
func (h *H) kwUnwrapMonitor(c Case, orig, in []byte, o outcome) {
	if o.class == "panic" || o.class == "timeout" {
		h.res.Violate("aeskw-unwrap-"+o.class, "aeskw.Unwrap "+o.class+": "+o.msg, c)
		return
	}
	if o.class != "ok" && len(o.a) != 0 {
		h.res.Violate("aeskw-error-with-output", "Unwrap returned an error AND output", c)
	}
	if (len(in) < 24 || len(in)%8 != 0) && o.class == "ok" {
		c.Got = canonOut(o)
		id := "aeskw-unwrap-bad-length-accepted"
		if orig != nil && len(in)%8 != 0 && len(in) > len(orig)+8 {
			id = "aeskw-unwrap-trailing-bytes"
		}
		h.res.Violate(id, "Unwrap accepted an input that no Wrap can produce (wrong length)", c)
		return
	}
	if orig != nil && o.class == "ok" {
		c.Got = canonOut(o)
		h.res.Violate("aeskw-changed-wrapped-key-accepted", "a changed wrapped key was not rejected", c)
	}
}

func (h *H) padDirect() {
	sizes := []int{-1, 0, 1, 2, 3, 8, 16, 255, 256, 1000}
	for _, size := range sizes {
		maxLen := 40
		for n := 0; n <= maxLen; n++ {
			buf := h.rng.Bytes(n)
			po := guarded(func() outcome {
				b, err := padding.PadPKCS7(cp(buf), size)
				return outcome{class: classify(err), a: b}
			})
			c := Case{Family: "pad", Monitor: "pad", Size: size, Data: hx(buf)}
			h.res.Count(fmt.Sprintf("pad %d %x", size, buf), po.class == "ok")
			h.res.Hit("pad:" + po.class)
			valid := size > 1 && size < 256
			if po.class == "panic" || po.class == "timeout" {
				h.res.Violate("pkcs7-"+po.class, "PadPKCS7 "+po.class+": "+po.msg, c)
				continue
			}
			if !valid {
				if po.class == "ok" || len(po.a) != 0 {
					h.res.Violate("pkcs7-bad-size-accepted", "PadPKCS7 accepted an invalid block size", c)
				}
			} else {
				k := size - n%size
				okShape := po.class == "ok" && len(po.a) == n+k && bytesEq(po.a[:n], buf)
				if okShape {
					for _, b := range po.a[n:] {
						if int(b) != k {
							okShape = false
						}
					}
				}
				if !okShape {
					c.Got = canonOut(po)
					h.res.Violate("pkcs7-pad-shape", "PadPKCS7 output is not buf ‖ k×k with k = size − len mod size", c)
				}
			}
			if size >= 0 {
				h.queue("padding.PadPKCS7 = model pad", fmt.Sprintf("pad dir=pad size=%d data=%s", size, hx(buf)), canonOut(po), c)
			}
			if po.class == "ok" {
				uo := h.unpadCall(po.a, size)
				if uo.class != "ok" || !bytesEq(uo.a, buf) {
					c.Got = canonOut(uo)
					h.res.Violate("pkcs7-roundtrip", "UnpadPKCS7(PadPKCS7(b)) != b", c)
				}
				// every single-byte change inside the padding must be rejected
				for i := n; i < len(po.a); i++ {
					m := cp(po.a)
					m[i] ^= byte(h.rng.Range(1, 255))
					mo := h.unpadCall(m, size)
					mc := Case{Family: "pad", Monitor: "unpad", Size: size, Data: hx(m), Mut: fmt.Sprintf("padding[%d]", i-n)}
					h.res.Hit("mutation:padding")
					h.unpadMonitor(mc, m, size, mo)
					h.queue("padding.UnpadPKCS7 = model unpad", fmt.Sprintf("pad dir=unpad size=%d data=%s", size, hx(m)), canonOut(mo), mc)
				}
			}
			// arbitrary buffers
			uo := h.unpadCall(buf, size)
			uc := Case{Family: "pad", Monitor: "unpad", Size: size, Data: hx(buf)}
			h.res.Count(fmt.Sprintf("unpad %d %x", size, buf), uo.class == "ok" || uo.class == "pkcs7:padding")
			h.res.Hit("unpad:" + uo.class)
			h.unpadMonitor(uc, buf, size, uo)
			if size >= 0 {
				h.queue("padding.UnpadPKCS7 = model unpad", fmt.Sprintf("pad dir=unpad size=%d data=%s", size, hx(buf)), canonOut(uo), uc)
			}
		}
	}
}

func (h *H) unpadCall(b []byte, size int) outcome {
	return guarded(func() outcome {
		out, err := padding.UnpadPKCS7(cp(b), size)
		return outcome{class: classify(err), a: out}
	})
}

// unpadMonitor: a non-empty buffer is accepted iff it is whole blocks ending in k bytes of value k,
// 1 <= k <= size, and then exactly those k bytes are removed.
func (h *H) unpadMonitor(c Case, buf []byte, size int, o outcome) {
	if o.class == "panic" || o.class == "timeout" {
		h.res.Violate("pkcs7-"+o.class, "UnpadPKCS7 "+o.class+": "+o.msg, c)
		return
	}
	if size <= 1 || size >= 256 {
		if o.class == "ok" {
			h.res.Violate("pkcs7-bad-size-accepted", "UnpadPKCS7 accepted an invalid block size", c)
		}
		return
	}
	if len(buf) == 0 {
		return // the empty buffer is returned unchanged (documented behaviour of this package)
	}
	valid := false
	k := int(buf[len(buf)-1])
	if len(buf)%size == 0 && k >= 1 && k <= size && k <= len(buf) {
		valid = true
		for _, b := range buf[len(buf)-k:] {
			if int(b) != k {
				valid = false
			}
		}
	}
	if valid && (o.class != "ok" || !bytesEq(o.a, buf[:len(buf)-k])) {
		c.Got = canonOut(o)
		h.res.Violate("pkcs7-valid-rejected", "valid PKCS#7 padding rejected or stripped wrongly", c)
	}
	if !valid && o.class == "ok" {
		c.Got = canonOut(o)
		h.res.Violate("pkcs7-invalid-accepted", "a tail that is not PKCS#7 padding was accepted", c)
	}
}

func (h *H) cbcHmacDirect() {
	type ctor struct {
		name   string
		keyLen int
		tagLen int
		mk     func([]byte) (aeadIface, error)
	}
	ctors := []ctor{
		{"NewAESCBC128SHA256", 32, 16, func(k []byte) (aeadIface, error) { return aescbcaead.NewAESCBC128SHA256(k) }},
		{"NewAESCBC192SHA384", 48, 24, func(k []byte) (aeadIface, error) { return aescbcaead.NewAESCBC192SHA384(k) }},
		{"NewAESCBC256SHA384", 56, 24, func(k []byte) (aeadIface, error) { return aescbcaead.NewAESCBC256SHA384(k) }},
		{"NewAESCBC256SHA512", 64, 32, func(k []byte) (aeadIface, error) { return aescbcaead.NewAESCBC256SHA512(k) }},
	}
	for _, ct := range ctors {
		for _, kl := range []int{ct.keyLen - 1, ct.keyLen + 1, 0} {
			if _, err := ct.mk(h.rng.Bytes(kl)); err == nil {
				h.res.Violate("cbchmac-bad-key-accepted", "aescbcaead constructor accepted a key of the wrong size", Case{Family: "cbchmac", Alg: ct.name, Size: kl})
			}
		}
		lens := []int{0, 1, 15, 16, 17, 32, 33, 64}
		for _, n := range lens {
			key := h.rng.Bytes(ct.keyLen)
			nonce := h.rng.Bytes(16)
			pt := h.rng.Bytes(n)
			ad := h.rng.Bytes(h.rng.Intn(20))
			a, err := ct.mk(key)
			if err != nil {
				h.res.Violate("cbchmac-ctor", "aescbcaead constructor rejected a key of the right size", Case{Family: "cbchmac", Alg: ct.name})
				continue
			}
			so := guarded(func() outcome { return outcome{class: "ok", a: a.Seal(nil, cp(nonce), cp(pt), cp(ad))} })
			c := Case{Family: "cbchmac", Monitor: "cbchmac-seal", Alg: ct.name, Key: hx(key), Nonce: hx(nonce), Data: hx(pt), AD: hx(ad)}
			line := fmt.Sprintf("cbchmac dir=seal ctor=%s key=%s nonce=%s data=%s ad=%s", ct.name, hx(key), hx(nonce), hx(pt), hx(ad))
			h.res.Count(line, true)
			h.res.Hit("cbchmac:seal:" + ct.name)
			h.queue("aescbcaead.Seal = model cbcHmacSeal", line, canonOut(so), c)
			if so.class != "ok" {
				h.res.Violate("cbchmac-seal-"+so.class, "Seal "+so.class+": "+so.msg, c)
				continue
			}
			wantLen := (n/16+1)*16 + ct.tagLen
			if len(so.a) != wantLen {
				h.res.Violate("cbchmac-length", fmt.Sprintf("Seal output %d bytes, RFC 7518 says %d", len(so.a), wantLen), c)
			}
			open := func(nn, cc, aa []byte) outcome {
				return guarded(func() outcome {
					p, err := a.Open(nil, cp(nn), cp(cc), cp(aa))
					return outcome{class: classify(err), a: p}
				})
			}
			oo := open(nonce, so.a, ad)
			if oo.class != "ok" || !bytesEq(oo.a, pt) {
				c.Got = canonOut(oo)
				h.res.Violate("cbchmac-roundtrip", "Open(Seal(p)) != p", c)
			}
			oline := func(nn, cc, aa []byte) string {
				return fmt.Sprintf("cbchmac dir=open ctor=%s key=%s nonce=%s data=%s ad=%s", ct.name, hx(key), hx(nn), hx(cc), hx(aa))
			}
			h.queue("aescbcaead.Open = model cbcHmacOpen", oline(nonce, so.a, ad), canonOut(oo), c)
			// every single-byte mutation of ciphertext‖tag, nonce, ad; truncations of the whole
			for i := range so.a {
				m := cp(so.a)
				m[i] ^= byte(h.rng.Range(1, 255))
				o := open(nonce, m, ad)
				mc := Case{Family: "cbchmac", Monitor: "cbchmac-tamper", Alg: ct.name, Key: hx(key), Nonce: hx(nonce), Data: hx(m), AD: hx(ad), Mut: fmt.Sprintf("sealed[%d]", i), Orig: hx(pt)}
				h.res.Count(oline(nonce, m, ad), true)
				h.res.Hit("mutation:sealed")
				h.cbcHmacTamperMonitor(mc, o)
				h.queue("aescbcaead.Open = model cbcHmacOpen", oline(nonce, m, ad), canonOut(o), mc)
			}
			for i := range nonce {
				m := cp(nonce)
				m[i] ^= byte(h.rng.Range(1, 255))
				o := open(m, so.a, ad)
				mc := Case{Family: "cbchmac", Monitor: "cbchmac-tamper", Alg: ct.name, Key: hx(key), Nonce: hx(m), Data: hx(so.a), AD: hx(ad), Mut: fmt.Sprintf("nonce[%d]", i), Orig: hx(pt)}
				h.res.Hit("mutation:nonce")
				h.cbcHmacTamperMonitor(mc, o)
				h.queue("aescbcaead.Open = model cbcHmacOpen", oline(m, so.a, ad), canonOut(o), mc)
			}
			for i := range ad {
				m := cp(ad)
				m[i] ^= byte(h.rng.Range(1, 255))
				o := open(nonce, so.a, m)
				mc := Case{Family: "cbchmac", Monitor: "cbchmac-tamper", Alg: ct.name, Key: hx(key), Nonce: hx(nonce), Data: hx(so.a), AD: hx(m), Mut: fmt.Sprintf("ad[%d]", i), Orig: hx(pt)}
				h.res.Hit("mutation:ad")
				h.cbcHmacTamperMonitor(mc, o)
				h.queue("aescbcaead.Open = model cbcHmacOpen", oline(nonce, so.a, m), canonOut(o), mc)
			}
			// a key holder's message whose body is NOT block aligned but whose tag is right:
			// must be an error, not a panic in CryptBlocks
			if hf := macFor(ct.name); hf != nil {
				for _, bl := range []int{1, 15, 17, 33} {
					body := h.rng.Bytes(bl)
					mac := hmac.New(hf, key[:ct.keyLen-encLen(ct.name)])
					al := make([]byte, 8)
					binary.BigEndian.PutUint64(al, uint64(len(ad))*8)
					mac.Write(ad)
					mac.Write(nonce)
					mac.Write(body)
					mac.Write(al)
					forged := append(cp(body), mac.Sum(nil)[:ct.tagLen]...)
					o := open(nonce, forged, ad)
					fc := Case{Family: "cbchmac", Monitor: "cbchmac-misaligned", Alg: ct.name, Key: hx(key), Nonce: hx(nonce), Data: hx(forged), AD: hx(ad), Mut: "valid tag over a misaligned body"}
					h.res.Count(oline(nonce, forged, ad), true)
					h.res.Hit("cbchmac:misaligned-authentic")
					if o.class == "panic" || o.class == "timeout" {
						h.res.Violate("cbchmac-open-"+o.class, "Open of an authentic but misaligned message "+o.class+": "+o.msg, fc)
					} else if o.class == "ok" {
						h.res.Violate("cbchmac-misaligned-accepted", "Open accepted a body that is not whole blocks", fc)
					}
					h.queue("aescbcaead.Open = model cbcHmacOpen", oline(nonce, forged, ad), canonOut(o), fc)
				}
			}
			// a nonce that is not one block long, with a tag that verifies for it: an error, not a panic
			if hf := macFor(ct.name); hf != nil {
				for _, nl := range []int{0, 1, 15, 17, 32} {
					n2 := h.rng.Bytes(nl)
					body := so.a[:len(so.a)-ct.tagLen]
					mac := hmac.New(hf, key[:ct.keyLen-encLen(ct.name)])
					al := make([]byte, 8)
					binary.BigEndian.PutUint64(al, uint64(len(ad))*8)
					mac.Write(ad)
					mac.Write(n2)
					mac.Write(body)
					mac.Write(al)
					forged := append(cp(body), mac.Sum(nil)[:ct.tagLen]...)
					o := open(n2, forged, ad)
					fc := Case{Family: "cbchmac", Monitor: "cbchmac-misaligned", Alg: ct.name, Key: hx(key), Nonce: hx(n2), Data: hx(forged), AD: hx(ad), Mut: "valid tag under a nonce that is not 16 bytes"}
					h.res.Count(oline(n2, forged, ad), true)
					h.res.Hit("cbchmac:wrong-nonce-authentic")
					if o.class == "panic" || o.class == "timeout" {
						h.res.Violate("cbchmac-open-"+o.class, "Open with a nonce of the wrong size and a verifying tag "+o.class+": "+o.msg, fc)
					} else if o.class == "ok" {
						h.res.Violate("cbchmac-misaligned-accepted", "Open accepted a nonce that is not one block long", fc)
					}
					h.queue("aescbcaead.Open = model cbcHmacOpen", oline(n2, forged, ad), canonOut(o), fc)
				}
			}
			for cut := 1; cut <= len(so.a); cut += 1 + cut/5 {
				m := cp(so.a[:len(so.a)-cut])
				o := open(nonce, m, ad)
				mc := Case{Family: "cbchmac", Monitor: "cbchmac-tamper", Alg: ct.name, Key: hx(key), Nonce: hx(nonce), Data: hx(m), AD: hx(ad), Mut: fmt.Sprintf("truncate %d", cut), Orig: hx(pt)}
				h.res.Hit("mutation:sealed-truncate")
				h.cbcHmacTamperMonitor(mc, o)
				h.queue("aescbcaead.Open = model cbcHmacOpen", oline(nonce, m, ad), canonOut(o), mc)
			}
		}
	}
}

func macFor(ctor string) func() hash.Hash {
	switch ctor {
	case "NewAESCBC128SHA256":
		return sha256.New
	case "NewAESCBC192SHA384", "NewAESCBC256SHA384":
		return sha512.New384
	case "NewAESCBC256SHA512":
		return sha512.New
	}
	return nil
}

func encLen(ctor string) int {
	switch ctor {
	case "NewAESCBC128SHA256":
		return 16
	case "NewAESCBC192SHA384":
		return 24
	}
	return 32
}

type aeadIface interface {
	Seal(dst, nonce, plaintext, additionalData []byte) []byte
	Open(dst, nonce, ciphertext, additionalData []byte) ([]byte, error)
}

func (h *H) cbcHmacTamperMonitor(c Case, o outcome) {
	if o.class == "panic" || o.class == "timeout" {
		h.res.Violate("cbchmac-open-"+o.class, "Open of a tampered input "+o.class+": "+o.msg, c)
		return
	}
	if o.class == "ok" {
		c.Got = canonOut(o)
		h.res.Violate("cbchmac-tamper-accepted", "a changed ciphertext/tag/nonce/AD was not rejected", c)
	} else if len(o.a) != 0 {
		h.res.Violate("cbchmac-error-with-output", "Open returned an error AND output", c)
	}
	// tag is checked first: whatever the change did to the padding, the error is the MAC error
	if o.class != "ok" && o.class != "aead:auth" && !(o.class == "aead:size" && strings.HasPrefix(c.Mut, "truncate")) {
		c.Got = o.class
		h.res.Violate("cbchmac-tag-not-first", "a tampered input produced an error other than the authentication failure (padding oracle)", c)
	}
}

// ---------------------------------------------------------------- model comparison

func stripX(s string) (string, string) {
	i := strings.LastIndex(s, " x=")
	if i < 0 {
		return s, ""
	}
	return s[:i], s[i+3:]
}

var traceMu sync.Mutex

func (h *H) trace() {
	traceMu.Lock()
	h.res.Traces++
	traceMu.Unlock()
}

func (h *H) compareWithModel() {
	if h.f.Drv == "" {
		h.res.Note("model driver unavailable: monitors only")
		return
	}
	d, err := lib.StartDrv(h.f.Drv, "C03")
	if err != nil || d == nil {
		h.res.Note("cannot start model driver: " + fmt.Sprint(err))
		return
	}
	defer d.Close()
	outs, err := d.AskBatch(h.lines)
	if err != nil {
		h.res.Disagree("driver protocol", map[string]any{"error": err.Error(), "answered": len(outs)}, "driver died", "")
	}
	for i, m := range outs {
		body, x := stripX(m)
		body = strings.TrimSpace(body)
		impl := h.impls[i]
		if strings.HasPrefix(body, "panic ") {
			body = "panic"
		}
		if body != impl {
			h.res.Disagree(h.corr[i], map[string]any{"line": h.lines[i], "case": h.cases[i]}, m, impl)
			// The model runs on independent implementations of the standards (Lean-native AES, GCM,
			// ChaCha20-Poly1305, HMAC; RFC 3394 proved equal to the RFC's description). If the real code
			// SUCCEEDED on a valid input and produced other bytes — or accepted what the independent
			// implementation cannot open — that is a concrete interop failure, not only a broken tie.
			c := h.cases[i]
			genuine := c.Monitor == "roundtrip" || c.Monitor == "batch" || c.Monitor == "kw-wrap" || c.Monitor == "kw-roundtrip" || c.Monitor == "cbchmac-seal"
			if genuine && x != "differ" && strings.HasPrefix(impl, "ok") && (c.Family == "sym" || c.Family == "kw" || c.Family == "cbchmac") {
				c.Expect, c.Got = body, impl
				h.res.Violate("sym-interop-mismatch", "the output for a valid input differs from an independent implementation of the standard the algorithm name denotes (or only the real code can open it)", c)
			}
		} else {
			h.trace()
		}
		if x == "differ" {
			h.res.Disagree("hand-written model part (RFC 3394 / CBC / CBC-HMAC) vs independently written Kit.Crypto spec", map[string]any{"line": h.lines[i]}, m, impl)
		}
		if x == "agree" {
			h.res.Hit("xspec:agree")
		}
	}
}

// ---------------------------------------------------------------- replay

func (h *H) replay(path string) {
	b, err := os.ReadFile(path)
	if err != nil {
		fmt.Fprintln(os.Stderr, "replay:", err)
		os.Exit(3)
	}
	var rf struct {
		Case json.RawMessage `json:"case"`
	}
	if err := json.Unmarshal(b, &rf); err != nil {
		fmt.Fprintln(os.Stderr, "replay:", err)
		os.Exit(3)
	}
	var generic map[string]any
	_ = json.Unmarshal(rf.Case, &generic)
	if fam, _ := generic["family"].(string); fam == "asym" {
		if replayAsym(h.res, generic) {
			return
		}
	}
	if fam, _ := generic["family"].(string); fam == "repeat" {
		var rc Case
		if err := json.Unmarshal(rf.Case, &rc); err == nil {
			h.replayRepeat(rc)
		}
		return
	}
	if fam, _ := generic["family"].(string); fam == "name" {
		var nc Case
		if err := json.Unmarshal(rf.Case, &nc); err == nil {
			h.replayName(nc)
		}
		return
	}
	if fam, _ := generic["family"].(string); fam == "ed25519" {
		h.replayEd(generic)
		return
	}
	if fam, _ := generic["family"].(string); fam == "ecdsa" {
		h.replayEC(generic)
		return
	}
	if fam, _ := generic["family"].(string); fam == "rsa" {
		h.replayRSA(generic)
		return
	}
	if fam, _ := generic["family"].(string); fam == "kwgen" {
		var gc Case
		if err := json.Unmarshal(rf.Case, &gc); err == nil {
			h.replayKwGen(gc)
		}
		return
	}
	if fam, _ := generic["family"].(string); fam == "hist" || fam == "keyid" {
		var hc Case
		if err := json.Unmarshal(rf.Case, &hc); err == nil {
			if fam == "hist" {
				h.replayHist(hc)
			} else {
				h.replayKeyHist(hc)
			}
		}
		return
	}
	if fam, _ := generic["family"].(string); fam == "seq" {
		var sc Case
		if err := json.Unmarshal(rf.Case, &sc); err == nil {
			h.replaySeq(sc)
		}
		return
	}
	var c Case
	if err := json.Unmarshal(rf.Case, &c); err != nil {
		h.res.Note("replay: case is not a C03 case: " + err.Error())
		return
	}
	h.res.Count("replay", true)
	switch c.Family {
	case "sym":
		s, known := specs[c.Alg]
		key, nonce, data, tag, ad := unhx(c.Key), unhx(c.Nonce), unhx(c.Data), unhx(c.Tag), unhx(c.AD)
		var jk jwk.Key
		if c.Kind == "oct" {
			jk, _ = h.octKey(key)
		} else {
			jk = h.keys[c.Kind]
		}
		if strings.HasPrefix(c.Fn, "Encrypt") {
			o := callEnc(c.Fn, c.Alg, jk, nonce, data, ad)
			h.encMonitor(c, s, known, c.Kind == "oct", key, nonce, data, o)
			if s.family == "kw" {
				h.kwInteropMonitor(c, key, data, outcome{class: o.class, a: o.a})
			}
			h.queue("replay", symLine(c.Fn, c.Alg, c.Kind, key, nonce, data, nil, ad), canonEnc(o), c)
		} else {
			o := callDec(c.Fn, c.Alg, jk, nonce, data, tag, ad)
			if c.Monitor == "recut" {
				h.recutMonitor(c, s, o)
			} else if c.Monitor == "tamper" || c.Monitor == "roundtrip" {
				if c.Monitor == "tamper" {
					h.tamperMonitor(c, s, unhx(c.Orig), o)
				} else if o.class != "ok" || !bytesEq(o.a, unhx(c.Orig)) {
					h.res.Violate("sym-roundtrip", "Decrypt(Encrypt(p)) != p", c)
				}
			} else {
				h.decSizeMonitor(c, s, known, c.Kind == "oct", key, nonce, data, tag, o)
			}
			h.queue("replay", symLine(c.Fn, c.Alg, c.Kind, key, nonce, data, tag, ad), canonDec(o), c)
		}
	case "kw":
		key, data := unhx(c.Key), unhx(c.Data)
		blk, err := aes.NewCipher(key)
		if err != nil {
			h.res.Note("replay: bad kek")
			return
		}
		if c.Monitor == "kw-wrap" {
			o := guarded(func() outcome {
				w, err := aeskw.Wrap(blk, cp(data))
				return outcome{class: classify(err), a: w}
			})
			h.kwWrapMonitor(c, data, o)
			h.kwInteropMonitor(c, key, data, o)
		} else {
			o := h.unwrapCall(key, blk, data)
			var orig []byte
			if c.Orig != "" || c.Monitor == "kw-changed" {
				orig = unhx(c.Orig)
				if orig == nil {
					orig = []byte{}
				}
			}
			if c.Monitor == "kw-roundtrip" {
				if o.class != "ok" || !bytesEq(o.a, orig) {
					h.res.Violate("aeskw-roundtrip", "Unwrap(Wrap(cek)) != cek", c)
				}
			} else {
				h.kwUnwrapMonitor(c, orig, data, o)
			}
			h.queue("replay", fmt.Sprintf("kw dir=unwrap key=%s data=%s", c.Key, c.Data), canonOut(o), c)
		}
	case "pad":
		data := unhx(c.Data)
		if c.Monitor == "unpad" {
			h.unpadMonitor(c, data, c.Size, h.unpadCall(data, c.Size))
		}
	default:
		h.res.Note("replay: family " + c.Family + " is replayed by re-running the generator with the stored seed")
	}
}

// corpus: past findings (corpus/C03/*.case, same format as replay files) run first on every run.
func (h *H) corpus() {
	dir := os.Getenv("VERIF_DIR")
	if dir == "" {
		dir = "/verif"
	}
	files, _ := filepath.Glob(filepath.Join(dir, "corpus", "C03", "*.case"))
	sort.Strings(files)
	for _, f := range files {
		h.replay(f)
		h.res.Hit("corpus-case")
	}
}

// ---------------------------------------------------------------- main

func main() {
	f := lib.ParseFlags()
	res := lib.NewResult(rule)
	h := &H{f: f, res: res, rng: lib.NewRand(f.Seed*0x9e3779b97f4a7c15 + 0xC03)}
	h.keys = makeForeignKeys()
	ledger.res = res
	if f.Replay != "" {
		h.replay(f.Replay)
		h.compareWithModel()
		res.Write(f.Out)
		return
	}
	t0 := time.Now()
	h.corpus()
	rounds := 1
	if f.Search {
		rounds = 6
	}
	wait24 := h.kwCounter24() // 2^24 counter boundary, in the background (once, also in search mode)
	for r := 0; r < rounds; r++ {
		// C03_SKIP=batches,concurrent is for self-tests of the remaining monitors only
		if skip := os.Getenv("C03_SKIP"); !strings.Contains(skip, "batches") {
			h.adMatrix()
			h.repeatCalls()
			h.batches()
		}
		if skip := os.Getenv("C03_SKIP"); !strings.Contains(skip, "concurrent") {
			h.concurrent()
		}
		h.roundTrips()
		h.sizeSweeps()
		h.junkNames()
		h.kwDirect()
		h.kwCounter()
		h.kwHuge()
		h.padDirect()
		h.cbcHmacDirect()
		nameBoundaries(h, getKeys())
		// multi-step histories on shared objects (hist.go); own random stream so that the other families keep theirs
		hr := lib.NewRand((f.Seed+uint64(r)*977)*0x9e3779b97f4a7c15 + 0xC0308)
		h.aeadHistories(hr)
		h.keyIdentities(hr)
	}
	tSym := time.Since(t0)
	obs := runAsym(res, f.Tier, h.rng.Fork(), f.Search)
	wait24()
	for _, o := range obs {
		h.queue("asymmetric dispatch + key-kind guard: outcome class = model", o.Line, o.Impl, Case{Family: "asym", Monitor: "dispatch", Mut: o.Line})
	}
	tAsym := time.Since(t0) - tSym
	if !f.Search {
		// the comparisons with the Lean driver are independent of each other: one driver process each,
		// in parallel (the random streams are forked here, in a fixed order)
		r1, r2, r3, r4 := h.rng.Fork(), h.rng.Fork(), h.rng.Fork(), h.rng.Fork()
		var wg sync.WaitGroup
		run := func(name string, fn func()) {
			wg.Add(1)
			go func() {
				defer wg.Done()
				defer func() {
					if p := recover(); p != nil {
						res.Note(fmt.Sprintf("harness: %s panicked: %v", name, p))
						res.Disagree("harness", map[string]any{"part": name}, fmt.Sprint(p), "")
					}
				}()
				fn()
			}()
		}
		run("rsa interop", func() { h.rsaInterop(r1) })
		run("ecdsa interop", func() { h.ecdsaInterop(r2) })
		run("ed25519 interop", func() { h.ed25519Interop(r3) })
		run("asymmetric model end to end", func() { h.asymFull(r4) })
		run("model comparison", h.compareWithModel)
		wg.Wait()
	}
	tRSA := time.Since(t0) - tSym - tAsym
	res.Exhaustive = false
	res.Note(fmt.Sprintf("wall: symmetric+subpackages %.1fs, asymmetric %.1fs, interop vs Lean + model comparison (in parallel) %.1fs; %d request lines", tSym.Seconds(), tAsym.Seconds(), tRSA.Seconds(), len(h.lines)))
	keys := make([]string, 0)
	for k := range res.Distribution {
		keys = append(keys, k)
	}
	sort.Strings(keys)
	res.Write(f.Out)
}
