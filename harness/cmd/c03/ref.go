package main

// Model-independent reference implementations of what the symmetric algorithm names denote, written
// in the harness from the standards on top of the raw primitives (crypto/aes, crypto/cipher,
// crypto/hmac, x/crypto/chacha20poly1305) WITHOUT any dapr/kit code: AES-CBC with PKCS#7 (RFC 5652
// §6.3), AES-GCM (NIST SP 800-38D via cipher.NewGCM), AES_CBC_HMAC_SHA2 (RFC 7518 §5.2.2.1), AES key
// wrap (RFC 3394, see rfc3394Wrap), (X)ChaCha20-Poly1305 (RFC 8439 / draft-irtf-cfrg-xchacha).
// They make the interop clause judgeable without the Lean driver (which bin/check withholds when the
// proof / fact step is broken): `sym-interop-mismatch` = the real code's output for a valid input
// differs from the reference (and, separately, from the Lean-native implementation when available).

import (
	"crypto/aes"
	"crypto/cipher"
	"crypto/hmac"
	"crypto/sha256"
	"crypto/sha512"
	"encoding/binary"
	"hash"

	"golang.org/x/crypto/chacha20poly1305"
)

func refPad(b []byte) []byte {
	k := 16 - len(b)%16
	out := append(cp(b), make([]byte, k)...)
	if out == nil {
		out = make([]byte, k)
	}
	for i := len(b); i < len(out); i++ {
		out[i] = byte(k)
	}
	return out
}

func refCBC(key, iv, data []byte) []byte {
	blk, err := aes.NewCipher(key)
	if err != nil || len(iv) != 16 || len(data)%16 != 0 {
		return nil
	}
	out := make([]byte, len(data))
	cipher.NewCBCEncrypter(blk, iv).CryptBlocks(out, data)
	return out
}

// refCbcHmac: RFC 7518 §5.2.2.1. K = MAC_KEY ‖ ENC_KEY (halves); E = CBC-PKCS7(ENC_KEY, IV, P);
// AL = 64-bit big-endian bit length of A; M = HMAC(MAC_KEY, A ‖ IV ‖ E ‖ AL); T = first half of M.
func refCbcHmac(alg string, key, iv, pt, ad []byte) (ct, tag []byte, ok bool) {
	var hf func() hash.Hash
	switch alg {
	case "A128CBC-HS256":
		hf = sha256.New
	case "A192CBC-HS384":
		hf = sha512.New384
	case "A256CBC-HS512":
		hf = sha512.New
	default:
		return nil, nil, false
	}
	if len(key)%2 != 0 {
		return nil, nil, false
	}
	half := len(key) / 2
	e := refCBC(key[half:], iv, refPad(pt))
	if e == nil {
		return nil, nil, false
	}
	m := hmac.New(hf, key[:half])
	al := make([]byte, 8)
	binary.BigEndian.PutUint64(al, uint64(len(ad))*8)
	m.Write(ad)
	m.Write(iv)
	m.Write(e)
	m.Write(al)
	return e, m.Sum(nil)[:half], true
}

// refEncrypt returns what the standard says the (ciphertext, tag) for a VALID input is.
func refEncrypt(alg string, s algSpec, key, nonce, pt, ad []byte) (ct, tag []byte, ok bool) {
	switch s.family {
	case "cbc":
		c := refCBC(key, nonce, refPad(pt))
		return c, nil, c != nil
	case "cbcnopad":
		c := refCBC(key, nonce, pt)
		if len(pt) == 0 {
			return []byte{}, nil, true
		}
		return c, nil, c != nil
	case "gcm":
		blk, err := aes.NewCipher(key)
		if err != nil {
			return nil, nil, false
		}
		g, err := cipher.NewGCM(blk)
		if err != nil || len(nonce) != g.NonceSize() {
			return nil, nil, false
		}
		out := g.Seal(nil, nonce, pt, ad)
		return out[:len(out)-16], out[len(out)-16:], true
	case "cbchmac":
		return refCbcHmac(alg, key, nonce, pt, ad)
	case "kw":
		w := rfc3394Wrap(key, pt)
		return w, nil, w != nil
	case "chacha", "xchacha":
		var a cipher.AEAD
		var err error
		if s.family == "chacha" {
			a, err = chacha20poly1305.New(key)
		} else {
			a, err = chacha20poly1305.NewX(key)
		}
		if err != nil || len(nonce) != a.NonceSize() {
			return nil, nil, false
		}
		out := a.Seal(nil, nonce, pt, ad)
		return out[:len(out)-16], out[len(out)-16:], true
	}
	return nil, nil, false
}

// interopMonitor compares a successful encryption of a valid input with the reference.
func (h *H) interopMonitor(c Case, alg string, s algSpec, key, nonce, pt, ad []byte, o outcome) {
	if o.class != "ok" {
		return
	}
	rc, rt, ok := refEncrypt(alg, s, key, nonce, pt, ad)
	if !ok {
		return
	}
	h.res.Hit("interop-ref:" + s.family)
	if !bytesEq(o.a, rc) || !bytesEq(o.b, rt) {
		c.Expect, c.Got = "ok ct="+hx(rc)+" tag="+hx(rt), canonEnc(o)
		h.res.Violate("sym-interop-mismatch", "the output for a valid input differs from an independent implementation of the standard the algorithm name denotes", c)
	}
}
