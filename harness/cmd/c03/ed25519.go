package main

// Ed25519 interop, independently established: EdDSA signatures of the real code are checked against
// the Lean-native RFC 8032 implementation (lean/KitModel/Crypto/Ed25519.lean) in both directions;
// finding id `ed25519-interop-mismatch`. Ed25519 signing is deterministic, so the signature made by
// Lean from the seed must equal kit's byte for byte, and the public key derived by Lean must be the
// key's public half.

import (
	"crypto/ed25519"
	"crypto/x509"
	"encoding/pem"
	"fmt"
	"math/big"

	"verifharness/lib"
)

const idEd = "ed25519-interop-mismatch"

type edCtx struct {
	h   *H
	drv *lib.Drv
}

func (e *edCtx) ask(line string) string {
	out, err := e.drv.Ask(line)
	if err != nil {
		return "driver-error " + err.Error()
	}
	return out
}

func (e *edCtx) mismatch(c map[string]any, what, lean, real string) {
	c["family"], c["lean"], c["real"] = "ed25519", lean, real
	e.h.res.Violate(idEd, what, c)
}

func (e *edCtx) check(c map[string]any, key ed25519.PrivateKey) {
	str := func(k string) string { s, _ := c[k].(string); return s }
	mon := str("monitor")
	res := e.h.res
	pub := key.Public().(ed25519.PublicKey)
	res.Hit("ed25519:" + mon)
	switch mon {
	case "public":
		ans := e.ask("ed op=public seed=" + hx(key.Seed()))
		res.Count("ed public "+hx(key.Seed()), true)
		if ans != "ok pk="+hx(pub) {
			e.mismatch(c, "the public key an independent RFC 8032 implementation derives from the seed differs", ans, hx(pub))
		} else {
			e.h.trace()
		}
	case "sign":
		msg := unhx(str("msg"))
		o := callAsym("SignPrivateKey", "EdDSA", mustJWK(key), msg, nil, nil)
		ans := e.ask(fmt.Sprintf("ed op=sign seed=%s msg=%s", hx(key.Seed()), hx(msg)))
		res.Count("ed sign "+hx(msg), true)
		if o.class != "ok" || ans != "ok sig="+hx(o.out) {
			e.mismatch(c, "Ed25519 is deterministic: the signature differs from an independent RFC 8032 implementation", ans, o.class+" sig="+hx(o.out))
		} else {
			e.h.trace()
		}
	case "verify":
		msg, sig := unhx(str("msg")), unhx(str("sig"))
		o := callAsym("VerifyPublicKey", "EdDSA", mustJWK(pub), msg, sig, nil)
		goValid := o.class == "ok" && o.valid
		ans := e.ask(fmt.Sprintf("ed op=verify pk=%s msg=%s sig=%s", hx(pub), hx(msg), hx(sig)))
		v, ok := field(ans, "valid")
		res.Count("ed verify "+hx(msg)+hx(sig), true)
		if !ok || (v == "true") != goValid {
			e.mismatch(c, "an independent RFC 8032 verifier and VerifyPublicKey disagree on a signature", ans, fmt.Sprintf("valid=%v class=%s", goValid, o.class))
		} else {
			e.h.trace()
		}
	}
}

func (h *H) ed25519Interop(rng *lib.Rand) {
	if h.f.Drv == "" {
		h.res.Note("ed25519 interop: model driver unavailable, skipped")
		return
	}
	d, err := lib.StartDrv(h.f.Drv, "C03")
	if err != nil || d == nil {
		h.res.Note("ed25519 interop: cannot start driver: " + fmt.Sprint(err))
		return
	}
	defer d.Close()
	e := &edCtx{h: h, drv: d}
	ks := getKeys()
	order, _ := new(big.Int).SetString("7237005577332262213973186563042994240857116359379907606001950938285454250989", 10)
	for ki := 0; ki < 2; ki++ {
		key := ks.ed[ki]
		pemS := ks.pems[fmt.Sprintf("ed%d", ki)]
		base := func(mon string) map[string]any {
			return map[string]any{"monitor": mon, "alg": "EdDSA", "key_pem": pemS}
		}
		e.check(base("public"), key)
		lens := []int{0, 1, 32, 64, 100, 200}
		if h.f.Tier == "thorough" {
			lens = append(lens, 2, 31, 33, 127, 128, 129, 1000)
		}
		for li, n := range lens {
			msg := rng.Bytes(n)
			c := base("sign")
			c["msg"] = hx(msg)
			e.check(c, key)
			sig := ed25519.Sign(key, msg)
			c = base("verify")
			c["msg"], c["sig"], c["mutation"] = hx(msg), hx(sig), "none (genuine)"
			e.check(c, key)
			if li > 1 && ki > 0 && h.f.Tier != "thorough" {
				continue
			}
			muts := sigMutations(rng, sig, 1)
			// non-canonical S: S + L encodes the same scalar; RFC 8032 and Go reject it
			s := new(big.Int)
			le := cp(sig[32:])
			for i, j := 0, len(le)-1; i < j; i, j = i+1, j-1 {
				le[i], le[j] = le[j], le[i]
			}
			s.SetBytes(le)
			s.Add(s, order)
			if s.BitLen() <= 256 {
				be := make([]byte, 32)
				s.FillBytes(be)
				for i, j := 0, 31; i < j; i, j = i+1, j-1 {
					be[i], be[j] = be[j], be[i]
				}
				muts["S + L (non-canonical scalar)"] = append(cp(sig[:32]), be...)
			}
			hi := cp(sig)
			hi[31] ^= 0x80
			muts["R with the sign bit flipped"] = hi
			for name, ms := range muts {
				c := base("verify")
				c["msg"], c["sig"], c["mutation"] = hx(msg), hx(ms), name
				h.res.Hit("ed25519:mutation:signature")
				e.check(c, key)
			}
			for i := 0; i < len(msg); i += 9 {
				mm := cp(msg)
				mm[i] ^= byte(rng.Range(1, 255))
				c := base("verify")
				c["msg"], c["sig"], c["mutation"] = hx(mm), hx(sig), fmt.Sprintf("msg[%d]", i)
				h.res.Hit("ed25519:mutation:message")
				e.check(c, key)
			}
			c = base("verify")
			c["msg"], c["sig"], c["mutation"] = hx(append(cp(msg), 0)), hx(sig), "message + 1 byte"
			e.check(c, key)
		}
	}
}

func (h *H) replayEd(c map[string]any) {
	h.res.Count("replay-ed25519", true)
	if h.f.Drv == "" {
		h.res.Note("replay: ed25519 interop needs the model driver")
		return
	}
	s, _ := c["key_pem"].(string)
	blk, _ := pem.Decode([]byte(s))
	if blk == nil {
		return
	}
	k, err := x509.ParsePKCS8PrivateKey(blk.Bytes)
	key, ok := k.(ed25519.PrivateKey)
	if err != nil || !ok {
		h.res.Note("replay: ed25519 case: bad key")
		return
	}
	d, err := lib.StartDrv(h.f.Drv, "C03")
	if err != nil || d == nil {
		return
	}
	defer d.Close()
	delete(c, "lean")
	delete(c, "real")
	(&edCtx{h: h, drv: d}).check(c, key)
}
