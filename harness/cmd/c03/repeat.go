package main

// adMatrix      every AEAD name × both entry points × associated data of length {nil, empty, 1, 7, 8,
//               9, 15, 16, 17} × a few plaintext lengths: output = reference (ref.go) = Lean model; round
//               trip; and the RE-CUT family: move k bytes across the AD | nonce | ciphertext boundaries
//               keeping the concatenation and the tag fixed (what the AL field of RFC 7518 and the
//               AEADs' own length encodings exist to prevent) — must be rejected, for CBC-HMAC with the
//               authentication error (a size or padding error means the MAC ACCEPTED the re-cut message).
// repeatCalls   the SAME input slices used for two calls (decrypt twice; wrong key first, then the
//               right key; unwrap twice): every input buffer is snapshotted before and compared after
//               each call (`sym-input-modified`) and the second call must return what the first did
//               (`sym-second-call-differs`) — a helper that works inside the caller's wrapped key
//               passes every single-call check.

import (
	"crypto/aes"
	"encoding/binary"
	"fmt"

	kc "github.com/dapr/kit/crypto"
	"github.com/dapr/kit/crypto/aescbcaead"
	"github.com/dapr/kit/crypto/aeskw"
	"github.com/lestrrat-go/jwx/v2/jwk"
)

func isAEADFamily(f string) bool {
	return f == "gcm" || f == "cbchmac" || f == "chacha" || f == "xchacha"
}

// recuts returns re-cut versions (ad', nonce', ct') of a sealed message with the same concatenation.
func recuts(ad, nonce, ct []byte) (out [][3][]byte, names []string) {
	n := len(nonce)
	for _, k := range []int{1, 7, 8, 9, 16} {
		if len(ad) >= k { // AD gives its last k bytes to the nonce, the nonce its last k to the ciphertext
			cat := append(append(cp(ad[len(ad)-k:]), nonce...), ct...)
			out = append(out, [3][]byte{cp(ad[:len(ad)-k]), cat[:n], cat[n:]})
			names = append(names, fmt.Sprintf("AD→nonce→ciphertext by %d", k))
			// … and with the ORIGINAL length block AL (64-bit bit length of AD) moved into the
			// ciphertext: the whole string that RFC 7518 feeds to the MAC (AD ‖ IV ‖ E ‖ AL) is kept, in
			// case the length block of the re-cut message is dropped, ignored or miscomputed
			al := make([]byte, 8)
			binary.BigEndian.PutUint64(al, uint64(len(ad))*8)
			cat2 := append(cp(cat), al...)
			out = append(out, [3][]byte{cp(ad[:len(ad)-k]), cat2[:n], cat2[n:]})
			names = append(names, fmt.Sprintf("AD→nonce→ciphertext by %d, AL appended to the ciphertext", k))
		}
		if len(ct) >= k && n >= k { // the other way round
			ad2 := append(cp(ad), nonce[:k]...)
			cat := append(cp(nonce[k:]), ct...)
			out = append(out, [3][]byte{ad2, cat[:n], cat[n:]})
			names = append(names, fmt.Sprintf("ciphertext→nonce→AD by %d", k))
		}
	}
	return
}

func (h *H) adMatrix() {
	adLens := []int{-1, 0, 1, 7, 8, 9, 15, 16, 17}
	for _, alg := range symNames() {
		s, ok := specs[alg]
		if !ok || !isAEADFamily(s.family) {
			continue
		}
		for _, fns := range [][2]string{{"EncryptSymmetric", "DecryptSymmetric"}, {"Encrypt", "Decrypt"}} {
			for _, al := range adLens {
				for _, n := range []int{0, 5, 32} {
					if h.f.Tier == "quick" && fns[0] == "Encrypt" && n == 5 {
						continue
					}
					var ad []byte
					switch {
					case al == 0:
						ad = []byte{}
					case al > 0:
						ad = h.rng.Bytes(al)
					}
					key := h.rng.Bytes(s.keyLen)
					nonce := h.rng.Bytes(s.nonceLen)
					pt := h.rng.Bytes(n)
					jk, _ := h.octKey(key)
					adName := fmt.Sprintf("%d", al)
					if al < 0 {
						adName = "nil"
					}
					c := Case{Family: "sym", Monitor: "roundtrip", Fn: fns[0], Alg: alg, Kind: "oct", Key: hx(key), Nonce: hx(nonce), Data: hx(pt), AD: hx(ad), Mut: "associated data: " + adName}
					eo := callEnc(fns[0], alg, jk, nonce, pt, ad)
					line := symLine(fns[0], alg, "oct", key, nonce, pt, nil, ad)
					h.res.Count(line+adName, nontrivialClass(eo.class))
					h.res.Hit("adlen:" + adName)
					h.encMonitor(c, s, true, true, key, nonce, pt, eo)
					h.interopMonitor(c, alg, s, key, nonce, pt, ad, eo)
					h.queue("AD matrix: encrypt output = model(Lean-native primitives)", line, canonEnc(eo), c)
					if eo.class != "ok" {
						continue
					}
					do := callDec(fns[1], alg, jk, nonce, eo.a, eo.b, ad)
					dc := c
					dc.Fn, dc.Data, dc.Tag, dc.Orig = fns[1], hx(eo.a), hx(eo.b), hx(pt)
					if do.class != "ok" || !bytesEq(do.a, pt) {
						dc.Got = canonDec(do)
						h.res.Violate("sym-roundtrip", "Decrypt(Encrypt(p)) != p", dc)
					}
					h.queue("AD matrix: decrypt output = model", symLine(fns[1], alg, "oct", key, nonce, eo.a, eo.b, ad), canonDec(do), dc)
					// nil and empty AD are the same associated data
					if al <= 0 {
						other := []byte{}
						if al == 0 {
							other = nil
						}
						xo := callDec(fns[1], alg, jk, nonce, eo.a, eo.b, other)
						if xo.class != "ok" || !bytesEq(xo.a, pt) {
							dc.Got = canonDec(xo)
							h.res.Violate("sym-roundtrip", "a message sealed with nil associated data does not open with empty associated data (or vice versa)", dc)
						}
					}
					// re-cut: same concatenation AD‖nonce‖ciphertext, same tag, boundaries moved
					cuts, names := recuts(ad, nonce, eo.a)
					for i, cut := range cuts {
						o := callDec(fns[1], alg, jk, cut[1], cut[2], eo.b, cut[0])
						tc := Case{Family: "sym", Monitor: "recut", Fn: fns[1], Alg: alg, Kind: "oct", Key: hx(key), Nonce: hx(cut[1]), Data: hx(cut[2]), Tag: hx(eo.b), AD: hx(cut[0]),
							Mut: "re-cut " + names[i] + " (concatenation and tag unchanged)", Orig: hx(pt)}
						h.res.Count(symLine(fns[1], alg, "oct", key, cut[1], cut[2], eo.b, cut[0]), true)
						h.res.Hit("mutation:recut")
						h.recutMonitor(tc, s, o)
						h.queue("re-cut message rejected exactly as the model rejects it", symLine(fns[1], alg, "oct", key, cut[1], cut[2], eo.b, cut[0]), canonDec(o), tc)
					}
				}
			}
		}
	}
	h.adMatrixDirect()
}

func (h *H) recutMonitor(c Case, s algSpec, o outcome) {
	if o.class == "panic" || o.class == "timeout" {
		h.res.Violate("sym-"+o.class, "decryption of a re-cut message "+o.class+": "+o.msg, c)
		return
	}
	if o.class == "ok" {
		c.Got = canonDec(o)
		h.res.Violate("sym-tamper-accepted", "a message whose AD | nonce | ciphertext boundaries were moved (same bytes, same tag) was accepted", c)
		return
	}
	// encrypt-then-MAC checks the tag first: any other error than the authentication failure means
	// the MAC ACCEPTED the re-cut message and only a later check (size, padding) stopped it
	if s.family == "cbchmac" && o.class != "aead:auth" {
		c.Got = o.class
		h.res.Violate("sym-tamper-accepted", "the MAC of a re-cut message verified (rejected only later, by "+o.class+"): AD, IV and ciphertext are not bound to their lengths", c)
	}
}

// adMatrixDirect: the same for package aescbcaead called directly.
func (h *H) adMatrixDirect() {
	type ctor struct {
		name   string
		alg    string
		keyLen int
		tagLen int
		mk     func([]byte) (aeadIface, error)
	}
	ctors := []ctor{
		{"NewAESCBC128SHA256", "A128CBC-HS256", 32, 16, func(k []byte) (aeadIface, error) { return aescbcaead.NewAESCBC128SHA256(k) }},
		{"NewAESCBC192SHA384", "A192CBC-HS384", 48, 24, func(k []byte) (aeadIface, error) { return aescbcaead.NewAESCBC192SHA384(k) }},
		{"NewAESCBC256SHA512", "A256CBC-HS512", 64, 32, func(k []byte) (aeadIface, error) { return aescbcaead.NewAESCBC256SHA512(k) }},
	}
	for _, ct := range ctors {
		for _, al := range []int{-1, 0, 1, 7, 8, 9, 16} {
			var ad []byte
			if al == 0 {
				ad = []byte{}
			} else if al > 0 {
				ad = h.rng.Bytes(al)
			}
			key, nonce, pt := h.rng.Bytes(ct.keyLen), h.rng.Bytes(16), h.rng.Bytes(20)
			a, err := ct.mk(key)
			if err != nil {
				continue
			}
			so := guarded(func() outcome { return outcome{class: "ok", a: a.Seal(nil, cp(nonce), cp(pt), cp(ad))} })
			c := Case{Family: "cbchmac", Monitor: "cbchmac-seal", Alg: ct.name, Key: hx(key), Nonce: hx(nonce), Data: hx(pt), AD: hx(ad), Mut: fmt.Sprintf("associated data length %d (-1 = nil)", al)}
			h.res.Count(fmt.Sprintf("cbchmac ad %s %d %x", ct.name, al, nonce), true)
			h.res.Hit("cbchmac:adlen")
			h.queue("aescbcaead.Seal = model cbcHmacSeal", fmt.Sprintf("cbchmac dir=seal ctor=%s key=%s nonce=%s data=%s ad=%s", ct.name, hx(key), hx(nonce), hx(pt), hx(ad)), canonOut(so), c)
			if so.class != "ok" {
				continue
			}
			if rc, rt, ok := refCbcHmac(ct.alg, key, nonce, pt, ad); ok && !bytesEq(so.a, append(cp(rc), rt...)) {
				c.Expect, c.Got = "ok out="+hx(append(cp(rc), rt...)), canonOut(so)
				h.res.Violate("sym-interop-mismatch", "aescbcaead.Seal differs from RFC 7518 section 5.2.2.1 (independent reference)", c)
			}
			body, tag := so.a[:len(so.a)-ct.tagLen], so.a[len(so.a)-ct.tagLen:]
			cuts, names := recuts(ad, nonce, body)
			for i, cut := range cuts {
				sealed := append(cp(cut[2]), tag...)
				o := guarded(func() outcome {
					p, err := a.Open(nil, cp(cut[1]), cp(sealed), cp(cut[0]))
					return outcome{class: classify(err), a: p}
				})
				tc := Case{Family: "cbchmac", Monitor: "cbchmac-tamper", Alg: ct.name, Key: hx(key), Nonce: hx(cut[1]), Data: hx(sealed), AD: hx(cut[0]), Mut: "re-cut " + names[i], Orig: hx(pt)}
				h.res.Hit("mutation:recut")
				if o.class == "ok" || (o.class != "aead:auth" && o.class != "panic" && o.class != "timeout") {
					tc.Got = canonOut(o)
					h.res.Violate("sym-tamper-accepted", "aescbcaead.Open: the MAC of a re-cut message (same bytes, boundaries moved, same tag) verified", tc)
				}
				h.queue("aescbcaead.Open = model cbcHmacOpen", fmt.Sprintf("cbchmac dir=open ctor=%s key=%s nonce=%s data=%s ad=%s", ct.name, hx(key), hx(cut[1]), hx(sealed), hx(cut[0])), canonOut(o), tc)
			}
		}
	}
}

// ---------------------------------------------------------------- repeated calls on the same slices

// spare returns a copy of b with spare capacity (so that an append inside the callee stays in it).
func spare(b []byte) []byte {
	if b == nil {
		return nil
	}
	out := make([]byte, len(b), len(b)+48)
	copy(out, b)
	return out
}

type decArgs struct{ ct, nonce, tag, ad []byte }

func (d decArgs) snapshot() [][]byte { return [][]byte{cp(d.ct), cp(d.nonce), cp(d.tag), cp(d.ad)} }
func (d decArgs) now() [][]byte      { return [][]byte{d.ct, d.nonce, d.tag, d.ad} }

var decArgNames = []string{"ciphertext", "nonce", "tag", "associated data"}

// runRepeat: (optionally a wrong key first, then) the right key twice, all on the SAME slices.
func (h *H) runRepeat(c Case) {
	s := specs[c.Alg]
	key, pt := unhx(c.Key), unhx(c.Orig)
	args := decArgs{spare(unhx(c.Data)), spare(unhx(c.Nonce)), spare(unhx(c.Tag)), spare(unhx(c.AD))}
	before := args.snapshot()
	jk, _ := jwk.FromRaw(cp(key))
	type res struct {
		p   []byte
		cls string
		mod string
	}
	var steps []res
	var names []string
	dec := func(k jwk.Key) res {
		var p []byte
		var err error
		if c.Fn == "Decrypt" {
			p, err = kc.Decrypt(args.ct, c.Alg, k, args.nonce, args.tag, args.ad)
		} else {
			p, err = kc.DecryptSymmetric(args.ct, c.Alg, k, args.nonce, args.tag, args.ad)
		}
		return res{cp(p), classify(err), inputsChanged(decArgNames, args.now(), before)}
	}
	o := guarded(func() outcome {
		if c.Key2 != "" {
			wk, _ := jwk.FromRaw(unhx(c.Key2))
			steps, names = append(steps, dec(wk)), append(names, "wrong key")
		}
		steps, names = append(steps, dec(jk)), append(names, "right key")
		steps, names = append(steps, dec(jk)), append(names, "right key again")
		return outcome{class: "ok"}
	})
	h.res.Hit("repeat:" + s.family)
	if o.class != "ok" {
		h.res.Violate("sym-"+o.class, "repeated decryption of the same slices "+o.class+": "+o.msg, c)
		return
	}
	for i, st := range steps {
		if st.mod != "" {
			c.Mut = fmt.Sprintf("after call %d (%s): %s", i+1, names[i], st.mod)
			h.res.Violate("sym-input-modified", "a decryption call modified the caller's input buffer", c)
			break
		}
	}
	for i, st := range steps {
		if names[i] == "wrong key" {
			if st.cls == "ok" && s.auth {
				c.Got = "ok with the wrong key"
				h.res.Violate("sym-crosskey-accepted", "a ciphertext opened under a different key", c)
			}
			continue
		}
		if st.cls != "ok" || !bytesEq(st.p, pt) {
			c.Got = fmt.Sprintf("call %d (%s): %s pt=%s", i+1, names[i], st.cls, hx(st.p))
			id := "sym-second-call-differs"
			if i == 0 {
				id = "sym-roundtrip"
			}
			h.res.Violate(id, "decrypting the same input slices again (or with the right key after a wrong one) does not return the plaintext", c)
			return
		}
	}
}

func (h *H) repeatCalls() {
	for ai, alg := range symNames() {
		s, ok := specs[alg]
		if !ok {
			continue
		}
		fn, dfn := "EncryptSymmetric", "DecryptSymmetric"
		if ai%2 == 1 {
			fn, dfn = "Encrypt", "Decrypt"
		}
		n := 32
		key, wrong := h.rng.Bytes(s.keyLen), h.rng.Bytes(s.keyLen)
		nonce, pt, ad := h.rng.Bytes(s.nonceLen), h.rng.Bytes(n), h.rng.Bytes(6)
		if s.family == "kw" {
			ad = nil
		}
		jk, _ := h.octKey(key)
		eo := callEnc(fn, alg, jk, nonce, pt, ad)
		if eo.class != "ok" {
			continue
		}
		base := Case{Family: "repeat", Monitor: "repeat", Fn: dfn, Alg: alg, Kind: "oct", Key: hx(key), Nonce: hx(nonce), Data: hx(eo.a), Tag: hx(eo.b), AD: hx(ad), Orig: hx(pt)}
		h.res.Count("repeat "+alg, true)
		h.runRepeat(base)
		wk := base
		wk.Monitor, wk.Key2 = "wrong-key-then-right-key", hx(wrong)
		h.res.Count("repeat wrongkey "+alg, true)
		h.runRepeat(wk)
		// encrypting the same plaintext slice twice gives the same bytes and leaves it alone
		pbuf, nbuf, abuf := spare(pt), spare(nonce), spare(ad)
		var o1, o2 [2][]byte
		var mod string
		g := guarded(func() outcome {
			c1, t1, e1 := kc.EncryptSymmetric(pbuf, alg, jk, nbuf, abuf)
			mod = inputsChanged([]string{"plaintext", "nonce", "associated data"}, [][]byte{pbuf, nbuf, abuf}, [][]byte{pt, nonce, ad})
			c2, t2, e2 := kc.EncryptSymmetric(pbuf, alg, jk, nbuf, abuf)
			o1, o2 = [2][]byte{c1, t1}, [2][]byte{c2, t2}
			if e1 != nil || e2 != nil {
				return outcome{class: "err"}
			}
			return outcome{class: "ok"}
		})
		ec := Case{Family: "sym", Monitor: "repeat-encrypt", Fn: "EncryptSymmetric", Alg: alg, Kind: "oct", Key: hx(key), Nonce: hx(nonce), Data: hx(pt), AD: hx(ad)}
		if g.class == "panic" || g.class == "timeout" {
			h.res.Violate("sym-"+g.class, "encrypting the same slices twice "+g.class+": "+g.msg, ec)
		} else if mod != "" {
			ec.Mut = mod
			h.res.Violate("sym-input-modified", "an encryption call modified the caller's input buffer", ec)
		} else if g.class == "ok" && (!bytesEq(o1[0], o2[0]) || !bytesEq(o1[1], o2[1]) || !bytesEq(o1[0], eo.a)) {
			h.res.Violate("sym-second-call-differs", "encrypting the same plaintext/nonce slices twice gives different bytes", ec)
		}
	}
	// aeskw directly: unwrap the same slice twice; wrong KEK then right KEK
	for _, kl := range []int{16, 24, 32} {
		kek, wrong := h.rng.Bytes(kl), h.rng.Bytes(kl)
		blk, _ := aes.NewCipher(kek)
		wblk, _ := aes.NewCipher(wrong)
		data := h.rng.Bytes(32)
		w, err := aeskw.Wrap(blk, cp(data))
		if err != nil {
			continue
		}
		for _, wrongFirst := range []bool{false, true} {
			buf := spare(w)
			var outs [][]byte
			var clss []string
			var mod string
			g := guarded(func() outcome {
				if wrongFirst {
					_, _ = aeskw.Unwrap(wblk, buf)
					if m := inputsChanged([]string{"wrapped key"}, [][]byte{buf}, [][]byte{w}); m != "" && mod == "" {
						mod = "after the attempt with the wrong KEK: " + m
					}
				}
				for i := 0; i < 2; i++ {
					p, err := aeskw.Unwrap(blk, buf)
					outs, clss = append(outs, cp(p)), append(clss, classify(err))
					if m := inputsChanged([]string{"wrapped key"}, [][]byte{buf}, [][]byte{w}); m != "" && mod == "" {
						mod = fmt.Sprintf("after unwrap %d: %s", i+1, m)
					}
				}
				return outcome{class: "ok"}
			})
			c := Case{Family: "kw", Monitor: "kw-repeat", Key: hx(kek), Data: hx(w), Orig: hx(data)}
			if wrongFirst {
				c.Key2 = hx(wrong)
			}
			h.res.Count(fmt.Sprintf("kw repeat %d %v", kl, wrongFirst), true)
			h.res.Hit("repeat:kw-direct")
			if g.class != "ok" {
				h.res.Violate("aeskw-unwrap-"+g.class, "repeated Unwrap of the same slice "+g.class+": "+g.msg, c)
				continue
			}
			if mod != "" {
				c.Mut = mod
				h.res.Violate("sym-input-modified", "aeskw.Unwrap modified the caller's wrapped key", c)
			}
			if len(outs) == 2 && (clss[0] != "ok" || clss[1] != "ok" || !bytesEq(outs[0], data) || !bytesEq(outs[1], data)) {
				c.Got = fmt.Sprintf("first: %s %s, second: %s %s", clss[0], hx(outs[0]), clss[1], hx(outs[1]))
				h.res.Violate("sym-second-call-differs", "unwrapping the same wrapped-key slice again (or with the right KEK after a wrong one) does not return the key", c)
			}
		}
	}
}

// replayRepeat re-executes a stored repeated-call case.
func (h *H) replayRepeat(c Case) {
	h.res.Count("replay-repeat", true)
	if _, ok := specs[c.Alg]; !ok {
		h.res.Note("replay: repeat case with an unknown algorithm")
		return
	}
	h.runRepeat(c)
}
