package main

// Multi-step HISTORIES on shared objects (round 8).
//
// The property quantifies over single calls, so every call must give the answer the standard
// defines for ITS OWN arguments, whatever happened before on the same object / in the same process.
//
//   hist   one aescbcaead instance (each of the four constructors) is driven through a sequence of
//          Seal / Open-valid / Open-tampered(ct, tag, nonce, aad) / Open-short / Open-truncated /
//          Open-misaligned / Open-wrong-nonce steps. Each step's result is judged against an
//          independent implementation of RFC 7518 §5.2.2.1 written here (seal AND open) and
//          compared with a FRESH instance given the same step alone. Exhaustive over all ordered
//          pairs and triples of step kinds, plus random longer histories.
//   keyid  several distinct jwk oct keys that share the kid (and "use"), the same key bytes under
//          different kids, and a wrong-size key under the shared kid, are used alternately through
//          EncryptSymmetric/DecryptSymmetric/Encrypt/Decrypt for every symmetric algorithm. Each
//          step is judged against the independent implementation (ref.go) for the bytes of THE key
//          that was passed, and compared with the same call made with a metadata-free key.
//
// A violation carries the (shrunk) sequence; replay re-executes exactly that sequence.

import (
	"crypto/aes"
	"crypto/cipher"
	"crypto/hmac"
	"encoding/binary"
	"fmt"
	"strings"

	"github.com/dapr/kit/crypto/aescbcaead"
	"github.com/lestrrat-go/jwx/v2/jwk"

	"verifharness/lib"
)

const (
	idHistInstance = "aead-instance-history-dependent"
	idHistRef      = "cbchmac-history-vs-reference"
	idKeyIdent     = "sym-key-identity-confused"
	idKeyIdentRef  = "sym-keyid-vs-reference"
)

// ---------------------------------------------------------------- reference for the constructors

type ctorSpec struct {
	name   string
	keyLen int
	tagLen int
	mk     func([]byte) (aeadIface, error)
}

func histCtors() []ctorSpec {
	return []ctorSpec{
		{"NewAESCBC128SHA256", 32, 16, func(k []byte) (aeadIface, error) { return aescbcaead.NewAESCBC128SHA256(k) }},
		{"NewAESCBC192SHA384", 48, 24, func(k []byte) (aeadIface, error) { return aescbcaead.NewAESCBC192SHA384(k) }},
		{"NewAESCBC256SHA384", 56, 24, func(k []byte) (aeadIface, error) { return aescbcaead.NewAESCBC256SHA384(k) }},
		{"NewAESCBC256SHA512", 64, 32, func(k []byte) (aeadIface, error) { return aescbcaead.NewAESCBC256SHA512(k) }},
	}
}

func ctorByName(n string) (ctorSpec, bool) {
	for _, c := range histCtors() {
		if c.name == n {
			return c, true
		}
	}
	return ctorSpec{}, false
}

func (cs ctorSpec) refTag(key, nonce, body, ad []byte) []byte {
	m := hmac.New(macFor(cs.name), key[:cs.keyLen-encLen(cs.name)])
	al := make([]byte, 8)
	binary.BigEndian.PutUint64(al, uint64(len(ad))*8)
	m.Write(ad)
	m.Write(nonce)
	m.Write(body)
	m.Write(al)
	return m.Sum(nil)[:cs.tagLen]
}

// refSeal: E ‖ T of RFC 7518 §5.2.2.1 (nonce must be one block).
func (cs ctorSpec) refSeal(key, nonce, pt, ad []byte) []byte {
	e := refCBC(key[cs.keyLen-encLen(cs.name):], nonce, refPad(pt))
	if e == nil {
		return nil
	}
	return append(e, cs.refTag(key, nonce, e, ad)...)
}

// refOpen: RFC 7518 §5.2.2.2; ok=false means "must be refused".
func (cs ctorSpec) refOpen(key, nonce, data, ad []byte) ([]byte, bool) {
	if len(data) < cs.tagLen {
		return nil, false
	}
	body, tag := data[:len(data)-cs.tagLen], data[len(data)-cs.tagLen:]
	if !hmac.Equal(tag, cs.refTag(key, nonce, body, ad)) {
		return nil, false
	}
	if len(nonce) != 16 || len(body) == 0 || len(body)%16 != 0 {
		return nil, false
	}
	blk, err := aes.NewCipher(key[cs.keyLen-encLen(cs.name):])
	if err != nil {
		return nil, false
	}
	p := make([]byte, len(body))
	cipher.NewCBCDecrypter(blk, nonce).CryptBlocks(p, body)
	k := int(p[len(p)-1])
	if k < 1 || k > 16 {
		return nil, false
	}
	for _, b := range p[len(p)-k:] {
		if int(b) != k {
			return nil, false
		}
	}
	return p[:len(p)-k], true
}

// ---------------------------------------------------------------- hist: one AEAD instance

var histKinds = []string{"seal", "open-valid", "open-ct", "open-tag", "open-nonce", "open-ad", "open-short", "open-truncated", "open-misaligned", "open-nonce-size", "open-valid-empty-ad"}

// mkHistStep builds one step of the given kind (all material comes from the reference, never from
// the instance under test, so a step means the same whatever the instance did before).
func mkHistStep(cs ctorSpec, key []byte, kind string, r *lib.Rand) Case {
	lens := []int{0, 1, 15, 16, 17, 31, 32, 33, 48, 64}
	n := lens[r.Intn(len(lens))]
	if r.Intn(6) == 0 {
		n = r.Intn(100)
	}
	nonce, pt, ad := r.Bytes(16), r.Bytes(n), r.Bytes(r.Intn(24))
	if kind == "open-valid-empty-ad" {
		ad = nil
	}
	if kind == "open-ad" && len(ad) == 0 {
		ad = r.Bytes(1 + r.Intn(8))
	}
	st := Case{Fn: "Open", Kind: kind, Nonce: hx(nonce), AD: hx(ad)}
	if kind == "seal" {
		st.Fn, st.Data = "Seal", hx(pt)
		return st
	}
	sealed := cs.refSeal(key, nonce, pt, ad)
	bodyLen := len(sealed) - cs.tagLen
	flip := func(b []byte, i int) []byte {
		m := cp(b)
		m[i] ^= byte(r.Range(1, 255))
		return m
	}
	switch kind {
	case "open-valid", "open-valid-empty-ad":
		st.Orig = hx(pt)
	case "open-ct":
		sealed = flip(sealed, r.Intn(bodyLen))
	case "open-tag":
		sealed = flip(sealed, bodyLen+r.Intn(cs.tagLen))
	case "open-nonce":
		st.Nonce = hx(flip(nonce, r.Intn(16)))
	case "open-ad":
		if r.Intn(4) == 0 {
			st.AD = hx(ad[:len(ad)-1])
		} else {
			st.AD = hx(flip(ad, r.Intn(len(ad))))
		}
	case "open-short":
		sealed = r.Bytes([]int{0, 1, cs.tagLen - 1}[r.Intn(3)])
	case "open-truncated":
		sealed = sealed[:len(sealed)-1-r.Intn(len(sealed)-cs.tagLen+1)]
	case "open-misaligned":
		body := r.Bytes([]int{1, 15, 17, 33}[r.Intn(4)])
		sealed = append(cp(body), cs.refTag(key, nonce, body, ad)...)
	case "open-nonce-size":
		n2 := r.Bytes([]int{0, 1, 15, 17, 32}[r.Intn(5)])
		body := sealed[:bodyLen]
		sealed = append(cp(body), cs.refTag(key, n2, body, ad)...)
		st.Nonce = hx(n2)
	}
	st.Data = hx(sealed)
	return st
}

func histCall(a aeadIface, st Case) outcome {
	nonce, data, ad := unhx(st.Nonce), unhx(st.Data), unhx(st.AD)
	n2, d2, a2 := cp(nonce), cp(data), cp(ad)
	o := guarded(func() outcome {
		if st.Fn == "Seal" {
			return outcome{class: "ok", a: a.Seal(nil, n2, d2, a2)}
		}
		p, err := a.Open(nil, n2, d2, a2)
		return outcome{class: classify(err), a: p}
	})
	if o.class != "timeout" {
		o.inMod = inputsChanged([]string{"nonce", "data", "associated data"}, [][]byte{n2, d2, a2}, [][]byte{nonce, data, ad})
	}
	return o
}

// judgeHistStep says what is wrong ("" = nothing) with the outcome of one step, by the reference.
func judgeHistStep(cs ctorSpec, key []byte, st Case, o outcome) string {
	nonce, data, ad := unhx(st.Nonce), unhx(st.Data), unhx(st.AD)
	if o.class == "panic" || o.class == "timeout" {
		return st.Fn + " " + o.class + ": " + o.msg
	}
	if o.inMod != "" {
		return st.Fn + " modified an input buffer: " + o.inMod
	}
	if st.Fn == "Seal" {
		want := cs.refSeal(key, nonce, data, ad)
		if !bytesEq(o.a, want) {
			return fmt.Sprintf("Seal returned %s, RFC 7518 says %s", hx(o.a), hx(want))
		}
		return ""
	}
	pt, ok := cs.refOpen(key, nonce, data, ad)
	switch {
	case ok && (o.class != "ok" || !bytesEq(o.a, pt)):
		return fmt.Sprintf("Open of a genuine message returned %s, expected ok %s", canonOut(o), hx(pt))
	case !ok && o.class == "ok":
		return fmt.Sprintf("Open accepted a message that must be refused (%s) and returned %s", st.Kind, hx(o.a))
	case !ok && len(o.a) != 0:
		return "Open returned an error AND output " + hx(o.a)
	}
	return ""
}

// runHist drives ONE instance through the steps; returns the index of the first step that is wrong
// (-1 = none), what is wrong, and whether a fresh instance given that step alone is right.
func runHist(cs ctorSpec, key []byte, steps []Case) (int, string, bool) {
	a, err := cs.mk(cp(key))
	if err != nil {
		return 0, "constructor refused a key of the right size: " + err.Error(), false
	}
	for i, st := range steps {
		if bad := judgeHistStep(cs, key, st, histCall(a, st)); bad != "" {
			fresh, err := cs.mk(cp(key))
			freshOK := err == nil && judgeHistStep(cs, key, st, histCall(fresh, st)) == ""
			return i, bad, freshOK
		}
	}
	return -1, "", true
}

func (h *H) reportHist(cs ctorSpec, key []byte, steps []Case) bool {
	i, bad, freshOK := runHist(cs, key, steps)
	if i < 0 {
		return false
	}
	steps = steps[:i+1]
	// shrink: drop earlier steps while the last one still goes wrong
	for j := 0; j < len(steps)-1; {
		try := append(append([]Case{}, steps[:j]...), steps[j+1:]...)
		if k, b, f := runHist(cs, key, try); k == len(try)-1 {
			steps, bad, freshOK = try, b, f
		} else {
			j++
		}
	}
	id, what := idHistRef, "an aescbcaead call disagrees with the independent RFC 7518 implementation"
	if freshOK {
		id, what = idHistInstance, "the result of a call on an AEAD instance depends on the calls made on it before (a fresh instance gives the right answer for the same arguments)"
	}
	kinds := make([]string, len(steps))
	for k, s := range steps {
		kinds[k] = s.Kind
	}
	h.res.Violate(id, what, Case{Family: "hist", Monitor: "aead-history", Alg: cs.name, Key: hx(key), Seq: steps,
		Mut: fmt.Sprintf("history %s; step %d: %s", strings.Join(kinds, " -> "), len(steps)-1, bad)})
	return true
}

func (h *H) aeadHistories(r *lib.Rand) {
	for _, cs := range histCtors() {
		key := r.Bytes(cs.keyLen)
		reported := false
		run := func(kinds []string) {
			if reported {
				return
			}
			steps := make([]Case, len(kinds))
			for i, k := range kinds {
				steps[i] = mkHistStep(cs, key, k, r)
			}
			h.res.Count("hist "+cs.name+" "+strings.Join(kinds, ">")+" "+steps[len(steps)-1].Data, true)
			h.res.Hit(fmt.Sprintf("hist:len=%d", len(kinds)))
			reported = h.reportHist(cs, key, steps)
		}
		// exhaustive: every ordered pair and triple of step kinds
		for _, a := range histKinds {
			for _, b := range histKinds {
				run([]string{a, b})
				for _, c := range histKinds {
					run([]string{a, b, c})
				}
			}
		}
		h.res.Hit("hist:pairs+triples-exhaustive:" + cs.name)
		// random longer histories, fresh key each
		n := 60
		if h.f.Tier == "thorough" || h.f.Search {
			n = 600
		}
		for i := 0; i < n; i++ {
			key = r.Bytes(cs.keyLen)
			kinds := make([]string, r.Range(4, 12))
			for j := range kinds {
				kinds[j] = histKinds[r.Intn(len(histKinds))]
			}
			run(kinds)
		}
	}
}

func (h *H) replayHist(c Case) {
	h.res.Count("replay-hist", true)
	cs, ok := ctorByName(c.Alg)
	if !ok || len(c.Seq) == 0 {
		h.res.Note("replay: not a hist case")
		return
	}
	h.reportHist(cs, unhx(c.Key), c.Seq)
}

// ---------------------------------------------------------------- keyid: key identity

// namedKey builds an oct jwk with the given kid (and "use": enc when use is set).
func namedKey(raw []byte, kid string, use bool) jwk.Key {
	k, err := jwk.FromRaw(cp(raw))
	if err != nil {
		return nil
	}
	if kid != "" {
		_ = k.Set(jwk.KeyIDKey, kid)
	}
	if use {
		_ = k.Set(jwk.KeyUsageKey, "enc")
	}
	return k
}

func validLenFor(s algSpec, r *lib.Rand) int {
	switch s.family {
	case "cbcnopad":
		return 16 * r.Range(1, 4)
	case "kw":
		return 8 * r.Range(2, 6)
	}
	return []int{0, 1, 15, 16, 17, 32, 40}[r.Intn(7)]
}

// mkKeyStep: role is enc | dec-own | dec-foreign | enc-wrongsize | dec-wrongsize.
// key = the bytes of the key passed in this step; other = bytes of a different key of the right size.
func mkKeyStep(alg string, s algSpec, role string, key, other []byte, kid string, use bool, r *lib.Rand) Case {
	fnE, fnD := "EncryptSymmetric", "DecryptSymmetric"
	if r.Intn(3) == 0 {
		fnE, fnD = "Encrypt", "Decrypt"
	}
	nonce := r.Bytes(s.nonceLen)
	pt := r.Bytes(validLenFor(s, r))
	var ad []byte
	if s.family != "kw" && s.family != "cbc" && s.family != "cbcnopad" {
		ad = r.Bytes(r.Intn(12))
	}
	st := Case{Family: "sym", Alg: alg, Kind: role, Key: hx(key), Kid: kid, Size: 0, Nonce: hx(nonce), AD: hx(ad)}
	if use {
		st.Size = 1
	}
	switch role {
	case "enc", "enc-wrongsize":
		st.Fn, st.Data = fnE, hx(pt)
	case "dec-own", "dec-wrongsize", "dec-foreign":
		st.Fn = fnD
		mk := key
		if role != "dec-own" {
			mk = other // a genuine message of another key (for wrongsize: of the right-size key)
		}
		ct, tag, ok := refEncrypt(alg, s, mk, nonce, pt, ad)
		if !ok {
			st.Fn, st.Kind, st.Data = fnE, "enc", hx(pt)
			return st
		}
		st.Data, st.Tag = hx(ct), hx(tag)
		if role == "dec-own" {
			st.Orig = hx(pt)
			if len(pt) == 0 {
				st.Mut = "empty"
			}
		}
	}
	return st
}

func keyStepCall(st Case, k jwk.Key) outcome {
	if strings.HasPrefix(st.Fn, "Encrypt") {
		return callEnc(st.Fn, st.Alg, k, unhx(st.Nonce), unhx(st.Data), unhx(st.AD))
	}
	return callDec(st.Fn, st.Alg, k, unhx(st.Nonce), unhx(st.Data), unhx(st.Tag), unhx(st.AD))
}

func judgeKeyStep(st Case, o outcome) string {
	s := specs[st.Alg]
	key := unhx(st.Key)
	if o.class == "panic" || o.class == "timeout" {
		return st.Fn + " " + o.class + ": " + o.msg
	}
	switch st.Kind {
	case "enc":
		ct, tag, ok := refEncrypt(st.Alg, s, key, unhx(st.Nonce), unhx(st.Data), unhx(st.AD))
		if !ok {
			return ""
		}
		if o.class != "ok" || !bytesEq(o.a, ct) || !bytesEq(o.b, tag) {
			return fmt.Sprintf("encryption under key %s returned %s; the standard says ok ct=%s tag=%s", st.Key, canonEnc(o), hx(ct), hx(tag))
		}
	case "dec-own":
		if o.class != "ok" || !bytesEq(o.a, unhx(st.Orig)) {
			return fmt.Sprintf("a genuine message of key %s was not decrypted to its plaintext %s: %s", st.Key, st.Orig, canonDec(o))
		}
	case "dec-foreign":
		if s.auth && o.class == "ok" {
			return fmt.Sprintf("a message authenticated under ANOTHER key was accepted with key %s, output %s", st.Key, hx(o.a))
		}
		if o.class != "ok" && len(o.a) != 0 {
			return "error AND output"
		}
	case "enc-wrongsize", "dec-wrongsize":
		if o.class != "ErrKeyTypeMismatch" || len(o.a) != 0 || len(o.b) != 0 {
			return fmt.Sprintf("a %d-byte key was not refused with ErrKeyTypeMismatch and no output for %s: %s", len(key), st.Alg, canonEnc(o))
		}
	}
	return ""
}

// runKeyHist executes the steps in order; kids get the salt appended so that a re-run in the same
// process starts from names the process has never seen. Returns first wrong step (-1 none), what,
// and whether the same call with a metadata-free key of the same bytes is right.
func runKeyHist(steps []Case, salt string) (int, string, bool) {
	for i, st := range steps {
		kid := st.Kid
		if kid != "" {
			kid += salt
		}
		k := namedKey(unhx(st.Key), kid, st.Size == 1)
		if k == nil {
			continue
		}
		if bad := judgeKeyStep(st, keyStepCall(st, k)); bad != "" {
			plain := namedKey(unhx(st.Key), "", false)
			return i, bad, plain != nil && judgeKeyStep(st, keyStepCall(st, plain)) == ""
		}
	}
	return -1, "", true
}

var keySalt int

func (h *H) reportKeyHist(alg string, steps []Case, salt string) bool {
	i, bad, plainOK := runKeyHist(steps, salt)
	if i < 0 {
		return false
	}
	steps = steps[:i+1]
	for j := 0; j < len(steps)-1; {
		try := append(append([]Case{}, steps[:j]...), steps[j+1:]...)
		keySalt++
		if k, b, f := runKeyHist(try, fmt.Sprintf("%s~s%d", salt, keySalt)); k == len(try)-1 {
			steps, bad, plainOK = try, b, f
		} else {
			j++
		}
	}
	id, what := idKeyIdentRef, "a symmetric call with a named key disagrees with the independent implementation"
	if plainOK {
		id, what = idKeyIdent, "the result of a call depends on OTHER keys used earlier in the process (same kid / metadata): the same key bytes without metadata give the right answer"
	}
	roles := make([]string, len(steps))
	for k, s := range steps {
		roles[k] = fmt.Sprintf("%s(kid=%s key=%s…)", s.Kind, s.Kid, s.Key[:8])
	}
	h.res.Violate(id, what, Case{Family: "keyid", Monitor: "key-identity", Alg: alg, Seq: steps,
		Mut: fmt.Sprintf("history %s; step %d: %s", strings.Join(roles, " -> "), len(steps)-1, bad)})
	return true
}

func otherKeyLen(s algSpec) int {
	switch s.keyLen {
	case 16:
		return 32
	case 24:
		return 16
	case 48:
		return 32
	case 64:
		return 32
	}
	if s.family == "cbchmac" {
		return 64
	}
	return 16
}

var keyHistN int

func (h *H) keyIdentities(r *lib.Rand) {
	roles := []string{"enc", "dec-own", "dec-foreign", "enc-wrongsize", "dec-wrongsize"}
	for _, alg := range symNames() {
		s, ok := specs[alg]
		if !ok {
			continue
		}
		n := 12
		if h.f.Tier == "thorough" || h.f.Search {
			n = 120
		}
		for it := 0; it < n; it++ {
			keyHistN++
			kidShared := fmt.Sprintf("key-%d-%x", keyHistN, r.Bytes(3))
			if it%4 == 3 {
				kidShared = []string{"default", "0", "k", "../a b"}[r.Intn(4)] + fmt.Sprintf("#%d", keyHistN)
			}
			use := r.Bool()
			a, b := r.Bytes(s.keyLen), r.Bytes(s.keyLen)
			wrong := r.Bytes(otherKeyLen(s))
			type kk struct {
				raw []byte
				kid string
			}
			right := []kk{{a, kidShared}, {b, kidShared}, {a, kidShared + "-alias"}, {b, ""}, {a, kidShared}}
			steps := []Case{}
			ln := r.Range(3, 9)
			for j := 0; j < ln; j++ {
				role := roles[r.Intn(len(roles))]
				if j < 2 && it%2 == 0 { // the shortest interesting shapes first: right key A, then B / wrong size under the same kid
					role = []string{"enc", "dec-own"}[r.Intn(2)]
				}
				k := right[r.Intn(len(right))]
				if j < 2 && it%2 == 0 {
					k = right[j]
				}
				other := b
				if bytesEq(k.raw, b) {
					other = a
				}
				switch role {
				case "enc-wrongsize", "dec-wrongsize":
					steps = append(steps, mkKeyStep(alg, s, role, wrong, a, kidShared, use, r))
				default:
					steps = append(steps, mkKeyStep(alg, s, role, k.raw, other, k.kid, use, r))
				}
			}
			last := steps[len(steps)-1]
			h.res.Count("keyid "+alg+" "+last.Kind+" "+last.Key+last.Data, true)
			h.res.Hit("keyid:" + s.family)
			for _, st := range steps {
				h.res.Hit("keyid-step:" + st.Kind)
			}
			if h.reportKeyHist(alg, steps, "") {
				break
			}
		}
	}
}

func (h *H) replayKeyHist(c Case) {
	h.res.Count("replay-keyid", true)
	if len(c.Seq) == 0 {
		h.res.Note("replay: not a keyid case")
		return
	}
	h.reportKeyHist(c.Alg, c.Seq, "")
}
