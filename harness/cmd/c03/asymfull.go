package main

// T2 for the asymmetric MODEL end to end: `kitdrv asymfull` runs Kit.CryptoGlue.signPrivateKey /
// verifyPublicKey — generated dispatch, key-kind/curve guard, and the Lean-native scheme that the
// dispatched helper's stdlib call denotes — and its answer (signature bytes, valid/invalid, error
// class) is compared with SignPrivateKey / VerifyPublicKey of the real code for every signature name
// × key kind (fitting and not) × genuine / mutated signatures. A difference is a T2 disagreement.

import (
	"crypto/ed25519"
	"fmt"
	"strings"

	kc "github.com/dapr/kit/crypto"

	"verifharness/lib"
)

func keyMatFields(ks *keyset, kind string) string {
	switch {
	case kind == "rsaPriv":
		return keyFields(ks.rsa[0])
	case kind == "rsaPub":
		k := ks.rsa[0]
		return fmt.Sprintf("n=%s e=%s", hx(k.N.Bytes()), hx([]byte{byte(k.E >> 16), byte(k.E >> 8), byte(k.E)}))
	case strings.HasPrefix(kind, "ecP"):
		k := ks.ec[kind[2:6]][0]
		s := fmt.Sprintf("qx=%s qy=%s", hx(k.X.Bytes()), hx(k.Y.Bytes()))
		if strings.HasSuffix(kind, "Priv") {
			s += " dd=" + hx(k.D.Bytes())
		}
		return s
	case kind == "ed25519Priv":
		return fmt.Sprintf("seed=%s pk=%s", hx(ks.ed[0].Seed()), hx(ks.ed[0].Public().(ed25519.PublicKey)))
	case kind == "ed25519Pub":
		return "pk=" + hx(ks.ed[0].Public().(ed25519.PublicKey))
	}
	return ""
}

func canonFull(ans string) string {
	if strings.HasPrefix(ans, "err ") {
		c := strings.TrimPrefix(ans, "err ")
		switch c {
		case "ErrKeyTypeMismatch", "ErrUnsupportedAlgorithm":
			return ans
		}
		return "err other"
	}
	return ans
}

func (h *H) asymFull() {
	if h.f.Drv == "" {
		return
	}
	d, err := lib.StartDrv(h.f.Drv, "C03")
	if err != nil || d == nil {
		return
	}
	defer d.Close()
	ks := getKeys()
	rng := h.rng.Fork()
	kinds := []string{"rsaPriv", "rsaPub", "ecP256Priv", "ecP256Pub", "ecP384Priv", "ecP384Pub", "ecP521Priv", "ecP521Pub", "ed25519Priv", "ed25519Pub", "x25519Priv", "oct"}
	names := append(append([]string{}, kc.SupportedSignatureAlgorithms()...), "RS257", "ES", "RSA-OAEP", "HS256")
	diff := func(corr, line, model, impl string) {
		if model != impl {
			h.res.Disagree(corr, map[string]any{"line": line}, model, impl)
		} else {
			h.res.Traces++
		}
	}
	for _, alg := range names {
		for _, kind := range kinds {
			key := ks.jwks[kind]
			km := keyMatFields(ks, kind)
			fitsSign := kindFits("SignPrivateKey", alg, kind)
			fitsVerify := kindFits("VerifyPublicKey", alg, kind)
			dg := digestFor(alg, rng)
			h.res.Hit("asymfull:" + alg)
			// --- sign
			so := callAsym("SignPrivateKey", alg, key, dg, nil, nil)
			rnd := rng.Bytes(32)
			line := fmt.Sprintf("asymfull fn=SignPrivateKey alg=%s kind=%s %s digest=%s rand=%s", alg, kind, km, hx(dg), hx(rnd))
			ans, aerr := d.Ask(line)
			if aerr != nil {
				h.res.Disagree("driver protocol", map[string]any{"line": line}, aerr.Error(), "")
				return
			}
			h.res.Count(line, fitsSign)
			implS := "err " + so.class
			if so.class == "ok" {
				implS = "ok sig=" + hx(so.out)
			}
			det := strings.HasPrefix(alg, "RS") || alg == "EdDSA"
			if so.class == "ok" && !det {
				// randomised schemes: the model's signature (with its own randomness) must verify under the real code
				if ms, ok := field(ans, "sig"); ok && strings.HasPrefix(ans, "ok") {
					vo := callAsym("VerifyPublicKey", alg, key, dg, unhx(ms), nil)
					diff("asymmetric model end to end: a signature made by the model verifies under the real code", line, "ok valid=true", fmt.Sprintf("%s valid=%v", vo.class, vo.valid))
				} else {
					diff("asymmetric model end to end: SignPrivateKey outcome", line, canonFull(ans), "ok")
				}
			} else {
				diff("asymmetric model end to end: SignPrivateKey output / error class", line, canonFull(ans), canonFull(implS))
			}
			// --- verify: genuine signature when the key fits, else arbitrary bytes; plus mutations
			sig := rng.Bytes(64)
			if fitsVerify {
				if s, err := stdSign(alg, ks, 0, dg); err == nil {
					sig = s
				}
			}
			sigs := map[string][]byte{"as made": sig}
			if fitsVerify {
				m := cp(sig)
				m[len(m)/2] ^= 0x10
				sigs["one byte changed"] = m
				sigs["one byte appended"] = append(cp(sig), 0)
				sigs["truncated"] = cp(sig[:len(sig)-1])
			}
			for _, sg := range sigs {
				vo := callAsym("VerifyPublicKey", alg, key, dg, sg, nil)
				line := fmt.Sprintf("asymfull fn=VerifyPublicKey alg=%s kind=%s %s digest=%s sig=%s", alg, kind, km, hx(dg), hx(sg))
				ans, aerr := d.Ask(line)
				if aerr != nil {
					h.res.Disagree("driver protocol", map[string]any{"line": line}, aerr.Error(), "")
					return
				}
				h.res.Count(line, fitsVerify)
				implV := "err " + vo.class
				if vo.class == "ok" {
					implV = fmt.Sprintf("ok valid=%v", vo.valid)
				}
				diff("asymmetric model end to end: VerifyPublicKey result / error class", line, canonFull(ans), canonFull(implV))
			}
			// RSA: a digest of the wrong size is an error of the verifier, not `false`
			if fitsVerify && (strings.HasPrefix(alg, "RS") || strings.HasPrefix(alg, "PS")) {
				bad := rng.Bytes(len(dg) - 1)
				vo := callAsym("VerifyPublicKey", alg, key, bad, sig, nil)
				line := fmt.Sprintf("asymfull fn=VerifyPublicKey alg=%s kind=%s %s digest=%s sig=%s", alg, kind, km, hx(bad), hx(sig))
				if ans, err := d.Ask(line); err == nil {
					implV := "err " + vo.class
					if vo.class == "ok" {
						implV = fmt.Sprintf("ok valid=%v", vo.valid)
					}
					diff("asymmetric model end to end: VerifyPublicKey with a digest of the wrong size", line, canonFull(ans), canonFull(implV))
				}
			}
		}
	}
}
