package main

// T2 for the asymmetric MODEL end to end: `kitdrv asymfull` runs Kit.CryptoGlue.signPrivateKey /
// verifyPublicKey — generated dispatch, key-kind/curve guard, and the Lean-native scheme that the
// dispatched helper's stdlib call denotes — and its answer (signature bytes, valid/invalid, error
// class) is compared with SignPrivateKey / VerifyPublicKey of the real code for every signature name
// × key kind (fitting and not) × genuine / mutated signatures. A difference is a T2 disagreement.

import (
	"crypto/ed25519"
	"fmt"
	"strings"

	kc "github.com/dapr/kit/crypto"

	"verifharness/lib"
)

func keyMatFields(ks *keyset, kind string) string {
	switch {
	case kind == "rsaPriv":
		return keyFields(ks.rsa[0])
	case kind == "rsaPub":
		k := ks.rsa[0]
		return fmt.Sprintf("n=%s e=%s", hx(k.N.Bytes()), hx([]byte{byte(k.E >> 16), byte(k.E >> 8), byte(k.E)}))
	case strings.HasPrefix(kind, "ecP"):
		k := ks.ec[kind[2:6]][0]
		s := fmt.Sprintf("qx=%s qy=%s", hx(k.X.Bytes()), hx(k.Y.Bytes()))
		if strings.HasSuffix(kind, "Priv") {
			s += " dd=" + hx(k.D.Bytes())
		}
		return s
	case kind == "ed25519Priv":
		return fmt.Sprintf("seed=%s pk=%s", hx(ks.ed[0].Seed()), hx(ks.ed[0].Public().(ed25519.PublicKey)))
	case kind == "ed25519Pub":
		return "pk=" + hx(ks.ed[0].Public().(ed25519.PublicKey))
	}
	return ""
}

func canonFull(ans string) string {
	if strings.HasPrefix(ans, "err ") {
		c := strings.TrimPrefix(ans, "err ")
		switch c {
		case "ErrKeyTypeMismatch", "ErrUnsupportedAlgorithm":
			return ans
		}
		return "err other"
	}
	return ans
}

// asymFullEnc: the same for EncryptPublicKey / DecryptPrivateKey (model: generated dispatch + key
// guard + the Lean-native RSAES scheme of the helper's stdlib call).
func (h *H) asymFullEnc(d *lib.Drv, rng *lib.Rand) {
	ks := getKeys()
	kinds := []string{"rsaPriv", "rsaPub", "ecP256Priv", "ed25519Pub", "x25519Priv", "oct"}
	names := append(append([]string{}, kc.SupportedAsymmetricAlgorithms()...), "RSA-OAEP-1", "ECDH-ES", "RS256", "RSA1_")
	diff := func(corr, line, model, impl string) {
		if model != impl {
			h.res.Disagree(corr, map[string]any{"line": line}, model, impl)
		} else {
			h.trace()
		}
	}
	k := (ks.rsa[0].N.BitLen() + 7) / 8
	for _, alg := range names {
		for _, kind := range kinds {
			key := ks.jwks[kind]
			km := keyMatFields(ks, kind)
			h.res.Hit("asymfull:" + alg)
			msg := rng.Bytes(20)
			label := rng.Bytes(5)
			// decrypt: a genuine ciphertext (made by the stdlib for the RSA key) and a changed one
			ct := rng.Bytes(k)
			if _, ok := encSpecs[alg]; ok {
				if c, err := stdEncrypt(alg, &ks.rsa[0].PublicKey, msg, label); err == nil {
					ct = c
				}
			}
			bad := cp(ct)
			bad[len(bad)/3] ^= 0x04
			for _, c := range [][]byte{ct, bad} {
				o := callAsym("DecryptPrivateKey", alg, key, c, nil, label)
				line := fmt.Sprintf("asymfull fn=DecryptPrivateKey alg=%s kind=%s %s data=%s label=%s", alg, kind, km, hx(c), hx(label))
				ans, err := d.Ask(line)
				if err != nil {
					return
				}
				h.res.Count(line, o.class == "ok")
				impl := "err " + o.class
				if o.class == "ok" {
					impl = "ok pt=" + hx(o.out)
				}
				if ans == "ok " {
					ans = "ok pt="
				}
				diff("asymmetric model end to end: DecryptPrivateKey output / error class", line, canonFull(strings.TrimSpace(ans)), canonFull(strings.TrimSpace(impl)))
			}
			// encrypt: the model's ciphertext (its own randomness) must decrypt under the real code
			var rnd []byte
			if alg == "RSA1_5" {
				rnd = nonZero(rng, k-len(msg)-3)
			} else {
				rnd = rng.Bytes(hashLenOf(alg))
			}
			eo := callAsym("EncryptPublicKey", alg, key, msg, nil, label)
			line := fmt.Sprintf("asymfull fn=EncryptPublicKey alg=%s kind=%s %s data=%s label=%s rand=%s", alg, kind, km, hx(msg), hx(label), hx(rnd))
			ans, err := d.Ask(line)
			if err != nil {
				return
			}
			h.res.Count(line, eo.class == "ok")
			if eo.class == "ok" {
				if mc, ok := field(ans, "ct"); ok {
					do := callAsym("DecryptPrivateKey", alg, ks.jwks["rsaPriv"], unhx(mc), nil, label)
					diff("asymmetric model end to end: a ciphertext made by the model decrypts under the real code", line, "ok pt="+hx(msg), do.class+" pt="+hx(do.out))
				} else {
					diff("asymmetric model end to end: EncryptPublicKey outcome", line, canonFull(ans), "ok")
				}
			} else {
				diff("asymmetric model end to end: EncryptPublicKey error class", line, canonFull(ans), canonFull("err "+eo.class))
			}
		}
	}
}

func hashLenOf(alg string) int {
	if s, ok := encSpecs[alg]; ok && s.oaep {
		return s.hlen
	}
	return 32
}

func (h *H) asymFull(rng *lib.Rand) {
	if h.f.Drv == "" {
		return
	}
	d, err := lib.StartDrv(h.f.Drv, "C03")
	if err != nil || d == nil {
		return
	}
	defer d.Close()
	h.asymFullEnc(d, rng.Fork())
	ks := getKeys()
	kinds := []string{"rsaPriv", "rsaPub", "ecP256Priv", "ecP256Pub", "ecP384Priv", "ecP384Pub", "ecP521Priv", "ecP521Pub", "ed25519Priv", "ed25519Pub", "x25519Priv", "oct"}
	names := append(append([]string{}, kc.SupportedSignatureAlgorithms()...), "RS257", "ES", "RSA-OAEP", "HS256")
	diff := func(corr, line, model, impl string) {
		if model != impl {
			h.res.Disagree(corr, map[string]any{"line": line}, model, impl)
		} else {
			h.trace()
		}
	}
	for _, alg := range names {
		for _, kind := range kinds {
			key := ks.jwks[kind]
			km := keyMatFields(ks, kind)
			fitsSign := kindFits("SignPrivateKey", alg, kind)
			fitsVerify := kindFits("VerifyPublicKey", alg, kind)
			dg := digestFor(alg, rng)
			h.res.Hit("asymfull:" + alg)
			// --- sign
			so := callAsym("SignPrivateKey", alg, key, dg, nil, nil)
			rnd := rng.Bytes(32)
			line := fmt.Sprintf("asymfull fn=SignPrivateKey alg=%s kind=%s %s digest=%s rand=%s", alg, kind, km, hx(dg), hx(rnd))
			ans, aerr := d.Ask(line)
			if aerr != nil {
				h.res.Disagree("driver protocol", map[string]any{"line": line}, aerr.Error(), "")
				return
			}
			h.res.Count(line, fitsSign)
			implS := "err " + so.class
			if so.class == "ok" {
				implS = "ok sig=" + hx(so.out)
			}
			det := strings.HasPrefix(alg, "RS") || alg == "EdDSA"
			if so.class == "ok" && !det {
				// randomised schemes: the model's signature (with its own randomness) must verify under the real code
				if ms, ok := field(ans, "sig"); ok && strings.HasPrefix(ans, "ok") {
					vo := callAsym("VerifyPublicKey", alg, key, dg, unhx(ms), nil)
					diff("asymmetric model end to end: a signature made by the model verifies under the real code", line, "ok valid=true", fmt.Sprintf("%s valid=%v", vo.class, vo.valid))
				} else {
					diff("asymmetric model end to end: SignPrivateKey outcome", line, canonFull(ans), "ok")
				}
			} else {
				diff("asymmetric model end to end: SignPrivateKey output / error class", line, canonFull(ans), canonFull(implS))
			}
			// --- verify: genuine signature when the key fits, else arbitrary bytes; plus mutations
			sig := rng.Bytes(64)
			if fitsVerify {
				if s, err := stdSign(alg, ks, 0, dg); err == nil {
					sig = s
				}
			}
			sigs := map[string][]byte{"as made": sig}
			if fitsVerify {
				m := cp(sig)
				m[len(m)/2] ^= 0x10
				sigs["one byte changed"] = m
				sigs["one byte appended"] = append(cp(sig), 0)
				sigs["truncated"] = cp(sig[:len(sig)-1])
			}
			for _, sg := range sigs {
				vo := callAsym("VerifyPublicKey", alg, key, dg, sg, nil)
				line := fmt.Sprintf("asymfull fn=VerifyPublicKey alg=%s kind=%s %s digest=%s sig=%s", alg, kind, km, hx(dg), hx(sg))
				ans, aerr := d.Ask(line)
				if aerr != nil {
					h.res.Disagree("driver protocol", map[string]any{"line": line}, aerr.Error(), "")
					return
				}
				h.res.Count(line, fitsVerify)
				implV := "err " + vo.class
				if vo.class == "ok" {
					implV = fmt.Sprintf("ok valid=%v", vo.valid)
				}
				diff("asymmetric model end to end: VerifyPublicKey result / error class", line, canonFull(ans), canonFull(implV))
			}
			// RSA: a digest of the wrong size is an error of the verifier, not `false`
			if fitsVerify && (strings.HasPrefix(alg, "RS") || strings.HasPrefix(alg, "PS")) {
				bad := rng.Bytes(len(dg) - 1)
				vo := callAsym("VerifyPublicKey", alg, key, bad, sig, nil)
				line := fmt.Sprintf("asymfull fn=VerifyPublicKey alg=%s kind=%s %s digest=%s sig=%s", alg, kind, km, hx(bad), hx(sig))
				if ans, err := d.Ask(line); err == nil {
					implV := "err " + vo.class
					if vo.class == "ok" {
						implV = fmt.Sprintf("ok valid=%v", vo.valid)
					}
					diff("asymmetric model end to end: VerifyPublicKey with a digest of the wrong size", line, canonFull(ans), canonFull(implV))
				}
			}
		}
	}
}
