package main

// Asymmetric half of the C03 harness: model-independent monitors for the 5 RSA encryption names
// and the 10 signature names, run on the real code, with Go's stdlib called directly as the
// interop oracle (the library dapr/kit delegates to: interop is exercised, not independently
// established), plus the (function × name × key kind) outcome-class observations that main.go
// compares with the Lean model's dispatch.

import (
	"crypto"
	"crypto/ecdsa"
	"crypto/ed25519"
	"crypto/elliptic"
	"crypto/rand"
	"crypto/rsa"
	"crypto/sha1"
	"crypto/sha256"
	"crypto/sha512"
	"crypto/x509"
	"encoding/pem"
	"fmt"
	"hash"
	"strings"

	kc "github.com/dapr/kit/crypto"
	"github.com/lestrrat-go/jwx/v2/jwk"
	"golang.org/x/crypto/curve25519"

	"verifharness/lib"
)

type asymObs struct {
	Line string
	Impl string
	Case map[string]any
}

var allKinds = []string{"oct", "rsaPriv", "rsaPub", "ecP256Priv", "ecP256Pub", "ecP384Priv", "ecP384Pub", "ecP521Priv", "ecP521Pub", "ed25519Priv", "ed25519Pub", "x25519Priv", "x25519Pub"}

type keyset struct {
	rsa  [2]*rsa.PrivateKey
	ec   map[string][2]*ecdsa.PrivateKey // "P256" …
	ed   [2]ed25519.PrivateKey
	jwks map[string]jwk.Key // by kind (first key of each)
	pems map[string]string
}

var theKeys *keyset

func mustJWK(raw any) jwk.Key {
	k, err := jwk.FromRaw(raw)
	if err != nil {
		panic(fmt.Sprintf("harness: jwk.FromRaw(%T): %v", raw, err))
	}
	return k
}

func pemOf(priv any) string {
	b, err := x509.MarshalPKCS8PrivateKey(priv)
	if err != nil {
		return "unmarshalable: " + err.Error()
	}
	return string(pem.EncodeToMemory(&pem.Block{Type: "PRIVATE KEY", Bytes: b}))
}

func getKeys() *keyset {
	if theKeys != nil {
		return theKeys
	}
	ks := &keyset{ec: map[string][2]*ecdsa.PrivateKey{}, jwks: map[string]jwk.Key{}, pems: map[string]string{}}
	for i := range ks.rsa {
		k, err := rsa.GenerateKey(rand.Reader, 2048)
		if err != nil {
			panic(err)
		}
		ks.rsa[i] = k
	}
	for name, c := range map[string]elliptic.Curve{"P256": elliptic.P256(), "P384": elliptic.P384(), "P521": elliptic.P521()} {
		var pair [2]*ecdsa.PrivateKey
		for i := range pair {
			k, err := ecdsa.GenerateKey(c, rand.Reader)
			if err != nil {
				panic(err)
			}
			pair[i] = k
		}
		ks.ec[name] = pair
	}
	for i := range ks.ed {
		_, k, err := ed25519.GenerateKey(rand.Reader)
		if err != nil {
			panic(err)
		}
		ks.ed[i] = k
	}
	ks.jwks["oct"] = mustJWK([]byte("0123456789abcdef0123456789abcdef"))
	ks.jwks["rsaPriv"] = mustJWK(ks.rsa[0])
	ks.jwks["rsaPub"] = mustJWK(&ks.rsa[0].PublicKey)
	ks.pems["rsa0"], ks.pems["rsa1"] = pemOf(ks.rsa[0]), pemOf(ks.rsa[1])
	for _, c := range []string{"P256", "P384", "P521"} {
		ks.jwks["ec"+c+"Priv"] = mustJWK(ks.ec[c][0])
		ks.jwks["ec"+c+"Pub"] = mustJWK(&ks.ec[c][0].PublicKey)
		ks.pems["ec"+c+"0"], ks.pems["ec"+c+"1"] = pemOf(ks.ec[c][0]), pemOf(ks.ec[c][1])
	}
	ks.jwks["ed25519Priv"] = mustJWK(ks.ed[0])
	ks.jwks["ed25519Pub"] = mustJWK(ks.ed[0].Public().(ed25519.PublicKey))
	ks.pems["ed0"], ks.pems["ed1"] = pemOf(ks.ed[0]), pemOf(ks.ed[1])
	// X25519 OKP keys (a different curve of the same key type)
	xpriv := make([]byte, 32)
	if _, err := rand.Read(xpriv); err != nil {
		panic(err)
	}
	xpub, err := curve25519.X25519(xpriv, curve25519.Basepoint)
	if err != nil {
		panic(err)
	}
	xjson := fmt.Sprintf(`{"kty":"OKP","crv":"X25519","x":"%s","d":"%s"}`, b64(xpub), b64(xpriv))
	xk, err := jwk.ParseKey([]byte(xjson))
	if err != nil {
		panic("harness: x25519 jwk: " + err.Error())
	}
	ks.jwks["x25519Priv"] = xk
	xpk, err := jwk.ParseKey([]byte(fmt.Sprintf(`{"kty":"OKP","crv":"X25519","x":"%s"}`, b64(xpub))))
	if err != nil {
		panic("harness: x25519 jwk: " + err.Error())
	}
	ks.jwks["x25519Pub"] = xpk
	theKeys = ks
	return ks
}

func b64(b []byte) string {
	const tbl = "ABCDEFGHIJKLMNOPQRSTUVWXYZabcdefghijklmnopqrstuvwxyz0123456789-_"
	var sb strings.Builder
	for i := 0; i < len(b); i += 3 {
		var v uint32
		n := 0
		for j := 0; j < 3; j++ {
			v <<= 8
			if i+j < len(b) {
				v |= uint32(b[i+j])
				n++
			}
		}
		for j := 0; j <= n; j++ {
			sb.WriteByte(tbl[(v>>(18-6*uint(j)))&63])
		}
	}
	return sb.String()
}

// makeForeignKeys gives main.go the non-octet keys for its wrong-kind sweeps.
func makeForeignKeys() map[string]jwk.Key { return getKeys().jwks }

// ---------------------------------------------------------------- what the names denote (monitor side)

type sigSpec struct {
	fam   string // rsapkcs | rsapss | ecdsa | eddsa
	hash  crypto.Hash
	curve string
}

var sigSpecs = map[string]sigSpec{
	"RS256": {"rsapkcs", crypto.SHA256, ""}, "RS384": {"rsapkcs", crypto.SHA384, ""}, "RS512": {"rsapkcs", crypto.SHA512, ""},
	"PS256": {"rsapss", crypto.SHA256, ""}, "PS384": {"rsapss", crypto.SHA384, ""}, "PS512": {"rsapss", crypto.SHA512, ""},
	"ES256": {"ecdsa", crypto.SHA256, "P256"}, "ES384": {"ecdsa", crypto.SHA384, "P384"}, "ES512": {"ecdsa", crypto.SHA512, "P521"},
	"EdDSA": {"eddsa", 0, ""},
}

type encSpec struct {
	oaep bool
	hash func() hash.Hash
	hlen int
}

var encSpecs = map[string]encSpec{
	"RSA1_5":       {false, nil, 0},
	"RSA-OAEP":     {true, sha1.New, 20},
	"RSA-OAEP-256": {true, sha256.New, 32},
	"RSA-OAEP-384": {true, sha512.New384, 48},
	"RSA-OAEP-512": {true, sha512.New, 64},
}

// kindFits: does a key of this kind satisfy what the (function, name) needs, per the standards?
func kindFits(fn, alg, kind string) bool {
	pubOK := fn == "EncryptPublicKey" || fn == "VerifyPublicKey" || fn == "Encrypt"
	base := strings.TrimSuffix(strings.TrimSuffix(kind, "Priv"), "Pub")
	isPriv := strings.HasSuffix(kind, "Priv")
	if !isPriv && !pubOK {
		return false
	}
	if _, ok := encSpecs[alg]; ok {
		return base == "rsa"
	}
	s, ok := sigSpecs[alg]
	if !ok {
		return false
	}
	switch s.fam {
	case "rsapkcs", "rsapss":
		return base == "rsa"
	case "ecdsa":
		return base == "ec"+s.curve
	case "eddsa":
		return base == "ed25519"
	}
	return false
}

// ---------------------------------------------------------------- calls

type aout struct {
	class string
	out   []byte
	valid bool
	msg   string
}

func aguard(f func() aout) aout {
	o := guarded(func() outcome {
		r := f()
		var v []byte
		if r.valid {
			v = []byte{1}
		}
		return outcome{class: r.class, a: r.out, b: v, msg: r.msg}
	})
	return aout{class: o.class, out: o.a, valid: len(o.b) == 1, msg: o.msg}
}

func errMsg(err error) string {
	if err == nil {
		return ""
	}
	return err.Error()
}

func aClassify(err error) string {
	c := classify(err)
	if strings.HasPrefix(c, "other:") || c == "aead:auth" {
		return "other"
	}
	return c
}

func callAsym(fn, alg string, key jwk.Key, data, sig, label []byte) aout {
	o := callAsym0(fn, alg, key, data, sig, label)
	ledger.after(Case{Family: "asym", Fn: fn, Alg: alg, Data: hx(data), Tag: hx(sig), AD: hx(label)}, map[string][]byte{"output": o.out})
	return o
}

func callAsym0(fn, alg string, key jwk.Key, data, sig, label []byte) aout {
	return aguard(func() aout {
		switch fn {
		case "EncryptPublicKey":
			ct, err := kc.EncryptPublicKey(cp(data), alg, key, cp(label))
			return aout{class: aClassify(err), out: ct, msg: errMsg(err)}
		case "Encrypt":
			ct, tag, err := kc.Encrypt(cp(data), alg, key, nil, cp(label))
			return aout{class: aClassify(err), out: append(ct, tag...), msg: errMsg(err)}
		case "DecryptPrivateKey":
			pt, err := kc.DecryptPrivateKey(cp(data), alg, key, cp(label))
			return aout{class: aClassify(err), out: pt, msg: errMsg(err)}
		case "Decrypt":
			pt, err := kc.Decrypt(cp(data), alg, key, nil, nil, cp(label))
			return aout{class: aClassify(err), out: pt, msg: errMsg(err)}
		case "SignPrivateKey":
			s, err := kc.SignPrivateKey(cp(data), alg, key)
			return aout{class: aClassify(err), out: s, msg: errMsg(err)}
		case "VerifyPublicKey":
			v, err := kc.VerifyPublicKey(cp(data), cp(sig), alg, key)
			return aout{class: aClassify(err), valid: v, msg: errMsg(err)}
		}
		return aout{class: "harness-bad-fn"}
	})
}

// ---------------------------------------------------------------- stdlib oracle

func digestFor(alg string, rng *lib.Rand) []byte {
	s, ok := sigSpecs[alg]
	if !ok || s.fam == "eddsa" {
		return rng.Bytes(32)
	}
	return rng.Bytes(s.hash.Size())
}

func stdSign(alg string, ks *keyset, idx int, digest []byte) ([]byte, error) {
	s := sigSpecs[alg]
	switch s.fam {
	case "rsapkcs":
		return rsa.SignPKCS1v15(rand.Reader, ks.rsa[idx], s.hash, digest)
	case "rsapss":
		return rsa.SignPSS(rand.Reader, ks.rsa[idx], s.hash, digest, nil)
	case "ecdsa":
		return ecdsa.SignASN1(rand.Reader, ks.ec[s.curve][idx], digest)
	case "eddsa":
		return ed25519.Sign(ks.ed[idx], digest), nil
	}
	return nil, fmt.Errorf("no stdlib signer for %s", alg)
}

func stdVerify(alg string, ks *keyset, idx int, digest, sig []byte) bool {
	s := sigSpecs[alg]
	switch s.fam {
	case "rsapkcs":
		return rsa.VerifyPKCS1v15(&ks.rsa[idx].PublicKey, s.hash, digest, sig) == nil
	case "rsapss":
		return rsa.VerifyPSS(&ks.rsa[idx].PublicKey, s.hash, digest, sig, nil) == nil
	case "ecdsa":
		return ecdsa.VerifyASN1(&ks.ec[s.curve][idx].PublicKey, digest, sig)
	case "eddsa":
		return ed25519.Verify(ks.ed[idx].Public().(ed25519.PublicKey), digest, sig)
	}
	return false
}

func stdEncrypt(alg string, pub *rsa.PublicKey, pt, label []byte) ([]byte, error) {
	s := encSpecs[alg]
	if !s.oaep {
		return rsa.EncryptPKCS1v15(rand.Reader, pub, pt)
	}
	return rsa.EncryptOAEP(s.hash(), rand.Reader, pub, pt, label)
}

func stdDecrypt(alg string, priv *rsa.PrivateKey, ct, label []byte) ([]byte, error) {
	s := encSpecs[alg]
	if !s.oaep {
		return rsa.DecryptPKCS1v15(rand.Reader, priv, ct)
	}
	return rsa.DecryptOAEP(s.hash(), rand.Reader, priv, ct, label)
}

func sigKeyJWK(alg string, ks *keyset, idx int, priv bool) jwk.Key {
	s := sigSpecs[alg]
	switch s.fam {
	case "rsapkcs", "rsapss":
		if priv {
			return mustJWK(ks.rsa[idx])
		}
		return mustJWK(&ks.rsa[idx].PublicKey)
	case "ecdsa":
		if priv {
			return mustJWK(ks.ec[s.curve][idx])
		}
		return mustJWK(&ks.ec[s.curve][idx].PublicKey)
	}
	if priv {
		return mustJWK(ks.ed[idx])
	}
	return mustJWK(ks.ed[idx].Public().(ed25519.PublicKey))
}

func sigKeyPEM(alg string, ks *keyset, idx int) string {
	s := sigSpecs[alg]
	switch s.fam {
	case "rsapkcs", "rsapss":
		return ks.pems[fmt.Sprintf("rsa%d", idx)]
	case "ecdsa":
		return ks.pems[fmt.Sprintf("ec%s%d", s.curve, idx)]
	}
	return ks.pems[fmt.Sprintf("ed%d", idx)]
}

// ---------------------------------------------------------------- the run

func runAsym(res *lib.Result, tier string, rng *lib.Rand, search bool) []asymObs {
	ks := getKeys()
	obs := dispatchMatrix(res, ks, rng)
	reps := 1
	if tier == "thorough" {
		reps = 3
	}
	if search {
		reps = 8
	}
	asymBatches(res, ks, rng)
	keySequences(res, ks, rng)
	sigLengthMutations(res, ks, rng)
	for r := 0; r < reps; r++ {
		encMonitors(res, ks, rng, tier)
		sigMonitors(res, ks, rng, tier)
	}
	return obs
}

func violate(res *lib.Result, id, what string, c map[string]any) {
	c["family"] = "asym"
	res.Violate(id, what, c)
}

// dispatchMatrix: every function × name (supported, other family, unsupported, junk) × key kind.
func dispatchMatrix(res *lib.Result, ks *keyset, rng *lib.Rand) []asymObs {
	encNames := kc.SupportedAsymmetricAlgorithms()
	sigNames := kc.SupportedSignatureAlgorithms()
	other := []string{"ECDH-ES", "ECDH-ES+A128KW", "ECDH-ES+A192KW", "ECDH-ES+A256KW", "HS256", "HS384", "HS512", "A128GCMKW", "RS257", "rsa-oaep", "ES256x", "RSA-OAEP-", "PS25", "EdDSA25519", "ES", "X"}
	var names []string
	names = append(names, encNames...)
	names = append(names, sigNames...)
	names = append(names, other...)
	supported := map[string]bool{}
	for _, n := range encNames {
		supported["enc:"+n] = true
	}
	for _, n := range sigNames {
		supported["sig:"+n] = true
	}
	var obs []asymObs
	for _, fn := range []string{"EncryptPublicKey", "DecryptPrivateKey", "SignPrivateKey", "VerifyPublicKey", "Encrypt", "Decrypt"} {
		fam := "sig:"
		if fn == "EncryptPublicKey" || fn == "DecryptPrivateKey" || fn == "Encrypt" || fn == "Decrypt" {
			fam = "enc:"
		}
		for _, alg := range names {
			for _, kind := range allKinds {
				key := ks.jwks[kind]
				fits := supported[fam+alg] && kindFits(fn, alg, kind)
				var data, sig, label []byte
				switch fn {
				case "EncryptPublicKey", "Encrypt":
					data = rng.Bytes(16)
				case "DecryptPrivateKey", "Decrypt":
					data = rng.Bytes(256)
					if fits {
						if ct, err := stdEncrypt(alg, &ks.rsa[0].PublicKey, []byte("sixteen byte msg"), nil); err == nil {
							data = ct
						}
					}
				case "SignPrivateKey":
					data = digestFor(alg, rng)
				case "VerifyPublicKey":
					data = digestFor(alg, rng)
					sig = rng.Bytes(64)
					if fits {
						if s, err := stdSign(alg, ks, 0, data); err == nil {
							sig = s
						}
					}
				}
				o := callAsym(fn, alg, key, data, sig, label)
				c := map[string]any{"monitor": "dispatch", "fn": fn, "alg": alg, "kind": kind, "data": hx(data), "sig": hx(sig)}
				res.Count("asym "+fn+" "+alg+" "+kind, o.class == "ok")
				res.Hit("asym:fn:" + fn)
				res.Hit("asym:outcome:" + o.class)
				judgeDispatch(res, fn, alg, kind, supported[fam+alg], fits, o, c)
				if lineSafe(alg) {
					// generic Encrypt/Decrypt route symmetric names elsewhere; the matrix only has asymmetric names
					obs = append(obs, asymObs{Line: fmt.Sprintf("asym fn=%s alg=%s kind=%s", fn, alg, kind), Impl: canonAsym(o), Case: c})
				}
			}
		}
	}
	return obs
}

func canonAsym(o aout) string {
	switch o.class {
	case "ok":
		return "ok"
	case "panic", "timeout":
		return o.class
	}
	return "err " + o.class
}

func judgeDispatch(res *lib.Result, fn, alg, kind string, supported, fits bool, o aout, c map[string]any) {
	c["outcome"] = o.class
	c["message"] = o.msg
	if o.class == "panic" || o.class == "timeout" {
		violate(res, "asym-"+o.class, fn+" "+o.class+": "+o.msg, c)
		return
	}
	if o.class != "ok" && (len(o.out) != 0 || o.valid) {
		violate(res, "asym-error-with-output", "an error was returned together with output", c)
	}
	if !supported {
		if o.class != "ErrUnsupportedAlgorithm" {
			// an octet key handed to EncryptPublicKey/VerifyPublicKey is rejected before the switch
			// only if key.PublicKey() fails; both sentinels are errors without output — but the
			// statement demands ErrUnsupportedAlgorithm for an unknown name with a usable key
			if o.class == "ok" {
				violate(res, "asym-unknown-name-accepted", "unknown/unsupported algorithm name produced output", c)
			} else if o.class != "ErrKeyTypeMismatch" {
				violate(res, "asym-unknown-name-not-sentinel", "unknown/unsupported name did not yield ErrUnsupportedAlgorithm", c)
			} else {
				res.Hit("asym:unknown-name-keymismatch-first")
			}
		}
		return
	}
	if !fits {
		if o.class == "ok" {
			violate(res, "asym-wrong-key-accepted", "a key of the wrong kind/curve was accepted", c)
		} else if o.class != "ErrKeyTypeMismatch" {
			violate(res, "asym-wrong-key-not-sentinel", "wrong key kind did not yield ErrKeyTypeMismatch", c)
		}
		return
	}
	if o.class != "ok" {
		violate(res, "asym-valid-input-rejected", "a well-formed call with a matching key failed", c)
	}
}

func encMonitors(res *lib.Result, ks *keyset, rng *lib.Rand, tier string) {
	for _, alg := range kc.SupportedAsymmetricAlgorithms() {
		s, ok := encSpecs[alg]
		if !ok {
			violate(res, "asym-unlisted-name", "SupportedAsymmetricAlgorithms lists a name the harness has no standard for: "+alg, map[string]any{"alg": alg})
			continue
		}
		maxLen := 256 - 11
		if s.oaep {
			maxLen = 256 - 2*s.hlen - 2
		}
		lens := []int{0, 1, 15, 16, 17, 32, 48, 64, maxLen, maxLen + 1, rng.Range(1, maxLen)}
		labels := [][]byte{nil, {}, {7}, rng.Bytes(32)}
		for ki := 0; ki < 2; ki++ {
			priv, pub := mustJWK(ks.rsa[ki]), mustJWK(&ks.rsa[ki].PublicKey)
			for li, n := range lens {
				if n > 190 && alg == "RSA-OAEP-512" && n != maxLen && n != maxLen+1 {
					continue
				}
				label := labels[(li+ki)%len(labels)]
				pt := rng.Bytes(n)
				efn, dfn := "EncryptPublicKey", "DecryptPrivateKey"
				if li%2 == 1 {
					efn, dfn = "Encrypt", "Decrypt"
				}
				c := map[string]any{"monitor": "enc-roundtrip", "fn": efn, "alg": alg, "pt": hx(pt), "label": hx(label), "key_pem": ks.pems[fmt.Sprintf("rsa%d", ki)]}
				eo := callAsym(efn, alg, pub, pt, nil, label)
				res.Count(fmt.Sprintf("asym enc %s %d %x", alg, ki, pt), eo.class == "ok")
				res.Hit("asym:alg:" + alg)
				res.Hit(fmt.Sprintf("asym:ptlen:%d", bucketLen(n)))
				if eo.class == "panic" || eo.class == "timeout" {
					violate(res, "asym-"+eo.class, "encryption "+eo.class+": "+eo.msg, c)
					continue
				}
				if n > maxLen {
					if eo.class == "ok" || len(eo.out) != 0 {
						violate(res, "asym-oversize-accepted", "a message longer than the scheme allows produced output", c)
					}
					continue
				}
				if eo.class != "ok" {
					c["outcome"] = eo.class + " " + eo.msg
					violate(res, "asym-valid-input-rejected", "encryption of a valid message failed", c)
					continue
				}
				c["ct"] = hx(eo.out)
				do := callAsym(dfn, alg, priv, eo.out, nil, label)
				if do.class != "ok" || !bytesEq(do.out, pt) {
					c["outcome"] = do.class + " " + do.msg
					violate(res, "asym-roundtrip", "Decrypt(Encrypt(p)) != p", c)
				}
				// interop with the stdlib both ways
				if p2, err := stdDecrypt(alg, ks.rsa[ki], eo.out, label); err != nil || !bytesEq(p2, pt) {
					violate(res, "asym-interop-enc", "stdlib cannot decrypt what kit encrypted (same hash/label)", c)
				}
				if sct, err := stdEncrypt(alg, &ks.rsa[ki].PublicKey, pt, label); err == nil {
					o := callAsym(dfn, alg, priv, sct, nil, label)
					if o.class != "ok" || !bytesEq(o.out, pt) {
						c["std_ct"] = hx(sct)
						violate(res, "asym-interop-enc", "kit cannot decrypt what the stdlib encrypted (same hash/label)", c)
					}
				}
				// other key must not decrypt to the plaintext
				xo := callAsym(dfn, alg, mustJWK(ks.rsa[1-ki]), eo.out, nil, label)
				if xo.class == "ok" && bytesEq(xo.out, pt) {
					violate(res, "asym-crosskey-accepted", "another private key decrypted the message", c)
				}
				if xo.class != "ok" && len(xo.out) != 0 {
					violate(res, "asym-error-with-output", "an error was returned together with output", c)
				}
				// tampering: only for a few lengths per name
				if !(n == 16 || n == maxLen || (tier == "thorough" && li%3 == 0)) {
					continue
				}
				step := 4
				if tier == "thorough" {
					step = 1
				}
				garbage := 0
				for i := 0; i < len(eo.out); i += step {
					m := cp(eo.out)
					x := byte(rng.Range(1, 255))
					m[i] ^= x
					o := callAsym(dfn, alg, priv, m, nil, label)
					res.Count(fmt.Sprintf("asym tamper ct %s %x", alg, m[:8]), true)
					res.Hit("asym:mutation:ciphertext")
					mc := map[string]any{"monitor": "enc-tamper", "fn": dfn, "alg": alg, "ct": hx(m), "label": hx(label), "orig": hx(pt), "mutation": fmt.Sprintf("ct[%d]^=0x%02x", i, x), "key_pem": c["key_pem"]}
					if o.class == "panic" || o.class == "timeout" {
						violate(res, "asym-"+o.class, "decryption of a tampered ciphertext "+o.class, mc)
					} else if s.oaep && o.class == "ok" {
						violate(res, "asym-tamper-ciphertext-accepted", "a changed OAEP ciphertext was not rejected", mc)
					} else if !s.oaep && o.class == "ok" {
						if bytesEq(o.out, pt) {
							violate(res, "asym-tamper-ciphertext-accepted", "a changed RSA1_5 ciphertext decrypted to the original plaintext", mc)
						}
						garbage++
					} else if len(o.out) != 0 {
						violate(res, "asym-error-with-output", "an error was returned together with output", mc)
					}
				}
				if garbage > 0 {
					res.Distribution["asym:rsa1_5-mutated-ciphertext-decrypts-to-other-plaintext"] += garbage
				}
				if s.oaep {
					for i := range label {
						m := cp(label)
						m[i] ^= byte(rng.Range(1, 255))
						o := callAsym(dfn, alg, priv, eo.out, nil, m)
						res.Hit("asym:mutation:label")
						if o.class == "ok" {
							violate(res, "asym-tamper-label-accepted", "a changed OAEP label was not rejected", map[string]any{"monitor": "enc-tamper", "fn": dfn, "alg": alg, "ct": hx(eo.out), "label": hx(m), "key_pem": c["key_pem"]})
						}
					}
					if len(label) == 0 { // a label appearing where there was none
						o := callAsym(dfn, alg, priv, eo.out, nil, []byte{1})
						if o.class == "ok" {
							violate(res, "asym-tamper-label-accepted", "a label added to a label-less OAEP message was not rejected", map[string]any{"monitor": "enc-tamper", "fn": dfn, "alg": alg, "ct": hx(eo.out), "label": "01", "key_pem": c["key_pem"]})
						}
					}
				}
			}
		}
	}
}

func sigMonitors(res *lib.Result, ks *keyset, rng *lib.Rand, tier string) {
	for _, alg := range kc.SupportedSignatureAlgorithms() {
		s, ok := sigSpecs[alg]
		if !ok {
			violate(res, "asym-unlisted-name", "SupportedSignatureAlgorithms lists a name the harness has no standard for: "+alg, map[string]any{"alg": alg})
			continue
		}
		var digests [][]byte
		if s.fam == "eddsa" {
			for _, n := range []int{0, 1, 32, 100} {
				digests = append(digests, rng.Bytes(n))
			}
		} else {
			digests = [][]byte{rng.Bytes(s.hash.Size()), rng.Bytes(s.hash.Size()), make([]byte, s.hash.Size())}
		}
		for ki := 0; ki < 2; ki++ {
			priv, pub := sigKeyJWK(alg, ks, ki, true), sigKeyJWK(alg, ks, ki, false)
			otherPub := sigKeyJWK(alg, ks, 1-ki, false)
			pemS := sigKeyPEM(alg, ks, ki)
			for di, d := range digests {
				c := map[string]any{"monitor": "sig-roundtrip", "fn": "SignPrivateKey", "alg": alg, "digest": hx(d), "key_pem": pemS}
				so := callAsym("SignPrivateKey", alg, priv, d, nil, nil)
				res.Count(fmt.Sprintf("asym sign %s %d %x", alg, ki, d), so.class == "ok")
				res.Hit("asym:alg:" + alg)
				if so.class != "ok" {
					c["outcome"] = so.class + " " + so.msg
					violate(res, "asym-valid-input-rejected", "signing a digest of the right size failed", c)
					continue
				}
				c["sig"] = hx(so.out)
				vpub := pub
				if di%2 == 1 {
					vpub = priv // VerifyPublicKey converts a private key
				}
				vo := callAsym("VerifyPublicKey", alg, vpub, d, so.out, nil)
				if vo.class != "ok" || !vo.valid {
					violate(res, "asym-sig-roundtrip", "Verify(Sign(d)) is not (true, nil)", c)
				}
				if !stdVerify(alg, ks, ki, d, so.out) {
					violate(res, "asym-interop-sig", "the stdlib rejects kit's signature", c)
				}
				if ss, err := stdSign(alg, ks, ki, d); err == nil {
					o := callAsym("VerifyPublicKey", alg, pub, d, ss, nil)
					if o.class != "ok" || !o.valid {
						c["std_sig"] = hx(ss)
						violate(res, "asym-interop-sig", "kit rejects the stdlib's signature", c)
					}
				}
				// cross key: false, and not an error
				xo := callAsym("VerifyPublicKey", alg, otherPub, d, so.out, nil)
				res.Hit("asym:crosskey")
				if xo.valid {
					violate(res, "asym-crosskey-accepted", "a signature verified under another key", c)
				} else if xo.class != "ok" {
					c["outcome"] = xo.class + " " + xo.msg
					violate(res, "asym-verify-false-is-error", "verification failure of a well-formed signature is reported as an error instead of (false, nil)", c)
				}
				// tampering with signature and digest
				stepS := 1
				if (s.fam == "rsapkcs" || s.fam == "rsapss") && tier != "thorough" {
					stepS = 4
				}
				for i := 0; i < len(so.out); i += stepS {
					m := cp(so.out)
					x := byte(rng.Range(1, 255))
					m[i] ^= x
					o := callAsym("VerifyPublicKey", alg, pub, d, m, nil)
					res.Count(fmt.Sprintf("asym tamper sig %s %x %d", alg, d, i), true)
					res.Hit("asym:mutation:signature")
					mc := map[string]any{"monitor": "sig-tamper", "fn": "VerifyPublicKey", "alg": alg, "digest": hx(d), "sig": hx(m), "mutation": fmt.Sprintf("sig[%d]^=0x%02x", i, x), "key_pem": pemS}
					if o.class == "panic" || o.class == "timeout" {
						violate(res, "asym-"+o.class, "verification of a tampered signature "+o.class, mc)
					} else if o.valid {
						violate(res, "asym-tamper-signature-accepted", "a changed signature verified", mc)
					}
				}
				for i := range d {
					m := cp(d)
					x := byte(rng.Range(1, 255))
					m[i] ^= x
					o := callAsym("VerifyPublicKey", alg, pub, m, so.out, nil)
					res.Hit("asym:mutation:digest")
					if o.valid {
						violate(res, "asym-tamper-digest-accepted", "a signature verified over a changed digest", map[string]any{"monitor": "sig-tamper", "fn": "VerifyPublicKey", "alg": alg, "digest": hx(m), "sig": hx(so.out), "mutation": fmt.Sprintf("digest[%d]^=0x%02x", i, x), "key_pem": pemS})
					} else if o.class != "ok" && o.class != "other" {
						// RSA verifiers may report a length problem as an error; a sentinel here would be wrong
						violate(res, "asym-verify-false-is-error", "verification over a changed digest returned a package sentinel", map[string]any{"monitor": "sig-tamper", "alg": alg, "outcome": o.class})
					}
				}
				// digest of the wrong size for RSA: error and no output
				if s.fam == "rsapkcs" || s.fam == "rsapss" {
					for _, n := range []int{0, 1, s.hash.Size() - 1, s.hash.Size() + 1} {
						o := callAsym("SignPrivateKey", alg, priv, rng.Bytes(n), nil, nil)
						res.Hit("asym:wrong-digest-size")
						if o.class == "ok" || len(o.out) != 0 {
							violate(res, "asym-wrong-digest-size-accepted", "RSA signing accepted a digest of the wrong size", map[string]any{"monitor": "sig-size", "alg": alg, "digest_len": n, "key_pem": pemS})
						}
					}
				}
			}
		}
	}
}

// replayAsym re-executes a stored asymmetric violation case as far as it is self-contained.
func replayAsym(res *lib.Result, c map[string]any) bool {
	if fam, _ := c["family"].(string); fam != "asym" {
		return false
	}
	res.Count("replay-asym", true)
	str := func(k string) string { s, _ := c[k].(string); return s }
	mon := str("monitor")
	ks := getKeys()
	switch mon {
	case "dispatch":
		fn, alg, kind := str("fn"), str("alg"), str("kind")
		key := ks.jwks[kind]
		o := callAsym(fn, alg, key, unhx(str("data")), unhx(str("sig")), nil)
		encNames, sigNames := kc.SupportedAsymmetricAlgorithms(), kc.SupportedSignatureAlgorithms()
		sup := false
		list := sigNames
		if fn != "SignPrivateKey" && fn != "VerifyPublicKey" {
			list = encNames
		}
		for _, n := range list {
			if n == alg {
				sup = true
			}
		}
		judgeDispatch(res, fn, alg, kind, sup, sup && kindFits(fn, alg, kind), o, c)
	case "sig-tamper", "sig-roundtrip", "enc-tamper", "enc-roundtrip":
		blk, _ := pem.Decode([]byte(str("key_pem")))
		if blk == nil {
			res.Note("replay: asym case without key")
			return true
		}
		priv, err := x509.ParsePKCS8PrivateKey(blk.Bytes)
		if err != nil {
			res.Note("replay: " + err.Error())
			return true
		}
		jk := mustJWK(priv)
		alg := str("alg")
		if strings.HasPrefix(mon, "sig") {
			o := callAsym("VerifyPublicKey", alg, jk, unhx(str("digest")), unhx(str("sig")), nil)
			if mon == "sig-tamper" && o.valid {
				violate(res, "asym-tamper-signature-accepted", "a changed signature/digest verified", c)
			}
			if mon == "sig-roundtrip" && !(o.class == "ok" && o.valid) {
				violate(res, "asym-sig-roundtrip", "Verify(Sign(d)) is not (true, nil)", c)
			}
		} else {
			o := callAsym("DecryptPrivateKey", alg, jk, unhx(str("ct")), nil, unhx(str("label")))
			if mon == "enc-tamper" && o.class == "ok" && (encSpecs[alg].oaep || bytesEq(o.out, unhx(str("orig")))) {
				violate(res, "asym-tamper-ciphertext-accepted", "a changed ciphertext/label was not rejected", c)
			}
			if mon == "enc-roundtrip" && !(o.class == "ok" && bytesEq(o.out, unhx(str("pt")))) {
				violate(res, "asym-roundtrip", "Decrypt(Encrypt(p)) != p", c)
			}
		}
	case "key-sequence", "asym-batch":
		// the failure class does not depend on the key material: re-run the sequences with this run's keys
		keySequences(res, ks, lib.NewRand(1))
		asymBatches(res, ks, lib.NewRand(1))
	default:
		res.Note("replay: asym monitor " + mon + " is replayed by re-running the generator")
	}
	return true
}

// asymBatches: several operations whose results are kept and examined only after all of them
// (one goroutine): encrypt K, decrypt K, then compare; sign K, then verify all.
func asymBatches(res *lib.Result, ks *keyset, rng *lib.Rand) {
	const k = 4
	priv, pub := mustJWK(ks.rsa[0]), mustJWK(&ks.rsa[0].PublicKey)
	for _, alg := range kc.SupportedAsymmetricAlgorithms() {
		pts := make([][]byte, k)
		for i := range pts {
			pts[i] = rng.Bytes(8 + 8*i)
		}
		var cts, outs, snaps [][]byte
		o := guarded(func() outcome {
			for i := range pts {
				ct, err := kc.EncryptPublicKey(cp(pts[i]), alg, pub, nil)
				if err != nil {
					return outcome{class: classify(err)}
				}
				cts = append(cts, ct)
			}
			ctSnaps := make([][]byte, len(cts))
			for i := range cts {
				ctSnaps[i] = cp(cts[i])
			}
			for i := range cts {
				p, err := kc.DecryptPrivateKey(cp(cts[i]), alg, priv, nil)
				if err != nil {
					return outcome{class: classify(err)}
				}
				outs, snaps = append(outs, p), append(snaps, cp(p))
			}
			for i := range cts {
				if !bytesEq(cts[i], ctSnaps[i]) {
					return outcome{class: "ct-changed"}
				}
			}
			return outcome{class: "ok"}
		})
		res.Count("asym batch "+alg, true)
		res.Hit("asym:batch:" + alg)
		c := map[string]any{"monitor": "asym-batch", "alg": alg, "key_pem": ks.pems["rsa0"], "outcome": o.class}
		if o.class != "ok" {
			id := "asym-valid-input-rejected"
			if o.class == "ct-changed" {
				id = "asym-result-aliases-later-call"
			}
			violate(res, id, "a batch of RSA operations failed: "+o.class+" "+o.msg, c)
			continue
		}
		for i := range outs {
			if !bytesEq(outs[i], pts[i]) {
				id := "asym-roundtrip"
				if bytesEq(snaps[i], pts[i]) {
					id = "asym-result-aliases-later-call"
				}
				c["index"], c["pt"], c["now"] = i, hx(pts[i]), hx(outs[i])
				violate(res, id, "a plaintext kept from a batch of decryptions is not the message any more", c)
				break
			}
		}
	}
	for _, alg := range kc.SupportedSignatureAlgorithms() {
		priv, pub := sigKeyJWK(alg, ks, 0, true), sigKeyJWK(alg, ks, 0, false)
		ds := make([][]byte, k)
		for i := range ds {
			ds[i] = digestFor(alg, rng)
		}
		var sigs, snaps [][]byte
		bad := -1
		o := guarded(func() outcome {
			for i := range ds {
				s, err := kc.SignPrivateKey(cp(ds[i]), alg, priv)
				if err != nil {
					return outcome{class: classify(err)}
				}
				sigs, snaps = append(sigs, s), append(snaps, cp(s))
			}
			for i := range ds {
				v, err := kc.VerifyPublicKey(cp(ds[i]), sigs[i], alg, pub)
				if err != nil || !v {
					bad = i
					return outcome{class: "verify-failed"}
				}
			}
			return outcome{class: "ok"}
		})
		res.Count("asym sig batch "+alg, true)
		res.Hit("asym:batch:" + alg)
		if o.class != "ok" {
			id := "asym-sig-roundtrip"
			if bad >= 0 && !bytesEq(sigs[bad], snaps[bad]) {
				id = "asym-result-aliases-later-call"
			}
			violate(res, id, "signatures kept from a batch do not all verify afterwards: "+o.class, map[string]any{"monitor": "asym-batch", "alg": alg, "index": bad, "key_pem": sigKeyPEM(alg, ks, 0)})
		}
	}
}
