package main

// RSA interop, independently established: the real code's RSA signatures and ciphertexts are checked
// against the Lean-native RFC 8017 implementation (lean/KitModel/Crypto/Rsa.lean, `Nat` arithmetic,
// own SHA-1/SHA-2/MGF1/EMSA encodings) in both directions:
//
//   verify   kit signs (RS*/PS*)            → Lean verifies; every mutated signature/digest is accepted
//                                              by Lean exactly when kit accepts it
//   sign15   RSASSA-PKCS1-v1_5 is deterministic: Lean's signature must equal kit's byte for byte
//   signpss  Lean signs with a given salt   → kit (and Go's stdlib) verify
//   dec      kit encrypts (RSA1_5/RSA-OAEP*) → Lean decrypts with the private exponent; mutated
//                                              ciphertexts/labels: same outcome as kit
//   enc      Lean encrypts with given randomness → kit decrypts
//
// A mismatch is a violation `rsa-interop-mismatch` whose case carries the key (PKCS#8 PEM) and all
// inputs; replay re-executes exactly that comparison.

import (
	"crypto"
	"crypto/rand"
	"crypto/rsa"
	"crypto/x509"
	"encoding/pem"
	"fmt"
	"math/big"
	"strings"

	"verifharness/lib"
)

const idRSA = "rsa-interop-mismatch"

type rsaCtx struct {
	h   *H
	drv *lib.Drv
}

func hashBitsOf(alg string) int {
	switch {
	case alg == "RSA-OAEP":
		return 1
	case strings.HasSuffix(alg, "256"):
		return 256
	case strings.HasSuffix(alg, "384"):
		return 384
	case strings.HasSuffix(alg, "512"):
		return 512
	}
	return 0
}

func cryptoHashOf(alg string) crypto.Hash {
	switch hashBitsOf(alg) {
	case 1:
		return crypto.SHA1
	case 256:
		return crypto.SHA256
	case 384:
		return crypto.SHA384
	}
	return crypto.SHA512
}

func keyFields(k *rsa.PrivateKey) string {
	return fmt.Sprintf("n=%s e=%s d=%s", hx(k.N.Bytes()), hx(big.NewInt(int64(k.E)).Bytes()), hx(k.D.Bytes()))
}

func (r *rsaCtx) ask(line string) string {
	out, err := r.drv.Ask(line)
	if err != nil {
		return "driver-error " + err.Error()
	}
	return out
}

func field(ans, key string) (string, bool) {
	for _, w := range strings.Fields(ans) {
		if strings.HasPrefix(w, key+"=") {
			return w[len(key)+1:], true
		}
	}
	return "", false
}

func (r *rsaCtx) mismatch(c map[string]any, what, lean, real string) {
	c["family"] = "rsa"
	c["lean"] = lean
	c["real"] = real
	r.h.res.Violate(idRSA, what, c)
}

// check executes one comparison described by c (also used by replay).
func (r *rsaCtx) check(c map[string]any, key *rsa.PrivateKey) {
	str := func(k string) string { s, _ := c[k].(string); return s }
	alg, mon := str("alg"), str("monitor")
	priv, pub := mustJWK(key), mustJWK(&key.PublicKey)
	kf := keyFields(key)
	hb := hashBitsOf(alg)
	res := r.h.res
	res.Hit("rsa:" + mon + ":" + alg)
	switch mon {
	case "verify":
		digest, sig := unhx(str("digest")), unhx(str("sig"))
		o := callAsym("VerifyPublicKey", alg, pub, digest, sig, nil)
		goValid := o.class == "ok" && o.valid
		op := "verify15"
		if strings.HasPrefix(alg, "PS") {
			op = "verifypss"
		}
		ans := r.ask(fmt.Sprintf("rsa op=%s %s hash=%d digest=%s sig=%s", op, kf, hb, hx(digest), hx(sig)))
		v, ok := field(ans, "valid")
		res.Count("rsa verify "+alg+" "+hx(sig), true)
		if !ok || (v == "true") != goValid {
			r.mismatch(c, "an independent RFC 8017 verifier and VerifyPublicKey disagree on a signature", ans, fmt.Sprintf("valid=%v class=%s", goValid, o.class))
		} else {
			r.h.trace()
		}
	case "sign15":
		digest := unhx(str("digest"))
		o := callAsym("SignPrivateKey", alg, priv, digest, nil, nil)
		ans := r.ask(fmt.Sprintf("rsa op=sign15 %s hash=%d digest=%s", kf, hb, hx(digest)))
		s, _ := field(ans, "sig")
		res.Count("rsa sign15 "+alg+" "+hx(digest), true)
		if o.class != "ok" || s != hx(o.out) {
			r.mismatch(c, "RSASSA-PKCS1-v1_5 is deterministic: the signature differs from an independent RFC 8017 implementation", ans, o.class+" sig="+hx(o.out))
		} else {
			r.h.trace()
		}
	case "signpss":
		digest, salt := unhx(str("digest")), unhx(str("salt"))
		ans := r.ask(fmt.Sprintf("rsa op=signpss %s hash=%d digest=%s salt=%s", kf, hb, hx(digest), hx(salt)))
		s, ok := field(ans, "sig")
		res.Count("rsa signpss "+alg+" "+hx(digest)+hx(salt), true)
		if !ok {
			r.mismatch(c, "the independent RFC 8017 implementation could not produce a PSS signature", ans, "")
			return
		}
		o := callAsym("VerifyPublicKey", alg, pub, digest, unhx(s), nil)
		if o.class != "ok" || !o.valid {
			c["sig"] = s
			r.mismatch(c, "VerifyPublicKey rejects an RSASSA-PSS signature made by an independent RFC 8017 implementation", ans, fmt.Sprintf("valid=%v class=%s %s", o.valid, o.class, o.msg))
		} else {
			r.h.trace()
		}
	case "dec":
		ct, label := unhx(str("ct")), unhx(str("label"))
		o := callAsym("DecryptPrivateKey", alg, priv, ct, nil, label)
		line := fmt.Sprintf("rsa op=dec15 %s ct=%s", kf, hx(ct))
		if alg != "RSA1_5" {
			line = fmt.Sprintf("rsa op=decoaep %s hash=%d label=%s ct=%s", kf, hb, hx(label), hx(ct))
		}
		ans := r.ask(line)
		p, lok := field(ans, "pt")
		if strings.HasPrefix(ans, "ok") && !lok {
			p, lok = "", true // empty plaintext
		}
		res.Count("rsa dec "+alg+" "+hx(ct)+hx(label), true)
		same := (o.class == "ok") == (strings.HasPrefix(ans, "ok")) && (o.class != "ok" || (lok && p == hx(o.out)))
		if !same {
			r.mismatch(c, "an independent RFC 8017 decryption and DecryptPrivateKey disagree on a ciphertext", ans, o.class+" pt="+hx(o.out))
		} else {
			r.h.trace()
		}
	case "enc":
		pt, label, rnd := unhx(str("pt")), unhx(str("label")), unhx(str("rand"))
		line := fmt.Sprintf("rsa op=enc15 %s pt=%s ps=%s", kf, hx(pt), hx(rnd))
		if alg != "RSA1_5" {
			line = fmt.Sprintf("rsa op=encoaep %s hash=%d label=%s pt=%s seed=%s", kf, hb, hx(label), hx(pt), hx(rnd))
		}
		ans := r.ask(line)
		ct, ok := field(ans, "ct")
		res.Count("rsa enc "+alg+" "+hx(pt)+hx(rnd), true)
		if !ok {
			r.mismatch(c, "the independent RFC 8017 implementation could not encrypt", ans, "")
			return
		}
		o := callAsym("DecryptPrivateKey", alg, priv, unhx(ct), nil, label)
		if o.class != "ok" || !bytesEq(o.out, pt) {
			c["ct"] = ct
			r.mismatch(c, "DecryptPrivateKey does not recover a message encrypted by an independent RFC 8017 implementation", ans, o.class+" pt="+hx(o.out)+" "+o.msg)
		} else {
			r.h.trace()
		}
	default:
		res.Note("rsa: unknown monitor " + mon)
	}
}

func nonZero(rng *lib.Rand, n int) []byte {
	b := rng.Bytes(n)
	for i := range b {
		for b[i] == 0 {
			b[i] = byte(rng.U64())
		}
	}
	return b
}

// sigMutations: value changes AND length changes of a signature.
func sigMutations(rng *lib.Rand, sig []byte, step int) map[string][]byte {
	m := map[string][]byte{}
	for i := 0; i < len(sig); i += step {
		b := cp(sig)
		b[i] ^= byte(rng.Range(1, 255))
		m[fmt.Sprintf("sig[%d]", i)] = b
	}
	if len(sig) > 0 {
		b := cp(sig)
		b[len(sig)-1] ^= 1
		m["sig[last]^1"] = b
		m["truncate-1"] = cp(sig[:len(sig)-1])
		m["truncate-front-1"] = cp(sig[1:])
	}
	for _, n := range []int{1, 2, 8} {
		m[fmt.Sprintf("append-%d", n)] = append(cp(sig), rng.Bytes(n)...)
		m[fmt.Sprintf("append-zeros-%d", n)] = append(cp(sig), make([]byte, n)...)
	}
	m["prepend-00"] = append([]byte{0}, sig...)
	m["empty"] = []byte{}
	return m
}

func (h *H) rsaInterop(rng *lib.Rand) {
	if h.f.Drv == "" {
		h.res.Note("rsa interop: model driver unavailable, skipped")
		return
	}
	d, err := lib.StartDrv(h.f.Drv, "C03")
	if err != nil || d == nil {
		h.res.Note("rsa interop: cannot start driver: " + fmt.Sprint(err))
		return
	}
	defer d.Close()
	r := &rsaCtx{h: h, drv: d}
	ks := getKeys()
	keys := []*rsa.PrivateKey{ks.rsa[0], ks.rsa[1]}
	if h.f.Tier == "thorough" {
		for _, bits := range []int{3072, 4096, 2047, 1025} { // incl. moduli whose bit length is ≡ 7 and ≡ 1 mod 8 (PSS emLen corner)
			if k, err := rsa.GenerateKey(rand.Reader, bits); err == nil {
				keys = append(keys, k)
			}
		}
	}
	for ki, key := range keys {
		// the dense mutation sweeps only on the two 2048-bit keys: a private-key operation in the
		// Lean implementation costs ≈12 ms at 2048 bits and ≈100 ms at 4096 bits
		thorough := h.f.Tier == "thorough" && ki < 2
		pemS := pemOf(key)
		k := (key.N.BitLen() + 7) / 8
		base := func(mon, alg string) map[string]any {
			return map[string]any{"monitor": mon, "alg": alg, "key_pem": pemS, "bits": key.N.BitLen()}
		}
		for _, alg := range []string{"RS256", "RS384", "RS512", "PS256", "PS384", "PS512"} {
			hsh := cryptoHashOf(alg)
			if strings.HasPrefix(alg, "PS") && k < 2*hsh.Size()+2 {
				continue
			}
			if k < hsh.Size()+19+11 {
				continue
			}
			digests := [][]byte{rng.Bytes(hsh.Size())}
			if thorough || ki == 0 {
				digests = append(digests, make([]byte, hsh.Size()))
			}
			for _, dg := range digests {
				so := callAsym("SignPrivateKey", alg, mustJWK(key), dg, nil, nil)
				if so.class != "ok" {
					continue
				}
				c := base("verify", alg)
				c["digest"], c["sig"], c["mutation"] = hx(dg), hx(so.out), "none (genuine)"
				r.check(c, key)
				step := 16
				if thorough {
					step = 4
				}
				for name, ms := range sigMutations(rng, so.out, step) {
					c := base("verify", alg)
					c["digest"], c["sig"], c["mutation"] = hx(dg), hx(ms), name
					h.res.Hit("rsa:mutation:signature")
					r.check(c, key)
				}
				for i := 0; i < len(dg); i += 7 {
					md := cp(dg)
					md[i] ^= byte(rng.Range(1, 255))
					c := base("verify", alg)
					c["digest"], c["sig"], c["mutation"] = hx(md), hx(so.out), fmt.Sprintf("digest[%d]", i)
					h.res.Hit("rsa:mutation:digest")
					r.check(c, key)
				}
				if strings.HasPrefix(alg, "RS") {
					c := base("sign15", alg)
					c["digest"] = hx(dg)
					r.check(c, key)
				} else {
					// stdlib signatures with the other common salt length, and Lean signatures with several
					if s2, err := rsa.SignPSS(rand.Reader, key, hsh, dg, &rsa.PSSOptions{SaltLength: rsa.PSSSaltLengthEqualsHash}); err == nil {
						c := base("verify", alg)
						c["digest"], c["sig"], c["mutation"] = hx(dg), hx(s2), "none (stdlib, salt length = hash length)"
						r.check(c, key)
					}
					emLen := (key.N.BitLen() - 1 + 7) / 8
					for _, sl := range []int{0, 1, hsh.Size(), emLen - hsh.Size() - 2} {
						if sl < 0 || sl > emLen-hsh.Size()-2 {
							continue
						}
						c := base("signpss", alg)
						c["digest"], c["salt"] = hx(dg), hx(rng.Bytes(sl))
						r.check(c, key)
					}
				}
			}
		}
		for _, alg := range []string{"RSA1_5", "RSA-OAEP", "RSA-OAEP-256", "RSA-OAEP-384", "RSA-OAEP-512"} {
			hl := 0
			maxLen := k - 11
			if alg != "RSA1_5" {
				hl = cryptoHashOf(alg).Size()
				maxLen = k - 2*hl - 2
			}
			if maxLen < 0 {
				continue
			}
			lens := []int{0, 1, 16, maxLen}
			if thorough {
				lens = append(lens, 32, maxLen/2, maxLen-1)
			}
			for li, n := range lens {
				if n < 0 || n > maxLen {
					continue
				}
				pt := rng.Bytes(n)
				var label []byte
				if alg != "RSA1_5" && li%2 == 1 {
					label = rng.Bytes(9)
				}
				eo := callAsym("EncryptPublicKey", alg, mustJWK(&key.PublicKey), pt, nil, label)
				if eo.class != "ok" {
					continue
				}
				c := base("dec", alg)
				c["ct"], c["label"], c["pt"], c["mutation"] = hx(eo.out), hx(label), hx(pt), "none (genuine)"
				r.check(c, key)
				step := 32
				if thorough {
					step = 8
				}
				for i := 0; i < len(eo.out); i += step {
					m := cp(eo.out)
					m[i] ^= byte(rng.Range(1, 255))
					c := base("dec", alg)
					c["ct"], c["label"], c["mutation"] = hx(m), hx(label), fmt.Sprintf("ct[%d]", i)
					h.res.Hit("rsa:mutation:ciphertext")
					r.check(c, key)
				}
				if alg != "RSA1_5" {
					c := base("dec", alg)
					c["ct"], c["label"], c["mutation"] = hx(eo.out), hx(append(cp(label), 1)), "label+1 byte"
					r.check(c, key)
				}
				// the other direction
				c = base("enc", alg)
				c["pt"], c["label"] = hx(pt), hx(label)
				if alg == "RSA1_5" {
					c["rand"] = hx(nonZero(rng, k-n-3))
				} else {
					c["rand"] = hx(rng.Bytes(hl))
				}
				r.check(c, key)
			}
		}
	}
}

// replayRSA re-executes one stored rsa case.
func (h *H) replayRSA(c map[string]any) {
	h.res.Count("replay-rsa", true)
	if h.f.Drv == "" {
		h.res.Note("replay: rsa interop needs the model driver")
		return
	}
	s, _ := c["key_pem"].(string)
	blk, _ := pem.Decode([]byte(s))
	if blk == nil {
		h.res.Note("replay: rsa case without key")
		return
	}
	k, err := x509.ParsePKCS8PrivateKey(blk.Bytes)
	key, ok := k.(*rsa.PrivateKey)
	if err != nil || !ok {
		h.res.Note("replay: rsa case: bad key")
		return
	}
	d, err := lib.StartDrv(h.f.Drv, "C03")
	if err != nil || d == nil {
		h.res.Note("replay: cannot start driver")
		return
	}
	defer d.Close()
	delete(c, "lean")
	delete(c, "real")
	(&rsaCtx{h: h, drv: d}).check(c, key)
}
