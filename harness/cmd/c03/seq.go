package main

// Multi-call monitors: "decryption inverts encryption" must also hold for results that are looked
// at LATER. A helper that returns a slice of a pooled / shared buffer passes every check made
// right after the call and is overwritten by the next call.
//
//   ledger     every slice returned by the real code (any entry point, any family) is retained
//              together with a snapshot; after each of the following calls all retained slices
//              must be bit-for-bit unchanged                      (result stability)
//   batches    per algorithm: encrypt K messages keeping the returned slices, compare the
//              ciphertexts with the Lean model only after all K calls; decrypt all K keeping the
//              results, THEN compare every result with its plaintext — all in one goroutine, so a
//              sync.Pool hands the same buffer back deterministically
//   concurrent several goroutines decrypt different messages, results compared at the end
//
// A violation carries the concrete call sequence (family "seq") and is shrunk to two calls where
// possible; replay re-executes exactly that sequence.

import (
	"fmt"
	"sync"

	kc "github.com/dapr/kit/crypto"
	"github.com/lestrrat-go/jwx/v2/jwk"

	"verifharness/lib"
)

const idAlias = "sym-result-aliases-later-call"

type retained struct {
	live []byte
	snap []byte
	c    Case
	what string
}

type ledgerT struct {
	mu     sync.Mutex
	items  []retained
	res    *lib.Result
	window int
	off    bool
	checks int
}

var ledger = &ledgerT{window: 12}

func symCaseOf(fn, alg string, key jwk.Key, nonce, data, tag, ad []byte) Case {
	c := Case{Family: "sym", Fn: fn, Alg: alg, Kind: "foreign", Nonce: hx(nonce), Data: hx(data), Tag: hx(tag), AD: hx(ad)}
	var raw []byte
	if key != nil && key.Raw(&raw) == nil {
		c.Kind, c.Key = "oct", hx(raw)
	}
	return c
}

// after is called when a call into the real code has returned: first every slice retained from
// EARLIER calls is checked, then this call's outputs are retained.
func (l *ledgerT) after(c Case, outs map[string][]byte) {
	if l == nil || l.res == nil || l.off {
		return
	}
	l.mu.Lock()
	defer l.mu.Unlock()
	keep := l.items[:0]
	for _, it := range l.items {
		l.checks++
		if !bytesEq(it.live, it.snap) {
			v := Case{Family: "seq", Monitor: "stability", Seq: []Case{it.c, c},
				Mut: fmt.Sprintf("%s returned by step 0 was %s when it was returned and is %s after step 1", it.what, hx(it.snap), hx(it.live))}
			l.res.Violate(idAlias, "a slice returned by an earlier call was modified by a later call (the result aliases a shared/pooled buffer)", v)
			continue
		}
		keep = append(keep, it)
	}
	l.items = keep
	for what, b := range outs {
		if len(b) == 0 {
			continue
		}
		l.items = append(l.items, retained{live: b, snap: cp(b), c: c, what: what})
	}
	if n := len(l.items); n > l.window {
		l.items = append(l.items[:0], l.items[n-l.window:]...)
	}
}

// ---------------------------------------------------------------- executing a sequence

type stepRes struct {
	outs  map[string][]byte // live slices as returned
	snaps map[string][]byte // copies taken when the call returned
	class string
}

// execStep runs one sym/kw step directly (no goroutine of its own).
func execStep(c Case, keys map[string]jwk.Key) stepRes {
	r := stepRes{outs: map[string][]byte{}, snaps: map[string][]byte{}}
	var jk jwk.Key
	if c.Kind == "oct" {
		jk, _ = jwk.FromRaw(unhx(c.Key))
	} else {
		jk = keys[c.Kind]
	}
	if jk == nil {
		r.class = "harness-no-key"
		return r
	}
	nonce, data, tag, ad := unhx(c.Nonce), unhx(c.Data), unhx(c.Tag), unhx(c.AD)
	var err error
	switch c.Fn {
	case "Encrypt":
		r.outs["ciphertext"], r.outs["tag"], err = kc.Encrypt(data, c.Alg, jk, nonce, ad)
	case "EncryptSymmetric":
		r.outs["ciphertext"], r.outs["tag"], err = kc.EncryptSymmetric(data, c.Alg, jk, nonce, ad)
	case "Decrypt":
		r.outs["plaintext"], err = kc.Decrypt(data, c.Alg, jk, nonce, tag, ad)
	case "DecryptSymmetric":
		r.outs["plaintext"], err = kc.DecryptSymmetric(data, c.Alg, jk, nonce, tag, ad)
	default:
		r.class = "harness-bad-fn"
		return r
	}
	r.class = classify(err)
	for k, v := range r.outs {
		r.snaps[k] = cp(v)
	}
	return r
}

// runSeq executes the steps in ONE goroutine and reports the first retained result that changed:
// (index of the step whose result changed, which output, ok).
func runSeq(steps []Case, keys map[string]jwk.Key) (res []stepRes, changed int, what string, o outcome) {
	changed = -1
	o = guarded(func() outcome {
		res = make([]stepRes, len(steps))
		for i, s := range steps {
			res[i] = execStep(s, keys)
		}
		for i := range res {
			for k, live := range res[i].outs {
				if !bytesEq(live, res[i].snaps[k]) && changed < 0 {
					changed, what = i, k
				}
			}
		}
		return outcome{class: "ok"}
	})
	return
}

// shrinkSeq looks for a two-step sub-sequence that still shows the aliasing.
func shrinkSeq(steps []Case, keys map[string]jwk.Key) []Case {
	for i := 0; i < len(steps); i++ {
		for j := i + 1; j < len(steps); j++ {
			pair := []Case{steps[i], steps[j]}
			for rep := 0; rep < 3; rep++ {
				if _, ch, _, _ := runSeq(pair, keys); ch == 0 {
					return pair
				}
			}
		}
	}
	return steps
}

// judgeSeq runs a sequence and files the violation. `expect[i]` (may be nil) is what step i's
// plaintext must be.
func (h *H) judgeSeq(monitor string, steps []Case, reps int) bool {
	for rep := 0; rep < reps; rep++ {
		res, ch, what, o := runSeq(steps, h.keys)
		if o.class == "panic" || o.class == "timeout" {
			h.res.Violate("sym-"+o.class, "a sequence of calls "+o.class+": "+o.msg, Case{Family: "seq", Monitor: monitor, Seq: steps})
			return true
		}
		if ch >= 0 {
			small := steps
			if len(steps) > 2 {
				small = shrinkSeq(steps, h.keys)
			}
			mut := fmt.Sprintf("%s of step %d was %s when returned and is %s after the later calls", what, ch, hx(res[ch].snaps[what]), hx(res[ch].outs[what]))
			if len(small) == 2 && len(steps) > 2 {
				mut = "shrunk to two calls: the result of step 0 is overwritten by step 1; originally " + mut
			}
			h.res.Violate(idAlias, "a result examined after later calls no longer is what was returned (it aliases a shared/pooled buffer): decryption does not invert encryption for results that are kept", Case{Family: "seq", Monitor: monitor, Seq: small, Mut: mut})
			return true
		}
		// results stable: they must also be right
		for i, s := range steps {
			if s.Orig == "" && s.Expect == "" {
				continue
			}
			if p, ok := res[i].outs["plaintext"]; ok || s.Orig != "" {
				if s.Orig != "" && (res[i].class != "ok" || !bytesEq(p, unhx(s.Orig))) {
					c := s
					c.Monitor, c.Got = "roundtrip", res[i].class+" pt="+hx(p)
					h.res.Violate("sym-roundtrip", "Decrypt(Encrypt(p)) != p (inside a batch)", c)
					return true
				}
			}
		}
	}
	return false
}

// ---------------------------------------------------------------- batches

func (h *H) batches() {
	k := 6
	if h.f.Tier == "thorough" {
		k = 16
	}
	for ai, alg := range symNames() {
		s, ok := specs[alg]
		if !ok {
			continue
		}
		efn, dfn := "EncryptSymmetric", "DecryptSymmetric"
		if ai%2 == 1 {
			efn, dfn = "Encrypt", "Decrypt"
		}
		key := h.rng.Bytes(s.keyLen)
		// K different messages, lengths decreasing and increasing so that a later call's
		// buffer covers an earlier result whichever is longer
		encSteps := make([]Case, k)
		pts := make([][]byte, k)
		for i := 0; i < k; i++ {
			n := 16 * (1 + (i*5)%4)
			switch s.family {
			case "kw":
				n = 16 + 8*((i*3)%5)
			case "cbcnopad":
			default:
				n += h.rng.Intn(16)
			}
			pts[i] = h.rng.Bytes(n)
			nonce := h.rng.Bytes(s.nonceLen)
			ad := h.rng.Bytes(h.rng.Intn(9))
			if s.family == "kw" {
				ad = nil
			}
			encSteps[i] = Case{Family: "sym", Monitor: "batch", Fn: efn, Alg: alg, Kind: "oct", Key: hx(key), Nonce: hx(nonce), Data: hx(pts[i]), AD: hx(ad)}
		}
		// phase 1: K encryptions in one goroutine, outputs retained; judged only afterwards
		encRes, ch, what, o := runSeq(encSteps, h.keys)
		h.res.Hit("batch:enc:" + alg)
		if o.class != "ok" {
			h.res.Violate("sym-"+o.class, "a batch of encryptions "+o.class+": "+o.msg, Case{Family: "seq", Monitor: "batch", Seq: encSteps})
			continue
		}
		if ch >= 0 {
			h.res.Violate(idAlias, "a ciphertext/tag returned by Encrypt was modified by a later Encrypt call", Case{Family: "seq", Monitor: "batch", Seq: shrinkSeq(encSteps, h.keys),
				Mut: fmt.Sprintf("%s of step %d changed after later calls", what, ch)})
			continue
		}
		decSteps := make([]Case, 0, k)
		for i, r := range encRes {
			c := encSteps[i]
			line := symLine(efn, alg, "oct", key, unhx(c.Nonce), pts[i], nil, unhx(c.AD))
			h.res.Count("batch "+line, r.class == "ok")
			// compared with the Lean-native output only now, after all K calls, from the retained slices
			h.queue("batch: retained encrypt outputs = model, compared after all calls", line, canonEnc(outcome{class: r.class, a: r.outs["ciphertext"], b: r.outs["tag"]}), c)
			if r.class != "ok" {
				c.Got = r.class
				h.res.Violate("sym-valid-input-rejected", "encryption of a valid input failed (inside a batch)", c)
				continue
			}
			decSteps = append(decSteps, Case{Family: "sym", Monitor: "batch", Fn: dfn, Alg: alg, Kind: "oct", Key: hx(key), Nonce: c.Nonce,
				Data: hx(r.snaps["ciphertext"]), Tag: hx(r.snaps["tag"]), AD: c.AD, Orig: hx(pts[i])})
		}
		// phase 2: decrypt all, keep the results, THEN compare each with its plaintext
		h.res.Hit("batch:dec:" + alg)
		for range decSteps {
			h.res.Count(fmt.Sprintf("batch dec %s %d", alg, h.res.Evaluations), true)
		}
		if h.judgeSeq("batch", decSteps, 1) {
			continue
		}
		// phase 4 (below) needs a second key
		h.twoKeys(alg, s, efn, dfn)
		// phase 3: mixed — a FAILING decryption (bad tag) after a good one must not touch the good result
		if len(decSteps) >= 2 && s.auth {
			bad := decSteps[1]
			b := unhx(bad.Data)
			b[0] ^= 0x80
			bad.Data, bad.Orig = hx(b), ""
			h.judgeSeq("batch-then-failing-call", []Case{decSteps[0], bad, decSteps[len(decSteps)-1]}, 1)
			h.res.Hit("batch:mixed:" + alg)
		}
	}
}

// twoKeys: two different keys of the same size used alternately with the same algorithm — each
// ciphertext must open under its own key only (a cipher object cached per algorithm, or any other
// state keyed too coarsely, would encrypt under the first key it saw).
func (h *H) twoKeys(alg string, s algSpec, efn, dfn string) {
	ka, kb := h.rng.Bytes(s.keyLen), h.rng.Bytes(s.keyLen)
	ja, _ := h.octKey(ka)
	jb, _ := h.octKey(kb)
	n := 32
	nonce := h.rng.Bytes(s.nonceLen)
	ad := h.rng.Bytes(4)
	if s.family == "kw" {
		ad = nil
	}
	m1, m2 := h.rng.Bytes(n), h.rng.Bytes(n)
	e1 := callEnc(efn, alg, ja, nonce, m1, ad)
	e2 := callEnc(efn, alg, jb, nonce, m2, ad)
	h.res.Hit("batch:two-keys:" + alg)
	if e1.class != "ok" || e2.class != "ok" {
		return
	}
	mk := func(key, ct, tag, orig []byte, mon string) Case {
		return Case{Family: "sym", Monitor: mon, Fn: dfn, Alg: alg, Kind: "oct", Key: hx(key), Nonce: hx(nonce), Data: hx(ct), Tag: hx(tag), AD: hx(ad), Orig: hx(orig)}
	}
	// each under its own key; compared with the model as genuine round trips
	for _, t := range []struct {
		key []byte
		e   outcome
		m   []byte
		jk  int
	}{{ka, e1, m1, 0}, {kb, e2, m2, 1}} {
		jk := ja
		if t.jk == 1 {
			jk = jb
		}
		do := callDec(dfn, alg, jk, nonce, t.e.a, t.e.b, ad)
		c := mk(t.key, t.e.a, t.e.b, t.m, "roundtrip")
		h.res.Count("twokeys "+alg+hx(t.key), true)
		if do.class != "ok" || !bytesEq(do.a, t.m) {
			c.Got = canonDec(do)
			h.res.Violate("sym-roundtrip", "Decrypt(Encrypt(p)) != p when two keys are used alternately with the same algorithm", c)
		}
		ec := Case{Family: "sym", Monitor: "roundtrip", Fn: efn, Alg: alg, Kind: "oct", Key: hx(t.key), Nonce: hx(nonce), Data: hx(t.m), AD: hx(ad)}
		h.queue("two keys: encrypt output = model", symLine(efn, alg, "oct", t.key, nonce, t.m, nil, ad), canonEnc(t.e), ec)
		h.queue("two keys: decrypt output = model", symLine(dfn, alg, "oct", t.key, nonce, t.e.a, t.e.b, ad), canonDec(do), c)
	}
	// the other key must not open it
	x1 := callDec(dfn, alg, jb, nonce, e1.a, e1.b, ad)
	x2 := callDec(dfn, alg, ja, nonce, e2.a, e2.b, ad)
	for i, x := range []outcome{x1, x2} {
		key, ct, tag, m := kb, e1.a, e1.b, m1
		if i == 1 {
			key, ct, tag, m = ka, e2.a, e2.b, m2
		}
		c := mk(key, ct, tag, m, "crosskey")
		c.Mut = "decrypted with the OTHER key"
		h.res.Count("twokeys x "+alg+hx(key), true)
		if x.class == "ok" && (s.auth || bytesEq(x.a, m)) {
			c.Got = canonDec(x)
			h.res.Violate("sym-crosskey-accepted", "a ciphertext opened under a different key", c)
		}
		h.queue("two keys: other key outcome = model", symLine(dfn, alg, "oct", key, nonce, ct, tag, ad), canonDec(x), c)
	}
}

// ---------------------------------------------------------------- concurrent variant

func (h *H) concurrent() {
	g, m := 4, 12
	if h.f.Tier == "thorough" {
		g, m = 8, 40
	}
	type job struct {
		c    Case
		pt   []byte
		live []byte
		snap []byte
		cls  string
	}
	for _, alg := range symNames() {
		s, ok := specs[alg]
		if !ok {
			continue
		}
		key := h.rng.Bytes(s.keyLen)
		jk, _ := h.octKey(key)
		jobs := make([][]job, g)
		for gi := range jobs {
			for i := 0; i < m; i++ {
				n := 16 * (1 + (i+gi)%4)
				if s.family == "kw" {
					n = 16 + 8*((i+gi)%5)
				}
				pt := h.rng.Bytes(n)
				nonce := h.rng.Bytes(s.nonceLen)
				ad := h.rng.Bytes(3)
				eo := callEnc("EncryptSymmetric", alg, jk, nonce, pt, ad)
				if eo.class != "ok" {
					continue
				}
				jobs[gi] = append(jobs[gi], job{pt: pt, c: Case{Family: "sym", Monitor: "concurrent", Fn: "DecryptSymmetric", Alg: alg, Kind: "oct",
					Key: hx(key), Nonce: hx(nonce), Data: hx(cp(eo.a)), Tag: hx(cp(eo.b)), AD: hx(ad), Orig: hx(pt)}})
			}
		}
		o := guarded(func() outcome {
			var wg sync.WaitGroup
			for gi := range jobs {
				wg.Add(1)
				go func(js []job) {
					defer wg.Done()
					defer func() { _ = recover() }()
					for i := range js {
						c := js[i].c
						k2, _ := jwk.FromRaw(unhx(c.Key))
						p, err := kc.DecryptSymmetric(unhx(c.Data), c.Alg, k2, unhx(c.Nonce), unhx(c.Tag), unhx(c.AD))
						js[i].live, js[i].snap, js[i].cls = p, cp(p), classify(err)
					}
				}(jobs[gi])
			}
			wg.Wait()
			return outcome{class: "ok"}
		})
		h.res.Hit("concurrent:" + alg)
		if o.class != "ok" {
			h.res.Violate("sym-"+o.class, "concurrent decryptions "+o.class, Case{Family: "sym", Monitor: "concurrent", Alg: alg})
			continue
		}
		for gi := range jobs {
			for i, j := range jobs[gi] {
				h.res.Count(fmt.Sprintf("concurrent %s %d %d", alg, gi, i), true)
				if j.cls != "ok" || !bytesEq(j.live, j.pt) {
					seq := []Case{j.c}
					if i+1 < len(jobs[gi]) {
						seq = append(seq, jobs[gi][i+1].c)
					}
					id, whatv := idAlias, "a plaintext decrypted concurrently with other messages is not the message any more when all goroutines have finished"
					if j.cls != "ok" || !bytesEq(j.snap, j.pt) {
						id, whatv = "sym-roundtrip", "Decrypt(Encrypt(p)) != p under concurrent use"
					}
					h.res.Violate(id, whatv, Case{Family: "seq", Monitor: "concurrent", Seq: seq, Mut: fmt.Sprintf("goroutine %d message %d: returned %s, now %s, want %s", gi, i, hx(j.snap), hx(j.live), hx(j.pt))})
					break
				}
			}
		}
	}
}

// replaySeq re-executes a stored call sequence (family "seq").
func (h *H) replaySeq(c Case) {
	h.res.Count("replay-seq", true)
	if len(c.Seq) == 0 {
		h.res.Note("replay: empty sequence")
		return
	}
	// sync.Pool hands a buffer back per P: repeat a few times so that scheduling cannot hide it
	for rep := 0; rep < 25; rep++ {
		if h.judgeSeq(c.Monitor, c.Seq, 1) {
			return
		}
	}
}
