package main

// kwcounter.go — the RFC 3394 step counter at every reachable byte boundary.
//
// RFC 3394 §2.2.1 XORs the step counter t = n·j+i (j = 0..5, i = 1..n, n = number of 64-bit blocks
// of key data) into A as a 64-bit big-endian integer. t reaches 6·n, so byte k of the counter
// (k = 1, 2, 3: values 2^8, 2^16, 2^24) is first non-zero for n = ceil(2^(8k)/6) = 43, 10923,
// 2796203 blocks (344 B, 87 384 B, ≈ 22.4 MB of key data); 2^32 would need 34 GB and is out of
// reach of an execution (the Lean theorems wrap_counter_full_width / wrap_code_eq_model cover all
// lengths). An implementation that encodes t in fewer bytes — in BOTH directions, so that it still
// agrees with itself, round-trips and rejects every changed wrapped key — is unchanged below the
// boundary and not interoperable from it on.
//
// The family: for every boundary 2^(8k) and every round m = 1..6 in which the counter can cross it
// first (n0 = ceil(2^(8k)/m): t = n·(m-1)+i reaches 2^(8k) in round j = m-1), sizes n0-1, n0, n0+1,
// KEKs of 16/24/32 bytes, through aeskw.Wrap/Unwrap directly and through
// EncryptSymmetric/DecryptSymmetric and Encrypt/Decrypt with the A*KW names. Judged — without the
// Lean model — against rfc3394Wrap/rfc3394Unwrap (main.go; written from the RFC text, no dapr/kit
// code) in both directions:
//   wrap:    kit's output = the reference's output, and the reference unwraps it;
//   unwrap:  kit unwraps what the REFERENCE wrapped and returns the key data;
//   tamper:  a reference-wrapped key with one changed byte is rejected by kit;
//   inputs are not modified.
// Cases are stored compactly (family "kwgen": KEK, generator seed, size) so that a 22 MB input
// replays from a few bytes; Expect/Got carry SHA-256 digests and the first differing offset.

import (
	"crypto/aes"
	"crypto/sha256"
	"fmt"
	"os"
	"strconv"
	"strings"
	"time"

	kc "github.com/dapr/kit/crypto"
	"github.com/dapr/kit/crypto/aeskw"

	"verifharness/lib"
)

const idKwInterop = "aeskw-interop-mismatch"

// kwcDeadline: budget of ONE call into the real code in this family. Exceeding it is "no verdict"
// (a note), never a violation: the property does not bound the running time and the loops have
// fixed bounds.
const kwcDeadline = 240 * time.Second

type kwcPlan struct {
	n    int    // 64-bit blocks of key data
	kl   int    // KEK bytes
	fn   string // aeskw | EncryptSymmetric | Encrypt
	why  string
	seed uint64
	muts int // changed wrapped keys presented to Unwrap
}

// os24Skip: C03_SKIP=kw24 leaves the 2^24 boundary out (self-tests of the other monitors only).
func os24Skip() bool { return strings.Contains(os.Getenv("C03_SKIP"), "kw24") }

func kwAlgOf(kl int) string { return fmt.Sprintf("A%dKW", kl*8) }

func kwcGen(seed uint64, size int) []byte { return lib.NewRand(seed).Bytes(size) }

// kwcCross describes where t = n·j+i first reaches 2^(8k) for n blocks ("" = never).
func kwcCross(n, k int) string {
	lim := 1 << (8 * uint(k))
	if 6*n < lim {
		return fmt.Sprintf("n=%d: 6n=%d < 2^%d (counter stays below the boundary)", n, 6*n, 8*k)
	}
	j, i := 0, 1
	for j = 0; j <= 5; j++ {
		if n*j+n >= lim { // the round in which t first reaches lim
			i = lim - n*j
			if i < 1 {
				i = 1
			}
			break
		}
	}
	return fmt.Sprintf("n=%d: t=n*j+i first reaches 2^%d at j=%d,i=%d (6n=%d)", n, 8*k, j, i, 6*n)
}

func ceilDiv(a, b int) int { return (a + b - 1) / b }

// kwcPlans: the sizes of one boundary k, ascending (so that the first reported case is the smallest).
func (h *H) kwcPlans(k int, rng *lib.Rand) []kwcPlan {
	lim := 1 << (8 * uint(k))
	thorough := h.f.Tier == "thorough"
	kls := []int{16, 24, 32}
	fns := []string{"aeskw", "EncryptSymmetric", "Encrypt"}
	var ps []kwcPlan
	seen := map[int]bool{}
	rot := int(h.f.Seed % 9)
	for m := 6; m >= 1; m-- {
		n0 := ceilDiv(lim, m)
		for _, d := range []int{-1, 0, 1} {
			n := n0 + d
			if n < 2 || seen[n] {
				continue
			}
			seen[n] = true
			why := kwcCross(n, k)
			all := k == 1 || m == 6
			switch {
			case k == 3:
				// ≈ 17 M AES block operations per direction
				if m != 6 || (!thorough && d != 0) {
					continue
				}
				fn := "aeskw"
				if thorough && d == 1 {
					fn = "EncryptSymmetric"
				}
				ps = append(ps, kwcPlan{n: n, kl: kls[(rot+d+1)%3], fn: fn, why: why, seed: rng.U64(), muts: 0})
			case all:
				for _, kl := range kls {
					for _, fn := range fns {
						ps = append(ps, kwcPlan{n: n, kl: kl, fn: fn, why: why, seed: rng.U64(), muts: 2})
					}
				}
			default:
				if !thorough && k == 2 && m != 6 && d == 1 {
					continue
				}
				reps := 1
				if thorough {
					reps = 3
				}
				for r := 0; r < reps; r++ {
					rot++
					ps = append(ps, kwcPlan{n: n, kl: kls[rot%3], fn: fns[(rot/3)%3], why: why, seed: rng.U64(), muts: 1})
				}
			}
		}
	}
	// ascending by n (stable)
	for i := 1; i < len(ps); i++ {
		for j := i; j > 0 && ps[j-1].n > ps[j].n; j-- {
			ps[j-1], ps[j] = ps[j], ps[j-1]
		}
	}
	return ps
}

func guardedFor(d time.Duration, f func() outcome) outcome {
	ch := make(chan outcome, 1)
	go func() {
		defer func() {
			if p := recover(); p != nil {
				ch <- outcome{class: "panic", msg: fmt.Sprint(p)}
			}
		}()
		ch <- f()
	}()
	select {
	case o := <-ch:
		return o
	case <-time.After(d):
		return outcome{class: "timeout"}
	}
}

func digest(b []byte) string {
	s := sha256.Sum256(b)
	return fmt.Sprintf("len=%d sha256=%x", len(b), s[:])
}

func firstDiff(a, b []byte) string {
	n := len(a)
	if len(b) < n {
		n = len(b)
	}
	for i := 0; i < n; i++ {
		if a[i] != b[i] {
			return fmt.Sprintf("first difference at byte %d (64-bit block %d)", i, i/8)
		}
	}
	if len(a) != len(b) {
		return fmt.Sprintf("lengths differ: %d vs %d", len(a), len(b))
	}
	return "equal"
}

// kwcWrapCall / kwcUnwrapCall: the real code through the chosen entry point, on copies of the inputs.
func (h *H) kwcWrapCall(fn string, key, data []byte) outcome {
	return guardedFor(kwcDeadline, func() outcome {
		d2 := cp(data)
		var o outcome
		if fn == "aeskw" {
			blk, err := aes.NewCipher(key)
			if err != nil {
				return outcome{class: "other:bad-kek"}
			}
			w, err := aeskw.Wrap(blk, d2)
			o = outcome{class: classify(err), a: w}
		} else {
			jk, _ := h.octKey(key)
			var ct, tag []byte
			var err error
			if fn == "Encrypt" {
				ct, tag, err = kc.Encrypt(d2, kwAlgOf(len(key)), jk, nil, nil)
			} else {
				ct, tag, err = kc.EncryptSymmetric(d2, kwAlgOf(len(key)), jk, nil, nil)
			}
			o = outcome{class: classify(err), a: ct, b: tag}
		}
		if !bytesEq(d2, data) {
			o.inMod = "key data: " + firstDiff(data, d2)
		}
		return o
	})
}

func (h *H) kwcUnwrapCall(fn string, key, wrapped []byte) outcome {
	return guardedFor(kwcDeadline, func() outcome {
		w2 := cp(wrapped)
		var o outcome
		if fn == "aeskw" {
			blk, err := aes.NewCipher(key)
			if err != nil {
				return outcome{class: "other:bad-kek"}
			}
			p, err := aeskw.Unwrap(blk, w2)
			o = outcome{class: classify(err), a: p}
			if err != nil {
				o.msg = err.Error()
			}
		} else {
			jk, _ := h.octKey(key)
			var p []byte
			var err error
			if fn == "Encrypt" {
				p, err = kc.Decrypt(w2, kwAlgOf(len(key)), jk, nil, nil, nil)
			} else {
				p, err = kc.DecryptSymmetric(w2, kwAlgOf(len(key)), jk, nil, nil, nil)
			}
			o = outcome{class: classify(err), a: p}
			if err != nil {
				o.msg = err.Error()
			}
		}
		if !bytesEq(w2, wrapped) {
			o.inMod = "wrapped key: " + firstDiff(wrapped, w2)
		}
		return o
	})
}

func kwcFnNames(fn string) (string, string) {
	switch fn {
	case "Encrypt":
		return "Encrypt", "Decrypt"
	case "EncryptSymmetric":
		return "EncryptSymmetric", "DecryptSymmetric"
	}
	return "aeskw.Wrap", "aeskw.Unwrap"
}

type kwcViolation struct {
	id, what string
	c        Case
}

// kwcRun executes one plan against the real code and returns what the monitors found (reported by
// the caller, so that a background run cannot overtake the smaller cases).
func (h *H) kwcRun(key []byte, p kwcPlan, mutRng *lib.Rand) (vs []kwcViolation, verdict bool) {
	size := 8 * p.n
	data := kwcGen(p.seed, size)
	wfn, ufn := kwcFnNames(p.fn)
	base := Case{Family: "kwgen", Key: hx(key), Gen: strconv.FormatUint(p.seed, 16), Size: size, Mut: p.why}
	if p.fn != "aeskw" {
		base.Alg = kwAlgOf(len(key))
	}
	add := func(id, what string, c Case) { vs = append(vs, kwcViolation{id, what, c}) }

	ref := rfc3394Wrap(key, data)
	if ref == nil {
		h.res.Note("kwcounter: reference refused a valid size (harness defect)")
		return nil, false
	}
	// (the reference's self-inversion is checked at every size below the 2^24 family: same code path)
	if p.n >= 1<<21 {
		h.res.Hit("kwc:ref-self-inversion-skipped")
	} else if back, ok := rfc3394Unwrap(key, ref); !ok || !bytesEq(back, data) {
		h.res.Note("kwcounter: the reference does not invert itself (harness defect), case skipped")
		return nil, false
	}

	// ---- wrap direction
	wc := base
	wc.Monitor, wc.Fn = "kw-counter-wrap", wfn
	wo := h.kwcWrapCall(p.fn, key, data)
	switch {
	case wo.class == "timeout":
		h.res.Hit("kwc:no-verdict-timeout")
		h.res.Note(fmt.Sprintf("kwcounter: %s of %d bytes did not finish within %s: no verdict", wfn, size, kwcDeadline))
		return vs, false
	case wo.class == "panic":
		wc.Got = "panic: " + wo.msg
		add("aeskw-wrap-panic", wfn+" panicked on valid key data: "+wo.msg, wc)
		return vs, true
	case wo.class != "ok" || len(wo.a) != size+8 || len(wo.b) != 0:
		wc.Expect, wc.Got = "ok "+digest(ref), wo.class+" "+digest(wo.a)+" tag="+hx(wo.b)
		add("aeskw-wrap-valid-rejected", wfn+" of valid key data failed, has the wrong length or returned a tag", wc)
	case !bytesEq(wo.a, ref):
		wc.Expect, wc.Got = "ok "+digest(ref), "ok "+digest(wo.a)+"; "+firstDiff(ref, wo.a)
		if _, ok := rfc3394Unwrap(key, wo.a); ok {
			wc.Got += "; the reference Unwrap accepts it"
		} else {
			wc.Got += "; the reference Unwrap rejects it (integrity check)"
		}
		add(idKwInterop, "Wrap output differs from RFC 3394 (an independent implementation cannot unwrap it)", wc)
	}
	if wo.inMod != "" {
		ic := wc
		ic.Monitor, ic.Got = "kw-counter-wrap", wo.inMod
		add("sym-input-modified", wfn+" modified the caller's key data", ic)
	}

	// ---- unwrap direction: what an independent RFC 3394 implementation wrapped
	uc := base
	uc.Monitor, uc.Fn = "kw-counter-unwrap", ufn
	uo := h.kwcUnwrapCall(p.fn, key, ref)
	switch {
	case uo.class == "timeout":
		h.res.Hit("kwc:no-verdict-timeout")
		h.res.Note(fmt.Sprintf("kwcounter: %s of %d bytes did not finish within %s: no verdict", ufn, size+8, kwcDeadline))
		return vs, false
	case uo.class == "panic":
		uc.Got = "panic: " + uo.msg
		add("aeskw-unwrap-panic", ufn+" panicked on a valid wrapped key: "+uo.msg, uc)
		return vs, true
	case uo.class != "ok" || !bytesEq(uo.a, data):
		uc.Expect, uc.Got = "ok "+digest(data), uo.class+" "+digest(uo.a)
		if uo.msg != "" {
			uc.Got += " (" + uo.msg + ")"
		}
		add(idKwInterop, "kit's Unwrap does not recover the key data from an independent RFC 3394 Wrap", uc)
	}
	if uo.inMod != "" {
		ic := uc
		ic.Got = uo.inMod
		add("sym-input-modified", ufn+" modified the caller's wrapped key", ic)
	}
	// kit's own pair (only a separate call when kit's output is not the reference's)
	if wo.class == "ok" && !bytesEq(wo.a, ref) {
		ro := h.kwcUnwrapCall(p.fn, key, wo.a)
		if ro.class != "timeout" && (ro.class != "ok" || !bytesEq(ro.a, data)) {
			rc := base
			rc.Monitor, rc.Fn = "kw-counter-roundtrip", ufn
			rc.Expect, rc.Got = "ok "+digest(data), ro.class+" "+digest(ro.a)
			add("aeskw-roundtrip", "Unwrap(Wrap(cek)) != cek", rc)
		}
	}

	// ---- changed wrapped keys (of the reference) must be rejected
	for mi := 0; mi < p.muts; mi++ {
		pos := mutRng.Intn(len(ref))
		if mi == 1 {
			pos = len(ref) - 1 - mutRng.Intn(8) // last register: processed first by Unwrap
		}
		x := byte(mutRng.Range(1, 255))
		in := cp(ref)
		in[pos] ^= x
		mo := h.kwcUnwrapCall(p.fn, key, in)
		h.res.Hit("kwc:mutation")
		tc := base
		tc.Monitor, tc.Fn = "kw-counter-changed", ufn
		tc.Nonce = fmt.Sprintf("%d:%02x", pos, x) // position:xor of the change (replayed)
		tc.Mut = fmt.Sprintf("wrapped[%d]^=0x%02x; %s", pos, x, p.why)
		switch {
		case mo.class == "timeout":
			h.res.Hit("kwc:no-verdict-timeout")
		case mo.class == "panic":
			tc.Got = "panic: " + mo.msg
			add("aeskw-unwrap-panic", ufn+" panicked: "+mo.msg, tc)
		case mo.class == "ok":
			tc.Got = "ok " + digest(mo.a)
			add("aeskw-changed-wrapped-key-accepted", "a changed wrapped key was not rejected", tc)
		case len(mo.a) != 0:
			add("aeskw-error-with-output", "Unwrap returned an error AND output", tc)
		}
	}
	return vs, true
}

func (h *H) kwcBookkeep(k int, p kwcPlan, verdict bool) {
	h.res.Count(fmt.Sprintf("kwc %s %d %d %x", p.fn, p.kl, p.n, p.seed), verdict)
	h.res.Hit(fmt.Sprintf("kwc:boundary:2^%d", 8*k))
	h.res.Hit("kwc:fn:" + p.fn)
	h.res.Hit(fmt.Sprintf("kwc:kek:%d", p.kl))
	if 6*p.n >= 1<<(8*uint(k)) {
		h.res.Hit(fmt.Sprintf("kwc:crossed:2^%d", 8*k))
	} else {
		h.res.Hit(fmt.Sprintf("kwc:just-below:2^%d", 8*k))
	}
}

// kwCounter: boundaries 2^8 and 2^16 (both tiers), also sent to the Lean model where it is
// affordable (2^8: every case; 2^16: one wrap in the thorough tier — the list-based model needs
// ≈ 35 s for 87 384 bytes).
func (h *H) kwCounter() {
	t0 := time.Now()
	cases := 0
	leanHuge := false
	for _, k := range []int{1, 2} {
		rng := h.rng.Fork()
		for _, p := range h.kwcPlans(k, rng) {
			key := rng.Bytes(p.kl)
			vs, verdict := h.kwcRun(key, p, rng)
			h.kwcBookkeep(k, p, verdict)
			cases++
			for _, v := range vs {
				h.res.Violate(v.id, v.what, v.c)
			}
			if !verdict || len(vs) > 0 {
				continue
			}
			// Lean-native comparison (the model is proved equal to RFC 3394 for every length)
			lean := k == 1 && p.fn == "aeskw"
			if k == 2 && h.f.Tier == "thorough" && !leanHuge && p.fn == "aeskw" && 6*p.n >= 1<<16 {
				lean, leanHuge = true, true
			}
			if lean && !h.f.Search {
				data := kwcGen(p.seed, 8*p.n)
				ref := rfc3394Wrap(key, data)
				c := Case{Family: "kw", Monitor: "kw-wrap", Key: hx(key), Data: hx(data), Mut: p.why}
				h.queue("aeskw.Wrap = model wrap (= Kit.Crypto.kwWrap), counter boundary", fmt.Sprintf("kw dir=wrap key=%s data=%s", hx(key), hx(data)), "ok out="+hx(ref), c)
				if k == 1 {
					uc := Case{Family: "kw", Monitor: "kw-roundtrip", Key: hx(key), Data: hx(ref), Orig: hx(data), Mut: p.why}
					h.queue("aeskw.Unwrap = model unwrap (= Kit.Crypto.kwUnwrap), counter boundary", fmt.Sprintf("kw dir=unwrap key=%s data=%s", hx(key), hx(ref)), "ok out="+hx(data), uc)
				}
				h.res.Hit("kwc:lean-compared")
			}
		}
	}
	h.res.Note(fmt.Sprintf("kwcounter: %d cases at the 2^8 and 2^16 counter boundaries in %.1fs", cases, time.Since(t0).Seconds()))
}

// kwCounter24 runs the 2^24 boundary (≈ 22.4 MB of key data, ≈ 17 M AES block operations per
// direction) in the background; the returned function waits for it and reports.
func (h *H) kwCounter24() (wait func()) {
	if os24Skip() {
		return func() {}
	}
	rng := h.rng.Fork()
	plans := h.kwcPlans(3, rng)
	type done struct {
		p       kwcPlan
		vs      []kwcViolation
		verdict bool
	}
	ch := make(chan []done, 1)
	var took time.Duration
	go func() {
		t0 := time.Now()
		var ds []done
		for _, p := range plans {
			key := rng.Bytes(p.kl)
			vs, verdict := h.kwcRun(key, p, rng)
			ds = append(ds, done{p, vs, verdict})
		}
		took = time.Since(t0)
		ch <- ds
	}()
	return func() {
		ds := <-ch
		for _, d := range ds {
			h.kwcBookkeep(3, d.p, d.verdict)
			for _, v := range d.vs {
				h.res.Violate(v.id, v.what, v.c)
			}
		}
		h.res.Note(fmt.Sprintf("kwcounter: %d cases at the 2^24 counter boundary (n >= 2796203 blocks), %.1fs in the background", len(ds), took.Seconds()))
	}
}

// replayKwGen re-executes a compact counter-boundary case.
func (h *H) replayKwGen(c Case) {
	seed, err := strconv.ParseUint(c.Gen, 16, 64)
	if err != nil || c.Size < 0 || c.Size%8 != 0 {
		h.res.Note("replay: bad kwgen case")
		return
	}
	key := unhx(c.Key)
	fn := "aeskw"
	switch c.Fn {
	case "Encrypt", "Decrypt":
		fn = "Encrypt"
	case "EncryptSymmetric", "DecryptSymmetric":
		fn = "EncryptSymmetric"
	}
	h.res.Count("replay", true)
	p := kwcPlan{n: c.Size / 8, kl: len(key), fn: fn, why: c.Mut, seed: seed}
	if c.Monitor == "kw-counter-changed" {
		// the stored change: position:xor
		var pos int
		var x int
		if _, err := fmt.Sscanf(c.Nonce, "%d:%x", &pos, &x); err == nil {
			data := kwcGen(seed, c.Size)
			ref := rfc3394Wrap(key, data)
			if ref != nil && pos >= 0 && pos < len(ref) {
				in := cp(ref)
				in[pos] ^= byte(x)
				mo := h.kwcUnwrapCall(fn, key, in)
				if mo.class == "ok" {
					c.Got = "ok " + digest(mo.a)
					h.res.Violate("aeskw-changed-wrapped-key-accepted", "a changed wrapped key was not rejected", c)
				} else if mo.class == "panic" {
					h.res.Violate("aeskw-unwrap-panic", "Unwrap panicked: "+mo.msg, c)
				}
			}
		}
		return
	}
	vs, _ := h.kwcRun(key, p, lib.NewRand(seed))
	for _, v := range vs {
		h.res.Violate(v.id, v.what, v.c)
	}
}
