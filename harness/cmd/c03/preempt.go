package main

// Further model-independent monitors for the asymmetric side and for the algorithm-name argument:
//
//   keySequences   calls that mix the private and the public key of the SAME pair, in both orders,
//                  with fresh and with reused key objects, and keys that share a `kid`: a
//                  public-only key must be refused for sign/decrypt also after the private key was
//                  used (a cache keyed by thumbprint or key id would hand the private key back),
//                  and a private key must keep working after the public one was used
//   sigLengthMutations  signatures changed in LENGTH: appended 1..8 bytes, prepended bytes,
//                  truncations, DER with trailing garbage inside/outside the SEQUENCE, non-minimal
//                  DER, raw R‖S instead of DER — never verify
//   nameBoundaries every entry point × names at the boundary of every supported name: "", every
//                  proper prefix, last character changed/dropped/doubled, one more character, case
//                  changes — ErrUnsupportedAlgorithm (unless the result is itself supported), no
//                  output, never a panic; with a key that FITS the original name, so that no key
//                  guard hides the name check

import (
	"crypto/ed25519"
	"encoding/asn1"
	"fmt"
	"math/big"
	"strings"

	kc "github.com/dapr/kit/crypto"
	"github.com/lestrrat-go/jwx/v2/jwk"

	"verifharness/lib"
)

// ---------------------------------------------------------------- (a) key pair sequences

type keyPairJ struct {
	name      string
	sigAlg    string // a signature name the pair fits ("" = none)
	encAlg    string // an encryption name the pair fits ("" = none)
	mkPriv    func() jwk.Key
	mkPub     func() jwk.Key
	pemString string
}

func pairs(ks *keyset) []keyPairJ {
	ps := []keyPairJ{
		{"rsa", "PS256", "RSA-OAEP-256", func() jwk.Key { return mustJWK(ks.rsa[0]) }, func() jwk.Key { return mustJWK(&ks.rsa[0].PublicKey) }, ks.pems["rsa0"]},
		{"rsa-rs", "RS384", "RSA1_5", func() jwk.Key { return mustJWK(ks.rsa[1]) }, func() jwk.Key { return mustJWK(&ks.rsa[1].PublicKey) }, ks.pems["rsa1"]},
		{"ed25519", "EdDSA", "", func() jwk.Key { return mustJWK(ks.ed[0]) }, func() jwk.Key { return mustJWK(ks.ed[0].Public().(ed25519.PublicKey)) }, ks.pems["ed0"]},
	}
	for _, c := range []struct{ curve, alg string }{{"P256", "ES256"}, {"P384", "ES384"}, {"P521", "ES512"}} {
		k := ks.ec[c.curve][0]
		ps = append(ps, keyPairJ{"ec" + c.curve, c.alg, "", func() jwk.Key { return mustJWK(k) }, func() jwk.Key { return mustJWK(&k.PublicKey) }, ks.pems["ec"+c.curve+"0"]})
	}
	return ps
}

func keySequences(res *lib.Result, ks *keyset, rng *lib.Rand) {
	for _, p := range pairs(ks) {
		for _, reuse := range []bool{false, true} {
			priv, pub := p.mkPriv(), p.mkPub()
			getPriv := func() jwk.Key {
				if reuse {
					return priv
				}
				return p.mkPriv()
			}
			getPub := func() jwk.Key {
				if reuse {
					return pub
				}
				return p.mkPub()
			}
			for _, order := range []string{"priv-first", "pub-first"} {
				base := func(step string) map[string]any {
					return map[string]any{"monitor": "key-sequence", "pair": p.name, "order": order, "reuse_key_objects": reuse, "step": step, "key_pem": p.pemString}
				}
				res.Hit("asym:keyseq:" + p.name)
				if p.sigAlg != "" {
					d := digestFor(p.sigAlg, rng)
					var sig []byte
					signPriv := func(step string) {
						o := callAsym("SignPrivateKey", p.sigAlg, getPriv(), d, nil, nil)
						res.Count("keyseq "+p.name+order+step, true)
						if o.class != "ok" {
							c := base(step)
							c["alg"], c["outcome"] = p.sigAlg, o.class+" "+o.msg
							violate(res, "asym-valid-input-rejected", "signing with the private key failed inside a sequence that also uses the public key of the same pair", c)
						} else {
							sig = o.out
						}
					}
					signPub := func(step string) {
						o := callAsym("SignPrivateKey", p.sigAlg, getPub(), d, nil, nil)
						res.Count("keyseq "+p.name+order+step, true)
						c := base(step)
						c["alg"], c["outcome"] = p.sigAlg, o.class
						if o.class == "ok" || len(o.out) != 0 {
							violate(res, "asym-public-key-signs", "SignPrivateKey produced a signature from a PUBLIC key (after the private key of the same pair was used)", c)
						} else if o.class != "ErrKeyTypeMismatch" {
							violate(res, "asym-wrong-key-not-sentinel", "a public key given to SignPrivateKey did not yield ErrKeyTypeMismatch", c)
						}
					}
					verify := func(step string, k jwk.Key) {
						if sig == nil {
							return
						}
						o := callAsym("VerifyPublicKey", p.sigAlg, k, d, sig, nil)
						res.Count("keyseq "+p.name+order+step, true)
						if o.class != "ok" || !o.valid {
							c := base(step)
							c["alg"], c["outcome"] = p.sigAlg, fmt.Sprintf("%s valid=%v", o.class, o.valid)
							violate(res, "asym-sig-roundtrip", "a genuine signature does not verify inside a sequence mixing both keys of the pair", c)
						}
					}
					if order == "priv-first" {
						signPriv("1:sign(priv)")
						signPub("2:sign(pub)")
						verify("3:verify(pub)", getPub())
						verify("4:verify(priv)", getPriv())
						signPub("5:sign(pub) again")
					} else {
						signPub("1:sign(pub)")
						signPriv("2:sign(priv)")
						verify("3:verify(pub)", getPub())
						signPub("4:sign(pub) again")
						signPriv("5:sign(priv) again")
						verify("6:verify(priv)", getPriv())
					}
				}
				if p.encAlg != "" {
					pt := rng.Bytes(24)
					var ct []byte
					enc := func(step string, k jwk.Key) {
						o := callAsym("EncryptPublicKey", p.encAlg, k, pt, nil, nil)
						res.Count("keyseq "+p.name+order+step, true)
						if o.class != "ok" {
							c := base(step)
							c["alg"], c["outcome"] = p.encAlg, o.class+" "+o.msg
							violate(res, "asym-valid-input-rejected", "encryption failed inside a sequence mixing both keys of the pair", c)
						} else {
							ct = o.out
						}
					}
					decPriv := func(step string) {
						if ct == nil {
							return
						}
						o := callAsym("DecryptPrivateKey", p.encAlg, getPriv(), ct, nil, nil)
						res.Count("keyseq "+p.name+order+step, true)
						if o.class != "ok" || !bytesEq(o.out, pt) {
							c := base(step)
							c["alg"], c["outcome"] = p.encAlg, o.class+" "+o.msg
							violate(res, "asym-roundtrip", "decryption with the private key failed inside a sequence mixing both keys of the pair", c)
						}
					}
					decPub := func(step string) {
						in := ct
						if in == nil {
							in = rng.Bytes(256)
						}
						o := callAsym("DecryptPrivateKey", p.encAlg, getPub(), in, nil, nil)
						res.Count("keyseq "+p.name+order+step, true)
						c := base(step)
						c["alg"], c["outcome"] = p.encAlg, o.class
						if o.class == "ok" || len(o.out) != 0 {
							violate(res, "asym-public-key-decrypts", "DecryptPrivateKey produced a plaintext from a PUBLIC key (after the private key of the same pair was used)", c)
						} else if o.class != "ErrKeyTypeMismatch" {
							violate(res, "asym-wrong-key-not-sentinel", "a public key given to DecryptPrivateKey did not yield ErrKeyTypeMismatch", c)
						}
					}
					if order == "priv-first" {
						enc("1:encrypt(priv→public half)", getPriv())
						decPriv("2:decrypt(priv)")
						decPub("3:decrypt(pub)")
						enc("4:encrypt(pub)", getPub())
						decPub("5:decrypt(pub) again")
						decPriv("6:decrypt(priv)")
					} else {
						enc("1:encrypt(pub)", getPub())
						decPub("2:decrypt(pub)")
						decPriv("3:decrypt(priv)")
						decPub("4:decrypt(pub) again")
					}
				}
			}
		}
	}
	// two DIFFERENT keys carrying the same key id (and the same thumbprint cannot happen): results
	// must follow the key material, not the id
	sameKid := func(alg string, a, b jwk.Key, pubA, pubB jwk.Key, d []byte, what string) {
		for _, k := range []jwk.Key{a, b, pubA, pubB} {
			_ = k.Set(jwk.KeyIDKey, "the-same-kid")
		}
		sa := callAsym("SignPrivateKey", alg, a, d, nil, nil)
		sb := callAsym("SignPrivateKey", alg, b, d, nil, nil)
		res.Hit("asym:keyseq:same-kid")
		if sa.class != "ok" || sb.class != "ok" {
			return
		}
		c := map[string]any{"monitor": "key-sequence", "pair": what, "alg": alg, "step": "two different keys with the same kid"}
		va := callAsym("VerifyPublicKey", alg, pubA, d, sa.out, nil)
		vb := callAsym("VerifyPublicKey", alg, pubB, d, sb.out, nil)
		xa := callAsym("VerifyPublicKey", alg, pubB, d, sa.out, nil)
		xb := callAsym("VerifyPublicKey", alg, pubA, d, sb.out, nil)
		if !va.valid || !vb.valid {
			violate(res, "asym-sig-roundtrip", "a genuine signature does not verify when another key with the same kid was used before", c)
		}
		if xa.valid || xb.valid {
			violate(res, "asym-crosskey-accepted", "a signature verified under a DIFFERENT key that carries the same kid", c)
		}
	}
	sameKid("RS256", mustJWK(ks.rsa[0]), mustJWK(ks.rsa[1]), mustJWK(&ks.rsa[0].PublicKey), mustJWK(&ks.rsa[1].PublicKey), rng.Bytes(32), "rsa0/rsa1")
	sameKid("ES256", mustJWK(ks.ec["P256"][0]), mustJWK(ks.ec["P256"][1]), mustJWK(&ks.ec["P256"][0].PublicKey), mustJWK(&ks.ec["P256"][1].PublicKey), rng.Bytes(32), "ecP256 0/1")
	sameKid("EdDSA", mustJWK(ks.ed[0]), mustJWK(ks.ed[1]), mustJWK(ks.ed[0].Public().(ed25519.PublicKey)), mustJWK(ks.ed[1].Public().(ed25519.PublicKey)), rng.Bytes(32), "ed 0/1")
}

// ---------------------------------------------------------------- (b) length-changing signature mutations

func derLen(n int) []byte {
	if n < 128 {
		return []byte{byte(n)}
	}
	if n < 256 {
		return []byte{0x81, byte(n)}
	}
	return []byte{0x82, byte(n >> 8), byte(n)}
}

func derInt(x *big.Int, pad int) []byte {
	b := x.Bytes()
	if len(b) == 0 || b[0]&0x80 != 0 {
		b = append([]byte{0}, b...)
	}
	b = append(make([]byte, pad), b...)
	return append(append([]byte{0x02}, derLen(len(b))...), b...)
}

func ecdsaVariants(sig []byte, curveBytes int, rng *lib.Rand) map[string][]byte {
	m := map[string][]byte{}
	var rs struct{ R, S *big.Int }
	if _, err := asn1.Unmarshal(sig, &rs); err != nil || rs.R == nil || rs.S == nil {
		return m
	}
	raw := make([]byte, 2*curveBytes)
	rs.R.FillBytes(raw[:curveBytes])
	rs.S.FillBytes(raw[curveBytes:])
	m["raw R‖S (JWS form) instead of DER"] = raw
	body := append(derInt(rs.R, 0), derInt(rs.S, 0)...)
	garbage := rng.Bytes(3)
	m["DER + trailing garbage after the SEQUENCE"] = append(append(append([]byte{0x30}, derLen(len(body))...), body...), garbage...)
	inner := append(cp(body), garbage...)
	m["DER with garbage inside the SEQUENCE"] = append(append([]byte{0x30}, derLen(len(inner))...), inner...)
	m["DER + one trailing zero byte"] = append(cp(sig), 0)
	padded := append(derInt(rs.R, 1), derInt(rs.S, 0)...)
	m["DER with a non-minimal INTEGER (leading 00)"] = append(append([]byte{0x30}, derLen(len(padded))...), padded...)
	if len(body) < 128 {
		m["DER with a non-minimal length (0x81)"] = append([]byte{0x30, 0x81, byte(len(body))}, body...)
	}
	m["SEQUENCE of three INTEGERs"] = func() []byte {
		b3 := append(cp(body), derInt(big.NewInt(1), 0)...)
		return append(append([]byte{0x30}, derLen(len(b3))...), b3...)
	}()
	return m
}

func sigLengthMutations(res *lib.Result, ks *keyset, rng *lib.Rand) {
	for _, alg := range kc.SupportedSignatureAlgorithms() {
		s, ok := sigSpecs[alg]
		if !ok {
			continue
		}
		for ki := 0; ki < 2; ki++ {
			priv, pub := sigKeyJWK(alg, ks, ki, true), sigKeyJWK(alg, ks, ki, false)
			d := digestFor(alg, rng)
			so := callAsym("SignPrivateKey", alg, priv, d, nil, nil)
			if so.class != "ok" {
				continue
			}
			muts := map[string][]byte{}
			for n := 1; n <= 8; n++ {
				muts[fmt.Sprintf("append %d random bytes", n)] = append(cp(so.out), rng.Bytes(n)...)
				muts[fmt.Sprintf("append %d zero bytes", n)] = append(cp(so.out), make([]byte, n)...)
				muts[fmt.Sprintf("prepend %d zero bytes", n)] = append(make([]byte, n), so.out...)
				if n < len(so.out) {
					muts[fmt.Sprintf("truncate %d bytes at the end", n)] = cp(so.out[:len(so.out)-n])
					muts[fmt.Sprintf("truncate %d bytes at the front", n)] = cp(so.out[n:])
				}
			}
			muts["signature twice"] = append(cp(so.out), so.out...)
			muts["empty"] = []byte{}
			muts["first half"] = cp(so.out[:len(so.out)/2])
			if s.fam == "ecdsa" {
				cb := (ks.ec[s.curve][ki].Curve.Params().BitSize + 7) / 8
				for k, v := range ecdsaVariants(so.out, cb, rng) {
					muts[k] = v
				}
			}
			for name, m := range muts {
				o := callAsym("VerifyPublicKey", alg, pub, d, m, nil)
				res.Count("siglen "+alg+" "+name+hx(d[:4]), true)
				res.Hit("asym:mutation:signature-length")
				c := map[string]any{"monitor": "sig-tamper", "fn": "VerifyPublicKey", "alg": alg, "digest": hx(d), "sig": hx(m), "mutation": name, "genuine_sig": hx(so.out), "key_pem": sigKeyPEM(alg, ks, ki)}
				if o.class == "panic" || o.class == "timeout" {
					violate(res, "asym-"+o.class, "verification of a length-changed signature "+o.class+": "+o.msg, c)
				} else if o.valid {
					violate(res, "asym-tamper-signature-accepted", "a signature changed in length ("+name+") verified", c)
				}
			}
		}
	}
}

// ---------------------------------------------------------------- (c) algorithm-name boundaries

func boundaryNames(name string) []string {
	var out []string
	for i := 0; i < len(name); i++ {
		out = append(out, name[:i])
	}
	n := len(name)
	last := name[n-1]
	out = append(out, name+"0", name+" ", name+"\x00", name+name[n-1:], name[:n-1]+string(last+1), name[:n-1]+string(last-1),
		strings.ToLower(name), strings.ToUpper(name), " "+name, name[1:], name[:n-1]+"\xff", name+"-256", name+"KW")
	return out
}

type entryPoint struct {
	fn  string
	set func(name string) bool // is the name supported by this entry point?
}

func nameBoundaries(h *H, ks *keyset) {
	res := h.res
	in := func(list []string) func(string) bool {
		m := map[string]bool{}
		for _, n := range list {
			m[n] = true
		}
		return func(s string) bool { return m[s] }
	}
	sym, enc, sig := in(kc.SupportedSymmetricAlgorithms()), in(kc.SupportedAsymmetricAlgorithms()), in(kc.SupportedSignatureAlgorithms())
	both := func(s string) bool { return sym(s) || enc(s) }
	eps := []entryPoint{{"Encrypt", both}, {"Decrypt", both}, {"EncryptSymmetric", sym}, {"DecryptSymmetric", sym},
		{"EncryptPublicKey", enc}, {"DecryptPrivateKey", enc}, {"SignPrivateKey", sig}, {"VerifyPublicKey", sig}}
	var all []string
	all = append(all, kc.SupportedSymmetricAlgorithms()...)
	all = append(all, kc.SupportedAsymmetricAlgorithms()...)
	all = append(all, kc.SupportedSignatureAlgorithms()...)
	seen := map[string]bool{}
	for _, orig := range all {
		// a key that fits the ORIGINAL name, so that only the name decides
		var key jwk.Key
		var keyBytes []byte
		kind := "oct"
		switch {
		case sym(orig):
			keyBytes = h.rng.Bytes(specs[orig].keyLen)
			key, _ = h.octKey(keyBytes)
		case enc(orig), strings.HasPrefix(orig, "RS"), strings.HasPrefix(orig, "PS"):
			key, kind = mustJWK(ks.rsa[0]), "rsaPriv"
		case strings.HasPrefix(orig, "ES"):
			key, kind = sigKeyJWK(orig, ks, 0, true), "ec"+sigSpecs[orig].curve+"Priv"
		default:
			key, kind = mustJWK(ks.ed[0]), "ed25519Priv"
		}
		nonce := h.rng.Bytes(specs[orig].nonceLen)
		for _, name := range boundaryNames(orig) {
			for _, ep := range eps {
				if ep.set(name) || seen[ep.fn+"\x00"+name+"\x00"+kind] {
					continue
				}
				seen[ep.fn+"\x00"+name+"\x00"+kind] = true
				data := h.rng.Bytes(32)
				var cls string
				var outLen int
				var msg string
				switch ep.fn {
				case "Encrypt", "EncryptSymmetric":
					o := callEnc(ep.fn, name, key, nonce, data, nil)
					cls, outLen, msg = o.class, len(o.a)+len(o.b), o.msg
				case "Decrypt", "DecryptSymmetric":
					o := callDec(ep.fn, name, key, nonce, data, h.rng.Bytes(16), nil)
					cls, outLen, msg = o.class, len(o.a), o.msg
				default:
					o := callAsym(ep.fn, name, key, data, h.rng.Bytes(64), nil)
					cls, outLen, msg = o.class, len(o.out), o.msg
					if o.valid {
						outLen++
					}
				}
				res.Count("name "+ep.fn+" "+hx([]byte(name))+kind, false)
				res.Hit("name-boundary:" + ep.fn)
				c := Case{Family: "name", Monitor: "name-boundary", Fn: ep.fn, Alg: hx([]byte(name)), Kind: kind, Key: hx(keyBytes), Nonce: hx(nonce), Data: hx(data),
					Mut: fmt.Sprintf("%q derived from the supported name %q (alg is hex here)", name, orig), Got: cls + " " + msg}
				switch {
				case cls == "panic" || cls == "timeout":
					res.Violate("name-"+cls, "an algorithm name at the boundary of a supported one made "+ep.fn+" "+cls, c)
				case outLen != 0:
					res.Violate("name-unknown-accepted", "an unsupported algorithm name produced output", c)
				case cls == "ErrUnsupportedAlgorithm":
				case cls == "ErrKeyTypeMismatch" && kind != "oct" && (ep.fn == "EncryptSymmetric" || ep.fn == "DecryptSymmetric"):
					// a non-octet key is refused before the name is looked at (documented order)
				case cls == "ErrKeyTypeMismatch" && kind == "oct" && (ep.fn == "Encrypt" || ep.fn == "Decrypt") && (strings.HasPrefix(name, "RSA") || strings.HasPrefix(name, "ECDH")):
					// a listed-constant name routed to the public-key entry with an octet key
				default:
					c.Expect = "ErrUnsupportedAlgorithm"
					res.Violate("name-unknown-not-sentinel", "an unsupported algorithm name did not yield ErrUnsupportedAlgorithm", c)
				}
				// model comparison through alghex= (names that are valid UTF-8 without line breaks)
				if kind == "oct" && (ep.fn == "EncryptSymmetric" || ep.fn == "Encrypt") && utf8Safe(name) && !(strings.HasPrefix(name, "RSA") || strings.HasPrefix(name, "ECDH")) {
					canon := "err " + cls
					if cls == "panic" || cls == "timeout" {
						canon = cls
					}
					h.queue("algorithm-name boundary: outcome class = model", fmt.Sprintf("sym fn=%s alghex=%s kind=oct key=%s nonce=%s data=%s tag= ad=", ep.fn, hx([]byte(name)), hx(keyBytes), hx(nonce), hx(data)), canon, c)
				}
			}
		}
	}
}

func utf8Safe(s string) bool {
	for _, r := range s {
		if r == 0xFFFD || r == '\n' || r == '\r' {
			return false
		}
	}
	return true
}

// replayName re-executes a stored name-boundary case.
func (h *H) replayName(c Case) {
	h.res.Count("replay-name", true)
	name := string(unhx(c.Alg))
	var key jwk.Key
	if c.Kind == "oct" {
		key, _ = h.octKey(unhx(c.Key))
	} else {
		key = h.keys[c.Kind]
	}
	var cls string
	var outLen int
	switch c.Fn {
	case "Encrypt", "EncryptSymmetric":
		o := callEnc(c.Fn, name, key, unhx(c.Nonce), unhx(c.Data), nil)
		cls, outLen = o.class, len(o.a)+len(o.b)
	case "Decrypt", "DecryptSymmetric":
		o := callDec(c.Fn, name, key, unhx(c.Nonce), unhx(c.Data), make([]byte, 16), nil)
		cls, outLen = o.class, len(o.a)
	default:
		o := callAsym(c.Fn, name, key, unhx(c.Data), make([]byte, 64), nil)
		cls, outLen = o.class, len(o.out)
	}
	c.Got = cls
	switch {
	case cls == "panic" || cls == "timeout":
		h.res.Violate("name-"+cls, "an algorithm name at the boundary of a supported one made "+c.Fn+" "+cls, c)
	case outLen != 0:
		h.res.Violate("name-unknown-accepted", "an unsupported algorithm name produced output", c)
	case cls != "ErrUnsupportedAlgorithm" && cls != "ErrKeyTypeMismatch":
		h.res.Violate("name-unknown-not-sentinel", "an unsupported algorithm name did not yield ErrUnsupportedAlgorithm", c)
	}
}
