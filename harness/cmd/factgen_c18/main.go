// factgen_c18 extracts from concurrency/dir/dir.go the ordered body of (*Dir).Write — every os.*
// call (with canonical arguments, enclosing context and error handling), every verifhook point
// and the assignment to d.prev — and writes it as lean/KitModel/Generated/C18.lean.
// Any statement or expression shape it does not know makes it exit non-zero: the tie is then
// reported as broken instead of silently keeping old facts.
package main

import (
	"flag"
	"fmt"
	"go/ast"
	"go/parser"
	"go/token"
	"go/types"
	"os"
	"path/filepath"
	"strings"
)

var items []string
var newDirOK bool

func fail(fset *token.FileSet, n ast.Node, format string, a ...any) {
	pos := ""
	if n != nil {
		pos = fset.Position(n.Pos()).String() + ": "
	}
	fmt.Fprintf(os.Stderr, "factgen_c18: %sunknown shape: %s\n", pos, fmt.Sprintf(format, a...))
	os.Exit(1)
}

func str(e ast.Expr) string { return types.ExprString(e) }

type env struct {
	fset  *token.FileSet
	alias map[string]string // local variable -> canonical arg
}

func (v *env) arg(e ast.Expr) string {
	s := str(e)
	if a, ok := v.alias[s]; ok {
		return a
	}
	switch s {
	case "d.base":
		return "base"
	case "filepath.Base(newDir)":
		if v.alias["newDir"] == "newDir" {
			return "newDirName"
		}
	case `d.target + ".new"`:
		return "targetNew"
	case "d.target":
		return "target"
	case "*d.prev":
		return "prev"
	case "os.ModePerm":
		return "perm"
	}
	fail(v.fset, e, "argument %q", s)
	return ""
}

var fnNames = map[string]string{
	"os.MkdirAll": "mkdirAll", "os.WriteFile": "writeFile", "os.Remove": "remove",
	"os.Symlink": "symlink", "os.Rename": "rename", "os.RemoveAll": "removeAll",
}

// errCheck recognises `if err := os.F(args); <cond> { return err }` and returns the call + onErr.
func (v *env) errCheck(s *ast.IfStmt) (*ast.CallExpr, string, bool) {
	as, ok := s.Init.(*ast.AssignStmt)
	if !ok || len(as.Lhs) != 1 || len(as.Rhs) != 1 || str(as.Lhs[0]) != "err" || as.Tok != token.DEFINE {
		return nil, "", false
	}
	call, ok := as.Rhs[0].(*ast.CallExpr)
	if !ok {
		return nil, "", false
	}
	if s.Else != nil || len(s.Body.List) != 1 {
		fail(v.fset, s, "error branch of %s is not a single `return err`", str(call.Fun))
	}
	ret, ok := s.Body.List[0].(*ast.ReturnStmt)
	if !ok || len(ret.Results) != 1 || str(ret.Results[0]) != "err" {
		fail(v.fset, s, "error branch of %s is not `return err`", str(call.Fun))
	}
	switch str(s.Cond) {
	case "err != nil":
		return call, "ret", true
	case "err != nil && !errors.Is(err, os.ErrNotExist)", "err != nil && !os.IsNotExist(err)",
		"err != nil && !errors.Is(err, fs.ErrNotExist)":
		return call, "retUnlessNotExist", true
	}
	fail(v.fset, s.Cond, "error condition %q", str(s.Cond))
	return nil, "", false
}

func (v *env) emitCall(call *ast.CallExpr, ctx, onErr string) {
	fn, ok := fnNames[str(call.Fun)]
	if !ok {
		fail(v.fset, call, "call to %s", str(call.Fun))
	}
	var args []string
	for _, a := range call.Args {
		args = append(args, "."+v.arg(a))
	}
	items = append(items, fmt.Sprintf("  .call { fn := .%s, args := [%s], ctx := .%s, onErr := .%s }",
		fn, strings.Join(args, ", "), ctx, onErr))
}

func isLog(e ast.Expr) bool {
	call, ok := e.(*ast.CallExpr)
	return ok && strings.HasPrefix(str(call.Fun), "d.log.")
}

func (v *env) hook(e ast.Expr, ctx string) bool {
	call, ok := e.(*ast.CallExpr)
	if !ok || str(call.Fun) != "verifhook.Point" {
		return false
	}
	if len(call.Args) < 2 || str(call.Args[0]) != `"dir.write.step"` {
		fail(v.fset, call, "hook point %s", str(call))
	}
	lit, ok := call.Args[1].(*ast.BasicLit)
	if !ok || lit.Kind != token.INT {
		fail(v.fset, call, "hook index %s", str(call.Args[1]))
	}
	items = append(items, fmt.Sprintf("  .hook %s .%s", lit.Value, ctx))
	return true
}

func (v *env) stmts(list []ast.Stmt, ctx string) {
	for _, st := range list {
		switch s := st.(type) {
		case *ast.ExprStmt:
			if v.hook(s.X, ctx) || isLog(s.X) {
				continue
			}
			fail(v.fset, s, "statement %s", str(s.X))
		case *ast.AssignStmt:
			if len(s.Lhs) != 1 || len(s.Rhs) != 1 {
				fail(v.fset, s, "assignment")
			}
			l, r := str(s.Lhs[0]), str(s.Rhs[0])
			switch {
			case ctx == "top" && s.Tok == token.DEFINE && l == "newDir":
				if r != `filepath.Join(d.base, fmt.Sprintf("%d-%s", time.Now().UTC().UnixNano(), d.targetDir))` {
					fail(v.fset, s, "newDir := %s", r)
				}
				newDirOK = true
				v.alias["newDir"] = "newDir"
			case ctx == "rangeFiles" && s.Tok == token.DEFINE && r == "filepath.Join(newDir, file)":
				v.alias[l] = "newDirFile"
			case ctx == "top" && s.Tok == token.ASSIGN && l == "d.prev" && r == "&newDir":
				items = append(items, "  .setPrevNewDir")
			default:
				fail(v.fset, s, "assignment %s %s %s", l, s.Tok, r)
			}
		case *ast.IfStmt:
			if call, onErr, ok := v.errCheck(s); ok {
				v.emitCall(call, ctx, onErr)
				continue
			}
			if ctx == "top" && s.Init == nil && s.Else == nil && str(s.Cond) == "d.prev != nil" {
				v.stmts(s.Body.List, "ifPrevSet")
				continue
			}
			fail(v.fset, s, "if statement with condition %s", str(s.Cond))
		case *ast.RangeStmt:
			if ctx != "top" || str(s.X) != "files" || s.Key == nil || s.Value == nil || str(s.Key) != "file" {
				fail(v.fset, s, "range statement")
			}
			v.alias[str(s.Value)] = "fileBytes"
			v.stmts(s.Body.List, "rangeFiles")
			delete(v.alias, str(s.Value))
		case *ast.ReturnStmt:
			if ctx != "top" || len(s.Results) != 1 || str(s.Results[0]) != "nil" || st != list[len(list)-1] {
				fail(v.fset, s, "return statement")
			}
		case *ast.DeferStmt:
			// a deferred call runs when Write returns or panics, NEVER when the process dies: it is
			// not a step of the crash model and must not be mistaken for one
			fail(v.fset, s, "defer %s in Write (deferred calls do not run on process death; the crash model has no such step)", str(s.Call))
		case *ast.GoStmt:
			fail(v.fset, s, "go %s in Write (concurrent file-system work is outside the model)", str(s.Call))
		default:
			fail(v.fset, st, "statement of type %T", st)
		}
	}
}

const preamble = `/-
GENERATED by harness/cmd/factgen_c18 from concurrency/dir/dir.go (func (*Dir).Write).
Do not edit: bin/check C18 rewrites this file from the working tree of /repo on every run.
The ordered body of ` + "`Write`" + `: every os.* call, every verifhook point, the assignment to d.prev.
-/
namespace Kit.Generated.C18

inductive Fn where
  | mkdirAll | writeFile | remove | symlink | rename | removeAll
  deriving DecidableEq, Repr

inductive Arg where
  | base | newDir | newDirName | newDirFile | fileBytes | targetNew | target | prev | perm
  deriving DecidableEq, Repr

inductive Ctx where
  | top | rangeFiles | ifPrevSet
  deriving DecidableEq, Repr

inductive OnErr where
  | ret | retUnlessNotExist
  deriving DecidableEq, Repr

structure FsCall where
  fn : Fn
  args : List Arg
  ctx : Ctx
  onErr : OnErr
  deriving DecidableEq, Repr

inductive Item where
  | call (c : FsCall)
  | hook (k : Nat) (ctx : Ctx)
  | setPrevNewDir
  deriving DecidableEq, Repr

/-- ` + "`newDir := filepath.Join(d.base, fmt.Sprintf(\"%d-%s\", time.Now().UTC().UnixNano(), d.targetDir))`" + ` -/
def newDirIsBaseJoinStampTargetDir : Bool := true

def writeBody : List Item := [
`

func main() {
	repo := flag.String("repo", "/repo", "repository root")
	out := flag.String("out", "", "output .lean file")
	flag.Parse()
	fset := token.NewFileSet()
	src := filepath.Join(*repo, "concurrency", "dir", "dir.go")
	f, err := parser.ParseFile(fset, src, nil, 0)
	if err != nil {
		fmt.Fprintln(os.Stderr, "factgen_c18:", err)
		os.Exit(1)
	}
	var write *ast.FuncDecl
	for _, d := range f.Decls {
		fd, ok := d.(*ast.FuncDecl)
		if ok && fd.Name.Name == "Write" && fd.Recv != nil && len(fd.Recv.List) == 1 && str(fd.Recv.List[0].Type) == "*Dir" {
			write = fd
		}
	}
	if write == nil {
		fail(fset, nil, "func (d *Dir) Write not found in %s", src)
	}
	if len(fd(write).Recv.List[0].Names) != 1 || write.Recv.List[0].Names[0].Name != "d" {
		fail(fset, write, "receiver name")
	}
	if len(write.Type.Params.List) != 1 || str(write.Type.Params.List[0].Type) != "map[string][]byte" ||
		len(write.Type.Params.List[0].Names) != 1 || write.Type.Params.List[0].Names[0].Name != "files" {
		fail(fset, write, "parameters of Write")
	}
	v := &env{fset: fset, alias: map[string]string{}}
	v.stmts(write.Body.List, "top")
	if !newDirOK {
		fail(fset, write, "newDir is never defined")
	}
	// any os.* / filepath / syscall use not accounted for? every call expression in the body must
	// have been classified: count os.* calls syntactically and compare
	osCalls := 0
	ast.Inspect(write.Body, func(n ast.Node) bool {
		if fl, ok := n.(*ast.FuncLit); ok {
			fail(fset, fl, "function literal in Write")
		}
		if c, ok := n.(*ast.CallExpr); ok {
			if _, known := fnNames[str(c.Fun)]; known || (strings.HasPrefix(str(c.Fun), "os.") && str(c.Fun) != "os.IsNotExist") {
				osCalls++
			}
		}
		return true
	})
	emitted := 0
	for _, it := range items {
		if strings.HasPrefix(it, "  .call") {
			emitted++
		}
	}
	if osCalls != emitted {
		fail(fset, write, "%d os.* calls in Write but %d classified", osCalls, emitted)
	}
	text := preamble + strings.Join(items, ",\n") + "\n]\n\nend Kit.Generated.C18\n"
	if *out == "" {
		fmt.Print(text)
		return
	}
	if err := os.WriteFile(*out, []byte(text), 0o644); err != nil {
		fmt.Fprintln(os.Stderr, "factgen_c18:", err)
		os.Exit(1)
	}
}

func fd(f *ast.FuncDecl) *ast.FuncDecl { return f }
