// logout: two independent loggers with different outputs log one line each, in a given order, in
// THIS fresh process; prints what each output received. Run by the C08 harness once per order
// (process-wide latches such as a sync.Once inside a shared formatter are only visible across
// fresh processes). Output kinds: buf (bytes.Buffer), pipe (os.Pipe, an *os.File that is no
// terminal), pty (the slave side of a pseudo-terminal opened through /dev/ptmx).
package main

import (
	"bytes"
	"encoding/json"
	"flag"
	"fmt"
	"io"
	"os"
	"strings"
	"syscall"
	"time"
	"unsafe"

	"github.com/dapr/kit/logger"
)

type sink struct {
	kind string
	w    io.Writer
	read func() string
}

func openPty() (master, slave *os.File, err error) {
	const tiocsptlck, tiocgptn = 0x40045431, 0x80045430 // linux
	master, err = os.OpenFile("/dev/ptmx", os.O_RDWR|syscall.O_NOCTTY, 0)
	if err != nil {
		return nil, nil, err
	}
	var unlock, n int32
	if _, _, e := syscall.Syscall(syscall.SYS_IOCTL, master.Fd(), tiocsptlck, uintptr(unsafe.Pointer(&unlock))); e != 0 {
		return nil, nil, e
	}
	if _, _, e := syscall.Syscall(syscall.SYS_IOCTL, master.Fd(), tiocgptn, uintptr(unsafe.Pointer(&n))); e != 0 {
		return nil, nil, e
	}
	slave, err = os.OpenFile(fmt.Sprintf("/dev/pts/%d", n), os.O_RDWR|syscall.O_NOCTTY, 0)
	return master, slave, err
}

func readSome(f *os.File) string {
	ch := make(chan string, 1)
	go func() {
		var all []byte
		buf := make([]byte, 4096)
		for {
			n, err := f.Read(buf)
			all = append(all, buf[:n]...)
			if err != nil || bytes.Contains(all, []byte("\n")) {
				break
			}
		}
		ch <- string(all)
	}()
	select {
	case s := <-ch:
		return s
	case <-time.After(2 * time.Second):
		return ""
	}
}

func newSink(kind string) (*sink, error) {
	switch kind {
	case "buf":
		b := new(bytes.Buffer)
		return &sink{kind, b, b.String}, nil
	case "pipe":
		r, w, err := os.Pipe()
		if err != nil {
			return nil, err
		}
		return &sink{kind, w, func() string { return readSome(r) }}, nil
	case "pty":
		m, s, err := openPty()
		if err != nil {
			return nil, err
		}
		return &sink{kind, s, func() string { return strings.ReplaceAll(readSome(m), "\r\n", "\n") }}, nil
	}
	return nil, fmt.Errorf("unknown sink %q", kind)
}

func main() {
	kinds := flag.String("kinds", "pty,buf", "output kind of logger 1 and logger 2")
	order := flag.String("order", "12", "who logs, in which order: 1 | 2 | 12 | 21")
	jsonOut := flag.Bool("json", false, "JSON formatted output")
	flag.Parse()
	ks := strings.Split(*kinds, ",")
	res := map[string]string{}
	sinks := map[byte]*sink{}
	logs := map[byte]logger.Logger{}
	for i, c := range []byte("12") {
		if !strings.ContainsRune(*order, rune(c)) {
			continue
		}
		s, err := newSink(ks[i])
		if err != nil {
			res["unavailable"] = ks[i] + ": " + err.Error()
			b, _ := json.Marshal(res)
			os.Stdout.Write(b)
			return
		}
		sinks[c] = s
		l := logger.NewLogger(fmt.Sprintf("c08.logout.%c", c))
		l.SetOutput(s.w)
		l.EnableJSONOutput(*jsonOut)
		logs[c] = l
	}
	for _, c := range []byte(*order) {
		logs[c].Infof("hello from logger %c", c)
	}
	for c, s := range sinks {
		res[string(c)] = s.read()
	}
	b, _ := json.Marshal(res)
	os.Stdout.Write(b)
}
