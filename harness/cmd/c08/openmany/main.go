// openmany runs the C08 "several streams open at once" family against the real Encrypt / Decrypt
// through their public API only. It is a child process of the harness (a panic in a goroutine of
// the library must become a result, and GOMAXPROCS is chosen per run by the parent:
// GOMAXPROCS=1 keeps sync.Pool's single per-P slot, so the buffer one call Puts is exactly the
// buffer the next Get obtains; the default setting leaves the order to the scheduler).
//
// A case: N streams (Decrypt of an intact document prepared beforehand, or Encrypt of a message),
// each with its own message, key, cipher and its own kind of reader; ALL are opened first (in the
// listed order, optionally with something else that uses the same buffer pool in between), and
// only then drained — in a given order one after the other, round-robin in small pieces, or by
// one goroutine per stream. Monitor (decided by the parent from what is written here): every
// stream yields exactly what it yields when it is the only stream of the process — its own
// plaintext / a document that decrypts to its own message — and no error.
package main

import (
	"bytes"
	"encoding/hex"
	"encoding/json"
	"flag"
	"fmt"
	"io"
	"os"
	"path/filepath"
	"runtime"
	"sync"
	"time"

	enc "github.com/dapr/kit/schemes/enc/v1"

	"verifharness/cmd/c08/wl"
)

type Stream struct {
	Pipe   wl.Pipe `json:"pipe"`
	Enc    bool    `json:"is_encrypt"`
	Reader string  `json:"reader"` // bytes | oneshot | eofshot | chunk | file | encpipe
	Chunk  int     `json:"chunk,omitempty"`
}

type Case struct {
	Kind    string   `json:"kind"` // openmany
	Streams []Stream `json:"streams"`
	Order   []int    `json:"drain_order"`
	Drain   string   `json:"drain"`             // whole | rr | conc
	Piece   int      `json:"piece,omitempty"`   // rr: bytes per turn
	Between string   `json:"between,omitempty"` // what else uses the pool between two opens: "" | encrypt-start | encrypt-full | pipeline | poolcycle
	Yield   bool     `json:"yield_between_opens,omitempty"`
	Unwrap  string   `json:"unwrap"` // plain | yield (already expressed in every stream's pipe.slow_unwrap_us; echoed for the parent)
}

type Result struct {
	Index   int      `json:"index"`
	Case    Case     `json:"case"`
	Procs   int      `json:"gomaxprocs"`
	Solo    []string `json:"solo"`
	Got     []string `json:"got"`
	Want    []string `json:"want"`
	Between string   `json:"between_result,omitempty"`
	Note    string   `json:"note,omitempty"`
	DocCut  []string `json:"doc_cut_hex,omitempty"` // header + first bytes of the body of every prepared document (for the model)
}

// oneShot hands out everything it has in ONE Read (as much as fits), like a bytes.Reader, but
// without the other methods of bytes.Reader (no WriteTo / ReadAt shortcuts for anybody to take);
// with eof it reports io.EOF together with the last bytes, as io.Reader permits.
type oneShot struct {
	data []byte
	eof  bool
}

func (o *oneShot) Read(p []byte) (int, error) {
	if len(o.data) == 0 {
		return 0, io.EOF
	}
	n := copy(p, o.data)
	o.data = o.data[n:]
	if o.eof && len(o.data) == 0 {
		return n, io.EOF
	}
	return n, nil
}

type chunked struct {
	r     io.Reader
	chunk int
}

func (c *chunked) Read(p []byte) (int, error) {
	if c.chunk > 0 && len(p) > c.chunk {
		p = p[:c.chunk]
	}
	return c.r.Read(p)
}

var tmpDir string

// source builds the reader of a stream over b; closers are run when the case is over.
func source(s Stream, b []byte, idx int, closers *[]func()) (io.Reader, error) {
	switch s.Reader {
	case "", "bytes":
		return bytes.NewReader(b), nil
	case "oneshot":
		return &oneShot{data: append([]byte(nil), b...)}, nil
	case "eofshot":
		return &oneShot{data: append([]byte(nil), b...), eof: true}, nil
	case "chunk":
		return &chunked{bytes.NewReader(b), s.Chunk}, nil
	case "file":
		fn := filepath.Join(tmpDir, fmt.Sprintf("s%d.bin", idx))
		if err := os.WriteFile(fn, b, 0o600); err != nil {
			return nil, err
		}
		f, err := os.Open(fn)
		if err != nil {
			return nil, err
		}
		*closers = append(*closers, func() { _ = f.Close(); _ = os.Remove(fn) })
		return f, nil
	}
	return nil, fmt.Errorf("unknown reader kind %q", s.Reader)
}

type opened struct {
	r       io.Reader
	openErr string
	buf     bytes.Buffer
	err     error
	done    bool
}

// open starts stream i. For a Decrypt stream doc is its document; reader kind "encpipe" feeds
// Decrypt directly from a fresh Encrypt of the message (the complete pipeline, nothing drained).
func open(s Stream, doc []byte, i int, closers *[]func()) *opened {
	o := &opened{}
	if s.Enc {
		src, err := source(s, s.Pipe.Message(), i, closers)
		if err != nil {
			o.openErr = "source: " + err.Error()
			return o
		}
		r, err := s.Pipe.OpenEncrypt(src)
		if err != nil {
			o.openErr = "enc=" + wl.ErrStr(err)
			return o
		}
		o.r = r
		return o
	}
	var src io.Reader
	if s.Reader == "encpipe" {
		r, err := s.Pipe.OpenEncrypt(bytes.NewReader(s.Pipe.Message()))
		if err != nil {
			o.openErr = "enc=" + wl.ErrStr(err)
			return o
		}
		src = r
	} else {
		var err error
		src, err = source(s, doc, i, closers)
		if err != nil {
			o.openErr = "source: " + err.Error()
			return o
		}
	}
	r, err := s.Pipe.OpenDecrypt(src)
	if err != nil {
		o.openErr = "dec=" + wl.ErrStr(err)
		return o
	}
	o.r = r
	return o
}

func (o *opened) readPiece(n int) {
	if o.done || o.r == nil {
		o.done = true
		return
	}
	if n <= 0 {
		_, o.err = o.buf.ReadFrom(o.r)
		o.done = true
		return
	}
	_, err := io.CopyN(&o.buf, o.r, int64(n))
	if err != nil {
		if err != io.EOF {
			o.err = err
		}
		o.done = true
	}
}

// result: what the stream yielded, in the spelling of wl.Pipe.DecryptFrom / "enc=- plain-ok".
func (o *opened) result(s Stream) string {
	if o.openErr != "" {
		return o.openErr
	}
	if !s.Enc {
		return s.Pipe.PlainResult(o.buf.Bytes(), o.err)
	}
	if o.err != nil {
		return "encstream=" + wl.ErrStr(o.err)
	}
	// the produced document is judged by decrypting it when everything else is over
	got := s.Pipe.DecryptDoc(o.buf.Bytes())
	if got == s.Pipe.Expected()[len("enc=- "):] {
		return "enc=- plain-ok"
	}
	return "enc=- produced document decrypts to: " + got
}

func want(s Stream) string {
	if s.Enc {
		return "enc=- plain-ok"
	}
	return s.Pipe.Expected()[len("enc=- "):]
}

func between(kind string, k int) string {
	p := wl.Pipe{Kind: "pipe", PlainLen: 900 + 70000*(k%2), PlainSeed: uint64(4242 + k), Cipher: []string{"", "CHACHA20-POLY1305"}[k%2], Alg: "A256KW", KeyName: "between-key", Mask: 77}
	switch kind {
	case "":
		return ""
	case "encrypt-start":
		// an Encrypt whose stream is drained only at the very end of the case
		return ""
	case "encrypt-full":
		doc, res := p.EncryptDoc()
		if doc == nil {
			return res
		}
		return "ok"
	case "pipeline":
		if got := p.Run(); got != p.Expected() {
			return got
		}
		return "ok"
	case "poolcycle":
		b := enc.BufPool.Get().(*[]byte)
		s := (*b)[:cap(*b)]
		for i := range s {
			s[i] = 0xAA
		}
		enc.BufPool.Put(b)
		return "ok"
	}
	return "unknown between kind"
}

// cutDoc: the three header lines and at most k bytes of what follows.
func cutDoc(doc []byte, k int) []byte {
	n, i := 0, 0
	for ; i < len(doc) && n < 3; i++ {
		if doc[i] == '\n' {
			n++
		}
	}
	if len(doc)-i > k {
		return doc[:i+k]
	}
	return doc
}

func runCase(c Case) (r Result) {
	r.Case = c
	r.Procs = runtime.GOMAXPROCS(0)
	n := len(c.Streams)
	docs := make([][]byte, n)
	r.Solo, r.Got, r.Want = make([]string, n), make([]string, n), make([]string, n)
	var closers []func()
	defer func() {
		for _, f := range closers {
			f()
		}
	}()
	// 1. every stream alone: prepared document, opened and drained at once
	for i, s := range c.Streams {
		r.Want[i] = want(s)
		if !s.Enc && s.Reader != "encpipe" {
			doc, res := s.Pipe.EncryptDoc()
			if doc == nil {
				r.Solo[i] = "preparing the document: " + res
				continue
			}
			docs[i] = doc
			r.DocCut = append(r.DocCut, hex.EncodeToString(cutDoc(doc, 200)))
		} else {
			r.DocCut = append(r.DocCut, "")
		}
		o := open(s, docs[i], 1000+i, &closers)
		o.readPiece(0)
		r.Solo[i] = o.result(s)
	}
	// 2. all opened first
	os_ := make([]*opened, n)
	var pending []io.Reader
	for i, s := range c.Streams {
		if i > 0 {
			if c.Between == "encrypt-start" {
				p := wl.Pipe{Kind: "pipe", PlainLen: 2000, PlainSeed: uint64(99 + i), Alg: "A256KW", KeyName: "between-key", Mask: 5}
				if er, err := p.OpenEncrypt(bytes.NewReader(p.Message())); err == nil {
					pending = append(pending, er)
				} else {
					r.Between += "encrypt-start: " + err.Error() + ";"
				}
			} else if c.Between != "" {
				if b := between(c.Between, i); b != "ok" {
					r.Between += c.Between + ": " + b + ";"
				}
			}
			if c.Yield {
				runtime.Gosched()
			}
		}
		os_[i] = open(s, docs[i], i, &closers)
	}
	// 3. drained afterwards
	switch c.Drain {
	case "rr":
		for left := n; left > 0; {
			left = 0
			for _, i := range c.Order {
				if !os_[i].done {
					os_[i].readPiece(c.Piece)
				}
				if !os_[i].done {
					left++
				}
			}
		}
	case "conc":
		var wg sync.WaitGroup
		for _, i := range c.Order {
			wg.Add(1)
			go func(i int) {
				defer wg.Done()
				os_[i].readPiece(0)
			}(i)
		}
		wg.Wait()
	default:
		for _, i := range c.Order {
			os_[i].readPiece(0)
		}
	}
	for _, er := range pending {
		_, _ = io.Copy(io.Discard, er)
	}
	for i, s := range c.Streams {
		r.Got[i] = os_[i].result(s)
	}
	return r
}

func main() {
	out := flag.String("out", "", "")
	in := flag.String("cases", "", "")
	reps := flag.Int("reps", 1, "")
	flag.Parse()
	var cases []Case
	raw, err := os.ReadFile(*in)
	if err == nil {
		err = json.Unmarshal(raw, &cases)
	}
	if err != nil {
		fmt.Fprintln(os.Stderr, "openmany:", err)
		os.Exit(2)
	}
	tmpDir, err = os.MkdirTemp(filepath.Dir(*out), "openmany-files-")
	if err != nil {
		fmt.Fprintln(os.Stderr, "openmany:", err)
		os.Exit(2)
	}
	defer os.RemoveAll(tmpDir)
	f, err := os.Create(*out)
	if err != nil {
		fmt.Fprintln(os.Stderr, "openmany:", err)
		os.Exit(2)
	}
	defer f.Close()
	encd := json.NewEncoder(f)
	for rep := 0; rep < *reps; rep++ {
		for i, c := range cases {
			// which case is running, should a goroutine of the library bring the process down
			fmt.Fprintf(os.Stderr, "CASE %d\n", i)
			done := make(chan Result, 1)
			go func() {
				defer func() {
					if rec := recover(); rec != nil {
						done <- Result{Case: c, Note: fmt.Sprintf("PANIC(%v)", rec)}
					}
				}()
				done <- runCase(c)
			}()
			var r Result
			select {
			case r = <-done:
			case <-time.After(90 * time.Second):
				r = Result{Case: c, Procs: runtime.GOMAXPROCS(0), Note: "TIMEOUT after 90s"}
			}
			r.Index = i
			_ = encd.Encode(r)
		}
	}
}
