package main

// cron parser cross-talk family: K goroutines released by a barrier each parse a DIFFERENT spec
// (valid and invalid, with distinct field values so that cross-talk is recognisable) through
// cron.ParseStandard (the package-level standardParser) and through ONE shared cron.NewParser
// value; every result (error text, or the schedule's next activations from fixed instants) is
// compared with the result of parsing the same spec alone.  Monitor only (independent of the
// model).  finding id: cron-parser-shared-state-crosstalk.

import (
	"fmt"
	"strings"
	"sync"
	"time"

	"github.com/dapr/kit/cron"

	"verifharness/cmd/c08/wl"
	"verifharness/lib"
)

const findCronCrosstalk = "cron-parser-shared-state-crosstalk"

type cronRaceCase struct {
	Kind       string   `json:"kind"` // cron-race
	Goroutines int      `json:"goroutines"`
	Rounds     int      `json:"rounds"`
	Specs5     []string `json:"standard_specs"`
	Specs6     []string `json:"seconds_specs"`
}

var cronInstants = []time.Time{
	time.Date(2024, 1, 1, 0, 0, 0, 0, time.UTC),
	time.Date(2025, 6, 15, 13, 37, 11, 0, time.UTC),
	time.Date(2027, 11, 30, 23, 59, 59, 0, time.UTC),
}

func cronResult(s cron.Schedule, err error) string {
	if err != nil {
		return "err=" + err.Error()
	}
	var sb strings.Builder
	sb.WriteString("ok")
	for _, t := range cronInstants {
		n := s.Next(t)
		n2 := s.Next(n)
		sb.WriteString(" " + n.UTC().Format("20060102T150405") + ">" + n2.UTC().Format("0102T150405"))
	}
	return sb.String()
}

// distinct minute/hour/dom/month/dow per goroutine; every third spec invalid in its own way
func cronSpecsFor(k int, rng *lib.Rand) (s5, s6 []string) {
	for g := 0; g < k; g++ {
		m, h, d, mo, w := (7*g+3)%60, (5*g+1)%24, (3*g)%28+1, g%12+1, g%7
		switch g % 4 {
		case 3:
			bad := []string{fmt.Sprintf("%d %d %d %d", m, h, d, mo), fmt.Sprintf("%d %d %d %d %d", 60+g, h, d, mo, w),
				fmt.Sprintf("%d %d 0 %d %d", m, h, mo, w), fmt.Sprintf("%d x%d %d %d %d", m, h, d, mo, w)}
			s5 = append(s5, "CRON_TZ=UTC "+bad[rng.Intn(len(bad))])
		case 1:
			s5 = append(s5, fmt.Sprintf("CRON_TZ=UTC %d %d * * %d", m, h, w))
		default:
			s5 = append(s5, fmt.Sprintf("CRON_TZ=UTC %d %d %d %d *", m, h, d, mo))
		}
		if g%5 == 4 {
			s6 = append(s6, fmt.Sprintf("CRON_TZ=UTC %d %d %d %d %d %d %d", g, m, h, d, mo, w, g))
		} else if g%2 == 0 {
			s6 = append(s6, fmt.Sprintf("CRON_TZ=UTC %d %d %d %d %d *", (11*g+2)%60, m, h, d, mo))
		} else {
			s6 = append(s6, fmt.Sprintf("CRON_TZ=UTC %d %d %d", m, h, d)) // optional seconds missing AND too few fields
		}
	}
	return
}

func runCronRace(c cronRaceCase) (complaint string, evals int) {
	shared := cron.NewParser(cron.SecondOptional | cron.Minute | cron.Hour | cron.Dom | cron.Month | cron.Dow | cron.Descriptor)
	solo5 := make([]string, len(c.Specs5))
	solo6 := make([]string, len(c.Specs6))
	for i, s := range c.Specs5 {
		solo5[i] = cronResult(cron.ParseStandard(s))
	}
	for i, s := range c.Specs6 {
		solo6[i] = cronResult(shared.Parse(s))
	}
	var mu sync.Mutex
	for r := 0; r < c.Rounds && complaint == ""; r++ {
		var ready, done sync.WaitGroup
		start := make(chan struct{})
		for g := 0; g < c.Goroutines; g++ {
			ready.Add(1)
			done.Add(1)
			go func(g int) {
				defer done.Done()
				defer func() {
					if rec := recover(); rec != nil {
						mu.Lock()
						if complaint == "" {
							complaint = fmt.Sprintf("round %d, goroutine %d: panic in the parser: %v", r, g, rec)
						}
						mu.Unlock()
					}
				}()
				ready.Done()
				<-start
				var got, want, spec, via string
				if (g+r)%2 == 0 {
					spec, via, want = c.Specs5[g], "ParseStandard", solo5[g]
					got = cronResult(cron.ParseStandard(spec))
				} else {
					spec, via, want = c.Specs6[g], "shared NewParser value", solo6[g]
					got = cronResult(shared.Parse(spec))
				}
				if got != want {
					mu.Lock()
					if complaint == "" {
						complaint = fmt.Sprintf("round %d, goroutine %d of %d: %s(%q) alone %q, concurrently with parses of other specs %q", r, g, c.Goroutines, via, spec, want, got)
					}
					mu.Unlock()
				}
			}(g)
		}
		ready.Wait()
		close(start)
		done.Wait()
		evals += c.Goroutines
	}
	return
}

func checkCronRace(res *lib.Result, rng *lib.Rand, budget int) {
	for _, k := range []int{2, 4, 8, 12} {
		s5, s6 := cronSpecsFor(k, rng)
		c := cronRaceCase{"cron-race", k, 250 * budget, s5, s6}
		var complaint string
		var n int
		g := wl.Guard(180*time.Second, func() string {
			defer func() {
				if r := recover(); r != nil {
					complaint = fmt.Sprintf("panic: %v", r)
				}
			}()
			complaint, n = runCronRace(c)
			return "ok"
		})
		res.Count(fmt.Sprintf("cron-race:k=%d,rounds=%d", k, c.Rounds), true)
		if n > 0 {
			res.Evaluations += n - 1
		}
		res.Distribution[fmt.Sprintf("cron-race:k=%d:parses", k)] += n
		if g != "ok" {
			res.Violate(findCronCrosstalk, "cron barrier rounds: "+g, c)
			continue
		}
		if complaint != "" {
			res.Violate(findCronCrosstalk, complaint, c)
		}
	}
}

// ---- descriptors with different time zones ----
//
// Every caller parsing `@daily`, `@hourly`, … with its own TZ=/CRON_TZ= prefix must get a schedule
// of its own: the schedules are USED only after all parses have completed (sequentially, then from
// concurrent goroutines) and each one's activations are compared with those of the same spec
// parsed alone.  finding id: cron-descriptor-shared-schedule.

const findCronDesc = "cron-descriptor-shared-schedule"

type cronDescCase struct {
	Kind       string   `json:"kind"` // cron-desc
	Specs      []string `json:"specs"`
	Concurrent bool     `json:"concurrent"`
}

var descNames = []string{"@daily", "@hourly", "@weekly", "@monthly", "@yearly", "@annually", "@midnight", "@every 90m"}
var descZones = []string{"Asia/Tokyo", "America/New_York", "Europe/Berlin", "Australia/Sydney", "UTC", "Asia/Kolkata", "Pacific/Honolulu"}

func runCronDesc(c cronDescCase) string {
	solo := make([]string, len(c.Specs))
	for i, s := range c.Specs {
		solo[i] = cronResult(cron.ParseStandard(s))
	}
	scheds := make([]cron.Schedule, len(c.Specs))
	errs := make([]error, len(c.Specs))
	if c.Concurrent {
		var wg sync.WaitGroup
		for i := range c.Specs {
			wg.Add(1)
			go func(i int) {
				defer wg.Done()
				defer func() { _ = recover() }()
				scheds[i], errs[i] = cron.ParseStandard(c.Specs[i])
			}(i)
		}
		wg.Wait()
	} else {
		for i, s := range c.Specs {
			scheds[i], errs[i] = cron.ParseStandard(s)
		}
	}
	// all parses are over: now every caller uses its schedule
	for i := range c.Specs {
		got := cronResult(scheds[i], errs[i])
		if got != solo[i] {
			return fmt.Sprintf("ParseStandard(%q) (parse %d of %d, used after all parses completed): alone %q, now %q", c.Specs[i], i+1, len(c.Specs), solo[i], got)
		}
	}
	return ""
}

func checkCronDescriptors(res *lib.Result, rng *lib.Rand, budget int) {
	cases := []cronDescCase{
		{"cron-desc", []string{"CRON_TZ=Asia/Tokyo @daily", "CRON_TZ=America/New_York @daily"}, false},
		{"cron-desc", []string{"TZ=Europe/Berlin @hourly", "@hourly", "TZ=Asia/Kolkata @hourly"}, false},
	}
	for i := 0; i < 40*budget; i++ {
		n := rng.Range(2, 5)
		d := descNames[rng.Intn(len(descNames))]
		specs := make([]string, n)
		for k := range specs {
			if rng.Intn(3) == 0 {
				d = descNames[rng.Intn(len(descNames))]
			}
			pre := []string{"CRON_TZ=", "TZ="}[rng.Intn(2)] + descZones[rng.Intn(len(descZones))] + " "
			if rng.Intn(6) == 0 {
				pre = ""
			}
			specs[k] = pre + d
		}
		cases = append(cases, cronDescCase{"cron-desc", specs, i%2 == 1})
	}
	for _, c := range cases {
		var complaint string
		g := wl.Guard(30*time.Second, func() string { complaint = runCronDesc(c); return "ok" })
		distinct := map[string]bool{}
		for _, s := range c.Specs {
			distinct[s] = true
		}
		res.Count("cron-desc:"+strings.Join(c.Specs, "|")+fmt.Sprint(c.Concurrent), len(distinct) >= 2)
		res.Hit(fmt.Sprintf("cron-desc:concurrent=%v", c.Concurrent))
		if g != "ok" {
			res.Violate(findCronDesc, "descriptor parses: "+g, c)
		} else if complaint != "" {
			res.Violate(findCronDesc, complaint, c)
		}
	}
}
