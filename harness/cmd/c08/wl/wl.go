// Package wl is the C08 workload: operations on independent objects (enc pipelines, crypto calls,
// cron parses, logger look-ups, byte-slice-pool cycles) that can be run alone or together.  Every
// operation has a canonical result string; "interference" = the string differs from the solo run.
// Shared by the harness (cmd/c08) and by the -race variant (cmd/c08/racewl).
package wl

import (
	"bytes"
	"crypto/sha256"
	"encoding/hex"
	"errors"
	"fmt"
	"io"
	"runtime"
	"sort"
	"strings"
	"sync"
	"time"
	"unsafe"

	"github.com/lestrrat-go/jwx/v2/jwk"

	"github.com/dapr/kit/byteslicepool"
	"github.com/dapr/kit/cron"
	kitcrypto "github.com/dapr/kit/crypto"
	"github.com/dapr/kit/logger"
	enc "github.com/dapr/kit/schemes/enc/v1"

	"verifharness/lib"
)

// ---------- guard ----------

// Guard runs f under recover and a deadline; a panic or hang in the real code becomes a result.
func Guard(d time.Duration, f func() string) (out string) {
	ch := make(chan string, 1)
	go func() {
		defer func() {
			if r := recover(); r != nil {
				ch <- fmt.Sprintf("PANIC(%v)", r)
			}
		}()
		ch <- f()
	}()
	select {
	case s := <-ch:
		return s
	case <-time.After(d):
		return "TIMEOUT"
	}
}

// GuardHere runs f on the CALLING goroutine under recover (needed where the goroutine matters).
func GuardHere(f func() string) (out string) {
	defer func() {
		if r := recover(); r != nil {
			out = fmt.Sprintf("PANIC(%v)", r)
		}
	}()
	return f()
}

// ---------- enc pipelines ----------

// Pipe describes one complete Encrypt→Decrypt pipeline with its own message, key and cipher.
type Pipe struct {
	Kind      string `json:"kind"` // "pipe"
	PlainLen  int    `json:"plain_len"`
	PlainSeed uint64 `json:"plain_seed"`
	Cipher    string `json:"cipher"` // "" = default (AES-GCM)
	Alg       string `json:"alg"`
	KeyName   string `json:"key_name"`
	Mask      int    `json:"key_mask"`       // the key: wrap = xor with (mask+i)
	SlowUs    int    `json:"slow_unwrap_us"` // UnwrapKeyFn sleeps this long (0: it only yields the processor; < 0: it returns at once)
	Chunk     int    `json:"read_chunk"`     // reader chunk size for source and document (0 = as large as asked)
}

func (p Pipe) Message() []byte { return lib.NewRand(p.PlainSeed).Bytes(p.PlainLen) }

func (p Pipe) wrap(k []byte) []byte {
	o := make([]byte, len(k))
	for i := range k {
		o[i] = k[i] ^ byte(p.Mask+i)
	}
	return o
}

type chunkReader struct {
	r     io.Reader
	chunk int
}

func (c *chunkReader) Read(b []byte) (int, error) {
	if c.chunk > 0 && len(b) > c.chunk {
		b = b[:c.chunk]
	}
	return c.r.Read(b)
}

func (p Pipe) reader(b []byte) io.Reader {
	if p.Chunk <= 0 {
		return bytes.NewReader(b)
	}
	return &chunkReader{bytes.NewReader(b), p.Chunk}
}

// Reader is the reader this pipeline feeds its streams with (chunked when Chunk > 0).
func (p Pipe) Reader(b []byte) io.Reader { return p.reader(b) }

func errStr(e error) string {
	if e == nil {
		return "-"
	}
	s := e.Error()
	s = strings.ReplaceAll(s, " ", "_")
	return s
}

// EncryptDoc runs the real Encrypt and drains the document.
func (p Pipe) EncryptDoc() (doc []byte, res string) {
	return p.EncryptFrom(p.reader(p.Message()))
}

// EncryptFrom is EncryptDoc with the plaintext delivered by the given reader.
func (p Pipe) EncryptFrom(src io.Reader) (doc []byte, res string) {
	opts := enc.EncryptOptions{Algorithm: enc.KeyAlgorithm(p.Alg), KeyName: p.KeyName,
		WrapKeyFn: func(k []byte, alg, kn string, nonce []byte) ([]byte, []byte, error) { return p.wrap(k), nil, nil }}
	if p.Cipher != "" {
		c := enc.Cipher(p.Cipher)
		opts.Cipher = &c
	}
	r, err := enc.Encrypt(src, opts)
	if err != nil {
		return nil, "enc=" + errStr(err)
	}
	doc, err = io.ReadAll(r)
	if err != nil {
		return nil, "encstream=" + errStr(err)
	}
	return doc, "enc=-"
}

// DecryptDoc runs the real Decrypt on doc and drains the plaintext. The result string is a
// deterministic function of (p, doc) when nothing interferes.
func (p Pipe) DecryptDoc(doc []byte) string {
	return p.DecryptFrom(p.reader(doc))
}

// OpenDecrypt only calls the real Decrypt (header read, key unwrapped, MAC checked, background
// goroutine started) and hands back the plaintext stream undrained.
func (p Pipe) OpenDecrypt(src io.Reader) (io.Reader, error) {
	return enc.Decrypt(src, enc.DecryptOptions{
		UnwrapKeyFn: func(w []byte, alg, kn string, nonce, tag []byte) ([]byte, error) {
			switch {
			case p.SlowUs > 0:
				time.Sleep(time.Duration(p.SlowUs) * time.Microsecond)
			case p.SlowUs == 0:
				runtime.Gosched()
			default: // < 0: the callback returns at once, without a scheduling point
			}
			if kn != p.KeyName {
				return nil, errors.New("unknown key " + kn)
			}
			return p.wrap(w), nil
		}})
}

// OpenEncrypt only calls the real Encrypt and hands back the document stream undrained.
func (p Pipe) OpenEncrypt(src io.Reader) (io.Reader, error) {
	opts := enc.EncryptOptions{Algorithm: enc.KeyAlgorithm(p.Alg), KeyName: p.KeyName,
		WrapKeyFn: func(k []byte, alg, kn string, nonce []byte) ([]byte, []byte, error) { return p.wrap(k), nil, nil }}
	if p.Cipher != "" {
		c := enc.Cipher(p.Cipher)
		opts.Cipher = &c
	}
	return enc.Encrypt(src, opts)
}

// PlainResult canonicalises a drained plaintext stream the way DecryptFrom does.
func (p Pipe) PlainResult(plain []byte, err error) string {
	h := sha256.Sum256(plain)
	s := fmt.Sprintf("dec=- term=%s plain=%d:%s", errStr(err), len(plain), hex.EncodeToString(h[:8]))
	if err == nil && !bytes.Equal(plain, p.Message()) {
		s += " WRONG-PLAINTEXT"
	}
	return s
}

// ErrStr is the canonical spelling of an error inside result strings.
func ErrStr(e error) string { return errStr(e) }

// DecryptFrom is DecryptDoc with the document delivered by the given reader.
func (p Pipe) DecryptFrom(src io.Reader) string {
	r, err := p.OpenDecrypt(src)
	if err != nil {
		return "dec=" + errStr(err)
	}
	plain, err := io.ReadAll(r)
	return p.PlainResult(plain, err)
}

// Run = the complete pipeline.
func (p Pipe) Run() string {
	doc, res := p.EncryptDoc()
	if doc == nil {
		return res
	}
	return res + " " + p.DecryptDoc(doc)
}

// Expected is what a pipeline must yield whatever else runs in the process.
func (p Pipe) Expected() string {
	m := p.Message()
	h := sha256.Sum256(m)
	return fmt.Sprintf("enc=- dec=- term=- plain=%d:%s", len(m), hex.EncodeToString(h[:8]))
}

// ---------- BufPool registry (where do slices point?) ----------

var (
	poolMu   sync.Mutex
	poolBufs []*[]byte
	tracked  bool
)

// TrackBufPool wraps enc.BufPool.New so that every buffer the pool ever creates is known.
// (BufPool.New is an exported field; the wrapper calls the original.)
func TrackBufPool() {
	poolMu.Lock()
	defer poolMu.Unlock()
	if tracked {
		return
	}
	tracked = true
	orig := enc.BufPool.New
	enc.BufPool.New = func() any {
		v := orig()
		if b, ok := v.(*[]byte); ok {
			poolMu.Lock()
			poolBufs = append(poolBufs, b)
			poolMu.Unlock()
		}
		return v
	}
}

// PoolBuffers returns how many buffers BufPool has created since TrackBufPool.
func PoolBuffers() int {
	poolMu.Lock()
	defer poolMu.Unlock()
	return len(poolBufs)
}

// ScribbleIdlePool overwrites every buffer BufPool has ever created. Only to be called while no
// pipeline is running in the process: then every one of them is in the pool (or dropped by it),
// where anybody may take it and write to it — nothing that is still to be read may depend on them.
func ScribbleIdlePool(v byte) int {
	poolMu.Lock()
	defer poolMu.Unlock()
	for _, b := range poolBufs {
		s := (*b)[:cap(*b)]
		for i := range s {
			s[i] = v
		}
	}
	return len(poolBufs)
}

// InPoolBuffer reports whether s's backing array lies inside a buffer created by BufPool, and
// the offset of s[0] in it.
func InPoolBuffer(s []byte) (bool, int) {
	if cap(s) == 0 {
		return false, 0
	}
	p := uintptr(unsafe.Pointer(unsafe.SliceData(s)))
	poolMu.Lock()
	defer poolMu.Unlock()
	for _, b := range poolBufs {
		base := uintptr(unsafe.Pointer(unsafe.SliceData(*b)))
		if p >= base && p < base+uintptr(cap(*b)) {
			return true, int(p - base)
		}
	}
	return false, 0
}

// ---------- other operations on independent objects ----------

// Op is one operation of the mixed workload.
type Op struct {
	Kind string `json:"kind"` // pipe | crypto | cron | logger | bsp
	Pipe *Pipe  `json:"pipe,omitempty"`
	// crypto
	Alg  string `json:"alg,omitempty"`
	Seed uint64 `json:"seed,omitempty"`
	Len  int    `json:"len,omitempty"`
	// cron
	Spec string `json:"spec,omitempty"`
	// logger
	Name string `json:"name,omitempty"`
	// bsp: script of (cap, size, fill) cycles on a pool of this op's own
	Cycles []BspCycle `json:"cycles,omitempty"`
}

type BspCycle struct {
	Cap    int  `json:"cap"`
	Size   int  `json:"size"`   // Resize to this after Get
	Keep   int  `json:"keep"`   // Put bs[:keep]
	NoFill bool `json:"nofill"` // do not write before reading back
}

var symKeyLen = map[string]int{"A128CBC": 16, "A192CBC": 24, "A256CBC": 32, "A128GCM": 16, "A192GCM": 24, "A256GCM": 32,
	"A128CBC-HS256": 32, "A192CBC-HS384": 48, "A256CBC-HS512": 64, "A128KW": 16, "A192KW": 24, "A256KW": 32,
	"C20P": 32, "XC20P": 32}
var symNonceLen = map[string]int{"A128CBC": 16, "A192CBC": 16, "A256CBC": 16, "A128GCM": 12, "A192GCM": 12, "A256GCM": 12,
	"A128CBC-HS256": 16, "A192CBC-HS384": 16, "A256CBC-HS512": 16, "A128KW": 0, "A192KW": 0, "A256KW": 0,
	"C20P": 12, "XC20P": 24}

// SymAlgs lists the deterministic symmetric algorithms used by crypto ops.
func SymAlgs() []string {
	out := make([]string, 0, len(symKeyLen))
	for k := range symKeyLen {
		out = append(out, k)
	}
	sort.Strings(out)
	return out
}

func cryptoOp(o Op) string {
	rng := lib.NewRand(o.Seed)
	key := rng.Bytes(symKeyLen[o.Alg])
	nonce := rng.Bytes(symNonceLen[o.Alg])
	n := o.Len
	if strings.HasSuffix(o.Alg, "KW") {
		n = 16 + 8*(n%5)
	}
	msg := rng.Bytes(n)
	ad := rng.Bytes(7)
	if !strings.Contains(o.Alg, "GCM") && !strings.Contains(o.Alg, "HS") && !strings.Contains(o.Alg, "C20P") {
		ad = nil
	}
	k, err := jwk.FromRaw(key)
	if err != nil {
		return "key=" + errStr(err)
	}
	keep := append([]byte(nil), msg...)
	ct, tag, err := kitcrypto.EncryptSymmetric(msg, o.Alg, k, nonce, ad)
	if err != nil {
		return "enc=" + errStr(err)
	}
	h := sha256.Sum256(append(append([]byte(nil), ct...), tag...))
	pt, err := kitcrypto.DecryptSymmetric(ct, o.Alg, k, nonce, tag, ad)
	if err != nil {
		return "ct=" + hex.EncodeToString(h[:8]) + " dec=" + errStr(err)
	}
	s := "ct=" + hex.EncodeToString(h[:8]) + " dec=-"
	if !bytes.Equal(pt, keep) {
		s += " WRONG-PLAINTEXT"
	}
	return s
}

var cronTimes = []time.Time{
	time.Date(2024, 2, 28, 23, 59, 30, 0, time.UTC),
	time.Date(2025, 12, 31, 12, 0, 0, 0, time.UTC),
	time.Date(2023, 6, 15, 3, 7, 0, 0, time.UTC),
}

func cronOp(o Op) string {
	s, err := cron.ParseStandard(o.Spec)
	if err != nil {
		return "err=" + errStr(err)
	}
	var sb strings.Builder
	sb.WriteString("ok")
	for _, t := range cronTimes {
		sb.WriteString(" " + s.Next(t).UTC().Format("20060102T150405"))
	}
	return sb.String()
}

// logger identities: the registry must hand the same instance to everybody asking for a name
var (
	logMu  sync.Mutex
	logIDs = map[string]logger.Logger{}
)

func loggerOp(o Op) string {
	l := logger.NewLogger(o.Name)
	l2 := logger.NewLogger(o.Name)
	same := l == l2
	logMu.Lock()
	first, seen := logIDs[o.Name]
	if !seen {
		logIDs[o.Name] = l
		first = l
	}
	// no other name may share the instance
	shared := ""
	for n, x := range logIDs {
		if n != o.Name && x == l {
			shared = n
		}
	}
	logMu.Unlock()
	return fmt.Sprintf("nonnil=%v stable=%v same-as-first=%v shared-with=%q", l != nil, same, first == l, shared)
}

func bspOp(o Op) string {
	pool := byteslicepool.NewByteSlicePool(16)
	rng := lib.NewRand(o.Seed)
	var sb strings.Builder
	for i, c := range o.Cycles {
		bs := pool.Get(c.Cap)
		fmt.Fprintf(&sb, "[%d len=%d", i, len(bs))
		bs = pool.Resize(bs, c.Size)
		if !c.NoFill {
			pat := byte(rng.U64() | 1)
			for j := range bs {
				bs[j] = pat
			}
			ok := true
			for j := range bs {
				ok = ok && bs[j] == pat
			}
			fmt.Fprintf(&sb, " own=%v", ok)
		} else {
			h := sha256.Sum256(bs)
			fmt.Fprintf(&sb, " raw=%d:%s", len(bs), hex.EncodeToString(h[:4]))
		}
		k := c.Keep
		if k > len(bs) {
			k = len(bs)
		}
		pool.Put(bs[:k])
		sb.WriteString("]")
	}
	return sb.String()
}

// Run executes the operation against the real code.
func (o Op) Run() string {
	switch o.Kind {
	case "pipe":
		return o.Pipe.Run()
	case "crypto":
		return cryptoOp(o)
	case "cron":
		return cronOp(o)
	case "logger":
		return loggerOp(o)
	case "bsp":
		return bspOp(o)
	}
	return "unknown-op"
}

// Expected is the result the operation has when run alone, where that is known without running
// it ("" = take the solo run).
func (o Op) Expected() string {
	if o.Kind == "pipe" {
		return o.Pipe.Expected()
	}
	return ""
}

// ---------- generators ----------

var algs = []string{"A256KW", "A128CBC-NOPAD", "A192CBC-NOPAD", "A256CBC-NOPAD", "RSA-OAEP-256", "AES", "RSA"}
var ciphers = []string{"", "AES-GCM", "CHACHA20-POLY1305"}
var keyNames = []string{"k", "mykey", "vault/prod/key-0001", "a-much-longer-key-name-to-shift-the-header-lines-0123456789"}
var cronSpecs = []string{"* * * * *", "*/5 * * * *", "0 0 1 1 *", "15 3 * * 1-5", "CRON_TZ=UTC 5 4 * * *", "@daily", "@every 90s",
	"0 0 29 2 *", "61 * * * *", "* * *", "TZ=Nowhere/None * * * * *", "1,2,3 */2 1-7 JAN,MAR MON", ""}
var plainLens = []int{0, 1, 15, 16, 100, 511, 4096, 65535, 65536, 65537, 70000, 131072, 140000}

// GenPipe draws a pipeline; small selects messages below one segment.
func GenPipe(rng *lib.Rand, small bool) Pipe {
	n := plainLens[rng.Intn(len(plainLens))]
	if small {
		n = []int{0, 1, 15, 16, 100, 511, 4096}[rng.Intn(7)]
	} else if rng.Intn(3) == 0 {
		n = rng.Intn(200000)
	}
	p := Pipe{Kind: "pipe", PlainLen: n, PlainSeed: rng.U64(), Cipher: ciphers[rng.Intn(3)], Alg: algs[rng.Intn(len(algs))],
		KeyName: keyNames[rng.Intn(len(keyNames))], Mask: rng.Intn(256)}
	switch rng.Intn(4) {
	case 0:
		p.SlowUs = rng.Range(50, 3000)
	}
	switch rng.Intn(4) {
	case 0:
		p.Chunk = rng.Range(1, 64)
	case 1:
		p.Chunk = rng.Range(65, 5000)
	}
	return p
}

// GenOp draws one operation of the mixed workload.
func GenOp(rng *lib.Rand) Op {
	switch rng.Intn(10) {
	case 0, 1, 2, 3, 4:
		p := GenPipe(rng, rng.Intn(3) != 0)
		return Op{Kind: "pipe", Pipe: &p}
	case 5, 6:
		a := SymAlgs()
		return Op{Kind: "crypto", Alg: a[rng.Intn(len(a))], Seed: rng.U64(), Len: 16 * rng.Intn(40)}
	case 7:
		return Op{Kind: "cron", Spec: cronSpecs[rng.Intn(len(cronSpecs))]}
	case 8:
		return Op{Kind: "logger", Name: fmt.Sprintf("c08.logger.%d", rng.Intn(12))}
	default:
		n := rng.Range(1, 6)
		cy := make([]BspCycle, n)
		for i := range cy {
			cp := rng.Range(1, 96)
			sz := rng.Range(0, 120)
			cy[i] = BspCycle{Cap: cp, Size: sz, Keep: rng.Range(0, sz), NoFill: false}
		}
		return Op{Kind: "bsp", Seed: rng.U64(), Cycles: cy}
	}
}

// ---------- running a mixed workload ----------

// Diff is one operation whose result under concurrency differs from its solo result.
type Diff struct {
	Index int    `json:"index"`
	Op    Op     `json:"op"`
	Solo  string `json:"solo"`
	Conc  string `json:"concurrent"`
}

// Solo runs every operation alone, one after the other.
func Solo(ops []Op, deadline time.Duration) []string {
	out := make([]string, len(ops))
	for i, o := range ops {
		o := o
		out[i] = Guard(deadline, o.Run)
		if e := o.Expected(); e != "" && out[i] != e {
			out[i] = "SOLO-UNEXPECTED " + out[i]
		}
	}
	return out
}

// Concurrent runs the operations on `workers` goroutines (operation i on worker i%workers, each
// worker going through its operations `rounds` times) and returns every result that differs from
// the solo one.
func Concurrent(ops []Op, solo []string, workers, rounds int, deadline time.Duration) (diffs []Diff, evals int) {
	var mu sync.Mutex
	var wg sync.WaitGroup
	start := make(chan struct{})
	for w := 0; w < workers; w++ {
		wg.Add(1)
		go func(w int) {
			defer wg.Done()
			<-start
			for r := 0; r < rounds; r++ {
				for i := w; i < len(ops); i += workers {
					o := ops[i]
					got := Guard(deadline, o.Run)
					mu.Lock()
					evals++
					if got != solo[i] {
						diffs = append(diffs, Diff{i, o, solo[i], got})
					}
					mu.Unlock()
				}
			}
		}(w)
	}
	close(start)
	wg.Wait()
	return diffs, evals
}
