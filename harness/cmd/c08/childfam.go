package main

// Families that need fresh / expendable child processes:
//   - enc-filekey (cmd/c08/fkstress): 4×GOMAXPROCS goroutines, thousands of Encrypt STARTS each,
//     released by a barrier; no panic (a crash of the child is a violation too), no error, all
//     (file key, nonce prefix) pairs pairwise distinct; thorough: also built with -race.
//   - logger-output (cmd/c08/logout): two loggers with different outputs (pty / pipe / buffer)
//     log in both orders, each order in a fresh process; every logger's output must equal its
//     output in a process where it is the only logger (modulo timestamps).

import (
	"encoding/json"
	"fmt"
	"os"
	"os/exec"
	"path/filepath"
	"regexp"
	"strings"
	"time"

	"verifharness/lib"
)

const (
	findKeyReuse  = "enc-filekey-reused"
	findEncPanic  = "enc-encrypt-panic-under-concurrency"
	findLogOutput = "logger-output-depends-on-other-logger"
)

func childEnv() []string {
	return append(os.Environ(), "GOFLAGS=-mod=mod", "GOPROXY=off", "GOSUMDB=off", "GOTOOLCHAIN=local")
}

// buildChild builds ./cmd/c08/<name> against the tree under test.
func buildChild(f lib.Flags, name string, race bool) (string, error) {
	verif := os.Getenv("VERIF_DIR")
	if verif == "" {
		verif = "/verif"
	}
	repo := os.Getenv("VERIF_REPO")
	if repo == "" {
		repo = "/repo"
	}
	work := f.Work
	if work == "" {
		work = os.TempDir()
	}
	dir := filepath.Join(work, "c08_child_"+name)
	if race {
		dir += "_race"
	}
	_ = os.MkdirAll(dir, 0o755)
	bin := filepath.Join(dir, name)
	args := []string{"build", "-tags", "verif unit", "-o", bin}
	env := childEnv()
	if race {
		args = append(args, "-race")
		env = append(env, "CGO_ENABLED=1")
	}
	mf, err := modfileArgs(verif, repo, dir)
	if err != nil {
		return "", err
	}
	args = append(append(args, mf...), "./cmd/c08/"+name)
	cmd := exec.Command("go", args...)
	cmd.Dir = filepath.Join(verif, "harness")
	cmd.Env = env
	if out, err := cmd.CombinedOutput(); err != nil {
		return "", fmt.Errorf("go build ./cmd/c08/%s: %v: %s", name, err, tail(string(out), 500))
	}
	return bin, nil
}

func runChild(bin string, env []string, d time.Duration, args ...string) (stdout, stderr string, err error) {
	cmd := exec.Command(bin, args...)
	cmd.Env = env
	var so, se strings.Builder
	cmd.Stdout, cmd.Stderr = &so, &se
	if err = cmd.Start(); err != nil {
		return
	}
	done := make(chan error, 1)
	go func() { done <- cmd.Wait() }()
	select {
	case err = <-done:
	case <-time.After(d):
		_ = cmd.Process.Kill()
		err = fmt.Errorf("timeout after %s", d)
	}
	return so.String(), se.String(), err
}

type fkOut struct {
	Goroutines int      `json:"goroutines"`
	Starts     int      `json:"starts"`
	Errors     []string `json:"errors"`
	Panics     []string `json:"panics"`
	Dups       []string `json:"duplicates"`
	Distinct   int      `json:"distinct_pairs"`
}

func checkFileKeyStress(f lib.Flags, res *lib.Result) {
	per := 1000
	if f.Tier == "thorough" || f.Search {
		per = 6000
	}
	runOne := func(race bool, per int) {
		tag := "fkstress"
		if race {
			tag = "fkstress-race"
		}
		bin, err := buildChild(f, "fkstress", race)
		if err != nil {
			if race {
				res.Note("fkstress -race variant NOT run: " + err.Error())
				return
			}
			res.Disagree("child-build", map[string]any{"kind": "fkstress"}, "cmd/c08/fkstress builds against the tree under test", err.Error())
			return
		}
		c := map[string]any{"kind": "fkstress", "starts_per_goroutine": per, "goroutines": "4*GOMAXPROCS", "race": race}
		env := childEnv()
		if race {
			env = append(env, "GORACE=halt_on_error=0 exitcode=0")
		}
		so, se, err := runChild(bin, env, 10*time.Minute, "--per", fmt.Sprint(per))
		var o fkOut
		_ = json.Unmarshal([]byte(so), &o)
		res.Count(fmt.Sprintf("%s:per=%d", tag, per), true)
		res.Evaluations += o.Starts
		res.Distribution[tag+":encrypt-starts"] += o.Starts
		res.Distribution[tag+":goroutines"] = o.Goroutines
		if err != nil || so == "" {
			res.Violate(findEncPanic, fmt.Sprintf("the process running %d goroutines × %d concurrent Encrypt starts died (%v): %s", o.Goroutines, per, err, tail(se, 900)), c)
			return
		}
		if len(o.Panics) > 0 {
			res.Violate(findEncPanic, fmt.Sprintf("Encrypt panicked under concurrent starts (%d goroutines): %v", o.Goroutines, o.Panics), c)
		}
		if len(o.Errors) > 0 {
			res.Violate(findEncPanic, fmt.Sprintf("Encrypt failed under concurrent starts (%d goroutines), alone it does not: %v", o.Goroutines, o.Errors), c)
		}
		if len(o.Dups) > 0 || o.Distinct != o.Starts {
			res.Violate(findKeyReuse, fmt.Sprintf("%d documents, only %d distinct (file key, nonce prefix) pairs; repeated: %v", o.Starts, o.Distinct, o.Dups), c)
		}
		if race {
			n := strings.Count(se, "WARNING: DATA RACE")
			res.Distribution[tag+":reports"] = n
			if n > 0 {
				res.Violate("data-race-reported", "race detector, concurrent Encrypt starts (first 1500 bytes): "+tail2(se, 1500), c)
			}
		}
	}
	runOne(false, per)
	if f.Tier == "thorough" {
		runOne(true, 800)
	}
}

var (
	reStamp   = regexp.MustCompile(`\d{4}-\d\d-\d\dT[0-9:.]+(Z|[+-]\d\d:\d\d)`)
	reElapsed = regexp.MustCompile(`\[\d{4}\]`)
)

func normLog(s string) string {
	return reElapsed.ReplaceAllString(reStamp.ReplaceAllString(s, "<time>"), "[<secs>]")
}

func checkLoggerOutput(f lib.Flags, res *lib.Result) {
	bin, err := buildChild(f, "logout", false)
	if err != nil {
		res.Disagree("child-build", map[string]any{"kind": "logout"}, "cmd/c08/logout builds against the tree under test", err.Error())
		return
	}
	run := func(kinds, order string, js bool) map[string]string {
		args := []string{"--kinds", kinds, "--order", order}
		if js {
			args = append(args, "--json")
		}
		so, se, err := runChild(bin, childEnv(), 30*time.Second, args...)
		m := map[string]string{}
		if err != nil {
			m["died"] = fmt.Sprintf("%v: %s", err, tail(se, 400))
			return m
		}
		_ = json.Unmarshal([]byte(so), &m)
		return m
	}
	for _, kinds := range []string{"pty,buf", "buf,pty", "pty,pipe", "pipe,buf", "pty,pty"} {
		for _, js := range []bool{false, true} {
			c := map[string]any{"kind": "logout", "outputs": kinds, "json": js}
			solo1, solo2 := run(kinds, "1", js), run(kinds, "2", js)
			if u := solo1["unavailable"] + solo2["unavailable"]; u != "" {
				res.Note("logger-output family: output kind not available here, skipped: " + u)
				res.Hit("logout:unavailable")
				continue
			}
			for _, order := range []string{"12", "21"} {
				got := run(kinds, order, js)
				res.Count(fmt.Sprintf("logout:%s:%s:json=%v", kinds, order, js), true)
				res.Hit("logout:" + kinds)
				if d := got["died"] + solo1["died"] + solo2["died"]; d != "" {
					res.Violate(findLogOutput, "logger child process died: "+d, c)
					continue
				}
				for _, k := range []string{"1", "2"} {
					solo := solo1
					if k == "2" {
						solo = solo2
					}
					if normLog(got[k]) != normLog(solo[k]) {
						res.Violate(findLogOutput, fmt.Sprintf("logger %s (outputs %s, logging order %s, json=%v): alone in a process it writes %q, with the other logger in the process %q", k, kinds, order, js, normLog(solo[k]), normLog(got[k])),
							map[string]any{"kind": "logout", "outputs": kinds, "order": order, "json": js})
					}
				}
			}
		}
	}
}
