package main

// "Several streams open at once" (cmd/c08/openmany, a child process; public API only).
//
// The other enc families drain a stream right after opening it (or hold one pipeline at a hook /
// at a Put): then the goroutine Decrypt/Encrypt started has usually performed its first read
// before anybody else touches the buffer pool. Here ALL streams of a case are opened first and
// drained afterwards — in every order for 2–3 streams, sampled orders for 4–5 —, one after the
// other, round-robin in pieces, or by one goroutine per stream; short, exactly-one-segment and
// multi-segment documents; readers that deliver header+body in one Read (bytes.Reader, a plain
// one-shot io.Reader with and without io.EOF on the last bytes, an *os.File), chunked readers
// (chunk below / around / above the header length), and a Decrypt fed straight from an undrained
// Encrypt; optionally another user of the same pool between two opens (a started or complete
// Encrypt, a complete pipeline, a bare Get/scribble/Put). Each case runs under GOMAXPROCS=1 (one
// per-P slot in sync.Pool: the buffer one call Puts is the buffer the next Get obtains, and a
// goroutine just started does not run before its creator blocks) and under the default setting.
//
// Monitor: every stream yields what it yields as the only stream of the process — which, the
// documents being intact and the keys right, is its own plaintext (a document that decrypts to
// its own message) and no error. finding id: enc-open-streams-interfere.

import (
	"bufio"
	"encoding/json"
	"fmt"
	"os"
	"path/filepath"
	"regexp"
	"strconv"
	"strings"
	"time"

	"verifharness/cmd/c08/wl"
	"verifharness/lib"
)

const findOpenMany = "enc-open-streams-interfere"

type omStream struct {
	Pipe   wl.Pipe `json:"pipe"`
	Enc    bool    `json:"is_encrypt"`
	Reader string  `json:"reader"`
	Chunk  int     `json:"chunk,omitempty"`
}

type omCase struct {
	Kind    string     `json:"kind"`
	Streams []omStream `json:"streams"`
	Order   []int      `json:"drain_order"`
	Drain   string     `json:"drain"`
	Piece   int        `json:"piece,omitempty"`
	Between string     `json:"between,omitempty"`
	Yield   bool       `json:"yield_between_opens,omitempty"`
	Unwrap  string     `json:"unwrap"` // what the UnwrapKeyFn callbacks do: "plain" (return at once) | "yield" (runtime.Gosched: goroutines of streams opened earlier run in the middle of this Decrypt)
	Procs   int        `json:"gomaxprocs,omitempty"` // replay only: the setting the failure was seen under (0 = default)
}

type omResult struct {
	Index   int      `json:"index"`
	Case    omCase   `json:"case"`
	Procs   int      `json:"gomaxprocs"`
	Solo    []string `json:"solo"`
	Got     []string `json:"got"`
	Want    []string `json:"want"`
	Between string   `json:"between_result"`
	Note    string   `json:"note"`
	DocCut  []string `json:"doc_cut_hex"`
}

func perms(n int) [][]int {
	if n == 1 {
		return [][]int{{0}}
	}
	var out [][]int
	for _, p := range perms(n - 1) {
		for pos := 0; pos <= len(p); pos++ {
			q := append(append(append([]int(nil), p[:pos]...), n-1), p[pos:]...)
			out = append(out, q)
		}
	}
	return out
}

var omReaders = []string{"bytes", "oneshot", "eofshot", "file", "chunk", "encpipe"}
var omLens = []int{0, 1, 100, 300, 4096, 65535, 65536, 65537, 70000, 140000}
var omChunks = []int{1, 7, 64, 200, 511, 512, 513, 4096, 65536, 70000}

func omPipe(rng *lib.Rand, n int, i int) wl.Pipe {
	p := wl.GenPipe(rng, true)
	p.PlainLen = n
	p.SlowUs, p.Chunk = -1, 0
	p.KeyName = fmt.Sprintf("key-%d", i)
	return p
}

func genOpenMany(rng *lib.Rand, tier string, search bool) []omCase {
	var cases []omCase
	mk := func(lens []int, readers []string, order []int, drain string) omCase {
		c := omCase{Kind: "openmany", Order: order, Drain: drain}
		for i, n := range lens {
			s := omStream{Pipe: omPipe(rng, n, i), Reader: readers[i%len(readers)]}
			if s.Reader == "chunk" {
				s.Chunk = omChunks[rng.Intn(len(omChunks))]
			}
			c.Streams = append(c.Streams, s)
		}
		if drain == "rr" {
			c.Piece = []int{1, 16, 1000, 65536}[rng.Intn(4)]
		}
		return c
	}
	// directed, smallest first: two short documents, every reader kind, both orders, unwrap
	// callbacks that return at once / that yield the processor
	for _, uw := range []string{"plain", "yield"} {
		for _, rd := range omReaders {
			for _, ord := range perms(2) {
				c := mk([]int{100, 300}, []string{rd}, ord, "whole")
				c.setUnwrap(uw)
				cases = append(cases, c)
			}
		}
	}
	// every drain order of three streams; lengths around the segment size; mixed readers
	for k, ord := range perms(3) {
		cases = append(cases, mk([]int{omLens[(k*3)%len(omLens)], omLens[(k*3+4)%len(omLens)], omLens[(k*3+8)%len(omLens)]},
			[]string{omReaders[k%5], omReaders[(k+1)%5], omReaders[(k+2)%5]}, ord, []string{"whole", "rr", "conc"}[k%3]))
	}
	// chunked readers: every chunk size, against a one-Read neighbour
	for k, ch := range omChunks {
		c := mk([]int{300, 70000}, []string{"chunk", "bytes"}, perms(2)[k%2], "whole")
		c.Streams[0].Chunk = ch
		cases = append(cases, c)
	}
	// another user of the pool between the opens; Encrypt streams among the Decrypt streams
	for k, bt := range []string{"encrypt-start", "encrypt-full", "pipeline", "poolcycle"} {
		c := mk([]int{100, 65536 + k, 4096}, []string{"bytes", "oneshot", "file"}, perms(3)[k], "whole")
		c.Between = bt
		cases = append(cases, c)
		c2 := mk([]int{300, 70000, 100}, []string{"bytes"}, perms(3)[5-k], []string{"whole", "rr"}[k%2])
		c2.Streams[1].Enc = true
		c2.Between = bt
		cases = append(cases, c2)
	}
	// the other order of the race: the goroutine of the earlier stream runs before the next open
	for _, ord := range perms(2) {
		c := mk([]int{100, 300}, []string{"bytes"}, ord, "whole")
		c.Yield = true
		cases = append(cases, c)
	}
	// cases the model can follow step by step (T2 `open`): Decrypt streams over prepared documents,
	// callbacks without scheduling point, nothing in between, drained one after the other
	nm := 20
	if tier == "thorough" {
		nm = 80
	}
	for i := 0; i < nm; i++ {
		k := rng.Range(2, 4)
		lens := make([]int, k)
		rds := make([]string, k)
		for j := range lens {
			lens[j] = omLens[rng.Intn(len(omLens))]
			rds[j] = omReaders[rng.Intn(5)]
		}
		ps := perms(k)
		c := mk(lens, rds, ps[rng.Intn(len(ps))], "whole")
		c.setUnwrap("plain")
		cases = append(cases, c)
	}
	// generated
	n := 40
	if tier == "thorough" {
		n = 300
	}
	if search {
		n *= 3
	}
	for i := 0; i < n; i++ {
		k := rng.Range(2, 5)
		lens := make([]int, k)
		rds := make([]string, k)
		for j := range lens {
			lens[j] = omLens[rng.Intn(len(omLens))]
			if rng.Intn(4) == 0 {
				lens[j] = rng.Intn(150000)
			}
			rds[j] = omReaders[rng.Intn(len(omReaders))]
		}
		ps := perms(k)
		c := mk(lens, rds, ps[rng.Intn(len(ps))], []string{"whole", "whole", "rr", "conc"}[rng.Intn(4)])
		for j := range c.Streams {
			if rng.Intn(6) == 0 && c.Streams[j].Reader != "encpipe" {
				c.Streams[j].Enc = true
			}
		}
		if rng.Intn(3) == 0 {
			c.Between = []string{"encrypt-start", "encrypt-full", "pipeline", "poolcycle"}[rng.Intn(4)]
		}
		c.Yield = rng.Intn(5) == 0
		cases = append(cases, c)
	}
	for i := range cases {
		if cases[i].Unwrap == "" {
			cases[i].setUnwrap([]string{"plain", "yield"}[i%2])
		}
	}
	return cases
}

func (c *omCase) setUnwrap(kind string) {
	c.Unwrap = kind
	for i := range c.Streams {
		c.Streams[i].Pipe.SlowUs = -1
		if kind == "yield" {
			c.Streams[i].Pipe.SlowUs = 0
		}
	}
}

var reCaseLine = regexp.MustCompile(`CASE (\d+)\s*$`)

// runOpenMany runs the cases in the child under the given GOMAXPROCS ("" = default).
func runOpenMany(f lib.Flags, res *lib.Result, drv *lib.Drv, bin string, cases []omCase, procs string, reps int, tag string) {
	runOpenManyEnv(f, res, drv, bin, cases, procs, reps, tag, false)
}

func runOpenManyEnv(f lib.Flags, res *lib.Result, drv *lib.Drv, bin string, cases []omCase, procs string, reps int, tag string, race bool) {
	work := f.Work
	if work == "" {
		work = os.TempDir()
	}
	dir := filepath.Join(work, "c08_openmany_"+tag)
	_ = os.MkdirAll(dir, 0o755)
	cf, of := filepath.Join(dir, "cases.json"), filepath.Join(dir, "out.jsonl")
	cb, _ := json.Marshal(cases)
	_ = os.WriteFile(cf, cb, 0o644)
	env := childEnv()
	if procs != "" {
		env = append(env, "GOMAXPROCS="+procs)
	}
	if race {
		env = append(env, "GORACE=halt_on_error=0 exitcode=0")
	}
	_, se, err := runChild(bin, env, 15*time.Minute, "--cases", cf, "--out", of, "--reps", strconv.Itoa(reps))
	seen := 0
	if fh, e := os.Open(of); e == nil {
		sc := bufio.NewScanner(fh)
		sc.Buffer(make([]byte, 1<<20), 1<<26)
		for sc.Scan() {
			var r omResult
			if json.Unmarshal(sc.Bytes(), &r) != nil {
				continue
			}
			seen++
			judgeOpenMany(res, r, procs)
			if procs == "1" {
				modelOpenMany(res, drv, r)
			}
		}
		fh.Close()
	}
	if err != nil {
		// the process died (a panic in a goroutine of the library, a fatal error) or hangs as a whole
		idx := -1
		lines := strings.Split(strings.TrimSpace(se), "\n")
		for i := len(lines) - 1; i >= 0; i-- {
			if m := reCaseLine.FindStringSubmatch(lines[i]); m != nil {
				idx, _ = strconv.Atoi(m[1])
				break
			}
		}
		var c any = map[string]any{"kind": "openmany"}
		if idx >= 0 && idx < len(cases) {
			cc := cases[idx]
			cc.Procs, _ = strconv.Atoi(procs)
			c = cc
		}
		res.Violate(findOpenMany, fmt.Sprintf("the process holding several open streams died / hangs (GOMAXPROCS=%s, %v) in case %d: %s", orDefault(procs), err, idx, tail(stripCaseLines(se), 900)), c)
	}
	res.Distribution["openmany:results-gomaxprocs="+orDefault(procs)] += seen
	if race {
		n := strings.Count(se, "WARNING: DATA RACE")
		res.Distribution["openmany-race:reports"] += n
		if n > 0 {
			res.Violate("data-race-reported", fmt.Sprintf("race detector, several streams open at once (GOMAXPROCS=%s; first 1500 bytes): %s", orDefault(procs), tail2(stripCaseLines(se), 1500)), map[string]any{"kind": "openmany"})
		}
	}
}

func orDefault(s string) string {
	if s == "" {
		return "default"
	}
	return s
}

func stripCaseLines(s string) string {
	var out []string
	for _, l := range strings.Split(s, "\n") {
		if !reCaseLine.MatchString(l) {
			out = append(out, l)
		}
	}
	return strings.Join(out, "\n")
}

func judgeOpenMany(res *lib.Result, r omResult, procs string) {
	c := r.Case
	key, _ := json.Marshal(c)
	res.Count("openmany:"+string(key), len(c.Streams) >= 2 && r.Note == "")
	res.Hit(fmt.Sprintf("openmany:streams=%d", len(c.Streams)))
	res.Hit("openmany:drain=" + c.Drain)
	res.Hit("openmany:unwrap=" + c.Unwrap)
	res.Hit("openmany:gomaxprocs=" + orDefault(procs))
	if c.Between != "" {
		res.Hit("openmany:between=" + c.Between)
	}
	for _, s := range c.Streams {
		kind := "dec"
		if s.Enc {
			kind = "enc"
		}
		res.Hit("openmany:" + kind + ":reader=" + s.Reader)
		switch {
		case s.Pipe.PlainLen < 65536:
			res.Hit("openmany:len<segment")
		case s.Pipe.PlainLen == 65536:
			res.Hit("openmany:len=segment")
		default:
			res.Hit("openmany:len>segment")
		}
	}
	rc := c
	rc.Procs, _ = strconv.Atoi(procs)
	if r.Note != "" {
		res.Violate(findOpenMany, fmt.Sprintf("case with %d streams open at once (GOMAXPROCS=%s): %s", len(c.Streams), orDefault(procs), r.Note), rc)
		return
	}
	for i := range c.Streams {
		if r.Solo[i] != r.Want[i] {
			res.Violate(findSolo, fmt.Sprintf("stream %d as the only stream of the process: %q, expected %q", i, r.Solo[i], r.Want[i]), rc)
			return
		}
	}
	if r.Between != "" {
		res.Violate(findOpenMany, fmt.Sprintf("the %s run between two opens (alone: ok) with %d streams open: %s", c.Between, len(c.Streams), r.Between), rc)
	}
	for i, s := range c.Streams {
		if r.Got[i] != r.Solo[i] {
			what := "Decrypt of an intact document"
			if s.Enc {
				what = "Encrypt"
			}
			res.Violate(findOpenMany, fmt.Sprintf("stream %d of %d (%s, %d plaintext bytes, reader %s%s), all opened before any was read, drained %s in order %v, GOMAXPROCS=%s: as the only stream of the process %q; now %q",
				i, len(c.Streams), what, s.Pipe.PlainLen, s.Reader, chunkStr(s), c.Drain, c.Order, orDefault(procs), r.Solo[i], r.Got[i]), rc)
			return
		}
	}
}

// modelOpenMany: T2 for the "opened first, drained later" schedule. Under GOMAXPROCS=1 the real
// run IS the model's `openAllThenDrain` (opens back to back, the pool handing out the buffer Put
// last, goroutines run when the drains start, in drain order) for cases made of Decrypt streams
// over prepared documents only, nothing in between, unwrap callbacks without a scheduling point,
// drained one after the other. The model gets
// every document's header + first 200 body bytes and each reader's chunk size; its answer (which
// streams observe something else than alone) must be the implementation's.
func modelOpenMany(res *lib.Result, drv *lib.Drv, r omResult) {
	c := r.Case
	if drv == nil || r.Note != "" || c.Between != "" || c.Yield || c.Unwrap != "plain" || c.Drain != "whole" || len(r.DocCut) != len(c.Streams) {
		return
	}
	var docs, chunks, order, impl []string
	for i, s := range c.Streams {
		if s.Enc || r.DocCut[i] == "" {
			return
		}
		k := 0
		switch s.Reader {
		case "bytes", "oneshot", "eofshot", "file":
		case "chunk":
			k = s.Chunk
		default:
			return
		}
		docs = append(docs, r.DocCut[i])
		chunks = append(chunks, strconv.Itoa(k))
		impl = append(impl, sameStr(r.Got[i] == r.Solo[i]))
	}
	for _, o := range c.Order {
		order = append(order, strconv.Itoa(o))
	}
	line := fmt.Sprintf("open docs=%s chunks=%s order=%s", strings.Join(docs, ","), strings.Join(chunks, "."), strings.Join(order, ".")) + strings.Replace(modelVariant, "variant=prefix", "variant=fixed", 1)
	out, err := drv.Ask(line)
	if err != nil {
		res.Disagree("driver", c, "answers", err.Error())
		return
	}
	res.Traces++
	res.Hit("openmany:model-compared")
	want := "streams=" + strings.Join(impl, ",") + " finished=1"
	if strings.TrimSpace(out) != want {
		res.Disagree("streams opened first and drained later (GOMAXPROCS=1): which streams observe something else than alone", c, strings.TrimSpace(out), want)
	}
}

func chunkStr(s omStream) string {
	if s.Reader == "chunk" {
		return fmt.Sprintf("/%d", s.Chunk)
	}
	return ""
}

func checkOpenMany(f lib.Flags, res *lib.Result, drv *lib.Drv, rng *lib.Rand) {
	bin, err := buildChild(f, "openmany", false)
	if err != nil {
		res.Disagree("child-build", map[string]any{"kind": "openmany"}, "cmd/c08/openmany builds against the tree under test", err.Error())
		return
	}
	cases := genOpenMany(rng, f.Tier, f.Search)
	t0 := time.Now()
	runOpenMany(f, res, drv, bin, cases, "1", 1, "p1")
	runOpenMany(f, res, drv, bin, cases, "", 1, "pd")
	if len(cases) > 0 {
		res.Sample(cases[0])
	}
	res.Note(fmt.Sprintf("open-many family: %d cases × GOMAXPROCS {1, default} in %.1fs", len(cases), time.Since(t0).Seconds()))
	if f.Tier == "thorough" {
		// the same schedules under the race detector (supporting search: absence decides nothing)
		rbin, err := buildChild(f, "openmany", true)
		if err != nil {
			res.Note("open-many -race variant NOT run: " + err.Error())
			return
		}
		k := len(cases)
		if k > 80 {
			k = 80
		}
		runOpenManyEnv(f, res, nil, rbin, cases[:k], "1", 1, "race1", true)
		runOpenManyEnv(f, res, nil, rbin, cases[:k], "", 1, "raced", true)
	}
}

func replayOpenMany(f lib.Flags, res *lib.Result, drv *lib.Drv, raw json.RawMessage) {
	var c omCase
	if err := json.Unmarshal(raw, &c); err != nil || len(c.Streams) == 0 {
		// no concrete case stored (the child died before naming one): run the family again
		checkOpenMany(f, res, drv, lib.NewRand(f.Seed*1000003+8))
		return
	}
	bin, err := buildChild(f, "openmany", false)
	if err != nil {
		res.Disagree("child-build", map[string]any{"kind": "openmany"}, "cmd/c08/openmany builds against the tree under test", err.Error())
		return
	}
	procs := ""
	if c.Procs > 0 {
		procs = strconv.Itoa(c.Procs)
	}
	c.Procs = 0
	runOpenMany(f, res, drv, bin, []omCase{c}, procs, 20, "replay")
}
