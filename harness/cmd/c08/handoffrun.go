package main

// Hand-off scenarios (deterministic use-after-Put detection): see cmd/c08/handoff/main.go. This
// side generates, from the CURRENT source of schemes/enc/v1, copies in which every
// BufPool.Get()/BufPool.Put(x) call goes through a callback wrapper, builds cmd/c08/handoff with
// them as overlay, runs it with GOMAXPROCS=1 and judges the results: with B working in the very
// buffer A has just Put, both A's and B's results must equal their solo results.
// finding id: enc-buffer-used-after-put.

import (
	"encoding/json"
	"fmt"
	"os"
	"os/exec"
	"path/filepath"
	"strings"
	"time"

	"verifharness/cmd/c08/wl"
	"verifharness/lib"
)

const findAfterPut = "enc-buffer-used-after-put"

type handoffCase struct {
	Kind    string  `json:"kind"`
	A       wl.Pipe `json:"a"`
	AEnc    bool    `json:"a_is_encrypt"`
	Trigger int     `json:"trigger_put"`
	B       wl.Pipe `json:"b"`
	BEnc    bool    `json:"b_is_encrypt"`
	First   int     `json:"b_first_chunk"`
}

type handoffResult struct {
	Case   handoffCase `json:"case"`
	Fired  bool        `json:"fired"`
	Shared bool        `json:"shared"`
	ASolo  string      `json:"a_solo"`
	AGot   string      `json:"a_got"`
	BSolo  string      `json:"b_solo"`
	BGot   string      `json:"b_got"`
	Puts   int         `json:"puts_seen"`
}

func checkHandoff(f lib.Flags, res *lib.Result) {
	verif := os.Getenv("VERIF_DIR")
	if verif == "" {
		verif = "/verif"
	}
	repo := os.Getenv("VERIF_REPO")
	if repo == "" {
		repo = "/repo"
	}
	work := f.Work
	if work == "" {
		work = os.TempDir()
	}
	dir := filepath.Join(work, "c08_handoff")
	_ = os.MkdirAll(dir, 0o755)
	// 1. instrumented copies of the package's files
	pkg := filepath.Join(repo, "schemes/enc/v1")
	repl := map[string]string{
		filepath.Join(pkg, "zz_verif_c08_handoff.go"): filepath.Join(verif, "harness/overlay/enc_c08_handoff_zz_verif.go"),
	}
	ents, _ := os.ReadDir(pkg)
	gets, puts := 0, 0
	for _, e := range ents {
		if !strings.HasSuffix(e.Name(), ".go") || strings.HasSuffix(e.Name(), "_test.go") {
			continue
		}
		src, err := os.ReadFile(filepath.Join(pkg, e.Name()))
		if err != nil {
			continue
		}
		s := string(src)
		g, p := strings.Count(s, "BufPool.Get()"), strings.Count(s, "BufPool.Put(")
		if g+p == 0 {
			continue
		}
		gets += g
		puts += p
		s = strings.ReplaceAll(s, "BufPool.Get()", "verifC08Get()")
		s = strings.ReplaceAll(s, "BufPool.Put(", "verifC08Put(")
		out := filepath.Join(dir, e.Name())
		if err := os.WriteFile(out, []byte(s), 0o644); err != nil {
			res.Note("handoff: " + err.Error())
			return
		}
		repl[filepath.Join(pkg, e.Name())] = out
	}
	res.Distribution["handoff:instrumented-get-sites"] = gets
	res.Distribution["handoff:instrumented-put-sites"] = puts
	if gets == 0 || puts == 0 {
		res.Disagree("hook-sites", map[string]any{"kind": "handoff"}, "schemes/enc/v1 calls BufPool.Get()/BufPool.Put(x)", fmt.Sprintf("%d Get and %d Put call sites found", gets, puts))
		return
	}
	ov := filepath.Join(dir, "overlay.json")
	ob, _ := json.Marshal(map[string]any{"Replace": repl})
	_ = os.WriteFile(ov, ob, 0o644)
	// 2. build
	bin := filepath.Join(dir, "handoff")
	env := append(os.Environ(), "GOFLAGS=-mod=mod", "GOPROXY=off", "GOSUMDB=off", "GOTOOLCHAIN=local")
	args := []string{"build", "-tags", "verif unit", "-overlay", ov, "-o", bin}
	mfArgs, mfErr := modfileArgs(verif, repo, dir)
	if mfErr != nil {
		res.Disagree("hook-sites", map[string]any{"kind": "handoff"}, "a go.mod pointing at the tree under test can be written", mfErr.Error())
		return
	}
	args = append(args, mfArgs...)
	args = append(args, "./cmd/c08/handoff")
	cmd := exec.Command("go", args...)
	cmd.Dir = filepath.Join(verif, "harness")
	cmd.Env = env
	t0 := time.Now()
	if out, err := cmd.CombinedOutput(); err != nil {
		res.Disagree("hook-sites", map[string]any{"kind": "handoff"}, "the instrumented copy of schemes/enc/v1 builds", "go build failed: "+tail(string(out), 600))
		return
	}
	// 3. cases
	var cases []handoffCase
	small := wl.Pipe{Kind: "pipe", PlainLen: 300, PlainSeed: f.Seed*7 + 1, Alg: "A256KW", KeyName: "key-A", Mask: 17}
	two := wl.Pipe{Kind: "pipe", PlainLen: 70000, PlainSeed: f.Seed*7 + 2, Cipher: "CHACHA20-POLY1305", Alg: "RSA-OAEP-256", KeyName: "key-A2", Mask: 33}
	bs := []wl.Pipe{
		{Kind: "pipe", PlainLen: 5000, PlainSeed: f.Seed*7 + 3, Cipher: "AES-GCM", Alg: "A256CBC-NOPAD", KeyName: "another-key-B", Mask: 200},
		{Kind: "pipe", PlainLen: 66000, PlainSeed: f.Seed*7 + 4, Cipher: "CHACHA20-POLY1305", Alg: "A128CBC-NOPAD", KeyName: "k", Mask: 99},
	}
	for _, a := range []wl.Pipe{small, two} {
		for _, b := range bs {
			for _, benc := range []bool{true, false} {
				first := 700 // for a Decrypt B: the header (≈200 bytes) and the first bytes of the body
				if benc {
					first = b.PlainLen / 2
				}
				cases = append(cases,
					handoffCase{"handoff", a, false, 1, b, benc, first}, // after readHeader's Put
					handoffCase{"handoff", a, false, 2, b, benc, first}, // after processSegments' Put (Decrypt)
					handoffCase{"handoff", a, true, 1, b, benc, first})  // after processSegments' Put (Encrypt)
			}
		}
	}
	if f.Tier != "thorough" && !f.Search {
		cases = cases[:12]
	}
	cf := filepath.Join(dir, "cases.json")
	cb, _ := json.Marshal(cases)
	_ = os.WriteFile(cf, cb, 0o644)
	of := filepath.Join(dir, "out.json")
	run := exec.Command(bin, "--cases", cf, "--out", of)
	run.Env = append(env, "GOMAXPROCS=1")
	done := make(chan error, 1)
	var ro []byte
	go func() {
		var e error
		ro, e = run.CombinedOutput()
		done <- e
	}()
	select {
	case err := <-done:
		if err != nil {
			res.Violate(findAfterPut, "the hand-off run died: "+err.Error()+": "+tail(string(ro), 600), map[string]any{"kind": "handoff"})
			return
		}
	case <-time.After(10 * time.Minute):
		_ = run.Process.Kill()
		res.Violate(findAfterPut, "the hand-off run hangs", map[string]any{"kind": "handoff"})
		return
	}
	var rs []handoffResult
	if b, err := os.ReadFile(of); err == nil {
		_ = json.Unmarshal(b, &rs)
	}
	shared := 0
	for _, r := range rs {
		key, _ := json.Marshal(r.Case)
		res.Count("handoff:"+string(key), r.Fired && r.Shared)
		res.Hit(fmt.Sprintf("handoff:fired=%v,shared=%v", r.Fired, r.Shared))
		if r.Fired && r.Shared {
			shared++
			res.Traces++
		}
		if r.AGot != r.ASolo {
			res.Violate(findAfterPut, fmt.Sprintf("pipeline A: alone %q; with pipeline B handed the buffer right after A's Put #%d (B in A's buffer: %v): %q", r.ASolo, r.Case.Trigger, r.Shared, r.AGot), r.Case)
		}
		if r.Fired && r.BGot != r.BSolo {
			res.Violate(findAfterPut, fmt.Sprintf("pipeline B took the buffer pipeline A had just Put (Put #%d of A, same buffer: %v) and had delivered %d bytes into it when A went on: alone %q, now %q", r.Case.Trigger, r.Shared, r.Case.First, r.BSolo, r.BGot), r.Case)
		}
	}
	if len(rs) > 0 {
		res.Sample(rs[0])
	}
	if shared == 0 {
		res.Disagree("hook-sites", map[string]any{"kind": "handoff"}, "with GOMAXPROCS=1 pipeline B obtains the buffer pipeline A has just Put", fmt.Sprintf("never happened in %d cases", len(rs)))
	}
	res.Note(fmt.Sprintf("hand-off variant: built and ran in %.1fs, %d cases, %d with B in A's buffer", time.Since(t0).Seconds(), len(rs), shared))
}

// modfileArgs: nested `go build`s must compile the tree under test. bin/check passes it in
// VERIF_REPO; when that is not /repo (a scratch tree), the harness module's `replace
// github.com/dapr/kit => /repo` is redirected through a temporary go.mod (+ the tree's go.sum).
func modfileArgs(verif, repo, dir string) ([]string, error) {
	if mf := os.Getenv("C08_MODFILE"); mf != "" {
		return []string{"-modfile=" + mf}, nil
	}
	if filepath.Clean(repo) == "/repo" {
		return nil, nil
	}
	gm, err := os.ReadFile(filepath.Join(verif, "harness", "go.mod"))
	if err != nil {
		return nil, err
	}
	md := filepath.Join(dir, "modfile")
	if err := os.MkdirAll(md, 0o755); err != nil {
		return nil, err
	}
	out := strings.ReplaceAll(string(gm), "=> /repo", "=> "+repo)
	if err := os.WriteFile(filepath.Join(md, "go.mod"), []byte(out), 0o644); err != nil {
		return nil, err
	}
	sum, err := os.ReadFile(filepath.Join(repo, "go.sum"))
	if err != nil {
		return nil, err
	}
	if err := os.WriteFile(filepath.Join(md, "go.sum"), sum, 0o644); err != nil {
		return nil, err
	}
	return []string{"-modfile=" + filepath.Join(md, "go.mod")}, nil
}
