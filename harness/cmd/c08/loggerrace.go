package main

// logger registry, first-look-up race family: K goroutines released by a barrier call
// NewLogger(sameFreshName) — a fresh name per round, many rounds.  Monitor (independent of the
// model): all returned loggers are the SAME instance, that instance is the registered one
// (getLoggers), and an option applied through ApplyOptionsToLoggers is observed on every returned
// logger.  finding id: logger-registry-duplicate-instance.

import (
	"fmt"
	"os"
	"sync"
	"time"

	"github.com/dapr/kit/logger"

	"verifharness/cmd/c08/wl"
	"verifharness/lib"
)

const findLoggerDup = "logger-registry-duplicate-instance"

type loggerRaceCase struct {
	Kind       string `json:"kind"` // logger-race
	Goroutines int    `json:"goroutines"`
	Rounds     int    `json:"rounds"`
}

// runLoggerRace returns the first complaint ("" = none) and how many rounds ran.
func runLoggerRace(c loggerRaceCase, seed uint64) (string, int) {
	for r := 0; r < c.Rounds; r++ {
		name := fmt.Sprintf("c08race.%d.%d.%d", seed, os.Getpid(), r)
		got := make([]logger.Logger, c.Goroutines)
		var ready, done sync.WaitGroup
		start := make(chan struct{})
		for g := 0; g < c.Goroutines; g++ {
			ready.Add(1)
			done.Add(1)
			go func(g int) {
				defer done.Done()
				ready.Done()
				<-start
				got[g] = logger.NewLogger(name)
			}(g)
		}
		ready.Wait()
		close(start)
		done.Wait()
		for g := 1; g < c.Goroutines; g++ {
			if got[g] != got[0] {
				reg := logger.VerifC08GetLoggers()[name]
				opts := logger.DefaultOptions()
				_ = opts.SetOutputLevel("debug")
				_ = logger.ApplyOptionsToLoggers(&opts)
				seen := ""
				for k, l := range got {
					seen += fmt.Sprintf(" g%d:registered=%v,debug=%v", k, l == reg, l.IsOutputLevelEnabled(logger.DebugLevel))
				}
				opts = logger.DefaultOptions()
				_ = logger.ApplyOptionsToLoggers(&opts)
				return fmt.Sprintf("round %d: %d goroutines doing the first NewLogger(%q) at the same moment got different instances; after ApplyOptionsToLoggers(debug):%s", r, c.Goroutines, name, seen), r + 1
			}
		}
		reg := logger.VerifC08GetLoggers()[name]
		if reg != got[0] {
			return fmt.Sprintf("round %d: the instance NewLogger(%q) returned is not the registered one", r, name), r + 1
		}
		if r%16 == 0 {
			opts := logger.DefaultOptions()
			_ = opts.SetOutputLevel("debug")
			_ = logger.ApplyOptionsToLoggers(&opts)
			bad := -1
			for k, l := range got {
				if !l.IsOutputLevelEnabled(logger.DebugLevel) {
					bad = k
				}
			}
			opts = logger.DefaultOptions()
			_ = logger.ApplyOptionsToLoggers(&opts)
			if bad >= 0 {
				return fmt.Sprintf("round %d: ApplyOptionsToLoggers(debug) did not reach the logger goroutine %d got from NewLogger(%q)", r, bad, name), r + 1
			}
		}
	}
	return "", c.Rounds
}

func checkLoggerRace(res *lib.Result, rng *lib.Rand, seed uint64, budget int) {
	for _, k := range []int{2, 4, 8, 16} {
		c := loggerRaceCase{"logger-race", k, 60 * budget}
		var complaint string
		var n int
		g := wl.Guard(120*time.Second, func() string {
			complaint, n = runLoggerRace(c, seed*100+uint64(k))
			return "ok"
		})
		res.Count(fmt.Sprintf("logger-race:k=%d,rounds=%d", k, c.Rounds), true)
		res.Evaluations += n - 1
		res.Distribution[fmt.Sprintf("logger-race:k=%d:rounds", k)] += n
		if g != "ok" {
			res.Violate(findLoggerDup, "NewLogger barrier rounds: "+g, c)
			continue
		}
		if complaint != "" {
			res.Violate(findLoggerDup, complaint, c)
		}
	}
}
