package main

// "Overlapping calls of the same crypto entry point on independent keys and messages"
// (cmd/c08/cryptoov, a child process; public API of crypto, crypto/aeskw, crypto/aescbcaead,
// crypto/padding, crypto/pem only).
//
// The mixed workload of this harness runs crypto calls next to pipelines, parses and look-ups;
// two calls of the SAME entry point with the same algorithm are then rarely inside the library
// at the same instant. Here every case is G goroutines (2..16) — each with its own key, messages,
// nonces, labels and cipher objects — that run round trips of one algorithm (or, alg "*", of all
// algorithms of one family spread over the goroutines) in a tight loop behind a barrier, under
// the default GOMAXPROCS and under GOMAXPROCS=2, in three orders: every goroutine loops
// A;B (roundtrip), all A calls then all B calls (burst: A‖A, B‖B), half the goroutines only B on
// inputs prepared alone while the others loop A;B (split: A‖B). Families: asymmetric encryption
// (every algorithm SupportedAsymmetricAlgorithms() of the tree under test lists — RSA1_5 and the
// four OAEP variants — through EncryptPublicKey/DecryptPrivateKey and through Encrypt/Decrypt),
// signatures (SupportedSignatureAlgorithms(): RS/PS/ES 256-384-512, EdDSA; sign, verify, verify
// of another digest), symmetric (SupportedSymmetricAlgorithms(): CBC with and without padding,
// GCM, CBC-HMAC, AES-KW, (X)ChaCha20-Poly1305 and their KW names, through
// EncryptSymmetric/DecryptSymmetric and Encrypt/Decrypt), aeskw.Wrap/Unwrap, the four
// aescbcaead constructors, PadPKCS7/UnpadPKCS7, ParseKey/SerializeKey on 16 key forms,
// pem.EncodePrivateKey/DecodePEMPrivateKey, complete schemes/enc/v1 streams whose file key is
// wrapped through crypto.Encrypt/Decrypt with the stream's own key (all key-wrapping algorithms of
// the scheme); plus the algorithm names of consts.go that are not supported (their failure must
// be the same, too).
//
// Monitor = the property's first sentence: every round trip gives concurrently what the same
// round trip gave alone (for a supported algorithm: message restored, no error, no panic; for
// deterministic algorithms also the same ciphertext / serialisation). A time budget only stops a
// case early; it never produces a violation. Finding id: crypto-overlapping-calls-interfere.

import (
	"bufio"
	"encoding/json"
	"fmt"
	"os"
	"path/filepath"
	"strconv"
	"strings"
	"time"

	"verifharness/lib"
)

const findCryptoOverlap = "crypto-overlapping-calls-interfere"

type coCase struct {
	Kind     string `json:"kind"`
	Family   string `json:"family"`
	Alg      string `json:"alg"`
	Mode     string `json:"mode"`
	G        int    `json:"goroutines"`
	Procs    int    `json:"gomaxprocs"`
	Iters    int    `json:"iterations"`
	Distinct int    `json:"distinct_round_trips_per_goroutine"`
	Seed     uint64 `json:"seed"`
	MaxMs    int    `json:"max_ms"`
	After    bool   `json:"alone_after_concurrent,omitempty"`
	Sizes    []int  `json:"sizes,omitempty"`
	Hold     bool   `json:"keep_results,omitempty"`
}

type coDiff struct {
	Worker int    `json:"worker"`
	Iter   int    `json:"iteration"`
	Alg    string `json:"alg"`
	Stage  string `json:"stage"`
	Solo   string `json:"alone"`
	Got    string `json:"concurrently"`
}

type coResult struct {
	Index      int      `json:"index"`
	Case       coCase   `json:"case"`
	Procs      int      `json:"gomaxprocs_effective"`
	Algs       []string `json:"algs"`
	Alone      []string `json:"first_round_trip_alone"`
	SoloBad    string   `json:"solo_unexpected"`
	Diffs      []coDiff `json:"diffs"`
	NDiffs     int      `json:"n_diffs"`
	Ops        int      `json:"round_trips_done"`
	Overlapped int      `json:"calls_started_while_another_was_running"`
	MaxInfl    int      `json:"max_calls_in_flight"`
	ElapsedMs  int      `json:"elapsed_ms"`
	Runs       int      `json:"runs"`
	Note       string   `json:"note"`
	Skipped    bool     `json:"skipped_time_budget"`
}

// costly families: a private-key operation per round trip (milliseconds); the others take
// microseconds.
func coCostly(family, alg string) bool {
	switch family {
	case "asym", "asym-generic":
		return true
	case "sig":
		return alg != "EdDSA" && alg != "ES256" && !strings.HasPrefix(alg, "HS")
	case "enc-wrap":
		return strings.HasPrefix(alg, "RSA")
	}
	return false
}

func genCryptoOverlap(algs map[string][]string, supported map[string]map[string]bool, rng *lib.Rand, tier string, search bool) []coCase {
	var cases []coCase
	thorough := tier == "thorough" || search
	add := func(family, alg, mode string, g, procs, iters, distinct int) {
		if thorough {
			iters *= 3
		}
		// every other roundtrip/burst case runs the round trips alone AFTER the concurrent phase
		after := mode != "split" && len(cases)%2 == 1
		cases = append(cases, coCase{"crypto-overlap", family, alg, mode, g, procs, iters, distinct, rng.U64() % 1000000, 3000, after, nil, false})
	}
	gs := func(lo, hi int) int { return rng.Range(lo, hi) }
	full := func(family, alg string, itCostly, itCheap, dCheap int) {
		it, d := itCheap, dCheap
		if coCostly(family, alg) {
			it, d = itCostly, 2
		}
		if thorough {
			for _, g := range []int{2, 3, 4, 8, 16} {
				for _, procs := range []int{0, 2} {
					for _, mode := range []string{"roundtrip", "burst", "split"} {
						k := it
						if coCostly(family, alg) && g >= 8 {
							k = it / 2
						}
						cases = append(cases, coCase{"crypto-overlap", family, alg, mode, g, procs, k, d, rng.U64() % 1000000, 4000, mode != "split" && len(cases)%2 == 1, nil, false})
					}
				}
			}
			return
		}
		add(family, alg, "roundtrip", gs(8, 16), 0, it, d)
		add(family, alg, "burst", gs(4, 8), 0, it, d)
		add(family, alg, "burst", 16, 2, it/3+1, d)
		add(family, alg, "split", gs(2, 5), 0, it*3/2, d)
		add(family, alg, "roundtrip", gs(2, 3), 2, it, d)
	}
	// asymmetric encryption: every supported algorithm on its own, then all names mixed
	for _, a := range algs["asym"] {
		if supported["asym"][a] {
			full("asym", a, 20, 0, 0)
			add("asym-generic", a, "roundtrip", 16, 0, 10, 2)
			if thorough {
				add("asym-generic", a, "burst", 5, 2, 10, 2)
				add("asym-generic", a, "split", 6, 0, 10, 2)
			}
		}
	}
	add("asym", "*", "roundtrip", 16, 0, 20, 2)
	add("asym", "*", "burst", 16, 2, 8, 2)
	add("asym-generic", "*", "split", 16, 0, 20, 2)
	// signatures
	for _, a := range algs["sig"] {
		if supported["sig"][a] {
			if thorough {
				full("sig", a, 15, 150, 20)
				continue
			}
			it, d := 150, 20
			if coCostly("sig", a) {
				it, d = 15, 2
			}
			add("sig", a, "roundtrip", gs(8, 16), 0, it, d)
			add("sig", a, "burst", gs(3, 6), 2, it/2+1, d)
		}
	}
	add("sig", "*", "roundtrip", 16, 0, 15, 2)
	add("sig", "*", "split", 13, 0, 15, 2)
	add("sig", "*", "burst", 16, 2, 6, 2)
	// symmetric
	for _, a := range algs["sym"] {
		if thorough {
			full("sym", a, 0, 300, 40)
			add("sym-generic", a, "roundtrip", 8, 0, 300, 40)
			add("sym-generic", a, "split", 4, 2, 300, 40)
			continue
		}
		add("sym", a, "roundtrip", gs(8, 16), 0, 400, 40)
		add("sym", a, "burst", gs(2, 4), 2, 200, 40)
		add("sym-generic", a, "split", gs(4, 8), 0, 300, 40)
	}
	for _, f := range []string{"sym", "sym-generic"} {
		add(f, "*", "roundtrip", 16, 0, 400, 40)
		add(f, "*", "burst", 16, 2, 100, 40)
		add(f, "*", "split", 11, 0, 300, 40)
	}
	// the packages underneath, directly
	for _, f := range []string{"aeskw", "aescbcaead", "padding"} {
		for _, a := range algs[f] {
			if thorough {
				full(f, a, 0, 500, 50)
				continue
			}
			add(f, a, "roundtrip", gs(8, 16), 0, 600, 50)
			add(f, a, "burst", gs(2, 4), 2, 300, 50)
			add(f, a, "split", gs(3, 7), 0, 400, 50)
		}
		if len(algs[f]) > 1 {
			add(f, "*", "roundtrip", 16, 0, 600, 50)
			add(f, "*", "burst", 16, 2, 150, 50)
		}
	}
	// key parsing / serialisation
	for _, a := range algs["keys"] {
		if thorough {
			full("keys", a, 0, 40, 2)
			continue
		}
		add("keys", a, "roundtrip", gs(4, 12), 0, 40, 2)
	}
	add("keys", "*", "roundtrip", 16, 0, 60, 2)
	add("keys", "*", "burst", 16, 2, 20, 2)
	add("keys", "*", "split", 16, 0, 40, 2)
	for _, a := range algs["pem"] {
		add("pem", a, "roundtrip", gs(3, 8), 0, 40, 2)
	}
	add("pem", "*", "roundtrip", 10, 0, 60, 2)
	add("pem", "*", "burst", 5, 2, 30, 2)
	// complete enc/v1 streams whose file key is wrapped by the crypto package with the stream's own key
	for _, a := range algs["enc-wrap"] {
		if thorough {
			full("enc-wrap", a, 10, 20, 2)
			continue
		}
		add("enc-wrap", a, "roundtrip", gs(6, 12), 0, 12, 2)
		add("enc-wrap", a, "burst", gs(3, 5), 2, 6, 2)
	}
	add("enc-wrap", "*", "roundtrip", 14, 0, 15, 2)
	add("enc-wrap", "*", "split", 7, 0, 15, 2)
	return append(cases, genKeptResults(algs, supported, rng, thorough)...)
}

// ---- kept results across the buffer-size thresholds (Round 8) ----
//
// The cases above use messages of at most ~1500 bytes (70000 for the streams) and compare a result
// once, right after the call that produced it. These cases (keep_results) give every caller its own
// message SIZE from the list of the usual buffer thresholds and make every caller KEEP every byte slice
// the library hands out (ciphertext, tag, plaintext, signature, wrapped key, serialisation, stream
// contents) next to a private copy; kept results are looked at again after every later call — in mode
// sequential (one goroutine runs the calls of all callers in seeded orders: random interleaving / all
// A then all B / caller by caller) after EVERY call of ANY caller, in the concurrent modes by the owner
// after each of its own calls — and once more when everything has finished. Monitor = the property's
// first sentence: the same result as alone, and a result already handed out never changes because of
// another caller's operation.
const findKeptChanged = "crypto-result-changed-by-another-call"

// coBoundarySizes: the usual thresholds and their neighbours; around 256 / 1 KiB / 4 KiB / 64 KiB also
// the sizes at which message + authentication tag (16, 24, 32 bytes) reaches the threshold.
var coBoundarySizes = []int{0, 1, 15, 16, 17, 255, 256, 1023, 1024, 4064, 4072, 4079, 4080, 4095, 4096, 4097, 8192, 65535, 65536, 65537, 1 << 20}

var coNear4K = []int{4064, 4072, 4079, 4080, 4095, 4096, 4097}

var coThoroughExtra = []int{7, 8, 9, 31, 32, 33, 224, 232, 240, 257, 511, 512, 513, 992, 1000, 1008, 1025, 2047, 2048, 2049, 4063, 4065, 4081, 8191, 8193, 16383, 16384, 16385, 32768,
	65504, 65512, 65519, 65520, 65553, 131072, 1<<20 - 1, 1<<20 + 1}

func genKeptResults(algs map[string][]string, supported map[string]map[string]bool, rng *lib.Rand, thorough bool) []coCase {
	var cases []coCase
	rot := func(l []int) []int {
		k := rng.Intn(len(l))
		return append(append([]int(nil), l[k:]...), l[:k]...)
	}
	// seq: all sizes of the list in one sequential history (G callers x d round trips >= len(sizes))
	seq := func(family, alg string, sizes []int, procs, rounds int) {
		g := 11
		d := (len(sizes) + g - 1) / g
		cases = append(cases, coCase{"crypto-overlap", family, alg, "sequential", g, procs, rounds, d, rng.U64() % 1000000, 8000, false, rot(sizes), true})
	}
	// conc: a sample of the sizes (always with the 4 KiB neighbourhood; 1 MiB left to the sequential cases) on G goroutines
	conc := func(family, alg, mode string, g, procs, iters int) {
		sizes := append([]int(nil), coNear4K[rng.Intn(3):]...)
		for len(sizes) < 3*g {
			s := coBoundarySizes[rng.Intn(len(coBoundarySizes)-1)]
			if thorough && rng.Intn(3) == 0 {
				s = coThoroughExtra[rng.Intn(len(coThoroughExtra)-3)]
			}
			sizes = append(sizes, s)
		}
		for i := len(sizes) - 1; i > 0; i-- {
			k := rng.Intn(i + 1)
			sizes[i], sizes[k] = sizes[k], sizes[i]
		}
		if thorough {
			iters *= 3
		}
		cases = append(cases, coCase{"crypto-overlap", family, alg, mode, g, procs, iters, 3, rng.U64() % 1000000, 3000, mode != "split" && len(cases)%2 == 1, sizes, true})
	}
	modes := []string{"roundtrip", "burst", "split"}
	all := coBoundarySizes
	if thorough {
		all = append(append([]int(nil), coBoundarySizes...), coThoroughExtra...)
	}
	pick := rng.Intn(6)
	for i, fam := range []string{"sym", "sym-generic", "aeskw", "aescbcaead", "padding"} {
		for k, a := range algs[fam] {
			if !supported[fam][a] {
				continue
			}
			if thorough {
				seq(fam, a, all, 0, 6)
				seq(fam, a, coBoundarySizes, 1, 3)
				for _, m := range modes {
					conc(fam, a, m, rng.Range(2, 8), []int{0, 2}[rng.Intn(2)], 20)
				}
				continue
			}
			// quick: sym and sym-generic alternate per algorithm and seed; every algorithm gets the whole size list
			// in a sequential history and one concurrent case whose mode rotates
			if (fam == "sym" || fam == "sym-generic") && (i+k+pick)%2 == 1 {
				conc(fam, a, modes[(k+pick)%3], rng.Range(3, 8), []int{0, 2}[(k+pick)%2], 12)
				continue
			}
			seq(fam, a, all, []int{0, 1}[(k+pick)%2], 3)
			if fam != "sym" && fam != "sym-generic" {
				conc(fam, a, modes[(k+pick)%3], rng.Range(3, 8), 0, 12)
			}
		}
		if len(algs[fam]) > 1 {
			// every algorithm of the family in ONE history: the earlier result belongs to another algorithm
			seq(fam, "*", all, 0, 3)
			conc(fam, "*", modes[(i+pick)%3], 12, 0, 12)
		}
	}
	// asymmetric: the legal sizes (the size list up to the RSA limit of the caller's key, and the limit itself)
	for k, a := range algs["asym"] {
		if !supported["asym"][a] {
			continue
		}
		fam := []string{"asym", "asym-generic"}[(k+pick)%2]
		small := []int{0, 1, 15, 16, 17, 30, 31, 62, 65, 66, 94, 117, 126, 149, 158, 190, 213, 214, 245, 246, 255, 256}
		cases = append(cases, coCase{"crypto-overlap", fam, a, "sequential", 8, 0, 1, 3, rng.U64() % 1000000, 8000, false, rot(small), true})
		if thorough {
			cases = append(cases, coCase{"crypto-overlap", []string{"asym-generic", "asym"}[(k+pick)%2], a, "roundtrip", 6, 0, 6, 2, rng.U64() % 1000000, 4000, false, rot(small), true})
		}
	}
	cases = append(cases, coCase{"crypto-overlap", "asym", "*", "roundtrip", 10, 0, 4, 2, rng.U64() % 1000000, 3000, false, []int{0, 1, 16, 17, 30, 62, 94, 117, 126, 149, 245, 256}, true})
	// signatures (EdDSA signs the message itself: every size), key serialisations, PEM
	cases = append(cases, coCase{"crypto-overlap", "sig", "EdDSA", "sequential", 11, 0, 2, 2, rng.U64() % 1000000, 8000, false, rot(coBoundarySizes), true})
	cases = append(cases, coCase{"crypto-overlap", "sig", "*", "sequential", 13, 0, 1, 1, rng.U64() % 1000000, 8000, false, rot(coBoundarySizes), true})
	cases = append(cases, coCase{"crypto-overlap", "sig", "*", "roundtrip", 13, 0, 3, 2, rng.U64() % 1000000, 3000, false, rot(coBoundarySizes[:20]), true})
	cases = append(cases, coCase{"crypto-overlap", "keys", "*", "sequential", 16, 0, 2, 2, rng.U64() % 1000000, 8000, false, nil, true})
	cases = append(cases, coCase{"crypto-overlap", "keys", "*", "roundtrip", 16, 0, 20, 2, rng.U64() % 1000000, 3000, false, nil, true})
	cases = append(cases, coCase{"crypto-overlap", "pem", "*", "sequential", 10, 0, 2, 1, rng.U64() % 1000000, 8000, false, nil, true})
	// complete enc/v1 streams, file key wrapped by the crypto package (all key-wrapping algorithms spread over the callers)
	cases = append(cases, coCase{"crypto-overlap", "enc-wrap", "*", "sequential", 7, 0, 2, 3, rng.U64() % 1000000, 12000, false, rot(coBoundarySizes), true})
	cases = append(cases, coCase{"crypto-overlap", "enc-wrap", "*", modes[pick%3], 7, 0, 4, 3, rng.U64() % 1000000, 4000, false, rot(coBoundarySizes[:20]), true})
	if thorough {
		for _, a := range algs["enc-wrap"] {
			cases = append(cases, coCase{"crypto-overlap", "enc-wrap", a, "sequential", 6, 0, 2, 4, rng.U64() % 1000000, 12000, false, rot(all[:24]), true})
		}
		cases = append(cases, coCase{"crypto-overlap", "enc-wrap", "*", "sequential", 7, 1, 2, 9, rng.U64() % 1000000, 20000, false, rot(all), true})
	}
	return cases
}

// coLists asks the child which algorithms the tree under test lists.
func coLists(bin string) (map[string][]string, map[string]map[string]bool, error) {
	so, se, err := runChild(bin, childEnv(), 60*time.Second, "--list")
	if err != nil {
		return nil, nil, fmt.Errorf("%v: %s", err, tail(se, 300))
	}
	algs := map[string][]string{}
	if err := json.Unmarshal([]byte(so), &algs); err != nil {
		return nil, nil, err
	}
	// what "supported" means is decided in the child (the package's Supported…Algorithms lists);
	// here: everything the child lists except the names this harness added from consts.go
	extra := map[string]bool{"ECDH-ES": true, "ECDH-ES+A128KW": true, "ECDH-ES+A192KW": true, "ECDH-ES+A256KW": true,
		"HS256": true, "HS384": true, "HS512": true, "A128GCMKW": true, "A192GCMKW": true, "A256GCMKW": true}
	sup := map[string]map[string]bool{}
	for f, l := range algs {
		sup[f] = map[string]bool{}
		for _, a := range l {
			sup[f][a] = !extra[a]
		}
	}
	return algs, sup, nil
}

func coDescribe(c coCase, procs int) string {
	what := map[string]string{
		"asym":         "EncryptPublicKey/DecryptPrivateKey",
		"asym-generic": "Encrypt/Decrypt (asymmetric)",
		"sig":          "SignPrivateKey/VerifyPublicKey",
		"sym":          "EncryptSymmetric/DecryptSymmetric",
		"sym-generic":  "Encrypt/Decrypt (symmetric)",
		"aeskw":        "aeskw.Wrap/Unwrap",
		"aescbcaead":   "aescbcaead Seal/Open",
		"padding":      "PadPKCS7/UnpadPKCS7",
		"keys":         "ParseKey/SerializeKey",
		"pem":          "pem.EncodePrivateKey/DecodePEMPrivateKey",
		"enc-wrap":     "enc/v1 Encrypt->Decrypt streams, file key wrapped by crypto.Encrypt/Decrypt",
	}[c.Family]
	alg := c.Alg
	if alg == "*" {
		alg = "all algorithms of the family spread over the goroutines"
	}
	order := "run alone first"
	if c.After && c.Mode != "split" {
		order = "run alone afterwards"
	}
	if !c.Hold && len(c.Sizes) == 0 {
		return fmt.Sprintf("%s, %s: %d goroutines, each with its own key and messages, %d round trips each (mode %s, %s), GOMAXPROCS=%d", what, alg, c.G, c.Iters, c.Mode, order, procs)
	}
	who := fmt.Sprintf("%d goroutines", c.G)
	if c.Mode == "sequential" {
		who = fmt.Sprintf("%d callers whose calls are made one at a time by one goroutine", c.G)
	}
	return fmt.Sprintf("%s, %s: %s, each with its own key and messages of the sizes %v (caller w, round trip j: sizes[(w+j*%d) mod %d], made legal for the algorithm), every result kept and looked at again after later calls, %d round(s) (mode %s, %s), GOMAXPROCS=%d",
		what, alg, who, c.Sizes, c.G, len(c.Sizes), c.Iters, c.Mode, order, procs)
}

func judgeCryptoOverlap(res *lib.Result, r coResult, tag string) {
	c := r.Case
	if r.Skipped {
		// the machine was too slow for the whole list within the budget of the tier: not a result
		res.Hit(tag + ":skipped-time-budget")
		return
	}
	key, _ := json.Marshal(c)
	res.Count(tag+":"+string(key), c.G >= 2 && r.Overlapped > 0 && r.Note == "")
	res.Evaluations += r.Ops
	res.Hit(tag + ":family=" + c.Family)
	res.Hit(tag + ":mode=" + c.Mode)
	res.Hit(fmt.Sprintf("%s:alone-after-concurrent=%v", tag, c.After && c.Mode != "split"))
	res.Hit(fmt.Sprintf("%s:goroutines=%d", tag, c.G))
	if c.Hold {
		res.Hit(tag + ":kept-results:family=" + c.Family + ":mode=" + c.Mode)
		for _, s := range c.Sizes {
			res.Hit(fmt.Sprintf("%s:kept-results:size=%d", tag, s))
		}
	}
	res.Hit(fmt.Sprintf("%s:gomaxprocs=%s", tag, map[bool]string{true: "default", false: strconv.Itoa(c.Procs)}[c.Procs == 0]))
	for _, a := range r.Algs {
		res.Hit(tag + ":alg=" + c.Family + "/" + a)
	}
	res.Distribution[tag+":round-trips"] += r.Ops
	res.Distribution[tag+":concurrent-phase-ms:family="+c.Family] += r.ElapsedMs
	res.Distribution[tag+":calls-started-while-another-was-running"] += r.Overlapped
	if r.Overlapped == 0 && r.Note == "" && r.SoloBad == "" {
		res.Hit(tag + ":no-overlap-observed")
	}
	if r.Note != "" {
		res.Disagree("crypto-overlap child", c, "the case can be set up", r.Note)
		return
	}
	if r.SoloBad != "" {
		res.Violate(findSolo, "crypto round trip run alone: "+r.SoloBad, c)
		return
	}
	if r.NDiffs > 0 && len(r.Diffs) > 0 {
		d := r.Diffs[0]
		res.Hit(tag + ":differs")
		if strings.HasPrefix(d.Stage, "kept ") {
			res.Violate(findKeptChanged, fmt.Sprintf("%s: a result the library had handed out changed afterwards: caller %d (%s), round trip %d, %s: it was %s; now %s (%d difference(s) in all after %d round trips; run %d of the case)",
				coDescribe(c, r.Procs), d.Worker, d.Alg, d.Iter, d.Stage, d.Solo, d.Got, r.NDiffs, r.Ops, r.Runs), c)
			return
		}
		res.Violate(findCryptoOverlap, fmt.Sprintf("%s: goroutine %d (%s), iteration %d, stage %s: alone %q, with the other goroutines running %q (%d goroutine(s) saw a difference after %d round trips in all; run %d of the case)",
			coDescribe(c, r.Procs), d.Worker, d.Alg, d.Iter, d.Stage, d.Solo, d.Got, r.NDiffs, r.Ops, r.Runs), c)
	}
}

// runCryptoOverlap runs the cases in the child; a child that dies is restarted behind the case it
// died in (at most 3 times).
func runCryptoOverlap(f lib.Flags, res *lib.Result, bin string, cases []coCase, repeat int, tag string, race bool) {
	dir := filepath.Join(f.Work, "c08_"+tag)
	if f.Work == "" {
		dir = filepath.Join(os.TempDir(), "c08_"+tag)
	}
	_ = os.MkdirAll(dir, 0o755)
	cf := filepath.Join(dir, "cases.json")
	b, _ := json.Marshal(cases)
	if err := os.WriteFile(cf, b, 0o644); err != nil {
		res.Note("crypto-overlap: " + err.Error())
		return
	}
	if keep := os.Getenv("C08_CO_KEEP"); keep != "" {
		_ = os.WriteFile(keep+"."+tag+".json", b, 0o644)
	}
	env := childEnv()
	if race {
		env = append(env, "GORACE=halt_on_error=0 exitcode=0")
	}
	from, reports := 0, 0
	for restarts := 0; from < len(cases) && restarts <= 3; restarts++ {
		// the child stops starting new cases after `budget` (reported as skipped, not as a failure); a
		// case itself is bounded by max_ms per phase, so the child is killed — a hang INSIDE a crypto
		// call, which the property forbids — only minutes after that
		budget := 90 * time.Second // the quick list takes ~15 s on this machine
		if f.Tier == "thorough" || f.Search || race {
			budget = 12 * time.Minute
		}
		so, se, err := runChild(bin, env, budget+4*time.Minute, "--cases", cf, "--from", strconv.Itoa(from), "--repeat", strconv.Itoa(repeat), "--total-ms", strconv.Itoa(int(budget.Milliseconds())))
		last := from - 1
		sc := bufio.NewScanner(strings.NewReader(so))
		sc.Buffer(make([]byte, 1<<20), 1<<26)
		for sc.Scan() {
			var r coResult
			if json.Unmarshal(sc.Bytes(), &r) != nil {
				continue
			}
			last = r.Index
			judgeCryptoOverlap(res, r, tag)
		}
		if race {
			reports += strings.Count(se, "WARNING: DATA RACE")
			if n := strings.Count(se, "WARNING: DATA RACE"); n > 0 {
				res.Violate("data-race-reported", "race detector, overlapping crypto calls on independent keys (first 1500 bytes): "+tail2(stripCaseLines(se), 1500), map[string]any{"kind": "crypto-overlap-race"})
			}
		}
		if err == nil {
			break
		}
		// the process died (fatal error / unrecovered panic in a library goroutine) or hangs
		idx := last + 1
		var c any = map[string]any{"kind": "crypto-overlap"}
		desc := ""
		if idx < len(cases) {
			c = cases[idx]
			desc = coDescribe(cases[idx], cases[idx].Procs)
		}
		res.Violate(findCryptoOverlap, fmt.Sprintf("the process running overlapping crypto calls died / hangs (%v) in case %d (%s): %s", err, idx, desc, coCrashText(stripCaseLines(se))), c)
		from = idx + 1
	}
	if race {
		res.Distribution[tag+":reports"] += reports
	}
}

// coCrashText: the line that names the crash (fatal error / panic) and the end of the trace.
func coCrashText(se string) string {
	head := ""
	for _, l := range strings.Split(se, "\n") {
		if strings.HasPrefix(l, "fatal error:") || strings.HasPrefix(l, "panic:") || strings.HasPrefix(l, "runtime: ") {
			head = l + " … "
			break
		}
	}
	return head + tail(se, 700)
}

func checkCryptoOverlap(f lib.Flags, res *lib.Result, rng *lib.Rand) {
	bin, err := buildChild(f, "cryptoov", false)
	if err != nil {
		res.Disagree("child-build", map[string]any{"kind": "crypto-overlap"}, "cmd/c08/cryptoov builds against the tree under test", err.Error())
		return
	}
	algs, sup, err := coLists(bin)
	if err != nil {
		res.Disagree("child-build", map[string]any{"kind": "crypto-overlap"}, "cmd/c08/cryptoov --list runs", err.Error())
		return
	}
	cases := genCryptoOverlap(algs, sup, rng, f.Tier, f.Search)
	t0 := time.Now()
	runCryptoOverlap(f, res, bin, cases, 1, "crypto-overlap", false)
	if len(cases) > 0 {
		res.Sample(cases[0])
	}
	res.Note(fmt.Sprintf("crypto-overlap family: %d cases in %.1fs (%d skipped: time budget)", len(cases), time.Since(t0).Seconds(), res.Distribution["crypto-overlap:skipped-time-budget"]))
	if f.Tier == "thorough" {
		// the quick list (shortened) under the race detector; supporting search: absence decides nothing
		rbin, err := buildChild(f, "cryptoov", true)
		if err != nil {
			res.Note("crypto-overlap -race variant NOT run: " + err.Error())
			return
		}
		t1 := time.Now()
		rc := genCryptoOverlap(algs, sup, lib.NewRand(f.Seed*31+5), "quick", false)
		for i := range rc {
			if coCostly(rc[i].Family, rc[i].Alg) || rc[i].Alg == "*" && (rc[i].Family == "asym" || rc[i].Family == "asym-generic" || rc[i].Family == "sig") {
				rc[i].Iters = rc[i].Iters/5 + 2
			} else {
				rc[i].Iters = rc[i].Iters/4 + 2
			}
		}
		runCryptoOverlap(f, res, rbin, rc, 1, "crypto-overlap-race", true)
		res.Note(fmt.Sprintf("crypto-overlap -race variant: %d cases in %.1fs", len(rc), time.Since(t1).Seconds()))
	}
}

func replayCryptoOverlap(f lib.Flags, res *lib.Result, raw json.RawMessage) {
	var c coCase
	if err := json.Unmarshal(raw, &c); err != nil || c.Family == "" {
		// no concrete case stored: run the family again
		checkCryptoOverlap(f, res, lib.NewRand(f.Seed*1000003+9))
		return
	}
	bin, err := buildChild(f, "cryptoov", false)
	if err != nil {
		res.Disagree("child-build", map[string]any{"kind": "crypto-overlap"}, "cmd/c08/cryptoov builds against the tree under test", err.Error())
		return
	}
	runCryptoOverlap(f, res, bin, []coCase{c}, 20, "crypto-overlap-replay", false)
}
