// racewl runs the C08 mixed workload; the harness builds it with `go build -race` in the thorough
// tier (supporting search only: the race detector is not the deciding method).
package main

import (
	"encoding/json"
	"flag"
	"os"
	"time"

	"verifharness/cmd/c08/wl"
	"verifharness/lib"
)

func main() {
	seed := flag.Uint64("seed", 1, "")
	workers := flag.Int("workers", 8, "")
	nops := flag.Int("ops", 80, "")
	rounds := flag.Int("rounds", 2, "")
	out := flag.String("out", "", "")
	flag.Parse()
	rng := lib.NewRand(*seed ^ 0x5eed)
	ops := make([]wl.Op, *nops)
	for i := range ops {
		ops[i] = wl.GenOp(rng)
	}
	solo := wl.Solo(ops, 300*time.Second)
	diffs, evals := wl.Concurrent(ops, solo, *workers, *rounds, 300*time.Second)
	b, _ := json.Marshal(map[string]any{"evals": evals, "diffs": diffs})
	if *out == "" {
		os.Stdout.Write(b)
		return
	}
	_ = os.WriteFile(*out, b, 0o644)
}
