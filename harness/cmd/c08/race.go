package main

import (
	"encoding/json"
	"fmt"
	"os"
	"os/exec"
	"path/filepath"
	"strings"
	"time"

	"verifharness/lib"
)

// runRace builds cmd/c08/racewl with the race detector and runs the mixed workload under it.
// Supporting search only: a report is turned into a violation so that it is looked at, but the
// absence of reports decides nothing. If the toolchain cannot build -race binaries here (CGO
// unavailable, no race runtime) that is recorded as a note.
func runRace(f lib.Flags, res *lib.Result) {
	verif := os.Getenv("VERIF_DIR")
	if verif == "" {
		verif = "/verif"
	}
	bin := filepath.Join(f.Work, "c08_racewl")
	env := append(os.Environ(), "CGO_ENABLED=1", "GOFLAGS=-mod=mod", "GOPROXY=off", "GOSUMDB=off", "GOTOOLCHAIN=local")
	t0 := time.Now()
	repo := os.Getenv("VERIF_REPO")
	if repo == "" {
		repo = "/repo"
	}
	rdir := filepath.Join(f.Work, "c08_race")
	_ = os.MkdirAll(rdir, 0o755)
	bargs := []string{"build", "-race", "-tags", "verif unit", "-o", bin}
	mfArgs, mfErr := modfileArgs(verif, repo, rdir)
	if mfErr != nil {
		res.Note("race variant NOT run: " + mfErr.Error())
		res.Hit("race:unavailable")
		return
	}
	bargs = append(append(bargs, mfArgs...), "./cmd/c08/racewl")
	cmd := exec.Command("go", bargs...)
	cmd.Dir = filepath.Join(verif, "harness")
	cmd.Env = env
	out, err := cmd.CombinedOutput()
	if err != nil {
		res.Note("race variant NOT run: `go build -race` failed here (" + err.Error() + "): " + tail(string(out), 400))
		res.Hit("race:unavailable")
		return
	}
	res.Hit("race:built")
	outf := filepath.Join(f.Work, "race_out.json")
	run := exec.Command(bin, "--seed", fmt.Sprint(f.Seed), "--workers", "12", "--ops", "120", "--rounds", "2", "--out", outf)
	run.Env = append(env, "GORACE=halt_on_error=0 exitcode=0 log_path="+filepath.Join(f.Work, "race_report"))
	done := make(chan error, 1)
	var ro []byte
	go func() {
		var e error
		ro, e = run.CombinedOutput()
		done <- e
	}()
	select {
	case err = <-done:
	case <-time.After(20 * time.Minute):
		_ = run.Process.Kill()
		res.Note("race variant: timed out")
		res.Hit("race:timeout")
		return
	}
	if err != nil {
		res.Note("race variant: run failed: " + err.Error() + ": " + tail(string(ro), 400))
		res.Hit("race:run-failed")
		return
	}
	var rr struct {
		Evals int              `json:"evals"`
		Diffs []map[string]any `json:"diffs"`
	}
	if b, e := os.ReadFile(outf); e == nil {
		_ = json.Unmarshal(b, &rr)
	}
	res.Distribution["race:evaluations"] = rr.Evals
	res.Evaluations += rr.Evals
	for _, d := range rr.Diffs {
		res.Violate(findConc+"-race", fmt.Sprintf("under -race: %v", d), map[string]any{"kind": "race", "seed": f.Seed, "diff": d})
	}
	reports, _ := filepath.Glob(filepath.Join(f.Work, "race_report*"))
	nrep := 0
	for _, rp := range reports {
		b, _ := os.ReadFile(rp)
		s := string(b)
		nrep += strings.Count(s, "WARNING: DATA RACE")
		if strings.Contains(s, "WARNING: DATA RACE") {
			res.Violate("data-race-reported", "race detector report (first 1500 bytes): "+tail2(s, 1500), map[string]any{"kind": "race", "seed": f.Seed})
		}
	}
	res.Distribution["race:reports"] = nrep
	res.Note(fmt.Sprintf("race variant: built and ran in %.0fs, %d evaluations, %d result differences, %d race reports", time.Since(t0).Seconds(), rr.Evals, len(rr.Diffs), nrep))
}

func tail(s string, n int) string {
	if len(s) > n {
		return s[len(s)-n:]
	}
	return s
}

func tail2(s string, n int) string {
	if len(s) > n {
		return s[:n]
	}
	return s
}
