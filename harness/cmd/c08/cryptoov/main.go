// cryptoov runs the C08 family "overlapping calls of the same crypto entry point on independent
// keys and messages" against the real github.com/dapr/kit/crypto (+ aeskw, aescbcaead, padding,
// pem) through the public API only. It is a child process of the harness: a fatal error or an
// unrecovered panic inside the standard library (a digest object used by two goroutines at once
// can throw) kills this process, not the harness, and the parent turns that into an outcome.
//
// A case: G goroutines, each with ITS OWN key (worker w never shares a key, message, nonce,
// label or cipher object with worker w'), run `iterations` round trips (stage A: encrypt / sign /
// wrap / pad / parse; stage B: decrypt / verify / unwrap / unpad / serialise, checked against the
// message) in a tight loop behind a barrier, under the GOMAXPROCS setting of the case.
//
//	mode roundtrip: every goroutine loops A;B                       (A‖A, A‖B, B‖B as they fall)
//	mode burst:     all goroutines run all their A calls, barrier, then all their B calls (A‖A, then B‖B)
//	mode split:     even workers run B on inputs prepared alone, odd workers run A;B       (A‖B)
//
// Before the concurrent phase — or after it (alone_after_concurrent: the very first use of the
// keys and entry points then happens concurrently) — every worker runs its `distinct` different
// round trips ALONE (one after the other, nothing else running); iteration i of the concurrent
// phase repeats round trip i mod distinct. Monitor (decided here, reported to the parent): the canonical result of every
// concurrent round trip equals the result of the same round trip run alone — which for a
// supported algorithm is "message restored, no error, no panic" (+ the ciphertext/serialisation
// hash where the algorithm is deterministic).
package main

import (
	"bufio"
	"bytes"
	"crypto/aes"
	"crypto/cipher"
	"crypto/ecdsa"
	"crypto/ed25519"
	"crypto/elliptic"
	"crypto/rand"
	"crypto/rsa"
	"crypto/sha256"
	"crypto/x509"
	"encoding/base64"
	"encoding/hex"
	"encoding/json"
	"encoding/pem"
	"flag"
	"fmt"
	"io"
	"os"
	"regexp"
	"runtime"
	"strings"
	"sync"
	"sync/atomic"
	"time"

	"github.com/lestrrat-go/jwx/v2/jwk"

	kitcrypto "github.com/dapr/kit/crypto"
	"github.com/dapr/kit/crypto/aescbcaead"
	"github.com/dapr/kit/crypto/aeskw"
	"github.com/dapr/kit/crypto/padding"
	kitpem "github.com/dapr/kit/crypto/pem"
	enc "github.com/dapr/kit/schemes/enc/v1"

	"verifharness/lib"
)

// Case is one overlap case (also the replay format).
type Case struct {
	Kind     string `json:"kind"`   // crypto-overlap
	Family   string `json:"family"` // asym | asym-generic | sig | sym | sym-generic | aeskw | aescbcaead | padding | keys | pem | enc-wrap
	Alg      string `json:"alg"`    // an algorithm / form of the family, or "*": worker w takes the (w mod n)-th of the family
	Mode     string `json:"mode"`   // roundtrip | burst | split
	G        int    `json:"goroutines"`
	Procs    int    `json:"gomaxprocs"` // 0 = the default of the machine
	Iters    int    `json:"iterations"` // per goroutine
	Distinct int    `json:"distinct_round_trips_per_goroutine"`
	Seed     uint64 `json:"seed"`
	MaxMs    int    `json:"max_ms"` // the concurrent phase stops starting new iterations after this long (not a failure)
	// the round trips are run alone AFTER the concurrent phase instead of before it: the first use of
	// every key, algorithm and entry point in the process then happens concurrently (lazily filled
	// package-level caches and tables are written in the concurrent phase, not warmed up alone)
	SoloAfter bool `json:"alone_after_concurrent,omitempty"`
	// message sizes: round trip j of worker w works on a message of Sizes[(w + j*G) mod len] bytes (made legal for
	// the algorithm: multiples of 8 / 16 for AES-KW / CBC without padding, at most the RSA limit); empty = the
	// small random sizes of the family
	Sizes []int `json:"sizes,omitempty"`
	// every byte slice the library hands out (ciphertext, tag, plaintext, signature, serialisation, stream
	// contents) is KEPT by the caller with a private copy and looked at again after later calls — its own and the
	// other callers' — and when everything has finished: a result already handed out must never change
	Hold bool `json:"keep_results,omitempty"`
}

type Diff struct {
	Worker int    `json:"worker"`
	Iter   int    `json:"iteration"`
	Alg    string `json:"alg"`
	Stage  string `json:"stage"`
	Solo   string `json:"alone"`
	Got    string `json:"concurrently"`
}

type Result struct {
	Index      int      `json:"index"`
	Case       Case     `json:"case"`
	Procs      int      `json:"gomaxprocs_effective"`
	Algs       []string `json:"algs"`
	Alone      []string `json:"first_round_trip_alone"`
	SoloBad    string   `json:"solo_unexpected,omitempty"`
	Diffs      []Diff   `json:"diffs,omitempty"`
	NDiffs     int      `json:"n_diffs"`
	Ops        int      `json:"round_trips_done"`
	Overlapped int      `json:"calls_started_while_another_was_running"`
	MaxInfl    int      `json:"max_calls_in_flight"`
	ElapsedMs  int      `json:"elapsed_ms"`
	Runs       int      `json:"runs"`
	Note       string   `json:"note,omitempty"`
	Skipped    bool     `json:"skipped_time_budget,omitempty"`
}

// ---------- keys: one per worker and kind, generated once per process ----------

const maxWorkers = 16

type keyStore struct {
	rsaOnce, edOnce sync.Once
	rsaKeys         []*rsa.PrivateKey
	edKeys          []ed25519.PrivateKey
	ecMu            sync.Mutex
	ecKeys          map[string][]*ecdsa.PrivateKey
}

func (ks *keyStore) rsa(w int) *rsa.PrivateKey {
	ks.rsaOnce.Do(func() {
		ks.rsaKeys = make([]*rsa.PrivateKey, maxWorkers)
		var wg sync.WaitGroup
		for i := range ks.rsaKeys {
			wg.Add(1)
			go func(i int) {
				defer wg.Done()
				// different moduli sizes for different workers (every size fits RSA-OAEP-512: k >= 130)
				k, err := rsa.GenerateKey(rand.Reader, []int{2048, 1536, 1280, 1792}[i%4])
				if err != nil {
					panic(err)
				}
				ks.rsaKeys[i] = k
			}(i)
		}
		wg.Wait()
	})
	return ks.rsaKeys[w%maxWorkers]
}

func (ks *keyStore) ed(w int) ed25519.PrivateKey {
	ks.edOnce.Do(func() {
		ks.edKeys = make([]ed25519.PrivateKey, maxWorkers)
		for i := range ks.edKeys {
			_, k, err := ed25519.GenerateKey(rand.Reader)
			if err != nil {
				panic(err)
			}
			ks.edKeys[i] = k
		}
	})
	return ks.edKeys[w%maxWorkers]
}

func curveOf(name string) elliptic.Curve {
	switch name {
	case "P-384":
		return elliptic.P384()
	case "P-521":
		return elliptic.P521()
	}
	return elliptic.P256()
}

func (ks *keyStore) ec(curve string, w int) *ecdsa.PrivateKey {
	ks.ecMu.Lock()
	defer ks.ecMu.Unlock()
	if ks.ecKeys == nil {
		ks.ecKeys = map[string][]*ecdsa.PrivateKey{}
	}
	if ks.ecKeys[curve] == nil {
		l := make([]*ecdsa.PrivateKey, maxWorkers)
		for i := range l {
			k, err := ecdsa.GenerateKey(curveOf(curve), rand.Reader)
			if err != nil {
				panic(err)
			}
			l[i] = k
		}
		ks.ecKeys[curve] = l
	}
	return ks.ecKeys[curve][w%maxWorkers]
}

// ---------- workers ----------

// worker: stage A and stage B of round trip j (j < distinct) of one goroutine. a returns the
// intermediate value and "" (or the failure, which then is the result of the round trip); b
// returns the canonical result.
type worker struct {
	keep      func(j int, name string, b []byte) // called with every byte slice the library hands out (no-op unless the case keeps results)
	alg       string
	supported bool // listed by the package as supported: alone, the round trip must restore the message
	a         func(j int) (any, string)
	b         func(j int, mid any) string
}

func errStr(e error) string {
	if e == nil {
		return "-"
	}
	return strings.ReplaceAll(e.Error(), " ", "_")
}

func h8(parts ...[]byte) string {
	h := sha256.New()
	for _, p := range parts {
		h.Write(p)
	}
	return hex.EncodeToString(h.Sum(nil)[:8])
}

func contains(l []string, s string) bool {
	for _, x := range l {
		if x == s {
			return true
		}
	}
	return false
}

// algorithms of consts.go the package does not list as supported: their (failing) result must be
// the same concurrently as alone, too.
var (
	extraAsym = []string{"ECDH-ES", "ECDH-ES+A128KW", "ECDH-ES+A192KW", "ECDH-ES+A256KW"}
	extraSig  = []string{"HS256", "HS384", "HS512"}
	extraSym  = []string{"A128GCMKW", "A192GCMKW", "A256GCMKW"}

	kwDirect   = []string{"A128KW-direct", "A192KW-direct", "A256KW-direct"}
	aeadDirect = []string{"AES128-SHA256", "AES192-SHA384", "AES256-SHA384", "AES256-SHA512"}
	padForms   = []string{"PKCS7"}
	keyForms   = []string{"raw", "base64", "base64url", "jwk-oct", "jwk-rsa", "jwk-rsa-pub", "jwk-ec", "jwk-ed25519",
		"pem-pkcs8-rsa", "pem-pkcs1-rsa", "pem-pkix-rsa", "pem-pkcs8-ec", "pem-sec1-ec", "pem-pkix-ec", "pem-pkcs8-ed25519", "pem-pkix-ed25519"}
	pemForms = []string{"ec-P-256", "ec-P-384", "ec-P-521", "ed25519", "rsa"}
	// key-wrapping algorithms of schemes/enc/v1 (KeyAlgorithm.Validate) with the two aliases
	encWrapAlgs = []string{"A256KW", "A128CBC-NOPAD", "A192CBC-NOPAD", "A256CBC-NOPAD", "RSA-OAEP-256", "AES", "RSA"}
)

// FamilyAlgs: what "*" ranges over; also printed for the parent by --list.
func FamilyAlgs(family string) []string {
	switch family {
	case "asym", "asym-generic":
		return append(kitcrypto.SupportedAsymmetricAlgorithms(), extraAsym...)
	case "sig":
		return append(kitcrypto.SupportedSignatureAlgorithms(), extraSig...)
	case "sym", "sym-generic":
		return append(kitcrypto.SupportedSymmetricAlgorithms(), extraSym...)
	case "aeskw":
		return kwDirect
	case "aescbcaead":
		return aeadDirect
	case "padding":
		return padForms
	case "keys":
		return keyForms
	case "pem":
		return pemForms
	case "enc-wrap":
		return encWrapAlgs
	}
	return nil
}

func supportedBy(family, alg string) bool {
	switch family {
	case "asym", "asym-generic":
		return contains(kitcrypto.SupportedAsymmetricAlgorithms(), alg)
	case "sig":
		return contains(kitcrypto.SupportedSignatureAlgorithms(), alg)
	case "sym", "sym-generic":
		return contains(kitcrypto.SupportedSymmetricAlgorithms(), alg)
	case "aeskw", "aescbcaead", "padding", "enc-wrap":
		return true
	}
	return false // keys / pem forms: whatever they give alone is the reference
}

var reBits = regexp.MustCompile(`^A(128|192|256)`)

func symShape(alg string) (keyLen, nonceLen int, kw, nopad, aad bool) {
	bits := 0
	if m := reBits.FindStringSubmatch(alg); m != nil {
		fmt.Sscan(m[1], &bits)
	}
	switch {
	case strings.Contains(alg, "CBC-HS"):
		return bits / 4, 16, false, false, true
	case strings.HasSuffix(alg, "CBC-NOPAD"):
		return bits / 8, 16, false, true, false
	case strings.HasSuffix(alg, "CBC"):
		return bits / 8, 16, false, false, false
	case strings.HasSuffix(alg, "GCMKW"):
		return bits / 8, 12, true, false, true
	case strings.HasSuffix(alg, "GCM"):
		return bits / 8, 12, false, false, true
	case strings.HasPrefix(alg, "XC20P"):
		return 32, 24, strings.HasSuffix(alg, "KW"), false, true
	case strings.HasPrefix(alg, "C20P"):
		return 32, 12, strings.HasSuffix(alg, "KW"), false, true
	case strings.HasSuffix(alg, "KW"):
		return bits / 8, 0, true, false, false
	}
	return 32, 12, false, false, true
}

func shaLen(alg string) int {
	switch {
	case strings.HasSuffix(alg, "384"):
		return 48
	case strings.HasSuffix(alg, "512"):
		return 64
	}
	return 32
}

type symMid struct{ ct, tag []byte }

func mkWorker(c Case, w int, ks *keyStore) (*worker, error) {
	alg := c.Alg
	if alg == "*" {
		l := FamilyAlgs(c.Family)
		if len(l) == 0 {
			return nil, fmt.Errorf("unknown family %q", c.Family)
		}
		alg = l[w%len(l)]
	}
	d := c.Distinct
	rng := lib.NewRand(c.Seed*1000003 + uint64(w)*7919 + 17)
	wk := &worker{alg: alg, supported: supportedBy(c.Family, alg), keep: func(int, string, []byte) {}}
	sized := len(c.Sizes) > 0
	sizeOf := func(j int) int { return c.Sizes[(w+j*c.G)%len(c.Sizes)] }
	switch c.Family {
	case "asym", "asym-generic":
		generic := c.Family == "asym-generic"
		rk := ks.rsa(w)
		priv, err := jwk.FromRaw(rk)
		if err != nil {
			return nil, err
		}
		pub, err := priv.PublicKey()
		if err != nil {
			return nil, err
		}
		encKey := pub
		if w%2 == 1 {
			encKey = priv // EncryptPublicKey derives the public key itself
		}
		k := rk.Size()
		maxLen := 32
		switch alg {
		case "RSA1_5":
			maxLen = k - 11
		case "RSA-OAEP":
			maxLen = k - 2*20 - 2
		case "RSA-OAEP-256", "RSA-OAEP-384", "RSA-OAEP-512":
			maxLen = k - 2*shaLen(alg) - 2
		}
		msgs := make([][]byte, d)
		labels := make([][]byte, d)
		for j := range msgs {
			n := rng.Intn(maxLen + 1)
			if j == 0 {
				n = maxLen
			}
			if sized {
				if n = sizeOf(j); n > maxLen {
					n = maxLen - n%2
				}
			}
			msgs[j] = rng.Bytes(n)
			if (w+j)%3 != 0 {
				labels[j] = []byte(fmt.Sprintf("label of worker %d, message %d", w, j))
			}
		}
		wk.a = func(j int) (any, string) {
			var ct []byte
			var err error
			if generic {
				ct, _, err = kitcrypto.Encrypt(msgs[j], alg, encKey, nil, labels[j])
			} else {
				ct, err = kitcrypto.EncryptPublicKey(msgs[j], alg, encKey, labels[j])
			}
			if err != nil {
				return nil, "encrypt=" + errStr(err)
			}
			wk.keep(j, "ciphertext", ct)
			return ct, ""
		}
		wk.b = func(j int, mid any) string {
			var pt []byte
			var err error
			if generic {
				pt, err = kitcrypto.Decrypt(mid.([]byte), alg, priv, nil, nil, labels[j])
			} else {
				pt, err = kitcrypto.DecryptPrivateKey(mid.([]byte), alg, priv, labels[j])
			}
			if err != nil {
				return "decrypt=" + errStr(err)
			}
			wk.keep(j, "plaintext", pt)
			if !bytes.Equal(pt, msgs[j]) {
				return fmt.Sprintf("WRONG-PLAINTEXT(len %d for %d)", len(pt), len(msgs[j]))
			}
			return "ok"
		}
	case "sig":
		var raw any
		switch {
		case strings.HasPrefix(alg, "ES"):
			raw = ks.ec(map[string]string{"ES256": "P-256", "ES384": "P-384", "ES512": "P-521"}[alg], w)
		case alg == "EdDSA":
			raw = ks.ed(w)
		case strings.HasPrefix(alg, "HS"):
			raw = rng.Bytes(32)
		default:
			raw = ks.rsa(w)
		}
		priv, err := jwk.FromRaw(raw)
		if err != nil {
			return nil, err
		}
		verKey := priv
		if w%2 == 0 {
			if p, err := priv.PublicKey(); err == nil {
				verKey = p
			}
		}
		msgs := make([][]byte, d)
		for j := range msgs {
			if alg == "EdDSA" {
				msgs[j] = rng.Bytes(rng.Intn(300))
				if sized {
					msgs[j] = rng.Bytes(sizeOf(j))
				}
			} else {
				msgs[j] = rng.Bytes(shaLen(alg))
			}
		}
		wk.a = func(j int) (any, string) {
			sig, err := kitcrypto.SignPrivateKey(msgs[j], alg, priv)
			if err != nil {
				return nil, "sign=" + errStr(err)
			}
			wk.keep(j, "signature", sig)
			return sig, ""
		}
		wk.b = func(j int, mid any) string {
			ok, err := kitcrypto.VerifyPublicKey(msgs[j], mid.([]byte), alg, verKey)
			if err != nil {
				return "verify=" + errStr(err)
			}
			if !ok {
				return "OWN-SIGNATURE-REJECTED"
			}
			other := append(append([]byte(nil), msgs[j]...), 1)
			if alg != "EdDSA" {
				other = other[:len(other)-1]
				other[0] ^= 0x40
			}
			ok, err = kitcrypto.VerifyPublicKey(other, mid.([]byte), alg, verKey)
			if err != nil {
				return "verify-other=" + errStr(err)
			}
			if ok {
				return "SIGNATURE-ACCEPTED-FOR-ANOTHER-DIGEST"
			}
			return "ok"
		}
	case "sym", "sym-generic":
		generic := c.Family == "sym-generic"
		kl, nl, kw, nopad, aad := symShape(alg)
		key, err := jwk.FromRaw(rng.Bytes(kl))
		if err != nil {
			return nil, err
		}
		msgs, nonces, ads := make([][]byte, d), make([][]byte, d), make([][]byte, d)
		for j := range msgs {
			n := rng.Intn(1500)
			switch {
			case kw && nl == 0:
				n = 16 + 8*rng.Intn(6)
			case kw:
				n = 16 + 8*rng.Intn(3)
			case nopad:
				n = 16 * rng.Intn(60)
			}
			if sized {
				n = sizeOf(j)
				switch {
				case kw && nl == 0:
					if n = n / 8 * 8; n < 16 {
						n = 16
					}
				case nopad:
					n = n / 16 * 16
				}
			}
			msgs[j] = rng.Bytes(n)
			nonces[j] = rng.Bytes(nl)
			if aad && j%3 != 0 {
				ads[j] = rng.Bytes(rng.Intn(40))
			}
		}
		wk.a = func(j int) (any, string) {
			var ct, tag []byte
			var err error
			if generic {
				ct, tag, err = kitcrypto.Encrypt(msgs[j], alg, key, nonces[j], ads[j])
			} else {
				ct, tag, err = kitcrypto.EncryptSymmetric(msgs[j], alg, key, nonces[j], ads[j])
			}
			if err != nil {
				return nil, "encrypt=" + errStr(err)
			}
			wk.keep(j, "ciphertext", ct)
			wk.keep(j, "tag", tag)
			return symMid{ct, tag}, ""
		}
		wk.b = func(j int, mid any) string {
			m := mid.(symMid)
			var pt []byte
			var err error
			if generic {
				pt, err = kitcrypto.Decrypt(m.ct, alg, key, nonces[j], m.tag, ads[j])
			} else {
				pt, err = kitcrypto.DecryptSymmetric(m.ct, alg, key, nonces[j], m.tag, ads[j])
			}
			if err != nil {
				return "ct=" + h8(m.ct, m.tag) + " decrypt=" + errStr(err)
			}
			wk.keep(j, "plaintext", pt)
			if !bytes.Equal(pt, msgs[j]) {
				return "ct=" + h8(m.ct, m.tag) + " WRONG-PLAINTEXT"
			}
			return "ok ct=" + h8(m.ct, m.tag)
		}
	case "aeskw":
		kl, _, _, _, _ := symShape(strings.TrimSuffix(alg, "-direct"))
		block, err := aes.NewCipher(rng.Bytes(kl))
		if err != nil {
			return nil, err
		}
		msgs := make([][]byte, d)
		for j := range msgs {
			msgs[j] = rng.Bytes(16 + 8*rng.Intn(8))
			if sized {
				n := sizeOf(j) / 8 * 8
				if n < 16 {
					n = 16
				}
				msgs[j] = rng.Bytes(n)
			}
		}
		wk.a = func(j int) (any, string) {
			ct, err := aeskw.Wrap(block, msgs[j])
			if err != nil {
				return nil, "wrap=" + errStr(err)
			}
			wk.keep(j, "wrapped key", ct)
			return ct, ""
		}
		wk.b = func(j int, mid any) string {
			pt, err := aeskw.Unwrap(block, mid.([]byte))
			if err != nil {
				return "ct=" + h8(mid.([]byte)) + " unwrap=" + errStr(err)
			}
			wk.keep(j, "unwrapped key", pt)
			if !bytes.Equal(pt, msgs[j]) {
				return "ct=" + h8(mid.([]byte)) + " WRONG-PLAINTEXT"
			}
			return "ok ct=" + h8(mid.([]byte))
		}
	case "aescbcaead":
		var aead cipher.AEAD
		var err error
		switch alg {
		case "AES128-SHA256":
			aead, err = aescbcaead.NewAESCBC128SHA256(rng.Bytes(32))
		case "AES192-SHA384":
			aead, err = aescbcaead.NewAESCBC192SHA384(rng.Bytes(48))
		case "AES256-SHA384":
			aead, err = aescbcaead.NewAESCBC256SHA384(rng.Bytes(56))
		default:
			aead, err = aescbcaead.NewAESCBC256SHA512(rng.Bytes(64))
		}
		if err != nil {
			return nil, err
		}
		msgs, nonces, ads := make([][]byte, d), make([][]byte, d), make([][]byte, d)
		for j := range msgs {
			msgs[j] = rng.Bytes(rng.Intn(1200))
			if sized {
				msgs[j] = rng.Bytes(sizeOf(j))
			}
			nonces[j] = rng.Bytes(aead.NonceSize())
			if j%3 != 0 {
				ads[j] = rng.Bytes(rng.Intn(40))
			}
		}
		wk.a = func(j int) (any, string) {
			sealed := aead.Seal(nil, nonces[j], msgs[j], ads[j])
			wk.keep(j, "sealed message", sealed)
			return sealed, ""
		}
		wk.b = func(j int, mid any) string {
			pt, err := aead.Open(nil, nonces[j], mid.([]byte), ads[j])
			if err != nil {
				return "ct=" + h8(mid.([]byte)) + " open=" + errStr(err)
			}
			wk.keep(j, "plaintext", pt)
			if !bytes.Equal(pt, msgs[j]) {
				return "ct=" + h8(mid.([]byte)) + " WRONG-PLAINTEXT"
			}
			return "ok ct=" + h8(mid.([]byte))
		}
	case "padding":
		msgs := make([][]byte, d)
		sizes := make([]int, d)
		for j := range msgs {
			msgs[j] = rng.Bytes(rng.Intn(700))
			if sized {
				msgs[j] = rng.Bytes(sizeOf(j))
			}
			sizes[j] = rng.Range(2, 255)
			if j%9 == 8 {
				sizes[j] = []int{0, 1, 256, -3}[rng.Intn(4)]
			}
		}
		wk.a = func(j int) (any, string) {
			out, err := padding.PadPKCS7(msgs[j], sizes[j])
			if err != nil {
				return nil, "pad=" + errStr(err)
			}
			wk.keep(j, "padded message", out)
			return out, ""
		}
		wk.b = func(j int, mid any) string {
			pt, err := padding.UnpadPKCS7(mid.([]byte), sizes[j])
			if err != nil {
				return "padded=" + h8(mid.([]byte)) + " unpad=" + errStr(err)
			}
			wk.keep(j, "unpadded message", pt)
			if !bytes.Equal(pt, msgs[j]) {
				return "padded=" + h8(mid.([]byte)) + " WRONG-MESSAGE"
			}
			return "ok padded=" + h8(mid.([]byte))
		}
	case "keys":
		raw, ctype, err := keyMaterial(alg, w, rng, ks)
		if err != nil {
			return nil, err
		}
		wk.a = func(j int) (any, string) {
			ct := ""
			if j%2 == 1 {
				ct = ctype
			}
			k, err := kitcrypto.ParseKey(raw, ct)
			if err != nil {
				return nil, "parse=" + errStr(err)
			}
			return k, ""
		}
		wk.b = func(j int, mid any) string {
			k := mid.(jwk.Key)
			ser, err := kitcrypto.SerializeKey(k)
			if err != nil {
				return fmt.Sprintf("type=%s serialize=%s", k.KeyType(), errStr(err))
			}
			wk.keep(j, "serialised key", ser)
			return fmt.Sprintf("ok type=%s ser=%s", k.KeyType(), h8(ser))
		}
	case "pem":
		var key any
		switch {
		case strings.HasPrefix(alg, "ec-"):
			key = ks.ec(strings.TrimPrefix(alg, "ec-"), w)
		case alg == "ed25519":
			k := ks.ed(w)
			key = &k
		default:
			key = ks.rsa(w)
		}
		wk.a = func(j int) (any, string) {
			p, err := kitpem.EncodePrivateKey(key)
			if err != nil {
				return nil, "encode=" + errStr(err)
			}
			wk.keep(j, "PEM", p)
			return p, ""
		}
		wk.b = func(j int, mid any) string {
			s, err := kitpem.DecodePEMPrivateKey(mid.([]byte))
			if err != nil {
				return "decode=" + errStr(err)
			}
			var want any
			switch k := key.(type) {
			case *ecdsa.PrivateKey:
				want = k.Public()
			case *ed25519.PrivateKey:
				want = k.Public()
			case *rsa.PrivateKey:
				want = k.Public()
			}
			eq, err := kitpem.PublicKeysEqual(s.Public(), want)
			if err != nil {
				return "equal=" + errStr(err)
			}
			if !eq {
				return "ANOTHER-KEY-DECODED"
			}
			return "ok pem=" + h8(mid.([]byte))
		}
	case "enc-wrap":
		// a complete schemes/enc/v1 stream whose file key is wrapped / unwrapped by the crypto package
		// with this worker's own key-encryption key
		var kek jwk.Key
		var err error
		switch alg {
		case "RSA-OAEP-256", "RSA":
			kek, err = jwk.FromRaw(ks.rsa(w))
		case "A128CBC-NOPAD":
			kek, err = jwk.FromRaw(rng.Bytes(16))
		case "A192CBC-NOPAD":
			kek, err = jwk.FromRaw(rng.Bytes(24))
		default:
			kek, err = jwk.FromRaw(rng.Bytes(32))
		}
		if err != nil {
			return nil, err
		}
		keyName := fmt.Sprintf("key-of-worker-%d", w)
		iv := func(a string) []byte {
			if strings.Contains(a, "CBC") {
				return make([]byte, 16)
			}
			return nil
		}
		msgs := make([][]byte, d)
		for j := range msgs {
			msgs[j] = rng.Bytes([]int{100, 0, 70000, 1, 65536, 3000}[(w+j)%6])
			if sized {
				msgs[j] = rng.Bytes(sizeOf(j))
			}
		}
		wk.a = func(j int) (any, string) {
			opts := enc.EncryptOptions{Algorithm: enc.KeyAlgorithm(alg), KeyName: keyName,
				WrapKeyFn: func(k []byte, a, kn string, nonce []byte) ([]byte, []byte, error) {
					return kitcrypto.Encrypt(k, a, kek, iv(a), nil)
				}}
			if (w+j)%2 == 1 {
				cph := enc.CipherChaCha20Poly1305
				opts.Cipher = &cph
			}
			r, err := enc.Encrypt(bytes.NewReader(msgs[j]), opts)
			if err != nil {
				return nil, "encrypt=" + errStr(err)
			}
			doc, err := io.ReadAll(r)
			if err != nil {
				return nil, "encrypt-stream=" + errStr(err)
			}
			wk.keep(j, "encrypted document", doc)
			return doc, ""
		}
		wk.b = func(j int, mid any) string {
			r, err := enc.Decrypt(bytes.NewReader(mid.([]byte)), enc.DecryptOptions{
				UnwrapKeyFn: func(wfk []byte, a, kn string, nonce, tag []byte) ([]byte, error) {
					if kn != keyName {
						return nil, fmt.Errorf("asked for key %q", kn)
					}
					return kitcrypto.Decrypt(wfk, a, kek, iv(a), nil, nil)
				}})
			if err != nil {
				return "decrypt=" + errStr(err)
			}
			pt, err := io.ReadAll(r)
			if err != nil {
				return "decrypt-stream=" + errStr(err)
			}
			wk.keep(j, "decrypted stream contents", pt)
			if !bytes.Equal(pt, msgs[j]) {
				return fmt.Sprintf("WRONG-PLAINTEXT(len %d for %d)", len(pt), len(msgs[j]))
			}
			return "ok"
		}
	default:
		return nil, fmt.Errorf("unknown family %q", c.Family)
	}
	return wk, nil
}

func pemOf(typ string, der []byte, err error) ([]byte, error) {
	if err != nil {
		return nil, err
	}
	return pem.EncodeToMemory(&pem.Block{Type: typ, Bytes: der}), nil
}

func keyMaterial(form string, w int, rng *lib.Rand, ks *keyStore) (raw []byte, ctype string, err error) {
	jsonOf := func(k any, public bool) ([]byte, error) {
		j, err := jwk.FromRaw(k)
		if err != nil {
			return nil, err
		}
		if public {
			if j, err = j.PublicKey(); err != nil {
				return nil, err
			}
		}
		return json.Marshal(j)
	}
	symLen := []int{16, 24, 32, 48, 64, 20}[w%6]
	switch form {
	case "raw":
		b := rng.Bytes(symLen)
		b[0] = 0x80 | b[0] // not base64, not JSON, not PEM
		return b, "", nil
	case "base64":
		return []byte(base64.StdEncoding.EncodeToString(rng.Bytes(symLen))), "", nil
	case "base64url":
		return []byte(base64.RawURLEncoding.EncodeToString(append([]byte{0xfb, 0xff}, rng.Bytes(symLen)...))), "", nil
	case "jwk-oct":
		raw, err = jsonOf(rng.Bytes(symLen), false)
		return raw, "application/json", err
	case "jwk-rsa":
		raw, err = jsonOf(ks.rsa(w), false)
		return raw, "application/json", err
	case "jwk-rsa-pub":
		raw, err = jsonOf(ks.rsa(w), true)
		return raw, "application/json", err
	case "jwk-ec":
		raw, err = jsonOf(ks.ec([]string{"P-256", "P-384", "P-521"}[w%3], w), false)
		return raw, "application/json", err
	case "jwk-ed25519":
		raw, err = jsonOf(ks.ed(w), false)
		return raw, "application/json", err
	case "pem-pkcs8-rsa":
		der, e := x509.MarshalPKCS8PrivateKey(ks.rsa(w))
		raw, err = pemOf("PRIVATE KEY", der, e)
		return raw, "application/x-pem-file", err
	case "pem-pkcs1-rsa":
		raw, err = pemOf("RSA PRIVATE KEY", x509.MarshalPKCS1PrivateKey(ks.rsa(w)), nil)
		return raw, "application/x-pem-file", err
	case "pem-pkix-rsa":
		der, e := x509.MarshalPKIXPublicKey(ks.rsa(w).Public())
		raw, err = pemOf("PUBLIC KEY", der, e)
		return raw, "application/x-pem-file", err
	case "pem-pkcs8-ec":
		der, e := x509.MarshalPKCS8PrivateKey(ks.ec([]string{"P-256", "P-384", "P-521"}[w%3], w))
		raw, err = pemOf("PRIVATE KEY", der, e)
		return raw, "application/pkcs8", err
	case "pem-sec1-ec":
		der, e := x509.MarshalECPrivateKey(ks.ec([]string{"P-256", "P-384", "P-521"}[w%3], w))
		raw, err = pemOf("EC PRIVATE KEY", der, e)
		return raw, "application/x-pem-file", err
	case "pem-pkix-ec":
		der, e := x509.MarshalPKIXPublicKey(ks.ec([]string{"P-256", "P-384", "P-521"}[w%3], w).Public())
		raw, err = pemOf("PUBLIC KEY", der, e)
		return raw, "application/x-pem-file", err
	case "pem-pkcs8-ed25519":
		der, e := x509.MarshalPKCS8PrivateKey(ks.ed(w))
		raw, err = pemOf("PRIVATE KEY", der, e)
		return raw, "application/x-pem-file", err
	case "pem-pkix-ed25519":
		der, e := x509.MarshalPKIXPublicKey(ks.ed(w).Public())
		raw, err = pemOf("PUBLIC KEY", der, e)
		return raw, "application/x-pem-file", err
	}
	return nil, "", fmt.Errorf("unknown key form %q", form)
}

// ---------- running a case ----------

func guardA(wk *worker, j int) (mid any, res string) {
	defer func() {
		if r := recover(); r != nil {
			mid, res = nil, fmt.Sprintf("PANIC-IN-STAGE-A(%v)", r)
		}
	}()
	return wk.a(j)
}

func guardB(wk *worker, j int, mid any) (res string) {
	defer func() {
		if r := recover(); r != nil {
			res = fmt.Sprintf("PANIC-IN-STAGE-B(%v)", r)
		}
	}()
	return wk.b(j, mid)
}

func runCase(c Case, ks *keyStore) (r Result) {
	r.Case = c
	if c.G < 1 || c.G > maxWorkers || c.Iters < 1 {
		r.Note = "bad case parameters"
		return
	}
	if c.Distinct < 1 {
		c.Distinct = 1
	}
	if c.MaxMs <= 0 {
		c.MaxMs = 5000
	}
	soloFirst := !c.SoloAfter || c.Mode == "split" // split needs inputs prepared alone
	r.Procs = runtime.GOMAXPROCS(0)
	if c.Procs > 0 {
		r.Procs = c.Procs // set for the phase in which several callers are active
	}
	ws := make([]*worker, c.G)
	for w := range ws {
		wk, err := mkWorker(c, w, ks)
		if err != nil {
			r.Note = fmt.Sprintf("cannot set up worker %d: %v", w, err)
			return
		}
		ws[w] = wk
		r.Algs = append(r.Algs, wk.alg)
	}
	// kept results (Hold): worker w's store is touched by the goroutine that runs worker w only; everything is looked
	// at again from this goroutine when nothing else runs (after the runs alone, after every phase)
	keeps := make([]*keeper, c.G)
	if c.Hold {
		for w := range ws {
			k := &keeper{w: w, items: map[string]*kept{}}
			keeps[w] = k
			ws[w].keep = k.keep
		}
	}
	var keptBad []Diff // differences seen in kept results (filled under mu once goroutines run)
	// alone: one worker after the other, nothing else running
	solo := make([][]string, c.G)
	soloMid := make([][]any, c.G)
	runAlone := func() {
		for w, wk := range ws {
			solo[w] = make([]string, c.Distinct)
			soloMid[w] = make([]any, c.Distinct)
			for j := 0; j < c.Distinct; j++ {
				mid, res := guardA(wk, j)
				if res == "" {
					res = guardB(wk, j, mid)
				}
				solo[w][j], soloMid[w][j] = res, mid
				if r.SoloBad == "" && (strings.Contains(res, "PANIC") || (wk.supported && !strings.HasPrefix(res, "ok") && !expectedFailure(c.Family, res))) {
					r.SoloBad = fmt.Sprintf("worker %d (%s), round trip %d run alone", w, wk.alg, j)
					if !soloFirst {
						r.SoloBad += " (after the concurrent phase)"
					}
					r.SoloBad += ": " + res
				}
			}
		}
		for w := range ws {
			r.Alone = append(r.Alone, solo[w][0])
		}
	}
	// recheckAll: every kept result of every caller, from this goroutine, while nothing else runs
	recheckAll := func(when string) bool {
		ok := true
		for w, k := range keeps {
			if k == nil {
				continue
			}
			if d := k.recheck(); d != nil {
				ok = false
				r.NDiffs++
				if len(r.Diffs) < 4 {
					r.Diffs = append(r.Diffs, Diff{w, d.j, ws[w].alg, "kept " + d.name + ", looked at again " + when, d.was, d.now})
				}
			}
		}
		return ok
	}
	if soloFirst {
		runAlone()
		if r.SoloBad != "" {
			return
		}
		// the runs alone are themselves a history "caller 0 finished, then caller 1 ran, ...": what caller 0 was given must still be there
		if !recheckAll("after the other callers had run alone, one after the other") {
			return
		}
	}
	if c.Procs > 0 {
		defer runtime.GOMAXPROCS(runtime.GOMAXPROCS(c.Procs))
	}
	r.Procs = runtime.GOMAXPROCS(0)

	type rec struct {
		i     int
		stage string
		res   string
	}
	var (
		mu               sync.Mutex
		stop             atomic.Bool
		inflight, maxInf atomic.Int32
		overlapped, ops  atomic.Int64
		got              = make([][]rec, c.G) // alone-after-concurrent: what every round trip gave, compared afterwards
	)
	enter := func() {
		cur := inflight.Add(1)
		if cur >= 2 {
			overlapped.Add(1)
		}
		for {
			m := maxInf.Load()
			if cur <= m || maxInf.CompareAndSwap(m, cur) {
				break
			}
		}
	}
	leave := func() { inflight.Add(-1) }
	report := func(w, i int, stage, want, got string) {
		mu.Lock()
		r.NDiffs++
		if len(r.Diffs) < 4 {
			r.Diffs = append(r.Diffs, Diff{w, i, ws[w].alg, stage, want, got})
		}
		mu.Unlock()
		stop.Store(true)
	}
	// check: false = this goroutine stops
	check := func(w, i int, stage, res string) bool {
		if soloFirst {
			if want := solo[w][i%c.Distinct]; res != want {
				report(w, i, stage, want, res)
				return false
			}
			return true
		}
		got[w] = append(got[w], rec{i, stage, res})
		if strings.Contains(res, "PANIC") {
			stop.Store(true) // judged below, against the result alone
			return false
		}
		return true
	}
	deadline := time.Now().Add(time.Duration(c.MaxMs) * time.Millisecond)
	more := func(i int) bool {
		return i < c.Iters && !stop.Load() && (i%8 != 0 || time.Now().Before(deadline))
	}
	// ownKept: after each of its calls a goroutine looks at what it still keeps from earlier calls (false = changed)
	ownKept := func(w int, after string) bool {
		if keeps[w] == nil {
			return true
		}
		d := keeps[w].takeBad()
		if d == nil {
			d = keeps[w].recheck()
		}
		if d == nil {
			return true
		}
		mu.Lock()
		keptBad = append(keptBad, Diff{w, d.j, ws[w].alg, "kept " + d.name + ", looked at again by its owner after its own " + after + " call while the other goroutines were running", d.was, d.now})
		mu.Unlock()
		stop.Store(true)
		return false
	}
	doA := func(w, j int) (any, string) {
		enter()
		mid, res := guardA(ws[w], j)
		leave()
		if !ownKept(w, "stage-A") && res == "" {
			res = "KEPT-RESULT-CHANGED"
		}
		return mid, res
	}
	doB := func(w, j int, mid any) string {
		enter()
		res := guardB(ws[w], j, mid)
		leave()
		ownKept(w, "stage-B")
		return res
	}
	phase := func(f func(w int)) {
		start := make(chan struct{})
		var ready, done sync.WaitGroup
		for w := 0; w < c.G; w++ {
			ready.Add(1)
			done.Add(1)
			go func(w int) {
				defer done.Done()
				ready.Done()
				<-start
				f(w)
			}(w)
		}
		ready.Wait()
		close(start)
		done.Wait()
	}
	t0 := time.Now()
	roundTrips := func(w int) {
		for i := 0; more(i); i++ {
			j := i % c.Distinct
			mid, res := doA(w, j)
			stage := "A"
			if res == "" {
				res, stage = doB(w, j, mid), "B"
			}
			ops.Add(1)
			if !check(w, i, stage, res) {
				return
			}
		}
	}
	switch c.Mode {
	case "sequential":
		// no goroutines: ONE goroutine runs the calls of all callers in an order drawn from the seed (stage A of a
		// round trip before its stage B): round 0 in a random interleaving, round 1 all A calls then all B calls,
		// round 2 caller by caller (A;B), and so on; after EVERY call every result any caller still keeps is
		// looked at again
		type step struct {
			w, j int
			b    bool
		}
		srng := lib.NewRand(c.Seed*7919 + 5)
		mids := make([][]any, c.G)
		for w := range mids {
			mids[w] = make([]any, c.Distinct)
		}
		n := 0
	rounds:
		for round := 0; round < c.Iters && !stop.Load() && time.Now().Before(deadline); round++ {
			var order []step
			var pairs []step
			for w := 0; w < c.G; w++ {
				for j := 0; j < c.Distinct; j++ {
					pairs = append(pairs, step{w, j, false})
				}
			}
			for i := len(pairs) - 1; i > 0; i-- {
				k := srng.Intn(i + 1)
				pairs[i], pairs[k] = pairs[k], pairs[i]
			}
			switch round % 3 {
			case 1:
				order = append(order, pairs...)
				for i := len(pairs) - 1; i >= 0; i-- {
					order = append(order, step{pairs[i].w, pairs[i].j, true})
				}
			case 2:
				for _, p := range pairs {
					order = append(order, p, step{p.w, p.j, true})
				}
			default:
				ready := append([]step(nil), pairs...)
				for len(ready) > 0 {
					k := srng.Intn(len(ready))
					st := ready[k]
					order = append(order, st)
					if st.b {
						ready = append(ready[:k], ready[k+1:]...)
					} else {
						ready[k].b = true
					}
				}
			}
			failed := map[[2]int]bool{}
			for _, st := range order {
				if n > 0 {
					overlapped.Add(1) // a call made while other callers keep results of finished calls
				}
				n++
				stage, res := "A", ""
				if !st.b {
					mids[st.w][st.j], res = doA(st.w, st.j)
					if res != "" {
						failed[[2]int{st.w, st.j}] = true
					}
				} else {
					if failed[[2]int{st.w, st.j}] {
						continue
					}
					stage, res = "B", doB(st.w, st.j, mids[st.w][st.j])
				}
				if st.b || res != "" {
					ops.Add(1)
					if !check(st.w, round*c.Distinct+st.j, stage, res) {
						break rounds
					}
				}
				if !recheckAll(fmt.Sprintf("right after the stage-%s call of caller %d (%s, round trip %d, round %d of the sequential history)", stage, st.w, ws[st.w].alg, st.j, round)) {
					stop.Store(true)
					break rounds
				}
			}
		}
	case "burst":
		type midRec struct {
			mid    any
			failed bool
		}
		mids := make([][]midRec, c.G)
		phase(func(w int) {
			for i := 0; more(i); i++ {
				mid, res := doA(w, i%c.Distinct)
				if res != "" {
					// stage A failed: that is the result of this round trip
					ops.Add(1)
					if !check(w, i, "A", res) {
						return
					}
				}
				mids[w] = append(mids[w], midRec{mid, res != ""})
			}
		})
		deadline = time.Now().Add(time.Duration(c.MaxMs) * time.Millisecond)
		phase(func(w int) {
			for i := 0; i < len(mids[w]) && more(i); i++ {
				if mids[w][i].failed {
					continue
				}
				res := doB(w, i%c.Distinct, mids[w][i].mid)
				ops.Add(1)
				if !check(w, i, "B", res) {
					return
				}
			}
		})
	case "split":
		phase(func(w int) {
			if w%2 == 1 {
				roundTrips(w)
				return
			}
			for i := 0; more(i); i++ {
				j := i % c.Distinct
				if soloMid[w][j] == nil {
					continue
				}
				res := doB(w, j, soloMid[w][j])
				ops.Add(1)
				if !check(w, i, "B", res) {
					return
				}
			}
		})
	default:
		phase(roundTrips)
	}
	// everything has finished: what every caller was given must still be what it was given
	if len(keptBad) > 0 {
		r.NDiffs += len(keptBad)
		for _, d := range keptBad {
			if len(r.Diffs) < 4 {
				r.Diffs = append(r.Diffs, d)
			}
		}
	} else if r.NDiffs == 0 {
		recheckAll("after all calls of all callers had finished")
	}
	r.ElapsedMs = int(time.Since(t0).Milliseconds())
	r.Ops = int(ops.Load())
	r.Overlapped = int(overlapped.Load())
	r.MaxInfl = int(maxInf.Load())
	if !soloFirst {
		runAlone()
		if r.SoloBad != "" {
			return
		}
		if r.NDiffs == 0 {
			recheckAll("after the runs alone that followed the other calls")
		}
		for w := range got {
			seen := false
			for _, g := range got[w] {
				if want := solo[w][g.i%c.Distinct]; g.res != want {
					if !seen {
						r.NDiffs++ // as in the other order: goroutines that saw a difference
						seen = true
					}
					if len(r.Diffs) < 4 {
						r.Diffs = append(r.Diffs, Diff{w, g.i, ws[w].alg, g.stage, want, g.res})
					}
				}
			}
		}
	}
	return
}

// ---------- kept results ----------

type kept struct {
	j       int
	name    string
	b, snap []byte
}

type keptDiff struct {
	j        int
	name     string
	was, now string
}

// keeper: the results one caller keeps. keep() replaces the result of an earlier run of the same round trip — after
// looking at the old one a last time.
type keeper struct {
	w     int
	items map[string]*kept
	order []string
	bad   *keptDiff
}

func (k *keeper) keep(j int, name string, b []byte) {
	key := fmt.Sprintf("%d/%s", j, name)
	if old := k.items[key]; old != nil {
		if d := old.diff(); d != nil && k.bad == nil {
			k.bad = d
		}
	} else {
		k.order = append(k.order, key)
	}
	k.items[key] = &kept{j, name, b, append([]byte(nil), b...)}
}

func (k *keeper) takeBad() *keptDiff {
	d := k.bad
	k.bad = nil
	return d
}

func (k *keeper) recheck() *keptDiff {
	if d := k.takeBad(); d != nil {
		return d
	}
	for _, key := range k.order {
		if d := k.items[key].diff(); d != nil {
			return d
		}
	}
	return nil
}

func (x *kept) diff() *keptDiff {
	if bytes.Equal(x.b, x.snap) {
		return nil
	}
	at := 0
	for at < len(x.b) && x.b[at] == x.snap[at] {
		at++
	}
	end := at + 8
	if end > len(x.b) {
		end = len(x.b)
	}
	changed := 0
	for i := range x.b {
		if x.b[i] != x.snap[i] {
			changed++
		}
	}
	return &keptDiff{x.j, x.name,
		fmt.Sprintf("%d bytes as handed out by the library, bytes %d..%d = %x", len(x.snap), at, end, x.snap[at:end]),
		fmt.Sprintf("%d of the %d bytes differ, bytes %d..%d = %x", changed, len(x.b), at, end, x.b[at:end])}
}

// expectedFailure: results a SUPPORTED algorithm legitimately gives alone in this generator
// (padding family: an invalid block size is part of the inputs).
func expectedFailure(family, res string) bool {
	return family == "padding" && strings.HasPrefix(res, "pad=pkcs7:_invalid_block_size")
}

func main() {
	casesF := flag.String("cases", "", "JSON file: list of cases")
	from := flag.Int("from", 0, "first case index to run")
	repeat := flag.Int("repeat", 1, "run every case up to this many times (stops at the first run with a difference)")
	totalMs := flag.Int("total-ms", 0, "stop starting new cases after this long (0 = no limit); the remaining cases are reported as skipped")
	list := flag.Bool("list", false, "print the algorithms of every family (from the tree under test) and exit")
	flag.Parse()
	if *list {
		m := map[string][]string{}
		for _, f := range []string{"asym", "asym-generic", "sig", "sym", "sym-generic", "aeskw", "aescbcaead", "padding", "keys", "pem", "enc-wrap"} {
			m[f] = FamilyAlgs(f)
		}
		b, _ := json.Marshal(m)
		os.Stdout.Write(b)
		return
	}
	raw, err := os.ReadFile(*casesF)
	if err != nil {
		fmt.Fprintln(os.Stderr, "cryptoov:", err)
		os.Exit(2)
	}
	var cases []Case
	if err := json.Unmarshal(raw, &cases); err != nil {
		fmt.Fprintln(os.Stderr, "cryptoov:", err)
		os.Exit(2)
	}
	ks := &keyStore{}
	out := bufio.NewWriter(os.Stdout)
	began := time.Now()
	for i := *from; i < len(cases); i++ {
		fmt.Fprintf(os.Stderr, "CASE %d\n", i)
		var r Result
		if *totalMs > 0 && time.Since(began) > time.Duration(*totalMs)*time.Millisecond {
			r = Result{Index: i, Case: cases[i], Skipped: true}
			b, _ := json.Marshal(r)
			out.Write(b)
			out.WriteByte('\n')
			out.Flush()
			continue
		}
		for k := 0; k < *repeat; k++ {
			r = runCase(cases[i], ks)
			r.Runs = k + 1
			if r.NDiffs > 0 || r.SoloBad != "" || r.Note != "" {
				break
			}
		}
		r.Index = i
		b, _ := json.Marshal(r)
		out.Write(b)
		out.WriteByte('\n')
		out.Flush()
	}
	fmt.Fprintln(os.Stderr, "CASE done")
}
