package main

// byteslicepool, live-slice family: 2–3 logical callers share one ByteSlicePool and run the
// typical cycles — Get, Resize (within capacity, beyond, far beyond), write a pattern, Put of the
// original and/or of the resized slice — interleaved on ONE goroutine (sync.Pool's per-P cache
// then hands a just-Put slice to the next Get deterministically) and, separately, on one goroutine
// per caller.  Monitors (independent of the model):
//   - no two live slices (slices a caller has obtained from Get/Resize and not yet Put) share a
//     backing array (address ranges [base, base+cap) by unsafe.SliceData);
//   - the bytes of a live slice never change except by its owner;
//   - a caller never sees another caller's pattern inside a result's [0:len);
//   - each caller's observations (lengths, preserved prefixes) equal those of its run alone.
// finding id: byteslicepool-live-slice-repooled.
// T2: single-acquisition scripts against the model's bspFresh/bspResize (len, cap, elements).

import (
	"crypto/sha256"
	"encoding/hex"
	"encoding/json"
	"fmt"
	"runtime"
	"strconv"
	"strings"
	"sync"
	"time"
	"unsafe"

	"github.com/dapr/kit/byteslicepool"

	"verifharness/cmd/c08/wl"
	"verifharness/lib"
)

const findRepooled = "byteslicepool-live-slice-repooled"

type bspOp struct {
	Caller int    `json:"c"`
	Op     string `json:"op"` // get | resize | fill | putcur | putorig
	N      int    `json:"n,omitempty"`
}

type bspLiveCase struct {
	Kind       string  `json:"kind"` // bsp-live
	MinCap     int     `json:"min_cap"`
	Callers    int     `json:"callers"`
	Ops        []bspOp `json:"ops"`
	Concurrent bool    `json:"concurrent"`
}

type liveArr struct {
	base   uintptr
	view   []byte // [0:cap)
	shadow []byte
}

type bspCaller struct {
	id      int
	orig    []byte
	cur     []byte
	hasOrig bool
	hasCur  bool
	arrs    []*liveArr
	fills   int
	valid   int // leading bytes of cur written by the caller since its Get
	obs     []string
}

func baseOf(s []byte) uintptr { return uintptr(unsafe.Pointer(unsafe.SliceData(s[:cap(s)]))) }

func (c *bspCaller) find(s []byte) *liveArr {
	if cap(s) == 0 {
		return nil
	}
	b := baseOf(s)
	for _, a := range c.arrs {
		if a.base == b {
			return a
		}
	}
	return nil
}

func (c *bspCaller) hold(s []byte) {
	if cap(s) == 0 || c.find(s) != nil {
		return
	}
	v := s[:cap(s)]
	c.arrs = append(c.arrs, &liveArr{base: baseOf(s), view: v})
}

func (c *bspCaller) drop(s []byte) {
	if cap(s) == 0 {
		return
	}
	b := baseOf(s)
	for i, a := range c.arrs {
		if a.base == b {
			c.arrs = append(c.arrs[:i], c.arrs[i+1:]...)
			return
		}
	}
}

func (c *bspCaller) snapshot() {
	for _, a := range c.arrs {
		a.shadow = append(a.shadow[:0], a.view...)
	}
}

// changed reports a live array of c whose bytes differ from what c left there.
func (c *bspCaller) changed() string {
	for _, a := range c.arrs {
		if len(a.shadow) != len(a.view) {
			continue
		}
		for i := range a.view {
			if a.view[i] != a.shadow[i] {
				return fmt.Sprintf("caller %d: byte %d of a slice it still owns (cap %d) changed from %#x to %#x", c.id, i, len(a.view), a.shadow[i], a.view[i])
			}
		}
	}
	return ""
}

func (c *bspCaller) pattern() byte { return byte(0x10*(c.id+1) + c.fills%15 + 1) }

// foreign reports a byte of another caller's pattern inside s.
func (c *bspCaller) foreign(s []byte) string {
	for i, x := range s {
		if x != 0 && int(x>>4) != c.id+1 {
			return fmt.Sprintf("caller %d: result byte %d is %#x, a pattern of caller %d", c.id, i, x, int(x>>4)-1)
		}
	}
	return ""
}

// apply runs one operation of caller c against the real pool; returns a monitor complaint or "".
func (c *bspCaller) apply(p *byteslicepool.ByteSlicePool, op bspOp) string {
	switch op.Op {
	case "get":
		// whatever the caller still holds from its previous acquisition is abandoned (left to
		// the garbage collector), independently of how Resize happened to be served
		if c.hasCur {
			c.drop(c.cur)
		}
		if c.hasOrig {
			c.drop(c.orig)
		}
		c.valid = 0
		b := p.Get(op.N)
		c.orig, c.cur, c.hasOrig, c.hasCur = b, b, true, true
		c.hold(b)
		c.obs = append(c.obs, fmt.Sprintf("get:len=%d", len(b)))
		if len(b) != 0 {
			return fmt.Sprintf("caller %d: Get returned len %d", c.id, len(b))
		}
	case "resize":
		if !c.hasCur {
			return ""
		}
		old := len(c.cur)
		var keep []byte
		keep = append(keep, c.cur...)
		r := p.Resize(c.cur, op.N)
		c.cur = r
		c.hold(r)
		// only the bytes the caller has written since the Get are defined by Resize's contract
		_ = old
		k := c.valid
		if op.N < k {
			k = op.N
		}
		c.valid = k
		h := sha256.Sum256(r[:k])
		c.obs = append(c.obs, fmt.Sprintf("resize:len=%d,prefix=%d:%s", len(r), k, hex.EncodeToString(h[:4])))
		if len(r) != op.N {
			return fmt.Sprintf("caller %d: Resize(%d) returned len %d", c.id, op.N, len(r))
		}
		if string(r[:k]) != string(keep[:k]) {
			return fmt.Sprintf("caller %d: Resize did not preserve the first %d bytes", c.id, k)
		}
		if f := c.foreign(r); f != "" {
			return f
		}
	case "fill":
		if !c.hasCur {
			return ""
		}
		c.fills++
		pat := c.pattern()
		for i := range c.cur {
			c.cur[i] = pat
		}
		c.valid = len(c.cur)
		c.obs = append(c.obs, fmt.Sprintf("fill:%d", len(c.cur)))
	case "putcur":
		if !c.hasCur {
			return ""
		}
		if c.hasOrig && cap(c.orig) > 0 && cap(c.cur) > 0 && baseOf(c.orig) == baseOf(c.cur) {
			c.hasOrig = false
		}
		p.Put(c.cur)
		c.drop(c.cur)
		c.hasCur = false
	case "putorig":
		if !c.hasOrig {
			return ""
		}
		if c.hasCur && cap(c.orig) > 0 && cap(c.cur) > 0 && baseOf(c.orig) == baseOf(c.cur) {
			c.hasCur = false
		}
		p.Put(c.orig)
		c.drop(c.orig)
		c.hasOrig = false
	}
	return ""
}

func overlap(callers []*bspCaller) string {
	type rg struct {
		lo, hi uintptr
		c      int
	}
	var all []rg
	for _, c := range callers {
		for _, a := range c.arrs {
			all = append(all, rg{a.base, a.base + uintptr(len(a.view)), c.id})
		}
	}
	for i := range all {
		for j := i + 1; j < len(all); j++ {
			if all[i].lo < all[j].hi && all[j].lo < all[i].hi {
				return fmt.Sprintf("callers %d and %d both hold live slices over one backing array (caps %d and %d)", all[i].c, all[j].c, all[i].hi-all[i].lo, all[j].hi-all[j].lo)
			}
		}
	}
	return ""
}

// runBspLiveSeq: all callers on the calling goroutine, in the order of c.Ops.
func runBspLiveSeq(c bspLiveCase) (complaint string, obs [][]string) {
	p := byteslicepool.NewByteSlicePool(c.MinCap)
	callers := make([]*bspCaller, c.Callers)
	for i := range callers {
		callers[i] = &bspCaller{id: i}
	}
	for step, op := range c.Ops {
		me := callers[op.Caller]
		// nobody's live bytes may have changed since their owner last acted
		for _, o := range callers {
			if ch := o.changed(); ch != "" {
				return fmt.Sprintf("before step %d (%s by caller %d): %s", step, op.Op, op.Caller, ch), nil
			}
		}
		if m := me.apply(p, op); m != "" {
			return fmt.Sprintf("step %d: %s", step, m), nil
		}
		me.snapshot()
		for _, o := range callers {
			if o != me {
				if ch := o.changed(); ch != "" {
					return fmt.Sprintf("step %d (%s %d by caller %d): %s", step, op.Op, op.N, op.Caller, ch), nil
				}
			}
		}
		if ov := overlap(callers); ov != "" {
			return fmt.Sprintf("after step %d (%s %d by caller %d): %s", step, op.Op, op.N, op.Caller, ov), nil
		}
	}
	for _, o := range callers {
		obs = append(obs, o.obs)
	}
	return "", obs
}

// runBspLiveConc: one goroutine per caller; overlap is checked under a lock whenever a caller
// acquires or releases, own bytes before each own operation.
func runBspLiveConc(c bspLiveCase) (complaint string, obs [][]string) {
	p := byteslicepool.NewByteSlicePool(c.MinCap)
	callers := make([]*bspCaller, c.Callers)
	for i := range callers {
		callers[i] = &bspCaller{id: i}
	}
	var mu sync.Mutex
	var first string
	report := func(s string) {
		if s != "" && first == "" {
			first = s
		}
	}
	var wg sync.WaitGroup
	for _, me := range callers {
		wg.Add(1)
		go func(me *bspCaller) {
			defer wg.Done()
			for _, op := range c.Ops {
				if op.Caller != me.id {
					continue
				}
				// operations are serialised by the harness lock (its own bookkeeping must be race
				// free); the callers still run on different goroutines / Ps, so sync.Pool's per-P
				// caches and victim lists recycle differently from the single-goroutine runs
				mu.Lock()
				report(me.changed())
				report(me.apply(p, op))
				me.snapshot()
				report(overlap(callers))
				mu.Unlock()
				runtime.Gosched()
			}
		}(me)
	}
	wg.Wait()
	for _, o := range callers {
		obs = append(obs, o.obs)
	}
	return first, obs
}

// soloObs: what each caller observes when it runs its operations alone on a pool of its own.
func soloObs(c bspLiveCase) [][]string {
	out := make([][]string, c.Callers)
	for k := 0; k < c.Callers; k++ {
		p := byteslicepool.NewByteSlicePool(c.MinCap)
		me := &bspCaller{id: k}
		for _, op := range c.Ops {
			if op.Caller == k {
				me.apply(p, op)
			}
		}
		out[k] = me.obs
	}
	return out
}

func genBspLive(rng *lib.Rand, conc bool) bspLiveCase {
	c := bspLiveCase{Kind: "bsp-live", MinCap: []int{8, 16, 32}[rng.Intn(3)], Callers: rng.Range(2, 3), Concurrent: conc}
	// each caller: 1–3 acquisitions, each `get, (resize|fill)*, puts`
	scripts := make([][]bspOp, c.Callers)
	for k := range scripts {
		for a := rng.Range(1, 3); a > 0; a-- {
			cp := []int{c.MinCap / 2, c.MinCap, c.MinCap * 2, c.MinCap * 4}[rng.Intn(4)]
			scripts[k] = append(scripts[k], bspOp{k, "get", cp})
			cur := cp
			if cur < c.MinCap {
				cur = c.MinCap
			}
			for r := rng.Range(1, 4); r > 0; r-- {
				var sz int
				switch rng.Intn(4) {
				case 0:
					sz = rng.Range(0, cur-1) // within capacity
				case 1:
					sz = cur // exactly the capacity: grows
				case 2:
					sz = cur + rng.Range(1, cur) // beyond
				default:
					sz = cur * rng.Range(3, 5) // far beyond
				}
				if sz >= cur {
					n := cur * 2
					if sz > n {
						n = sz
					}
					cur = n
				}
				scripts[k] = append(scripts[k], bspOp{k, "resize", sz})
				if rng.Intn(4) != 0 {
					scripts[k] = append(scripts[k], bspOp{k, "fill", 0})
				}
			}
			switch rng.Intn(4) {
			case 0:
				scripts[k] = append(scripts[k], bspOp{k, "putcur", 0})
			case 1:
				scripts[k] = append(scripts[k], bspOp{k, "putorig", 0})
			case 2: // `defer Put(buf)` of the original plus the grown one
				scripts[k] = append(scripts[k], bspOp{k, "putcur", 0}, bspOp{k, "putorig", 0})
			default:
				scripts[k] = append(scripts[k], bspOp{k, "putorig", 0}, bspOp{k, "putcur", 0})
			}
		}
	}
	// random interleaving that keeps each caller's order
	idx := make([]int, c.Callers)
	for {
		var open []int
		for k := range scripts {
			if idx[k] < len(scripts[k]) {
				open = append(open, k)
			}
		}
		if len(open) == 0 {
			break
		}
		k := open[rng.Intn(len(open))]
		// run a few operations of the same caller in a row now and then
		for n := rng.Range(1, 3); n > 0 && idx[k] < len(scripts[k]); n-- {
			c.Ops = append(c.Ops, scripts[k][idx[k]])
			idx[k]++
		}
	}
	return c
}

// the two schedules of the seeded change's description, always run first
func directedBspLive() []bspLiveCase {
	return []bspLiveCase{
		// A: Get, fill, Resize beyond capacity, deferred Put of the original; then B and C Get and write
		{Kind: "bsp-live", MinCap: 32, Callers: 3, Ops: []bspOp{
			{0, "get", 32}, {0, "resize", 32}, {0, "fill", 0}, {0, "resize", 200}, {0, "putorig", 0},
			{1, "get", 32}, {1, "resize", 32}, {1, "fill", 0},
			{2, "get", 32}, {2, "resize", 32}, {2, "fill", 0},
			{1, "resize", 32}, {1, "putcur", 0}, {2, "putcur", 0}, {0, "putcur", 0}}},
		// A keeps the original after growing; an unrelated Get/Put cycle must not wipe it
		{Kind: "bsp-live", MinCap: 32, Callers: 2, Ops: []bspOp{
			{0, "get", 32}, {0, "resize", 32}, {0, "fill", 0}, {0, "resize", 100},
			{1, "get", 32}, {1, "resize", 9}, {1, "fill", 0}, {1, "putcur", 0},
			{0, "fill", 0}, {0, "putorig", 0}, {0, "putcur", 0}}},
	}
}

func checkBspLiveCase(res *lib.Result, c bspLiveCase) {
	var complaint string
	var obs [][]string
	g := wl.Guard(30*time.Second, func() string {
		if c.Concurrent {
			complaint, obs = runBspLiveConc(c)
		} else {
			complaint, obs = runBspLiveSeq(c)
		}
		return "ok"
	})
	key, _ := json.Marshal(c)
	grows := 0
	for _, op := range c.Ops {
		if op.Op == "resize" {
			grows++
		}
	}
	res.Count("bsplive:"+string(key), grows > 0 && c.Callers >= 2)
	res.Hit(fmt.Sprintf("bsplive:concurrent=%v", c.Concurrent))
	res.Hit("bsplive:callers=" + strconv.Itoa(c.Callers))
	if g != "ok" {
		res.Violate(findRepooled, "byteslicepool script: "+g, c)
		return
	}
	if complaint != "" {
		res.Violate(findRepooled, complaint, c)
		return
	}
	solo := soloObs(c)
	for k := range solo {
		if strings.Join(solo[k], " ") != strings.Join(obs[k], " ") {
			res.Violate(findRepooled, fmt.Sprintf("caller %d observes %v sharing the pool, %v alone", k, obs[k], solo[k]), c)
			return
		}
	}
}

// ---- T2: one acquisition against the model's bspFresh / bspResize ----

func bspScriptImpl(minCap int, toks []string) string {
	p := byteslicepool.NewByteSlicePool(minCap)
	var cur []byte
	var out []string
	for _, t := range toks {
		n, _ := strconv.Atoi(t[1:])
		switch t[0] {
		case 'g':
			cur = p.Get(n)
		case 'r':
			cur = p.Resize(cur, n)
		case 'f':
			for i := range cur {
				cur[i] = byte(n)
			}
		}
		out = append(out, fmt.Sprintf("%d/%d/%s", len(cur), cap(cur), hex.EncodeToString(cur)))
	}
	return strings.Join(out, " ")
}

func checkBspLive(res *lib.Result, drv *lib.Drv, rng *lib.Rand, budget int) {
	for _, c := range directedBspLive() {
		checkBspLiveCase(res, c)
		cc := c
		cc.Concurrent = true
		checkBspLiveCase(res, cc)
	}
	for i := 0; i < 60*budget; i++ {
		checkBspLiveCase(res, genBspLive(rng, false))
	}
	for i := 0; i < 30*budget; i++ {
		checkBspLiveCase(res, genBspLive(rng, true))
	}
	// T2
	for i := 0; i < 20*budget; i++ {
		minCap := []int{4, 8, 16}[rng.Intn(3)]
		toks := []string{"g" + strconv.Itoa(rng.Range(1, 24))}
		for k := rng.Range(1, 6); k > 0; k-- {
			if rng.Intn(3) == 0 {
				toks = append(toks, "f"+strconv.Itoa(rng.Range(1, 255)))
			} else {
				toks = append(toks, "r"+strconv.Itoa(rng.Range(0, 70)))
			}
		}
		impl := wl.Guard(10*time.Second, func() string { return bspScriptImpl(minCap, toks) })
		line := fmt.Sprintf("bsp mincap=%d ops=%s", minCap, strings.Join(toks, ","))
		res.Count(line, true)
		res.Hit("bsp-script")
		if drv == nil {
			continue
		}
		out, err := drv.Ask(line)
		if err != nil {
			res.Disagree("driver", line, "answers", err.Error())
			return
		}
		res.Traces++
		if out != impl {
			res.Disagree("ByteSlicePool Get/Resize/fill on one acquisition: len, cap, elements after every call", map[string]any{"kind": "bsp-script", "min_cap": minCap, "ops": toks}, out, impl)
		}
	}
}
