// fkstress: many concurrent Encrypt STARTS (tiny plaintexts). Run as a child process by the C08
// harness (a panic inside a library goroutine kills this process, not the harness; the parent
// turns that into a violation), also built with -race in the thorough tier.
// Monitors: no panic, no error, and the (file key, nonce prefix) pairs of all documents are
// pairwise distinct. File key = what WrapKeyFn receives; nonce prefix = "np" of the manifest.
package main

import (
	"encoding/hex"
	"encoding/json"
	"flag"
	"fmt"
	"io"
	"os"
	"runtime"
	"strings"
	"sync"

	enc "github.com/dapr/kit/schemes/enc/v1"
)

type out struct {
	Goroutines int      `json:"goroutines"`
	Starts     int      `json:"starts"`
	Errors     []string `json:"errors"`
	Panics     []string `json:"panics"`
	Dups       []string `json:"duplicates"`
	Distinct   int      `json:"distinct_pairs"`
}

func main() {
	per := flag.Int("per", 300, "Encrypt starts per goroutine")
	mult := flag.Int("mult", 4, "goroutines = mult * GOMAXPROCS")
	outf := flag.String("out", "", "")
	flag.Parse()
	g := *mult * runtime.GOMAXPROCS(0)
	if g < 8 {
		g = 8
	}
	var mu sync.Mutex
	res := out{Goroutines: g}
	seen := map[string]int{}
	start := make(chan struct{})
	var ready, done sync.WaitGroup
	for w := 0; w < g; w++ {
		ready.Add(1)
		done.Add(1)
		go func(w int) {
			defer done.Done()
			ready.Done()
			<-start
			for i := 0; i < *per; i++ {
				func() {
					defer func() {
						if r := recover(); r != nil {
							mu.Lock()
							if len(res.Panics) < 5 {
								res.Panics = append(res.Panics, fmt.Sprintf("goroutine %d, start %d: %v", w, i, r))
							}
							mu.Unlock()
						}
					}()
					var fk string
					r, err := enc.Encrypt(strings.NewReader("x"), enc.EncryptOptions{Algorithm: enc.KeyAlgorithmAES256KW, KeyName: "k",
						WrapKeyFn: func(k []byte, alg, kn string, nonce []byte) ([]byte, []byte, error) {
							fk = hex.EncodeToString(k)
							return append([]byte(nil), k...), nil, nil
						}})
					if err == nil {
						var doc []byte
						doc, err = io.ReadAll(r)
						if err == nil {
							lines := strings.SplitN(string(doc), "\n", 3)
							var m struct {
								NP string `json:"np"`
							}
							if len(lines) < 3 || json.Unmarshal([]byte(lines[1]), &m) != nil || m.NP == "" {
								err = fmt.Errorf("no nonce prefix in the manifest %q", lines)
							} else {
								key := fk + "/" + m.NP
								mu.Lock()
								res.Starts++
								seen[key]++
								if seen[key] == 2 && len(res.Dups) < 5 {
									res.Dups = append(res.Dups, key)
								}
								mu.Unlock()
							}
						}
					}
					if err != nil {
						mu.Lock()
						if len(res.Errors) < 5 {
							res.Errors = append(res.Errors, fmt.Sprintf("goroutine %d, start %d: %v", w, i, err))
						}
						mu.Unlock()
					}
				}()
			}
		}(w)
	}
	ready.Wait()
	close(start)
	done.Wait()
	res.Distinct = len(seen)
	b, _ := json.Marshal(res)
	if *outf == "" {
		os.Stdout.Write(b)
		return
	}
	_ = os.WriteFile(*outf, b, 0o644)
}
